package main

// c41.go — property C41: every dispatch path releases the Arrow memory it
// allocates. The decisive evidence is run-time: every case is a HISTORY of
// real calls (pipe and HTTP) and, around every single request, the harness
// reads the shared leak-checking allocator of vgirpc/alloc_leakcheck.go
// (outstanding bytes and number of live allocations). Both must be back at
// their value before the request.
//
// The checked allocator is a COMPILE-TIME choice in /repo (alloc.go vs
// alloc_leakcheck.go select defaultAllocator() by the build tag `leakcheck`;
// there is no variable to swap at run time). So the single `vh` binary
// (tags: verif) cannot observe anything for this property: `vh C41 ...`
// builds (go build, incremental) the same harness with -tags "verif leakcheck"
// into <dir of vh>/vh_leak and re-executes it with the same arguments — see
// c41_plain.go. c41_leak.go is the other half of that pair.
//
// Path classes: (transport, method kind, exit, feature), the table lives in
// the hook /repo/vgirpc/verif_c41.go (VerifC41Classes) and is the list the
// harness sweeps (one real call per class, every run) — the Coq theorem
// C41.paths_exhaustive requires it to equal the model's own enumeration.

import (
	"bytes"
	"context"
	"errors"
	"fmt"
	"io"
	"math/rand"
	"net/http"
	"sort"
	"strconv"
	"strings"
	"sync"
	"time"

	"github.com/Query-farm/vgi-rpc-go/vgirpc"
	"github.com/apache/arrow-go/v18/arrow"
	"github.com/apache/arrow-go/v18/arrow/array"
	"github.com/apache/arrow-go/v18/arrow/ipc"
	"github.com/apache/arrow-go/v18/arrow/memory"
)

// ---------------------------------------------------------------- input / obs

type c41Call struct {
	T   string `json:"t"`   // P | H
	K   string `json:"k"`   // U V R X
	E   string `json:"e"`   // exit code (see verif_c41.go)
	F   string `json:"f"`   // feature code
	Pre int    `json:"pre"` // successful stream turns before the exit turn
}

type c41In struct {
	Calls []c41Call `json:"calls"`
}

type c41CallObs struct {
	Class    string `json:"class"`
	DBytes   int64  `json:"d_bytes"`  // sum over the call's requests of |outstanding bytes after - before|
	DAllocs  int64  `json:"d_allocs"` // same for live allocations
	Exc      bool   `json:"exc"`      // the last response carried an exception batch or a >= 400 status
	Requests int    `json:"requests"`
	Tracked  int64  `json:"tracked_allocs"` // allocations made through the checked allocator during the call
	Leak     string `json:"leak_sites,omitempty"`
	Note     string `json:"note,omitempty"`
}

// ---------------------------------------------------------------- scripted user code

type c41Script struct {
	Logs bool
	Init string // ok | err | panic | nil
	Acts []string
}

var c41cur c41Script

// C41State is the gob-serialisable scripted stream state (always a StreamCanceller).
type C41State struct {
	Acts []string
	Pos  int
	Logs bool
}

func init() { vgirpc.RegisterStateType(&C41State{}) }

var (
	// a utf8 column makes even the zero-row batches (logs, errors, tokens, pointers)
	// allocate through the checked allocator (an empty offsets buffer is still a buffer).
	c41OutSchema = arrow.NewSchema([]arrow.Field{{Name: "v", Type: arrow.PrimitiveTypes.Int64}, {Name: "s", Type: arrow.BinaryTypes.String}}, nil)
	c41InSchema  = arrow.NewSchema([]arrow.Field{{Name: "x", Type: arrow.PrimitiveTypes.Int64}}, nil)
	c41In32      = arrow.NewSchema([]arrow.Field{{Name: "x", Type: arrow.PrimitiveTypes.Int32}}, nil)
	c41InStr     = arrow.NewSchema([]arrow.Field{{Name: "x", Type: arrow.BinaryTypes.String}}, nil)
	c41BadParams = arrow.NewSchema([]arrow.Field{{Name: "y", Type: arrow.BinaryTypes.String}}, nil)
	c41TwoCols   = arrow.NewSchema([]arrow.Field{{Name: "v", Type: arrow.PrimitiveTypes.Int64}, {Name: "w", Type: arrow.PrimitiveTypes.Int64}, {Name: "z", Type: arrow.PrimitiveTypes.Int64}}, nil)
	c41Empty     = arrow.NewSchema(nil, nil)
)

func (s *C41State) step(producer bool, in arrow.RecordBatch, out *vgirpc.OutputCollector) error {
	act := "emit"
	if s.Pos < len(s.Acts) {
		act = s.Acts[s.Pos]
	} else if producer {
		act = "finish"
	}
	val := int64(s.Pos)
	s.Pos++
	if in != nil {
		val += sumInt64Col(in)
	}
	if s.Logs {
		out.ClientLog(vgirpc.LogInfo, "turn", vgirpc.KV{Key: "k", Value: "v"})
	}
	emit := func() error { return out.EmitMap(map[string][]interface{}{"v": {val}, "s": {"row"}}) }
	switch act {
	case "emit":
		return emit()
	case "err":
		if err := emit(); err != nil {
			return err
		}
		return errors.New("turn failed")
	case "panic":
		_ = emit()
		panic("turn panic")
	case "noemit":
		out.ClientLog(vgirpc.LogInfo, "nothing to say")
		return nil
	case "dbl":
		if err := emit(); err != nil {
			return err
		}
		return emit()
	case "finish":
		return out.Finish()
	case "bad":
		// a batch whose column count differs from the declared output schema
		// is stored as-is; the IPC writer then refuses it (write error path).
		b := c41Batch(c41TwoCols, [][]int64{{val}, {val}, {val}})
		err := out.Emit(b)
		out.ClientLog(vgirpc.LogInfo, "after the bad batch")
		return err
	}
	return fmt.Errorf("bad act %q", act)
}

func (s *C41State) Produce(_ context.Context, out *vgirpc.OutputCollector, _ *vgirpc.CallContext) error {
	return s.step(true, nil, out)
}

func (s *C41State) Exchange(_ context.Context, in arrow.RecordBatch, out *vgirpc.OutputCollector, _ *vgirpc.CallContext) error {
	return s.step(false, in, out)
}

func (s *C41State) OnCancel(context.Context, *vgirpc.CallContext) error { return nil }

// C41Hdr is the stream header of the *_h methods.
type C41Hdr struct {
	H int64 `arrow:"h"`
}

func (C41Hdr) ArrowSchema() *arrow.Schema {
	return arrow.NewSchema([]arrow.Field{{Name: "h", Type: arrow.PrimitiveTypes.Int64}}, nil)
}

func c41NewServer() *vgirpc.Server {
	s := vgirpc.NewServer()
	// the valued method returns a string: a zero-row utf8 column (pointer batch,
	// error batch in the result schema) still owns an offsets buffer, so every
	// batch built over the result schema is visible to the checked allocator.
	unary := func(cc *vgirpc.CallContext, p PInt) (string, error) {
		c := c41cur
		if c.Logs {
			cc.ClientLog(vgirpc.LogInfo, "unary", vgirpc.KV{Key: "k", Value: "v"})
			cc.ClientLog(vgirpc.LogDebug, "unary2")
		}
		switch c.Init {
		case "err":
			return "", &vgirpc.RpcError{Type: "ValueError", Message: "handler failed"}
		case "panic":
			panic("handler panic")
		}
		return "r" + strconv.FormatInt(p.X+1, 10), nil
	}
	vgirpc.Unary(s, "u", func(_ context.Context, cc *vgirpc.CallContext, p PInt) (string, error) { return unary(cc, p) })
	vgirpc.UnaryVoid(s, "v", func(_ context.Context, cc *vgirpc.CallContext, p PInt) error {
		_, err := unary(cc, p)
		return err
	})
	initH := func(exchange, header bool) func(context.Context, *vgirpc.CallContext, PInt) (*vgirpc.StreamResult, error) {
		return func(_ context.Context, cc *vgirpc.CallContext, p PInt) (*vgirpc.StreamResult, error) {
			c := c41cur
			if c.Logs {
				cc.ClientLog(vgirpc.LogInfo, "init", vgirpc.KV{Key: "k", Value: "v"})
			}
			switch c.Init {
			case "err":
				return nil, errors.New("init failed")
			case "panic":
				panic("init panic")
			case "nil":
				return nil, nil
			}
			r := &vgirpc.StreamResult{OutputSchema: c41OutSchema, State: &C41State{Acts: c.Acts, Logs: c.Logs}}
			if exchange {
				r.InputSchema = c41InSchema
			}
			if header {
				r.Header = C41Hdr{H: p.X}
			}
			return r, nil
		}
	}
	vgirpc.Producer(s, "r", c41OutSchema, initH(false, false))
	vgirpc.ProducerWithHeader(s, "rh", c41OutSchema, C41Hdr{}.ArrowSchema(), initH(false, true))
	vgirpc.Exchange(s, "x", c41OutSchema, c41InSchema, initH(true, false))
	vgirpc.ExchangeWithHeader(s, "xh", c41OutSchema, c41InSchema, C41Hdr{}.ArrowSchema(), initH(true, true))
	return s
}

// ---------------------------------------------------------------- in-memory external storage

type c41Store struct {
	mu   sync.Mutex
	objs map[string][]byte
	n    int
}

func (st *c41Store) Upload(data []byte, _ *arrow.Schema, _ string) (string, error) {
	st.mu.Lock()
	defer st.mu.Unlock()
	st.n++
	u := "https://c41.mem/o/" + strconv.Itoa(st.n)
	st.objs[u] = append([]byte(nil), data...)
	return u, nil
}

func (st *c41Store) RoundTrip(req *http.Request) (*http.Response, error) {
	st.mu.Lock()
	data, ok := st.objs[req.URL.String()]
	st.mu.Unlock()
	code := 200
	if !ok {
		code, data = 404, nil
	}
	return &http.Response{StatusCode: code, Status: http.StatusText(code), Proto: "HTTP/1.1", ProtoMajor: 1, ProtoMinor: 1,
		Header: http.Header{}, Body: io.NopCloser(bytes.NewReader(data)), ContentLength: int64(len(data)), Request: req}, nil
}

// ---------------------------------------------------------------- batches (harness side: untracked GoAllocator)

var c41mem = memory.NewGoAllocator()

func c41Batch(schema *arrow.Schema, cols [][]int64) arrow.RecordBatch {
	arrs := make([]arrow.Array, len(cols))
	rows := int64(0)
	for i, vals := range cols {
		rows = int64(len(vals))
		switch schema.Field(i).Type.ID() {
		case arrow.INT32:
			b := array.NewInt32Builder(c41mem)
			for _, v := range vals {
				b.Append(int32(v))
			}
			arrs[i] = b.NewArray()
			b.Release()
		case arrow.STRING:
			b := array.NewStringBuilder(c41mem)
			for range vals {
				b.Append("abc")
			}
			arrs[i] = b.NewArray()
			b.Release()
		default:
			b := array.NewInt64Builder(c41mem)
			b.AppendValues(vals, nil)
			arrs[i] = b.NewArray()
			b.Release()
		}
	}
	rec := array.NewRecordBatch(schema, arrs, rows)
	for _, a := range arrs {
		a.Release()
	}
	return rec
}

func c41WithMeta(b arrow.RecordBatch, meta [][2]string) arrow.RecordBatch {
	keys := make([]string, len(meta))
	vals := make([]string, len(meta))
	for i, p := range meta {
		keys[i], vals[i] = p[0], p[1]
	}
	return array.NewRecordBatchWithMetadata(b.Schema(), b.Columns(), b.NumRows(), arrow.NewMetadata(keys, vals))
}

// c41Stream frames batches (all of one schema) as one IPC stream.
func c41Stream(schema *arrow.Schema, batches []arrow.RecordBatch) []byte {
	var buf bytes.Buffer
	w := ipc.NewWriter(&buf, ipc.WithSchema(schema))
	for _, b := range batches {
		if err := w.Write(b); err != nil {
			panic(err)
		}
		b.Release()
	}
	if err := w.Close(); err != nil {
		panic(err)
	}
	return buf.Bytes()
}

func c41IPC(b arrow.RecordBatch) []byte {
	b.Retain()
	return c41Stream(b.Schema(), []arrow.RecordBatch{b})
}

// ---------------------------------------------------------------- one server bundle per configuration

type c41Bundle struct {
	srv   *vgirpc.Server
	hs    *vgirpc.HttpServer
	store *c41Store
}

func c41NewBundle(c c41Call) *c41Bundle {
	b := &c41Bundle{srv: c41NewServer()}
	if c.F == "e" || c41ExtIn(c.F) {
		b.store = &c41Store{objs: map[string][]byte{}}
		cfg := &vgirpc.ExternalLocationConfig{
			ExternalizeThresholdBytes: 1, URLValidator: nil, MaxRetries: 1, RetryDelay: time.Nanosecond,
			HTTPClient: &http.Client{Transport: b.store},
		}
		if c.F == "e" {
			cfg.Storage = b.store
		}
		b.srv.SetExternalLocation(cfg)
	}
	if c.E == "v" {
		b.srv.SetProtocolVersion("3.1.0")
	}
	if c.T == "H" {
		b.hs = vgirpc.NewHttpServer(b.srv)
		if c.E == "C" {
			if c.F == "e" {
				b.hs.SetMaxExternalizedResponseBytes(1)
			} else {
				b.hs.SetMaxResponseBytes(1)
			}
		}
		if c.K == "R" && (c.E == "L" || c.E == "c" || c.E == "t") {
			b.hs.SetProducerBatchLimit(1)
		}
	}
	return b
}

func c41BundleKey(c c41Call) string {
	k := c.T
	if c.F == "e" || c41ExtIn(c.F) {
		k += c.F
	}
	if c.E == "v" || c.E == "C" {
		k += c.E
		if c.F == "e" {
			k += "x"
		}
	}
	if c.T == "H" && c.K == "R" && (c.E == "L" || c.E == "c" || c.E == "t") {
		k += "lim"
	}
	return k
}

// ---------------------------------------------------------------- driving one call

type c41Meter struct {
	dBytes, dAllocs int64
	requests        int
	leak            string
}

func (m *c41Meter) around(f func()) {
	b0, l0, t0 := vgirpc.VerifC41Outstanding()
	f()
	b1, l1, _ := vgirpc.VerifC41Outstanding()
	m.requests++
	if b1 != b0 || l1 != l0 {
		m.leak += vgirpc.VerifC41Report(t0)
	}
	m.dBytes += c41abs(b1 - b0)
	m.dAllocs += c41abs(l1 - l0)
}

func c41abs(x int64) int64 {
	if x < 0 {
		return -x
	}
	return x
}

func c41Method(c c41Call) string {
	if c.E == "u" {
		return "nope"
	}
	m := map[string]string{"U": "u", "V": "v", "R": "r", "X": "x"}[c.K]
	if c.F == "h" {
		m += "h"
	}
	return m
}

func c41ScriptFor(c c41Call) c41Script {
	s := c41Script{Logs: c.F == "l", Init: "ok"}
	switch c.E {
	case "e":
		s.Init = "err"
	case "p":
		s.Init = "panic"
	case "n":
		s.Init = "nil"
	}
	for i := 0; i < c.Pre; i++ {
		s.Acts = append(s.Acts, "emit")
	}
	last := map[string]string{"T": "err", "P": "panic", "N": "noemit", "D": "dbl", "w": "bad"}[c.E]
	if last != "" {
		s.Acts = append(s.Acts, last)
	} else if c.K == "R" && (c.E == "o" || c.E == "L" || c.E == "C") {
		if c.E == "C" && c.F == "e" {
			s.Acts = append(s.Acts, "emit") // at least one emit for the external cap to refuse
		}
		s.Acts = append(s.Acts, "finish")
	} else if c.K == "R" && (c.E == "c" || c.E == "t") {
		s.Acts = append(s.Acts, "emit") // over HTTP the /init turn must leave a token to cancel / corrupt
	}
	return s
}

// c41InputSchema is the schema of the client's exchange input stream.
func c41InputSchema(c c41Call) *arrow.Schema {
	if c.K != "X" {
		return c41Empty
	}
	if c.E == "f" {
		return c41InStr
	}
	if c.F == "c" || c.F == "j" {
		return c41In32
	}
	return c41InSchema
}

// c41ExtIn: the features whose inputs are external-location pointers.
func c41ExtIn(f string) bool { return f != "" && strings.Contains("ijabdgy", f) }

func c41LogBatch(schema *arrow.Schema) arrow.RecordBatch {
	zero := c41Batch(schema, make([][]int64, schema.NumFields()))
	defer zero.Release()
	return c41WithMeta(zero, [][2]string{{vgirpc.MetaLogLevel, "INFO"}, {vgirpc.MetaLogMessage, "payload log"}})
}

// c41Payload builds the bytes a pointer's URL serves, by payload shape (feature):
//
//	i, j  one well-formed stream with the data batch
//	a     the same with the 8-byte end-of-stream marker cut to 1 + variant%3 bytes
//	b     the stream WITHOUT its end-of-stream marker followed by a second
//	      complete stream (a schema message arrives where a batch belongs)
//	d     log batch, a decoy data batch, the data batch (the last one wins)
//	g, y  well-formed for the good pointers; the FAILING pointer (good=false)
//	      serves data batch + location pointer (g: redirect loop, detected after
//	      a batch was decoded and retained) or a log batch only (y: no data batch)
//
// ok=false: there is nothing to serve (the pointer will name a missing object).
func c41Payload(f string, variant int, inner arrow.RecordBatch, good bool) (data []byte, ok bool) {
	schema := inner.Schema()
	full := c41IPC(inner)
	if !good {
		switch f {
		case "g":
			inner.Retain()
			zero := c41Batch(schema, make([][]int64, schema.NumFields()))
			ptr := c41WithMeta(zero, [][2]string{{vgirpc.MetaLocation, "https://c41.mem/elsewhere"}})
			zero.Release()
			return c41Stream(schema, []arrow.RecordBatch{inner, ptr}), true
		case "y":
			return c41Stream(schema, []arrow.RecordBatch{c41LogBatch(schema)}), true
		}
		return nil, false
	}
	switch f {
	case "a":
		return full[:len(full)-8+1+variant%3], true
	case "b":
		return append(append([]byte(nil), full[:len(full)-8]...), full...), true
	case "d":
		cols := make([][]int64, schema.NumFields())
		for i := range cols {
			cols[i] = []int64{99}
		}
		inner.Retain()
		return c41Stream(schema, []arrow.RecordBatch{c41LogBatch(schema), c41Batch(schema, cols), inner}), true
	}
	return full, true
}

// c41Pointer builds an external-location pointer batch for inner, whose payload
// has the shape of feature f; good=false makes the resolution fail.
func c41Pointer(b *c41Bundle, f string, variant int, inner arrow.RecordBatch, good bool, extra [][2]string) arrow.RecordBatch {
	schema := inner.Schema()
	url := "https://c41.mem/missing"
	if data, ok := c41Payload(f, variant, inner, good); ok {
		url, _ = b.store.Upload(data, nil, "")
	}
	inner.Release()
	cols := make([][]int64, schema.NumFields())
	zero := c41Batch(schema, cols)
	defer zero.Release()
	return c41WithMeta(zero, append([][2]string{{vgirpc.MetaLocation, url}}, extra...))
}

// c41ShmPointer writes inner into the segment and returns the pointer batch.
func c41ShmPointer(seg *vgirpc.ShmSegment, inner arrow.RecordBatch, good bool, extra [][2]string) arrow.RecordBatch {
	defer inner.Release()
	off, ln := uint64(1<<40), 64
	if good {
		o, l, ok, err := seg.AllocateAndWrite(inner)
		if err != nil || !ok {
			panic(fmt.Sprintf("c41: shm write failed: %v %v", ok, err))
		}
		off, ln = o, l
	}
	cols := make([][]int64, inner.Schema().NumFields())
	zero := c41Batch(inner.Schema(), cols)
	defer zero.Release()
	return c41WithMeta(zero, append([][2]string{{vgirpc.MetaShmOffset, strconv.FormatUint(off, 10)}, {vgirpc.MetaShmLength, strconv.Itoa(ln)}}, extra...))
}

func c41ReqMeta(c c41Call, seg *vgirpc.ShmSegment) [][2]string {
	m := StdMeta(c41Method(c), "rid", "")
	if c.E == "v" {
		m = append(m, [2]string{vgirpc.MetaProtocolVersion, "1.0.0"})
	}
	if seg != nil {
		m = append(m, [2]string{vgirpc.MetaShmSegmentName, seg.Name()}, [2]string{vgirpc.MetaShmSegmentSize, strconv.Itoa(seg.Size())})
	}
	return m
}

// c41Request frames the request (parameter) batch of the call.
func c41Request(c c41Call, b *c41Bundle, seg *vgirpc.ShmSegment) []byte {
	meta := c41ReqMeta(c, seg)
	var params arrow.RecordBatch
	if c.E == "b" {
		params = c41Batch(c41BadParams, [][]int64{{1}})
	} else {
		params = c41Batch(c41InSchema, [][]int64{{7}})
	}
	var wire arrow.RecordBatch
	switch {
	case c41ExtIn(c.F) && c.T == "H":
		wire = c41Pointer(b, c.F, c.Pre, params, !(c.E == "r" && c.K != "X"), meta)
	case c.F == "s" && (c.K == "U" || c.K == "V"):
		wire = c41ShmPointer(seg, params, c.E != "r", meta)
	default:
		wire = c41WithMeta(params, meta)
		params.Release()
	}
	return c41Stream(wire.Schema(), []arrow.RecordBatch{wire})
}

// c41TurnInput builds the client's input batch number i of a stream call
// (last=true for the exit turn).
func c41TurnInput(c c41Call, b *c41Bundle, seg *vgirpc.ShmSegment, i int, last bool, extra [][2]string) arrow.RecordBatch {
	schema := c41InputSchema(c)
	if c.K != "X" {
		t := array.NewRecordBatch(schema, nil, 0)
		if len(extra) == 0 {
			return t
		}
		defer t.Release()
		return c41WithMeta(t, extra)
	}
	data := c41Batch(schema, [][]int64{{int64(10 + i)}})
	bad := last && c.E == "r"
	switch {
	case c41ExtIn(c.F):
		return c41Pointer(b, c.F, i, data, !bad, extra)
	case c.F == "s":
		return c41ShmPointer(seg, data, !bad, extra)
	}
	if len(extra) == 0 {
		return data
	}
	defer data.Release()
	return c41WithMeta(data, extra)
}

func c41HasExc(streams []RStream) bool {
	for _, s := range streams {
		for _, f := range s.Frames {
			if f.Kind == "exc" {
				return true
			}
		}
	}
	return false
}

// c41Tokens finds the continuation tokens in a response (following an
// external pointer into the store when the data batch was externalised).
func c41Tokens(b *c41Bundle, body []byte) (state, call string, ok bool) {
	scan := func(data []byte) {
		for _, s := range ParseStreams(data) {
			for _, f := range s.Frames {
				for _, kv := range f.Meta {
					if kv[0] == vgirpc.MetaStreamState {
						state, ok = kv[1], true
					}
					if kv[0] == vgirpc.MetaCallState {
						call = kv[1]
					}
				}
			}
		}
	}
	scan(body)
	if b.store != nil {
		for _, s := range ParseStreams(body) {
			for _, f := range s.Frames {
				for _, kv := range f.Meta {
					if kv[0] == vgirpc.MetaLocation {
						b.store.mu.Lock()
						inner := b.store.objs[kv[1]]
						b.store.mu.Unlock()
						scan(inner)
					}
				}
			}
		}
	}
	return
}

func c41RunCall(c c41Call, b *c41Bundle) c41CallObs {
	obs := c41CallObs{Class: c.T + c.K + c.E + c.F}
	if !vgirpc.VerifC41Valid(c.T[0], c.K[0], c.E[0], c.F[0]) {
		obs.Note = "invalid class"
		return obs
	}
	c41cur = c41ScriptFor(c)
	stream := c.K == "R" || c.K == "X"
	var seg *vgirpc.ShmSegment
	if c.F == "s" {
		var err error
		seg, err = vgirpc.ShmCreate(1 << 20)
		if err != nil {
			panic("c41: ShmCreate: " + err.Error())
		}
		defer seg.Close()
	}
	_, _, t0 := vgirpc.VerifC41Outstanding()
	m := &c41Meter{}
	// number of client input batches: Pre good turns + one exit turn where the
	// exit is driven by an input (or by the script's last act).
	exitTurn := stream && strings.Contains("TPNDwfrct", c.E)
	if c.T == "P" {
		input := c41Request(c, b, seg)
		if stream && c.E != "u" { // an unknown method has no input stream to send
			var items []arrow.RecordBatch
			n := c.Pre
			if c.E == "f" {
				n = 0 // one schema per IPC stream: the first batch already fails the cast
			}
			for i := 0; i < n; i++ {
				items = append(items, c41TurnInput(c, b, seg, i, false, nil))
			}
			switch {
			case c.E == "c":
				var cb arrow.RecordBatch
				if c.K == "X" {
					cb = c41Batch(c41InputSchema(c), [][]int64{{0}})
				} else {
					cb = array.NewRecordBatch(c41Empty, nil, 0)
				}
				items = append(items, c41WithMetaOwned(cb, [][2]string{{vgirpc.MetaCancel, "true"}}))
			case exitTurn:
				items = append(items, c41TurnInput(c, b, seg, n, true, nil))
			case c.K == "R":
				items = append(items, c41TurnInput(c, b, seg, n, true, nil)) // the tick that reaches "finish"
			}
			input = append(input, c41Stream(c41InputSchema(c), items)...)
		}
		var out []byte
		var esc any
		m.around(func() { out, esc = RunPipe(b.srv, input) })
		if esc != nil {
			obs.Note = fmt.Sprintf("escaped panic: %v", esc)
		}
		obs.Exc = c41HasExc(ParseStreams(out))
	} else {
		method := c41Method(c)
		path := "/" + method
		if stream {
			path += "/init"
		}
		body := c41Request(c, b, nil)
		var resp HTTPResp
		m.around(func() { resp = DoHTTP(b.hs, "POST", path, body, nil) })
		last := resp
		if stream {
			state, call, ok := c41Tokens(b, resp.Body)
			turn := 0
			post := func(in arrow.RecordBatch) {
				body := c41Stream(in.Schema(), []arrow.RecordBatch{in})
				m.around(func() { last = DoHTTP(b.hs, "POST", "/"+method+"/exchange", body, nil) })
				state2, _, ok2 := c41Tokens(b, last.Body)
				if ok2 {
					state = state2
				}
				ok = ok2
			}
			tok := func() [][2]string {
				return [][2]string{{vgirpc.MetaStreamState, state}, {vgirpc.MetaCallState, call}}
			}
			if c.K == "X" && ok {
				n := c.Pre
				for ; turn < n && ok; turn++ {
					post(c41TurnInput(c41Call{T: c.T, K: c.K, E: "o", F: c.F}, b, nil, turn, false, tok()))
				}
				if ok {
					switch c.E {
					case "o", "C":
						if c.E == "C" && n == 0 {
							post(c41TurnInput(c, b, nil, turn, true, tok()))
						}
					case "c":
						post(c41WithMetaOwned(array.NewRecordBatch(c41Empty, nil, 0), append(tok(), [2]string{vgirpc.MetaCancel, "true"})))
					case "t":
						post(c41TurnInput(c, b, nil, turn, true, [][2]string{{vgirpc.MetaStreamState, "AAAA" + state}, {vgirpc.MetaCallState, call}}))
					default:
						post(c41TurnInput(c, b, nil, turn, true, tok()))
					}
				}
			}
			if c.K == "R" && ok {
				// continuation turns (batch limit / soft cap): tick with the token
				for guard := 0; ok && guard < 64; guard++ {
					if c.E == "c" && turn >= c.Pre {
						post(c41WithMetaOwned(array.NewRecordBatch(c41Empty, nil, 0), append(tok(), [2]string{vgirpc.MetaCancel, "true"})))
						break
					}
					if c.E == "t" && turn >= c.Pre {
						post(c41WithMetaOwned(array.NewRecordBatch(c41Empty, nil, 0), [][2]string{{vgirpc.MetaStreamState, "AAAA" + state}, {vgirpc.MetaCallState, call}}))
						break
					}
					post(c41WithMetaOwned(array.NewRecordBatch(c41Empty, nil, 0), tok()))
					turn++
				}
			}
		}
		if last.Panic != nil {
			obs.Note = fmt.Sprintf("escaped panic: %v", last.Panic)
		}
		obs.Exc = last.Status >= 400 || c41HasExc(ParseStreams(last.Body)) || last.Header.Get("X-VGI-RPC-Error") != ""
	}
	_, _, t1 := vgirpc.VerifC41Outstanding()
	obs.DBytes, obs.DAllocs, obs.Requests, obs.Tracked, obs.Leak = m.dBytes, m.dAllocs, m.requests, t1-t0, m.leak
	return obs
}

func c41WithMetaOwned(b arrow.RecordBatch, meta [][2]string) arrow.RecordBatch {
	defer b.Release()
	return c41WithMeta(b, meta)
}

// ---------------------------------------------------------------- registration

func c41Coq(in c41In, obs []c41CallObs) string {
	ch := func(s string) string { return N(uint64(s[0])) }
	calls := ListOf(in.Calls, func(c c41Call) string {
		return App("C41.Call", ch(c.T), ch(c.K), ch(c.E), ch(c.F), Nat(c.Pre))
	})
	os := ListOf(obs, func(o c41CallObs) string {
		return App("C41.CallObs", Z(o.DBytes), Z(o.DAllocs), Bool(o.Exc))
	})
	return Pair(calls, os)
}

func c41Run(in c41In) CaseOut {
	if !vgirpc.VerifC41LeakEnabled() {
		panic("c41: this binary was built without -tags leakcheck; `vh C41` must re-exec vh_leak (c41_plain.go)")
	}
	bundles := map[string]*c41Bundle{}
	var obs []c41CallObs
	tags := map[string]bool{}
	found := map[string]bool{}
	unlisted := false
	nontrivial := false
	for _, c := range in.Calls {
		k := c41BundleKey(c)
		if bundles[k] == nil {
			bundles[k] = c41NewBundle(c)
		}
		o := c41RunCall(c, bundles[k])
		obs = append(obs, o)
		tags["t="+c.T] = true
		tags["k="+c.K] = true
		tags["e="+c.E] = true
		tags["f="+c.F] = true
		if o.Tracked > 0 {
			nontrivial = true
			tags["tracked-allocs"] = true
		}
		if o.DBytes != 0 || o.DAllocs != 0 {
			tags["LEAK"] = true
			want, ft := c41Expected(c)
			if want != 0 && want == o.DAllocs {
				for _, t := range ft {
					found[t] = true
				}
			} else {
				unlisted = true
				tags["LEAK-unlisted:"+o.Class] = true
			}
		}
	}
	if !unlisted {
		for t := range found {
			tags[t] = true
		}
	}
	var tl []string
	for t := range tags {
		tl = append(tl, t)
	}
	sort.Strings(tl)
	return CaseOut{Coq: c41Coq(in, obs), Tags: tl, Nontrivial: nontrivial, Obs: obs}
}

// Known finding (see corpus/C41.jsonl and props/C41.json). A leaking call is
// attributed to it only when its class is in the family AND the number of
// allocations left behind is exactly what it explains; anything else is tagged
// LEAK-unlisted, and a history with an unlisted leak carries NO finding tag at
// all (so the driver reports it as a violation, never as known).
// (finding-emitmap-double-emit-leak and finding-cast-retains-source-batch were
// repaired by ae22754 / a3f8652: their classes must now be clean.)
const c41FindHTTPWrite = "finding-http-write-error-leak" // HTTP producer / exchange: rest of the cycle not released after a failed write

// c41Expected returns how many allocations the known finding explains for the
// call, and its tag.
func c41Expected(c c41Call) (int64, []string) {
	if c.T == "H" && c.E == "w" {
		return 1, []string{c41FindHTTPWrite} // the log batch emitted after the refused data batch
	}
	return 0, nil
}

func c41Gen(r *rand.Rand, n int, tier string) []c41In {
	var out []c41In
	classes := vgirpc.VerifC41Classes()
	// 1. the sweep (always run, whatever n is): every path class as a one-call
	//    history with pre=0 (so a failing class replays as a single call), then
	//    every class again with pre=2 packed into histories of 12 calls.
	// 0. boundary cases first: the external-payload shapes whose tail is damaged
	//    AFTER a complete batch (a: end-of-stream marker cut to 1, 2, 3 bytes;
	//    b: stray schema message), the multi-batch payload and the two
	//    late-refusal payloads, on every route that resolves a pointer (HTTP
	//    unary / void / stream-init params, HTTP and pipe exchange input), as
	//    one-call histories with 0, 1 and 2 prior turns (the cut size of a
	//    request pointer is 1 + pre%3, of exchange input i it is 1 + i%3).
	for _, pre := range []int{1, 0, 2} {
		for _, cl := range classes {
			if strings.Contains("abdgy", cl[3:4]) && (pre == 1 || cl[2:3] == "o" || cl[2:3] == "r") {
				out = append(out, c41In{Calls: []c41Call{{T: cl[0:1], K: cl[1:2], E: cl[2:3], F: cl[3:4], Pre: pre}}})
			}
		}
	}
	for _, cl := range classes {
		out = append(out, c41In{Calls: []c41Call{{T: cl[0:1], K: cl[1:2], E: cl[2:3], F: cl[3:4], Pre: 0}}})
	}
	var cur []c41Call
	for _, cl := range classes {
		cur = append(cur, c41Call{T: cl[0:1], K: cl[1:2], E: cl[2:3], F: cl[3:4], Pre: 2})
		if len(cur) == 12 {
			out = append(out, c41In{Calls: cur})
			cur = nil
		}
	}
	if len(cur) > 0 {
		out = append(out, c41In{Calls: cur})
	}
	// 2. random histories: 1..10 calls, classes drawn uniformly, pre 0..6
	//    (thorough: up to 24 calls, pre up to 40).
	maxCalls, maxPre := 10, 7
	if tier == "thorough" {
		maxCalls, maxPre = 24, 41
	}
	for len(out) < n {
		k := 1 + r.Intn(maxCalls)
		var cs []c41Call
		for i := 0; i < k; i++ {
			cl := classes[r.Intn(len(classes))]
			cs = append(cs, c41Call{T: cl[0:1], K: cl[1:2], E: cl[2:3], F: cl[3:4], Pre: r.Intn(maxPre)})
		}
		out = append(out, c41In{Calls: cs})
	}
	return out
}

func init() {
	Register("C41",
		"a history is non-trivial iff at least one of its calls made >= 1 allocation through the shared checked allocator (so a leak on that path would be visible)",
		c41Gen, c41Run)
}
