package main

// C38 — access-log records. Drives (a) the real HttpServer (two nodes sharing
// the token key: node 0 caches call state, node 1 never does) behind a real
// httptest TCP server, (b) Server.Serve over a pipe, (c) AccessLogHook
// directly with synthetic dispatch infos; captures every JSON line the hook
// writes, parses it into an ordered (key, typed value) list and hands it to
// Coq, where record_ok (the definition the theorems are about) is evaluated.

import (
	"bytes"
	"context"
	"encoding/base64"
	"encoding/json"
	"errors"
	"fmt"
	"io"
	"math/rand"
	"net/http"
	"net/http/httptest"
	"sort"
	"strconv"
	"strings"
	"sync"

	"github.com/Query-farm/vgi-rpc-go/vgirpc"
	"github.com/apache/arrow-go/v18/arrow"
	"github.com/apache/arrow-go/v18/arrow/array"
	"github.com/apache/arrow-go/v18/arrow/ipc"
	"github.com/apache/arrow-go/v18/arrow/memory"
)

// ---------------------------------------------------------------- JSON values

type c38JV struct {
	T string  `json:"t"` // s i n b z o a  (string int non-integral-number bool null object array)
	S string  `json:"s,omitempty"`
	I int64   `json:"i,omitempty"`
	B bool    `json:"b,omitempty"`
	O []c38KV `json:"o,omitempty"`
	A []c38JV `json:"a,omitempty"`
}
type c38KV struct {
	K string `json:"k"`
	V c38JV  `json:"v"`
}

func (v c38JV) any() any {
	switch v.T {
	case "s":
		return v.S
	case "i":
		return v.I
	case "n":
		return 1.5
	case "b":
		return v.B
	case "o":
		m := map[string]any{}
		for _, kv := range v.O {
			m[kv.K] = kv.V.any()
		}
		return m
	case "a":
		out := make([]any, len(v.A))
		for i, x := range v.A {
			out[i] = x.any()
		}
		return out
	}
	return nil
}

func c38Coq(v c38JV) string {
	switch v.T {
	case "s":
		return App("C38.JStr", c38S(v.S))
	case "i":
		return App("C38.JInt", Z(v.I))
	case "n":
		return "C38.JNum"
	case "b":
		return App("C38.JBool", Bool(v.B))
	case "o":
		return App("C38.JObj", c38RecCoq(v.O))
	case "a":
		return App("C38.JArr", ListOf(v.A, c38Coq))
	case "g": // a long string handed over by length + content check (I = length, B = content ok)
		return App("C38.JBig", Z(v.I), Bool(v.B))
	}
	return "C38.JNull"
}

// c38S renders a byte string compactly: printable ASCII as a `str` literal
// (one character per byte), anything else as hex.
func c38S(s string) string {
	if s == "" {
		return "[]"
	}
	if len(s) >= 16 && c38Dict != nil {
		// long strings (hashes, ids, payloads, base64) are bound once per case
		// with a let and referred to by name: coqc's cost is literal characters
		if n, ok := c38Dict[s]; ok {
			return n
		}
		n := fmt.Sprintf("s%d", len(c38DictOrder))
		c38Dict[s] = n
		c38DictOrder = append(c38DictOrder, s)
		return n
	}
	return c38Lit(s)
}

func c38Lit(s string) string {
	for i := 0; i < len(s); i++ {
		if s[i] < 0x20 || s[i] > 0x7e || s[i] == '"' {
			return B(s)
		}
	}
	return `(str "` + s + `")`
}

// per-case dictionary of long literals (guarded by c38Mu)
var (
	c38Dict      map[string]string
	c38DictOrder []string
)

// c38WithDict wraps a case term in the lets that bind its long literals.
func c38WithDict(term string) string {
	var b strings.Builder
	b.WriteString("(")
	for i, lit := range c38DictOrder {
		fmt.Fprintf(&b, "let s%d := %s in ", i, c38Lit(lit))
	}
	b.WriteString(term)
	b.WriteString(")")
	return b.String()
}

var c38KnownKeys = map[string]bool{}

func init() {
	for _, k := range strings.Fields(`auth_domain authenticated cancelled claims duration_ms error_message error_type
		externalized_bytes http_status input_batches input_bytes input_rows level logger message method method_type
		original_request_bytes output_batches output_bytes output_rows principal protocol protocol_hash remote_addr
		request_bytes request_data request_id response_bytes server_id server_version span_id status stream_id
		timestamp trace_id truncated`) {
		c38KnownKeys[k] = true
	}
}

// c38Key renders a record key: the model's own constant for the keys it knows
// (same bytes, shorter term), a literal otherwise.
func c38KeyCoq(k string) string {
	if c38KnownKeys[k] {
		return "C38.K_" + k
	}
	return c38S(k)
}

func c38RecCoq(kvs []c38KV) string {
	return ListOf(kvs, func(kv c38KV) string { return Pair(c38S(kv.K), c38Coq(kv.V)) })
}

func c38TopCoq(kvs []c38KV) string {
	return ListOf(kvs, func(kv c38KV) string { return Pair(c38KeyCoq(kv.K), c38Coq(kv.V)) })
}

// c38Parse parses one JSON value off the decoder, keeping object order.
func c38Parse(dec *json.Decoder) (c38JV, error) {
	tok, err := dec.Token()
	if err != nil {
		return c38JV{}, err
	}
	switch t := tok.(type) {
	case json.Delim:
		switch t {
		case '{':
			v := c38JV{T: "o"}
			for dec.More() {
				kt, err := dec.Token()
				if err != nil {
					return v, err
				}
				k, _ := kt.(string)
				x, err := c38Parse(dec)
				if err != nil {
					return v, err
				}
				v.O = append(v.O, c38KV{K: k, V: x})
			}
			_, err := dec.Token()
			return v, err
		case '[':
			v := c38JV{T: "a"}
			for dec.More() {
				x, err := c38Parse(dec)
				if err != nil {
					return v, err
				}
				v.A = append(v.A, x)
			}
			_, err := dec.Token()
			return v, err
		}
		return c38JV{}, fmt.Errorf("unexpected delimiter %v", t)
	case string:
		return c38JV{T: "s", S: t}, nil
	case json.Number:
		if i, err := strconv.ParseInt(t.String(), 10, 64); err == nil {
			return c38JV{T: "i", I: i}, nil
		}
		return c38JV{T: "n"}, nil
	case bool:
		return c38JV{T: "b", B: t}, nil
	}
	return c38JV{T: "z"}, nil
}

// c38Line parses one access-log line into its top-level (key, value) list,
// sorted bytewise by key (stable, so duplicate keys stay visible to record_ok).
// ok=false when the line is not exactly one JSON object.
func c38Line(line []byte) ([]c38KV, bool) {
	dec := json.NewDecoder(bytes.NewReader(line))
	dec.UseNumber()
	v, err := c38Parse(dec)
	if err != nil || v.T != "o" {
		return nil, false
	}
	if _, err := dec.Token(); err != io.EOF {
		return nil, false
	}
	sort.SliceStable(v.O, func(i, j int) bool { return v.O[i].K < v.O[j].K })
	return v.O, true
}

func c38Get(r []c38KV, k string) (c38JV, bool) {
	for _, kv := range r {
		if kv.K == k {
			return kv.V, true
		}
	}
	return c38JV{}, false
}

// c38Lines splits the hook's output; a malformed line becomes a one-field
// record {"__malformed__": line} that record_ok rejects.
func c38Lines(b []byte) [][]c38KV {
	var out [][]c38KV
	for _, ln := range bytes.Split(b, []byte{'\n'}) {
		if len(ln) == 0 {
			continue
		}
		if r, ok := c38Line(ln); ok {
			out = append(out, r)
		} else {
			out = append(out, []c38KV{{K: "__malformed__", V: c38JV{T: "s", S: string(ln)}}})
		}
	}
	return out
}

// ---------------------------------------------------------------- inputs

type c38Trace struct {
	Mode string `json:"mode"` // none | ret | panic
	T    string `json:"t,omitempty"`
	S    string `json:"s,omitempty"`
}

type c38Red struct {
	Mode string   `json:"mode"` // default | none | keys | drop | nil | panic
	Keys []string `json:"keys,omitempty"`
}

type c38Auth struct {
	Principal     string  `json:"principal"`
	Domain        string  `json:"domain"`
	Authenticated bool    `json:"authenticated"`
	Claims        []c38KV `json:"claims,omitempty"` // distinct keys, sorted
}

type c38Err struct {
	Kind string `json:"kind"` // rpc | plain | wrapped_rpc
	Type string `json:"type,omitempty"`
	Msg  string `json:"msg"`
}

type c38Egress struct {
	ReqID    string `json:"req_id"`
	ReqBytes int64  `json:"req_bytes"`
	Ext      int64  `json:"ext"`
	Writes   []int  `json:"writes"`
}

type c38Direct struct {
	Method      string     `json:"method"`
	Stream      bool       `json:"stream"`
	Protocol    string     `json:"protocol"`
	ServerID    string     `json:"server_id"`
	Hash        string     `json:"hash"`
	ReqID       string     `json:"req_id"`
	Remote      string     `json:"remote"`
	HTTPStatus  int        `json:"http_status"`
	Payload     []byte     `json:"payload"`
	PayloadSize int        `json:"payload_size,omitempty"` // > 0: RequestData is this many generated bytes
	StreamID    string     `json:"stream_id"`
	Cancelled   bool       `json:"cancelled"`
	Err         *c38Err    `json:"err,omitempty"`
	Stats       *[6]int64  `json:"stats,omitempty"` // in_batches out_batches in_rows out_rows in_bytes out_bytes
	Egress      *c38Egress `json:"egress,omitempty"`
	NilToken    bool       `json:"nil_token,omitempty"`
	Ver         string     `json:"ver"`
}

type c38Op struct {
	Kind   string `json:"kind"` // direct | unary | init | cont | pipe_unary | pipe_stream | rejected
	Node   int    `json:"node,omitempty"`
	Method string `json:"method,omitempty"`
	X      int64  `json:"x,omitempty"`
	// scripts of the user code
	Call   *CallScript   `json:"call,omitempty"`
	Stream *StreamScript `json:"stream,omitempty"`
	// cont
	Of     int     `json:"of,omitempty"`     // op number of the init whose tokens are echoed
	Tamper string  `json:"tamper,omitempty"` // "" | cursor | call | drop_call
	Cancel bool    `json:"cancel,omitempty"`
	Vals   []int64 `json:"vals,omitempty"`
	Ticks  int     `json:"ticks,omitempty"` // pipe_stream: number of input batches sent
	// unary / init / pipe_*: > 0 = call the *_blob method with one binary parameter of this many bytes
	BlobSize int `json:"blob_size,omitempty"`
	// request shape
	BatchReqID string `json:"batch_req_id,omitempty"`
	XReqID     string `json:"x_req_id,omitempty"`
	AcceptEnc  string `json:"accept_enc,omitempty"`
	Chunked    bool   `json:"chunked,omitempty"`
	Reject     string `json:"reject,omitempty"` // unknown_method | auth | content_type
	// configuration in force
	Debug    bool       `json:"debug"`
	Trace    c38Trace   `json:"trace"`
	Redactor c38Red     `json:"redactor"`
	Auth     *c38Auth   `json:"auth,omitempty"`
	Direct   *c38Direct `json:"direct,omitempty"`
}

type c38In struct {
	Ver string  `json:"ver"` // server_version of the hook serving the history
	Ops []c38Op `json:"ops"`
}

// ---------------------------------------------------------------- globals set per op

var c38Mu sync.Mutex

func c38Install(tr c38Trace, rd c38Red) {
	switch tr.Mode {
	case "ret":
		t, s := tr.T, tr.S
		vgirpc.SetTraceContextProvider(func(context.Context) (string, string) { return t, s })
	case "panic":
		vgirpc.SetTraceContextProvider(func(context.Context) (string, string) { panic("trace provider boom") })
	default:
		vgirpc.SetTraceContextProvider(nil)
	}
	switch rd.Mode {
	case "none":
		vgirpc.SetClaimRedactor(vgirpc.NoClaimRedaction)
	case "keys":
		ks := map[string]bool{}
		for _, k := range rd.Keys {
			ks[k] = true
		}
		vgirpc.SetClaimRedactor(func(c map[string]any) map[string]any {
			out := map[string]any{}
			for k, v := range c {
				if ks[k] {
					out[k] = vgirpc.RedactedClaim
				} else {
					out[k] = v
				}
			}
			return out
		})
	case "drop":
		vgirpc.SetClaimRedactor(func(map[string]any) map[string]any { return map[string]any{} })
	case "nil":
		vgirpc.SetClaimRedactor(func(map[string]any) map[string]any { return nil })
	case "panic":
		vgirpc.SetClaimRedactor(func(map[string]any) map[string]any { panic("redactor boom") })
	default:
		vgirpc.SetClaimRedactor(nil)
	}
}

func c38Uninstall() {
	vgirpc.SetTraceContextProvider(nil)
	vgirpc.SetClaimRedactor(nil)
}

func (a *c38Auth) ctx() *vgirpc.AuthContext {
	if a == nil {
		return nil
	}
	ac := &vgirpc.AuthContext{Principal: a.Principal, Domain: a.Domain, Authenticated: a.Authenticated}
	if a.Claims != nil {
		ac.Claims = map[string]any{}
		for _, kv := range a.Claims {
			ac.Claims[kv.K] = kv.V.any()
		}
	}
	return ac
}

// ---------------------------------------------------------------- Coq rendering

func c38TraceCoq(t c38Trace) string {
	switch t.Mode {
	case "ret":
		return App("C38.PRet", c38S(t.T), c38S(t.S))
	case "panic":
		return "C38.PPanic"
	}
	return "C38.PNone"
}

func c38RedCoq(r c38Red) string {
	switch r.Mode {
	case "none":
		return "C38.RNoRedaction"
	case "keys":
		return App("C38.RKeys", ListOf(r.Keys, c38S))
	case "drop", "nil":
		return "C38.RDrop"
	case "panic":
		return "C38.RPanic"
	}
	return "C38.RDefault"
}

func c38AuthCoq(a *c38Auth) string {
	if a == nil {
		return "None"
	}
	return Opt(true, App("C38.Build_auth", c38S(a.Principal), c38S(a.Domain), Bool(a.Authenticated), c38RecCoq(a.Claims)))
}

type c38ErrObs struct {
	Kind string // none | rpc | other
	Type string
	Msg  string
}

func c38ErrCoq(e c38ErrObs) string {
	switch e.Kind {
	case "rpc":
		return App("C38.ERpc", c38S(e.Type), c38S(e.Msg))
	case "other":
		return App("C38.EOther", c38S(e.Msg))
	}
	return "C38.ENone"
}

func c38StatsCoq(s *[6]int64) string {
	if s == nil {
		return "None"
	}
	return Opt(true, App("C38.Build_stats", Z(s[0]), Z(s[1]), Z(s[2]), Z(s[3]), Z(s[4]), Z(s[5])))
}

type c38EgObs struct {
	ReqID  string
	CL     int64
	Ext    int64
	Writes []int
}

func c38EgCoq(g *c38EgObs) string {
	if g == nil {
		return "None"
	}
	return Opt(true, App("C38.Build_egress", c38S(g.ReqID), Z(g.CL), Z(g.Ext), ListOf(g.Writes, func(n int) string { return Z(int64(n)) })))
}

// statsOf reads the six logical-buffer counters off a record (oracle for the
// Arrow accounting, which this property does not model).
func c38StatsOf(r []c38KV) *[6]int64 {
	var s [6]int64
	any := false
	for i, k := range []string{"input_batches", "output_batches", "input_rows", "output_rows", "input_bytes", "output_bytes"} {
		if v, ok := c38Get(r, k); ok {
			s[i] = v.I
			any = true
		}
	}
	if !any {
		return &[6]int64{}
	}
	return &s
}

// ---------------------------------------------------------------- direct ops

func (e *c38Err) raise() (error, c38ErrObs) {
	if e == nil {
		return nil, c38ErrObs{Kind: "none"}
	}
	switch e.Kind {
	case "rpc":
		return &vgirpc.RpcError{Type: e.Type, Message: e.Msg}, c38ErrObs{Kind: "rpc", Type: e.Type, Msg: e.Msg}
	case "wrapped_rpc":
		err := fmt.Errorf("ctx: %w", &vgirpc.RpcError{Type: e.Type, Message: e.Msg})
		return err, c38ErrObs{Kind: "other", Msg: err.Error()}
	}
	return errors.New(e.Msg), c38ErrObs{Kind: "other", Msg: e.Msg}
}

func c38RunDirect(op c38Op) (coq string, recs [][]c38KV, tags []string) {
	d := op.Direct
	if d.PayloadSize > 0 {
		dd := *d
		dd.Payload = c38BlobBytes(d.PayloadSize)
		d = &dd
		tags = append(tags, c38SizeTag(d.PayloadSize))
	}
	var buf bytes.Buffer
	hook := vgirpc.NewAccessLogHook(&buf, d.Ver)
	hook.SetDebug(op.Debug)
	mt := vgirpc.DispatchMethodUnary
	if d.Stream {
		mt = vgirpc.DispatchMethodStream
	}
	info := vgirpc.DispatchInfo{Method: d.Method, MethodType: mt, ServerID: d.ServerID, Protocol: d.Protocol,
		ProtocolHash: d.Hash, RequestID: d.ReqID, Auth: op.Auth.ctx(), RemoteAddr: d.Remote, HTTPStatus: d.HTTPStatus,
		RequestData: d.Payload, StreamID: d.StreamID, Cancelled: d.Cancelled}
	var stats *vgirpc.CallStatistics
	if d.Stats != nil {
		s := d.Stats
		stats = &vgirpc.CallStatistics{InputBatches: s[0], OutputBatches: s[1], InputRows: s[2], OutputRows: s[3], InputBytes: s[4], OutputBytes: s[5]}
	}
	err, eobs := d.Err.raise()
	ctx := context.Background()
	finish := func([]int) {}
	var eg *c38EgObs
	if d.Egress != nil {
		ctx, finish = vgirpc.VerifEgressContext(ctx, d.Egress.ReqID, d.Egress.ReqBytes, d.Egress.Ext)
		eg = &c38EgObs{ReqID: d.Egress.ReqID, CL: d.Egress.ReqBytes, Ext: d.Egress.Ext, Writes: d.Egress.Writes}
	}
	c38Install(op.Trace, op.Redactor)
	func() {
		defer func() { _ = recover() }()
		hctx, tok := hook.OnDispatchStart(ctx, info)
		if d.NilToken {
			tok = nil
		}
		hook.OnDispatchEnd(hctx, tok, info, stats, err)
		if d.Egress != nil {
			finish(d.Egress.Writes)
		}
	}()
	c38Uninstall()
	recs = c38Lines(buf.Bytes())
	c38Elide(recs, d.Payload)
	fresh := ""
	if d.Stream && d.StreamID == "" && len(recs) > 0 {
		if v, ok := c38Get(recs[0], "stream_id"); ok {
			fresh = v.S // crypto/rand oracle
		}
		tags = append(tags, "direct-minted-sid")
	}
	coq = App("C38.ODirect", App("C38.Build_dinfo",
		c38S(d.Method), Bool(d.Stream), c38S(d.Protocol), c38S(d.ServerID), c38S(d.Hash), c38S(d.ReqID), c38S(d.Remote),
		Z(int64(d.HTTPStatus)), c38PayloadCoq(d.Payload), c38S(d.StreamID), c38S(fresh), Bool(d.Cancelled),
		c38AuthCoq(op.Auth), c38ErrCoq(eobs), c38StatsCoq(d.Stats), c38EgCoq(eg),
		Bool(op.Debug), c38S(d.Ver), c38TraceCoq(op.Trace), c38RedCoq(op.Redactor)))
	tags = append(tags, "direct")
	return
}

// ---------------------------------------------------------------- real servers

// c38Writer records the size of every Write reaching the ResponseWriter that
// net/http supplied — i.e. exactly what countingResponseWriter forwards.
type c38Writer struct {
	http.ResponseWriter
	writes *[]int
}

func (w *c38Writer) Write(b []byte) (int, error) {
	n, err := w.ResponseWriter.Write(b)
	*w.writes = append(*w.writes, n)
	return n, err
}
func (w *c38Writer) Flush() {
	if f, ok := w.ResponseWriter.(http.Flusher); ok {
		f.Flush()
	}
}

type c38World struct {
	sf      *Surface
	log     bytes.Buffer
	hook    *vgirpc.AccessLogHook
	nodes   [3]*vgirpc.HttpServer // 0: hook + cache, 1: hook, no cache, 2: cache, NO hook until a set_hook op
	servers [3]*vgirpc.Server
	hooked  [3]bool
	pipe    *vgirpc.Server
	ts      *httptest.Server
	client  *http.Client
	// per-request channel between the client side and the handler side
	cur     *c38Op
	writes  []int
	gotCL   int64
	remote  string
	streams map[int]*c38Tokens
}

type c38Tokens struct {
	cursor, call []byte
	method       string
	exchange     bool
}

var c38Key = []byte("c38-shared-token-key-0123456789ab")

func c38NewWorld(ver string) *c38World {
	w := &c38World{sf: newSurface(), streams: map[int]*c38Tokens{}}
	w.hook = vgirpc.NewAccessLogHook(&w.log, ver)
	mkh := func(id string, hook bool) *vgirpc.Server {
		s := NewScriptedServer(w.sf)
		c38AddBlobMethods(s, w.sf)
		s.SetServiceName("ScriptSvc")
		s.SetServerID(id)
		if hook {
			s.SetDispatchHook(w.hook)
		}
		return s
	}
	mk := func(id string) *vgirpc.Server { return mkh(id, true) }
	for i := range w.nodes {
		w.hooked[i] = i != 2
		w.servers[i] = mkh(fmt.Sprintf("node%d", i), w.hooked[i])
		h, err := vgirpc.NewHttpServerWithKey(w.servers[i], c38Key)
		if err != nil {
			panic(err)
		}
		if i == 1 {
			h.SetCallStateCacheEntries(0)
		}
		h.SetProducerBatchLimit(2) // producers hand back a cursor every two batches
		h.SetAuthenticate(func(r *http.Request) (*vgirpc.AuthContext, error) {
			if w.cur != nil && w.cur.Reject == "auth" {
				return nil, &vgirpc.RpcError{Type: "PermissionError", Message: "no"}
			}
			if w.cur == nil || w.cur.Auth == nil {
				return vgirpc.Anonymous(), nil
			}
			return w.cur.Auth.ctx(), nil
		})
		w.nodes[i] = h
	}
	w.pipe = mk("pipe")
	w.ts = httptest.NewServer(http.HandlerFunc(func(rw http.ResponseWriter, r *http.Request) {
		w.gotCL = r.ContentLength
		w.remote = r.RemoteAddr
		node, _ := strconv.Atoi(r.Header.Get("X-C38-Node"))
		if node < 0 || node >= len(w.nodes) {
			node = 0
		}
		w.nodes[node].ServeHTTP(&c38Writer{ResponseWriter: rw, writes: &w.writes}, r)
	}))
	w.client = &http.Client{Transport: &http.Transport{DisableCompression: true}}
	return w
}

func (w *c38World) close() {
	w.ts.Close()
	w.client.CloseIdleConnections()
	w.sf.Close()
}

type c38Resp struct {
	status  int
	rawLen  int
	decoded []byte
	enc     string
	err     string
}

func (w *c38World) post(op *c38Op, path string, body []byte, ctype string) c38Resp {
	w.cur = op
	w.writes = nil
	w.gotCL = 0
	var rd io.Reader = bytes.NewReader(body)
	if op.Chunked {
		rd = struct{ io.Reader }{rd} // hides the length: Transfer-Encoding: chunked
	}
	req, err := http.NewRequest(http.MethodPost, w.ts.URL+path, rd)
	if err != nil {
		return c38Resp{err: err.Error()}
	}
	req.Header.Set("Content-Type", ctype)
	req.Header.Set("X-C38-Node", strconv.Itoa(op.Node))
	if op.XReqID != "" {
		req.Header.Set("X-Request-ID", op.XReqID)
	}
	if op.AcceptEnc != "" {
		req.Header.Set("Accept-Encoding", op.AcceptEnc)
	}
	resp, err := w.client.Do(req)
	if err != nil {
		return c38Resp{err: err.Error()}
	}
	defer resp.Body.Close()
	raw, _ := io.ReadAll(resp.Body)
	out := c38Resp{status: resp.StatusCode, rawLen: len(raw), decoded: raw}
	enc := resp.Header.Get("Content-Encoding")
	if enc == "" {
		enc = resp.Header.Get("X-VGI-Content-Encoding")
	}
	out.enc = enc
	if enc != "" && enc != "identity" {
		if dec, derr := vgirpc.DecodeContentEncoding(raw, enc, 1<<26); derr == nil {
			out.decoded = dec
		} else {
			out.err = "decode: " + derr.Error()
		}
	}
	return out
}

// c38Payload is SerializeRequestBatch applied to the request batch as the
// server's IPC reader sees it (Arrow codec oracle for DispatchInfo.RequestData).
func c38Payload(reqBody []byte) []byte {
	rd, err := ipc.NewReader(bytes.NewReader(reqBody))
	if err != nil {
		return nil
	}
	defer rd.Release()
	if !rd.Next() {
		return nil
	}
	// the documented re-encoding (one schema message + one record batch message),
	// done here with arrow-go directly so that the oracle does not depend on the
	// function under test
	batch := rd.RecordBatch()
	var buf bytes.Buffer
	wr := ipc.NewWriter(&buf, ipc.WithSchema(batch.Schema()))
	if err := wr.Write(batch); err != nil {
		wr.Close()
		return nil
	}
	if err := wr.Close(); err != nil {
		return nil
	}
	return buf.Bytes()
}

// payloads above this many bytes are handed to Coq by size only
const c38BigPayload = 2048

func c38PayloadCoq(p []byte) string {
	if len(p) > c38BigPayload {
		return App("C38.PBig", N(uint64(len(p))))
	}
	return App("C38.PBytes", c38S(string(p)))
}

// c38Elide replaces, for a large request, each record's request_data string by
// its length and the verdict of the content check (base64 of the payload).
func c38Elide(recs [][]c38KV, payload []byte) {
	if len(payload) <= c38BigPayload {
		return
	}
	want := base64.StdEncoding.EncodeToString(payload)
	for _, r := range recs {
		for j := range r {
			if r[j].K == "request_data" && r[j].V.T == "s" {
				r[j].V = c38JV{T: "g", I: int64(len(r[j].V.S)), B: r[j].V.S == want}
			}
		}
	}
}

// blob methods: one int64 and one binary parameter
type PBlob struct {
	X    int64  `vgirpc:"x"`
	Blob []byte `vgirpc:"blob"`
}

var c38BlobSchema = arrow.NewSchema([]arrow.Field{{Name: "x", Type: arrow.PrimitiveTypes.Int64}, {Name: "blob", Type: arrow.BinaryTypes.Binary}}, nil)

func c38BlobBytes(n int) []byte {
	b := make([]byte, n)
	for i := range b {
		b[i] = byte(i*31 + i>>8)
	}
	return b
}

func c38ReqBatch(op *c38Op) arrow.RecordBatch {
	if op.BlobSize <= 0 {
		return PIntBatch(op.X)
	}
	xb := array.NewInt64Builder(memory.DefaultAllocator)
	defer xb.Release()
	xb.Append(op.X)
	bb := array.NewBinaryBuilder(memory.DefaultAllocator, arrow.BinaryTypes.Binary)
	defer bb.Release()
	bb.Append(c38BlobBytes(op.BlobSize))
	xa, ba := xb.NewArray(), bb.NewArray()
	defer xa.Release()
	defer ba.Release()
	return array.NewRecordBatch(c38BlobSchema, []arrow.Array{xa, ba}, 1)
}

// c38AddBlobMethods registers u_blob / prod_blob / exch_blob on a scripted server.
func c38AddBlobMethods(s *vgirpc.Server, sf *Surface) {
	vgirpc.Unary(s, "u_blob", func(_ context.Context, cc *vgirpc.CallContext, p PBlob) (int64, error) {
		c := sf.popUnary()
		sf.trace("u_blob(x=%d,n=%d)", p.X, len(p.Blob))
		if c.Err != nil {
			return 0, c.Err.raise()
		}
		return c.Value + p.X + int64(len(p.Blob)), nil
	})
	initB := func(name string, exchange bool) func(context.Context, *vgirpc.CallContext, PBlob) (*vgirpc.StreamResult, error) {
		return func(_ context.Context, cc *vgirpc.CallContext, p PBlob) (*vgirpc.StreamResult, error) {
			c := sf.popStream()
			sf.trace("%s.init(x=%d,n=%d)", name, p.X, len(p.Blob))
			if c.Init.Err != nil {
				return nil, c.Init.Err.raise()
			}
			r := &vgirpc.StreamResult{OutputSchema: outSchemaV, State: &ScriptState{SID: sf.ID, Turns: c.Turns}}
			if exchange {
				r.InputSchema = inSchemaX
			}
			return r, nil
		}
	}
	vgirpc.Producer(s, "prod_blob", outSchemaV, initB("prod_blob", false))
	vgirpc.Exchange(s, "exch_blob", outSchemaV, inSchemaX, initB("exch_blob", true))
}

const c38Arrow = "application/vnd.apache.arrow.stream"

// expected handler error as the access log classifies it (RpcError -> its
// type/message; anything else -> "Error" + err.Error(); panics are turned into
// RpcErrors by dispatch: read back from the record, as dispatch prose)
func c38ScriptErr(e *ErrSpec, rec []c38KV) c38ErrObs {
	if e == nil {
		return c38ErrObs{Kind: "none"}
	}
	switch e.Kind {
	case "rpc":
		return c38ErrObs{Kind: "rpc", Type: e.Type, Msg: e.Msg}
	case "plain":
		return c38ErrObs{Kind: "other", Msg: e.Msg}
	case "wrapped_rpc":
		return c38ErrObs{Kind: "other", Msg: fmt.Sprintf("ctx: %v", &vgirpc.RpcError{Type: e.Type, Message: e.Msg})}
	}
	// panic_*: the dispatcher's recover builds the error; take type and prose from the record
	t, _ := c38Get(rec, "error_type")
	m, _ := c38Get(rec, "error_message")
	if t.S == "Error" {
		return c38ErrObs{Kind: "other", Msg: m.S}
	}
	return c38ErrObs{Kind: "rpc", Type: t.S, Msg: m.S}
}

type c38OpOut struct {
	Records [][]c38KV `json:"records"`
	Wire    int       `json:"wire_response"`
	Status  int       `json:"status,omitempty"`
	Enc     string    `json:"enc,omitempty"`
	Note    string    `json:"note,omitempty"`
}

func (w *c38World) reqEnvCoq(op *c38Op, method string, payload []byte, e c38ErrObs, recs [][]c38KV, http bool, wireReq int, auth *c38Auth) string {
	var eg *c38EgObs
	remote := ""
	sid := "pipe"
	if http {
		// the transport id: the caller's X-Request-ID, else minted by the server
		// (crypto/rand oracle: read from the response header via the record)
		tid := op.XReqID
		if tid == "" && len(recs) > 0 && op.BatchReqIDFor() == "" {
			if v, ok := c38Get(recs[0], "request_id"); ok {
				tid = v.S
			}
		}
		if tid == "" {
			tid = "minted"
		}
		eg = &c38EgObs{ReqID: tid, CL: w.gotCL, Ext: 0, Writes: append([]int(nil), w.writes...)}
		remote = w.remote
		sid = fmt.Sprintf("node%d", op.Node)
	}
	var st *[6]int64
	if len(recs) > 0 {
		st = c38StatsOf(recs[0])
	}
	return App("C38.Build_req_env", c38S(method), c38S("ScriptSvc"), c38S(sid), c38S(w.servers[0].ProtocolHash()),
		c38S(op.BatchReqID), c38S(remote), c38PayloadCoq(payload), c38AuthCoq(auth), c38ErrCoq(e), c38StatsCoq(st), c38EgCoq(eg),
		Bool(op.Debug), c38S(w.hook_ver()), c38TraceCoq(op.Trace), c38RedCoq(op.Redactor), Z(int64(wireReq)))
}

func (op *c38Op) BatchReqIDFor() string {
	if op.Kind == "cont" {
		return "" // continuation dispatch infos carry no RequestID
	}
	return op.BatchReqID
}

var c38Ver string

func (w *c38World) hook_ver() string { return c38Ver }

var c38Anon = &c38Auth{}

func c38TamperCoq(t string) string {
	switch t {
	case "cursor":
		return "C38.TCursor"
	case "call":
		return "C38.TCallToken"
	case "drop_call":
		return "C38.TDropCallToken"
	}
	return "C38.TNone"
}

func c38Flip(tok []byte) []byte {
	out := append([]byte(nil), tok...)
	if len(out) > 10 {
		i := len(out) / 2
		if out[i] == 'A' {
			out[i] = 'B'
		} else {
			out[i] = 'A'
		}
	}
	return out
}

// runOp executes one op of a history and returns its Coq term + observation.
func (w *c38World) runOp(idx int, op *c38Op) (string, c38OpOut, []string) {
	tags := []string{op.Kind}
	w.log.Reset()
	c38Install(op.Trace, op.Redactor)
	defer c38Uninstall()
	w.hook.SetDebug(op.Debug)
	auth := op.Auth
	if auth == nil {
		auth = c38Anon
	}
	switch op.Kind {
	case "set_hook":
		// SetDispatchHook on a node that has been serving without one
		w.servers[op.Node].SetDispatchHook(w.hook)
		w.hooked[op.Node] = true
		return "C38.ONoop", c38OpOut{}, tags
	case "unary", "init", "rejected":
		method := op.Method
		if op.Kind == "init" {
			w.sf.PushStream(*op.Stream)
		} else if op.Kind == "unary" {
			w.sf.PushUnary(*op.Call)
		}
		reqBatch := c38ReqBatch(op)
		body := ReqBytes(reqBatch, StdMeta(method, op.BatchReqID, ""))
		reqBatch.Release()
		path := "/" + method
		if op.Kind == "init" {
			path += "/init"
		}
		ctype := c38Arrow
		switch op.Reject {
		case "unknown_method":
			path = "/no_such_method"
		case "content_type":
			ctype = "text/plain"
		}
		resp := w.post(op, path, body, ctype)
		recs := c38Lines(w.log.Bytes())
		out := c38OpOut{Records: recs, Wire: resp.rawLen, Status: resp.status, Enc: resp.enc, Note: resp.err}
		if resp.enc != "" {
			tags = append(tags, "resp-"+resp.enc)
		}
		if op.Chunked {
			tags = append(tags, "finding-chunked-request-bytes")
		}
		payload := c38Payload(body)
		c38Elide(recs, payload)
		if op.BlobSize > 0 {
			tags = append(tags, c38SizeTag(op.BlobSize))
		}
		var first []c38KV
		if len(recs) > 0 {
			first = recs[0]
		}
		switch op.Kind {
		case "rejected":
			return App("C38.ORejected", w.reqEnvCoq(op, method, payload, c38ErrObs{Kind: "none"}, recs, true, len(body), auth)), out, append(tags, "reject-"+op.Reject)
		case "unary":
			e := c38ScriptErr(op.Call.Err, first)
			return App("C38.OUnary", w.reqEnvCoq(op, method, payload, e, recs, true, len(body), auth)), out, append(tags, "err-"+e.Kind)
		}
		e := c38ScriptErr(op.Stream.Init.Err, first)
		if op.Stream.Init.Err == nil && op.Stream.Init.NilResult && first != nil {
			// handler returned (nil, nil): dispatch reports its own error; prose from the record
			e = c38ScriptErr(&ErrSpec{Kind: "panic_str"}, first)
		}
		if e.Kind == "none" && first != nil {
			// a turn script run inside /init (producer) may fail: dispatch outcome oracle
			if s, _ := c38Get(first, "status"); s.S == "error" {
				e = c38ScriptErr(&ErrSpec{Kind: "panic_str"}, first)
			}
		}
		cursor, call := vgirpc.FindStreamTokens(resp.decoded)
		opened := cursor != nil
		if opened {
			w.streams[idx] = &c38Tokens{cursor: cursor, call: call, method: method, exchange: strings.HasPrefix(method, "exch")}
			tags = append(tags, "opened")
		}
		sid := ""
		if first != nil {
			if v, ok := c38Get(first, "stream_id"); ok {
				sid = v.S // crypto/rand oracle: the id minted at /init
			}
		}
		hooked := w.hooked[op.Node]
		sidTerm := c38S(sid)
		if !hooked {
			// nothing logged at /init: the minted id is only observable later. The
			// oracle is the id of the stream's FIRST logged continuation, filled in
			// by c38Run once the history has run (every later record must agree).
			sidTerm = fmt.Sprintf("@@SID%d@@", idx)
			tags = append(tags, "init-unhooked")
		}
		return App("C38.OInit", Nat(op.Node), w.reqEnvCoq(op, method, payload, e, recs, true, len(body), auth), sidTerm, Bool(opened), Bool(hooked)), out, append(tags, "err-"+e.Kind)

	case "cont":
		tk := w.streams[op.Of]
		method := op.Method
		schema := arrow.NewSchema(nil, nil)
		var batch arrow.RecordBatch
		if tk != nil {
			method = tk.method
		}
		exchange := tk != nil && tk.exchange
		if exchange && !op.Cancel {
			batch = int64Batch(inSchemaX, op.Vals)
		} else {
			batch = emptyBatchOf(schema)
		}
		var meta [][2]string
		if tk != nil {
			cur, call := tk.cursor, tk.call
			switch op.Tamper {
			case "cursor":
				cur = c38Flip(cur)
			case "call":
				call = c38Flip(call)
			case "drop_call":
				call = nil
			}
			meta = append(meta, [2]string{vgirpc.MetaStreamState, string(cur)})
			if call != nil {
				meta = append(meta, [2]string{vgirpc.MetaCallState, string(call)})
			}
		}
		if op.BatchReqID != "" {
			meta = append(meta, [2]string{vgirpc.MetaRequestID, op.BatchReqID})
		}
		if op.Cancel {
			meta = append(meta, [2]string{vgirpc.MetaCancel, "1"})
		}
		body := ReqBytes(batch, meta)
		batch.Release()
		resp := w.post(op, "/"+method+"/exchange", body, c38Arrow)
		recs := c38Lines(w.log.Bytes())
		out := c38OpOut{Records: recs, Wire: resp.rawLen, Status: resp.status, Enc: resp.enc, Note: resp.err}
		if resp.enc != "" {
			tags = append(tags, "resp-"+resp.enc)
		}
		if op.Chunked {
			tags = append(tags, "finding-chunked-request-bytes")
		}
		var first []c38KV
		if len(recs) > 0 {
			first = recs[0]
			tags = append(tags, "cont-logged")
		} else {
			tags = append(tags, "cont-refused")
		}
		if op.Tamper != "" {
			tags = append(tags, "tamper-"+op.Tamper)
		}
		// outcome of the turn: dispatch oracle (status / type / prose from the record)
		e := c38ErrObs{Kind: "none"}
		if first != nil {
			if s, _ := c38Get(first, "status"); s.S == "error" {
				e = c38ScriptErr(&ErrSpec{Kind: "panic_str"}, first)
			}
		}
		// advance the cursor the client holds
		if tk != nil && first != nil {
			if cur, _ := vgirpc.FindStreamTokens(resp.decoded); cur != nil {
				tk.cursor = cur
			}
		}
		return App("C38.OCont", Nat(op.Node), Nat(op.Of), c38TamperCoq(op.Tamper), Bool(op.Cancel),
			w.reqEnvCoq(op, method, nil, e, recs, true, len(body), auth), c38S(""), Bool(w.hooked[op.Node])), out, append(tags, "err-"+e.Kind)

	case "pipe_unary", "pipe_stream":
		method := op.Method
		var in bytes.Buffer
		reqBatch := c38ReqBatch(op)
		in.Write(ReqBytes(reqBatch, StdMeta(method, op.BatchReqID, "")))
		reqBatch.Release()
		if op.Kind == "pipe_stream" {
			w.sf.PushStream(*op.Stream)
			exchange := strings.HasPrefix(method, "exch")
			items := make([]InputItem, op.Ticks)
			schema := arrow.NewSchema(nil, nil)
			if exchange {
				schema = inSchemaX
			}
			for i := range items {
				items[i] = InputItem{Kind: "tick"}
				if exchange {
					items[i] = InputItem{Kind: "data", Vals: []int64{int64(i)}}
				}
			}
			in.Write(InputBytes(schema, items))
		} else {
			w.sf.PushUnary(*op.Call)
		}
		payload := c38Payload(in.Bytes())
		_, esc := RunPipe(w.pipe, in.Bytes())
		recs := c38Lines(w.log.Bytes())
		c38Elide(recs, payload)
		if op.BlobSize > 0 {
			tags = append(tags, c38SizeTag(op.BlobSize))
		}
		out := c38OpOut{Records: recs}
		if esc != nil {
			out.Note = fmt.Sprint("escaped panic: ", esc)
		}
		var first []c38KV
		if len(recs) > 0 {
			first = recs[0]
		}
		e := c38ErrObs{Kind: "none"}
		if first != nil {
			if s, _ := c38Get(first, "status"); s.S == "error" {
				e = c38ScriptErr(&ErrSpec{Kind: "panic_str"}, first)
			}
		}
		if op.Kind == "pipe_unary" {
			e = c38ScriptErr(op.Call.Err, first)
			return App("C38.OUnary", w.reqEnvCoq(op, method, payload, e, recs, false, in.Len(), c38Anon)), out, append(tags, "err-"+e.Kind)
		}
		if op.Stream.Init.Err != nil && op.Stream.Init.Err.Kind != "" && !strings.HasPrefix(op.Stream.Init.Err.Kind, "panic") {
			e = c38ScriptErr(op.Stream.Init.Err, first)
		}
		sid := ""
		if first != nil {
			if v, ok := c38Get(first, "stream_id"); ok {
				sid = v.S
			}
		}
		return App("C38.OPipeStream", w.reqEnvCoq(op, method, payload, e, recs, false, in.Len(), c38Anon), c38S(sid)), out, append(tags, "err-"+e.Kind)
	}
	panic("c38: bad op kind " + op.Kind)
}

func c38SizeTag(n int) string {
	switch {
	case n > 4<<20:
		return "req-over-4MiB"
	case n == 4<<20:
		return "req-4MiB"
	case n >= 1<<20:
		return "req-1MiB-to-4MiB"
	case n >= 64<<10:
		return "req-64KiB-to-1MiB"
	}
	return "req-blob-small"
}

func c38Uniq(xs []string) []string {
	var out []string
	for i, x := range xs {
		if i == 0 || x != xs[i-1] {
			out = append(out, x)
		}
	}
	return out
}

func emptyBatchOf(schema *arrow.Schema) arrow.RecordBatch {
	return array.NewRecordBatch(schema, nil, 0)
}

func c38Run(in c38In) CaseOut {
	c38Mu.Lock()
	defer c38Mu.Unlock()
	c38Ver = in.Ver
	c38Dict, c38DictOrder = map[string]string{}, nil
	defer func() { c38Dict, c38DictOrder = nil, nil }()
	var world *c38World
	var ops, obs []string
	var outs []c38OpOut
	tagset := map[string]bool{}
	for i := range in.Ops {
		op := &in.Ops[i]
		var coq string
		var out c38OpOut
		var tags []string
		if op.Kind == "direct" {
			var recs [][]c38KV
			coq, recs, tags = c38RunDirect(*op)
			out = c38OpOut{Records: recs}
		} else {
			if world == nil {
				world = c38NewWorld(in.Ver)
				defer world.close()
			}
			coq, out, tags = world.runOp(i, op)
		}
		for _, r := range out.Records {
			if _, ok := c38Get(r, "trace_id"); ok {
				tags = append(tags, "trace-emitted")
			}
			if _, ok := c38Get(r, "claims"); ok {
				tags = append(tags, "claims-emitted")
			}
			if _, ok := c38Get(r, "request_data"); ok {
				tags = append(tags, "payload")
			}
			if _, ok := c38Get(r, "truncated"); ok {
				tags = append(tags, "payload-omitted")
			}
		}
		if op.Trace.Mode != "none" && op.Trace.Mode != "" {
			tags = append(tags, "trace-"+op.Trace.Mode)
		}
		tags = append(tags, "redactor-"+op.Redactor.Mode)
		for _, t := range tags {
			tagset[t] = true
		}
		ops = append(ops, coq)
		outs = append(outs, out)
		obs = append(obs, App("C38.Build_obs1", ListOf(out.Records, c38TopCoq), Z(int64(out.Wire))))
	}
	var tags []string
	for t := range tagset {
		tags = append(tags, t)
	}
	sort.Strings(tags)
	nrec := 0
	for _, o := range outs {
		nrec += len(o.Records)
	}
	// stream-id oracle of every /init that logged nothing: the id of the stream's
	// first logged continuation (a well-formed dummy when nothing was ever logged)
	for i := range in.Ops {
		ph := fmt.Sprintf("@@SID%d@@", i)
		if in.Ops[i].Kind != "init" || !strings.Contains(ops[i], ph) {
			continue
		}
		sid := strings.Repeat("0", 32)
	find:
		for j := i + 1; j < len(in.Ops); j++ {
			if in.Ops[j].Kind == "cont" && in.Ops[j].Of == i {
				for _, r := range outs[j].Records {
					if v, ok := c38Get(r, "stream_id"); ok {
						sid = v.S
						break find
					}
				}
			}
		}
		ops[i] = strings.Replace(ops[i], ph, c38S(sid), 1)
	}
	// streams with at least two logged records, at least one of them not the init's
	for i := range in.Ops {
		if in.Ops[i].Kind != "init" {
			continue
		}
		n := len(outs[i].Records)
		for j := i + 1; j < len(in.Ops); j++ {
			if in.Ops[j].Kind == "cont" && in.Ops[j].Of == i {
				n += len(outs[j].Records)
			}
		}
		if n >= 2 {
			tags = append(tags, "stream-2plus-records")
			if len(outs[i].Records) == 0 {
				tags = append(tags, "stream-2plus-records-init-unlogged")
			}
		}
	}
	sort.Strings(tags)
	tags = c38Uniq(tags)
	return CaseOut{Coq: c38WithDict(Pair(List(ops), List(obs))), Tags: tags, Nontrivial: nrec > 0, Obs: outs}
}

// ---------------------------------------------------------------- generators

func c38Hex(r *rand.Rand, n int) string {
	const h = "0123456789abcdef"
	b := make([]byte, n)
	for i := range b {
		b[i] = h[r.Intn(16)]
	}
	return string(b)
}

func c38GenTrace(r *rand.Rand) c38Trace {
	t, s := c38Hex(r, 32), c38Hex(r, 16)
	switch r.Intn(14) {
	case 0, 1, 2:
		return c38Trace{Mode: "none"}
	case 3, 4, 5, 6:
		return c38Trace{Mode: "ret", T: t, S: s}
	case 7:
		return c38Trace{Mode: "panic"}
	case 8: // dashed uuid
		return c38Trace{Mode: "ret", T: t[:8] + "-" + t[8:12] + "-" + t[12:16] + "-" + t[16:20] + "-" + t[20:], S: s}
	case 9: // uppercase
		if r.Intn(2) == 0 {
			return c38Trace{Mode: "ret", T: strings.ToUpper(t[:31]) + "A", S: s}
		}
		return c38Trace{Mode: "ret", T: t, S: strings.ToUpper(s[:15]) + "F"}
	case 10: // short / long
		return [...]c38Trace{{Mode: "ret", T: t[:31], S: s}, {Mode: "ret", T: t, S: s[:15]}, {Mode: "ret", T: t + "0", S: s}, {Mode: "ret", T: t, S: s + s}}[r.Intn(4)]
	case 11: // only one of the two
		if r.Intn(2) == 0 {
			return c38Trace{Mode: "ret", T: t, S: ""}
		}
		return c38Trace{Mode: "ret", T: "", S: s}
	case 12: // all zero / both empty / non-hex letter
		return [...]c38Trace{{Mode: "ret", T: strings.Repeat("0", 32), S: strings.Repeat("0", 16)}, {Mode: "ret"},
			{Mode: "ret", T: t[:31] + "g", S: s}, {Mode: "ret", T: t, S: s[:15] + " "}}[r.Intn(4)]
	}
	return c38Trace{Mode: "ret", T: t, S: s}
}

var c38ClaimKeys = []string{"sub", "email", "Email", "EMAIL_ADDRESS", "name", "Name", "names", "username", "given_name",
	"phone_number", "api_key", "apiKey", "KEY", "monkey", "access_token", "Authorization", "secret", "client_secret_hash",
	"role", "tenant", "scope", "iss", "aud", "exp", "context", "nick", "nickname", "preferred_username", "picture",
	"profile", "website", "birthdate", "gender", "address", "groups", "x", "", "passwordless", "PassWord", "tok", "toke n"}

func c38GenJV(r *rand.Rand, depth int) c38JV {
	switch k := r.Intn(9); {
	case k <= 2:
		return c38JV{T: "s", S: []string{"alice@example.com", "s3cr3t", "", "[redacted]", "+1 555 0100", "admin", "é\"\\\n"}[r.Intn(7)]}
	case k == 3:
		return c38JV{T: "i", I: []int64{0, 1, -7, 1700000000, 1 << 40}[r.Intn(5)]}
	case k == 4:
		return c38JV{T: "b", B: r.Intn(2) == 0}
	case k == 5:
		return c38JV{T: "z"}
	case k == 6 && depth > 0:
		n := r.Intn(3)
		v := c38JV{T: "a"}
		for i := 0; i < n; i++ {
			v.A = append(v.A, c38GenJV(r, depth-1))
		}
		return v
	case k == 7 && depth > 0:
		return c38JV{T: "o", O: c38GenClaims(r, r.Intn(3), depth-1)}
	}
	return c38JV{T: "n"}
}

func c38GenClaims(r *rand.Rand, n, depth int) []c38KV {
	seen := map[string]bool{}
	var out []c38KV
	for i := 0; i < n; i++ {
		k := c38ClaimKeys[r.Intn(len(c38ClaimKeys))]
		if seen[k] {
			continue
		}
		seen[k] = true
		out = append(out, c38KV{K: k, V: c38GenJV(r, depth)})
	}
	sort.Slice(out, func(i, j int) bool { return out[i].K < out[j].K })
	return out
}

func c38GenRed(r *rand.Rand, claims []c38KV) c38Red {
	switch r.Intn(10) {
	case 0, 1, 2, 3:
		return c38Red{Mode: "default"}
	case 4:
		return c38Red{Mode: "none"}
	case 5, 6:
		var ks []string
		for _, kv := range claims {
			if r.Intn(2) == 0 {
				ks = append(ks, kv.K)
			}
		}
		ks = append(ks, "not-a-claim")
		return c38Red{Mode: "keys", Keys: ks}
	case 7:
		return c38Red{Mode: "drop"}
	case 8:
		return c38Red{Mode: "nil"}
	}
	return c38Red{Mode: "panic"}
}

func c38GenAuth(r *rand.Rand, principal string) *c38Auth {
	a := &c38Auth{Principal: principal, Domain: "jwt", Authenticated: principal != ""}
	if principal == "" {
		a.Domain = ""
	}
	if r.Intn(5) != 0 {
		a.Claims = c38GenClaims(r, 1+r.Intn(6), 2)
	} else if r.Intn(2) == 0 {
		a.Claims = []c38KV{}
	}
	return a
}

func c38GenErr(r *rand.Rand) *ErrSpec {
	switch r.Intn(9) {
	case 0:
		return &ErrSpec{Kind: "rpc", Type: "ValueError", Msg: "bad value"}
	case 1:
		return &ErrSpec{Kind: "rpc", Type: "RuntimeError", Msg: ""}
	case 2:
		return &ErrSpec{Kind: "plain", Msg: "plain failure"}
	case 3:
		return &ErrSpec{Kind: "wrapped_rpc", Type: "KeyError", Msg: "k"}
	case 4:
		return &ErrSpec{Kind: "panic_str", Msg: "kaboom"}
	case 5:
		return &ErrSpec{Kind: "panic_err", Msg: "err kaboom"}
	}
	return nil
}

func c38GenTurns(r *rand.Rand, exchange bool) []TurnScript {
	n := r.Intn(5)
	var out []TurnScript
	for i := 0; i < n; i++ {
		acts := []string{"emit", "emit", "emit", "emit2", "noemit", "finish", "emit_finish", "err"}
		if exchange {
			acts = []string{"emit", "emit", "emit", "emit", "err"}
		}
		t := TurnScript{Act: acts[r.Intn(len(acts))], Value: int64(r.Intn(100))}
		if t.Act == "err" {
			e := c38GenErr(r)
			if e == nil {
				e = &ErrSpec{Kind: "rpc", Type: "ValueError", Msg: "turn"}
			}
			t.Err = e
		}
		if r.Intn(4) == 0 {
			t.Logs = []LogSpec{{Level: "INFO", Msg: "turn log"}}
		}
		out = append(out, t)
	}
	return out
}

func c38GenCommon(r *rand.Rand, op *c38Op, principal string) {
	op.Debug = r.Intn(2) == 0
	op.Trace = c38GenTrace(r)
	op.Auth = c38GenAuth(r, principal)
	op.Redactor = c38GenRed(r, op.Auth.Claims)
	if r.Intn(3) == 0 {
		op.BatchReqID = "req-" + c38Hex(r, 6)
	}
	if r.Intn(3) == 0 {
		op.XReqID = "x-" + c38Hex(r, 8)
	}
	op.AcceptEnc = []string{"", "", "zstd", "gzip", "gzip, zstd", "identity"}[r.Intn(6)]
}

func c38GenHistory(r *rand.Rand, tier string) c38In {
	in := c38In{Ver: []string{"", "1.2.3", "v0.0.0-dev"}[r.Intn(3)]}
	principal := []string{"alice", "", "svc-account"}[r.Intn(3)]
	nops := 2 + r.Intn(5)
	if tier == "thorough" {
		nops = 2 + r.Intn(14)
	}
	var open []int
	for i := 0; i < nops; i++ {
		op := c38Op{}
		c38GenCommon(r, &op, principal)
		k := r.Intn(20)
		switch {
		case k < 4:
			op.Kind, op.Method, op.X = "unary", []string{"u_int", "u_void"}[r.Intn(2)], int64(r.Intn(1000))
			op.Node = r.Intn(2)
			op.Call = &CallScript{Value: int64(r.Intn(50)), Err: c38GenErr(r)}
			if r.Intn(5) == 0 {
				op.Call.Logs = []LogSpec{{Level: "INFO", Msg: strings.Repeat("compressible ", 40)}}
			}
		case k < 8 || (len(open) == 0 && k < 15):
			op.Kind, op.Node, op.X = "init", r.Intn(2), int64(r.Intn(1000))
			if r.Intn(4) == 0 {
				op.Node = 2 // no hook there until a set_hook op
			}
			op.Method = []string{"prod", "exch", "prod_h", "exch_h"}[r.Intn(4)]
			ex := strings.HasPrefix(op.Method, "exch")
			op.Stream = &StreamScript{Init: CallScript{Err: nil}, Turns: c38GenTurns(r, ex), Canceller: r.Intn(2) == 0}
			if r.Intn(6) == 0 {
				op.Stream.Init.Err = c38GenErr(r)
			}
			if strings.HasSuffix(op.Method, "_h") {
				h := int64(r.Intn(9))
				op.Stream.Header = &h
			}
			open = append(open, i)
		case k < 15:
			op.Kind, op.Node = "cont", r.Intn(2)
			if r.Intn(5) == 0 {
				op.Node = 2
			}
			op.Of = open[r.Intn(len(open))]
			op.Method = in.Ops[op.Of].Method
			op.Vals = []int64{int64(r.Intn(10))}
			op.Tamper = []string{"", "", "", "", "", "cursor", "call", "drop_call"}[r.Intn(8)]
			op.Cancel = r.Intn(8) == 0
		case k < 17:
			op.Kind, op.Method, op.X = "pipe_unary", []string{"u_int", "u_void"}[r.Intn(2)], int64(r.Intn(1000))
			op.Call = &CallScript{Value: int64(r.Intn(50)), Err: c38GenErr(r)}
		case k < 19:
			op.Kind, op.X = "pipe_stream", int64(r.Intn(1000))
			op.Method = []string{"prod", "exch"}[r.Intn(2)]
			ex := op.Method == "exch"
			op.Stream = &StreamScript{Turns: c38GenTurns(r, ex)}
			if r.Intn(6) == 0 {
				op.Stream.Init.Err = c38GenErr(r)
			}
			op.Ticks = r.Intn(4)
			if !ex {
				op.Ticks = 6 // enough ticks for any producer script
			}
		default:
			if r.Intn(2) == 0 {
				op = c38Op{Kind: "set_hook", Node: 2, Trace: c38Trace{Mode: "none"}, Redactor: c38Red{Mode: "default"}}
				break
			}
			op.Kind, op.Method = "rejected", "u_int"
			op.Reject = []string{"unknown_method", "auth", "content_type"}[r.Intn(3)]
			op.Call = &CallScript{}
		}
		if r.Intn(6) == 0 { // a request with one binary parameter of some size class
			sizes := []int{1, 1 << 10, 3000, 64 << 10, 1 << 20, 4<<20 - 1, 4 << 20, 4<<20 + 1, 5 << 20}
			switch op.Kind {
			case "unary", "pipe_unary":
				op.Method, op.BlobSize = "u_blob", sizes[r.Intn(len(sizes))]
			case "init":
				op.Method, op.BlobSize = []string{"prod_blob", "exch_blob"}[r.Intn(2)], sizes[r.Intn(len(sizes))]
				op.Stream.Header = nil
			case "pipe_stream":
				op.Method, op.BlobSize = op.Method+"_blob", sizes[r.Intn(len(sizes))]
			}
		}
		in.Ops = append(in.Ops, op)
	}
	return in
}

func c38GenDirect(r *rand.Rand) c38Op {
	op := c38Op{Kind: "direct"}
	principal := []string{"alice", "", "bob"}[r.Intn(3)]
	c38GenCommon(r, &op, principal)
	if r.Intn(8) == 0 {
		op.Auth = nil
	}
	d := &c38Direct{Method: []string{"m", "echo", "", "näme \"q\""}[r.Intn(4)], Stream: r.Intn(2) == 0,
		Protocol: []string{"Svc", "", "a.b"}[r.Intn(3)], ServerID: c38Hex(r, 12), Hash: c38Hex(r, 64),
		Remote: []string{"", "10.0.0.1:443"}[r.Intn(2)], Ver: []string{"", "9.9"}[r.Intn(2)], NilToken: r.Intn(10) == 0}
	d.ReqID = op.BatchReqID
	if r.Intn(4) == 0 {
		d.HTTPStatus = []int{200, 400, 500, -1}[r.Intn(4)]
	}
	switch r.Intn(4) {
	case 0:
		d.Payload = nil
	case 1:
		d.Payload = []byte{byte(r.Intn(256))}
	default:
		d.Payload = make([]byte, r.Intn(40))
		r.Read(d.Payload)
	}
	if d.Stream && r.Intn(3) != 0 {
		d.StreamID = c38Hex(r, 32)
	}
	if !d.Stream && r.Intn(6) == 0 {
		d.StreamID = c38Hex(r, 32) // ignored on unary
	}
	d.Cancelled = r.Intn(6) == 0
	switch r.Intn(6) {
	case 0:
		d.Err = &c38Err{Kind: "rpc", Type: "ValueError", Msg: "m"}
	case 1:
		d.Err = &c38Err{Kind: "rpc", Type: "", Msg: ""}
	case 2:
		d.Err = &c38Err{Kind: "plain", Msg: "plain"}
	case 3:
		d.Err = &c38Err{Kind: "wrapped_rpc", Type: "T", Msg: "inner"}
	}
	switch r.Intn(4) {
	case 0:
		d.Stats = nil
	case 1:
		d.Stats = &[6]int64{}
	default:
		d.Stats = &[6]int64{int64(r.Intn(3)), int64(r.Intn(3)), int64(r.Intn(100)), int64(r.Intn(100)), int64(r.Intn(1 << 20)), int64(r.Intn(1 << 20))}
	}
	if r.Intn(2) == 0 {
		e := &c38Egress{ReqID: op.XReqID, ReqBytes: int64(r.Intn(5000)), Writes: []int{}}
		if r.Intn(3) == 0 {
			e.Ext = int64(r.Intn(1 << 20))
		}
		for k := r.Intn(5); k > 0; k-- {
			e.Writes = append(e.Writes, r.Intn(4096))
		}
		d.Egress = e
	}
	if r.Intn(12) == 0 {
		d.Payload, d.PayloadSize = nil, []int{2049, 100000, 4<<20 + 1}[r.Intn(3)]
	}
	op.Direct = d
	return op
}

func c38Gen(r *rand.Rand, n int, tier string) []c38In {
	var out []c38In
	// boundary cases first: every trace-provider class on one unary HTTP call,
	// every redactor on a fixed sensitive claim set, debug on/off, compressed
	// and chunked bodies, a stream across both nodes.
	claims := []c38KV{{K: "email", V: c38JV{T: "s", S: "a@b.c"}}, {K: "name", V: c38JV{T: "s", S: "Al"}},
		{K: "names", V: c38JV{T: "s", S: "kept"}}, {K: "sub", V: c38JV{T: "s", S: "u1"}},
		{K: "x_api_KEY", V: c38JV{T: "o", O: []c38KV{{K: "inner", V: c38JV{T: "s", S: "deep secret"}}}}}}
	au := &c38Auth{Principal: "alice", Domain: "jwt", Authenticated: true, Claims: claims}
	for _, rd := range []c38Red{{Mode: "default"}, {Mode: "none"}, {Mode: "keys", Keys: []string{"sub", "zzz"}}, {Mode: "drop"}, {Mode: "nil"}, {Mode: "panic"}} {
		for _, dbg := range []bool{false, true} {
			out = append(out, c38In{Ver: "1.0", Ops: []c38Op{{Kind: "unary", Method: "u_int", X: 3, Call: &CallScript{Value: 1},
				Debug: dbg, Trace: c38Trace{Mode: "ret", T: strings.Repeat("ab", 16), S: strings.Repeat("0f", 8)}, Redactor: rd, Auth: au, AcceptEnc: "zstd"}}})
		}
	}
	mkStream := func(method string, chunked bool) c38In {
		in := c38In{Ops: []c38Op{
			{Kind: "init", Node: 0, Method: method, X: 2, Stream: &StreamScript{Turns: []TurnScript{{Act: "emit", Value: 1}, {Act: "emit", Value: 2}, {Act: "emit", Value: 3}, {Act: "emit", Value: 4}, {Act: "emit", Value: 5}, {Act: "emit", Value: 6}}}, Trace: c38Trace{Mode: "none"}, Redactor: c38Red{Mode: "default"}, Auth: au},
			{Kind: "cont", Node: 0, Of: 0, Method: method, Vals: []int64{1}, Trace: c38Trace{Mode: "none"}, Redactor: c38Red{Mode: "default"}, Auth: au, Debug: true},
			{Kind: "cont", Node: 1, Of: 0, Method: method, Vals: []int64{2}, Trace: c38Trace{Mode: "panic"}, Redactor: c38Red{Mode: "panic"}, Auth: au, AcceptEnc: "gzip", Chunked: chunked},
			{Kind: "cont", Node: 1, Of: 0, Method: method, Vals: []int64{3}, Tamper: "drop_call", Trace: c38Trace{Mode: "none"}, Redactor: c38Red{Mode: "default"}, Auth: au},
			{Kind: "cont", Node: 0, Of: 0, Method: method, Vals: []int64{4}, Tamper: "call", Trace: c38Trace{Mode: "none"}, Redactor: c38Red{Mode: "default"}, Auth: au},
			{Kind: "cont", Node: 0, Of: 0, Method: method, Vals: []int64{5}, Tamper: "cursor", Trace: c38Trace{Mode: "none"}, Redactor: c38Red{Mode: "default"}, Auth: au},
			{Kind: "cont", Node: 1, Of: 0, Method: method, Cancel: true, Trace: c38Trace{Mode: "none"}, Redactor: c38Red{Mode: "default"}, Auth: au},
		}}
		return in
	}
	out = append(out, mkStream("exch", false), mkStream("prod", false))
	// hooks that are not everywhere / not from the start: /init served by a node
	// with no dispatch hook (node 2), continuations logged elsewhere or after a
	// late SetDispatchHook — every logged record of the stream must carry one id
	mkLate := func(method string, variant int) c38In {
		tr, rd := c38Trace{Mode: "none"}, c38Red{Mode: "default"}
		turns := []TurnScript{}
		for v := int64(1); v <= 12; v++ {
			turns = append(turns, TurnScript{Act: "emit", Value: v})
		}
		cont := func(node int, v int64) c38Op {
			return c38Op{Kind: "cont", Node: node, Of: 0, Method: method, Vals: []int64{v}, Trace: tr, Redactor: rd, Auth: au}
		}
		in := c38In{Ops: []c38Op{{Kind: "init", Node: 2, Method: method, X: 2, Stream: &StreamScript{Turns: turns}, Trace: tr, Redactor: rd, Auth: au}}}
		switch variant {
		case 0: // logged only by the cache-less node: the call token is opened on every turn
			in.Ops = append(in.Ops, cont(1, 1), cont(1, 2), cont(1, 3))
		case 1: // logged by the caching node: one token open, then cache hits
			in.Ops = append(in.Ops, cont(0, 1), cont(0, 2), cont(1, 3))
		case 2: // hook installed on the same node after the stream began
			in.Ops = append(in.Ops, cont(2, 1), c38Op{Kind: "set_hook", Node: 2, Trace: tr, Redactor: rd}, cont(2, 2), cont(2, 3), cont(0, 4))
		}
		return in
	}
	for v := 0; v < 3; v++ {
		out = append(out, mkLate("exch", v), mkLate("prod", v))
	}
	// request SIZE classes: one binary parameter of 1 KiB ... 16 MiB on every
	// capture site (HTTP unary, HTTP stream init, pipe unary, pipe stream) with
	// debug on and off — the record must carry the payload or the marker, and
	// the payload / omitted size must be those of the request, at every size
	mkSized := func(size int, full bool, flip bool) c38In {
		tr, rd := c38Trace{Mode: "none"}, c38Red{Mode: "default"}
		turns := []TurnScript{{Act: "emit", Value: 1}}
		in := c38In{}
		for i, dbg := range []bool{false, true} {
			ops := []c38Op{
				{Kind: "unary", Node: i, Method: "u_blob", X: 1, BlobSize: size, Call: &CallScript{Value: 1}, Debug: dbg, Trace: tr, Redactor: rd, Auth: au},
				{Kind: "init", Node: 1 - i, Method: "exch_blob", X: 2, BlobSize: size, Stream: &StreamScript{Turns: turns}, Debug: dbg, Trace: tr, Redactor: rd, Auth: au},
				{Kind: "pipe_unary", Method: "u_blob", X: 3, BlobSize: size, Call: &CallScript{Value: 1}, Debug: dbg, Trace: tr, Redactor: rd},
				{Kind: "pipe_stream", Method: "prod_blob", X: 4, BlobSize: size, Stream: &StreamScript{Turns: turns}, Ticks: 3, Debug: dbg, Trace: tr, Redactor: rd},
			}
			if !full { // each site once, debug alternating (and flipped from one class to the next)
				if dbg != flip {
					ops = []c38Op{ops[1], ops[2]}
				} else {
					ops = []c38Op{ops[0], ops[3]}
				}
			}
			in.Ops = append(in.Ops, ops...)
		}
		return in
	}
	out = append(out, mkSized(1<<10, true, false), mkSized(64<<10, true, false), mkSized(1<<20, false, false),
		mkSized(4<<20-1, false, true), mkSized(4<<20, false, false), mkSized(4<<20+1, true, false),
		mkSized(5<<20, false, true), mkSized(16<<20, false, false))
	// and the hook itself handed large RequestData directly
	for _, size := range []int{3000, 5 << 20} {
		for _, dbg := range []bool{false, true} {
			out = append(out, c38In{Ops: []c38Op{{Kind: "direct", Debug: dbg, Trace: c38Trace{Mode: "none"}, Redactor: c38Red{Mode: "default"}, Auth: au,
				Direct: &c38Direct{Method: "m", Protocol: "Svc", ServerID: "sid", Hash: "h", PayloadSize: size}}}})
		}
	}
	// the chunked-request finding: a continuation and a unary call sent without Content-Length
	out = append(out, c38In{Ops: []c38Op{{Kind: "unary", Method: "u_int", X: 1, Call: &CallScript{}, Chunked: true,
		Trace: c38Trace{Mode: "none"}, Redactor: c38Red{Mode: "default"}, Auth: au}}})
	for len(out) < n {
		switch k := r.Intn(10); {
		case k < 4: // direct: 1..4 synthetic dispatches
			in := c38In{}
			for j := 1 + r.Intn(4); j > 0; j-- {
				in.Ops = append(in.Ops, c38GenDirect(r))
			}
			out = append(out, in)
		default:
			in := c38GenHistory(r, tier)
			if r.Intn(12) == 0 { // rare: one request without Content-Length
				j := r.Intn(len(in.Ops))
				if k := in.Ops[j].Kind; k == "unary" || k == "init" || k == "cont" {
					in.Ops[j].Chunked = true
				}
			}
			out = append(out, in)
		}
	}
	return out
}

func init() {
	Register("C38", "boundary cases (each redactor x debug, a stream spanning both nodes with tampered/dropped tokens and a cancel, a chunked request, request size classes 1 KiB / 64 KiB / 1 MiB / 4 MiB-1 / 4 MiB / 4 MiB+1 / 5 MiB / 16 MiB (one binary parameter) on HTTP unary, HTTP stream init, pipe unary and pipe stream with debug on and off, streams whose /init is served by a node with NO dispatch hook and whose continuations are logged by other nodes or after a late SetDispatchHook), then 40% lists of 1-4 synthetic dispatch infos fed to AccessLogHook directly (all fields, egress recorder via the real countingResponseWriter) and 60% histories of 2-6 requests (2-15 in the thorough tier) (HTTP unary/init/continuations on three nodes sharing the token key — cache+hook, hook only, cache with the hook installed late or never —, pipe unary/stream, refused requests) with scripted outcomes incl. panics, per-request debug flag, trace provider (valid / dashed / uppercase / short / one-sided / panicking), claim sets and redactors, Accept-Encoding; a case is non-trivial when at least one record was logged; distinct = distinct input JSON",
		c38Gen, c38Run)
}

var _ = base64.StdEncoding
