package main

// c43.go — C43: the OpenTelemetry dispatch hook (vgirpc/otel/otel.go).
//
// The REAL hook is installed with vgiotel.InstrumentServer on real Servers (one
// served over pipes, one wrapped in an HttpServer) that share one telemetry
// backend: the OTel SDK TracerProvider (sampler chosen by the input) behind a
// thin counting wrapper that logs every Tracer.Start and every Span.End CALL,
// a tracetest.SpanRecorder (what the SDK exports) and an sdk/metric
// ManualReader. A history is a list of calls plus a schedule of Begin k /
// Finish k operations; every handler blocks on a gate so the schedule forces
// the interleaving of OnDispatchStart / OnDispatchEnd from outside.
// Observables: per operation the ordered backend events (span start with the
// parent the hook handed to the tracer; End call with exported status, parent,
// exception event, error type; request-counter and duration-histogram deltas
// with their labels), plus the list of spans the SDK exported.

import (
	"bytes"
	"context"
	"errors"
	"fmt"
	"math/rand"
	"net/http"
	"sort"
	"strings"
	"sync"
	"time"

	"github.com/Query-farm/vgi-rpc-go/vgirpc"
	vgiotel "github.com/Query-farm/vgi-rpc-go/vgirpc/otel"
	"github.com/apache/arrow-go/v18/arrow"
	"github.com/apache/arrow-go/v18/arrow/array"
	"github.com/apache/arrow-go/v18/arrow/memory"
	"go.opentelemetry.io/otel/attribute"
	"go.opentelemetry.io/otel/codes"
	"go.opentelemetry.io/otel/propagation"
	sdkmetric "go.opentelemetry.io/otel/sdk/metric"
	"go.opentelemetry.io/otel/sdk/metric/metricdata"
	sdktrace "go.opentelemetry.io/otel/sdk/trace"
	"go.opentelemetry.io/otel/sdk/trace/tracetest"
	"go.opentelemetry.io/otel/trace"
	"go.opentelemetry.io/otel/trace/embedded"
)

// ------------------------------------------------------------------ input

type c43Cfg struct {
	Tracing   bool   `json:"tracing"`
	Metrics   bool   `json:"metrics"`
	RecExc    bool   `json:"rec_exc"`
	Propagate bool   `json:"propagate"` // W3C TraceContext propagator vs. an empty composite one
	Sampler   string `json:"sampler"`   // always | never | parent_always | parent_never
}

type c43Call struct {
	HTTP      bool     `json:"http"`
	Kind      string   `json:"kind"`              // unary | prod | exch | unknown
	TPMeta    string   `json:"tp_meta,omitempty"` // traceparent in the request's IPC custom metadata
	TPHdr     string   `json:"tp_hdr,omitempty"`  // Traceparent HTTP header (HTTP only)
	TState    string   `json:"tstate,omitempty"`  // tracestate, same carrier(s) as the traceparent
	Amb       string   `json:"amb,omitempty"`     // span context already current in the dispatch ctx: "" (bare) | recording | remote | remote_unsampled | remote_ts | local_unsampled | invalid
	BadParams bool     `json:"bad_params,omitempty"`
	Init      string   `json:"init"`             // ok | err_rpc | err_plain | panic | nil (nil: streams only)
	Turns     []string `json:"turns,omitempty"`  // emit | finish | err | panic | noemit
	Inputs    []string `json:"inputs,omitempty"` // tick | cancel  (pipe streams; HTTP exchange continuations)
}

type c43Op struct {
	Fin bool `json:"fin"`
	K   int  `json:"k"`
}

type c43In struct {
	Cfg   c43Cfg    `json:"cfg"`
	Calls []c43Call `json:"calls"`
	Sched []c43Op   `json:"sched"`
}

// ------------------------------------------------------------------ backend

type c43Ev struct {
	Kind    string `json:"kind"` // start | end | count | hist | exported
	Sid     int    `json:"sid,omitempty"`
	Rec     bool   `json:"rec,omitempty"`
	Name    string `json:"name,omitempty"`
	PTrace  string `json:"ptrace,omitempty"`
	PSpan   string `json:"pspan,omitempty"`
	SameTr  bool   `json:"same_trace,omitempty"`
	Remote  bool   `json:"parent_remote,omitempty"`
	PTState string `json:"parent_tracestate,omitempty"`
	Server  bool   `json:"server_kind,omitempty"`
	Status  string `json:"status,omitempty"` // unset | error | ok
	Exc     bool   `json:"exc,omitempty"`
	ErrType string `json:"err_type,omitempty"`
	Stats   bool   `json:"stats_attrs,omitempty"`
	Method  string `json:"method,omitempty"`
	MType   string `json:"mtype,omitempty"`
	Label   string `json:"label,omitempty"`
	N       int64  `json:"n,omitempty"`
}

type c43Backend struct {
	mu     sync.Mutex
	log    []c43Ev
	nextID int
	rec    *tracetest.SpanRecorder
	tp     *sdktrace.TracerProvider
	reader *sdkmetric.ManualReader
	mp     *sdkmetric.MeterProvider
	prevC  map[string]int64
	prevH  map[string]int64
	sids   map[trace.SpanID]int // exported-span id -> canonical start index
}

type c43TP struct {
	embedded.TracerProvider
	b *c43Backend
}
type c43Tracer struct {
	embedded.Tracer
	b     *c43Backend
	inner trace.Tracer
}
type c43Span struct {
	trace.Span // the SDK span: every method but End is the SDK's own
	b          *c43Backend
	sid        int
}

func (p *c43TP) Tracer(name string, opts ...trace.TracerOption) trace.Tracer {
	return &c43Tracer{b: p.b, inner: p.b.tp.Tracer(name, opts...)}
}

func (t *c43Tracer) Start(ctx context.Context, name string, opts ...trace.SpanStartOption) (context.Context, trace.Span) {
	parent := trace.SpanContextFromContext(ctx) // what the hook handed to the tracer
	cfg := trace.NewSpanStartConfig(opts...)
	ctx2, sp := t.inner.Start(ctx, name, opts...)
	t.b.mu.Lock()
	sid := t.b.nextID
	t.b.nextID++
	ev := c43Ev{Kind: "start", Sid: sid, Rec: sp.IsRecording(), Name: name, Server: cfg.SpanKind() == trace.SpanKindServer}
	if parent.IsValid() {
		ev.PTrace, ev.PSpan = parent.TraceID().String(), parent.SpanID().String()
		ev.SameTr = sp.SpanContext().TraceID() == parent.TraceID()
		ev.Remote, ev.PTState = parent.IsRemote(), parent.TraceState().String()
	}
	if sp.IsRecording() {
		t.b.sids[sp.SpanContext().SpanID()] = sid
	}
	t.b.log = append(t.b.log, ev)
	t.b.mu.Unlock()
	return ctx2, &c43Span{Span: sp, b: t.b, sid: sid}
}

func (s *c43Span) End(opts ...trace.SpanEndOption) {
	s.Span.End(opts...)
	ev := c43Ev{Kind: "end", Sid: s.sid, Status: "unset"}
	if ro, ok := s.Span.(sdktrace.ReadOnlySpan); ok {
		switch ro.Status().Code {
		case codes.Error:
			ev.Status = "error"
		case codes.Ok:
			ev.Status = "ok"
		}
		for _, e := range ro.Events() {
			if e.Name == "exception" {
				ev.Exc = true
			}
		}
		nstats := 0
		for _, a := range ro.Attributes() {
			if a.Key == "rpc.vgi_rpc.error_type" {
				ev.ErrType = a.Value.AsString()
			}
			if strings.HasPrefix(string(a.Key), "rpc.vgi_rpc.input_") || strings.HasPrefix(string(a.Key), "rpc.vgi_rpc.output_") {
				nstats++
			}
		}
		ev.Stats = nstats == 6
		if p := ro.Parent(); p.IsValid() {
			ev.PTrace, ev.PSpan = p.TraceID().String(), p.SpanID().String()
			ev.SameTr = ro.SpanContext().TraceID() == p.TraceID()
			ev.Remote, ev.PTState = p.IsRemote(), p.TraceState().String()
		}
	}
	s.b.mu.Lock()
	s.b.log = append(s.b.log, ev)
	s.b.mu.Unlock()
}

func newC43Backend(cfg c43Cfg) *c43Backend {
	b := &c43Backend{rec: tracetest.NewSpanRecorder(), prevC: map[string]int64{}, prevH: map[string]int64{}, sids: map[trace.SpanID]int{}}
	var smp sdktrace.Sampler
	switch cfg.Sampler {
	case "never":
		smp = sdktrace.NeverSample()
	case "parent_always":
		smp = sdktrace.ParentBased(sdktrace.AlwaysSample())
	case "parent_never":
		smp = sdktrace.ParentBased(sdktrace.NeverSample())
	default:
		smp = sdktrace.AlwaysSample()
	}
	b.tp = sdktrace.NewTracerProvider(sdktrace.WithSampler(smp), sdktrace.WithSpanProcessor(b.rec))
	b.reader = sdkmetric.NewManualReader()
	b.mp = sdkmetric.NewMeterProvider(sdkmetric.WithReader(b.reader))
	return b
}

// drain returns the span events logged since the last drain followed by the
// metric deltas since the last drain (sorted by label).
func (b *c43Backend) drain() []c43Ev {
	b.mu.Lock()
	out := b.log
	b.log = nil
	b.mu.Unlock()
	var rm metricdata.ResourceMetrics
	if err := b.reader.Collect(context.Background(), &rm); err != nil {
		return append(out, c43Ev{Kind: "count", Method: "collect-error:" + err.Error()})
	}
	var ms []c43Ev
	for _, sm := range rm.ScopeMetrics {
		for _, m := range sm.Metrics {
			lbl := func(set attribute.Set) (string, c43Ev) {
				ev := c43Ev{}
				g := func(k string) string { v, _ := set.Value(attribute.Key(k)); return v.AsString() }
				ev.Method, ev.MType, ev.Label = g("rpc.method"), g("rpc.vgi_rpc.method_type"), g("status")
				if g("rpc.system") != "vgi_rpc" || g("rpc.service") != "C43Svc" || set.Len() != 5 {
					ev.Label += "|unexpected-attrs"
				}
				return ev.Method + "\x00" + ev.MType + "\x00" + ev.Label, ev
			}
			switch d := m.Data.(type) {
			case metricdata.Sum[int64]:
				for _, dp := range d.DataPoints {
					k, ev := lbl(dp.Attributes)
					k = m.Name + "\x00" + k
					if delta := dp.Value - b.prevC[k]; delta != 0 {
						ev.Kind, ev.N = "count", delta
						if m.Name != "rpc.server.requests" {
							ev.Label += "|instrument:" + m.Name
						}
						ms = append(ms, ev)
					}
					b.prevC[k] = dp.Value
				}
			case metricdata.Histogram[float64]:
				for _, dp := range d.DataPoints {
					k, ev := lbl(dp.Attributes)
					k = m.Name + "\x00" + k
					if delta := int64(dp.Count) - b.prevH[k]; delta != 0 {
						ev.Kind, ev.N = "hist", delta
						if m.Name != "rpc.server.duration" {
							ev.Label += "|instrument:" + m.Name
						}
						ms = append(ms, ev)
					}
					b.prevH[k] = int64(dp.Count)
				}
			default:
				ms = append(ms, c43Ev{Kind: "count", Method: "unexpected-instrument:" + m.Name})
			}
		}
	}
	sort.SliceStable(ms, func(i, j int) bool {
		if ms[i].Kind != ms[j].Kind {
			return ms[i].Kind < ms[j].Kind
		}
		return ms[i].Method+ms[i].MType+ms[i].Label < ms[j].Method+ms[j].MType+ms[j].Label
	})
	return append(out, ms...)
}

// ------------------------------------------------------------------ ambient dispatch contexts

// c43FixedIDs makes the ambient recording span's ids deterministic.
type c43FixedIDs struct{}

var (
	c43AmbTrace, _ = trace.TraceIDFromHex("a1a1a1a1a1a1a1a1a1a1a1a1a1a1a1a1")
	c43AmbSpan, _  = trace.SpanIDFromHex("a2a2a2a2a2a2a2a2")
	c43RemTrace, _ = trace.TraceIDFromHex("b1b1b1b1b1b1b1b1b1b1b1b1b1b1b1b1")
	c43RemSpan, _  = trace.SpanIDFromHex("b2b2b2b2b2b2b2b2")
)

func (c43FixedIDs) NewIDs(context.Context) (trace.TraceID, trace.SpanID) { return c43AmbTrace, c43AmbSpan }
func (c43FixedIDs) NewSpanID(context.Context, trace.TraceID) trace.SpanID  { return c43AmbSpan }

// the server's own tracer (session / middleware spans): NOT the backend under observation
var c43AmbTP = sdktrace.NewTracerProvider(sdktrace.WithSampler(sdktrace.AlwaysSample()), sdktrace.WithIDGenerator(c43FixedIDs{}))

// c43AmbCtx builds the context the server is served with; done ends the ambient span.
func c43AmbCtx(kind string) (ctx context.Context, done func()) {
	ctx, done = context.Background(), func() {}
	remote := func(flags trace.TraceFlags, ts string) context.Context {
		st, _ := trace.ParseTraceState(ts)
		return trace.ContextWithRemoteSpanContext(ctx, trace.NewSpanContext(trace.SpanContextConfig{
			TraceID: c43RemTrace, SpanID: c43RemSpan, TraceFlags: flags, TraceState: st, Remote: true}))
	}
	switch kind {
	case "recording": // inside a recording span of the server (session span / otelhttp-like middleware)
		c, sp := c43AmbTP.Tracer("ambient").Start(ctx, "session")
		return c, func() { sp.End() }
	case "remote":
		return remote(trace.FlagsSampled, ""), done
	case "remote_unsampled":
		return remote(0, ""), done
	case "remote_ts":
		return remote(trace.FlagsSampled, "amb=1"), done
	case "local_unsampled": // a non-recording local span context
		return trace.ContextWithSpanContext(ctx, trace.NewSpanContext(trace.SpanContextConfig{TraceID: c43RemTrace, SpanID: c43RemSpan})), done
	case "invalid": // a span context that is not valid (zero ids)
		return trace.ContextWithSpanContext(ctx, trace.NewSpanContext(trace.SpanContextConfig{TraceFlags: trace.FlagsSampled})), done
	}
	return ctx, done
}

// c43CoqAmb renders the ambient span context as the SDK reports it (None when not valid).
func c43CoqAmb(kind string) string {
	ctx, done := c43AmbCtx(kind)
	defer done()
	sc := trace.SpanContextFromContext(ctx)
	if !sc.IsValid() {
		return "None"
	}
	return App("Some", App("C43.Build_sctx", B(sc.TraceID().String()), B(sc.SpanID().String()), Bool(sc.IsSampled()), Bool(sc.IsRemote()), B(sc.TraceState().String())))
}

// c43NormTS is the tracestate as trace.ParseTraceState normalises it ("" when invalid): SDK oracle.
func c43NormTS(ts string) string {
	st, err := trace.ParseTraceState(ts)
	if err != nil {
		return ""
	}
	return st.String()
}

// ------------------------------------------------------------------ scripted surface with gates

type c43Hist struct {
	id      int
	calls   []c43Call
	entered []chan struct{}
	release []chan struct{}
	onceEnt []sync.Once
}

var (
	c43Mu   sync.Mutex
	c43Runs = map[int]*c43Hist{}
	c43Seq  int
)

func (r *c43Hist) gate(k int) {
	if k < 0 || k >= len(r.calls) {
		return
	}
	r.onceEnt[k].Do(func() { close(r.entered[k]) })
	<-r.release[k]
}

// C43State is the gob-serialisable stream state (HTTP exchange tokens carry it).
type C43State struct {
	RID, K, Pos int
}

func init() { vgirpc.RegisterStateType(&C43State{}) }

func c43Raise(kind string) error {
	switch kind {
	case "err_rpc", "err":
		return &vgirpc.RpcError{Type: "ValueError", Message: "scripted failure"}
	case "err_plain":
		return errors.New("plain failure")
	case "panic":
		panic("scripted panic")
	}
	return nil
}

func (st *C43State) turn(prod bool, out *vgirpc.OutputCollector) error {
	c43Mu.Lock()
	r := c43Runs[st.RID]
	c43Mu.Unlock()
	act := "emit"
	if prod {
		act = "finish"
	}
	if r != nil && st.K < len(r.calls) && st.Pos < len(r.calls[st.K].Turns) {
		act = r.calls[st.K].Turns[st.Pos]
	}
	st.Pos++
	switch act {
	case "emit":
		return out.Emit(int64Batch(outSchemaV, []int64{int64(st.Pos)}))
	case "finish":
		return out.Finish()
	case "noemit":
		return nil
	}
	return c43Raise(act)
}

func (st *C43State) Produce(ctx context.Context, out *vgirpc.OutputCollector, cc *vgirpc.CallContext) error {
	return st.turn(true, out)
}
func (st *C43State) Exchange(ctx context.Context, in arrow.RecordBatch, out *vgirpc.OutputCollector, cc *vgirpc.CallContext) error {
	return st.turn(false, out)
}

func newC43Server(r *c43Hist) *vgirpc.Server {
	s := vgirpc.NewServer()
	s.SetServiceName("C43Svc")
	vgirpc.Unary(s, "unary", func(_ context.Context, _ *vgirpc.CallContext, p PInt) (int64, error) {
		k := int(p.X)
		r.gate(k)
		if k >= 0 && k < len(r.calls) {
			if err := c43Raise(r.calls[k].Init); err != nil {
				return 0, err
			}
		}
		return p.X, nil
	})
	initH := func(exch bool) func(context.Context, *vgirpc.CallContext, PInt) (*vgirpc.StreamResult, error) {
		return func(_ context.Context, _ *vgirpc.CallContext, p PInt) (*vgirpc.StreamResult, error) {
			k := int(p.X)
			r.gate(k)
			init := "ok"
			if k >= 0 && k < len(r.calls) {
				init = r.calls[k].Init
			}
			if init == "nil" {
				return nil, nil
			}
			if err := c43Raise(init); err != nil {
				return nil, err
			}
			res := &vgirpc.StreamResult{OutputSchema: outSchemaV, State: &C43State{RID: r.id, K: k}}
			if exch {
				res.InputSchema = inSchemaX
			}
			return res, nil
		}
	}
	vgirpc.Producer(s, "prod", outSchemaV, initH(false))
	vgirpc.Exchange(s, "exch", outSchemaV, inSchemaX, initH(true))
	return s
}

var c43BadSchema = arrow.NewSchema([]arrow.Field{{Name: "nope", Type: arrow.BinaryTypes.String}}, nil)

func c43ParamBatch(k int, bad bool) arrow.RecordBatch {
	if !bad {
		return PIntBatch(int64(k))
	}
	b := array.NewStringBuilder(memory.DefaultAllocator)
	defer b.Release()
	b.Append("zzz")
	arr := b.NewArray()
	defer arr.Release()
	return array.NewRecordBatch(c43BadSchema, []arrow.Array{arr}, 1)
}

func c43Method(kind string) string {
	if kind == "unknown" {
		return "no_such_method"
	}
	return kind
}

// runCall performs call k end to end (blocking inside the handler gate until
// released). sub is called after every HTTP exchange continuation so that the
// backend is drained per dispatch.
func (r *c43Hist) runCall(k int, pipeSrv *vgirpc.Server, httpSrv *vgirpc.HttpServer, afterInit func(), sub func()) {
	c := r.calls[k]
	method := c43Method(c.Kind)
	meta := StdMeta(method, fmt.Sprintf("r%d", k), "")
	if c.TPMeta != "" {
		meta = append(meta, [2]string{vgirpc.MetaTraceparent, c.TPMeta})
		if c.TState != "" {
			meta = append(meta, [2]string{vgirpc.MetaTracestate, c.TState})
		}
	}
	pb := c43ParamBatch(k, c.BadParams)
	req := ReqBytes(pb, meta)
	pb.Release()
	ambCtx, ambDone := c43AmbCtx(c.Amb)
	defer ambDone()
	if !c.HTTP {
		in := req
		if c.Kind == "prod" || c.Kind == "exch" {
			schema := arrow.NewSchema(nil, nil)
			if c.Kind == "exch" {
				schema = inSchemaX
			}
			var items []InputItem
			for _, it := range c.Inputs {
				items = append(items, InputItem{Kind: it, Vals: []int64{1}})
			}
			in = append(in, InputBytes(schema, items)...)
		}
		// the pipe session is served with the ambient context (a long-lived session span)
		func() {
			defer func() { _ = recover() }()
			var buf bytes.Buffer
			pipeSrv.ServeWithContext(ambCtx, bytes.NewReader(in), &buf)
		}()
		afterInit()
		return
	}
	// a middleware in front of the handler that makes the ambient span current in r.Context()
	var httpH http.Handler = http.HandlerFunc(func(w http.ResponseWriter, rq *http.Request) {
		if c.Amb != "" {
			rq = rq.WithContext(trace.ContextWithSpan(rq.Context(), trace.SpanFromContext(ambCtx)))
		}
		httpSrv.ServeHTTP(w, rq)
	})
	hdr := map[string]string{}
	if c.TPHdr != "" {
		hdr["Traceparent"] = c.TPHdr
		if c.TState != "" {
			hdr["Tracestate"] = c.TState
		}
	}
	path := "/" + method
	if c.Kind == "prod" || c.Kind == "exch" {
		path += "/init"
	}
	resp := DoHTTP(httpH, "POST", path, req, hdr)
	afterInit()
	if c.Kind != "exch" {
		return
	}
	// HTTP exchange: every client input item is one continuation request = one dispatch
	var tok, callTok string
	find := func(body []byte) bool {
		tok = ""
		for _, st := range ParseStreams(body) {
			for _, f := range st.Frames {
				for _, kv := range f.Meta {
					if kv[0] == vgirpc.MetaStreamState {
						tok = kv[1]
					}
					if kv[0] == vgirpc.MetaCallState {
						callTok = kv[1]
					}
				}
			}
		}
		return tok != ""
	}
	if !find(resp.Body) {
		return
	}
	for _, it := range c.Inputs {
		m := [][2]string{{vgirpc.MetaStreamState, tok}}
		if callTok != "" {
			m = append(m, [2]string{vgirpc.MetaCallState, callTok})
		}
		var body []byte
		if it == "cancel" {
			m = append(m, [2]string{vgirpc.MetaCancel, "true"})
		}
		xb := int64Batch(inSchemaX, []int64{1})
		body = ReqBytes(xb, m)
		xb.Release()
		resp = DoHTTP(httpH, "POST", "/exch/exchange", body, hdr)
		sub()
		if it == "cancel" || !find(resp.Body) {
			return
		}
	}
}

// ------------------------------------------------------------------ run one history

func c43Run(in c43In) CaseOut {
	b := newC43Backend(in.Cfg)
	defer b.tp.Shutdown(context.Background())
	defer b.mp.Shutdown(context.Background())
	n := len(in.Calls)
	c43Mu.Lock()
	c43Seq++
	r := &c43Hist{id: c43Seq, calls: in.Calls, entered: make([]chan struct{}, n), release: make([]chan struct{}, n), onceEnt: make([]sync.Once, n)}
	c43Runs[r.id] = r
	c43Mu.Unlock()
	defer func() { c43Mu.Lock(); delete(c43Runs, r.id); c43Mu.Unlock() }()
	for i := range r.entered {
		r.entered[i], r.release[i] = make(chan struct{}), make(chan struct{})
	}
	var prop propagation.TextMapPropagator = propagation.TraceContext{}
	if !in.Cfg.Propagate {
		prop = propagation.NewCompositeTextMapPropagator()
	}
	ocfg := vgiotel.OtelConfig{TracerProvider: &c43TP{b: b}, MeterProvider: b.mp, Propagator: prop,
		EnableTracing: in.Cfg.Tracing, EnableMetrics: in.Cfg.Metrics, RecordExceptions: in.Cfg.RecExc}
	pipeSrv, httpInner := newC43Server(r), newC43Server(r)
	vgiotel.InstrumentServer(pipeSrv, ocfg)
	vgiotel.InstrumentServer(httpInner, ocfg)
	httpSrv := vgirpc.NewHttpServer(httpInner)

	const (
		idle = iota
		running
		done
	)
	state := make([]int, n)
	initDone := make([]chan struct{}, n) // first request of the call completed
	proceed := make([]chan struct{}, n)  // main has drained the backend after the first request
	allDone := make([]chan struct{}, n)
	subEvs := make([][][]c43Ev, n) // one segment per HTTP exchange continuation
	var obs [][]c43Ev
	tags := map[string]bool{}
	timeout := func(ch chan struct{}) bool {
		select {
		case <-ch:
			return false
		case <-time.After(10 * time.Second):
			tags["timeout"] = true
			return true
		}
	}
	// finishFrom drains after the first request, lets the call continue (HTTP
	// exchange continuations are drained per request by the call itself).
	finishFrom := func(k int) [][]c43Ev {
		evs := b.drain()
		close(proceed[k])
		timeout(allDone[k])
		return append([][]c43Ev{evs}, subEvs[k]...)
	}
	for _, op := range in.Sched {
		k := op.K
		evs := [][]c43Ev{nil}
		switch {
		case k < 0 || k >= n:
			tags["op-ignored"] = true
		case !op.Fin && state[k] == idle:
			state[k] = running
			initDone[k], proceed[k], allDone[k] = make(chan struct{}), make(chan struct{}), make(chan struct{})
			go func() {
				defer close(allDone[k])
				var once sync.Once
				after := func() { once.Do(func() { close(initDone[k]); <-proceed[k] }) }
				r.runCall(k, pipeSrv, httpSrv, after, func() { subEvs[k] = append(subEvs[k], b.drain()) })
				after()
			}()
			select {
			case <-r.entered[k]:
				evs = [][]c43Ev{b.drain()}
			case <-initDone[k]: // never reached the handler gate: the whole dispatch is over
				state[k] = done
				evs = finishFrom(k)
			case <-time.After(10 * time.Second):
				tags["timeout"] = true
			}
		case op.Fin && state[k] == running:
			state[k] = done
			close(r.release[k])
			if !timeout(initDone[k]) {
				evs = finishFrom(k)
			}
		default:
			tags["op-ignored"] = true
		}
		obs = append(obs, evs...)
	}
	// release anything the schedule left running (not observed)
	for k := 0; k < n; k++ {
		if state[k] == running {
			close(r.release[k])
			if !timeout(initDone[k]) {
				close(proceed[k])
				timeout(allDone[k])
			}
			tags["left-running"] = true
		}
	}
	b.drain()
	// what the SDK exported: canonical ids of ended spans, in end order
	var exported []c43Ev
	for _, sp := range b.rec.Ended() {
		sid, ok := b.sids[sp.SpanContext().SpanID()]
		if !ok {
			sid = -1
		}
		exported = append(exported, c43Ev{Kind: "exported", Sid: sid})
	}
	if len(b.rec.Started()) != len(b.sids) {
		exported = append(exported, c43Ev{Kind: "exported", Sid: -2})
	}

	// ---- render
	nontrivial := false
	interleaved := false
	open := 0
	for _, op := range in.Sched {
		if !op.Fin {
			open++
			if open > 1 {
				interleaved = true
			}
		} else if open > 0 {
			open--
		}
	}
	if interleaved {
		tags["interleaved"] = true
	}
	for _, evs := range obs {
		for _, e := range evs {
			tags["ev-"+e.Kind] = true
			if e.Kind == "end" {
				tags["span-"+e.Status] = true
				nontrivial = true
			}
			if e.Kind == "start" {
				if e.PSpan != "" {
					tags["parent-remote"] = true
				} else {
					tags["parent-root"] = true
				}
				if !e.Rec {
					tags["nonrecording"] = true
				}
			}
			if e.Kind == "count" {
				tags["count-"+e.Label] = true
				nontrivial = true
			}
		}
	}
	for _, c := range in.Calls {
		t := "pipe-"
		if c.HTTP {
			t = "http-"
		}
		tags[t+c.Kind] = true
		if c.Amb != "" {
			tags["amb-"+c.Amb] = true
			if c.TPMeta != "" || (c.HTTP && c.TPHdr != "") {
				tags["amb+traceparent"] = true
			}
		}
	}
	tags["sampler-"+in.Cfg.Sampler] = true
	if !in.Cfg.Tracing {
		tags["tracing-off"] = true
	}
	if !in.Cfg.Metrics {
		tags["metrics-off"] = true
	}
	var tl []string
	for t := range tags {
		tl = append(tl, t)
	}
	sort.Strings(tl)

	coqEv := func(e c43Ev) string {
		par := "None"
		if e.PSpan != "" {
			par = App("Some", App("C43.Build_opar", B(e.PTrace), B(e.PSpan), Bool(e.SameTr), Bool(e.Remote), B(e.PTState)))
		}
		switch e.Kind {
		case "start":
			return App("C43.BStart", Nat(e.Sid), Bool(e.Rec), B(e.Name), Bool(e.Server), par)
		case "end":
			st := map[string]string{"unset": "C43.SUnset", "error": "C43.SError", "ok": "C43.SOk"}[e.Status]
			return App("C43.BEnd", Nat(e.Sid), st, Bool(e.Exc), B(e.ErrType), Bool(e.Stats), par)
		case "count":
			return App("C43.BCount", B(e.Method), B(e.MType), B(e.Label), Z(e.N))
		case "hist":
			return App("C43.BHist", B(e.Method), B(e.MType), B(e.Label), Z(e.N))
		}
		return App("C43.BExported", Z(int64(e.Sid)))
	}
	coqCall := func(c c43Call) string {
		kind := map[string]string{"unary": "C43.KUnary", "prod": "C43.KProd", "exch": "C43.KExch", "unknown": "C43.KUnknown"}[c.Kind]
		ini := map[string]string{"ok": "C43.OOk", "err_rpc": "C43.OErrRpc", "err_plain": "C43.OErrPlain", "panic": "C43.OPanic", "nil": "C43.ONil"}[c.Init]
		turn := map[string]string{"emit": "C43.TEmit", "finish": "C43.TFinish", "err": "C43.TErr", "panic": "C43.TPanic", "noemit": "C43.TNoEmit"}
		item := map[string]string{"tick": "C43.ITick", "cancel": "C43.ICancel"}
		return App("C43.Build_call", Bool(c.HTTP), kind, B(c.TPMeta), B(c.TPHdr), B(c43NormTS(c.TState)), c43CoqAmb(c.Amb), Bool(c.BadParams), ini,
			ListOf(c.Turns, func(s string) string { return turn[s] }), ListOf(c.Inputs, func(s string) string { return item[s] }))
	}
	smp := map[string]string{"always": "C43.SAlways", "never": "C43.SNever", "parent_always": "C43.SParentAlways", "parent_never": "C43.SParentNever"}[in.Cfg.Sampler]
	coqIn := App("C43.Build_input",
		App("C43.Build_cfg", Bool(in.Cfg.Tracing), Bool(in.Cfg.Metrics), Bool(in.Cfg.RecExc), Bool(in.Cfg.Propagate), smp),
		ListOf(in.Calls, coqCall),
		ListOf(in.Sched, func(o c43Op) string {
			if o.Fin {
				return App("C43.Finish", Nat(o.K))
			}
			return App("C43.Begin", Nat(o.K))
		}))
	coqObs := App("C43.Build_obs", ListOf(obs, func(evs []c43Ev) string { return ListOf(evs, coqEv) }), ListOf(exported, coqEv))
	return CaseOut{Coq: Pair(coqIn, coqObs), Tags: tl, Nontrivial: nontrivial,
		Obs: map[string]any{"segments": obs, "exported": exported}}
}


// ------------------------------------------------------------------ generator

const c43Hex = "0123456789abcdef"

func c43HexN(r *rand.Rand, n int) string {
	b := make([]byte, n)
	for i := range b {
		b[i] = c43Hex[r.Intn(16)]
	}
	if strings.Trim(string(b), "0") == "" {
		b[n-1] = '1'
	}
	return string(b)
}

func c43ValidTP(r *rand.Rand) string {
	fl := []string{"01", "00", "03", "02"}[r.Intn(4)]
	return "00-" + c43HexN(r, 32) + "-" + c43HexN(r, 16) + "-" + fl
}

// c43TP draws a traceparent: mostly valid, else a boundary / malformed one.
func c43DrawTP(r *rand.Rand) string {
	t, s := c43HexN(r, 32), c43HexN(r, 16)
	switch r.Intn(24) {
	case 0:
		return "00-" + strings.ToUpper(t) + "-" + s + "-01" // upper-case hex: invalid
	case 1:
		return "ff-" + t + "-" + s + "-01" // version 255: invalid
	case 2:
		return "00-" + strings.Repeat("0", 32) + "-" + s + "-01" // zero trace id
	case 3:
		return "00-" + t + "-" + strings.Repeat("0", 16) + "-01" // zero span id
	case 4:
		return "00-" + t[:31] + "-" + s + "-01" // short trace id
	case 5:
		return "00-" + t + "-" + s + "-04" // reserved flag bit under version 00
	case 6:
		return "00-" + t + "-" + s + "-01-extra" // extra field under version 00
	case 7:
		return "01-" + t + "-" + s + "-01-extra" // future version: extra allowed
	case 8:
		return "cc-" + t + "-" + s + "-09" // future version, unknown flag bits masked
	case 9:
		return "00-" + t + "-" + s + "-01-" // trailing delimiter, empty rest: accepted
	case 10:
		return "garbage"
	case 11:
		return "00-" + t + "-" + s // missing flags
	case 12:
		return "00-" + t[:16] + "g" + t[17:] + "-" + s + "-01" // non-hex byte
	case 13:
		return "0-" + t + "-" + s + "-01"
	case 14:
		return "00-" + t + "-" + s + "-1"
	case 15:
		return "00_" + t + "_" + s + "_01"
	case 16:
		return "fe-" + t + "-" + s + "-00"
	case 17:
		return "-" + t + "-" + s + "-01"
	}
	return c43ValidTP(r)
}

func c43SeqSched(n int) []c43Op {
	var s []c43Op
	for k := 0; k < n; k++ {
		s = append(s, c43Op{K: k}, c43Op{Fin: true, K: k})
	}
	return s
}

var c43Ambs = []string{"", "recording", "remote", "remote_unsampled", "remote_ts", "local_unsampled", "invalid"}

func c43GenCall(r *rand.Rand) c43Call {
	c := c43Call{HTTP: r.Intn(2) == 0, Kind: []string{"unary", "unary", "prod", "exch", "prod", "exch", "unknown"}[r.Intn(7)], Init: "ok"}
	if r.Intn(3) != 0 {
		c.TPMeta = c43DrawTP(r)
	}
	if c.HTTP && r.Intn(2) == 0 {
		c.TPHdr = c43DrawTP(r)
	}
	if r.Intn(3) == 0 {
		c.TState = []string{"vendor=1", "a=b,c=d", "bad tracestate=="}[r.Intn(3)]
	}
	if r.Intn(9) < 4 {
		c.Amb = c43Ambs[1+r.Intn(len(c43Ambs)-1)]
	}
	c.BadParams = r.Intn(10) == 0
	inits := []string{"err_rpc", "err_plain", "panic"}
	if c.Kind != "unary" {
		inits = append(inits, "nil")
	}
	if r.Intn(3) == 0 {
		c.Init = inits[r.Intn(len(inits))]
	}
	if c.Kind == "prod" || c.Kind == "exch" {
		acts := []string{"emit", "emit", "emit", "finish", "err", "panic", "noemit"}
		for i := r.Intn(5); i > 0; i-- {
			c.Turns = append(c.Turns, acts[r.Intn(len(acts))])
		}
		for i := r.Intn(5); i > 0; i-- {
			it := "tick"
			if r.Intn(6) == 0 {
				it = "cancel"
			}
			c.Inputs = append(c.Inputs, it)
		}
	}
	return c
}

func c43GenSched(r *rand.Rand, n int, messy bool) []c43Op {
	var s []c43Op
	idle, running := r.Perm(n), []int{}
	for len(idle)+len(running) > 0 {
		if len(running) == 0 || (len(idle) > 0 && r.Intn(2) == 0) {
			s = append(s, c43Op{K: idle[0]})
			running = append(running, idle[0])
			idle = idle[1:]
		} else {
			i := r.Intn(len(running))
			s = append(s, c43Op{Fin: true, K: running[i]})
			running = append(running[:i], running[i+1:]...)
		}
		if messy && r.Intn(4) == 0 { // ill-formed op: ignored by harness and model alike
			s = append(s, c43Op{Fin: r.Intn(2) == 0, K: r.Intn(n + 1)})
		}
	}
	return s
}

func c43Gen(r *rand.Rand, n int, tier string) []c43In {
	var out []c43In
	full := c43Cfg{Tracing: true, Metrics: true, RecExc: true, Propagate: true, Sampler: "always"}
	tp := "00-0af7651916cd43dd8448eb211c80319c-b7ad6b7169203331-01"
	tp0 := "00-0af7651916cd43dd8448eb211c80319c-00f067aa0ba902b7-00"
	// boundary: every ambient dispatch context x {valid sampled / valid unsampled / absent / malformed
	// traceparent} x {tracestate present / absent}, both transports, under a parent-sensitive and an
	// always-on sampler; plus an HTTP exchange whose continuations run under the same ambient context
	for _, smp := range []string{"parent_always", "always"} {
		for _, amb := range c43Ambs {
			for _, http := range []bool{false, true} {
				var calls []c43Call
				for _, t := range []string{tp, tp0, "", "00-" + strings.Repeat("0", 32) + "-b7ad6b7169203331-01"} {
					for _, ts := range []string{"vendor=1,x=y", ""} {
						c := c43Call{HTTP: http, Kind: "unary", Init: "ok", Amb: amb, TState: ts}
						if http && len(calls)%4 < 2 {
							c.TPHdr = t
						} else {
							c.TPMeta = t
						}
						calls = append(calls, c)
					}
				}
				if http {
					calls = append(calls, c43Call{HTTP: true, Kind: "exch", Init: "ok", Amb: amb, TPHdr: tp, TState: "k=v", Turns: []string{"emit", "err"}, Inputs: []string{"tick", "tick"}})
				} else {
					calls = append(calls, c43Call{Kind: "prod", Init: "ok", Amb: amb, TPMeta: tp0, Turns: []string{"emit", "panic"}, Inputs: []string{"tick", "tick"}})
				}
				cfg := full
				cfg.Sampler = smp
				out = append(out, c43In{Cfg: cfg, Calls: calls, Sched: c43SeqSched(len(calls))})
			}
		}
	}
	// boundary: every call kind x transport x outcome once, sequential, with a valid traceparent
	for _, http := range []bool{false, true} {
		for _, kind := range []string{"unary", "prod", "exch", "unknown"} {
			var calls []c43Call
			for _, ini := range []string{"ok", "err_rpc", "err_plain", "panic", "nil"} {
				if kind == "unary" && ini == "nil" {
					continue
				}
				c := c43Call{HTTP: http, Kind: kind, Init: ini, TPMeta: tp, Turns: []string{"emit", "emit"}, Inputs: []string{"tick", "tick", "tick"}}
				if kind == "unary" || kind == "unknown" {
					c.Turns, c.Inputs = nil, nil
				}
				calls = append(calls, c)
			}
			calls = append(calls, c43Call{HTTP: http, Kind: kind, Init: "ok", BadParams: true, TPHdr: tp0})
			out = append(out, c43In{Cfg: full, Calls: calls, Sched: c43SeqSched(len(calls))})
		}
	}
	// boundary: every turn action at the first and at a later turn, producer and exchange, both transports
	for _, http := range []bool{false, true} {
		for _, kind := range []string{"prod", "exch"} {
			var calls []c43Call
			for _, a := range []string{"emit", "finish", "err", "panic", "noemit"} {
				calls = append(calls, c43Call{HTTP: http, Kind: kind, Init: "ok", TPHdr: tp, Turns: []string{a}, Inputs: []string{"tick", "tick"}},
					c43Call{HTTP: http, Kind: kind, Init: "ok", Turns: []string{"emit", a}, Inputs: []string{"tick", "tick", "cancel", "tick"}})
			}
			out = append(out, c43In{Cfg: full, Calls: calls, Sched: c43SeqSched(len(calls))})
		}
	}
	// boundary: every config toggle and sampler with sampled / unsampled / absent / invalid parents
	for _, smp := range []string{"always", "never", "parent_always", "parent_never"} {
		for mask := 0; mask < 16; mask++ {
			cfg := c43Cfg{Tracing: mask&1 == 0, Metrics: mask&2 == 0, RecExc: mask&4 == 0, Propagate: mask&8 == 0, Sampler: smp}
			calls := []c43Call{
				{Kind: "unary", Init: "ok", TPMeta: tp}, {Kind: "unary", Init: "err_plain", TPMeta: tp0},
				{HTTP: true, Kind: "unary", Init: "panic"}, {HTTP: true, Kind: "unary", Init: "ok", TPMeta: tp0, TPHdr: "00-" + strings.Repeat("0", 32) + "-b7ad6b7169203331-01"},
			}
			out = append(out, c43In{Cfg: cfg, Calls: calls, Sched: []c43Op{{K: 0}, {K: 1}, {K: 2}, {Fin: true, K: 1}, {K: 3}, {Fin: true, K: 0}, {Fin: true, K: 3}, {Fin: true, K: 2}}})
		}
	}
	// boundary: the whole traceparent pool once per carrier
	{
		rr := rand.New(rand.NewSource(43))
		var calls []c43Call
		for i := 0; i < 72; i++ {
			c := c43Call{Kind: "unary", Init: "ok", HTTP: i%3 != 0}
			switch i % 3 {
			case 0, 1:
				c.TPMeta = c43DrawTP(rr)
			default:
				c.TPHdr = c43DrawTP(rr)
			}
			calls = append(calls, c)
			if len(calls) == 6 {
				cfg := full
				cfg.Sampler = "parent_always"
				out = append(out, c43In{Cfg: cfg, Calls: calls, Sched: c43SeqSched(6)})
				calls = nil
			}
		}
	}
	samplers := []string{"always", "always", "parent_always", "parent_never", "never"}
	for len(out) < n {
		cfg := c43Cfg{Tracing: r.Intn(8) != 0, Metrics: r.Intn(8) != 0, RecExc: r.Intn(4) != 0, Propagate: r.Intn(8) != 0, Sampler: samplers[r.Intn(len(samplers))]}
		nc := 1 + r.Intn(5)
		var calls []c43Call
		for i := 0; i < nc; i++ {
			calls = append(calls, c43GenCall(r))
		}
		// malformed stream: one case in five carries ill-formed schedule ops
		out = append(out, c43In{Cfg: cfg, Calls: calls, Sched: c43GenSched(r, nc, r.Intn(5) == 0)})
	}
	return out
}

func init() {
	Register("C43", "boundary histories first (7 ambient dispatch contexts [bare, inside a recording span, remote sampled / unsampled / with tracestate, local non-recording, invalid] x {valid sampled, valid unsampled, absent, zero-id traceparent} x {tracestate, none} x pipe (ServeWithContext) / HTTP (middleware putting the span in r.Context()) x 2 samplers; every call kind x transport x init outcome; every turn action at first/later turn; every tracing/metrics/record-exceptions/propagator toggle x 4 samplers under an interleaved schedule; a 72-entry traceparent pool of valid, future-version and 17 malformed shapes in IPC metadata and in the HTTP header), then random histories of 1-5 calls (unary / producer / exchange / unknown method, pipe / HTTP, ok / RpcError / plain error / panic / nil result / bad parameters, 0-4 scripted turns, 0-4 client inputs incl. cancel, traceparent in metadata and/or header, tracestate, 4 in 9 calls under a non-bare ambient context) under random interleaved Begin/Finish schedules forced with handler gates; one in five schedules carries ill-formed ops; non-trivial = at least one span ended or one request counted; distinct = distinct input JSON",
		c43Gen, c43Run)
}
