package main

import (
	"context"
	"encoding/json"
	"fmt"
	"math/rand"
	"sort"
	"strings"

	"github.com/Query-farm/vgi-rpc-go/vgirpc"
	"github.com/apache/arrow-go/v18/arrow"
)

// C16 — HTTP continuations advance the stream exactly one turn. One case is a
// HISTORY of continuation requests against ONE exchange stream served by a real
// HttpServer: POST /c16x/init, then one POST /c16x/exchange per op. Every op
// carries an ordered request-metadata list whose values are literals or
// references to tokens the server minted earlier in the same history (cursor k
// = the k-th cursor the server handed out, the call token of /init), so old
// cursors can be replayed, keys duplicated, framework keys shadowed by user
// values and the cancel key placed anywhere. The scripted state (C16State,
// add-only next to rpcutil.go's ScriptState) RECORDS what it can see:
// CallContext.InputMetadata in order, the input batch's own metadata when the
// script says the handler looks at it, TransportMetadata and Cookies.

// ---------------------------------------------------------------- input
type c16MV struct {
	K string `json:"k"`
	T string `json:"t"` // "lit" | "cur" | "call"
	V string `json:"v,omitempty"`
	N int    `json:"n,omitempty"`
}

type c16Op struct {
	Meta []c16MV `json:"meta"`
	Body string  `json:"body"` // "data" ({x:int64} batch) | "tick" (empty-schema batch)
	Vals []int64 `json:"vals,omitempty"`
}

// c16Turn scripts one Exchange call. Act: emit | emit0 (zero-row data batch) |
// emit2 (returns the second Emit's error) | emit2_ignore (swallows it) | noemit |
// finish | emit_finish | err. Peek: the handler reads the input batch's own
// custom metadata.
type c16Turn struct {
	Logs  []LogSpec   `json:"logs,omitempty"`
	Act   string      `json:"act"`
	Value int64       `json:"value"`
	Meta  [][2]string `json:"meta,omitempty"` // emit metadata, distinct keys
	Err   *ErrSpec    `json:"err,omitempty"`
	Peek  bool        `json:"peek,omitempty"`
	// LateLogs: out.ClientLog calls made AFTER the first successful Emit of the turn
	LateLogs []LogSpec `json:"late_logs,omitempty"`
}

type c16In struct {
	Turns  []c16Turn `json:"turns"`
	Cancel string    `json:"cancel"` // none (state has no OnCancel) | ok | err | panic
	Cache  bool      `json:"cache"`  // call-state cache enabled (default) or SetCallStateCacheEntries(0)
	Ops    []c16Op   `json:"ops"`
	// Prod: the stream is a PRODUCER (method c16p, producer batch limit 1: one
	// Produce per request, turn 0 inside /init) instead of an exchange (c16x)
	Prod bool `json:"prod,omitempty"`
}

// ---------------------------------------------------------------- scripted state
type C16State struct {
	SID   int
	Turns []c16Turn
	Pos   int
	CAct  string
}

// C16StateC additionally implements StreamCanceller.
type C16StateC struct{ C16State }

func init() {
	vgirpc.RegisterStateType(&C16State{})
	vgirpc.RegisterStateType(&C16StateC{})
}

type c16Seen struct {
	Keys, Vals   []string
	Peek         bool
	BKeys, BVals []string
	Reach        []string // every other string the handler can reach: TransportMetadata, Cookies, schema metadata
}

func c16MD(m arrow.Metadata) ([]string, []string) {
	return append([]string(nil), m.Keys()...), append([]string(nil), m.Values()...)
}

func (st *C16State) Exchange(ctx context.Context, in arrow.RecordBatch, out *vgirpc.OutputCollector, cc *vgirpc.CallContext) error {
	return st.turn("exchange", in, out, cc)
}

func (st *C16State) Produce(ctx context.Context, out *vgirpc.OutputCollector, cc *vgirpc.CallContext) error {
	return st.turn("produce", nil, out, cc)
}

func (st *C16State) turn(kind string, in arrow.RecordBatch, out *vgirpc.OutputCollector, cc *vgirpc.CallContext) error {
	sf := surfaceByID(st.SID)
	t := c16Turn{Act: "emit"}
	if st.Pos < len(st.Turns) {
		t = st.Turns[st.Pos]
	}
	pos := st.Pos
	st.Pos++
	insum := sumInt64Col(in)
	var seen c16Seen
	seen.Keys, seen.Vals = c16MD(cc.InputMetadata)
	if t.Peek && in != nil {
		seen.Peek = true
		if bm, ok := in.(arrow.RecordBatchWithMetadata); ok {
			seen.BKeys, seen.BVals = c16MD(bm.Metadata())
		}
	}
	for k, v := range cc.TransportMetadata {
		seen.Reach = append(seen.Reach, k, v)
	}
	for k, v := range cc.Cookies {
		seen.Reach = append(seen.Reach, k, v)
	}
	if in != nil {
		sk, sv := c16MD(in.Schema().Metadata())
		seen.Reach = append(append(seen.Reach, sk...), sv...)
	}
	if sf != nil {
		js, _ := json.Marshal(seen)
		if kind == "produce" {
			sf.trace("produce#%d", pos)
		} else {
			sf.trace("exchange#%d(in=%d)", pos, insum)
		}
		sf.trace("seen %s", js)
	}
	for _, l := range t.Logs {
		out.ClientLog(vgirpc.LogLevel(l.Level), l.Msg, kvs(l.Extras)...)
	}
	lateRaised := false
	emit := func(rows int) (err error) {
		defer func() {
			if err == nil && !lateRaised {
				lateRaised = true
				for _, l := range t.LateLogs {
					out.ClientLog(vgirpc.LogLevel(l.Level), l.Msg, kvs(l.Extras)...)
				}
			}
		}()
		var vals []int64
		if rows > 0 {
			vals = []int64{t.Value + insum}
		}
		b := int64Batch(outSchemaV, vals)
		if len(t.Meta) > 0 {
			m := map[string]string{}
			for _, p := range t.Meta {
				m[p[0]] = p[1]
			}
			return out.EmitWithMetadata(b, m)
		}
		return out.Emit(b)
	}
	switch t.Act {
	case "emit":
		return emit(1)
	case "emit0":
		return emit(0)
	case "emit2":
		if err := emit(1); err != nil {
			return err
		}
		return emit(1)
	case "emit2_ignore":
		if err := emit(1); err != nil {
			return err
		}
		_ = emit(1)
		return nil
	case "noemit":
		return nil
	case "finish":
		return out.Finish()
	case "emit_finish":
		if err := emit(1); err != nil {
			return err
		}
		return out.Finish()
	case "err":
		return t.Err.raise()
	case "emit_err": // a successful Emit (and the late logs), THEN the error / panic of t.Err
		if err := emit(1); err != nil {
			return err
		}
		return t.Err.raise()
	}
	return fmt.Errorf("bad act %q", t.Act)
}

func (st *C16StateC) OnCancel(ctx context.Context, cc *vgirpc.CallContext) error {
	if sf := surfaceByID(st.SID); sf != nil {
		sf.trace("cancel@%d", st.Pos)
	}
	switch st.CAct {
	case "err":
		return fmt.Errorf("cancel hook failed")
	case "panic":
		panic("cancel hook panicked")
	}
	return nil
}

func newC16Server(sf *Surface, in c16In) *vgirpc.Server {
	s := NewScriptedServer(sf)
	vgirpc.Exchange(s, "c16x", outSchemaV, inSchemaX, func(_ context.Context, cc *vgirpc.CallContext, p PInt) (*vgirpc.StreamResult, error) {
		sf.trace("c16x.init")
		base := C16State{SID: sf.ID, Turns: in.Turns, CAct: in.Cancel}
		var st any = &base
		if in.Cancel != "none" {
			st = &C16StateC{base}
		}
		return &vgirpc.StreamResult{OutputSchema: outSchemaV, State: st, InputSchema: inSchemaX}, nil
	})
	vgirpc.Producer(s, "c16p", outSchemaV, func(_ context.Context, cc *vgirpc.CallContext, p PInt) (*vgirpc.StreamResult, error) {
		sf.trace("c16x.init")
		base := C16State{SID: sf.ID, Turns: in.Turns, CAct: in.Cancel}
		var st any = &base
		if in.Cancel != "none" {
			st = &C16StateC{base}
		}
		return &vgirpc.StreamResult{OutputSchema: outSchemaV, State: st}, nil
	})
	return s
}

// ---------------------------------------------------------------- observables
type c16Val struct {
	T string `json:"t"` // lit | cur | call
	V string `json:"v,omitempty"`
	N int    `json:"n,omitempty"`
}
type c16KV struct {
	K string `json:"k"`
	V c16Val `json:"v"`
}
type c16SeenObs struct {
	Meta  []c16KV `json:"meta"`
	Peek  bool    `json:"peek"`
	Batch []c16KV `json:"batch,omitempty"`
	Leak  bool    `json:"leak"` // a minted token occurs in TransportMetadata / Cookies / schema metadata
}
type c16Resp struct {
	Status  int         `json:"status"`
	ErrHdr  bool        `json:"err_hdr"`
	Schema  string      `json:"schema"`
	Frames  []Frame     `json:"frames"`
	Curs    [][]c16Val  `json:"curs"`  // per frame: values under the stream-state key, wire order
	First   *c16Val     `json:"first"` // vgirpc.FindStreamTokens (first match)
	HasCall bool        `json:"has_call"`
	Pos     int         `json:"pos"` // post-turn position sealed in the LAST stream-state value of the data frame, -1 if none
	Seen    *c16SeenObs `json:"seen"`
	Trace   []string    `json:"trace"`
	Strip   []c16KV     `json:"strip"` // stripFrameworkTickMetadata called directly on the request metadata
	Streams int         `json:"streams"`
	Panic   bool        `json:"panic"`
}

const c16Unminted = "c16-unminted-"

type c16Run struct {
	h    *vgirpc.HttpServer
	curs []string
	call string
}

func (c *c16Run) label(v string) c16Val {
	if c.call != "" && v == c.call {
		return c16Val{T: "call"}
	}
	for i, s := range c.curs {
		if v == s {
			return c16Val{T: "cur", N: i}
		}
	}
	if strings.HasPrefix(v, c16Unminted) {
		var n int
		fmt.Sscanf(v[len(c16Unminted):], "%d", &n)
		return c16Val{T: "cur", N: n}
	}
	return c16Val{T: "lit", V: v}
}

func (c *c16Run) wire(m c16MV) string {
	switch m.T {
	case "cur":
		if m.N < len(c.curs) {
			return c.curs[m.N]
		}
		return fmt.Sprintf("%s%d", c16Unminted, m.N)
	case "call":
		return c.call
	}
	return m.V
}

func (c *c16Run) posOf(tok string) int {
	st, _, err := vgirpc.VerifC16OpenCursor(c.h, []byte(tok))
	if err != nil {
		return -1
	}
	switch s := st.(type) {
	case *C16State:
		return s.Pos
	case *C16StateC:
		return s.Pos
	}
	return -1
}

func (c *c16Run) containsToken(s string) bool {
	if c.call != "" && strings.Contains(s, c.call) {
		return true
	}
	for _, t := range c.curs {
		if strings.Contains(s, t) {
			return true
		}
	}
	return false
}

func (c *c16Run) kvs(keys, vals []string) []c16KV {
	out := make([]c16KV, len(keys))
	for i := range keys {
		out[i] = c16KV{K: keys[i], V: c.label(vals[i])}
	}
	return out
}

// do performs one request and projects the response.
func (c *c16Run) do(sf *Surface, path string, body []byte, reqKeys, reqVals []string) c16Resp {
	sf.mu.Lock()
	t0 := len(sf.Trace)
	sf.mu.Unlock()
	resp := DoHTTP(c.h, "POST", path, body, nil)
	sf.mu.Lock()
	delta := append([]string(nil), sf.Trace[t0:]...)
	sf.mu.Unlock()
	r := c16Resp{Status: resp.Status, ErrHdr: resp.Header.Get("X-VGI-RPC-Error") == "true", Pos: -1, Panic: resp.Panic != nil}
	streams := ParseStreams(resp.Body)
	r.Streams = len(streams)
	// fresh cursors first, so that labels are stable: a stream-state value that
	// opens under the server's key and was not seen before is the next cursor
	for _, st := range streams {
		for _, f := range st.Frames {
			for _, p := range f.Meta {
				if p[0] == vgirpc.MetaStreamState && c.posOf(p[1]) >= 0 && c.label(p[1]).T == "lit" {
					c.curs = append(c.curs, p[1])
				}
			}
		}
	}
	cur, _ := vgirpc.FindStreamTokens(resp.Body)
	// the call token is read off the batches themselves: FindStreamTokens stops at the first
	// stream-state value, which a handler's emit metadata can put in front of the token batch
	for _, st := range streams {
		for _, f := range st.Frames {
			for _, p := range f.Meta {
				if p[0] == vgirpc.MetaCallState && p[1] != "" {
					r.HasCall = true
					if c.call == "" {
						c.call = p[1]
					}
				}
			}
		}
	}
	if cur != nil {
		v := c.label(string(cur))
		r.First = &v
	}
	if len(streams) > 0 {
		r.Schema = streams[0].Schema
		for _, f := range streams[0].Frames {
			var cs []c16Val
			var um [][2]string
			last := ""
			for _, p := range f.Meta {
				switch p[0] {
				case vgirpc.MetaStreamState:
					cs = append(cs, c.label(p[1]))
					last = p[1]
				case vgirpc.MetaCallState:
				default:
					um = append(um, p)
				}
			}
			if f.Kind == "token" || f.Kind == "data" {
				f.Kind = "data"
				sort.Slice(um, func(i, j int) bool { return um[i][0] < um[j][0] })
				f.UMeta = um
				if last != "" {
					r.Pos = c.posOf(last)
				}
			}
			if f.Kind == "exc" && (r.Status == 400 || r.Status == 404 || r.Status == 415) {
				f.Msg = "" // a refusal's prose is not part of the property
			}
			r.Frames = append(r.Frames, f)
			r.Curs = append(r.Curs, cs)
		}
	}
	for _, e := range delta {
		if strings.HasPrefix(e, "seen ") {
			var s c16Seen
			if json.Unmarshal([]byte(e[5:]), &s) == nil {
				so := &c16SeenObs{Meta: c.kvs(s.Keys, s.Vals), Peek: s.Peek}
				if s.Peek {
					so.Batch = c.kvs(s.BKeys, s.BVals)
				}
				for _, x := range s.Reach {
					so.Leak = so.Leak || c.containsToken(x)
				}
				r.Seen = so
			}
			continue
		}
		r.Trace = append(r.Trace, e)
	}
	sk, sv := vgirpc.VerifC16Strip(reqKeys, reqVals)
	r.Strip = c.kvs(sk, sv)
	return r
}

func c16Exec(in c16In) []c16Resp {
	sf := newSurface()
	defer sf.Close()
	h, err := vgirpc.NewHttpServerWithKey(newC16Server(sf, in), []byte("c16-token-key-0123456789abcdef-0123456789"))
	if err != nil {
		panic(err)
	}
	if !in.Cache {
		h.SetCallStateCacheEntries(0)
	}
	method := "c16x"
	if in.Prod {
		method = "c16p"
		h.SetProducerBatchLimit(1)
	}
	c := &c16Run{h: h}
	out := []c16Resp{c.do(sf, "/"+method+"/init", ReqBytes(PIntBatch(1), StdMeta(method, "", "")), nil, nil)}
	for _, op := range in.Ops {
		meta := make([][2]string, len(op.Meta))
		keys := make([]string, len(op.Meta))
		vals := make([]string, len(op.Meta))
		for i, m := range op.Meta {
			keys[i], vals[i] = m.K, c.wire(m)
			meta[i] = [2]string{keys[i], vals[i]}
		}
		schema := inSchemaX
		if op.Body == "tick" {
			schema = c11Empty
		}
		out = append(out, c.do(sf, "/"+method+"/exchange", c11InputStream(schema, [][]int64{op.Vals}, meta), keys, vals))
	}
	return out
}

// ---------------------------------------------------------------- rendering
func c16Failure(e *ErrSpec) string {
	switch e.Kind {
	case "rpc":
		return App("C04.ERpc", B(e.Type), B(e.Msg))
	case "plain":
		return App("C04.EPlain", B(e.Msg))
	case "wrapped_rpc":
		return App("C04.EWrapped", B(e.Type), B(e.Msg))
	case "panic_str", "panic_err":
		return App("C04.EPanic", B(e.Msg))
	case "panic_int":
		return App("C04.EPanic", B("42"))
	}
	panic("bad kind " + e.Kind)
}

func c16CoqVal(v c16Val) string {
	switch v.T {
	case "cur":
		return App("C16.VCur", Nat(v.N))
	case "call":
		return "C16.VCall"
	}
	return App("C16.VLit", B(v.V))
}

func c16CoqKVs(kv []c16KV) string {
	return ListOf(kv, func(p c16KV) string { return Pair(B(p.K), c16CoqVal(p.V)) })
}

func c16CoqTurn(t c16Turn) string {
	act := map[string]string{"emit": "C16.AEmit", "emit0": "C16.AEmit0", "emit2": "C16.AEmit2", "emit2_ignore": "C16.AEmit2Ignore",
		"noemit": "C16.ANoEmit", "finish": "C16.AFinish", "emit_finish": "C16.AEmitFinish"}[t.Act]
	if t.Act == "err" {
		act = App("C16.AErr", c16Failure(t.Err))
	}
	if t.Act == "emit_err" {
		act = App("C16.AEmitErr", c16Failure(t.Err))
	}
	logs := ListOf(t.Logs, func(l LogSpec) string { return App("C04.Build_logmsg", B(l.Level), B(l.Msg), c04KV(l.Extras)) })
	late := ListOf(t.LateLogs, func(l LogSpec) string { return App("C04.Build_logmsg", B(l.Level), B(l.Msg), c04KV(l.Extras)) })
	return App("C16.Build_tscript", logs, act, Z(t.Value), c04KV(t.Meta), Bool(t.Peek), late)
}

func c16CoqInput(in c16In) string {
	canc := map[string]string{"none": "C16.CNone", "ok": "C16.COk", "err": "C16.CErr", "panic": "C16.CPanic"}[in.Cancel]
	ops := ListOf(in.Ops, func(o c16Op) string {
		meta := ListOf(o.Meta, func(m c16MV) string { return Pair(B(m.K), c16CoqVal(c16Val{T: m.T, V: m.V, N: m.N})) })
		body := "C16.BTick"
		if o.Body != "tick" {
			body = App("C16.BData", ListOf(o.Vals, Z))
		}
		return App("C16.Build_op", meta, body)
	})
	return App("C16.Build_input", ListOf(in.Turns, c16CoqTurn), canc, Bool(in.Cache), ops, Bool(in.Prod))
}

func c16CoqTrace(e string) string {
	var a, b int64
	if n, _ := fmt.Sscanf(e, "exchange#%d(in=%d)", &a, &b); n == 2 {
		return App("C16.TEx", N(uint64(a)), Z(b))
	}
	if n, _ := fmt.Sscanf(e, "produce#%d", &a); n == 1 {
		return App("C16.TProd", N(uint64(a)))
	}
	if n, _ := fmt.Sscanf(e, "cancel@%d", &a); n == 1 {
		return App("C16.TCancel", N(uint64(a)))
	}
	if e == "c16x.init" {
		return "C16.TInit"
	}
	return App("C16.TOther", B(e))
}

func c16CoqResp(r c16Resp) string {
	first := "None"
	if r.First != nil {
		first = App("Some", c16CoqVal(*r.First))
	}
	pos := "None"
	if r.Pos >= 0 {
		pos = App("Some", N(uint64(r.Pos)))
	}
	seen := "None"
	if r.Seen != nil {
		batch := "None"
		if r.Seen.Peek {
			batch = App("Some", c16CoqKVs(r.Seen.Batch))
		}
		seen = App("Some", App("C16.Build_seen", c16CoqKVs(r.Seen.Meta), batch, Bool(r.Seen.Leak)))
	}
	status := int64(r.Status)
	if r.Panic || r.Streams > 1 {
		status = -1 // an escaped panic / an unexpected second IPC stream is never a modelled outcome
	}
	return App("C16.Build_resp", Z(status), Bool(r.ErrHdr), B(r.Schema), ListOf(r.Frames, coqFrame),
		ListOf(r.Curs, func(cs []c16Val) string { return ListOf(cs, c16CoqVal) }),
		first, Bool(r.HasCall), pos, seen, ListOf(r.Trace, c16CoqTrace), c16CoqKVs(r.Strip))
}

func c16RunCase(in c16In) CaseOut {
	resps := c16Exec(in)
	tags := []string{"cancel-hook-" + in.Cancel}
	if in.Prod {
		tags = append(tags, "producer")
	} else {
		tags = append(tags, "exchange")
	}
	for _, t := range in.Turns {
		if t.Act == "emit_err" {
			tags = append(tags, "emit-then-fail-scripted")
			break
		}
	}
	for _, t := range in.Turns {
		if len(t.LateLogs) > 0 {
			tags = append(tags, "late-log-scripted")
			break
		}
	}
	if in.Cache {
		tags = append(tags, "cache-on")
	} else {
		tags = append(tags, "cache-off")
	}
	add := func(t string) {
		for _, x := range tags {
			if x == t {
				return
			}
		}
		tags = append(tags, t)
	}
	okTurns, failTurns, cancels, refused := 0, 0, 0, 0
	presented := map[int]bool{}
	for i, r := range resps[1:] {
		op := in.Ops[i]
		hasCancel := false
		var fwUser, dup bool
		seenKeys := map[string]bool{}
		for _, m := range op.Meta {
			if m.K == vgirpc.MetaCancel {
				hasCancel = true
			}
			if strings.HasPrefix(m.K, "vgi_rpc.") && m.T == "lit" {
				fwUser = true
			}
			if seenKeys[m.K] {
				dup = true
			}
			seenKeys[m.K] = true
		}
		if fwUser {
			add("req-user-value-under-framework-key")
		}
		if dup {
			add("req-duplicate-key")
		}
		for _, m := range op.Meta {
			if m.K == vgirpc.MetaStreamState {
				if m.T == "cur" {
					if presented[m.N] {
						add("replayed-cursor")
					}
					presented[m.N] = true
				}
				break
			}
		}
		switch {
		case r.Status == 400 || r.Status == 404:
			refused++
			add("refused-400")
		case hasCancel:
			cancels++
			add("cancel-accepted")
		case r.ErrHdr || (len(r.Frames) == 1 && r.Frames[0].Kind == "exc"):
			failTurns++
			add("turn-failed")
		default:
			okTurns++
			add("turn-ok")
		}
		if r.Seen != nil && r.Seen.Peek {
			add("handler-peeks-batch-metadata")
			for _, kv := range r.Seen.Batch {
				if kv.V.T != "lit" {
					// the handler read a sealed token off the input batch's own metadata
					// (the behaviour before fix 270d950, or a token the client put under a user key)
					add("token-on-input-batch")
				}
			}
		}
		sawData := false
		for _, f := range r.Frames {
			if f.Kind == "data" && (f.Rows > 0 || !in.Prod) {
				sawData = true
			} else if f.Kind == "log" && sawData {
				add("log-after-data-batch")
			}
		}
		if len(r.Curs) > 0 {
			for _, cs := range r.Curs {
				if len(cs) > 1 {
					add("obs-user-meta-shadows-cursor")
				}
			}
		}
	}
	tags = append(tags, fmt.Sprintf("ops=%d", min(len(in.Ops), 8)))
	coqObs := ListOf(resps, c16CoqResp)
	return CaseOut{Coq: Pair(c16CoqInput(in), coqObs), Tags: tags,
		Nontrivial: okTurns+failTurns+cancels > 0 && len(in.Ops) > 1,
		Obs:        resps}
}

// ---------------------------------------------------------------- generator
var c16UserKeys = []string{"a", "b", "um", "vgi_pushdown_filters", "vgi_rpc.log_level", "vgi_rpc.request_id", "vgi_rpc.method", "vgi_rpc.stream_state", "Vgi_rpc.cancel", ""}

func c16Lit(k, v string) c16MV { return c16MV{K: k, T: "lit", V: v} }
func c16Cur(n int) c16MV      { return c16MV{K: vgirpc.MetaStreamState, T: "cur", N: n} }
func c16CallMV() c16MV        { return c16MV{K: vgirpc.MetaCallState, T: "call"} }
func c16CancelMV(v string) c16MV {
	return c16MV{K: vgirpc.MetaCancel, T: "lit", V: v}
}

// c16Honest is a protocol-following continuation: cursor n, the call token, user metadata around them.
func c16Honest(n int, vals []int64, user ...c16MV) c16Op {
	m := []c16MV{c16Cur(n), c16CallMV()}
	m = append(m, user...)
	return c16Op{Meta: m, Body: "data", Vals: vals}
}

func c16GenTurn(r *rand.Rand, failing bool) c16Turn {
	t := c16Turn{Act: "emit", Value: r.Int63n(200) - 100, Peek: r.Intn(6) == 0}
	if r.Intn(3) == 0 {
		t.Logs = c11GenLogs(r, 2)
	}
	if r.Intn(3) == 0 {
		keys := []string{"um", "vgi_batch_index", "a", vgirpc.MetaStreamState}
		r.Shuffle(len(keys), func(i, j int) { keys[i], keys[j] = keys[j], keys[i] })
		for _, k := range keys[:1+r.Intn(2)] {
			if k == vgirpc.MetaStreamState && r.Intn(2) == 0 {
				continue
			}
			t.Meta = append(t.Meta, [2]string{k, []string{"x", "7", "zz"}[r.Intn(3)]})
		}
	}
	switch r.Intn(8) {
	case 0:
		t.Act = "emit0"
	case 1:
		t.Act = "emit2_ignore"
	}
	if r.Intn(4) == 0 {
		t.LateLogs = c11GenLogs(r, 2)
		if len(t.LateLogs) == 0 {
			t.LateLogs = []LogSpec{{Level: "INFO", Msg: "late"}}
		}
	}
	if failing {
		switch r.Intn(8) {
		case 6, 7:
			e := c11Errs[r.Intn(len(c11Errs))]
			t.Act, t.Err = "emit_err", &e
		case 0, 1:
			e := c11Errs[r.Intn(len(c11Errs))]
			t.Act, t.Err = "err", &e
		case 2:
			t.Act = "emit2"
		case 3:
			t.Act = "noemit"
		case 4:
			t.Act = "finish"
		case 5:
			t.Act = "emit_finish"
		}
	}
	return t
}

func c16GenUser(r *rand.Rand, max int) []c16MV {
	var out []c16MV
	for k := r.Intn(max + 1); k > 0; k-- {
		out = append(out, c16Lit(c16UserKeys[r.Intn(len(c16UserKeys))], []string{"", "1", "true", "v w", "é"}[r.Intn(5)]))
	}
	return out
}

func c16GenVals(r *rand.Rand) []int64 {
	var vals []int64
	for j := r.Intn(3); j > 0; j-- {
		vals = append(vals, r.Int63n(200)-100)
	}
	return vals
}

func c16Gen(r *rand.Rand, n int, tier string) []c16In {
	var out []c16In
	emit := func(v int64) c16Turn { return c16Turn{Act: "emit", Value: v} }
	five := []c16Turn{emit(1), emit(2), emit(3), emit(4), emit(5)}
	// ---- boundary cases first
	// an honest client following the returned cursors for 6 turns (one past the script)
	var follow []c16Op
	for k := 0; k < 6; k++ {
		follow = append(follow, c16Honest(k, []int64{int64(10 * k)}, c16Lit("a", fmt.Sprint(k))))
	}
	out = append(out, c16In{Turns: five, Cancel: "ok", Cache: true, Ops: follow})
	out = append(out, c16In{Turns: five, Cancel: "none", Cache: false, Ops: follow})
	// a turn that EMITS its data batch and THEN fails: every error kind (returned rpc / plain / wrapped error,
	// panic with a string / an error / an int), on turn 0 and on a later turn, bare and with logs before,
	// logs after the Emit and emit metadata, over an exchange stream and over a producer stream (turn 0 of a
	// producer runs inside /init); followed by a retry of the same cursor, the cursor the failed turn would
	// have minted, and a cancel. Also: logs then a panic without any Emit.
	{
		lg := []LogSpec{{Level: "INFO", Msg: "before-emit"}}
		lt := []LogSpec{{Level: "WARN", Msg: "after-emit"}}
		for k := range c11Errs {
			e := c11Errs[k]
			for _, prod := range []bool{false, true} {
				bare := c16Turn{Act: "emit_err", Value: 7, Err: &e}
				rich := c16Turn{Act: "emit_err", Value: 7, Err: &e, Logs: lg, LateLogs: lt, Meta: [][2]string{{"um", "1"}}}
				logpanic := c16Turn{Act: "err", Value: 7, Err: &e, Logs: lg}
				ops := []c16Op{c16Honest(0, []int64{1}), c16Honest(1, []int64{2}), c16Honest(1, []int64{3}), c16Honest(2, []int64{4}),
					{Meta: []c16MV{c16Cur(1), c16CallMV(), c16CancelMV("1")}, Body: "tick"}}
				out = append(out, c16In{Turns: []c16Turn{emit(1), []c16Turn{bare, rich}[k%2], emit(3)}, Cancel: "ok", Cache: k%2 == 0, Prod: prod, Ops: ops})
				out = append(out, c16In{Turns: []c16Turn{[]c16Turn{rich, bare}[k%2], emit(2), emit(3)}, Cancel: "none", Cache: k%2 == 1, Prod: prod, Ops: ops[:3]})
				if k%2 == 0 {
					out = append(out, c16In{Turns: []c16Turn{emit(1), logpanic, emit(3)}, Cancel: "ok", Cache: true, Prod: prod, Ops: ops[:3]})
				}
			}
		}
	}
	// replay of old cursors, each replayed twice, then the newest
	out = append(out, c16In{Turns: five, Cancel: "ok", Cache: true, Ops: []c16Op{c16Honest(0, []int64{1}), c16Honest(0, []int64{2}), c16Honest(1, nil), c16Honest(0, []int64{3}), c16Honest(2, nil), c16Honest(4, nil), c16Honest(9, nil)}})
	// every failing turn kind at position 1, then a retry with the SAME cursor and a cancel
	for i, act := range []string{"err", "err", "emit2", "noemit", "finish", "emit_finish", "err", "err"} {
		t := c16Turn{Act: act, Value: 5, Logs: []LogSpec{{Level: "INFO", Msg: "before"}}}
		if act == "err" {
			e := c11Errs[(i*3)%len(c11Errs)]
			t.Err = &e
		}
		out = append(out, c16In{Turns: []c16Turn{emit(1), t, emit(3)}, Cancel: []string{"ok", "none", "err", "panic"}[i%4], Cache: i%2 == 0,
			Ops: []c16Op{c16Honest(0, []int64{1}), c16Honest(1, []int64{2}), c16Honest(1, []int64{3}), {Meta: []c16MV{c16Cur(1), c16CallMV(), c16CancelMV("1")}, Body: "tick"}, c16Honest(1, nil)}})
	}
	// cancel at every position, with every hook behaviour, cancel value variants, then the cursor again
	for pos := 0; pos < 3; pos++ {
		for _, canc := range []string{"none", "ok", "err", "panic"} {
			var ops []c16Op
			for k := 0; k < pos; k++ {
				ops = append(ops, c16Honest(k, []int64{int64(k)}))
			}
			ops = append(ops, c16Op{Meta: []c16MV{c16Lit("a", "1"), c16Cur(pos), c16CallMV(), c16CancelMV([]string{"1", "false", ""}[pos])}, Body: []string{"tick", "data", "tick"}[pos]})
			ops = append(ops, c16Honest(pos, []int64{7}))
			out = append(out, c16In{Turns: five[:3], Cancel: canc, Cache: pos != 1, Ops: ops})
		}
	}
	// metadata: user values under framework keys before / after the real ones, duplicates, tokens under user keys, peeking handler
	peek := c16Turn{Act: "emit", Value: 1, Peek: true}
	ss, cs, cn := vgirpc.MetaStreamState, vgirpc.MetaCallState, vgirpc.MetaCancel
	metas := [][]c16MV{
		{c16Lit("a", "1"), c16Cur(0), c16Lit("b", "2"), c16CallMV(), c16Lit("a", "3"), c16Lit("vgi_rpc.log_level", "INFO")},
		{c16Cur(0), c16CallMV(), c16Lit(ss, "shadowed-late"), c16Lit(cs, "late"), c16Lit("z", "")},
		{c16Lit(ss, "shadow-first"), c16Cur(0), c16CallMV()},
		{c16Cur(0), c16Lit(cs, "shadow-call"), c16CallMV()},
		{c16Cur(0), c16CallMV(), c16Lit(cn, "false"), c16Lit("a", "1")},
		{c16Lit("a", "1"), c16CallMV()},
		{{K: ss, T: "call"}, c16CallMV()},
		{c16Cur(0), {K: cs, T: "cur", N: 0}},
		{c16Cur(0), c16CallMV(), {K: "my_token_copy", T: "cur", N: 0}, {K: "my_call_copy", T: "call"}},
		{c16Cur(0)},
		{c16Cur(0), c16CallMV(), c16Lit("", "empty-key"), c16Lit("vgi_rpc.stream_state", "no-suffix"), c16Lit("VGI_RPC.CANCEL", "case")},
		{},
	}
	for i, m := range metas {
		for _, cache := range []bool{true, false} {
			out = append(out, c16In{Turns: []c16Turn{peek, emit(2)}, Cancel: "ok", Cache: cache,
				Ops: []c16Op{{Meta: m, Body: "data", Vals: []int64{int64(i)}}, c16Honest(1, []int64{1}, c16Lit("k", "v"))}})
		}
	}
	// emit metadata colliding with the stream-state key; zero-row emit; swallowed second emit
	for _, t := range []c16Turn{
		{Act: "emit", Value: 1, Meta: [][2]string{{ss, "user-cursor"}, {"um", "1"}}},
		{Act: "emit", Value: 1, Meta: [][2]string{{ss, ""}}},
		{Act: "emit0", Value: 1, Meta: [][2]string{{"um", "1"}}},
		{Act: "emit0", Value: 1},
		{Act: "emit2_ignore", Value: 1, Logs: []LogSpec{{Level: "INFO", Msg: "l"}}},
	} {
		out = append(out, c16In{Turns: []c16Turn{t, emit(2)}, Cancel: "none", Cache: true, Ops: []c16Op{c16Honest(0, []int64{4}), c16Honest(1, []int64{5})}})
	}
	// client logs raised AFTER the data batch was emitted: on turn 0, on later turns, several of them, with
	// logs before as well, with and without emit metadata, on a failing turn (dropped), zero-row data batch;
	// over an exchange stream and over a producer stream (one Produce per request, turn 0 inside /init)
	late1 := []LogSpec{{Level: "INFO", Msg: "after-emit"}}
	late3 := []LogSpec{{Level: "DEBUG", Msg: "late-1", Extras: [][2]string{{"k", "1"}}}, {Level: "WARN", Msg: "late-2"}, {Level: "INFO", Msg: ""}}
	before := []LogSpec{{Level: "INFO", Msg: "before-emit"}}
	lateTurns := [][]c16Turn{
		{{Act: "emit", Value: 1, LateLogs: late1}, emit(2), emit(3)},
		{emit(1), {Act: "emit", Value: 2, LateLogs: late1}, {Act: "emit", Value: 3, LateLogs: late3}},
		{{Act: "emit", Value: 1, Logs: before, LateLogs: late3, Meta: [][2]string{{"um", "1"}, {"a", "x"}}}, {Act: "emit0", Value: 2, LateLogs: late1, Meta: [][2]string{{"um", "2"}}}, emit(3)},
		{{Act: "emit2_ignore", Value: 1, Logs: before, LateLogs: late1}, {Act: "emit2", Value: 2, LateLogs: late1}, emit(3)},
		{{Act: "emit", Value: 1, LateLogs: late1, Meta: [][2]string{{ss, "user-cursor"}}}, {Act: "emit_finish", Value: 2, Logs: before, LateLogs: late3}, emit(3)},
	}
	for _, turns := range lateTurns {
		for _, prod := range []bool{false, true} {
			ops := []c16Op{c16Honest(0, []int64{1}, c16Lit("a", "1")), c16Honest(1, []int64{2}), c16Honest(2, nil), c16Honest(1, []int64{4})}
			out = append(out, c16In{Turns: turns, Cancel: "ok", Cache: true, Prod: prod, Ops: ops})
		}
	}
	// producer streams: honest follow, every failing / finishing turn kind inside /init and on a continuation,
	// cancel, replay, a tick body and a data body, user metadata around the tokens, cache off
	for i, act := range []string{"emit", "err", "emit2", "noemit", "finish", "emit_finish", "emit0", "emit2_ignore"} {
		t := c16Turn{Act: act, Value: 5, Logs: before}
		if act == "err" {
			e := c11Errs[i%len(c11Errs)]
			t.Err = &e
		}
		tick := c16Op{Meta: []c16MV{c16Lit("vgi_pushdown_filters", "f1"), c16Cur(0), c16CallMV(), c16Lit("a", "2")}, Body: "tick"}
		out = append(out, c16In{Turns: []c16Turn{t, emit(2), emit(3)}, Cancel: "ok", Cache: i%2 == 0, Prod: true, Ops: []c16Op{tick, c16Honest(1, []int64{9}), c16Honest(0, nil)}})
		out = append(out, c16In{Turns: []c16Turn{emit(1), t, emit(3)}, Cancel: []string{"none", "err"}[i%2], Cache: i%2 == 1, Prod: true,
			Ops: []c16Op{tick, c16Honest(1, nil), c16Honest(0, nil), {Meta: []c16MV{c16Cur(0), c16CallMV(), c16CancelMV("1")}, Body: "tick"}}})
	}
	// wrong body shapes
	out = append(out, c16In{Turns: five, Cancel: "ok", Cache: true, Ops: []c16Op{{Meta: []c16MV{c16Cur(0), c16CallMV()}, Body: "tick"}, c16Honest(0, nil)}})
	// ---- random histories
	for len(out) < n {
		in := c16In{Cancel: []string{"none", "ok", "ok", "err", "panic"}[r.Intn(5)], Cache: r.Intn(3) > 0, Prod: r.Intn(4) == 0}
		nt := r.Intn(7)
		failAt := -1
		if nt > 0 && r.Intn(2) == 0 {
			failAt = r.Intn(nt)
		}
		for k := 0; k < nt; k++ {
			in.Turns = append(in.Turns, c16GenTurn(r, k == failAt))
		}
		nops := 1 + r.Intn(9)
		latest := 0 // a guess of how many cursors exist; refs may overshoot (unminted)
		for k := 0; k < nops; k++ {
			var op c16Op
			ref := latest
			switch r.Intn(10) {
			case 0:
				ref = r.Intn(latest + 2) // replay or one past
			case 1:
				if latest > 0 {
					ref = r.Intn(latest)
				}
			}
			pre := c16GenUser(r, 2)
			mid := c16GenUser(r, 1)
			post := c16GenUser(r, 2)
			op.Meta = append(op.Meta, pre...)
			switch r.Intn(14) {
			case 0: // no cursor at all
			case 1:
				op.Meta = append(op.Meta, c16Lit(vgirpc.MetaStreamState, "garbage"), c16Cur(ref))
			default:
				op.Meta = append(op.Meta, c16Cur(ref))
			}
			op.Meta = append(op.Meta, mid...)
			switch r.Intn(12) {
			case 0: // call token missing
			case 1:
				op.Meta = append(op.Meta, c16Lit(vgirpc.MetaCallState, "garbage"), c16CallMV())
			default:
				op.Meta = append(op.Meta, c16CallMV())
			}
			op.Meta = append(op.Meta, post...)
			if r.Intn(25) == 0 {
				op.Meta = append(op.Meta, c16MV{K: "copy", T: "cur", N: ref})
			}
			op.Body = "data"
			op.Vals = c16GenVals(r)
			if r.Intn(7) == 0 {
				i := r.Intn(len(op.Meta) + 1)
				op.Meta = append(op.Meta[:i:i], append([]c16MV{c16CancelMV([]string{"1", "true", "false", ""}[r.Intn(4)])}, op.Meta[i:]...)...)
				if r.Intn(2) == 0 {
					op.Body, op.Vals = "tick", nil
				}
			} else if r.Intn(20) == 0 || (in.Prod && r.Intn(2) == 0) {
				op.Body, op.Vals = "tick", nil
			}
			in.Ops = append(in.Ops, op)
			latest++
		}
		out = append(out, in)
	}
	return out
}

func init() {
	Register("C16", "each case is a history against ONE stream on a real HttpServer — an exchange stream (c16x) or, in the producer cases, a producer stream (c16p, producer batch limit 1: one Produce per request, turn 0 inside /init); a turn may EMIT its data batch and THEN fail (act emit_err: every returned-error and panic kind, turn 0 and later, bare / with logs before and after and emit metadata, exchange and producer, then retry / would-be cursor / cancel; 1/4 of random failing turns); scripted turns may raise client logs BEFORE and AFTER their Emit (late logs: boundary cases on turn 0 / later turns, one and several, with and without emit metadata, on failing / finishing turns, exchange and producer; 1/4 of random turns) — POST /{m}/init then one POST /{m}/exchange per op; an op = ordered request metadata (literal values, references to the k-th cursor the server minted in this history, the call token) + a {x:int64} or empty-schema body; the scripted state records CallContext.InputMetadata, the input batch's own metadata when the script peeks, TransportMetadata/Cookies/schema metadata. Boundary cases first (honest 6-turn follow with cache on/off, replays of every old cursor, each failing-turn kind followed by a retry of the same cursor and a cancel, cancel at positions 0-2 x 4 hook behaviours x cancel values {1,false,empty}, 12 metadata layouts x cache on/off incl. user values under framework keys before/after the real ones, duplicates, tokens under user keys, missing tokens, a peeking handler, emit metadata under the stream-state key, zero-row emit, swallowed second emit, tick body on a data route), then random histories: 0-6 scripted turns (one failing turn of 6 kinds in 1/2, logs, emit metadata, peek 1/6), 1-9 ops with user metadata from a 10-key pool (framework-looking keys, empty key, case variants) before/between/after the tokens, replayed / unminted / shadowed / missing cursors, missing / shadowed call tokens, cancel key at a random position in 1/7 with 4 values; non-trivial = at least one request reached user code and the history has more than one op; distinct = distinct input JSON",
		c16Gen, c16RunCase)
}
