package main

// C02 — a pipe/socket session stays in frame after every request, good or bad.
// Input: one connection history (a list of calls). Every call is written the
// way a client writes it (request stream, and for a stream call its input
// stream right behind it); the whole history goes to Server.Serve as one byte
// buffer (pipe) or over a real Unix / TCP socket call by call (thorough tier).
// The observable is the ordered list of response IPC streams, abstracted.

import (
	"bytes"
	"fmt"
	"math/rand"
	"net"
	"os"
	"path/filepath"
	"sort"
	"time"

	"github.com/Query-farm/vgi-rpc-go/vgirpc"
	"github.com/apache/arrow-go/v18/arrow"
	"github.com/apache/arrow-go/v18/arrow/array"
	"github.com/apache/arrow-go/v18/arrow/ipc"
	"github.com/apache/arrow-go/v18/arrow/memory"
)

type c02Req struct {
	MKind  string `json:"mkind"`  // "name" | "absent" | "badutf8"
	Method string `json:"method"` // used when mkind == "name"
	Ver    string `json:"ver"`    // "good" | "absent" | "bad"
	PV     string `json:"pv"`     // "absent" | "same" | "other" (w.r.t. the gate's 1.2.0)
	PVStr  string `json:"pv_str,omitempty"`
	Ptr    bool   `json:"ptr,omitempty"` // request batch carries shm pointer metadata
	Shape  string `json:"shape"`         // "x" (the declared {x:int64}) | "y" | "s" | "empty"
	Rows   int    `json:"rows"`
	X      int64  `json:"x"`
	ReqID  string `json:"req_id"`
	Extra  int    `json:"extra,omitempty"` // further batches in the request stream
}

type c02Call struct {
	Stream  bool         `json:"stream"` // the client treats the call as a stream call (writes an input stream)
	Req     c02Req       `json:"req"`
	Script  StreamScript `json:"script"`             // unary calls use Script.Init
	InShape string       `json:"in_shape,omitempty"` // "empty" (ticks) | "x" | "y"
	Items   []InputItem  `json:"items,omitempty"`
	Class   string       `json:"class"` // generator's label, tags only
}

type c02In struct {
	Gate      bool      `json:"gate"`      // server declares protocol_version 1.2.0
	Transport string    `json:"transport"` // "pipe" | "unix" | "tcp"
	Calls     []c02Call `json:"calls"`
	// How the client puts the bytes on the connection (the bytes are always the same):
	// Bursts = number of calls per conn.Write on a socket (empty = one call per write,
	// strict lockstep; the responses of a burst are read after it is written);
	// Cut = every write additionally carries the first Cut bytes of what follows
	// (a request whose prefix is already on the wire behind the current call);
	// Chunk = in-process pipe only: the reader hands Serve at most Chunk bytes per Read (0 = all).
	Bursts []int `json:"bursts,omitempty"`
	Cut    int   `json:"cut,omitempty"`
	Chunk  int   `json:"chunk,omitempty"`
}

// c02ChunkReader returns at most n bytes per Read.
type c02ChunkReader struct {
	r *bytes.Reader
	n int
}

func (c *c02ChunkReader) Read(p []byte) (int, error) {
	if len(p) > c.n {
		p = p[:c.n]
	}
	return c.r.Read(p)
}

// c02Groups turns burst sizes into groups of call indices covering all calls.
func c02Groups(n int, bursts []int) [][]int {
	var gs [][]int
	i := 0
	for _, b := range bursts {
		if i >= n {
			break
		}
		if b < 0 {
			b = 0
		}
		var g []int
		for k := 0; k < b && i < n; k++ {
			g = append(g, i)
			i++
		}
		gs = append(gs, g)
	}
	if len(bursts) == 0 {
		for ; i < n; i++ {
			gs = append(gs, []int{i})
		}
	} else if i < n {
		var g []int
		for ; i < n; i++ {
			g = append(g, i)
		}
		gs = append(gs, g)
	}
	return gs
}

const c02GateVersion = "1.2.0"

var (
	c02SchemaY = arrow.NewSchema([]arrow.Field{{Name: "y", Type: arrow.PrimitiveTypes.Int64}}, nil)
	c02SchemaS = arrow.NewSchema([]arrow.Field{{Name: "x", Type: arrow.BinaryTypes.String}}, nil)
	c02Empty   = arrow.NewSchema(nil, nil)
)

var c02Methods = map[string]string{
	"u_int": "MUInt", "u_void": "MUVoid", "prod": "MProd", "prod_h": "MProdH", "exch": "MExch", "exch_h": "MExchH",
	"__describe__": "MDescribe", "__transport_options__": "MTransport",
}

func c02IsStreamMethod(m string) bool {
	return m == "prod" || m == "prod_h" || m == "exch" || m == "exch_h"
}
func c02IsExchange(m string) bool { return m == "exch" || m == "exch_h" }

// ---------------------------------------------------------------- wire

func c02ReqBatch(q c02Req) arrow.RecordBatch {
	vals := make([]int64, q.Rows)
	for i := range vals {
		vals[i] = q.X
	}
	switch q.Shape {
	case "x":
		return int64Batch(inSchemaX, vals)
	case "y":
		return int64Batch(c02SchemaY, vals)
	case "s":
		b := array.NewStringBuilder(memory.DefaultAllocator)
		defer b.Release()
		for range vals {
			b.Append("str")
		}
		a := b.NewArray()
		defer a.Release()
		return array.NewRecordBatch(c02SchemaS, []arrow.Array{a}, int64(q.Rows))
	}
	return array.NewRecordBatch(c02Empty, nil, int64(q.Rows))
}

func c02ReqMeta(q c02Req) [][2]string {
	var m [][2]string
	switch q.MKind {
	case "name":
		m = append(m, [2]string{vgirpc.MetaMethod, q.Method})
	case "badutf8":
		m = append(m, [2]string{vgirpc.MetaMethod, "\xffbad"})
	}
	switch q.Ver {
	case "good":
		m = append(m, [2]string{vgirpc.MetaRequestVersion, vgirpc.ProtocolVersion})
	case "bad":
		m = append(m, [2]string{vgirpc.MetaRequestVersion, vgirpc.ProtocolVersion + "9"})
	}
	if q.ReqID != "" {
		m = append(m, [2]string{vgirpc.MetaRequestID, q.ReqID})
	}
	if q.PV != "absent" {
		m = append(m, [2]string{vgirpc.MetaProtocolVersion, q.PVStr})
	}
	if q.Ptr {
		m = append(m, [2]string{vgirpc.MetaShmOffset, "4096"}, [2]string{vgirpc.MetaShmLength, "64"})
	}
	return m
}

func c02InSchema(shape string) *arrow.Schema {
	switch shape {
	case "x":
		return inSchemaX
	case "y":
		return c02SchemaY
	}
	return c02Empty
}

// c02CallBytes frames one call exactly as a client writes it.
func c02CallBytes(c c02Call) []byte {
	b := c02ReqBatch(c.Req)
	defer b.Release()
	out := ReqBytes(b, c02ReqMeta(c.Req))
	if c.Req.Extra > 0 { // the same batch repeated inside ONE request stream
		meta := c02ReqMeta(c.Req)
		keys, vals := make([]string, len(meta)), make([]string, len(meta))
		for i, p := range meta {
			keys[i], vals[i] = p[0], p[1]
		}
		bm := array.NewRecordBatchWithMetadata(b.Schema(), b.Columns(), b.NumRows(), arrow.NewMetadata(keys, vals))
		var buf bytes.Buffer
		wr := ipc.NewWriter(&buf, ipc.WithSchema(b.Schema()))
		for i := 0; i <= c.Req.Extra; i++ {
			if err := wr.Write(bm); err != nil {
				panic(err)
			}
		}
		if err := wr.Close(); err != nil {
			panic(err)
		}
		bm.Release()
		out = buf.Bytes()
	}
	if c.Stream {
		out = append(out, InputBytes(c02InSchema(c.InShape), c.Items)...)
	}
	return out
}

// c02Reaches says whether the call's request gets as far as user code (so that
// its script must be queued on the surface). Kept deliberately simple; a wrong
// answer desynchronises the script queue, which the comparison then shows
// (leftover scripts / wrong values).
func c02Reaches(gate bool, q c02Req) bool {
	isPtr := q.Ptr && q.Rows == 0
	accepted := q.MKind == "name" && q.Ver == "good" && (q.Shape == "empty" || q.Rows == 1 || isPtr)
	_, registered := map[string]bool{"u_int": true, "u_void": true, "prod": true, "prod_h": true, "exch": true, "exch_h": true}[q.Method]
	return accepted && !isPtr && registered && (!gate || q.PV == "same") && q.Shape == "x"
}

// ---------------------------------------------------------------- sockets

func c02ReadStream(c net.Conn, d time.Duration) (RStream, bool) {
	_ = c.SetReadDeadline(time.Now().Add(d))
	rd, err := ipc.NewReader(c)
	if err != nil {
		return RStream{Err: err.Error()}, false
	}
	defer rd.Release()
	st := RStream{Schema: schemaLabel(rd.Schema())}
	for rd.Next() {
		st.Frames = append(st.Frames, classify(rd.RecordBatch()))
	}
	if rd.Err() != nil {
		st.Err = rd.Err().Error()
		return st, false
	}
	return st, true
}

// c02RunSocket serves the history over a real listener: the client writes one
// call, then reads that call's response (one stream, plus one more when the
// first is a stream header), and so on; at the end it half-closes and reads
// whatever else the server still sends.
func c02RunSocket(s *vgirpc.Server, network string, calls []c02Call, bursts []int, cut int) (streams []RStream, notes []string) {
	var addr string
	bound := make(chan string, 1)
	done := make(chan error, 1)
	dir, err := os.MkdirTemp("", "c02")
	if err != nil {
		return nil, []string{"tmpdir: " + err.Error()}
	}
	defer os.RemoveAll(dir)
	switch network {
	case "unix":
		p := filepath.Join(dir, "s.sock")
		go func() { done <- s.RunUnix(p, 30*time.Millisecond, func(string) { bound <- p }) }()
	default:
		go func() {
			done <- s.RunTcp("127.0.0.1", 0, 30*time.Millisecond, func(h string, port int) { bound <- fmt.Sprintf("%s:%d", h, port) })
		}()
	}
	select {
	case addr = <-bound:
	case err := <-done:
		return nil, []string{fmt.Sprint("listen: ", err)}
	case <-time.After(5 * time.Second):
		return nil, []string{"listen: timeout"}
	}
	conn, err := net.Dial(network, addr)
	if err != nil {
		return nil, []string{"dial: " + err.Error()}
	}
	// the connection input is one fixed byte string; only the write boundaries vary
	var all []byte
	ends := make([]int, len(calls))
	for i, c := range calls {
		all = append(all, c02CallBytes(c)...)
		ends[i] = len(all)
	}
	groups := c02Groups(len(calls), bursts)
	written := 0
	alive := true
	for gi, grp := range groups {
		if !alive {
			break
		}
		upto := written
		if len(grp) > 0 {
			upto = ends[grp[len(grp)-1]] + cut
		}
		if upto > len(all) || gi == len(groups)-1 {
			upto = len(all)
		}
		if upto > written {
			_ = conn.SetWriteDeadline(time.Now().Add(3 * time.Second))
			if _, err := conn.Write(all[written:upto]); err != nil {
				notes = append(notes, fmt.Sprintf("write(group %d): failed", gi))
				break
			}
			written = upto
		}
		for _, i := range grp {
			st, ok := c02ReadStream(conn, 3*time.Second)
			if !ok {
				notes = append(notes, fmt.Sprintf("read#%d: %s", i, st.Err))
				alive = false
				break
			}
			streams = append(streams, st)
			if calls[i].Stream && st.Schema == "h:int64" {
				st2, ok := c02ReadStream(conn, 3*time.Second)
				if !ok {
					notes = append(notes, fmt.Sprintf("read#%d(data): %s", i, st2.Err))
					alive = false
					break
				}
				streams = append(streams, st2)
			}
		}
	}
	if written < len(all) && alive {
		_, _ = conn.Write(all[written:])
	}
	switch cc := conn.(type) {
	case *net.UnixConn:
		_ = cc.CloseWrite()
	case *net.TCPConn:
		_ = cc.CloseWrite()
	}
	tail := 2 * time.Second
	if !alive { // a response already timed out: do not wait long for more
		tail = 300 * time.Millisecond
	}
	for {
		st, ok := c02ReadStream(conn, tail)
		if !ok {
			break
		}
		streams = append(streams, st)
	}
	conn.Close()
	select {
	case <-done:
	case <-time.After(5 * time.Second):
		notes = append(notes, "listener did not shut down")
	}
	return streams, notes
}

// ---------------------------------------------------------------- Coq terms

func c02Frame(f Frame) string {
	switch f.Kind {
	case "data":
		return App("FData", N(uint64(f.Rows)), ListOf(f.Vals, Z), c04KV(f.UMeta))
	case "log":
		return App("FLog", B(f.Level), B(f.Msg), B(f.ReqID), "[]")
	case "exc":
		// message prose is not part of the observable; type, request id, error kind are
		return App("FExc", B(f.ExcType), "[]", B(f.ReqID), B(f.ErrKind))
	case "token":
		return "FToken"
	}
	return "FPtr"
}

func c02Streams(ss []RStream) string {
	return ListOf(ss, func(s RStream) string {
		fr := ListOf(s.Frames, c02Frame)
		if s.Err != "" { // a malformed / truncated response stream can never equal a model stream
			fr = "[FToken; FToken]"
		}
		return App("Build_stream", B(s.Schema), fr)
	})
}

func c02Failure(e *ErrSpec) string {
	switch e.Kind {
	case "rpc":
		return App("C02.FRpc", B(e.Type))
	case "plain", "wrapped_rpc":
		return "C02.FUntyped"
	}
	return "C02.FPanic"
}

func c02Logs(ls []LogSpec) string { return ListOf(ls, func(l LogSpec) string { return B(l.Msg) }) }

func c02Script(s StreamScript) string {
	fail := "None"
	if s.Init.Err != nil {
		fail = App("Some", c02Failure(s.Init.Err))
	}
	hdr := "None"
	if s.Header != nil {
		hdr = App("Some", Z(*s.Header))
	}
	turns := ListOf(s.Turns, func(t TurnScript) string {
		act := map[string]string{"emit": "C02.AEmit", "emit2": "C02.AEmit2", "noemit": "C02.ANoEmit", "finish": "C02.AFinish", "emit_finish": "C02.AEmitFinish"}[t.Act]
		if t.Act == "err" {
			act = App("C02.AErr", c02Failure(t.Err))
		}
		return App("C02.Build_turn", c02Logs(t.Logs), act, Z(t.Value))
	})
	return App("C02.Build_script", c02Logs(s.Init.Logs), fail, Bool(s.Init.NilResult), Z(s.Init.Value), hdr, turns)
}

func c02Shape(s string) string {
	switch s {
	case "x":
		return "C02.SX"
	case "empty", "":
		return "C02.SEmpty"
	}
	return "C02.SOther"
}

func c02ReqTerm(q c02Req, sc StreamScript) string {
	mf := "C02.MAbsent"
	switch q.MKind {
	case "badutf8":
		mf = "C02.MBadUtf8"
	case "name":
		n, ok := c02Methods[q.Method]
		if !ok {
			n = "MUnknown"
		}
		mf = App("C02.MName", "C02."+n)
	}
	ver := map[string]string{"good": "C02.VGood", "absent": "C02.VAbsent", "bad": "C02.VBad"}[q.Ver]
	pv := map[string]string{"absent": "C02.PVAbsent", "same": "C02.PVSame", "other": "C02.PVOther"}[q.PV]
	return App("C02.Build_req", mf, ver, pv, Bool(q.Ptr), c02Shape(q.Shape), N(uint64(q.Rows)), Z(q.X), B(q.ReqID), Nat(q.Extra), c02Script(sc))
}

func c02CallTerm(c c02Call) string {
	r := c02ReqTerm(c.Req, c.Script)
	if !c.Stream {
		return App("C02.Unary", r)
	}
	items := ListOf(c.Items, func(it InputItem) string {
		vals := it.Vals
		if c.InShape == "empty" || c.InShape == "" {
			vals = nil
		}
		return App("C02.Build_item", Bool(it.Kind == "cancel"), ListOf(vals, Z))
	})
	return App("C02.Stream", r, App("C02.Build_inputs", c02Shape(c.InShape), items))
}

// ---------------------------------------------------------------- run

// c02Server builds a fresh scripted server for the given calls and queues the
// scripts of exactly the calls that reach user code.
func c02Server(gate bool, calls []c02Call) (*Surface, *vgirpc.Server) {
	sf := newSurface()
	s := NewScriptedServer(sf)
	if gate {
		s.SetProtocolVersion(c02GateVersion)
	}
	for _, c := range calls {
		if c02Reaches(gate, c.Req) {
			if c02IsStreamMethod(c.Req.Method) {
				sf.PushStream(c.Script)
			} else {
				sf.PushUnary(c.Script.Init)
			}
		}
	}
	return sf, s
}

func c02Run(in c02In) CaseOut {
	sf, s := c02Server(in.Gate, in.Calls)
	defer sf.Close()
	tagset := map[string]bool{}
	failing := 0
	for _, c := range in.Calls {
		tagset[c.Class] = true
		if c.Class != "ok-unary" && c.Class != "ok-stream" {
			failing++
		}
	}
	var streams []RStream
	var notes []string
	escaped := false
	tr := in.Transport
	if tr == "" {
		tr = "pipe"
	}
	switch tr {
	case "unix", "tcp":
		streams, notes = c02RunSocket(s, tr, in.Calls, in.Bursts, in.Cut)
	default:
		var buf bytes.Buffer
		for _, c := range in.Calls {
			buf.Write(c02CallBytes(c))
		}
		var out []byte
		var esc any
		if in.Chunk > 0 { // same bytes, handed to Serve in short reads
			var ob bytes.Buffer
			func() {
				defer func() { esc = recover() }()
				s.Serve(&c02ChunkReader{r: bytes.NewReader(buf.Bytes()), n: in.Chunk}, &ob)
			}()
			out = ob.Bytes()
		} else {
			out, esc = RunPipe(s, buf.Bytes())
		}
		if esc != nil {
			escaped = true
			notes = append(notes, fmt.Sprint("escaped panic: ", esc))
		}
		streams = ParseStreams(out)
	}
	sf.mu.Lock()
	leftover := len(sf.unaryQ) + len(sf.streamQ)
	trace := append([]string(nil), sf.Trace...)
	sf.mu.Unlock()

	// every call once more, alone on a fresh connection of a fresh server
	alone := make([][]RStream, len(in.Calls))
	for i, c := range in.Calls {
		sf1, s1 := c02Server(in.Gate, []c02Call{c})
		out, esc := RunPipe(s1, c02CallBytes(c))
		sf1.Close()
		if esc != nil {
			escaped = true
			notes = append(notes, fmt.Sprintf("escaped panic (call %d alone): %v", i, esc))
		}
		alone[i] = ParseStreams(out)
	}

	tags := []string{"transport-" + tr, fmt.Sprintf("calls-%02d", len(in.Calls))}
	if tr != "pipe" {
		switch {
		case len(in.Bursts) == 0 && in.Cut == 0:
			tags = append(tags, "writes-lockstep")
		case len(in.Bursts) == 0:
			tags = append(tags, "writes-lockstep-plus-prefix-of-next")
		case in.Cut == 0:
			tags = append(tags, "writes-pipelined")
		default:
			tags = append(tags, "writes-pipelined-plus-prefix-of-next")
		}
	} else if in.Chunk > 0 {
		tags = append(tags, "pipe-short-reads")
	}
	if in.Gate {
		tags = append(tags, "gate-on")
	}
	for t := range tagset {
		tags = append(tags, t)
	}
	sort.Strings(tags)
	coqIn := App("C02.Build_input", Bool(in.Gate), ListOf(in.Calls, c02CallTerm), ListOf(in.Bursts, Nat))
	coqObs := App("C02.Build_obs", c02Streams(streams), ListOf(alone, c02Streams), Bool(escaped), N(uint64(leftover)))
	return CaseOut{Coq: Pair(coqIn, coqObs), Tags: tags, Nontrivial: len(in.Calls) >= 2 && failing > 0,
		Obs: map[string]any{"streams": streams, "alone": alone, "escaped": escaped, "leftover_scripts": leftover, "trace": trace, "notes": notes}}
}

// ---------------------------------------------------------------- generator

type c02Gen struct {
	r    *rand.Rand
	gate bool
	seq  int
}

func (g *c02Gen) reqid() string {
	g.seq++
	if g.r.Intn(8) == 0 {
		return ""
	}
	return fmt.Sprintf("c%d", g.seq)
}

func (g *c02Gen) goodReq(method string) c02Req {
	q := c02Req{MKind: "name", Method: method, Ver: "good", PV: "absent", Shape: "x", Rows: 1, X: g.r.Int63n(200) - 100, ReqID: g.reqid()}
	if g.gate || g.r.Intn(4) == 0 {
		q.PV, q.PVStr = "same", []string{"1.2.0", "1.2.7"}[g.r.Intn(2)]
	}
	return q
}

func (g *c02Gen) logs() []LogSpec {
	var l []LogSpec
	for k := g.r.Intn(3); k > 0 && g.r.Intn(2) == 0; k-- {
		l = append(l, LogSpec{Level: "INFO", Msg: []string{"m", "hello", ""}[g.r.Intn(3)]})
	}
	return l
}

func (g *c02Gen) fail() *ErrSpec {
	e := []ErrSpec{{Kind: "rpc", Type: "ValueError", Msg: "bad"}, {Kind: "rpc", Type: "MyErr", Msg: ""}, {Kind: "plain", Msg: "boom"},
		{Kind: "wrapped_rpc", Type: "ValueError", Msg: "in"}, {Kind: "panic_str", Msg: "kaboom"}, {Kind: "panic_err", Msg: "perr"}, {Kind: "panic_int"}}[g.r.Intn(7)]
	return &e
}

var c02UnaryClasses = []string{"ok-unary", "no-method", "bad-utf8", "no-version", "bad-version", "rows-0", "rows-2", "unknown-method",
	"describe", "transport-options", "unary-param-mismatch", "unary-handler-error", "unary-handler-panic", "unary-ptr-no-segment", "unary-gate-refused", "empty-schema-garbage"}
var c02StreamClasses = []string{"ok-stream", "stream-param-mismatch", "stream-init-error", "stream-init-panic", "stream-init-nil", "mid-stream-error",
	"mid-stream-panic", "contract-noemit", "contract-emit2", "contract-finish-on-exchange", "client-cancel", "stream-input-schema-mismatch",
	"stream-gate-refused", "stream-no-items", "stream-early-finish", "stream-ptr-no-segment"}
var c02GapClasses = []string{"gap-stream-bad-version", "gap-stream-rows-2", "gap-stream-unknown-method", "gap-stream-no-method"}


func (g *c02Gen) items(shape string, n int) []InputItem {
	var it []InputItem
	for i := 0; i < n; i++ {
		x := InputItem{Kind: "tick"}
		if shape != "empty" {
			x.Kind = "data"
			for k := g.r.Intn(3); k > 0; k-- {
				x.Vals = append(x.Vals, g.r.Int63n(50))
			}
		}
		it = append(it, x)
	}
	return it
}

func (g *c02Gen) okTurns(exchange bool, n int) []TurnScript {
	var t []TurnScript
	for i := 0; i < n; i++ {
		t = append(t, TurnScript{Act: "emit", Value: g.r.Int63n(1000), Logs: g.logs()})
	}
	return t
}

func (g *c02Gen) streamCall(class string) c02Call {
	method := []string{"prod", "prod_h", "exch", "exch_h"}[g.r.Intn(4)]
	if class == "contract-finish-on-exchange" || class == "stream-input-schema-mismatch" {
		method = []string{"exch", "exch_h"}[g.r.Intn(2)]
	}
	if class == "stream-early-finish" {
		method = []string{"prod", "prod_h"}[g.r.Intn(2)]
	}
	ex := c02IsExchange(method)
	c := c02Call{Stream: true, Req: g.goodReq(method), Class: class, InShape: "empty"}
	if ex {
		c.InShape = "x"
	} else if g.r.Intn(6) == 0 {
		c.InShape = []string{"x", "y"}[g.r.Intn(2)] // producers ignore what the ticks look like
	}
	n := g.r.Intn(5)
	if class != "stream-no-items" && n == 0 {
		n = 1
	}
	c.Items = g.items(c.InShape, n)
	sc := StreamScript{Init: CallScript{Logs: g.logs(), Value: 0}, Canceller: g.r.Intn(2) == 0}
	if g.r.Intn(2) == 0 {
		h := g.r.Int63n(100)
		sc.Header = &h
	}
	k := g.r.Intn(n + 1) // turn at which the special thing happens
	if k >= n && n > 0 {
		k = n - 1
	}
	sc.Turns = g.okTurns(ex, k)
	bad := func(t TurnScript) { sc.Turns = append(sc.Turns, t); sc.Turns = append(sc.Turns, g.okTurns(ex, g.r.Intn(2))...) }
	switch class {
	case "ok-stream":
		sc.Turns = g.okTurns(ex, g.r.Intn(n+2))
		if !ex && g.r.Intn(2) == 0 {
			sc.Turns = append(sc.Turns, TurnScript{Act: []string{"finish", "emit_finish"}[g.r.Intn(2)], Value: 5, Logs: g.logs()})
		}
	case "stream-param-mismatch":
		c.Req.Shape = []string{"y", "s", "empty"}[g.r.Intn(3)]
		if c.Req.Shape == "empty" {
			c.Req.Rows = []int{0, 1, 3}[g.r.Intn(3)]
		}
	case "stream-init-error":
		e := g.fail()
		for e.Kind[0] == 'p' && e.Kind != "plain" {
			e = g.fail()
		}
		sc.Init.Err = e
	case "stream-init-panic":
		sc.Init.Err = &ErrSpec{Kind: []string{"panic_str", "panic_err", "panic_int"}[g.r.Intn(3)], Msg: "pp"}
	case "stream-init-nil":
		sc.Init.NilResult = true
	case "mid-stream-error":
		e := g.fail()
		for e.Kind[0] == 'p' && e.Kind != "plain" {
			e = g.fail()
		}
		bad(TurnScript{Act: "err", Err: e, Logs: g.logs()})
	case "mid-stream-panic":
		bad(TurnScript{Act: "err", Err: &ErrSpec{Kind: []string{"panic_str", "panic_err", "panic_int"}[g.r.Intn(3)], Msg: "pp"}})
	case "contract-noemit":
		bad(TurnScript{Act: "noemit", Logs: g.logs()})
	case "contract-emit2":
		bad(TurnScript{Act: "emit2", Value: 3, Logs: g.logs()})
	case "contract-finish-on-exchange":
		bad(TurnScript{Act: []string{"finish", "emit_finish"}[g.r.Intn(2)], Value: 4})
	case "stream-early-finish":
		bad(TurnScript{Act: []string{"finish", "emit_finish"}[g.r.Intn(2)], Value: 4, Logs: g.logs()})
		c.Items = append(c.Items, g.items(c.InShape, 1+g.r.Intn(3))...)
	case "client-cancel":
		sc.Turns = g.okTurns(ex, n+1)
		c.Items[k].Kind = "cancel"
		c.Items = append(c.Items, g.items(c.InShape, g.r.Intn(3))...)
	case "stream-input-schema-mismatch":
		c.InShape = []string{"empty", "y"}[g.r.Intn(2)]
		c.Items = g.items(c.InShape, n)
	case "stream-gate-refused":
		c.Req.PV, c.Req.PVStr = "other", []string{"1.3.0", "0.2.0", "junk", "2.2.0"}[g.r.Intn(4)]
		if g.r.Intn(3) == 0 {
			c.Req.PV, c.Req.PVStr = "absent", ""
		}
	case "stream-no-items":
		c.Items = nil
	case "stream-ptr-no-segment":
		c.Req.Ptr, c.Req.Rows = true, 0
		if g.r.Intn(3) == 0 {
			c.Items = nil
		}
	case "gap-stream-bad-version":
		c.Req.Ver = []string{"bad", "absent"}[g.r.Intn(2)]
	case "gap-stream-rows-2":
		c.Req.Rows = []int{0, 2}[g.r.Intn(2)]
	case "gap-stream-unknown-method":
		c.Req.Method = "no_such_stream"
	case "gap-stream-no-method":
		c.Req.MKind = []string{"absent", "badutf8"}[g.r.Intn(2)]
	}
	c.Script = sc
	return c
}

func (g *c02Gen) unaryCall(class string) c02Call {
	method := []string{"u_int", "u_int", "u_void"}[g.r.Intn(3)]
	c := c02Call{Req: g.goodReq(method), Class: class}
	sc := StreamScript{Init: CallScript{Logs: g.logs(), Value: g.r.Int63n(1 << 30)}}
	switch class {
	case "no-method":
		c.Req.MKind = "absent"
	case "bad-utf8":
		c.Req.MKind = "badutf8"
	case "no-version":
		c.Req.Ver = "absent"
	case "bad-version":
		c.Req.Ver = "bad"
	case "rows-0":
		c.Req.Rows = 0
	case "rows-2":
		c.Req.Rows = 2 + g.r.Intn(2)
	case "unknown-method":
		c.Req.Method = []string{"nope", "U_INT", "", "prod2"}[g.r.Intn(4)]
	case "describe":
		c.Req.Method = "__describe__"
		c.Req.Shape, c.Req.Rows = []string{"empty", "x"}[g.r.Intn(2)], 1
	case "transport-options":
		c.Req.Method = "__transport_options__"
		c.Req.Shape, c.Req.Rows = []string{"empty", "x"}[g.r.Intn(2)], 1
	case "unary-param-mismatch":
		c.Req.Shape = []string{"y", "s", "empty"}[g.r.Intn(3)]
	case "empty-schema-garbage":
		c.Req.Shape, c.Req.Rows = "empty", []int{0, 2, 5}[g.r.Intn(3)]
		if g.r.Intn(2) == 0 {
			c.Req.Ptr = true
		}
	case "unary-handler-error":
		e := g.fail()
		for e.Kind[0] == 'p' && e.Kind != "plain" {
			e = g.fail()
		}
		sc.Init.Err = e
	case "unary-handler-panic":
		sc.Init.Err = &ErrSpec{Kind: []string{"panic_str", "panic_err", "panic_int"}[g.r.Intn(3)], Msg: "pp"}
	case "unary-ptr-no-segment":
		c.Req.Ptr, c.Req.Rows = true, 0
	case "unary-gate-refused":
		c.Req.PV, c.Req.PVStr = "other", []string{"1.3.0", "0.2.0", "junk", "2.2.0"}[g.r.Intn(4)]
		if g.r.Intn(3) == 0 {
			c.Req.PV, c.Req.PVStr = "absent", ""
		}
	}
	c.Script = sc
	return c
}

func (g *c02Gen) call(class string) c02Call {
	c := g.call1(class)
	if g.r.Intn(5) == 0 { // a request stream with more than one batch: ReadRequest must drain to its EOS
		c.Req.Extra = 1 + g.r.Intn(2)
	}
	return c
}

func (g *c02Gen) call1(class string) c02Call {
	for _, s := range c02UnaryClasses {
		if s == class {
			return g.unaryCall(class)
		}
	}
	return g.streamCall(class)
}

func (g *c02Gen) classes() []string {
	var cl []string
	for _, c := range append(append([]string{}, c02UnaryClasses...), c02StreamClasses...) {
		if !g.gate && (c == "unary-gate-refused" || c == "stream-gate-refused") {
			continue
		}
		cl = append(cl, c)
	}
	return cl
}

func c02GenInputs(r *rand.Rand, n int, tier string) []c02In {
	var out []c02In
	transports := []string{"pipe"}
	if tier == "thorough" {
		transports = []string{"pipe", "pipe", "unix", "tcp"}
	}
	pick := func() string { return transports[r.Intn(len(transports))] }
	// boundary: every class followed by a canary unary call and by a good stream + canary, gate off and on
	for _, gate := range []bool{false, true} {
		g := &c02Gen{r: r, gate: gate}
		for _, cl := range g.classes() {
			out = append(out, c02In{Gate: gate, Transport: pick(), Calls: []c02Call{g.call(cl), g.call("ok-unary")}})
			out = append(out, c02In{Gate: gate, Transport: pick(), Calls: []c02Call{g.call("ok-stream"), g.call(cl), g.call("ok-stream"), g.call("ok-unary")}})
		}
	}
	// boundary, BOTH tiers: pipelined clients on real TCP and Unix listeners. Request k+1 (or a
	// prefix of it) is already on the wire before request k has been read: the whole history in
	// one write, two calls per write, lockstep writes that carry 1 / 9 / 200 bytes or all of the
	// next call, and a request right behind a stream call's input EOS; plus the in-process pipe
	// handing the same bytes over in 1 / 7 / 64-byte reads.
	{
		g := &c02Gen{r: r}
		templates := [][]string{
			{"unary-handler-error", "ok-unary"},
			{"ok-unary", "ok-unary", "ok-unary"},
			{"ok-stream", "ok-unary"},
			{"stream-early-finish", "ok-unary", "ok-stream", "ok-unary"},
			{"bad-version", "ok-unary", "stream-param-mismatch", "ok-unary"},
			{"describe", "client-cancel", "rows-2", "ok-unary"},
		}
		type pat struct {
			bursts []int
			cut    int
		}
		pats := []pat{{[]int{64}, 0}, {[]int{2, 2, 2}, 0}, {[]int{1, 3}, 0}, {nil, 1}, {nil, 9}, {nil, 200}, {nil, 1 << 20}, {[]int{2}, 5}}
		for _, nw := range []string{"tcp", "unix"} {
			for ti, t := range templates {
				for pi, p := range pats {
					if tier != "thorough" && nw == "unix" && (ti+pi)%2 == 1 {
						continue // quick tier: every second combination on unix
					}
					in := c02In{Transport: nw, Bursts: p.bursts, Cut: p.cut}
					for _, cl := range t {
						in.Calls = append(in.Calls, g.call(cl))
					}
					out = append(out, in)
				}
			}
		}
		for _, chunk := range []int{1, 7, 64} {
			for _, t := range templates[:4] {
				in := c02In{Transport: "pipe", Chunk: chunk}
				for _, cl := range t {
					in.Calls = append(in.Calls, g.call(cl))
				}
				out = append(out, in)
			}
		}
	}
	// probes of the reported gaps (outside the theorem's premise; model agreement is still checked)
	for _, cl := range c02GapClasses {
		g := &c02Gen{r: r}
		for k := 0; k < 3; k++ {
			out = append(out, c02In{Transport: pick(), Calls: []c02Call{g.call(cl), g.call("ok-unary"), g.call("ok-unary")}})
		}
	}
	maxLen := 12
	if tier == "thorough" {
		maxLen = 30
	}
	for len(out) < n {
		g := &c02Gen{r: r, gate: r.Intn(3) == 0}
		cl := g.classes()
		k := 1 + r.Intn(maxLen)
		in := c02In{Gate: g.gate, Transport: pick()}
		if tier != "thorough" && r.Intn(5) == 0 { // quick tier: some random histories over sockets too
			in.Transport = []string{"tcp", "unix"}[r.Intn(2)]
		}
		if in.Transport != "pipe" {
			switch r.Intn(4) {
			case 0: // strict lockstep
			case 1:
				in.Bursts = []int{k}
			default:
				for left := k; left > 0; {
					b := 1 + r.Intn(4)
					in.Bursts = append(in.Bursts, b)
					left -= b
				}
			}
			if r.Intn(3) == 0 {
				in.Cut = []int{1, 4, 8, 40, 300, 5000}[r.Intn(6)]
			}
		} else if r.Intn(6) == 0 {
			in.Chunk = []int{1, 3, 16, 100, 4096}[r.Intn(5)]
		}
		for i := 0; i < k; i++ {
			switch {
			case r.Intn(4) == 0:
				in.Calls = append(in.Calls, g.call("ok-unary"))
			case r.Intn(6) == 0:
				in.Calls = append(in.Calls, g.call("ok-stream"))
			default:
				in.Calls = append(in.Calls, g.call(cl[r.Intn(len(cl))]))
			}
		}
		if r.Intn(40) == 0 { // rare: a gap / finding probe inside a longer history
			all := c02GapClasses
			at := r.Intn(len(in.Calls))
			in.Calls[at] = g.call(all[r.Intn(len(all))])
		}
		out = append(out, in)
	}
	return out
}

func init() {
	Register("C02", "per class (16 unary-shaped, 16 stream classes incl. every failure of the property's list, client cancel, wrong input schema, protocol-version gate) the histories [class; canary] and [stream; class; stream; canary] with the gate off and on, then probes of the reported gaps, then random histories of 1-12 calls (1-30 thorough) mixing all classes; each history is written to Server.Serve as one buffer (optionally in short reads) or over real TCP / Unix listeners with lockstep, pipelined (several calls per write, whole history in one write) and prefix-of-next-request writes - a fixed block of 72 such socket cases in the quick tier, a quarter of all cases in the thorough tier; non-trivial = at least two calls and at least one failing call; distinct = distinct input JSON",
		c02GenInputs, c02Run)
}
