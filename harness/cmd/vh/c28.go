package main

import (
	"fmt"
	"math/rand"
	"net/http"
	"net/http/httptest"

	"github.com/Query-farm/vgi-rpc-go/vgirpc"
)

// C28 — WWW-Authenticate build/parse round trip.
type c28In struct {
	Raw    bool   `json:"raw"`
	Header string `json:"header,omitempty"`
	URL    string `json:"url"`
	CID    string `json:"cid"`
	Flag   bool   `json:"flag"`
	CSec   string `json:"csec"`
	DCID   string `json:"dcid"`
	DCSec  string `json:"dcsec"`
	// Via401: the header is taken from a real 401 of an HttpServer configured with this metadata whose
	// authenticator rejects with this reason class and free-text detail (the challenge must parse back to the
	// advertised values whatever the rejection says)
	Via401 string `json:"via401,omitempty"` // "" | missing | invalid | expired | scope | permission | plain
	Detail string `json:"detail,omitempty"`
}

const c28E2EURL = "https://api.example.com/.well-known/oauth-protected-resource/vgi"

var c28Details = []string{"", "signature mismatch", `token "abc" expired`, `unexpected '"' at offset 3 of token`, `scope 5" rejected`,
	`a, client_id="evil"`, `x", client_secret="s`, "back\\slash\"", "comma, separated, words", `client_id=`, "tab\tnl\n", `""`, `"`}

func c28Emit401(in c28In) string {
	h := vgirpc.NewHttpServer(vgirpc.NewServer())
	var authErr error
	switch in.Via401 {
	case "missing":
		authErr = vgirpc.NewAuthFailure(vgirpc.AuthReasonMissingCredential, in.Detail)
	case "invalid":
		authErr = vgirpc.NewAuthFailure(vgirpc.AuthReasonInvalidCredential, in.Detail)
	case "expired":
		authErr = vgirpc.NewAuthFailure(vgirpc.AuthReasonExpiredCredential, in.Detail)
	case "scope":
		authErr = vgirpc.NewAuthFailure(vgirpc.AuthReasonInsufficientScope, in.Detail)
	case "permission":
		authErr = &vgirpc.RpcError{Type: "PermissionError", Message: in.Detail}
	default:
		authErr = &vgirpc.RpcError{Type: "ValueError", Message: in.Detail}
	}
	h.SetAuthenticate(func(*http.Request) (*vgirpc.AuthContext, error) { return nil, authErr })
	m := &vgirpc.OAuthResourceMetadata{Resource: "https://api.example.com/vgi", AuthorizationServers: []string{"https://auth.example.com"},
		ClientID: in.CID, UseIDTokenAsBearer: in.Flag, ClientSecret: in.CSec, DeviceCodeClientID: in.DCID, DeviceCodeClientSecret: in.DCSec}
	if err := h.SetOAuthResourceMetadata(m); err != nil {
		return "SETUP-ERROR: " + err.Error()
	}
	req := httptest.NewRequest("POST", "/test_method", nil)
	req.Header.Set("Content-Type", "application/vnd.apache.arrow.stream")
	req.Header.Set("Authorization", "Bearer x")
	w := httptest.NewRecorder()
	h.ServeHTTP(w, req)
	if w.Code != http.StatusUnauthorized {
		return fmt.Sprintf("NOT-401: %d", w.Code)
	}
	return w.Header().Get("WWW-Authenticate")
}

const c28IDChars = "ABCXYZabcxyz0189-._~"

func c28ID(r *rand.Rand) string {
	switch r.Intn(6) {
	case 0:
		return ""
	case 1: // names of other parameters are legal ids
		return []string{"client_id", "client_secret", "device_code_client_id", "true", "resource_metadata"}[r.Intn(5)]
	}
	n := 1 + r.Intn(12)
	b := make([]byte, n)
	for i := range b {
		b[i] = c28IDChars[r.Intn(len(c28IDChars))]
	}
	return string(b)
}

func c28URL(r *rand.Rand) string {
	base := []string{"https://example.com/.well-known/oauth-protected-resource", "http://h/x",
		"https://a.b/p?client_id=zz&x=1", "https://h/a, client_id=", "https://h/, device_code_client_secret=q",
		"", "https://h/p q,r", "https://h/client_secret=="}[r.Intn(8)]
	if r.Intn(4) == 0 {
		extra := []string{", client_id=", " client_secret=", ",use_id_token_as_bearer=", "=", ","}[r.Intn(5)]
		base += extra
	}
	return base
}

func c28Gen(r *rand.Rand, n int, tier string) []c28In {
	var out []c28In
	// all 2^5 presence subsets first (exhaustive over presence)
	for mask := 0; mask < 32; mask++ {
		in := c28In{URL: "https://example.com/.well-known/oauth-protected-resource/vgi"}
		if mask&1 != 0 {
			in.CID = "cid-1"
		}
		if mask&2 != 0 {
			in.Flag = true
		}
		if mask&4 != 0 {
			in.CSec = "s3cr3t~"
		}
		if mask&8 != 0 {
			in.DCID = "dev-id"
		}
		if mask&16 != 0 {
			in.DCSec = "dev.sec"
		}
		out = append(out, in)
	}
	// coinciding values: every way two or more of the four credential fields can be equal (a device-code flow
	// that reuses the primary registration, a public client, one secret shared...) — equal fields must still be
	// advertised and recovered one by one
	vals := []string{"", "web-app", "sh4red"}
	for _, a := range vals {
		for _, b := range vals {
			for _, c := range vals {
				for _, d := range vals {
					if a == c || b == d || a == b || c == d {
						out = append(out, c28In{URL: "https://example.com/.well-known/oauth-protected-resource/vgi", CID: a, CSec: b, DCID: c, DCSec: d, Flag: len(out)%2 == 0})
					}
				}
			}
		}
	}
	// the challenge as a real 401 emits it, for every rejection class and details that contain quotes, commas
	// and parameter-like text
	for _, via := range []string{"missing", "invalid", "expired", "scope", "permission", "plain"} {
		for _, d := range c28Details {
			out = append(out, c28In{URL: c28E2EURL, CID: "primary-client", CSec: "primary.secret~1", DCID: "device-client", DCSec: "device_secret-2", Flag: len(out)%2 == 0, Via401: via, Detail: d})
		}
	}
	for len(out) < n {
		if r.Intn(10) == 0 {
			out = append(out, c28In{URL: c28E2EURL, CID: c28ID(r), CSec: c28ID(r), DCID: c28ID(r), DCSec: c28ID(r), Flag: r.Intn(2) == 0,
				Via401: []string{"missing", "invalid", "expired", "scope", "permission", "plain"}[r.Intn(6)], Detail: c28Details[r.Intn(len(c28Details))]})
			continue
		}
		if r.Intn(8) == 0 { // random coincidences
			id, sec := c28ID(r), c28ID(r)
			in := c28In{URL: c28URL(r), CID: id, CSec: sec, DCID: id, DCSec: sec, Flag: r.Intn(2) == 0}
			switch r.Intn(4) {
			case 0:
				in.DCSec = c28ID(r)
			case 1:
				in.DCID = c28ID(r)
			case 2:
				in.CSec, in.DCSec = "", ""
			}
			out = append(out, in)
			continue
		}
		if r.Intn(5) == 0 {
			// malformed / foreign header stream
			frags := []string{"Bearer ", "client_id=\"", "device_code_client_id=\"", "\"", ", ", "x", "realm=\"a b\"",
				"client_secret=\"", "resource_metadata=\"", "use_id_token_as_bearer=\"true\"", "=", " ", ",", "true", "abc"}
			h := ""
			for k := r.Intn(9); k >= 0; k-- {
				h += frags[r.Intn(len(frags))]
			}
			out = append(out, c28In{Raw: true, Header: h})
			continue
		}
		out = append(out, c28In{URL: c28URL(r), CID: c28ID(r), Flag: r.Intn(2) == 0, CSec: c28ID(r), DCID: c28ID(r), DCSec: c28ID(r)})
	}
	return out
}

func c28Run(in c28In) CaseOut {
	var h, coqIn string
	tags := []string{}
	if in.Raw {
		h = in.Header
		coqIn = App("C28.Raw", B(h))
		tags = append(tags, "raw")
	} else {
		m := &vgirpc.OAuthResourceMetadata{ClientID: in.CID, UseIDTokenAsBearer: in.Flag, ClientSecret: in.CSec,
			DeviceCodeClientID: in.DCID, DeviceCodeClientSecret: in.DCSec}
		h = vgirpc.VerifBuildWWWAuthenticate(in.URL, m)
		if in.Via401 != "" {
			h = c28Emit401(in)
			tags = append(tags, "via-401", "reject-"+in.Via401)
		}
		coqIn = App("C28.Build", B(in.URL), App("C28.Build_meta", B(in.CID), Bool(in.Flag), B(in.CSec), B(in.DCID), B(in.DCSec)))
		tags = append(tags, "build")
		if in.CID == "" && in.DCID != "" {
			tags = append(tags, "cid-absent-dcid-present")
		}
		if in.CSec == "" && in.DCSec != "" {
			tags = append(tags, "csec-absent-dcsec-present")
		}
	}
	type obs struct {
		Header, URL, CID, CSec, DCID, DCSec string
		Flag                                bool
	}
	o := obs{Header: h, URL: vgirpc.ParseResourceMetadataURL(h), CID: vgirpc.ParseClientID(h),
		Flag: vgirpc.ParseUseIDTokenAsBearer(h), CSec: vgirpc.ParseClientSecret(h),
		DCID: vgirpc.ParseDeviceCodeClientID(h), DCSec: vgirpc.ParseDeviceCodeClientSecret(h)}
	coqObs := App("C28.Build_obs", B(o.Header), B(o.URL), B(o.CID), Bool(o.Flag), B(o.CSec), B(o.DCID), B(o.DCSec))
	return CaseOut{Coq: Pair(coqIn, coqObs), Tags: tags, Nontrivial: true, Obs: o}
}

func init() {
	Register("C28", "all 32 presence subsets, then random metadata over Validate's charset (incl. values equal to other parameter names) with URLs containing separators and parameter-like text, plus 20% raw foreign headers; every case is non-trivial; distinct = distinct input JSON",
		c28Gen, c28Run)
}
