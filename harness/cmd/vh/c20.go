package main

// C20 — every HTTP response carries consistent correlation and capability
// headers. Real HttpServer configurations (generated lattice points) x request
// sequences on every route / rejection path x X-Request-ID header values.

import (
	"bytes"
	"context"
	"encoding/hex"
	"errors"
	"math/rand"
	"net/http"
	"net/http/httptest"
	"sort"
	"strings"

	"github.com/Query-farm/vgi-rpc-go/vgirpc"
)

type c20Req struct {
	Kind       string   `json:"kind"`
	RidHex     []string `json:"rid_hex"` // X-Request-ID values as sent, hex (nil/empty = header absent)
	AcceptZstd bool     `json:"accept_zstd,omitempty"`
	SessAccept bool     `json:"sess_accept,omitempty"`
}

type c20In struct {
	RidOnly bool `json:"rid_only,omitempty"` // drive resolveRequestID alone with Reqs[0].RidHex

	Compress, Ext, MaxReq, MaxResp, MaxExt, Upload, MaxUpload, Proof, ExtraProxy, Introspect, Sticky, OAuth bool
	Cors, NotFound, Prefix                                                                                   bool
	Echo                                                                                                     []string `json:"echo,omitempty"`
	// ExtHow: how Server.SetExternalLocation was driven (vgirpc.VerifC20ExternalHows); "" = "storage" if Ext else "none".
	// ExtEarly: configured before NewHttpServer instead of after the other setters.
	ExtHow                                                                                                   string   `json:"ext_how,omitempty"`
	ExtEarly                                                                                                 bool     `json:"ext_early,omitempty"`
	Auth                                                                                                     string   `json:"auth"`
	NFail                                                                                                    int      `json:"nfail"`
	Reqs                                                                                                     []c20Req `json:"reqs"`
}

var c20Kinds = []string{"options", "health", "unknown_path", "wrong_method", "unary_ok", "unary_err", "unary_open",
	"unary_open_close", "unary_big", "bad_encoding", "bad_ctype", "unknown_method", "malformed", "describe_page",
	"describe_rpc", "init_ok", "exchange_bad", "upload_init", "introspect", "session_delete"}

var c20KindCoq = map[string]string{"options": "C20.Q_options", "health": "C20.Q_health", "unknown_path": "C20.Q_unknown_path",
	"wrong_method": "C20.Q_wrong_method", "unary_ok": "C20.Q_unary_ok", "unary_err": "C20.Q_unary_err",
	"unary_open": "C20.Q_unary_open", "unary_open_close": "C20.Q_unary_open_close", "unary_big": "C20.Q_unary_big",
	"bad_encoding": "C20.Q_bad_encoding", "bad_ctype": "C20.Q_bad_ctype", "unknown_method": "C20.Q_unknown_method",
	"malformed": "C20.Q_malformed", "describe_page": "C20.Q_describe_page", "describe_rpc": "C20.Q_describe_rpc",
	"init_ok": "C20.Q_init_ok", "exchange_bad": "C20.Q_exchange_bad", "upload_init": "C20.Q_upload_init",
	"introspect": "C20.Q_introspect", "session_delete": "C20.Q_session_delete"}

var c20Auths = []string{"none", "ok", "introspector", "fail", "valerr", "unavail", "error"}
var c20AuthCoq = map[string]string{"none": "C20.A_none", "ok": "C20.A_ok", "introspector": "C20.A_introspector",
	"fail": "C20.A_fail", "valerr": "C20.A_valerr", "unavail": "C20.A_unavail", "error": "C20.A_error"}

func c20hex(s string) string { return hex.EncodeToString([]byte(s)) }
func c20unhex(h string) string {
	b, err := hex.DecodeString(h)
	if err != nil {
		panic(err)
	}
	return string(b)
}

// ---------------------------------------------------------------- generators

var c20Spaces = []string{" ", "\t", "\n", "\v", "\f", "\r", "\u0085", "\u00a0", "\u1680", "\u2000", "\u2003", "\u200a",
	"\u2028", "\u2029", "\u202f", "\u205f", "\u3000"}

// not spaces for Go although they look like it: lone continuation/lead bytes,
// Latin-1 NBSP/NEL as single bytes, ZWSP, BOM, over-long encoding of U+0020, controls
var c20NonSpaces = []string{"\x85", "\xa0", "\xc2", "\xe2\x80", "\u200b", "\ufeff", "\xc0\xa0", "\u180e", "\x00", "\x1f", "\x7f", "\u200b"}

func c20Pad(r *rand.Rand) string {
	s := ""
	for k := r.Intn(4); k > 0; k-- {
		s += c20Spaces[r.Intn(len(c20Spaces))]
	}
	return s
}

func c20Core(r *rand.Rand) string {
	const chars = "abcdefXYZ0189-_.:/ \t"
	switch r.Intn(10) {
	case 0:
		return ""
	case 1:
		return strings.Repeat("x", []int{1, 16, 127, 128, 129, 130, 300}[r.Intn(7)])
	case 2: // non-ASCII content, boundary sizes in BYTES (2-byte runes)
		return strings.Repeat("\u00e9", []int{1, 63, 64, 65}[r.Intn(4)]) + []string{"", "a"}[r.Intn(2)]
	case 3:
		return c20NonSpaces[r.Intn(len(c20NonSpaces))]
	case 4: // looks minted
		return "00aa11bb22cc33dd"
	}
	n := 1 + r.Intn(24)
	b := make([]byte, n)
	for i := range b {
		b[i] = chars[r.Intn(len(chars))]
	}
	s := string(b)
	if r.Intn(4) == 0 { // interior space runes / stray bytes must survive
		s = s[:n/2] + c20Spaces[r.Intn(len(c20Spaces))] + c20NonSpaces[r.Intn(len(c20NonSpaces))] + s[n/2:]
	}
	return s
}

func c20RidValues(r *rand.Rand) []string {
	switch r.Intn(12) {
	case 0:
		return nil // header absent
	case 1:
		return []string{""}
	case 2:
		return []string{c20Pad(r) + c20Pad(r)} // blank
	case 3: // two values: Header.Get takes the first
		return []string{c20Pad(r) + c20Core(r) + c20Pad(r), "second-value"}
	case 4: // padding made of non-spaces
		return []string{c20NonSpaces[r.Intn(len(c20NonSpaces))] + c20Core(r) + c20NonSpaces[r.Intn(len(c20NonSpaces))]}
	}
	return []string{c20Pad(r) + c20Core(r) + c20Pad(r)}
}

// boundary X-Request-ID values, run first
func c20RidBoundary() [][]string {
	x := func(n int) string { return strings.Repeat("r", n) }
	return [][]string{nil, {""}, {" "}, {" \t\r\n\v\f "}, {"abc"}, {"  abc\t"}, {x(128)}, {x(129)}, {" " + x(128) + " "},
		{" " + x(129) + " "}, {x(127) + "\u00e9"}, {x(126) + "\u00e9"}, {"\u00a0id\u2003"}, {"\u2028id\u3000"}, {"\xa0id\xa0"}, {"\x85id"},
		{"id\xc2"}, {"\xe2\x80id"}, {"\u200bid\u200b"}, {"\xc2\xa0\xc2\x85\xe1\x9a\x80"}, {"a b"}, {"a\u2003b"}, {"\xff\xfe"},
		{"first", "second"}, {"", "second"}, {"  x  "}, {"\xe2\x80\xa8\xe2\x80"}, {"x\xe2\x80\xa8\xa8"},
		{strings.Repeat("\u3000", 50) + "id"}, {"\xc2 \xa0"}, {"\xa0\xc2"}, {"\u00a0" + x(128) + "\u00a0"}, {"\u00a0" + x(129)},
		{"\u1680\u2000\u2001\u2002\u2003\u2004\u2005\u2006\u2007\u2008\u2009\u200a\u2028\u2029\u202f\u205f\u3000\u0085\u00a0z"},
		{"z\u1680\u2000\u2001\u2002\u2003\u2004\u2005\u2006\u2007\u2008\u2009\u200a\u2028\u2029\u202f\u205f\u3000\u0085\u00a0"},
		{"\u200b"}, {"\u180e"}, {"\ufeff"}, {"\x1c\x1d\x1e\x1f"}}
}

func c20ExtHow(in c20In) string {
	if in.ExtHow != "" {
		return in.ExtHow
	}
	if in.Ext {
		return "storage"
	}
	return "none"
}

// c20ExtClass maps the way the external-location config was set to the model's ext_mode.
func c20ExtClass(in c20In) string {
	how := c20ExtHow(in)
	for _, p := range vgirpc.VerifC20ExternalHows {
		if p[0] == how {
			return p[1]
		}
	}
	panic("c20: unknown ext_how " + how)
}

var c20ExtCoq = map[string]string{"none": "C20.E_none", "resolve": "C20.E_resolve_only", "storage": "C20.E_storage"}

func c20RandCfg(r *rand.Rand, in *c20In) {
	b := func() bool { return r.Intn(2) == 0 }
	in.Compress, in.Ext, in.MaxReq, in.MaxResp, in.MaxExt = b(), b(), b(), b(), b()
	in.Upload, in.MaxUpload, in.Proof, in.ExtraProxy, in.Introspect = b(), b(), b(), b(), b()
	in.Sticky, in.OAuth = b(), b()
	in.ExtHow = vgirpc.VerifC20ExternalHows[r.Intn(len(vgirpc.VerifC20ExternalHows))][0]
	in.Ext = false
	in.ExtEarly = b()
	in.Cors = r.Intn(4) != 0
	in.NotFound, in.Prefix = b(), b()
	if r.Intn(2) == 0 {
		names := []string{"fly-force-instance-id", "X-Route", "Probe-Echo", "a", "ROUTE-KEY-9", "x-b-c"}
		for k := 1 + r.Intn(3); k > 0; k-- {
			in.Echo = append(in.Echo, names[r.Intn(len(names))])
		}
	}
	in.Auth = c20Auths[r.Intn(len(c20Auths))]
	if r.Intn(3) == 0 {
		in.Auth = "none"
	}
}

func c20Gen(r *rand.Rand, n int, tier string) []c20In {
	var out []c20In
	// 1. resolveRequestID alone: boundary values, then random ones (30% of the budget)
	for _, v := range c20RidBoundary() {
		var hx []string
		for _, s := range v {
			hx = append(hx, c20hex(s))
		}
		out = append(out, c20In{RidOnly: true, Auth: "none", Reqs: []c20Req{{Kind: "health", RidHex: hx}}})
	}
	// 1b. the external-location dimension: every way of driving SetExternalLocation (none / nil / resolve-only
	// config without a Storage backend / Storage-backed, incl. replacing one by another), set before or after
	// NewHttpServer, on every route kind and rejection path (413 and 401 included)
	for _, hw := range vgirpc.VerifC20ExternalHows {
		for _, early := range []bool{false, true} {
			in := c20In{ExtHow: hw[0], ExtEarly: early, Compress: early, MaxReq: true, Cors: !early, NotFound: early, Auth: "none"}
			for _, k := range c20Kinds {
				in.Reqs = append(in.Reqs, c20Req{Kind: k, RidHex: []string{c20hex("ext-" + k)}, AcceptZstd: true, SessAccept: true})
			}
			out = append(out, in)
		}
		out = append(out, c20In{ExtHow: hw[0], Cors: true, Auth: "fail", NFail: 1, Reqs: []c20Req{
			{Kind: "health"}, {Kind: "unary_ok"}, {Kind: "options"}, {Kind: "introspect"}}})
	}
	// 2. every route kind x {all toggles off, all on} x every auth mode that matters, CORS on
	for _, all := range []bool{false, true} {
		for _, auth := range []string{"none", "fail", "unavail"} {
			in := c20In{Compress: all, Ext: all, MaxReq: all, MaxResp: all, MaxExt: all, Upload: all, MaxUpload: all, Proof: all,
				ExtraProxy: all, Introspect: all, Sticky: all, OAuth: all, Cors: true, NotFound: all, Auth: auth}
			if all {
				in.Echo = []string{"fly-force-instance-id"}
			}
			for _, k := range c20Kinds {
				if k == "upload_init" && auth != "none" {
					continue
				}
				in.Reqs = append(in.Reqs, c20Req{Kind: k, RidHex: []string{c20hex(" rid-" + k + " ")}, AcceptZstd: true, SessAccept: true})
			}
			out = append(out, in)
		}
	}
	// 3. serve-start hook failing first
	for nf := 1; nf <= 2; nf++ {
		out = append(out, c20In{Compress: true, Cors: true, MaxReq: true, Auth: "none", NFail: nf, Reqs: []c20Req{
			{Kind: "health"}, {Kind: "options", RidHex: []string{c20hex("x")}}, {Kind: "unary_ok"}}})
	}
	for len(out) < n {
		var in c20In
		if r.Intn(10) < 3 {
			in = c20In{RidOnly: true, Auth: "none"}
			var hx []string
			for _, s := range c20RidValues(r) {
				hx = append(hx, c20hex(s))
			}
			in.Reqs = []c20Req{{Kind: "health", RidHex: hx}}
			out = append(out, in)
			continue
		}
		c20RandCfg(r, &in)
		if r.Intn(6) == 0 {
			in.NFail = 1 + r.Intn(2)
		}
		for k := 1 + r.Intn(4); k > 0; k-- {
			q := c20Req{Kind: c20Kinds[r.Intn(len(c20Kinds))], AcceptZstd: r.Intn(2) == 0, SessAccept: r.Intn(3) != 0}
			if q.Kind == "upload_init" && in.Auth != "none" && in.Auth != "ok" && in.Auth != "introspector" {
				q.Kind = "unary_ok" // the upload-URL route's authentication belongs to C22
			}
			for _, s := range c20RidValues(r) {
				q.RidHex = append(q.RidHex, c20hex(s))
			}
			in.Reqs = append(in.Reqs, q)
		}
		out = append(out, in)
	}
	return out
}

// ---------------------------------------------------------------- running

func c20Toggles(in c20In) vgirpc.VerifC20Toggles {
	// Ext stays off here: the harness drives SetExternalLocation itself (c20ExtHow)
	return vgirpc.VerifC20Toggles{Compress: in.Compress, Ext: false, MaxReq: in.MaxReq, MaxResp: in.MaxResp, MaxExt: in.MaxExt,
		Upload: in.Upload, MaxUpload: in.MaxUpload, Proof: in.Proof, ExtraProxy: in.ExtraProxy, Introspect: in.Introspect,
		Sticky: in.Sticky, Echo: len(in.Echo) > 0, OAuth: in.OAuth, Auth: in.Auth != "none"}
}

func c20Authenticator(mode string) vgirpc.AuthenticateFunc {
	return func(*http.Request) (*vgirpc.AuthContext, error) {
		switch mode {
		case "ok":
			return &vgirpc.AuthContext{Domain: "verif", Authenticated: true, Principal: "alice"}, nil
		case "introspector":
			return &vgirpc.AuthContext{Domain: "verif", Authenticated: true, Principal: vgirpc.VerifC20IntrospectorPrincipal}, nil
		case "fail":
			return nil, &vgirpc.AuthFailure{Reason: vgirpc.AuthReasonInvalidCredential, Detail: "scripted"}
		case "valerr":
			return nil, &vgirpc.RpcError{Type: "ValueError", Message: "scripted"}
		case "unavail":
			return nil, vgirpc.NewAuthUnavailable("scripted outage")
		}
		return nil, errors.New("scripted authenticator failure")
	}
}

type c20Resp struct {
	Ext     int      `json:"ext_enabled"` // VGI-Externalization-Enabled: 0 absent, 1 "false", 2 "true", 3 anything else
	Status  int      `json:"status"`
	Rid     *string  `json:"rid_hex"`
	Present []string `json:"present"`
	Expose  []string `json:"expose"`
	HasExp  bool     `json:"has_expose"`
}

func c20Request(in c20In, q c20Req, sf *Surface) *http.Request {
	pfx := ""
	if in.Prefix {
		pfx = "/vgi"
	}
	arrowCT := "application/vnd.apache.arrow.stream"
	method, path, ct := "POST", pfx+"/u_int", arrowCT
	var body []byte
	hdr := map[string]string{}
	unary := func(m string, pad int) []byte {
		meta := StdMeta(m, "", "")
		if pad > 0 {
			meta = append(meta, [2]string{"pad", strings.Repeat("p", pad)})
		}
		return ReqBytes(PIntBatch(1), meta)
	}
	switch q.Kind {
	case "options":
		method, path, ct = "OPTIONS", pfx+"/u_int", ""
	case "health":
		method, path, ct = "GET", []string{"/health", pfx + "/health"}[len(q.RidHex)%2], ""
	case "unknown_path":
		method, path, ct = "GET", "/no/such/path/at/all", ""
	case "wrong_method":
		method, path, ct = "PUT", pfx+"/u_int", ""
	case "unary_ok":
		sf.PushUnary(CallScript{Value: 41})
		body = unary("u_int", 0)
	case "unary_err":
		sf.PushUnary(CallScript{Err: &ErrSpec{Kind: "rpc", Type: "ValueError", Msg: "scripted"}})
		body = unary("u_int", 0)
	case "unary_open":
		path, body = pfx+"/c20_open", ReqBytes(PIntBatch(0), StdMeta("c20_open", "", ""))
	case "unary_open_close":
		path, body = pfx+"/c20_open", ReqBytes(PIntBatch(1), StdMeta("c20_open", "", ""))
	case "unary_big":
		sf.PushUnary(CallScript{Value: 1})
		body = unary("u_int", 2*vgirpc.VerifC20MaxReq)
	case "bad_encoding":
		body = unary("u_int", 0)
		hdr["Content-Encoding"] = "br"
	case "bad_ctype":
		body, ct = unary("u_int", 0), "text/plain"
	case "unknown_method":
		path, body = pfx+"/no_such_method", unary("no_such_method", 0)
	case "malformed":
		body = []byte("\xff\xff\xff\xff\x08\x00\x00\x00notarrow") // small bogus message: a text body would be read as a ~2 GB message length
	case "describe_page":
		method, path, ct = "GET", pfx+"/describe", ""
	case "describe_rpc":
		path, body = pfx+"/__describe__", unary("__describe__", 0)
	case "init_ok":
		sf.PushStream(StreamScript{Turns: []TurnScript{{Act: "emit", Value: 1}, {Act: "finish"}}})
		path, body = pfx+"/prod/init", unary("prod", 0)
	case "exchange_bad":
		path = pfx + "/exch/exchange"
		body = InputBytes(inSchemaX, []InputItem{{Kind: "data", Vals: []int64{1}, Meta: [][2]string{{vgirpc.MetaStreamState, "bm90LWEtdG9rZW4"}}}})
	case "upload_init":
		path, body = pfx+"/__upload_url__/init", unary(vgirpc.UploadURLMethod, 0)
	case "introspect":
		path, ct, body = pfx+vgirpc.IntrospectEndpoint, "application/json", []byte(`{"token":"opaque-credential"}`)
	case "session_delete":
		method, path, ct = "DELETE", pfx+"/__session__", ""
	default:
		panic("c20: unknown kind " + q.Kind)
	}
	var rd *bytes.Reader
	if body != nil {
		rd = bytes.NewReader(body)
	}
	var req *http.Request
	if rd != nil {
		req = httptest.NewRequest(method, path, rd)
	} else {
		req = httptest.NewRequest(method, path, nil)
	}
	if ct != "" {
		req.Header.Set("Content-Type", ct)
	}
	for k, v := range hdr {
		req.Header.Set(k, v)
	}
	if q.AcceptZstd {
		req.Header.Set("X-VGI-Accept-Encoding", "zstd")
	}
	if q.SessAccept {
		req.Header.Set("VGI-Session-Accept", "true")
	}
	if len(q.RidHex) > 0 {
		var vals []string
		for _, h := range q.RidHex {
			vals = append(vals, c20unhex(h))
		}
		req.Header["X-Request-Id"] = vals
	}
	return req
}

func c20Run(in c20In) CaseOut {
	ridTag := func(vals []string) string {
		if len(vals) == 0 {
			return "rid-absent"
		}
		v := vals[0]
		t := strings.TrimSpace(v)
		switch {
		case t == "":
			return "rid-blank"
		case len(t) > 128:
			return "rid-too-long"
		case t != v:
			return "rid-padded"
		}
		for i := 0; i < len(v); i++ {
			if v[i] >= 0x80 {
				return "rid-nonascii"
			}
		}
		return "rid-plain"
	}
	if in.RidOnly {
		var vals []string
		for _, h := range in.Reqs[0].RidHex {
			vals = append(vals, c20unhex(h))
		}
		got := vgirpc.VerifResolveRequestID(vals)
		coqIn := App("C20.RidOnly", ListOf(vals, B), B(got))
		return CaseOut{Coq: Pair(coqIn, App("C20.ORid", B(got))), Tags: []string{"rid-only", ridTag(vals)},
			Nontrivial: true, Obs: map[string]string{"rid_hex": c20hex(got)}}
	}

	sf := newSurface()
	defer sf.Close()
	srv := NewScriptedServer(sf)
	vgirpc.Unary(srv, "c20_open", func(_ context.Context, cc *vgirpc.CallContext, p PInt) (int64, error) {
		if err := cc.OpenSession(&struct{ N int }{1}, 0); err != nil {
			return 0, err
		}
		if p.X == 1 {
			cc.CloseSession()
		}
		return 7, nil
	})
	hookCalls := 0
	srv.SetServeStartHook(func(vgirpc.TransportKind, map[string]bool) error {
		hookCalls++
		if hookCalls <= in.NFail {
			return errors.New("scripted serve-start failure")
		}
		return nil
	})
	if in.ExtEarly {
		vgirpc.VerifC20SetExternal(srv, c20ExtHow(in))
	}
	h := vgirpc.NewHttpServer(srv)
	if in.Prefix {
		h.SetPrefix("/vgi")
	}
	h.SetEnableNotFoundPage(in.NotFound)
	echo := map[string]string{}
	for _, n := range in.Echo {
		echo[n] = "v-" + n
	}
	var auth vgirpc.AuthenticateFunc
	if in.Auth != "none" {
		auth = c20Authenticator(in.Auth)
	}
	if err := vgirpc.VerifC20Apply(srv, h, c20Toggles(in), echo, auth, nil); err != nil {
		panic(err)
	}
	if !in.ExtEarly {
		vgirpc.VerifC20SetExternal(srv, c20ExtHow(in))
	}
	if in.Cors {
		h.SetCorsOrigins("https://app.example.com")
	}

	tags := []string{"serve", "auth-" + in.Auth, "ext-" + c20ExtClass(in), "exthow-" + c20ExtHow(in)}
	if in.Cors {
		tags = append(tags, "cors")
	}
	if in.NFail > 0 {
		tags = append(tags, "hook-fails-first")
	}
	var resps []c20Resp
	var coqReqs, coqObs []string
	for i, q := range in.Reqs {
		// scripts of a request that never reached its handler (413, 401, hook failure) must not leak into the next one
		sf.mu.Lock()
		sf.unaryQ, sf.streamQ = nil, nil
		sf.mu.Unlock()
		req := c20Request(in, q, sf)
		rec := httptest.NewRecorder()
		var esc any
		func() {
			defer func() { esc = recover() }()
			h.ServeHTTP(rec, req)
		}()
		res := rec.Result()
		o := c20Resp{Status: res.StatusCode}
		if esc != nil {
			o.Status = 999
		}
		if vs, ok := res.Header["X-Request-Id"]; ok && len(vs) > 0 {
			hx := c20hex(vs[0])
			o.Rid = &hx
		}
		for k := range res.Header {
			l := strings.ToLower(k)
			if vgirpc.VerifC20Tracked(l) {
				o.Present = append(o.Present, l)
			}
		}
		sort.Strings(o.Present)
		switch vs := res.Header["Vgi-Externalization-Enabled"]; {
		case len(vs) == 0:
			o.Ext = 0
		case len(vs) == 1 && vs[0] == "false":
			o.Ext = 1
		case len(vs) == 1 && vs[0] == "true":
			o.Ext = 2
		default:
			o.Ext = 3
		}
		if vs, ok := res.Header["Access-Control-Expose-Headers"]; ok {
			o.HasExp = true
			o.Expose = vgirpc.VerifC20SplitExpose(strings.Join(vs, ","))
			sort.Strings(o.Expose)
		}
		resps = append(resps, o)

		var vals []string
		for _, hx := range q.RidHex {
			vals = append(vals, c20unhex(hx))
		}
		mint := ""
		if o.Rid != nil {
			mint = c20unhex(*o.Rid) // oracle: the id this response carries, used by the model only when it must mint
		}
		coqReqs = append(coqReqs, App("C20.Build_request", c20KindCoq[q.Kind], ListOf(vals, B), Bool(q.AcceptZstd), Bool(q.SessAccept), B(mint)))
		ridOpt := "None"
		if o.Rid != nil {
			ridOpt = "(Some " + B(c20unhex(*o.Rid)) + ")"
		}
		coqObs = append(coqObs, App("C20.Build_robs", N(uint64(o.Status)), ridOpt, ListOf(o.Present, c20Name), Opt(o.HasExp, ListOf(o.Expose, c20Name)), N(uint64(o.Ext))))
		tags = append(tags, "kind-"+q.Kind, "status-"+itoa(o.Status), ridTag(vals))
		if in.Cors && o.Status == 503 && i >= in.NFail {
			tags = append(tags, "retry-after-under-cors") // violated before fix 846e992
		}
	}
	cfg := App("C20.Build_config", Bool(in.Compress), c20ExtCoq[c20ExtClass(in)], Bool(in.MaxReq), Bool(in.MaxResp), Bool(in.MaxExt),
		Bool(in.Upload), Bool(in.MaxUpload), Bool(in.Proof), Bool(in.ExtraProxy), Bool(in.Introspect), Bool(in.Sticky), Bool(in.OAuth),
		Bool(in.Cors), Bool(in.NotFound), Bool(in.Prefix), ListOf(in.Echo, B), c20AuthCoq[in.Auth])
	coqIn := App("C20.Serve", cfg, Nat(in.NFail), List(coqReqs))
	return CaseOut{Coq: Pair(coqIn, App("C20.OServe", List(coqObs))), Tags: c20Dedup(tags), Nontrivial: len(in.Reqs) > 0, Obs: resps}
}

// c20Name renders a lower-cased header name as the Gen/Consts.v constant that
// holds exactly these bytes when there is one (string literals are slow to
// parse in Coq), and as a byte literal otherwise.
var c20ConstByValue map[string]string

func c20Name(n string) string {
	if c20ConstByValue == nil {
		c20ConstByValue = map[string]string{}
		for _, c := range vgirpc.VerifConstants() {
			if c.Kind == "bytes" && strings.HasPrefix(c.Name, "h_") && c.Name != "h_echo_prefix" {
				c20ConstByValue[c.Bytes] = c.Name
			}
		}
	}
	if id, ok := c20ConstByValue[n]; ok {
		return id
	}
	return B(n)
}

func itoa(n int) string {
	if n == 0 {
		return "0"
	}
	s := ""
	for n > 0 {
		s = string(rune('0'+n%10)) + s
		n /= 10
	}
	return s
}

func c20Dedup(t []string) []string {
	seen := map[string]bool{}
	var out []string
	for _, x := range t {
		if !seen[x] {
			seen[x] = true
			out = append(out, x)
		}
	}
	return out
}

func init() {
	Register("C20", "boundary X-Request-ID values through resolveRequestID, then every route kind under all-off/all-on configurations, then every way of driving SetExternalLocation (none / nil / resolve-only config without Storage / Storage-backed / replaced) set before or after NewHttpServer on every route kind, then random lattice points (11 free toggles + 8 external-location set-ups + CORS/prefix/not-found page/echo names/7 authenticator behaviours, serve-start hook failing for the first 0-2 requests) x 1-4 requests over 20 route/rejection classes x X-Request-ID values (absent, blank, padded with ASCII and Unicode spaces, 128/129 bytes, non-ASCII, invalid UTF-8, two values); every case is non-trivial; distinct = distinct input JSON",
		c20Gen, c20Run)
}
