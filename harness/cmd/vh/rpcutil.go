package main

// rpcutil.go — shared scripted RPC surface, request writers and response
// parsers used by the pipe / HTTP session properties. User code (handlers,
// stream states) replays a script taken from the generated input and records
// a call trace, so model and implementation see the same "program".

import (
	"bytes"
	"context"
	"encoding/json"
	"errors"
	"fmt"
	"io"
	"sort"
	"strings"
	"sync"

	"github.com/Query-farm/vgi-rpc-go/vgirpc"
	"github.com/apache/arrow-go/v18/arrow"
	"github.com/apache/arrow-go/v18/arrow/array"
	"github.com/apache/arrow-go/v18/arrow/ipc"
	"github.com/apache/arrow-go/v18/arrow/memory"
)

// ---------------------------------------------------------------- scripts

// LogSpec is one client-log emission of scripted user code.
type LogSpec struct {
	Level  string      `json:"level"`
	Msg    string      `json:"msg"`
	Extras [][2]string `json:"extras,omitempty"`
}

// ErrSpec describes how scripted user code fails.
// Kind: "rpc" (*RpcError{Type,Msg}), "plain" (errors.New), "wrapped_rpc"
// (fmt.Errorf("%w") around an RpcError), "custom" (a harness-defined error type),
// "panic_str", "panic_err", "panic_int".
type ErrSpec struct {
	Kind    string `json:"kind"`
	Type    string `json:"type,omitempty"`
	Msg     string `json:"msg"`
	ErrKind string `json:"err_kind,omitempty"` // RpcError.Kind (wire vgi_rpc.error_kind), kinds "rpc" / "wrapped_rpc"
}

// harnessCustomErr is an error type of the harness's own (its Go type name
// must never reach the wire).
type harnessCustomErr struct{ msg string }

func (e *harnessCustomErr) Error() string { return e.msg }

// CallScript scripts one unary call or one stream-init call.
type CallScript struct {
	Logs  []LogSpec `json:"logs,omitempty"`
	Err   *ErrSpec  `json:"err,omitempty"`
	Value int64     `json:"value"`
	// stream init only:
	NilResult bool `json:"nil_result,omitempty"` // handler returns (nil, nil)
}

// TurnScript scripts one Produce/Exchange call.
// Act: "emit" | "emit2" (emit twice) | "noemit" | "finish" | "emit_finish" | "finish_ign" | "emit_finish_ign" | "err".
type TurnScript struct {
	Logs  []LogSpec   `json:"logs,omitempty"`
	Act   string      `json:"act"`
	Value int64       `json:"value"`
	Meta  [][2]string `json:"meta,omitempty"` // user metadata attached to the emitted batch
	Err   *ErrSpec    `json:"err,omitempty"`
	// LateLogs are client logs the state raises with out.ClientLog AFTER its
	// first successful Emit of the turn (the collector then holds them behind
	// the data batch). Empty for every script written before the field existed.
	LateLogs []LogSpec `json:"late_logs,omitempty"`
}

// StreamScript scripts one stream call: init + per-turn behaviour. When the
// turns are exhausted a producer finishes and an exchange emits Value 0.
type StreamScript struct {
	Init      CallScript   `json:"init"`
	Header    *int64       `json:"header,omitempty"`
	Turns     []TurnScript `json:"turns,omitempty"`
	Canceller bool         `json:"canceller,omitempty"`
}

// sentinelRpcErrs: scripted handlers fail with package-level sentinel values (`var ErrNotFound = &RpcError{...}`
// is ordinary Go): the SAME *RpcError is returned by every call of the process that scripts the same error, so
// anything the framework stamps on an error value while writing one response shows up in a later one.
var sentinelRpcErrs sync.Map

func sentinelRpc(ty, msg, kind string) *vgirpc.RpcError {
	k := ty + "\x00" + msg + "\x00" + kind
	if v, ok := sentinelRpcErrs.Load(k); ok {
		return v.(*vgirpc.RpcError)
	}
	v, _ := sentinelRpcErrs.LoadOrStore(k, &vgirpc.RpcError{Type: ty, Message: msg, Kind: kind})
	return v.(*vgirpc.RpcError)
}

func (e *ErrSpec) raise() error {
	switch e.Kind {
	case "rpc":
		return sentinelRpc(e.Type, e.Msg, e.ErrKind)
	case "custom":
		return &harnessCustomErr{msg: e.Msg}
	case "plain":
		return errors.New(e.Msg)
	case "wrapped_rpc":
		return fmt.Errorf("ctx: %w", &vgirpc.RpcError{Type: e.Type, Message: e.Msg, Kind: e.ErrKind})
	case "panic_str":
		panic(e.Msg)
	case "panic_err":
		panic(errors.New(e.Msg))
	case "panic_int":
		panic(42)
	}
	return errors.New("bad ErrSpec kind " + e.Kind)
}

// emitLogs raises the scripted logs of one call the way an allocation-conscious handler does: through ONE []KV
// buffer that is refilled in place for every log and scribbled over afterwards. A framework that copies the
// extras when the log is raised (as ClientLog must) is unaffected; one that keeps the caller's slice shows
// later values, or the scribble, in earlier logs.
func emitLogs(logf func(vgirpc.LogLevel, string, ...vgirpc.KV), logs []LogSpec) {
	var buf []vgirpc.KV
	for _, l := range logs {
		buf = buf[:0]
		for _, p := range l.Extras {
			buf = append(buf, vgirpc.KV{Key: p[0], Value: p[1]})
		}
		logf(vgirpc.LogLevel(l.Level), l.Msg, buf...)
	}
	buf = buf[:cap(buf)]
	for i := range buf {
		buf[i] = vgirpc.KV{Key: "scribbled-after-the-call", Value: "x"}
	}
}

func kvs(x [][2]string) []vgirpc.KV {
	out := make([]vgirpc.KV, len(x))
	for i, p := range x {
		out[i] = vgirpc.KV{Key: p[0], Value: p[1]}
	}
	return out
}

// ---------------------------------------------------------------- surface

// Surface is a scripted server surface. Scripts are consumed in call order.
type Surface struct {
	mu      sync.Mutex
	ID      int
	unaryQ  []CallScript
	streamQ []StreamScript
	Trace   []string
}

var (
	surfacesMu sync.Mutex
	surfaces   = map[int]*Surface{}
	surfaceSeq int
)

func newSurface() *Surface {
	surfacesMu.Lock()
	defer surfacesMu.Unlock()
	surfaceSeq++
	s := &Surface{ID: surfaceSeq}
	surfaces[s.ID] = s
	return s
}

func (s *Surface) Close() {
	surfacesMu.Lock()
	delete(surfaces, s.ID)
	surfacesMu.Unlock()
}

func surfaceByID(id int) *Surface {
	surfacesMu.Lock()
	defer surfacesMu.Unlock()
	return surfaces[id]
}

func (s *Surface) trace(f string, a ...any) {
	s.mu.Lock()
	s.Trace = append(s.Trace, fmt.Sprintf(f, a...))
	s.mu.Unlock()
}

func (s *Surface) PushUnary(c CallScript) { s.mu.Lock(); s.unaryQ = append(s.unaryQ, c); s.mu.Unlock() }
func (s *Surface) PushStream(c StreamScript) {
	s.mu.Lock()
	s.streamQ = append(s.streamQ, c)
	s.mu.Unlock()
}

func (s *Surface) popUnary() CallScript {
	s.mu.Lock()
	defer s.mu.Unlock()
	if len(s.unaryQ) == 0 {
		return CallScript{}
	}
	c := s.unaryQ[0]
	s.unaryQ = s.unaryQ[1:]
	return c
}

func (s *Surface) popStream() StreamScript {
	s.mu.Lock()
	defer s.mu.Unlock()
	if len(s.streamQ) == 0 {
		return StreamScript{}
	}
	c := s.streamQ[0]
	s.streamQ = s.streamQ[1:]
	return c
}

// PInt is the parameter struct of every scripted method.
type PInt struct {
	X int64 `vgirpc:"x"`
}

// HdrInt is the scripted stream header.
type HdrInt struct {
	H int64 `arrow:"h"`
}

func (HdrInt) ArrowSchema() *arrow.Schema {
	return arrow.NewSchema([]arrow.Field{{Name: "h", Type: arrow.PrimitiveTypes.Int64}}, nil)
}

var (
	outSchemaV = arrow.NewSchema([]arrow.Field{{Name: "v", Type: arrow.PrimitiveTypes.Int64}}, nil)
	inSchemaX  = arrow.NewSchema([]arrow.Field{{Name: "x", Type: arrow.PrimitiveTypes.Int64}}, nil)
)

// ScriptState is the gob-serialisable scripted stream state.
type ScriptState struct {
	SID   int
	Turns []TurnScript
	Pos   int
}

// ScriptStateC additionally implements StreamCanceller.
type ScriptStateC struct{ ScriptState }

func init() {
	vgirpc.RegisterStateType(&ScriptState{})
	vgirpc.RegisterStateType(&ScriptStateC{})
}

func int64Batch(schema *arrow.Schema, vals []int64) arrow.RecordBatch {
	b := array.NewInt64Builder(memory.DefaultAllocator)
	defer b.Release()
	b.AppendValues(vals, nil)
	arr := b.NewArray()
	defer arr.Release()
	return array.NewRecordBatch(schema, []arrow.Array{arr}, int64(len(vals)))
}

func sumInt64Col(b arrow.RecordBatch) int64 {
	if b == nil || b.NumCols() == 0 {
		return 0
	}
	c, ok := b.Column(0).(*array.Int64)
	if !ok {
		return -999
	}
	var s int64
	for i := 0; i < c.Len(); i++ {
		if !c.IsNull(i) {
			s += c.Value(i)
		}
	}
	return s
}

func (st *ScriptState) turn(kind string, in arrow.RecordBatch, out *vgirpc.OutputCollector, cc *vgirpc.CallContext) error {
	sf := surfaceByID(st.SID)
	var t TurnScript
	if st.Pos < len(st.Turns) {
		t = st.Turns[st.Pos]
	} else if kind == "produce" {
		t = TurnScript{Act: "finish"}
	} else {
		t = TurnScript{Act: "emit"}
	}
	pos := st.Pos
	st.Pos++
	insum := int64(0)
	if kind == "exchange" {
		insum = sumInt64Col(in)
	}
	if sf != nil {
		sf.trace("%s#%d(in=%d)", kind, pos, insum)
	}
	emitLogs(out.ClientLog, t.Logs)
	emit := func() error {
		b := int64Batch(outSchemaV, []int64{t.Value + insum})
		if len(t.Meta) > 0 {
			m := map[string]string{}
			for _, p := range t.Meta {
				m[p[0]] = p[1]
			}
			return out.EmitWithMetadata(b, m)
		}
		return out.Emit(b)
	}
	if len(t.LateLogs) > 0 {
		inner, raised := emit, false
		emit = func() error {
			err := inner()
			if err == nil && !raised {
				raised = true
				for _, l := range t.LateLogs {
					out.ClientLog(vgirpc.LogLevel(l.Level), l.Msg, kvs(l.Extras)...)
				}
			}
			return err
		}
	}
	switch t.Act {
	case "emit":
		return emit()
	case "emit2":
		if err := emit(); err != nil {
			return err
		}
		return emit()
	case "noemit":
		return nil
	case "finish":
		return out.Finish()
	case "emit_finish":
		if err := emit(); err != nil {
			return err
		}
		return out.Finish()
	case "finish_ign": // Finish with its verdict dropped (a state that only logs the refusal)
		_ = out.Finish()
		return nil
	case "emit_finish_ign":
		if err := emit(); err != nil {
			return err
		}
		_ = out.Finish()
		return nil
	case "err":
		return t.Err.raise()
	}
	return fmt.Errorf("bad act %q", t.Act)
}

func (st *ScriptState) Produce(ctx context.Context, out *vgirpc.OutputCollector, cc *vgirpc.CallContext) error {
	return st.turn("produce", nil, out, cc)
}

func (st *ScriptState) Exchange(ctx context.Context, in arrow.RecordBatch, out *vgirpc.OutputCollector, cc *vgirpc.CallContext) error {
	return st.turn("exchange", in, out, cc)
}

func (st *ScriptStateC) OnCancel(ctx context.Context, cc *vgirpc.CallContext) error {
	if sf := surfaceByID(st.SID); sf != nil {
		sf.trace("cancel@%d", st.Pos)
	}
	return nil
}

// Methods registered by NewScriptedServer:
//
//	u_int (PInt -> int64 = script.Value + x), u_void (PInt -> void),
//	prod / prod_h (producer, output {v:int64}, optional header {h:int64}),
//	exch / exch_h (exchange, input {x:int64}, output {v:int64}),
//	dyn (dynamic: producer iff x is even).
func NewScriptedServer(sf *Surface) *vgirpc.Server {
	s := vgirpc.NewServer()
	unary := func(name string) func(context.Context, *vgirpc.CallContext, PInt) (int64, error) {
		return func(_ context.Context, cc *vgirpc.CallContext, p PInt) (int64, error) {
			c := sf.popUnary()
			sf.trace("%s(x=%d)", name, p.X)
			emitLogs(cc.ClientLog, c.Logs)
			if c.Err != nil {
				return 0, c.Err.raise()
			}
			return c.Value + p.X, nil
		}
	}
	vgirpc.Unary(s, "u_int", unary("u_int"))
	vgirpc.UnaryVoid(s, "u_void", func(ctx context.Context, cc *vgirpc.CallContext, p PInt) error {
		_, err := unary("u_void")(ctx, cc, p)
		return err
	})
	initH := func(name string, exchange bool) func(context.Context, *vgirpc.CallContext, PInt) (*vgirpc.StreamResult, error) {
		return func(_ context.Context, cc *vgirpc.CallContext, p PInt) (*vgirpc.StreamResult, error) {
			c := sf.popStream()
			sf.trace("%s.init(x=%d)", name, p.X)
			emitLogs(cc.ClientLog, c.Init.Logs)
			if c.Init.Err != nil {
				return nil, c.Init.Err.raise()
			}
			if c.Init.NilResult {
				return nil, nil
			}
			base := ScriptState{SID: sf.ID, Turns: c.Turns}
			var st any = &base
			if c.Canceller {
				st = &ScriptStateC{base}
			}
			r := &vgirpc.StreamResult{OutputSchema: outSchemaV, State: st}
			if exchange || (name == "dyn" && p.X%2 != 0) {
				r.InputSchema = inSchemaX
			}
			if c.Header != nil {
				r.Header = HdrInt{H: *c.Header}
			}
			return r, nil
		}
	}
	vgirpc.Producer(s, "prod", outSchemaV, initH("prod", false))
	vgirpc.ProducerWithHeader(s, "prod_h", outSchemaV, HdrInt{}.ArrowSchema(), initH("prod_h", false))
	vgirpc.Exchange(s, "exch", outSchemaV, inSchemaX, initH("exch", true))
	vgirpc.ExchangeWithHeader(s, "exch_h", outSchemaV, inSchemaX, HdrInt{}.ArrowSchema(), initH("exch_h", true))
	return s
}

// ---------------------------------------------------------------- client side

// WriteReq writes a request stream with arbitrary custom metadata (method,
// request version etc. are whatever the caller puts in meta).
func WriteReq(w io.Writer, batch arrow.RecordBatch, meta [][2]string) error {
	keys := make([]string, len(meta))
	vals := make([]string, len(meta))
	for i, p := range meta {
		keys[i], vals[i] = p[0], p[1]
	}
	bm := array.NewRecordBatchWithMetadata(batch.Schema(), batch.Columns(), batch.NumRows(), arrow.NewMetadata(keys, vals))
	defer bm.Release()
	wr := ipc.NewWriter(w, ipc.WithSchema(batch.Schema()))
	if err := wr.Write(bm); err != nil {
		return err
	}
	return wr.Close()
}

// StdMeta returns the standard request metadata for a method.
func StdMeta(method, requestID, logLevel string) [][2]string {
	m := [][2]string{{vgirpc.MetaMethod, method}, {vgirpc.MetaRequestVersion, vgirpc.ProtocolVersion}}
	if requestID != "" {
		m = append(m, [2]string{vgirpc.MetaRequestID, requestID})
	}
	if logLevel != "" {
		m = append(m, [2]string{vgirpc.MetaLogLevel, logLevel})
	}
	return m
}

// InputItem is one batch of a client's stream input: a tick (producer), a data
// batch with values (exchange), or a cancel.
type InputItem struct {
	Kind string      `json:"kind"` // "tick" | "data" | "cancel"
	Vals []int64     `json:"vals,omitempty"`
	Meta [][2]string `json:"meta,omitempty"`
}

// WriteInputStream writes the client's input IPC stream for a stream call.
func WriteInputStream(w io.Writer, schema *arrow.Schema, items []InputItem) error {
	wr := ipc.NewWriter(w, ipc.WithSchema(schema))
	for _, it := range items {
		var b arrow.RecordBatch
		if schema.NumFields() == 0 {
			b = array.NewRecordBatch(schema, nil, 0)
		} else {
			b = int64Batch(schema, it.Vals)
		}
		meta := it.Meta
		if it.Kind == "cancel" {
			meta = append([][2]string{{vgirpc.MetaCancel, "true"}}, meta...)
		}
		var wb arrow.RecordBatch = b
		if len(meta) > 0 {
			keys := make([]string, len(meta))
			vals := make([]string, len(meta))
			for i, p := range meta {
				keys[i], vals[i] = p[0], p[1]
			}
			wb = array.NewRecordBatchWithMetadata(schema, b.Columns(), b.NumRows(), arrow.NewMetadata(keys, vals))
		}
		err := wr.Write(wb)
		if wb != b {
			wb.Release()
		}
		b.Release()
		if err != nil {
			return err
		}
	}
	return wr.Close()
}

// ---------------------------------------------------------------- response parsing

// Frame is one batch of a response stream, abstracted.
type Frame struct {
	Kind    string      `json:"kind"` // "data" | "log" | "exc" | "token" | "ptr"
	Rows    int64       `json:"rows"`
	Vals    []int64     `json:"vals,omitempty"`  // first column when int64
	Level   string      `json:"level,omitempty"` // log / exc
	Msg     string      `json:"msg,omitempty"`
	ExcType string      `json:"exc_type,omitempty"`
	ErrKind string      `json:"err_kind,omitempty"`
	ReqID   string      `json:"req_id,omitempty"`
	Extra   string      `json:"extra,omitempty"`
	UMeta   [][2]string `json:"umeta,omitempty"` // non-framework metadata, sorted
	Meta    [][2]string `json:"-"`
}

// RStream is one response IPC stream, abstracted.
type RStream struct {
	Schema string  `json:"schema"`
	Frames []Frame `json:"frames"`
	Err    string  `json:"err,omitempty"` // reader error (malformed / truncated)
}

func schemaLabel(s *arrow.Schema) string {
	parts := make([]string, s.NumFields())
	for i, f := range s.Fields() {
		n := ""
		if f.Nullable {
			n = "?"
		}
		parts[i] = f.Name + ":" + f.Type.String() + n
	}
	return strings.Join(parts, ",")
}

func classify(rec arrow.RecordBatch) Frame {
	f := Frame{Kind: "data", Rows: rec.NumRows()}
	var md arrow.Metadata
	if bm, ok := rec.(arrow.RecordBatchWithMetadata); ok {
		md = bm.Metadata()
	}
	keys, vals := md.Keys(), md.Values()
	for i := range keys {
		f.Meta = append(f.Meta, [2]string{keys[i], vals[i]})
		if !strings.HasPrefix(keys[i], "vgi_rpc.") {
			f.UMeta = append(f.UMeta, [2]string{keys[i], vals[i]})
		}
	}
	sort.Slice(f.UMeta, func(i, j int) bool { return f.UMeta[i][0] < f.UMeta[j][0] })
	get := func(k string) (string, bool) { return md.GetValue(k) }
	if lvl, ok := get(vgirpc.MetaLogLevel); ok && rec.NumRows() == 0 {
		f.Level = lvl
		f.Msg, _ = get(vgirpc.MetaLogMessage)
		f.ReqID, _ = get(vgirpc.MetaRequestID)
		f.Extra, _ = get(vgirpc.MetaLogExtra)
		if lvl == string(vgirpc.LogException) {
			f.Kind = "exc"
			var ex map[string]any
			if json.Unmarshal([]byte(f.Extra), &ex) == nil {
				if t, ok := ex["exception_type"].(string); ok {
					f.ExcType = t
				}
			}
			f.ErrKind, _ = get(vgirpc.MetaErrorKind)
		} else {
			f.Kind = "log"
		}
		return f
	}
	if _, ok := get(vgirpc.MetaStreamState); ok && rec.NumRows() == 0 {
		f.Kind = "token"
		return f
	}
	if _, ok := get(vgirpc.MetaShmOffset); ok {
		f.Kind = "ptr"
		return f
	}
	if _, ok := get(vgirpc.MetaLocation); ok && rec.NumRows() == 0 {
		f.Kind = "ptr"
		return f
	}
	if rec.NumCols() > 0 {
		if c, ok := rec.Column(0).(*array.Int64); ok {
			for i := 0; i < c.Len(); i++ {
				f.Vals = append(f.Vals, c.Value(i))
			}
		}
	}
	return f
}

// ParseStreams splits a byte buffer into its concatenated IPC streams.
func ParseStreams(data []byte) []RStream {
	var out []RStream
	r := bytes.NewReader(data)
	for r.Len() > 0 {
		rd, err := ipc.NewReader(r)
		if err != nil {
			out = append(out, RStream{Err: "open: " + err.Error()})
			break
		}
		st := RStream{Schema: schemaLabel(rd.Schema())}
		for rd.Next() {
			st.Frames = append(st.Frames, classify(rd.RecordBatch()))
		}
		if rd.Err() != nil && rd.Err() != io.EOF {
			st.Err = rd.Err().Error()
		}
		rd.Release()
		out = append(out, st)
		if st.Err != "" {
			break
		}
	}
	return out
}

// RunPipe feeds the whole client byte stream to Server.Serve and returns the
// server's output plus any panic that escaped Serve.
func RunPipe(s *vgirpc.Server, input []byte) (out []byte, escaped any) {
	var buf bytes.Buffer
	func() {
		defer func() { escaped = recover() }()
		s.Serve(bytes.NewReader(input), &buf)
	}()
	return buf.Bytes(), escaped
}

// PIntBatch builds the one-row {x:int64} parameter batch of the scripted methods.
func PIntBatch(x int64) arrow.RecordBatch { return int64Batch(inSchemaX, []int64{x}) }

// ReqBytes frames one request as bytes.
func ReqBytes(batch arrow.RecordBatch, meta [][2]string) []byte {
	var b bytes.Buffer
	if err := WriteReq(&b, batch, meta); err != nil {
		panic(err)
	}
	return b.Bytes()
}

// InputBytes frames one client input stream as bytes.
func InputBytes(schema *arrow.Schema, items []InputItem) []byte {
	var b bytes.Buffer
	if err := WriteInputStream(&b, schema, items); err != nil {
		panic(err)
	}
	return b.Bytes()
}
