package main

import (
	"math/rand"
	"strings"

	"github.com/Query-farm/vgi-rpc-go/vgirpc"
	"github.com/apache/arrow-go/v18/arrow"
)

// C10 — protocol-version gate.
type c10In struct {
	Server     string `json:"server"` // "" = not declared
	Route      string `json:"route"`  // pipe_unary|http_unary|pipe_stream|http_init|pipe_describe|http_describe
	HasClient  bool   `json:"has_client"`
	ClientVers string `json:"client"`
	// pipe routes: requests served earlier on the SAME connection, each declaring this version ("-" = key absent);
	// the verdict on the case's own request must not depend on them
	Prior []string `json:"prior,omitempty"`
	// earlier SetProtocolVersion calls on the same Server before the final one ("" = opt out): the gate must
	// depend on the last declaration only
	Reconf []string `json:"reconf,omitempty"`
}

var c10Routes = []string{"pipe_unary", "http_unary", "pipe_stream", "http_init", "pipe_describe", "http_describe"}

func c10Part(r *rand.Rand) string {
	switch r.Intn(8) {
	case 0:
		return "0"
	case 1:
		return []string{"9223372036854775807", "9223372036854775808", "18446744073709551616", "99999999999999999999", "99999999999999999998", "100000000000000000000"}[r.Intn(6)]
	case 2:
		return []string{"9", "10", "99", "100"}[r.Intn(4)]
	}
	return []string{"1", "2", "3", "12"}[r.Intn(4)]
}

func c10Canon(r *rand.Rand) string { return c10Part(r) + "." + c10Part(r) + "." + c10Part(r) }

func c10Gen(r *rand.Rand, n int, tier string) []c10In {
	var out []c10In
	bad := []string{"", "1", "1.2", "1.2.3.4", "01.2.3", "1.02.3", "1.2.03", "1.2.3-rc1", "1.2.3+b", " 1.2.3", "1.2.3 ", "1.2.3\n", "1..3", ".1.2", "1.2.", "a.b.c", "1.2.x",
		"１.2.3", "٣.2.3", "+1.2.3", "-1.2.3", "1.2.3.", "1,2,3", "00.0.0", "0.0.0", "1.2.３"}
	// boundary: fixed server, every malformed string on two routes
	for i, b := range bad {
		out = append(out, c10In{Server: "2.10.3", Route: c10Routes[i%4], HasClient: true, ClientVers: b})
	}
	// the same malformations applied to the server's own version: a near miss of an otherwise compatible version
	for i, b := range c10Near("2.10.3") {
		out = append(out, c10In{Server: "2.10.3", Route: c10Routes[i%4], HasClient: true, ClientVers: b})
	}
	for _, rt := range c10Routes {
		out = append(out, c10In{Server: "2.10.3", Route: rt, HasClient: false})
		out = append(out, c10In{Server: "2.10.3", Route: rt, HasClient: true, ClientVers: "2.10.99"})
		out = append(out, c10In{Server: "2.10.3", Route: rt, HasClient: true, ClientVers: "3.0.0"})
		out = append(out, c10In{Server: "", Route: rt, HasClient: true, ClientVers: "garbage"})
		out = append(out, c10In{Server: "", Route: rt, HasClient: false})
	}
	// connection history: an admitted (or refused) earlier call on the same pipe must not lend its version to a later one
	for _, rt := range []string{"pipe_unary", "pipe_stream", "pipe_describe"} {
		for _, prior := range [][]string{{"2.10.7"}, {"2.10.3", "2.10.0"}, {"-"}, {"3.0.0"}, {"2.10.7", "-"}, {"garbage", "2.10.3"}} {
			out = append(out, c10In{Server: "2.10.3", Route: rt, HasClient: false, Prior: prior})
			out = append(out, c10In{Server: "2.10.3", Route: rt, HasClient: true, ClientVers: "3.1.0", Prior: prior})
			out = append(out, c10In{Server: "2.10.3", Route: rt, HasClient: true, ClientVers: "2.10.03", Prior: prior})
			out = append(out, c10In{Server: "2.10.3", Route: rt, HasClient: true, ClientVers: "2.10.9", Prior: prior})
		}
	}
	// reconfiguration history: declare, then opt out (or re-declare): only the last declaration counts
	for _, rt := range c10Routes {
		for _, hist := range [][]string{{"1.4.0"}, {"1.4.0", ""}, {"", "3.0.0"}, {"2.10.3", "9.9.9"}} {
			for _, cl := range []struct {
				has bool
				v   string
			}{{false, ""}, {true, "1.4.0"}, {true, "2.0.0"}, {true, "01.4.0"}, {true, "2.10.7"}} {
				out = append(out, c10In{Server: "", Route: rt, HasClient: cl.has, ClientVers: cl.v, Reconf: hist})
				if len(out)%3 == 0 {
					out = append(out, c10In{Server: "2.10.3", Route: rt, HasClient: cl.has, ClientVers: cl.v, Reconf: hist})
				}
			}
		}
	}
	out = append(out, c10In{Server: "99999999999999999999.0.0", Route: "pipe_unary", HasClient: true, ClientVers: "99999999999999999998.0.1"})
	out = append(out, c10In{Server: "1.9223372036854775808.0", Route: "http_unary", HasClient: true, ClientVers: "1.9223372036854775807.0"})
	for len(out) < n {
		in := c10In{Route: c10Routes[r.Intn(len(c10Routes))]}
		if r.Intn(8) != 0 {
			in.Server = c10Canon(r)
		}
		switch r.Intn(10) {
		case 0:
			in.HasClient = false
		case 1:
			in.HasClient, in.ClientVers = true, bad[r.Intn(len(bad))]
		case 2:
			in.HasClient, in.ClientVers = true, bad[r.Intn(len(bad))]
			if in.Server != "" {
				nm := c10Near(in.Server)
				in.ClientVers = nm[r.Intn(len(nm))]
			}
		case 3, 4, 5:
			in.HasClient = true
			if in.Server != "" { // same major.minor, other patch
				p := strings.Split(in.Server, ".")
				in.ClientVers = p[0] + "." + p[1] + "." + c10Part(r)
			} else {
				in.ClientVers = c10Canon(r)
			}
		case 6, 7:
			in.HasClient = true
			if in.Server != "" { // same major, other minor
				p := strings.Split(in.Server, ".")
				in.ClientVers = p[0] + "." + c10Part(r) + "." + c10Part(r)
			} else {
				in.ClientVers = c10Canon(r)
			}
		default:
			in.HasClient, in.ClientVers = true, c10Canon(r)
		}
		if strings.HasPrefix(in.Route, "pipe_") && in.Server != "" && r.Intn(4) == 0 {
			p := strings.Split(in.Server, ".")
			for k := 1 + r.Intn(3); k > 0; k-- {
				in.Prior = append(in.Prior, []string{p[0] + "." + p[1] + "." + c10Part(r), "-", c10Canon(r), in.Server}[r.Intn(4)])
			}
		}
		out = append(out, in)
	}
	return out
}

// c10Near returns non-canonical spellings that differ from the canonical version v (MAJOR.MINOR.PATCH) in one
// component or at one edge only, so that every prefix / suffix / component shortcut in the gate is probed with a
// string that is malformed but otherwise looks compatible.
func c10Near(v string) []string {
	p := strings.Split(v, ".")
	if len(p) != 3 {
		return []string{v + "."}
	}
	M, m, pt := p[0], p[1], p[2]
	j := func(a, b, c string) string { return a + "." + b + "." + c }
	return []string{
		j(M, m, "0"+pt), j(M, m, "00"), j(M, m, ""), j(M, m, pt+"-rc1"), j(M, m, pt+"+b"), j(M, m, pt+" "), j(M, m, pt+"\n"),
		j(M, m, pt) + ".", j(M, m, pt) + ".0", j(M, m, "x"), j(M, m, "+"+pt), j(M, m, "-"+pt), j(M, m, " "+pt),
		j("0"+M, m, pt), j(M, "0"+m, pt), j(" "+M, m, pt), j("+"+M, m, pt), j(M, "", pt), j("", m, pt), j(M, m+" ", pt),
		M + "." + m, M + "." + m + pt, M + m + "." + pt, M + "," + m + "," + pt, "v" + v, strings.Replace(v, ".", "..", 1),
	}
}

func c10Verdict(msg string) string {
	switch {
	case strings.Contains(msg, "Client: <not declared>"):
		return "C10.NotDeclared"
	case strings.Contains(msg, "malformed protocol_version"):
		return "C10.Malformed"
	case strings.Contains(msg, "client is too old"):
		return "C10.ClientTooOld"
	case strings.Contains(msg, "server is too old"):
		return "C10.ServerTooOld"
	}
	return "C10.Admit"
}

func c10Run(in c10In) CaseOut {
	sf := newSurface()
	defer sf.Close()
	s := NewScriptedServer(sf)
	for _, v := range in.Reconf {
		s.SetProtocolVersion(v)
	}
	if in.Server != "" || len(in.Reconf) > 0 {
		s.SetProtocolVersion(in.Server)
	}
	sf.PushUnary(CallScript{Value: 1})
	sf.PushStream(StreamScript{Turns: []TurnScript{{Act: "emit", Value: 1}}})
	meta := func(method string) [][2]string {
		m := StdMeta(method, "rid", "")
		if in.HasClient {
			m = append(m, [2]string{vgirpc.MetaProtocolVersion, in.ClientVers})
		}
		return m
	}
	var body []byte
	var described bool
	tags := []string{in.Route}
	// earlier requests of the same connection: unary calls declaring the prior versions; their responses are
	// cut off the front of the connection's output (each response is one IPC stream)
	var prefix []byte
	for _, pv := range in.Prior {
		m := StdMeta("u_int", "rid-prior", "")
		if pv != "-" {
			m = append(m, [2]string{vgirpc.MetaProtocolVersion, pv})
		}
		sf.PushUnary(CallScript{Value: 7})
		prefix = append(prefix, ReqBytes(PIntBatch(7), m)...)
	}
	if len(in.Prior) > 0 {
		tags = append(tags, "connection-history")
	}
	nPrior := len(in.Prior)
	switch in.Route {
	case "pipe_unary":
		body, _ = RunPipe(s, append(prefix, ReqBytes(PIntBatch(1), meta("u_int"))...))
	case "pipe_stream":
		in2 := append(ReqBytes(PIntBatch(1), meta("prod")), InputBytes(arrow.NewSchema(nil, nil), []InputItem{{Kind: "tick"}, {Kind: "tick"}})...)
		body, _ = RunPipe(s, append(prefix, in2...))
	case "pipe_describe":
		body, _ = RunPipe(s, append(prefix, ReqBytes(PIntBatch(1), meta("__describe__"))...))
	case "http_unary":
		body = DoHTTP(vgirpc.NewHttpServer(s), "POST", "/u_int", ReqBytes(PIntBatch(1), meta("u_int")), nil).Body
	case "http_init":
		body = DoHTTP(vgirpc.NewHttpServer(s), "POST", "/prod/init", ReqBytes(PIntBatch(1), meta("prod")), nil).Body
	case "http_describe":
		body = DoHTTP(vgirpc.NewHttpServer(s), "POST", "/__describe__", ReqBytes(PIntBatch(1), meta("__describe__")), nil).Body
	}
	streams := ParseStreams(body)
	if nPrior > 0 { // the first nPrior response streams belong to the earlier requests
		if len(streams) >= nPrior {
			streams = streams[nPrior:]
		} else {
			streams = nil
		}
		sf.mu.Lock()
		var own []string
		for _, t := range sf.Trace {
			if t != "u_int(x=7)" {
				own = append(own, t)
			}
		}
		sf.Trace = own
		sf.mu.Unlock()
	}
	verdict, kind, etype := "C10.Admit", "", ""
	for _, st := range streams {
		for _, f := range st.Frames {
			if f.Kind == "exc" {
				verdict, kind, etype = c10Verdict(f.Msg), f.ErrKind, f.ExcType
				if verdict == "C10.Admit" { // an exception that is not a gate refusal
					verdict = "C10.Malformed"
					etype = "unexpected:" + f.ExcType + ":" + f.Msg
				}
			}
			if strings.HasPrefix(st.Schema, "name:") && f.Kind == "data" {
				described = true
			}
		}
	}
	dispatched := len(sf.Trace) > 0 || described
	if !in.HasClient {
		tags = append(tags, "client-absent")
	}
	if in.Server == "" {
		tags = append(tags, "server-undeclared")
	}
	tags = append(tags, strings.TrimPrefix(verdict, "C10."))
	rt := map[string]string{"pipe_unary": "C10.PipeUnary", "http_unary": "C10.HttpUnary", "pipe_stream": "C10.PipeStream",
		"http_init": "C10.HttpStreamInit", "pipe_describe": "C10.PipeDescribe", "http_describe": "C10.HttpDescribe"}[in.Route]
	coqIn := App("C10.Build_input", Opt(in.Server != "", B(in.Server)), rt, Opt(in.HasClient, B(in.ClientVers)))
	coqObs := App("C10.Build_obs", Bool(dispatched), verdict, B(kind), B(etype))
	return CaseOut{Coq: Pair(coqIn, coqObs), Tags: tags, Nontrivial: in.Server != "",
		Obs: map[string]any{"dispatched": dispatched, "verdict": verdict, "kind": kind, "etype": etype, "trace": sf.Trace}}
}

func init() {
	Register("C10", "26 malformed client strings (leading zeros, suffixes, whitespace, non-ASCII digits, wrong arity) and absent/matching/mismatching versions on all six routes (pipe+HTTP unary, stream init, describe) first, then random canonical server versions (components incl. 2^63-1, 2^63, 2^64, 10^20) x client versions (same major.minor other patch / random canonical / malformed / absent); non-trivial = server declares a version; distinct = distinct input JSON",
		c10Gen, c10Run)
}
