package main

// C03 — no client-supplied bytes can crash the server or abort an HTTP exchange.
//
// Grammar-based mutation of valid requests (metadata keys dropped / duplicated /
// garbled, row counts 0/1/2, schema perturbations, wrapped `request` column with
// garbage / valid / mismatched inner IPC, ArrowSerializable payload mismatches,
// pointer keys, tokens of every class) on the pipe transport and on every HTTP
// RPC route, plus a raw byte stream (truncations, bit flips, random bytes).
// The Coq input is ABSTRACTED FROM THE BYTES ACTUALLY SENT (c03Abstract decodes
// them with arrow-go exactly as the server's first step does), so generator
// intent and model input cannot drift apart.

import (
	"bytes"
	"context"
	"encoding/hex"
	"encoding/json"
	"fmt"
	"io"
	"math/rand"
	"net/http"
	"net/http/httptest"
	"os"
	"os/exec"
	"runtime"
	"strconv"
	"strings"
	"time"

	"github.com/Query-farm/vgi-rpc-go/vgirpc"
	"github.com/apache/arrow-go/v18/arrow"
	"github.com/apache/arrow-go/v18/arrow/array"
	"github.com/apache/arrow-go/v18/arrow/ipc"
	"github.com/apache/arrow-go/v18/arrow/memory"
)

// ---------------------------------------------------------------- surface

// c03SerP is an ArrowSerializable parameter payload: {a: float64}.
type c03SerP struct {
	A float64 `arrow:"a"`
}

func (c03SerP) ArrowSchema() *arrow.Schema { return c03SchemaA }

// c03PSer is a params struct with an ArrowSerializable field: wire schema {p: binary}.
type c03PSer struct {
	P c03SerP `vgirpc:"p"`
}

type c03ProdState struct{ N int }
type c03ExchState struct{ N int }

func (s *c03ProdState) Produce(_ context.Context, out *vgirpc.OutputCollector, _ *vgirpc.CallContext) error {
	s.N++
	if s.N > 2 {
		return out.Finish()
	}
	return out.Emit(int64Batch(outSchemaV, []int64{int64(s.N)}))
}

func (s *c03ExchState) Exchange(_ context.Context, in arrow.RecordBatch, out *vgirpc.OutputCollector, _ *vgirpc.CallContext) error {
	s.N++
	return out.Emit(int64Batch(outSchemaV, []int64{sumInt64Col(in)}))
}

// Child mode. Raw-byte cases are executed in a child process (this binary
// re-executed with VH_C03_CHILD set): a request body can make arrow-go's IPC
// reader attempt a multi-gigabyte allocation, and when the runtime cannot map
// it the process dies with "fatal error: runtime: out of memory", which no
// recover can catch. The parent must survive that to report it.
func init() {
	mode := os.Getenv("VH_C03_CHILD")
	if mode == "" {
		return
	}
	data, _ := io.ReadAll(os.Stdin)
	switch mode {
	case "screen": // decode once, report allocation
		raw, _ := hex.DecodeString(strings.TrimSpace(string(data)))
		var m0, m1 runtime.MemStats
		runtime.ReadMemStats(&m0)
		c03Abstract(raw)
		runtime.ReadMemStats(&m1)
		fmt.Printf("%d\n", m1.TotalAlloc-m0.TotalAlloc)
	case "run": // run one whole case against the real server
		var in c03In
		if err := json.Unmarshal(data, &in); err != nil {
			os.Exit(3)
		}
		out := c03RunInner(in)
		b, _ := json.Marshal(out)
		os.Stdout.Write(b)
	}
	os.Exit(0)
}

// c03Child re-executes this binary in child mode with the given stdin.
func c03Child(mode string, stdin []byte, timeout time.Duration) (stdout []byte, stderr string, err error) {
	ctx, cancel := context.WithTimeout(context.Background(), timeout)
	defer cancel()
	cmd := exec.CommandContext(ctx, os.Args[0])
	cmd.Env = append(os.Environ(), "VH_C03_CHILD="+mode)
	cmd.Stdin = bytes.NewReader(stdin)
	var eb bytes.Buffer
	cmd.Stderr = &eb
	stdout, err = cmd.Output()
	return stdout, eb.String(), err
}

func init() {
	vgirpc.RegisterStateType(&c03ProdState{})
	vgirpc.RegisterStateType(&c03ExchState{})
}

var (
	c03SchemaNone  = arrow.NewSchema(nil, nil)
	c03SchemaX     = inSchemaX
	c03SchemaX32   = arrow.NewSchema([]arrow.Field{{Name: "x", Type: arrow.PrimitiveTypes.Int32}}, nil)
	c03SchemaXs    = arrow.NewSchema([]arrow.Field{{Name: "x", Type: arrow.BinaryTypes.String}}, nil)
	c03SchemaP     = arrow.NewSchema([]arrow.Field{{Name: "p", Type: arrow.BinaryTypes.Binary}}, nil)
	c03SchemaReq   = arrow.NewSchema([]arrow.Field{{Name: "request", Type: arrow.BinaryTypes.Binary, Nullable: true}}, nil)
	c03SchemaA     = arrow.NewSchema([]arrow.Field{{Name: "a", Type: arrow.PrimitiveTypes.Float64}}, nil)
	c03SchemaAs    = arrow.NewSchema([]arrow.Field{{Name: "a", Type: arrow.BinaryTypes.String}}, nil)
	c03SchemaCount = arrow.NewSchema([]arrow.Field{{Name: "count", Type: arrow.PrimitiveTypes.Int64}}, nil)
	c03SchemaOther = arrow.NewSchema([]arrow.Field{{Name: "zz", Type: arrow.PrimitiveTypes.Int64}, {Name: "y", Type: arrow.PrimitiveTypes.Int64}}, nil)
)

type c03Upload struct{}

func (c03Upload) GenerateUploadURL(*arrow.Schema) (vgirpc.UploadURL, error) {
	return vgirpc.UploadURL{UploadURL: "https://up.invalid/u", DownloadURL: "https://up.invalid/d", ExpiresAt: time.Unix(2000000000, 0)}, nil
}

func c03Server(pv bool) *vgirpc.Server {
	s := vgirpc.NewServer()
	vgirpc.Unary(s, "u_int", func(_ context.Context, _ *vgirpc.CallContext, p PInt) (int64, error) { return p.X, nil })
	vgirpc.Unary(s, "u_ser", func(_ context.Context, _ *vgirpc.CallContext, p c03PSer) (int64, error) { return int64(p.P.A), nil })
	prod := func(_ context.Context, _ *vgirpc.CallContext, _ PInt) (*vgirpc.StreamResult, error) {
		return &vgirpc.StreamResult{OutputSchema: outSchemaV, State: &c03ProdState{}}, nil
	}
	vgirpc.Producer(s, "p_only", outSchemaV, prod)
	vgirpc.Producer(s, "p_ser", outSchemaV, func(_ context.Context, _ *vgirpc.CallContext, _ c03PSer) (*vgirpc.StreamResult, error) {
		return &vgirpc.StreamResult{OutputSchema: outSchemaV, State: &c03ProdState{}}, nil
	})
	vgirpc.Exchange(s, "e_only", outSchemaV, inSchemaX, func(_ context.Context, _ *vgirpc.CallContext, _ PInt) (*vgirpc.StreamResult, error) {
		return &vgirpc.StreamResult{OutputSchema: outSchemaV, InputSchema: inSchemaX, State: &c03ExchState{}}, nil
	})
	vgirpc.DynamicStreamWithHeader(s, "dyn", nil, prod)
	if pv {
		s.SetProtocolVersion("2.10.3")
	}
	return s
}

func c03Http(in *c03In, key []byte) *vgirpc.HttpServer {
	h, err := vgirpc.NewHttpServerWithKey(c03Server(in.PV), key)
	if err != nil {
		panic(err)
	}
	h.SetProducerBatchLimit(1)
	if in.Upload {
		h.SetUploadURLProvider(c03Upload{})
	}
	if in.Introspect {
		if err := h.EnableTokenIntrospection(vgirpc.TokenIntrospectionConfig{
			Resolver:   func(string) (vgirpc.TokenIdentity, bool, error) { return vgirpc.TokenIdentity{}, false, nil },
			Principals: []string{"intro"},
		}); err != nil {
			panic(err)
		}
	}
	return h
}

// ---------------------------------------------------------------- input

type c03Payload struct {
	K    string   `json:"k"` // null | empty | garbage | nobatch | batch
	Rows int      `json:"rows,omitempty"`
	Cols *c03Cols `json:"cols,omitempty"`
}

type c03Cols struct {
	K string      `json:"k"` // none | x | x32 | xs | p | req | a | as | other
	P *c03Payload `json:"p,omitempty"`
}

type c03In struct {
	Route      string      `json:"route"` // pipe | http_unary | http_init | http_exchange | http_upload | http_introspect
	PV         bool        `json:"pv,omitempty"`
	Upload     bool        `json:"upload,omitempty"`
	Introspect bool        `json:"introspect,omitempty"`
	Path       string      `json:"path,omitempty"`
	CT         string      `json:"ct,omitempty"`  // "" = the Arrow content type
	Enc        string      `json:"enc,omitempty"` // "" | br | zstd | gzip (the last two over garbage)
	Meta       [][2]string `json:"meta,omitempty"`
	Rows       int         `json:"rows"`
	Cols       c03Cols     `json:"cols"`
	NoBatch    bool        `json:"nobatch,omitempty"` // schema + end of stream only
	Raw        string      `json:"raw,omitempty"`     // hex: send these bytes instead of Meta/Rows/Cols
	Mut        string      `json:"mut,omitempty"`     // raw stream: how Raw was derived (tag only)
	Tok        string      `json:"tok,omitempty"`     // own | other:<method> | expired | other_key | tampered | badver | short
	CallTok    string      `json:"calltok,omitempty"` // absent | valid | garbage | other_call
	CacheHit   bool        `json:"cache_hit,omitempty"`
	Ins        string      `json:"ins,omitempty"` // valid | cancel | wrong
	Follow     bool        `json:"follow,omitempty"`
	Tag        string      `json:"tag,omitempty"`
}

const (
	c03TokMarker  = "@TOK"
	c03CallMarker = "@CALL"
)

// ---------------------------------------------------------------- building bytes

func c03ColsSchema(c *c03Cols) *arrow.Schema {
	switch c.K {
	case "none":
		return c03SchemaNone
	case "x":
		return c03SchemaX
	case "x32":
		return c03SchemaX32
	case "xs":
		return c03SchemaXs
	case "p":
		return c03SchemaP
	case "req":
		return c03SchemaReq
	case "a":
		return c03SchemaA
	case "as":
		return c03SchemaAs
	case "count":
		return c03SchemaCount
	}
	return c03SchemaOther
}

func c03PayloadBytes(p *c03Payload) (data []byte, null bool) {
	if p == nil {
		return nil, true
	}
	switch p.K {
	case "null":
		return nil, true
	case "empty":
		return []byte{}, false
	case "garbage":
		return []byte{0xFF, 0xFF, 0xFF, 0xFF, 0x10, 0, 0, 0, 1, 2, 3, 4, 5, 6, 7, 8, 9, 10, 11, 12, 13, 14, 15, 16}, false
	case "nobatch":
		var b bytes.Buffer
		w := ipc.NewWriter(&b, ipc.WithSchema(c03ColsSchema(p.Cols)))
		w.Close()
		return b.Bytes(), false
	}
	rec := c03Batch(p.Cols, p.Rows)
	defer rec.Release()
	var b bytes.Buffer
	w := ipc.NewWriter(&b, ipc.WithSchema(rec.Schema()))
	if err := w.Write(rec); err != nil {
		panic(err)
	}
	w.Close()
	return b.Bytes(), false
}

// c03Batch builds a batch of the class with the given number of rows (every
// row carries the same value).
func c03Batch(c *c03Cols, rows int) arrow.RecordBatch {
	mem := memory.DefaultAllocator
	sc := c03ColsSchema(c)
	var cols []arrow.Array
	for _, f := range sc.Fields() {
		bld := array.NewBuilder(mem, f.Type)
		for i := 0; i < rows; i++ {
			switch b := bld.(type) {
			case *array.Int64Builder:
				b.Append(1)
			case *array.Int32Builder:
				b.Append(1)
			case *array.Float64Builder:
				b.Append(1.5)
			case *array.StringBuilder:
				b.Append("abc")
			case *array.BinaryBuilder:
				data, null := c03PayloadBytes(c.P)
				if null {
					b.AppendNull()
				} else {
					b.Append(data)
				}
			}
		}
		cols = append(cols, bld.NewArray())
		bld.Release()
	}
	rec := array.NewRecordBatch(sc, cols, int64(rows))
	for _, a := range cols {
		a.Release()
	}
	return rec
}

func c03WriteBody(meta [][2]string, rows int, c *c03Cols, nobatch bool) []byte {
	var b bytes.Buffer
	if nobatch {
		w := ipc.NewWriter(&b, ipc.WithSchema(c03ColsSchema(c)))
		w.Close()
		return b.Bytes()
	}
	rec := c03Batch(c, rows)
	defer rec.Release()
	if err := WriteReq(&b, rec, meta); err != nil {
		panic(err)
	}
	return b.Bytes()
}

// ---------------------------------------------------------------- abstraction of bytes

type c03Body struct {
	K    string // garbage | nobatch_err | nobatch | batch | decoder_panic
	Meta [][2]string
	Rows int64
	Cols c03Cols
}

func c03AbsPayload(col arrow.Array, rows int64) *c03Payload {
	if rows == 0 {
		return &c03Payload{K: "null"}
	}
	bin, ok := col.(*array.Binary)
	if !ok || bin.IsNull(0) {
		return &c03Payload{K: "null"}
	}
	data := bin.Value(0)
	if len(data) == 0 {
		return &c03Payload{K: "empty"}
	}
	rd, err := ipc.NewReader(bytes.NewReader(data))
	if err != nil {
		return &c03Payload{K: "garbage"}
	}
	defer rd.Release()
	if !rd.Next() {
		return &c03Payload{K: "nobatch"}
	}
	rec := rd.RecordBatch()
	c := c03AbsCols(rec)
	return &c03Payload{K: "batch", Rows: int(rec.NumRows()), Cols: &c}
}

func c03AbsCols(rec arrow.RecordBatch) c03Cols {
	sc := rec.Schema()
	switch {
	case sc.NumFields() == 0:
		return c03Cols{K: "none"}
	case rec.NumCols() == 1 && rec.ColumnName(0) == "request" && rec.Column(0).DataType().ID() == arrow.BINARY:
		return c03Cols{K: "req", P: c03AbsPayload(rec.Column(0), rec.NumRows())}
	case sc.Equal(c03SchemaX):
		return c03Cols{K: "x"}
	case sc.Equal(c03SchemaX32):
		return c03Cols{K: "x32"}
	case sc.Equal(c03SchemaXs):
		return c03Cols{K: "xs"}
	case sc.Equal(c03SchemaP):
		return c03Cols{K: "p", P: c03AbsPayload(rec.Column(0), rec.NumRows())}
	case sc.Equal(c03SchemaA):
		return c03Cols{K: "a"}
	case sc.Equal(c03SchemaAs):
		return c03Cols{K: "as"}
	}
	return c03Cols{K: "other"}
}

// c03Abstract decodes body the way ReadRequest / handleStreamExchange start.
func c03Abstract(body []byte) (out c03Body) {
	defer func() {
		if rv := recover(); rv != nil {
			out = c03Body{K: "decoder_panic"}
		}
	}()
	rd, err := ipc.NewReader(bytes.NewReader(body))
	if err != nil {
		return c03Body{K: "garbage"}
	}
	defer rd.Release()
	if !rd.Next() {
		if rd.Err() != nil {
			return c03Body{K: "nobatch_err"}
		}
		return c03Body{K: "nobatch"}
	}
	rec := rd.RecordBatch()
	out = c03Body{K: "batch", Rows: rec.NumRows(), Cols: c03AbsCols(rec)}
	if bm, ok := rec.(arrow.RecordBatchWithMetadata); ok {
		md := bm.Metadata()
		for i, k := range md.Keys() {
			out.Meta = append(out.Meta, [2]string{k, md.Values()[i]})
		}
	}
	return out
}

// ---------------------------------------------------------------- rendering

// c03S renders a byte string compactly: printable ASCII as (str "..."),
// anything else as hex (coqc time is proportional to the term text).
func c03S(s string) string {
	if s == "" {
		return "[]"
	}
	for i := 0; i < len(s); i++ {
		if s[i] < 0x20 || s[i] > 0x7e || s[i] == '"' || s[i] == '\\' {
			return B(s)
		}
	}
	return `(str "` + s + `")`
}

// c03Key renders a metadata key: the keys the dispatch branches on are named
// constants of the model (regenerated from the compiled code).
func c03MetaKey(k string) string {
	switch k {
	case vgirpc.MetaMethod:
		return "c03_meta_method"
	case vgirpc.MetaRequestVersion:
		return "c03_meta_request_version"
	case vgirpc.MetaLogLevel:
		return "c03_meta_log_level"
	case vgirpc.MetaLocation:
		return "c03_meta_location"
	case vgirpc.MetaShmOffset:
		return "c03_meta_shm_offset"
	case vgirpc.MetaShmLength:
		return "c03_meta_shm_length"
	case vgirpc.MetaShmSegmentName:
		return "c03_meta_shm_segment_name"
	case vgirpc.MetaShmSegmentSize:
		return "c03_meta_shm_segment_size"
	case vgirpc.MetaStreamState:
		return "c03_meta_stream_state"
	case vgirpc.MetaCallState:
		return "c03_meta_call_state"
	case vgirpc.MetaCancel:
		return "c03_meta_cancel"
	case vgirpc.MetaProtocolVersion:
		return "meta_protocol_version"
	}
	return c03S(k)
}

func c03CoqPayload(p *c03Payload) string {
	if p == nil {
		return "C03.PNull"
	}
	switch p.K {
	case "null":
		return "C03.PNull"
	case "empty":
		return "C03.PEmpty"
	case "garbage":
		return "C03.PGarbage"
	case "nobatch":
		return "C03.PNoBatch"
	}
	return App("C03.PBatch", N(uint64(p.Rows)), c03CoqCols(p.Cols))
}

func c03CoqCols(c *c03Cols) string {
	switch c.K {
	case "none":
		return "C03.CNone"
	case "x":
		return "C03.CX"
	case "x32":
		return "C03.CX32"
	case "xs":
		return "C03.CXs"
	case "p":
		return App("C03.CP", c03CoqPayload(c.P))
	case "req":
		return App("C03.CReq", c03CoqPayload(c.P))
	case "a":
		return "C03.CA"
	case "as":
		return "C03.CAs"
	}
	return "C03.COther"
}

func c03CoqBody(b c03Body, tok, call string) string {
	switch b.K {
	case "garbage", "decoder_panic":
		return "C03.BGarbage"
	case "fatal":
		return "C03.BFatal"
	case "nobatch_err":
		return "C03.BNoBatchErr"
	case "nobatch":
		return "C03.BNoBatch"
	}
	meta := ListOf(b.Meta, func(p [2]string) string {
		v := p[1]
		// real sealed tokens are rendered as their marker (they are random)
		if tok != "" && v == tok {
			v = c03TokMarker
		} else if call != "" && v == call {
			v = c03CallMarker
		}
		return Pair(c03MetaKey(p[0]), c03S(v))
	})
	return App("C03.BBatch", meta, N(uint64(b.Rows)), c03CoqCols(&b.Cols))
}

func c03CoqMclass(m string) string {
	switch m {
	case "u_int":
		return "(C03.MUnary C03.TInt)"
	case "u_ser":
		return "(C03.MUnary C03.TSer)"
	case "p_only":
		return "(C03.MProducer C03.TInt)"
	case "p_ser":
		return "(C03.MProducer C03.TSer)"
	case "e_only":
		return "C03.MExchange"
	case "dyn":
		return "C03.MDynamic"
	}
	return "C03.MUnknown"
}

func c03CoqTok(t string) string {
	switch {
	case t == "own":
		return "C03.TOwn"
	case strings.HasPrefix(t, "other:"):
		return App("C03.TOther", c03CoqMclass(strings.TrimPrefix(t, "other:")))
	case t == "expired":
		return "C03.TExpired"
	case t == "other_key":
		return "C03.TOtherKey"
	case t == "tampered":
		return "C03.TTampered"
	case t == "badver":
		return "C03.TBadVersion"
	}
	return "C03.TShort"
}

func c03CoqOutcome(o string) string {
	switch {
	case o == "close":
		return "C03.OClose"
	case o == "ok":
		return "C03.OOk"
	case o == "escaped":
		return "C03.OEscaped"
	}
	return App("C03.OErr", c03S(strings.TrimPrefix(o, "err:")))
}

// ---------------------------------------------------------------- classification of responses

// c03Outcome abstracts a response byte string: "ok" (IPC streams, no
// exception), "err:<exception_type>" (first exception of the first stream that
// has one), "close" (no IPC stream at all).
func c03Outcome(data []byte, firstOnly bool) string {
	streams := ParseStreams(data)
	seen := false
	for i, st := range streams {
		if st.Schema == "" && st.Err != "" && len(st.Frames) == 0 {
			break
		}
		seen = true
		for _, f := range st.Frames {
			if f.Kind == "exc" {
				return "err:" + f.ExcType
			}
		}
		if firstOnly && i == 0 {
			break
		}
	}
	if !seen {
		return "close"
	}
	return "ok"
}

const c03FollowX = 4242

func c03FollowServed(data []byte) bool {
	for _, st := range ParseStreams(data) {
		for _, f := range st.Frames {
			if f.Kind == "data" && len(f.Vals) == 1 && f.Vals[0] == c03FollowX {
				return true
			}
		}
	}
	return false
}

// c03DoHTTP is DoHTTP with a record of whether a status line was written.
type c03RW struct {
	*httptest.ResponseRecorder
	wrote bool
}

func (w *c03RW) WriteHeader(c int)           { w.wrote = true; w.ResponseRecorder.WriteHeader(c) }
func (w *c03RW) Write(b []byte) (int, error) { w.wrote = true; return w.ResponseRecorder.Write(b) }

func c03DoHTTP(h http.Handler, path string, body []byte, hdr map[string]string) (status int, errHdr bool, respBody []byte, escaped any, wrote bool, ctype string) {
	req := httptest.NewRequest("POST", path, bytes.NewReader(body))
	for k, v := range hdr {
		req.Header.Set(k, v)
	}
	rw := &c03RW{ResponseRecorder: httptest.NewRecorder()}
	func() {
		defer func() { escaped = recover() }()
		h.ServeHTTP(rw, req)
	}()
	return rw.Code, rw.Header().Get("X-VGI-RPC-Error") == "true", rw.Body.Bytes(), escaped, rw.wrote, rw.Header().Get("Content-Type")
}

// ---------------------------------------------------------------- running one case

func c03Run(in c03In) CaseOut {
	if in.Raw != "" {
		return c03RunIsolated(in)
	}
	type result struct{ out CaseOut }
	ch := make(chan result, 1)
	go func() { ch <- result{c03RunInner(in)} }()
	select {
	case r := <-ch:
		return r.out
	case <-time.After(20 * time.Second):
		// a hung request is reported as an escaped failure of the property
		tags := []string{in.Route, "TIMEOUT"}
		obs := App("C03.Build_obs", "C03.OEscaped", N(0), "false", "false")
		return CaseOut{Coq: Pair(c03CoqInput(&in, c03Body{K: "garbage"}, "", ""), obs), Tags: tags, Nontrivial: true,
			Obs: map[string]any{"outcome": "TIMEOUT"}}
	}
}

// c03RunIsolated runs a raw-bytes case in a child process. A child that dies
// (fatal runtime error, or no answer in 60 s) is the server process dying on
// client bytes: outcome escaped.
func c03RunIsolated(in c03In) CaseOut {
	js, _ := json.Marshal(in)
	stdout, stderr, err := c03Child("run", js, 60*time.Second)
	var out CaseOut
	if err == nil && json.Unmarshal(stdout, &out) == nil && out.Coq != "" {
		return out
	}
	what := "child process died"
	for _, l := range strings.Split(stderr, "\n") {
		if strings.HasPrefix(l, "fatal error") || strings.HasPrefix(l, "panic:") {
			what = l
			break
		}
	}
	tags := []string{in.Route, "raw", "mut:" + in.Mut, "PROCESS-DIED"}
	if in.Tag != "" {
		tags = append(tags, in.Tag)
	}
	if strings.Contains(what, "out of memory") && in.Tag == "" {
		tags = append(tags, "finding-decoder-oom")
	}
	obs := App("C03.Build_obs", "C03.OEscaped", N(0), "false", "false")
	return CaseOut{Coq: Pair(c03CoqInput(&in, c03Body{K: "fatal"}, "", ""), obs), Tags: tags, Nontrivial: true,
		Obs: map[string]any{"outcome": "process-died", "what": what}}
}

func c03CoqInput(in *c03In, b c03Body, tok, call string) string {
	route := map[string]string{"pipe": "C03.Pipe", "http_unary": "C03.HUnary", "http_init": "C03.HInit",
		"http_exchange": "C03.HExchange", "http_upload": "C03.HUpload", "http_introspect": "C03.HIntrospect"}[in.Route]
	ct := "c03_arrow_content_type"
	if in.CT != "" {
		ct = c03S(in.CT)
	}
	enc := map[string]string{"": "C03.EncNone", "br": "C03.EncUnknown", "zstd": "C03.EncBad", "gzip": "C03.EncBad"}[in.Enc]
	calltok := map[string]string{"": "C03.KAbsent", "absent": "C03.KAbsent", "valid": "C03.KValid", "garbage": "C03.KGarbage", "other_call": "C03.KOtherCall"}[in.CallTok]
	if strings.HasPrefix(in.CallTok, "short:") {
		calltok = "C03.KGarbage"
	}
	ins := map[string]string{"": "C03.IValid", "valid": "C03.IValid", "cancel": "C03.ICancel", "wrong": "C03.IWrong"}[in.Ins]
	return App("C03.Build_input", route, Bool(in.PV), Bool(in.Upload), Bool(in.Introspect), c03S(in.Path), ct, enc,
		c03CoqBody(b, tok, call), c03CoqTok(in.Tok), calltok, Bool(in.CacheHit), ins, Bool(in.Follow))
}

var c03Key = []byte("c03-harness-token-key-0123456789")

// c03Tokens mints the cursor / call tokens of the requested classes by running
// real /init requests. Returns the HttpServer the continuation must be sent to.
func c03Tokens(in *c03In) (h *vgirpc.HttpServer, tok, call string) {
	h = c03Http(in, c03Key)
	mintOn := func(hs *vgirpc.HttpServer, method string) (string, string) {
		pc := &c03Cols{K: "x"}
		if method == "p_ser" {
			pc = &c03Cols{K: "p", P: &c03Payload{K: "batch", Rows: 1, Cols: &c03Cols{K: "a"}}}
		}
		mm := StdMeta(method, "", "")
		if in.PV {
			mm = append(mm, [2]string{vgirpc.MetaProtocolVersion, "2.10.3"})
		}
		body := c03WriteBody(mm, 1, pc, false)
		_, _, rb, _, _, _ := c03DoHTTP(hs, "/"+method+"/init", body, map[string]string{"Content-Type": "application/vnd.apache.arrow.stream"})
		var t, c string
		for _, st := range ParseStreams(rb) {
			for _, f := range st.Frames {
				for _, kv := range f.Meta {
					if kv[0] == vgirpc.MetaStreamState {
						t = kv[1]
					}
					if kv[0] == vgirpc.MetaCallState {
						c = kv[1]
					}
				}
			}
		}
		return t, c
	}
	method := in.Path
	minter := h
	switch {
	case strings.HasPrefix(in.Tok, "other:"):
		method = strings.TrimPrefix(in.Tok, "other:")
	case in.Tok == "other_key":
		minter = c03Http(in, []byte("another-token-key-0123456789abcdef"))
	}
	if mc := c03CoqMclass(method); mc == "C03.MUnknown" || strings.HasPrefix(mc, "(C03.MUnary") {
		method = "p_only" // nothing can mint for this route's method: use a producer token (class other:p_only)
	}
	tok, call = mintOn(minter, method)
	if !in.CacheHit && minter == h {
		// continuation lands on an instance that never saw /init
		h = c03Http(in, c03Key)
	}
	switch in.Tok {
	case "expired":
		h.SetTokenTTL(-1)
	case "tampered":
		b := []byte(tok)
		if len(b) > 40 {
			if b[40] == 'A' {
				b[40] = 'B'
			} else {
				b[40] = 'A'
			}
		}
		tok = string(b)
	case "badver":
		tok = "Q" + tok[min(1, len(tok)):] // first base64 char carries the version byte's high bits
	case "short":
		tok = tok[:min(16, len(tok))]
	}
	if strings.HasPrefix(in.Tok, "short:") { // every envelope length around the nonce / version-byte / tag boundaries
		n, _ := strconv.Atoi(strings.TrimPrefix(in.Tok, "short:"))
		tok = tok[:min(n, len(tok))]
	}
	switch in.CallTok {
	case "garbage":
		call = "AAAA"
	case "other_call":
		_, call = mintOn(minter, method)
	}
	if strings.HasPrefix(in.CallTok, "short:") {
		n, _ := strconv.Atoi(strings.TrimPrefix(in.CallTok, "short:"))
		call = call[:min(n, len(call))]
	}
	return h, tok, call
}

func c03RunInner(in c03In) CaseOut {
	tags := []string{in.Route}
	if in.Tag != "" {
		tags = append(tags, in.Tag)
	}
	var tok, call string
	var hs *vgirpc.HttpServer
	if in.Route == "http_exchange" {
		hs, tok, call = c03Tokens(&in)
	}
	subst := func(meta [][2]string) [][2]string {
		out := make([][2]string, len(meta))
		for i, p := range meta {
			out[i] = p
			if p[1] == c03TokMarker {
				out[i][1] = tok
			} else if p[1] == c03CallMarker {
				out[i][1] = call
			}
		}
		return out
	}
	var body []byte
	if in.Raw != "" {
		body, _ = hex.DecodeString(in.Raw)
		tags = append(tags, "raw", "mut:"+in.Mut)
	} else {
		body = c03WriteBody(subst(in.Meta), in.Rows, &in.Cols, in.NoBatch)
	}
	abs := c03Abstract(body)
	if in.Route != "pipe" {
		// every HTTP route bounds the stream's declared lengths against len(body)
		// (checkIPCStreamFraming) before arrow-go sees it; a refusal there is the
		// same decode failure as ipc.NewReader refusing the body
		if _, ferr := vgirpc.VerifCheckIPCStreamFraming(body); ferr != nil {
			abs = c03Body{K: "garbage"}
			tags = append(tags, "framing-refused")
		}
	}
	tags = append(tags, "body:"+abs.K)
	if abs.K == "batch" {
		tags = append(tags, "cols:"+abs.Cols.K, fmt.Sprintf("rows:%d", min(abs.Rows, 2)))
	}
	if abs.K == "decoder_panic" {
		tags = append(tags, "finding-decoder-panic")
	}

	var outcome string
	status, errHdr, next := 0, false, false
	obsMap := map[string]any{}
	if in.Route == "pipe" {
		s := c03Server(in.PV)
		stream := append([]byte(nil), body...)
		// the client of a stream call writes its input stream right behind the request
		methodName := ""
		for _, kv := range abs.Meta {
			if kv[0] == vgirpc.MetaMethod {
				methodName = kv[1]
				break
			}
		}
		if in.Raw == "" {
			switch methodName {
			case "p_only", "p_ser", "dyn":
				switch in.Ins {
				case "cancel":
					stream = append(stream, InputBytes(c03SchemaNone, []InputItem{{Kind: "cancel"}})...)
				case "wrong":
					stream = append(stream, c03InputWrong()...)
				default:
					stream = append(stream, InputBytes(c03SchemaNone, []InputItem{{Kind: "tick"}, {Kind: "tick"}, {Kind: "tick"}})...)
				}
			case "e_only":
				switch in.Ins {
				case "cancel":
					stream = append(stream, InputBytes(c03SchemaNone, []InputItem{{Kind: "cancel"}})...)
				case "wrong":
					stream = append(stream, c03InputWrong()...)
				default:
					stream = append(stream, InputBytes(inSchemaX, []InputItem{{Kind: "data", Vals: []int64{1}}, {Kind: "data", Vals: []int64{2}}})...)
				}
			}
		}
		if in.Follow {
			fm := StdMeta("u_int", "next", "")
			if in.PV {
				fm = append(fm, [2]string{vgirpc.MetaProtocolVersion, "2.10.3"})
			}
			stream = append(stream, ReqBytes(PIntBatch(c03FollowX), fm)...)
		}
		outBytes, esc := RunPipe(s, stream)
		outcome = c03Outcome(outBytes, true)
		if esc != nil {
			outcome = "escaped"
			obsMap["panic"] = fmt.Sprint(esc)
		}
		next = in.Follow && c03FollowServed(outBytes)
	} else {
		if hs == nil {
			hs = c03Http(&in, c03Key)
		}
		hdr := map[string]string{"Content-Type": "application/vnd.apache.arrow.stream"}
		if in.CT != "" {
			hdr["Content-Type"] = in.CT
		}
		send := body
		switch in.Enc {
		case "br":
			hdr["Content-Encoding"] = "br"
		case "zstd":
			hdr["Content-Encoding"] = "zstd"
			send = []byte{0x28, 0xb5, 0x2f, 0xfd, 0x00, 0x58, 0xff, 0xff, 0x01, 0x02, 0x03}
		case "gzip":
			hdr["Content-Encoding"] = "gzip"
			send = []byte{0x1f, 0x8b, 0x08, 0x00, 0xde, 0xad, 0xbe, 0xef, 0x00, 0x03, 0xff, 0xff, 0xff}
		}
		path := map[string]string{"http_unary": "/" + in.Path, "http_init": "/" + in.Path + "/init", "http_exchange": "/" + in.Path + "/exchange",
			"http_upload": "/__upload_url__/init", "http_introspect": "/__introspect_token__"}[in.Route]
		st, eh, rb, esc, wrote, rwCT := c03DoHTTP(hs, path, send, hdr)
		status, errHdr = st, eh
		// only an Arrow body is parsed: the first four bytes of a JSON / text body
		// would be read as a ~2 GB IPC message length by the harness's own reader
		outcome = "close"
		if rwCT == "application/vnd.apache.arrow.stream" {
			outcome = c03Outcome(rb, false)
		}
		if esc != nil {
			outcome, status = "escaped", 0
			obsMap["panic"] = fmt.Sprint(esc)
		} else if !wrote {
			status = 0
			tags = append(tags, "no-status")
		}
	}
	tags = append(tags, "out:"+strings.SplitN(outcome, ":", 2)[0])
	if status != 0 {
		tags = append(tags, fmt.Sprintf("status:%d", status))
	}
	obsMap["outcome"], obsMap["status"], obsMap["err_header"], obsMap["next_served"] = outcome, status, errHdr, next
	coqObs := App("C03.Build_obs", c03CoqOutcome(outcome), N(uint64(status)), Bool(errHdr), Bool(next))
	return CaseOut{Coq: Pair(c03CoqInput(&in, abs, tok, call), coqObs), Tags: tags,
		Nontrivial: abs.K == "batch" || in.Raw != "", Obs: obsMap}
}

func c03InputWrong() []byte {
	var b bytes.Buffer
	w := ipc.NewWriter(&b, ipc.WithSchema(c03SchemaXs))
	rec := c03Batch(&c03Cols{K: "xs"}, 1)
	w.Write(rec)
	rec.Release()
	w.Close()
	return b.Bytes()
}

// ---------------------------------------------------------------- generators

var c03Methods = []string{"u_int", "u_ser", "p_only", "p_ser", "e_only", "dyn"}

func c03Pick[T any](r *rand.Rand, xs []T) T { return xs[r.Intn(len(xs))] }

func c03GenPayload(r *rand.Rand, depth int, want string) *c03Payload {
	switch r.Intn(8) {
	case 0:
		return &c03Payload{K: "null"}
	case 1:
		return &c03Payload{K: "empty"}
	case 2:
		return &c03Payload{K: "garbage"}
	case 3:
		c := c03GenCols(r, depth-1, want)
		return &c03Payload{K: "nobatch", Cols: &c}
	}
	c := c03GenCols(r, depth-1, want)
	return &c03Payload{K: "batch", Rows: c03Pick(r, []int{0, 1, 1, 1, 2}), Cols: &c}
}

// c03GenCols picks a schema class; want biases towards the class that the
// surrounding context expects ("x", "p", "a").
func c03GenCols(r *rand.Rand, depth int, want string) c03Cols {
	k := want
	if r.Intn(3) == 0 || want == "" {
		k = c03Pick(r, []string{"none", "x", "x32", "xs", "p", "req", "a", "as", "other", "count"})
	}
	if depth <= 0 && (k == "p" || k == "req") {
		k = "x"
	}
	switch k {
	case "p":
		return c03Cols{K: "p", P: c03GenPayload(r, depth, c03Pick(r, []string{"a", "a", "as"}))}
	case "req":
		return c03Cols{K: "req", P: c03GenPayload(r, depth, c03Pick(r, []string{"x", "p", "req"}))}
	}
	return c03Cols{K: k}
}

func c03WantFor(method string) string {
	if method == "u_ser" || method == "p_ser" {
		return "p"
	}
	return "x"
}

var c03Garble = []string{"", "0", "2", "1 ", "true", "\xff\xfe", "x\x00y", "99999999999999999999", "-1", "../../etc/passwd", "AAAA", "vgi"}

// c03MutMeta applies up to k mutations to a metadata list.
func c03MutMeta(r *rand.Rand, meta [][2]string, k int) [][2]string {
	keys := []string{vgirpc.MetaMethod, vgirpc.MetaRequestVersion, vgirpc.MetaRequestID, vgirpc.MetaLogLevel, vgirpc.MetaLocation,
		vgirpc.MetaShmOffset, vgirpc.MetaShmLength, vgirpc.MetaShmSegmentName, vgirpc.MetaShmSegmentSize,
		vgirpc.MetaStreamState, vgirpc.MetaCallState, vgirpc.MetaCancel, vgirpc.MetaProtocolVersion}
	out := append([][2]string(nil), meta...)
	for ; k > 0; k-- {
		switch r.Intn(6) {
		case 0: // drop
			if len(out) > 0 {
				i := r.Intn(len(out))
				out = append(out[:i:i], out[i+1:]...)
			}
		case 1: // duplicate a present key with another value, before or after
			if len(out) > 0 {
				i := r.Intn(len(out))
				d := [2]string{out[i][0], c03Pick(r, append(c03Garble, c03Methods...))}
				if r.Intn(2) == 0 {
					out = append([][2]string{d}, out...)
				} else {
					out = append(out, d)
				}
			}
		case 2: // garble a value
			if len(out) > 0 {
				out[r.Intn(len(out))][1] = c03Pick(r, c03Garble)
			}
		default: // add a framework key
			key := c03Pick(r, keys)
			val := c03Pick(r, c03Garble)
			switch key {
			case vgirpc.MetaLocation:
				val = c03Pick(r, []string{"https://x.invalid/b", "file:///etc/passwd", ""})
			case vgirpc.MetaShmOffset, vgirpc.MetaShmLength:
				val = c03Pick(r, []string{"0", "4096", "-5", "18446744073709551615", "abc"})
			case vgirpc.MetaShmSegmentName:
				val = c03Pick(r, []string{"/vgi-c03-nosuch", "", "../x"})
			case vgirpc.MetaShmSegmentSize:
				val = c03Pick(r, []string{"65536", "0", "abc", "-1"})
			case vgirpc.MetaProtocolVersion:
				val = c03Pick(r, []string{"2.10.3", "2.10.99", "2.9.0", "3.0.0", "02.10.3", "garbage", "", "1..0", "2..", c03GenVersion(r)})
			case vgirpc.MetaMethod:
				val = c03Pick(r, append([]string{"nosuch", "__describe__", "__transport_options__", "\xff"}, c03Methods...))
			case vgirpc.MetaRequestVersion:
				val = c03Pick(r, []string{"1", "2", ""})
			}
			kv := [2]string{key, val}
			if r.Intn(2) == 0 {
				out = append(out, kv)
			} else {
				out = append([][2]string{kv}, out...)
			}
		}
	}
	return out
}

func c03BaseMeta(r *rand.Rand, method string, pv bool) [][2]string {
	m := StdMeta(method, c03Pick(r, []string{"", "rid"}), c03Pick(r, []string{"", "", "INFO", "bogus"}))
	if pv && r.Intn(5) != 0 {
		v := c03Pick(r, []string{"2.10.3", "2.10.3", "2.10.0", "2.9.9", "x"})
		if r.Intn(2) == 0 {
			v = c03GenVersion(r)
		}
		m = append(m, [2]string{vgirpc.MetaProtocolVersion, v})
	}
	return m
}

func c03GenRequest(r *rand.Rand, route string) c03In {
	in := c03In{Route: route, PV: r.Intn(3) == 0}
	method := c03Pick(r, append([]string{"nosuch", "__describe__", "__transport_options__"}, append(c03Methods, c03Methods...)...))
	in.Path = method
	if route != "pipe" && r.Intn(6) == 0 { // route names another method than the metadata
		in.Path = c03Pick(r, append([]string{"nosuch", "__describe__"}, c03Methods...))
	}
	in.Meta = c03BaseMeta(r, method, in.PV)
	in.Cols = c03GenCols(r, 3, c03WantFor(method))
	in.Rows = c03Pick(r, []int{1, 1, 1, 1, 0, 2})
	switch r.Intn(10) {
	case 0, 1, 2:
		in.Meta = c03MutMeta(r, in.Meta, 1)
	case 3, 4:
		in.Meta = c03MutMeta(r, in.Meta, 1+r.Intn(3))
	case 5: // pointer shapes: zero rows with a pointer key
		in.Rows = 0
		in.Meta = append(in.Meta, c03Pick(r, [][2]string{{vgirpc.MetaLocation, "https://x.invalid/b"}, {vgirpc.MetaShmOffset, "4096"}}))
		if r.Intn(2) == 0 {
			in.Meta = append(in.Meta, [2]string{vgirpc.MetaShmLength, "64"})
		}
	}
	in.NoBatch = r.Intn(40) == 0
	if route == "pipe" {
		in.Follow = r.Intn(8) != 0
		in.Ins = c03Pick(r, []string{"valid", "valid", "cancel", "wrong"})
	} else {
		if r.Intn(15) == 0 {
			in.CT = c03Pick(r, []string{"application/json", "text/plain", "application/vnd.apache.arrow.stream; charset=utf-8"})
		}
		if r.Intn(15) == 0 {
			in.Enc = c03Pick(r, []string{"br", "zstd", "gzip"})
		}
	}
	return in
}

func c03GenExchange(r *rand.Rand) c03In {
	in := c03In{Route: "http_exchange", PV: r.Intn(6) == 0}
	in.Path = c03Pick(r, []string{"p_only", "e_only", "dyn", "p_only", "e_only", "dyn", "p_ser", "u_int", "nosuch"})
	in.Tok = c03Pick(r, []string{"own", "own", "own", "other:p_only", "other:e_only", "other:dyn", "expired", "other_key", "tampered", "badver", "short"})
	if in.Tok == "other:"+in.Path {
		in.Tok = "own"
	}
	if in.Path == "u_int" || in.Path == "nosuch" {
		if in.Tok == "own" {
			in.Tok = "other:p_only"
		}
	}
	in.CallTok = c03Pick(r, []string{"valid", "valid", "valid", "absent", "garbage", "other_call"})
	in.CacheHit = r.Intn(2) == 0
	in.Cols = c03GenCols(r, 1, "x")
	if in.Path != "e_only" && r.Intn(2) == 0 {
		in.Cols = c03Cols{K: "none"}
	}
	in.Rows = c03Pick(r, []int{1, 1, 0, 2})
	if in.Cols.K == "none" {
		in.Rows = 0
	}
	switch r.Intn(8) {
	case 0:
		in.Meta = [][2]string{{vgirpc.MetaCallState, c03CallMarker}} // no cursor at all
	case 1:
		in.Meta = [][2]string{{vgirpc.MetaStreamState, c03Pick(r, c03Garble)}, {vgirpc.MetaCallState, c03CallMarker}}
	case 2:
		in.Meta = [][2]string{{vgirpc.MetaStreamState, c03Pick(r, c03Garble)}, {vgirpc.MetaStreamState, c03TokMarker}, {vgirpc.MetaCallState, c03CallMarker}}
	default:
		in.Meta = [][2]string{{vgirpc.MetaStreamState, c03TokMarker}}
		if in.CallTok != "absent" {
			in.Meta = append(in.Meta, [2]string{vgirpc.MetaCallState, c03CallMarker})
		}
	}
	if r.Intn(6) == 0 {
		in.Meta = append(in.Meta, [2]string{vgirpc.MetaCancel, c03Pick(r, []string{"true", "", "false"})})
	}
	if r.Intn(6) == 0 {
		in.Meta = c03MutMeta(r, in.Meta, 1)
	}
	in.NoBatch = r.Intn(30) == 0
	if r.Intn(20) == 0 {
		in.CT = "application/json"
	}
	if r.Intn(20) == 0 {
		in.Enc = c03Pick(r, []string{"br", "zstd", "gzip"})
	}
	return in
}

// c03GenRaw derives raw bytes from a valid body. The first 8 bytes (the IPC
// continuation marker and the 32-bit metadata length) are kept small: a body
// whose length prefix decodes as ~2^31 makes arrow-go allocate that much
// before it notices the stream is short (reported as an observation).
func c03GenRaw(r *rand.Rand, route string) c03In {
	for {
		in := c03GenRaw1(r, route)
		if in.Raw == "" {
			return in
		}
		raw, _ := hex.DecodeString(in.Raw)
		if cheap, alloc, dt := c03DecodeCheap(raw); cheap {
			return in
		} else {
			c03SlowDecodes++
			fmt.Fprintf(os.Stderr, "c03: raw candidate dropped (decode allocated %d MB in %v, or the decoding process died): mut=%s len=%d\n", alloc>>20, dt.Round(time.Millisecond), in.Mut, len(raw))
		}
	}
}

var c03SlowDecodes int

// c03DecodeCheap decodes raw once with arrow-go IN A CHILD PROCESS and reports
// whether that stayed under 32 MB of allocation (and the child survived). Candidates that do not are NOT sent to
// the server in the correspondence run (they would dominate its wall time); they
// are printed to stderr and reported as an observation (C18-adjacent: a few
// hundred client bytes can cost seconds of CPU / GBs of transient allocation in
// arrow-go's IPC reader before it returns an error).
func c03DecodeCheap(raw []byte) (bool, uint64, time.Duration) {
	t0 := time.Now()
	stdout, stderr, err := c03Child("screen", []byte(hex.EncodeToString(raw)), 30*time.Second)
	if err != nil {
		if strings.Contains(stderr, "out of memory") {
			c03Crashers++
			fmt.Fprintf(os.Stderr, "c03: DECODER KILLED THE PROCESS (fatal error: runtime: out of memory) on a %d-byte body: hex=%s\n", len(raw), hex.EncodeToString(raw))
		}
		return false, 0, time.Since(t0)
	}
	var alloc uint64
	fmt.Sscan(string(stdout), &alloc)
	return alloc < 32<<20, alloc, time.Since(t0)
}

var c03Crashers int

func c03GenRaw1(r *rand.Rand, route string) c03In {
	in := c03In{Route: route, Path: "u_int"}
	meta := StdMeta("u_int", "rid", "")
	if route == "http_init" {
		in.Path = "p_only"
		meta = StdMeta("p_only", "rid", "")
	}
	if route == "http_exchange" {
		in.Path = "e_only"
		in.Tok, in.CallTok = "short", "absent"
		meta = [][2]string{{vgirpc.MetaStreamState, "AAAA"}}
	}
	valid := c03WriteBody(meta, 1, &c03Cols{K: "x"}, false)
	var raw []byte
	switch r.Intn(6) {
	case 0:
		in.Mut = "truncate"
		raw = append([]byte(nil), valid[:r.Intn(len(valid))]...)
	case 1, 2:
		in.Mut = "bitflip"
		raw = append([]byte(nil), valid...)
		for k := 1 + r.Intn(3); k > 0; k-- {
			i := 8 + r.Intn(len(raw)-8)
			raw[i] ^= 1 << uint(r.Intn(8))
		}
	case 3:
		in.Mut = "random"
		raw = []byte{0xFF, 0xFF, 0xFF, 0xFF, byte(8 * (1 + r.Intn(16))), 0, 0, 0}
		tail := make([]byte, 16+r.Intn(200))
		r.Read(tail)
		raw = append(raw, tail...)
	case 4:
		in.Mut = "byteset"
		raw = append([]byte(nil), valid...)
		i := 8 + r.Intn(len(raw)-8)
		raw[i] = byte(r.Intn(256))
	default:
		in.Mut = "splice"
		raw = append([]byte(nil), valid...)
		i := 8 + r.Intn(len(raw)-8)
		j := 8 + r.Intn(len(raw)-8)
		raw = append(raw[:i:i], raw[j:]...)
	}
	if len(raw) == 0 {
		in.Mut = "empty"
		raw = []byte{}
		in.Tag = "empty-body"
		in.NoBatch = false
		in.Raw = ""
		in.Meta, in.Rows, in.Cols = nil, 0, c03Cols{K: "none"}
		in.NoBatch = true
		return in
	}
	in.Raw = hex.EncodeToString(raw)
	return in
}

// ---- protocol-version strings --------------------------------------------------
// checkProtocolVersion parses the client's vgi_rpc.protocol_version OUTSIDE every
// recover (serveOne, handleUnary, handleStreamInit), so the value itself is an
// attack surface: empty components, lone dots, missing / extra components,
// leading zeros, suffixes, whitespace, non-ASCII digits, raw bytes, long runs.

// c03CoreBadVersions go to every gated route x method class; the rest rotate.
var c03CoreBadVersions = []string{"1..0", "0..0", "12..x", "..", ".", "", "2.10.", "\xff..\xfe"}

var c03MoreBadVersions = []string{"2..3", "...", "2.10", ".10.3", "2..", "..3", "2.10.3.", "2.10..3", "1...0", "2", "2.10.3.4",
	"2.10.3\n", " 2.10.3", "2.10.3-rc1", "+2.10.3", "2.10.03", "02.10.3", "\xef\xbc\x92.10.3", "2.\xd9\xa1\xd9\xa0.3", "2.10.\x00", "x..y", "-1..0",
	"2." + strings.Repeat("9", 300) + ".3", strings.Repeat("7", 120) + ".." + strings.Repeat("1", 120), strings.Repeat(".", 64), "2.10." + strings.Repeat("0", 2000)}

// c03GenVersion composes a version-like string from components (some empty).
func c03GenVersion(r *rand.Rand) string {
	switch r.Intn(10) {
	case 0, 1:
		return c03Pick(r, []string{"2.10.3", "2.10.0", "2.10.77", "2.9.9", "3.0.0"})
	case 2:
		return c03Pick(r, c03CoreBadVersions)
	case 3:
		return c03Pick(r, c03MoreBadVersions[:len(c03MoreBadVersions)-1])
	}
	parts := []string{"", "", "0", "2", "10", "3", "x", "01", "\xef\xbc\x92", "-", " ", "\xff", strings.Repeat("4", 1+r.Intn(40))}
	n := 1 + r.Intn(5)
	if r.Intn(2) == 0 {
		n = 3
	}
	var ps []string
	for i := 0; i < n; i++ {
		ps = append(ps, c03Pick(r, parts))
	}
	return strings.Join(ps, ".")
}

type c03GatedCall struct{ route, method string }

// every place the gate runs: pipe unary / producer / exchange / dynamic, HTTP unary, HTTP init
var c03GatedCalls = []c03GatedCall{{"pipe", "u_int"}, {"pipe", "p_only"}, {"pipe", "e_only"}, {"http_unary", "u_int"},
	{"http_init", "p_only"}, {"http_init", "dyn"}, {"pipe", "dyn"}, {"http_unary", "u_ser"}, {"http_init", "e_only"}, {"http_init", "p_ser"}, {"pipe", "p_ser"}, {"pipe", "u_ser"}}

func c03VersionBoundary() []c03In {
	var out []c03In
	mk := func(c c03GatedCall, vers []string, tag string) c03In {
		meta := StdMeta(c.method, "rid", "")
		for _, v := range vers {
			meta = append(meta, [2]string{vgirpc.MetaProtocolVersion, v})
		}
		cols := c03Cols{K: "x"}
		if c.method == "u_ser" || c.method == "p_ser" {
			cols = c03Cols{K: "p", P: &c03Payload{K: "batch", Rows: 1, Cols: &c03Cols{K: "a"}}}
		}
		return c03In{Route: c.route, PV: true, Path: c.method, Meta: meta, Rows: 1, Cols: cols, Follow: c.route == "pipe", Ins: "valid", Tag: tag}
	}
	for _, c := range c03GatedCalls[:6] {
		for _, v := range c03CoreBadVersions {
			out = append(out, mk(c, []string{v}, "pv-malformed"))
		}
	}
	for i, v := range c03MoreBadVersions {
		out = append(out, mk(c03GatedCalls[i%len(c03GatedCalls)], []string{v}, "pv-malformed"))
	}
	// duplicate keys: ReadRequest's map keeps the LAST value; and a malformed value on a server
	// that declares no version / on the ungated __describe__ is never parsed
	for _, c := range c03GatedCalls[:6] {
		out = append(out, mk(c, []string{"1..0", "2.10.3"}, "pv-duplicate"), mk(c, []string{"2.10.3", "1..0"}, "pv-duplicate"))
	}
	for _, c := range c03GatedCalls[:4] {
		in := mk(c, []string{"1..0"}, "pv-ungated")
		in.PV = false
		out = append(out, in)
	}
	d := mk(c03GatedCall{"pipe", "__describe__"}, []string{"1..0"}, "pv-ungated")
	out = append(out, d)
	d2 := mk(c03GatedCall{"http_unary", "__describe__"}, []string{"0..0"}, "pv-ungated")
	out = append(out, d2)
	return out
}

func c03Boundary() []c03In {
	out := c03VersionBoundary()
	std := func(m string) [][2]string { return StdMeta(m, "rid", "") }
	x := c03Cols{K: "x"}
	loc := [2]string{vgirpc.MetaLocation, "https://x.invalid/b"}
	serBad := c03Cols{K: "p", P: &c03Payload{K: "batch", Rows: 1, Cols: &c03Cols{K: "as"}}}
	serEmpty := c03Cols{K: "p", P: &c03Payload{K: "batch", Rows: 0, Cols: &c03Cols{K: "a"}}}
	serOK := c03Cols{K: "p", P: &c03Payload{K: "batch", Rows: 1, Cols: &c03Cols{K: "a"}}}
	wrapOK := c03Cols{K: "req", P: &c03Payload{K: "batch", Rows: 1, Cols: &x}}
	wrapZero := c03Cols{K: "req", P: &c03Payload{K: "batch", Rows: 0, Cols: &x}}
	wrapSerBad := c03Cols{K: "req", P: &c03Payload{K: "batch", Rows: 1, Cols: &serBad}}
	for _, rt := range []string{"pipe", "http_unary", "http_init"} {
		um, sm := "u_int", "u_ser"
		if rt == "http_init" {
			um, sm = "p_only", "p_ser"
		}
		for _, m := range []string{um, sm} {
			cols := map[string][]c03Cols{um: {x, wrapOK, wrapZero}, sm: {serOK, serBad, serEmpty, wrapSerBad}}[m]
			for _, c := range cols {
				out = append(out, c03In{Route: rt, Path: m, Meta: std(m), Rows: 1, Cols: c, Follow: rt == "pipe", Tag: "boundary"})
			}
			// the pre-fix escape: a zero-row batch let through by the location exemption
			out = append(out, c03In{Route: rt, Path: m, Meta: append(std(m), loc), Rows: 0, Cols: map[string]c03Cols{um: x, sm: serOK}[m], Follow: rt == "pipe", Tag: "legacy-zero-row-location"})
		}
	}
	for _, m := range []string{"p_only", "p_ser"} { // the stream callers on the pipe
		c := map[string]c03Cols{"p_only": x, "p_ser": serBad}[m]
		out = append(out, c03In{Route: "pipe", Meta: std(m), Rows: 1, Cols: c, Follow: true, Tag: "boundary"})
		out = append(out, c03In{Route: "pipe", Meta: append(std(m), loc), Rows: 0, Cols: c, Follow: true, Tag: "legacy-zero-row-location"})
	}
	tm := [][2]string{{vgirpc.MetaStreamState, c03TokMarker}, {vgirpc.MetaCallState, c03CallMarker}}
	for _, hit := range []bool{true, false} {
		out = append(out,
			c03In{Route: "http_exchange", Path: "e_only", Meta: tm, Rows: 1, Cols: x, Tok: "other:p_only", CallTok: "valid", CacheHit: hit, Tag: "legacy-cross-method-token"},
			c03In{Route: "http_exchange", Path: "p_only", Meta: tm, Rows: 1, Cols: x, Tok: "other:e_only", CallTok: "valid", CacheHit: hit, Tag: "legacy-cross-method-token"},
			c03In{Route: "http_exchange", Path: "e_only", Meta: tm, Rows: 1, Cols: x, Tok: "own", CallTok: "valid", CacheHit: hit, Tag: "boundary"},
			c03In{Route: "http_exchange", Path: "p_only", Meta: tm, Rows: 0, Cols: c03Cols{K: "none"}, Tok: "own", CallTok: "valid", CacheHit: hit, Tag: "boundary"},
			c03In{Route: "http_exchange", Path: "dyn", Meta: tm, Rows: 0, Cols: c03Cols{K: "none"}, Tok: "own", CallTok: "valid", CacheHit: hit, Tag: "boundary"},
			c03In{Route: "http_exchange", Path: "dyn", Meta: tm, Rows: 1, Cols: x, Tok: "other:e_only", CallTok: "valid", CacheHit: hit, Tag: "legacy-cross-method-token"})
	}
	// sealed-token envelopes cut to every length (in whole base64 quanta, so the text stays canonical) around the
	// version byte / nonce / tag boundaries: each must be answered 400, none may reach a slice expression unguarded
	for n := 4; n <= 72; n += 4 {
		out = append(out,
			c03In{Route: "http_exchange", Path: "e_only", Meta: tm, Rows: 1, Cols: x, Tok: fmt.Sprintf("short:%d", n), CallTok: "valid", CacheHit: true, Tag: "boundary-token-length"},
			c03In{Route: "http_exchange", Path: "e_only", Meta: tm, Rows: 1, Cols: x, Tok: "own", CallTok: fmt.Sprintf("short:%d", n), CacheHit: false, Tag: "boundary-calltoken-length"})
	}
	for _, rt := range []string{"pipe", "http_unary", "http_init", "http_exchange", "http_upload"} {
		m := map[string]string{"pipe": "u_int", "http_unary": "u_int", "http_init": "p_only", "http_exchange": "e_only", "http_upload": "__upload_url__"}[rt]
		out = append(out, c03In{Route: rt, Path: m, Upload: true, Meta: std(m), Cols: x, NoBatch: true, Follow: rt == "pipe", Tok: "short", Tag: "boundary-nobatch"})
	}
	for _, up := range []bool{false, true} {
		out = append(out, c03In{Route: "http_upload", Upload: up, Meta: std("__upload_url__"), Rows: 1, Cols: c03Cols{K: "count"}, Tag: "boundary"})
		out = append(out, c03In{Route: "http_upload", Upload: up, Meta: append(std("__upload_url__"), loc), Rows: 0, Cols: c03Cols{K: "count"}, Tag: "boundary"})
		out = append(out, c03In{Route: "http_introspect", Introspect: up, Meta: std("x"), Rows: 1, Cols: x, Tag: "boundary"})
	}
	return out
}

func c03Gen(r *rand.Rand, n int, tier string) []c03In {
	out := c03Boundary()
	for len(out) < n {
		switch k := r.Intn(20); {
		case k < 6:
			out = append(out, c03GenRequest(r, "pipe"))
		case k < 9:
			out = append(out, c03GenRequest(r, "http_unary"))
		case k < 12:
			out = append(out, c03GenRequest(r, "http_init"))
		case k < 15:
			out = append(out, c03GenExchange(r))
		case k < 16:
			in := c03GenRequest(r, "http_upload")
			in.Upload = r.Intn(4) != 0
			if r.Intn(2) == 0 {
				in.Meta = c03MutMeta(r, StdMeta("__upload_url__", "", ""), r.Intn(2))
				in.Cols = c03Cols{K: "count"}
			}
			out = append(out, in)
		case k < 17:
			in := c03GenRequest(r, "http_introspect")
			in.Introspect = r.Intn(2) == 0
			out = append(out, in)
		default:
			out = append(out, c03GenRaw(r, c03Pick(r, []string{"pipe", "pipe", "http_unary", "http_init", "http_exchange"})))
		}
	}
	return out
}

func init() {
	Register("C03", "boundary shapes first (zero-row + location, ArrowSerializable inner mismatch / empty inner batch, wrapped request, cross-method tokens on every caller of deserializeParams and on the exchange route), then grammar-based mutation of valid requests (metadata keys dropped / duplicated / garbled / added, rows 0/1/2, nine schema classes with nested IPC payloads to depth 3, pointer keys, seven token classes x call-token classes x cache hit/miss, content type / encoding) on the pipe and the unary / init / exchange / describe / upload-url / introspect HTTP routes, then a raw byte stream (truncation, bit flips, byte set, splice, random) — the Coq input is abstracted from the bytes actually sent; non-trivial = the body decodes to a batch, or it is a raw-bytes case; distinct = distinct input JSON",
		c03Gen, c03Run)
}
