package main

import (
	"fmt"
	"math/rand"
	"net/http"
	"net/url"
	"sort"
	"strings"

	"github.com/Query-farm/vgi-rpc-go/vgirpc"
)

// C24 — credential extractors: BearerAuthenticateStatic and the XFCC parser /
// default XFCC identity. All byte strings travel as []byte (base64 in JSON) so
// that arbitrary bytes survive the JSON round trip.

type c24Tok struct {
	Tok []byte  `json:"tok,omitempty"`
	Who []byte  `json:"who"`
	Pat *c24Pat `json:"pat,omitempty"` // when set, the token is Pat.bytes() (Tok is ignored)
}

// c24Pat spells a long token compactly: the Len-byte pattern of seed Seed
// (byte i = 33 + (Seed + 7i + i/64) mod 90, the same function as C24.pat in
// the Coq model) with the bytes at the positions in Set replaced. The Coq term
// is built from C24.pat / C24.setb, so the model sees the FULL token.
type c24Pat struct {
	Len  int      `json:"len"`
	Seed int      `json:"seed"`
	Set  [][2]int `json:"set,omitempty"` // (position, byte), applied in order
}

// c24PHdr is one Authorization value Prefix ++ Pat.bytes().
type c24PHdr struct {
	Prefix string `json:"prefix"`
	Pat    c24Pat `json:"pat"`
}

func (p c24Pat) bytes() []byte {
	b := make([]byte, p.Len)
	for i := range b {
		b[i] = byte(33 + (p.Seed+7*i+i/64)%90)
	}
	for _, s := range p.Set {
		if s[0] >= 0 && s[0] < len(b) {
			b[s[0]] = byte(s[1])
		}
	}
	return b
}

func (p c24Pat) coq() string {
	t := App("C24.pat", Nat(p.Len), N(uint64(p.Seed)))
	for _, s := range p.Set {
		if s[0] >= 0 { // C24.setb beyond the end is the identity, like bytes()
			t = App("C24.setb", Nat(s[0]), N(uint64(byte(s[1]))), t)
		}
	}
	return t
}

// other returns a byte different from the pattern byte at position i (still printable).
func (p c24Pat) other(i int) int {
	c := int(p.bytes()[i])
	if c == 'x' {
		return 'y'
	}
	return 'x'
}

type c24Field struct {
	WS1    string `json:"ws1,omitempty"`
	Key    string `json:"key"`
	WS2    string `json:"ws2,omitempty"`
	WS3    string `json:"ws3,omitempty"`
	Quoted bool   `json:"quoted"`
	Val    []byte `json:"val"`
	WS4    string `json:"ws4,omitempty"`
}
type c24Item struct {
	Esc bool `json:"esc"`
	C   byte `json:"c"`
}
type c24RDN struct {
	Pad   string    `json:"pad,omitempty"`
	Attr  string    `json:"attr"`
	Items []c24Item `json:"items"`
}
type c24In struct {
	Kind string       `json:"kind"` // bearer | xfcc | xast | cn | cnast | qun
	Toks []c24Tok     `json:"toks,omitempty"`
	Hdrs [][]byte     `json:"hdrs,omitempty"`
	PHdr []c24PHdr    `json:"phdr,omitempty"` // bearer only: used instead of Hdrs when present
	Sel  string       `json:"sel,omitempty"`
	Ast  [][]c24Field `json:"ast,omitempty"`
	DN   []c24RDN     `json:"dn,omitempty"`
	S    []byte       `json:"s,omitempty"`
	Note string       `json:"note,omitempty"`
}

// ---- Go-side renderers of the syntax trees (independent of the Coq ones; the
// rendered text is an observable, so the two renderers are compared too) -----

func c24IsURLKey(k string) bool {
	switch strings.ToLower(k) {
	case "cert", "uri", "by":
		return true
	}
	return false
}

func c24RenderField(f c24Field) string {
	wire := string(f.Val)
	if c24IsURLKey(f.Key) {
		wire = url.QueryEscape(wire)
	}
	if f.Quoted {
		var b strings.Builder
		b.WriteByte('"')
		for i := 0; i < len(wire); i++ {
			if wire[i] == '"' || wire[i] == '\\' {
				b.WriteByte('\\')
			}
			b.WriteByte(wire[i])
		}
		b.WriteByte('"')
		wire = b.String()
	}
	return f.WS1 + f.Key + f.WS2 + "=" + f.WS3 + wire + f.WS4
}

func c24RenderHeader(ast [][]c24Field) string {
	es := make([]string, len(ast))
	for i, fs := range ast {
		ps := make([]string, len(fs))
		for j, f := range fs {
			ps[j] = c24RenderField(f)
		}
		es[i] = strings.Join(ps, ";")
	}
	return strings.Join(es, ",")
}

func c24RenderDN(dn []c24RDN) string {
	ps := make([]string, len(dn))
	for i, r := range dn {
		var b strings.Builder
		b.WriteString(r.Pad + r.Attr + "=")
		for _, it := range r.Items {
			if it.Esc {
				b.WriteByte('\\')
			}
			b.WriteByte(it.C)
		}
		ps[i] = b.String()
	}
	return strings.Join(ps, ",")
}

// ---- generators -------------------------------------------------------------

func c24Pick(r *rand.Rand, xs []string) string { return xs[r.Intn(len(xs))] }

func c24Bytes(r *rand.Rand, alphabet string, max int) []byte {
	n := r.Intn(max + 1)
	b := make([]byte, n)
	for i := range b {
		b[i] = alphabet[r.Intn(len(alphabet))]
	}
	return b
}

func c24Pad(r *rand.Rand) string {
	switch r.Intn(8) {
	case 0:
		return " "
	case 1:
		return c24Pick(r, []string{"\t", "  ", " \t", "\r\n ", "\v", "\f"})
	}
	return ""
}

func c24GenDN(r *rand.Rand, clean bool) []c24RDN {
	n := r.Intn(5)
	dn := make([]c24RDN, 0, n)
	for i := 0; i < n; i++ {
		rd := c24RDN{Attr: c24Pick(r, []string{"CN", "cn", "Cn", "cN", "O", "OU", "C", "CNX", "N", "2.5.4.3", "DC", "CN", "cn"})}
		if i > 0 && r.Intn(2) == 0 {
			rd.Pad = c24Pick(r, []string{" ", " ", "  ", "\t"})
		}
		m := 1 + r.Intn(6)
		if !clean && r.Intn(6) == 0 {
			m = 0
		}
		for j := 0; j < m; j++ {
			if r.Intn(5) == 0 {
				c := []byte(",\\\"+ =a;")[r.Intn(8)]
				if !clean && r.Intn(6) == 0 {
					c = '\n'
				}
				rd.Items = append(rd.Items, c24Item{Esc: true, C: c})
			} else {
				al := "abcXYZ019 .-=+;\"\xc3\xa9"
				if !clean {
					al += ",\\\n"
				}
				rd.Items = append(rd.Items, c24Item{C: al[r.Intn(len(al))]})
			}
		}
		if clean && len(rd.Items) > 0 {
			if rd.Items[0].C == ' ' && !rd.Items[0].Esc {
				rd.Items[0].C = 'q'
			}
			if l := len(rd.Items) - 1; rd.Items[l].C == ' ' {
				rd.Items[l].C = 'z'
			}
		}
		dn = append(dn, rd)
	}
	return dn
}

var c24Keys = []string{"Hash", "Cert", "Subject", "URI", "DNS", "By", "hash", "subject", "uri", "dns", "by", "cert",
	"HASH", "sUbJeCt", "Uri", "DNS", "BY", "Chain", "x", "Hashh", "ur", "subject2", "k-1"}

const c24ValAlphabet = "abcXYZ09 ,;\"\\=%+/:.-_~@\n\t\xc3\xa9\xff"

func c24GenField(r *rand.Rand, clean bool) c24Field {
	f := c24Field{Key: c24Pick(r, c24Keys), Quoted: r.Intn(5) < 3,
		WS1: c24Pad(r), WS2: c24Pad(r), WS3: c24Pad(r), WS4: c24Pad(r)}
	lk := strings.ToLower(f.Key)
	switch {
	case lk == "subject" && r.Intn(4) != 0:
		f.Val = []byte(c24RenderDN(c24GenDN(r, true)))
		f.Quoted = f.Quoted || strings.ContainsAny(string(f.Val), ",;\"")
	case lk == "uri" && r.Intn(2) == 0:
		f.Val = []byte(c24Pick(r, []string{"spiffe://cluster.local/ns/default/sa/client", "spiffe://td/a b", "https://h/p?q=1&r=a+b", "urn:x:100%"}))
	default:
		f.Val = c24Bytes(r, c24ValAlphabet, 10)
	}
	if !f.Quoted && !c24IsURLKey(f.Key) && clean {
		// make the bare value legal: no , ; " and no blank at either end
		v := strings.Map(func(c rune) rune {
			if c == ',' || c == ';' || c == '"' {
				return 'q'
			}
			return c
		}, string(f.Val))
		if strings.ContainsAny(string(f.Val), "\xc3\xa9\xff") { // strings.Map would mangle invalid UTF-8
			b := []byte(f.Val)
			for i := range b {
				if b[i] == ',' || b[i] == ';' || b[i] == '"' {
					b[i] = 'q'
				}
			}
			v = string(b)
		}
		v = strings.Trim(v, " \t\n\v\f\r")
		f.Val = []byte(v)
	}
	return f
}

func c24GenAst(r *rand.Rand, clean bool) [][]c24Field {
	ne := r.Intn(4)
	ast := make([][]c24Field, 0, ne)
	for i := 0; i < ne; i++ {
		nf := 1 + r.Intn(5)
		if r.Intn(12) == 0 {
			nf = 0
		}
		fs := make([]c24Field, 0, nf)
		for j := 0; j < nf; j++ {
			fs = append(fs, c24GenField(r, clean))
		}
		if nf > 0 && r.Intn(5) < 3 { // most elements carry a DN-shaped Subject
			dn := c24GenDN(r, true)
			if r.Intn(3) != 0 {
				dn = append(dn, c24RDN{Attr: c24Pick(r, []string{"CN", "cn", "Cn"}), Items: []c24Item{{C: 'w'}, {Esc: r.Intn(3) == 0, C: ','}, {C: 'x'}}})
				r.Shuffle(len(dn), func(i, j int) { dn[i], dn[j] = dn[j], dn[i] })
				for i := range dn {
					if i == 0 {
						dn[i].Pad = ""
					}
				}
			}
			f := c24Field{Key: c24Pick(r, []string{"Subject", "subject", "SUBJECT"}), Quoted: true, Val: []byte(c24RenderDN(dn)), WS1: c24Pad(r), WS4: c24Pad(r)}
			fs[r.Intn(len(fs))] = f
		}
		ast = append(ast, fs)
	}
	return ast
}

func c24Noise(r *rand.Rand, frags []string, max int) []byte {
	var b strings.Builder
	for k := r.Intn(max + 1); k > 0; k-- {
		b.WriteString(frags[r.Intn(len(frags))])
	}
	return []byte(b.String())
}

var c24XfccFrags = []string{"\"", "\\", ",", ";", "=", " ", "\\\"", "\\\\", "Subject=", "subject=\"", "CN=", "cn=x", "CN=a\\,b",
	"%41", "%zz", "%", "+", "Hash=", "URI=", "By=", "DNS=", "Cert=", "abc", "x", "\n", "\t", "\xc3\xa9", "\xff", "\\\n", "\"\"", ", ", "; "}
var c24CnFrags = []string{"CN=", "cn=", "Cn=a", ",", "\\,", "\\", "\n", " ", "=", "O=x", "CN", "abc", "+", "\xc3\xa9", "\\\n", "CN= ", ", ", "C=N="}
var c24QunFrags = []string{"%", "%4", "%41", "%zz", "%2f", "%2F", "+", "a", "Z", " ", "%%", "\xff", "=", "&"}

func c24Sel(r *rand.Rand) string {
	switch r.Intn(10) {
	case 0, 1, 2:
		return "first"
	case 3, 4, 5:
		return "last"
	case 6:
		return c24Pick(r, []string{"middle", "FIRST", "Last", " last", "first "})
	}
	return ""
}

func c24Mutate(r *rand.Rand, s []byte) []byte {
	b := append([]byte(nil), s...)
	switch r.Intn(7) {
	case 0: // drop last byte
		if len(b) > 0 {
			b = b[:len(b)-1]
		}
	case 1: // append a byte
		b = append(b, "a \tZ0\x00"[r.Intn(6)])
	case 2: // flip case of one letter
		if len(b) > 0 {
			i := r.Intn(len(b))
			if b[i] >= 'a' && b[i] <= 'z' {
				b[i] -= 32
			} else if b[i] >= 'A' && b[i] <= 'Z' {
				b[i] += 32
			} else {
				b[i] ^= 1
			}
		}
	case 3: // prepend a blank
		b = append([]byte{" \t"[r.Intn(2)]}, b...)
	case 4: // change one byte
		if len(b) > 0 {
			b[r.Intn(len(b))] ^= byte(1 << uint(r.Intn(8)))
		}
	case 5: // drop first byte
		if len(b) > 0 {
			b = b[1:]
		}
	case 6: // duplicate
		b = append(b, b...)
	}
	return b
}

var c24LenClasses = []int{1, 31, 32, 33, 63, 64, 65, 127, 128, 129, 255, 256, 1000, 1029}

func c24Positions(n int) []int {
	var ps []int
	seen := map[int]bool{}
	for _, p := range []int{0, 1, 31, 32, 63, 64, 65, n - 1} {
		if p >= 0 && p < n && !seen[p] {
			seen[p] = true
			ps = append(ps, p)
		}
	}
	return ps
}

func c24With(p c24Pat, pos, b int) c24Pat {
	q := c24Pat{Len: p.Len, Seed: p.Seed, Set: append([][2]int(nil), p.Set...)}
	q.Set = append(q.Set, [2]int{pos, b})
	return q
}

// c24BearerLengths: for every length class, (1) the exact token, (2) near
// misses of the SAME length differing at exactly one position p, (3) several
// configured tokens of equal length differing from each other at one position
// (long common prefixes and suffixes), each presented in turn.
func c24BearerLengths() []c24In {
	var out []c24In
	for k, n := range c24LenClasses {
		a := c24Pat{Len: n, Seed: 3 + 11*k}
		cfg := []c24Tok{{Pat: &a, Who: []byte("alice")}}
		out = append(out, c24In{Kind: "bearer", Toks: cfg, PHdr: []c24PHdr{{"Bearer ", a}}, Note: "len-exact"})
		for _, p := range c24Positions(n) {
			out = append(out, c24In{Kind: "bearer", Toks: cfg, PHdr: []c24PHdr{{"Bearer ", c24With(a, p, a.other(p))}}, Note: "len-same-one-byte-off"})
		}
		// one byte longer / shorter (prefix relation)
		out = append(out, c24In{Kind: "bearer", Toks: cfg, PHdr: []c24PHdr{{"Bearer ", c24Pat{Len: n + 1, Seed: a.Seed}}}, Note: "len-plus-one"})
		out = append(out, c24In{Kind: "bearer", Toks: cfg, PHdr: []c24PHdr{{"Bearer ", c24Pat{Len: n - 1, Seed: a.Seed}}}, Note: "len-minus-one"})
		// siblings: same length, one byte apart, at the last position, at 64 (or the middle) and at 0
		pos := []int{n - 1}
		if n > 65 {
			pos = append(pos, 64, 65)
		} else if n > 2 {
			pos = append(pos, n/2)
		}
		if n > 1 {
			pos = append(pos, 0)
		}
		multi := []c24Tok{{Pat: &a, Who: []byte("alice")}}
		sibs := []c24Pat{a}
		for i, p := range pos {
			b := c24With(a, p, a.other(p))
			sibs = append(sibs, b)
			bb := b
			multi = append(multi, c24Tok{Pat: &bb, Who: []byte(fmt.Sprintf("sib-%d", i))})
		}
		if len(sibs) > 1 {
			for _, t := range sibs {
				out = append(out, c24In{Kind: "bearer", Toks: multi, PHdr: []c24PHdr{{"Bearer ", t}}, Note: "len-siblings"})
			}
			// a non-configured sibling (two positions changed)
			if n > 3 {
				x := c24With(c24With(a, n-1, a.other(n-1)), n-2, a.other(n-2))
				out = append(out, c24In{Kind: "bearer", Toks: multi, PHdr: []c24PHdr{{"Bearer ", x}}, Note: "len-siblings-foreign"})
			}
		}
	}
	return out
}

// c24GenBearerLong: the random stream over the length classes.
func c24GenBearerLong(r *rand.Rand) c24In {
	n := c24LenClasses[r.Intn(len(c24LenClasses)-2)] + r.Intn(3) - 1
	if r.Intn(12) == 0 {
		n = 1000 + r.Intn(100)
	}
	if n < 1 {
		n = 1
	}
	a := c24Pat{Len: n, Seed: r.Intn(90)}
	rp := func() int {
		if r.Intn(2) == 0 {
			ps := c24Positions(n)
			return ps[r.Intn(len(ps))]
		}
		return r.Intn(n)
	}
	in := c24In{Kind: "bearer", Note: "long-random"}
	cands := []c24Pat{a}
	seen := map[string]bool{string(a.bytes()): true}
	for k := r.Intn(4); k > 0; k-- {
		p := rp()
		b := c24With(cands[r.Intn(len(cands))], p, a.other(p))
		if !seen[string(b.bytes())] {
			seen[string(b.bytes())] = true
			cands = append(cands, b)
		}
	}
	for i := range cands {
		c := cands[i]
		in.Toks = append(in.Toks, c24Tok{Pat: &c, Who: []byte(fmt.Sprintf("user-%d", i))})
	}
	var h c24Pat
	switch r.Intn(6) {
	case 0, 1: // a configured token
		h = cands[r.Intn(len(cands))]
	case 2, 3, 4: // same length, one more byte changed
		p := rp()
		h = c24With(cands[r.Intn(len(cands))], p, '0'+r.Intn(10))
	default: // length changed
		h = c24Pat{Len: n + 2*r.Intn(2) - 1, Seed: a.Seed}
	}
	in.PHdr = []c24PHdr{{c24Pick(r, []string{"Bearer ", "Bearer ", "Bearer ", "Bearer ", "bearer ", "Bearer  "}), h}}
	return in
}

func c24GenBearer(r *rand.Rand) c24In {
	if r.Intn(3) == 0 {
		return c24GenBearerLong(r)
	}
	in := c24In{Kind: "bearer"}
	seen := map[string]bool{}
	for k := r.Intn(5); k > 0; k-- {
		t := c24Bytes(r, "abAB01 -._~+/=", 8)
		if r.Intn(6) == 0 && len(in.Toks) > 0 { // tokens sharing a prefix / differing in case
			t = c24Mutate(r, in.Toks[0].Tok)
		}
		if seen[string(t)] {
			continue
		}
		seen[string(t)] = true
		in.Toks = append(in.Toks, c24Tok{Tok: t, Who: []byte(fmt.Sprintf("user-%d", len(in.Toks)))})
	}
	var base []byte
	if len(in.Toks) > 0 && r.Intn(10) < 8 {
		base = append([]byte("Bearer "), in.Toks[r.Intn(len(in.Toks))].Tok...)
	} else {
		base = append([]byte(c24Pick(r, []string{"Bearer ", "Bearer ", "bearer ", "Basic ", "Bearer", "", "Token "})), c24Bytes(r, "abAB01 ", 6)...)
	}
	switch r.Intn(10) {
	case 0, 1, 2, 3:
		in.Hdrs = [][]byte{base}
		in.Note = "exact-or-foreign"
	case 4, 5, 6, 7:
		in.Hdrs = [][]byte{c24Mutate(r, base)}
		in.Note = "near-miss"
	case 8:
		in.Hdrs = [][]byte{c24Mutate(r, base), base}
		in.Note = "two-values"
	case 9:
		if r.Intn(2) == 0 {
			in.Hdrs = nil
		} else {
			in.Hdrs = [][]byte{base, []byte("Bearer zzz")}
		}
		in.Note = "absent-or-two"
	}
	return in
}

func c24Boundary() []c24In {
	tk := []c24Tok{{Tok: []byte("s3cr3t-Token"), Who: []byte("alice")}, {Tok: []byte("s3cr3t-Token2"), Who: []byte("bob")}, {Tok: []byte(""), Who: []byte("empty")}}
	tk2 := tk[:2]
	var out []c24In
	for _, h := range []string{"Bearer s3cr3t-Token", "Bearer s3cr3t-Token2", "Bearer ", "bearer s3cr3t-Token", "BEARER s3cr3t-Token",
		"Bearer  s3cr3t-Token", "Bearer s3cr3t-Token ", " Bearer s3cr3t-Token", "Bearer\ts3cr3t-Token", "Bearer", "Bearers3cr3t-Token",
		"Bearer s3cr3t-token", "Bearer s3cr3t-Toke", "Bearer s3cr3t-Token\x00", "Basic s3cr3t-Token", "s3cr3t-Token", "Bearer Bearer s3cr3t-Token", ""} {
		out = append(out, c24In{Kind: "bearer", Toks: tk, Hdrs: [][]byte{[]byte(h)}, Note: "boundary"})
		out = append(out, c24In{Kind: "bearer", Toks: tk2, Hdrs: [][]byte{[]byte(h)}, Note: "boundary"})
	}
	out = append(out, c24In{Kind: "bearer", Toks: tk, Hdrs: nil, Note: "boundary"})
	out = append(out, c24In{Kind: "bearer", Toks: nil, Hdrs: [][]byte{[]byte("Bearer ")}, Note: "boundary"})
	out = append(out, c24In{Kind: "bearer", Toks: tk, Hdrs: [][]byte{[]byte("Basic x"), []byte("Bearer s3cr3t-Token")}, Note: "boundary"})
	out = append(out, c24In{Kind: "bearer", Toks: tk, Hdrs: [][]byte{[]byte("Bearer s3cr3t-Token"), []byte("Basic x")}, Note: "boundary"})
	out = append(out, c24BearerLengths()...)
	for _, h := range []string{
		`By=spiffe://cluster.local/ns/default/sa/server;Hash=468ed33be74eee6556d90c0149c1309e9ba61d6425303443c0748a02dd8de688;Subject="CN=client,OU=eng,O=Example";URI=spiffe://cluster.local/ns/default/sa/client;DNS=a.example.com;DNS=b.example.com`,
		`Hash=aa;Subject="CN=first",Hash=bb;Subject="CN=second"`,
		`Subject="CN=a\"b,c;d\\",Hash=x`,
		`Subject="O=x, CN=Test Client ,C=US"`,
		`Subject="CN=,CN=second"`,
		`Subject="CN=Doe\, John,O=x"`, // DN escape collapses in unescapeQuoted, extractCN then sees a bare comma
		`Subject="CN=foo\ "`,
		`subject="cn=lower"`,
		`Subject="/C=US/ST=CA/CN=Test Client"`,
		`Cert="-----BEGIN%20CERTIFICATE-----%0Aabc%0A-----END%20CERTIFICATE-----%0A";URI=a+b%2Cc;By=%zz`,
		`Hash=a,,Hash=b,`, `,`, `;`, `=`, `"`, `\`, `"\`, `a="\`, `a="b\",c`, ` `, ` , `, `Hash`, `Hash="`, `Hash=""`, `Hash="a"b"`, `Hash = "a" ; Subject = CN=x`,
		"Subject=\"CN=a\\\nb\"", `Hash="a,b";Subject="CN=x;y"`, `Hash="a`, `Hash=a"b,c"d`,
	} {
		for _, sel := range []string{"", "last"} {
			out = append(out, c24In{Kind: "xfcc", Sel: sel, Hdrs: [][]byte{[]byte(h)}, Note: "boundary"})
		}
	}
	out = append(out, c24In{Kind: "xfcc", Sel: "first", Hdrs: nil, Note: "boundary"})
	out = append(out, c24In{Kind: "xfcc", Sel: "first", Hdrs: [][]byte{[]byte("")}, Note: "boundary"})
	out = append(out, c24In{Kind: "xfcc", Sel: "nearest", Hdrs: [][]byte{[]byte("Hash=a")}, Note: "boundary"})
	out = append(out, c24In{Kind: "xfcc", Sel: "last", Hdrs: [][]byte{[]byte("Subject=CN=one"), []byte("Subject=CN=two")}, Note: "boundary"})
	for _, s := range []string{"CN=x", "cn=x", "CN=", "CN=,CN=y", "O=a,CN=b\\,c,CN=d", " CN=x ", "CN =x", "CNN=x", "O=CN=x", "CN=x\\", "CN=a\\\nb,CN=c", "", ",", "\\", "CN=x+O=y", "O=a\\,CN=b"} {
		out = append(out, c24In{Kind: "cn", S: []byte(s), Note: "boundary"})
	}
	for _, s := range []string{"", "a b", "%", "%4", "%41", "%zz", "a+b", "100%25", "\x00\xff /?&=+%"} {
		out = append(out, c24In{Kind: "qun", S: []byte(s), Note: "boundary"})
	}
	return out
}

func c24Gen(r *rand.Rand, n int, tier string) []c24In {
	out := c24Boundary()
	for len(out) < n {
		switch k := r.Intn(20); {
		case k < 5:
			out = append(out, c24GenBearer(r))
		case k < 11:
			clean := r.Intn(8) != 0
			note := "ast-clean"
			if !clean {
				note = "ast-dirty"
			}
			out = append(out, c24In{Kind: "xast", Sel: c24Sel(r), Ast: c24GenAst(r, clean), Note: note})
		case k < 14:
			in := c24In{Kind: "xfcc", Sel: c24Sel(r), Note: "noise"}
			switch r.Intn(8) {
			case 0:
				in.Hdrs = [][]byte{c24Noise(r, c24XfccFrags, 10), c24Noise(r, c24XfccFrags, 6)}
			case 1:
				if r.Intn(2) == 0 {
					in.Hdrs = [][]byte{{}}
				}
			default:
				in.Hdrs = [][]byte{c24Noise(r, c24XfccFrags, 14)}
			}
			out = append(out, in)
		case k < 15: // a rendered tree with one byte damaged
			h := []byte(c24RenderHeader(c24GenAst(r, true)))
			out = append(out, c24In{Kind: "xfcc", Sel: c24Sel(r), Hdrs: [][]byte{c24Mutate(r, h)}, Note: "damaged-tree"})
		case k < 17:
			clean := r.Intn(6) != 0
			note := "dn-clean"
			if !clean {
				note = "dn-dirty"
			}
			out = append(out, c24In{Kind: "cnast", DN: c24GenDN(r, clean), Note: note})
		case k < 18:
			out = append(out, c24In{Kind: "cn", S: c24Noise(r, c24CnFrags, 10), Note: "noise"})
		default:
			if r.Intn(2) == 0 {
				out = append(out, c24In{Kind: "qun", S: c24Noise(r, c24QunFrags, 8), Note: "noise"})
			} else {
				b := make([]byte, r.Intn(12))
				for i := range b {
					b[i] = byte(r.Intn(256))
				}
				out = append(out, c24In{Kind: "qun", S: b, Note: "random-bytes"})
			}
		}
	}
	return out
}

// ---- running the real code ---------------------------------------------------

func c24BL(xs [][]byte) string {
	return ListOf(xs, func(b []byte) string { return B(string(b)) })
}
func c24SL(xs []string) string { return ListOf(xs, B) }

func c24ErrType(err error) string {
	if re, ok := err.(*vgirpc.RpcError); ok {
		return re.Type
	}
	return fmt.Sprintf("other:%T", err)
}

func c24Elem(e vgirpc.XfccElement) string {
	return App("C24.Build_elem", B(e.Hash), B(e.Cert), B(e.Subject), B(e.URI), c24SL(e.DNS), B(e.By))
}

type c24XObs struct {
	Header  string
	SplitC  []string
	SplitS  []string
	Parsed  []vgirpc.XfccElement
	CNs     []string
	Auth    string
	Domain  string
	Who     string
	Claims  map[string]any
	ErrType string
}

func c24RunXfcc(sel string, hdrs [][]byte, tags []string) (string, any, []string) {
	h := ""
	if len(hdrs) > 0 {
		h = string(hdrs[0])
	}
	o := c24XObs{Header: h}
	o.SplitC = vgirpc.VerifSplitRespectingQuotes(h, ',')
	o.SplitS = vgirpc.VerifSplitRespectingQuotes(h, ';')
	o.Parsed = vgirpc.ParseXfcc(h)
	for _, e := range o.Parsed {
		o.CNs = append(o.CNs, vgirpc.VerifExtractCN(e.Subject))
	}
	tags = append(tags, fmt.Sprintf("elements=%d", len(o.Parsed)))
	if len(o.SplitC) < strings.Count(h, ",")+1 || len(o.SplitS) < strings.Count(h, ";")+1 {
		tags = append(tags, "quoted-delimiter-kept")
	}
	if strings.Contains(h, "\\") {
		tags = append(tags, "backslash")
	}
	if strings.ContainsAny(h, "%+") {
		tags = append(tags, "url-escapes")
	}
	var auth string
	fn, err := vgirpc.MtlsAuthenticateXfcc(vgirpc.MtlsAuthenticateXfccConfig{SelectElement: sel})
	if err != nil {
		o.Auth = "cfg-error"
		auth = "C24.XCfgErr"
		tags = append(tags, "auth-cfg-error")
	} else {
		req := &http.Request{Header: http.Header{}}
		for _, v := range hdrs {
			req.Header.Add("X-Forwarded-Client-Cert", string(v))
		}
		ac, err := fn(req)
		switch {
		case err != nil:
			o.Auth, o.ErrType = "error", c24ErrType(err)
			auth = App("C24.XErr", B(o.ErrType))
			tags = append(tags, "auth-refused")
		case ac == nil:
			o.Auth, o.ErrType = "error", "nil-context"
			auth = App("C24.XErr", B(o.ErrType))
		default:
			o.Auth, o.Domain, o.Who, o.Claims = "ok", ac.Domain, ac.Principal, ac.Claims
			if !ac.Authenticated {
				o.Domain = "NOT-AUTHENTICATED:" + o.Domain
			}
			get := func(k string) string {
				v, present := ac.Claims[k]
				if !present {
					return ""
				}
				s, isStr := v.(string)
				if !isStr || s == "" { // a claim that is present must be a non-empty string
					o.Domain = "BAD-CLAIM:" + k
				}
				return s
			}
			var dns []string
			if v, present := ac.Claims["dns"]; present {
				d, isList := v.([]string)
				if !isList || len(d) == 0 {
					o.Domain = "BAD-CLAIM:dns"
				}
				dns = d
			}
			hash, subj, uri, by := get("hash"), get("subject"), get("uri"), get("by")
			for k := range ac.Claims {
				switch k {
				case "hash", "subject", "uri", "by", "dns":
				default:
					o.Domain = "EXTRA-CLAIM:" + k
				}
			}
			auth = App("C24.XOk", B(o.Domain), B(o.Who), B(hash), B(subj), B(uri), c24SL(dns), B(by))
			tags = append(tags, "auth-ok")
			if o.Who != "" {
				tags = append(tags, "principal-nonempty")
			}
		}
	}
	coq := App("C24.OXfcc", B(h), c24SL(o.SplitC), c24SL(o.SplitS), ListOf(o.Parsed, c24Elem), c24SL(o.CNs), auth)
	return coq, o, tags
}

func c24Run(in c24In) CaseOut {
	tags := []string{in.Kind}
	if in.Note != "" {
		tags = append(tags, in.Note)
	}
	switch in.Kind {
	case "bearer":
		type cfgTok struct {
			tok, who string
		}
		var cfg []cfgTok
		known := map[string]bool{}
		var toks []string
		maxLen := 0
		for _, t := range in.Toks {
			tb, term := t.Tok, B(string(t.Tok))
			if t.Pat != nil {
				tb, term = t.Pat.bytes(), t.Pat.coq()
			}
			if known[string(tb)] {
				continue // the model takes the first of equal keys; a Go map has one
			}
			known[string(tb)] = true
			cfg = append(cfg, cfgTok{string(tb), string(t.Who)})
			toks = append(toks, Pair(term, B(string(t.Who))))
			if len(tb) > maxLen {
				maxLen = len(tb)
			}
		}
		var hdrs [][]byte
		var hdrTerms []string
		if len(in.PHdr) > 0 {
			for _, ph := range in.PHdr {
				hdrs = append(hdrs, append([]byte(ph.Prefix), ph.Pat.bytes()...))
				hdrTerms = append(hdrTerms, "("+B(ph.Prefix)+" ++ "+ph.Pat.coq()+")")
			}
		} else {
			for _, v := range in.Hdrs {
				hdrs = append(hdrs, v)
				hdrTerms = append(hdrTerms, B(string(v)))
			}
		}
		type obs struct{ Result, Who, ErrType string }
		// The authenticator is rebuilt and run several times: BearerAuthenticateStatic
		// ranges over a Go map, whose order is random, and the outcome must not depend on it.
		runOnce := func() (obs, string) {
			m := map[string]*vgirpc.AuthContext{}
			ctxs := map[*vgirpc.AuthContext]bool{}
			for _, c := range cfg {
				ac := &vgirpc.AuthContext{Domain: "bearer", Authenticated: true, Principal: c.who}
				m[c.tok] = ac
				ctxs[ac] = true
			}
			req := &http.Request{Header: http.Header{}}
			for _, v := range hdrs {
				req.Header.Add("Authorization", string(v))
			}
			ac, err := vgirpc.BearerAuthenticateStatic(m)(req)
			switch {
			case err != nil:
				o := obs{Result: "refused", ErrType: c24ErrType(err)}
				return o, App("C24.BReject", B(o.ErrType))
			case ac == nil || !ctxs[ac]:
				o := obs{Result: "refused", ErrType: "foreign-context"}
				return o, App("C24.BReject", B(o.ErrType))
			}
			o := obs{Result: "accepted", Who: ac.Principal}
			return o, App("C24.BAccept", B(o.Who))
		}
		o, res := runOnce()
		reps := 1
		if len(cfg) > 1 {
			reps = 8
		}
		for i := 1; i < reps; i++ {
			if o2, _ := runOnce(); o2 != o {
				// outcome depends on map iteration order: report it as its own (refused-looking) observable
				o = obs{Result: "unstable", Who: o.Who + "|" + o2.Who, ErrType: "unstable-across-map-orders"}
				res = App("C24.BReject", B(o.ErrType))
				tags = append(tags, "unstable")
				break
			}
		}
		tags = append(tags, o.Result)
		switch {
		case maxLen > 64:
			tags = append(tags, "token>64")
		case maxLen > 0:
			tags = append(tags, "token<=64")
		}
		coqIn := App("C24.Bearer", List(toks), List(hdrTerms))
		return CaseOut{Coq: Pair(coqIn, App("C24.OBearer", res)), Tags: tags, Nontrivial: len(toks) > 0 && len(hdrs) > 0, Obs: o}
	case "xfcc":
		coqObs, o, tags := c24RunXfcc(in.Sel, in.Hdrs, tags)
		coqIn := App("C24.XfccRaw", B(in.Sel), c24BL(in.Hdrs))
		return CaseOut{Coq: Pair(coqIn, coqObs), Tags: tags, Nontrivial: len(in.Hdrs) > 0 && len(in.Hdrs[0]) > 0, Obs: o}
	case "xast":
		h := c24RenderHeader(in.Ast)
		coqObs, o, tags := c24RunXfcc(in.Sel, [][]byte{[]byte(h)}, tags)
		fld := func(f c24Field) string {
			v := App("C24.Bare", B(string(f.Val)))
			if f.Quoted {
				v = App("C24.Quoted", B(string(f.Val)))
			}
			return App("C24.Build_field", B(f.WS1), B(f.Key), B(f.WS2), B(f.WS3), v, B(f.WS4))
		}
		coqIn := App("C24.XfccAst", B(in.Sel), ListOf(in.Ast, func(fs []c24Field) string { return ListOf(fs, fld) }))
		return CaseOut{Coq: Pair(coqIn, coqObs), Tags: tags, Nontrivial: h != "", Obs: o}
	case "cn", "cnast":
		s := string(in.S)
		coqIn := App("C24.CnRaw", B(s))
		if in.Kind == "cnast" {
			s = c24RenderDN(in.DN)
			coqIn = App("C24.CnAst", ListOf(in.DN, func(r c24RDN) string {
				return App("C24.Build_rdn", B(r.Pad), B(r.Attr), ListOf(r.Items, func(it c24Item) string {
					if it.Esc {
						return App("C24.DEsc", N(uint64(it.C)))
					}
					return App("C24.DPlain", N(uint64(it.C)))
				}))
			}))
		}
		cn := vgirpc.VerifExtractCN(s)
		if cn != "" {
			tags = append(tags, "cn-found")
		} else {
			tags = append(tags, "cn-empty")
		}
		type obs struct{ Subject, CN string }
		return CaseOut{Coq: Pair(coqIn, App("C24.OCn", B(s), B(cn))), Tags: tags, Nontrivial: s != "", Obs: obs{s, cn}}
	case "qun":
		v := string(in.S)
		esc := url.QueryEscape(v)
		opt := func(s string) (string, string) {
			d, err := url.QueryUnescape(s)
			if err != nil {
				return "None", "error"
			}
			return Opt(true, B(d)), d
		}
		rt, rtS := opt(esc)
		raw, rawS := opt(v)
		if raw == "None" {
			tags = append(tags, "unescape-error")
		}
		type obs struct{ Escaped, RoundTrip, Raw string }
		return CaseOut{Coq: Pair(App("C24.Qun", B(v)), App("C24.OQun", B(esc), rt, raw)), Tags: tags, Nontrivial: v != "", Obs: obs{esc, rtS, rawS}}
	}
	panic("c24: unknown kind " + in.Kind)
}

func init() {
	_ = sort.Strings
	Register("C24", "boundary headers first (scheme case, blanks, near-miss tokens, Envoy-style XFCC values, quoted delimiters, escapes), static-bearer tokens over the length classes 1,31,32,33,63,64,65,127,128,129,255,256,1000,1029 (exact; same length with exactly one byte changed at 0,1,31,32,63,64,65,len-1; one byte longer/shorter; several configured equal-length tokens one byte apart, each presented in turn, plus a non-configured sibling), then: static-bearer configurations with exact / near-miss / foreign / multi-valued Authorization headers and a random stream over the same length classes; every multi-token configuration is rebuilt and run 8 times (Go map order is random) and an outcome that varies is reported as its own observable; XFCC headers rendered from random syntax trees (random key case, quoted and bare values over an alphabet with , ; \" \\ = % + blanks newline and high bytes, DN-shaped subjects, blanks around tokens, URL-encoded cert/uri/by); XFCC noise from fragments and damaged renderings; DN syntax trees and DN noise for extractCN; QueryEscape/QueryUnescape on random bytes. Non-trivial = bearer: a token is configured and a header is present; xfcc: non-empty header; cn/qun: non-empty string. distinct = distinct input JSON",
		c24Gen, c24Run)
}
