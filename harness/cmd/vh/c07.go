package main

// C07 — parameters bind only when the batch's schema equals the declared one.
//
// A parameter struct type is built at run time (reflect.StructOf + vgirpc tags)
// from a JSON description, registered through vgirpc.VerifRegisterUnaryReflect
// with a recording handler, and one request is sent over the pipe path
// (Server.Serve on buffers). Observables: registration ok, the declared schema
// (SchemaForStruct), outcome class (handler ran / TypeError answer / other), and
// the bound field values of every handler invocation.

import (
	"bytes"
	"context"
	"fmt"
	"math"
	"math/rand"
	"reflect"
	"sort"
	"strconv"
	"strings"
	"time"

	"github.com/Query-farm/vgi-rpc-go/vgirpc"
	"github.com/apache/arrow-go/v18/arrow"
	"github.com/apache/arrow-go/v18/arrow/array"
	"github.com/apache/arrow-go/v18/arrow/decimal128"
	"github.com/apache/arrow-go/v18/arrow/float16"
	"github.com/apache/arrow-go/v18/arrow/ipc"
	"github.com/apache/arrow-go/v18/arrow/memory"
)

// ---------------------------------------------------------------- JSON input

type c07Ty struct {
	K       string     `json:"k"` // null bool int float utf8 large_utf8 binary large_binary fixed date32 date64 timestamp time32 time64 duration decimal dict list map struct
	Signed  bool       `json:"signed,omitempty"`
	W       int        `json:"w,omitempty"`    // int / float bits
	Unit    string     `json:"unit,omitempty"` // s ms us ns
	TZ      string     `json:"tz,omitempty"`
	P       int32      `json:"p,omitempty"`
	S       int32      `json:"s,omitempty"`
	N       int        `json:"n,omitempty"`    // fixed width
	Elem    *c07Field  `json:"elem,omitempty"` // list item (its name is cosmetic)
	Key     *c07Ty     `json:"key,omitempty"`
	Val     *c07Ty     `json:"val,omitempty"`
	VNull   bool       `json:"vnull,omitempty"`
	Sorted  bool       `json:"sorted,omitempty"` // map keysSorted (cosmetic)
	Fields  []c07Field `json:"fields,omitempty"`
	Idx     *c07Ty     `json:"idx,omitempty"`
	Ordered bool       `json:"ordered,omitempty"`
}

type c07Field struct {
	Name     string      `json:"name"`
	Ty       c07Ty       `json:"ty"`
	Nullable bool        `json:"nullable,omitempty"`
	Meta     [][2]string `json:"meta,omitempty"`
}

type c07Val struct {
	T string   `json:"t"` // n i b s l d
	I int64    `json:"i,omitempty"` // "d": the row's index into D
	B bool     `json:"b,omitempty"`
	S []byte   `json:"s,omitempty"`
	L []c07Val `json:"l,omitempty"`
	D []string `json:"d,omitempty"` // "d": the column's whole dictionary (shared by every cell of one array)
}

type c07Child struct {
	Name string `json:"name"`
	Kind string `json:"kind"`
	Ptr  bool   `json:"ptr,omitempty"`
	Over string `json:"over,omitempty"` // enum | dict_string
}

type c07Decl struct {
	Name     string     `json:"name"`
	Shape    string     `json:"shape"` // leaf slice map struct
	Kind     string     `json:"kind,omitempty"`
	Kind2    string     `json:"kind2,omitempty"` // map value kind
	EO       string     `json:"eo,omitempty"`    // elem= override
	Children []c07Child `json:"children,omitempty"`
	Ptr      bool       `json:"ptr,omitempty"`
	Over     string     `json:"over,omitempty"`
	FixedN   int        `json:"fixed_n,omitempty"`
	Nullable bool       `json:"nullable,omitempty"`
	Default  *string    `json:"default,omitempty"`
}

type c07Batch struct {
	Wrapped    bool       `json:"wrapped,omitempty"`
	Nullable   bool       `json:"req_nullable,omitempty"`
	Inner      *c07Batch  `json:"inner,omitempty"`
	Fields     []c07Field `json:"fields,omitempty"` // plain; or the schema of a schema-only inner stream
	Vals       []c07Val   `json:"vals,omitempty"`
	SchemaMeta bool       `json:"schema_meta,omitempty"` // cosmetic: schema-level metadata attached
}

type c07In struct {
	Decl []c07Decl `json:"decl"`
	Sent c07Batch  `json:"sent"`
	Note string    `json:"note,omitempty"`
}

// ---------------------------------------------------------------- Go types from the description

var c07Kinds = map[string]reflect.Type{
	"string": reflect.TypeOf(""), "int": reflect.TypeOf(int(0)), "int64": reflect.TypeOf(int64(0)),
	"int32": reflect.TypeOf(int32(0)), "int16": reflect.TypeOf(int16(0)), "int8": reflect.TypeOf(int8(0)),
	"uint64": reflect.TypeOf(uint64(0)), "uint32": reflect.TypeOf(uint32(0)), "uint16": reflect.TypeOf(uint16(0)),
	"uint8": reflect.TypeOf(uint8(0)), "float64": reflect.TypeOf(float64(0)), "float32": reflect.TypeOf(float32(0)),
	"bool": reflect.TypeOf(false), "bytes": reflect.TypeOf([]byte(nil)), "time": reflect.TypeOf(time.Time{}),
	"duration": reflect.TypeOf(time.Duration(0)),
}

var c07KindCoq = map[string]string{
	"string": "C07.KString", "int": "C07.KInt", "int64": "C07.KInt64", "int32": "C07.KInt32", "int16": "C07.KInt16",
	"int8": "C07.KInt8", "uint64": "C07.KUint64", "uint32": "C07.KUint32", "uint16": "C07.KUint16", "uint8": "C07.KUint8",
	"float64": "C07.KFloat64", "float32": "C07.KFloat32", "bool": "C07.KBool", "bytes": "C07.KBytes", "time": "C07.KTime",
	"duration": "C07.KDuration",
}

func c07OverTag(o string, n int) string {
	if o == "fixed_binary" {
		return fmt.Sprintf("fixed_binary[%d]", n)
	}
	return o
}

func c07OverCoq(o string, n int) string {
	switch o {
	case "":
		return "C07.ONone"
	case "fixed_binary":
		return App("C07.OFixedBin", N(uint64(n)))
	}
	m := map[string]string{"int8": "OInt8", "int16": "OInt16", "int32": "OInt32", "uint8": "OUint8", "uint16": "OUint16",
		"uint32": "OUint32", "uint64": "OUint64", "float32": "OFloat32", "enum": "OEnum", "dict_string": "ODictString", "binary": "OBinary",
		"large_string": "OLargeString", "large_binary": "OLargeBinary", "date": "ODate", "timestamp": "OTimestamp",
		"timestamp_utc": "OTimestampUTC", "time": "OTime", "duration": "ODuration", "decimal": "ODecimal", "struct": "OStruct"}
	return "C07." + m[o]
}

func (d c07Decl) goType() reflect.Type {
	var t reflect.Type
	switch d.Shape {
	case "leaf":
		t = c07Kinds[d.Kind]
	case "slice":
		t = reflect.SliceOf(c07Kinds[d.Kind])
	case "map":
		t = reflect.MapOf(c07Kinds[d.Kind], c07Kinds[d.Kind2])
	case "struct":
		var fs []reflect.StructField
		for i, c := range d.Children {
			ct := c07Kinds[c.Kind]
			if c.Ptr {
				ct = reflect.PointerTo(ct)
			}
			tv := c.Name
			if c.Over != "" {
				tv += "," + c.Over
			}
			fs = append(fs, reflect.StructField{Name: fmt.Sprintf("C%d", i), Type: ct,
				Tag: reflect.StructTag("vgirpc:" + strconv.Quote(tv))})
		}
		t = reflect.StructOf(fs)
	}
	if d.Ptr {
		t = reflect.PointerTo(t)
	}
	return t
}

func (d c07Decl) tag() reflect.StructTag {
	v := d.Name
	if d.Over != "" {
		v += "," + c07OverTag(d.Over, d.FixedN)
	}
	if d.EO != "" {
		v += ",elem=" + d.EO
	}
	if d.Nullable {
		v += ",nullable"
	}
	if d.Default != nil {
		v += ",default=" + *d.Default
	}
	return reflect.StructTag("vgirpc:" + strconv.Quote(v))
}

func c07StructType(ds []c07Decl) reflect.Type {
	fs := make([]reflect.StructField, len(ds))
	for i, d := range ds {
		fs[i] = reflect.StructField{Name: fmt.Sprintf("F%d", i), Type: d.goType(), Tag: d.tag()}
	}
	return reflect.StructOf(fs)
}

func (d c07Decl) coq() string {
	var g string
	switch d.Shape {
	case "leaf":
		g = App("C07.GLeaf", c07KindCoq[d.Kind])
	case "slice":
		g = App("C07.GSlice", c07KindCoq[d.Kind], c07OverCoq(d.EO, 0))
	case "map":
		g = App("C07.GMap", c07KindCoq[d.Kind], c07KindCoq[d.Kind2])
	case "struct":
		g = App("C07.GStruct", ListOf(d.Children, func(c c07Child) string {
			return "(" + B(c.Name) + ", " + c07KindCoq[c.Kind] + ", " + Bool(c.Ptr) + ", " + c07OverCoq(c.Over, 0) + ")"
		}))
	}
	def := "None"
	if d.Default != nil {
		def = "(Some " + B(*d.Default) + ")"
	}
	return App("C07.Build_dfield", B(d.Name), g, Bool(d.Ptr), c07OverCoq(d.Over, d.FixedN), Bool(d.Nullable), def)
}

// ---------------------------------------------------------------- Arrow types <-> description <-> Coq

func c07Unit(u string) arrow.TimeUnit {
	switch u {
	case "s":
		return arrow.Second
	case "ms":
		return arrow.Millisecond
	case "us":
		return arrow.Microsecond
	}
	return arrow.Nanosecond
}

func c07UnitName(u arrow.TimeUnit) string { return [...]string{"s", "ms", "us", "ns"}[int(u)] }

func c07Meta(m [][2]string) arrow.Metadata {
	if len(m) == 0 {
		return arrow.Metadata{}
	}
	k := make([]string, len(m))
	v := make([]string, len(m))
	for i, p := range m {
		k[i], v[i] = p[0], p[1]
	}
	return arrow.NewMetadata(k, v)
}

func (f c07Field) arrow() arrow.Field {
	return arrow.Field{Name: f.Name, Type: f.Ty.arrow(), Nullable: f.Nullable, Metadata: c07Meta(f.Meta)}
}

func (t c07Ty) arrow() arrow.DataType {
	switch t.K {
	case "null":
		return arrow.Null
	case "bool":
		return arrow.FixedWidthTypes.Boolean
	case "int":
		m := map[int][2]arrow.DataType{8: {arrow.PrimitiveTypes.Uint8, arrow.PrimitiveTypes.Int8},
			16: {arrow.PrimitiveTypes.Uint16, arrow.PrimitiveTypes.Int16}, 32: {arrow.PrimitiveTypes.Uint32, arrow.PrimitiveTypes.Int32},
			64: {arrow.PrimitiveTypes.Uint64, arrow.PrimitiveTypes.Int64}}
		if t.Signed {
			return m[t.W][1]
		}
		return m[t.W][0]
	case "float":
		switch t.W {
		case 16:
			return arrow.FixedWidthTypes.Float16
		case 32:
			return arrow.PrimitiveTypes.Float32
		}
		return arrow.PrimitiveTypes.Float64
	case "utf8":
		return arrow.BinaryTypes.String
	case "large_utf8":
		return arrow.BinaryTypes.LargeString
	case "binary":
		return arrow.BinaryTypes.Binary
	case "large_binary":
		return arrow.BinaryTypes.LargeBinary
	case "fixed":
		return &arrow.FixedSizeBinaryType{ByteWidth: t.N}
	case "date32":
		return arrow.FixedWidthTypes.Date32
	case "date64":
		return arrow.FixedWidthTypes.Date64
	case "timestamp":
		return &arrow.TimestampType{Unit: c07Unit(t.Unit), TimeZone: t.TZ}
	case "time32":
		return &arrow.Time32Type{Unit: c07Unit(t.Unit)}
	case "time64":
		return &arrow.Time64Type{Unit: c07Unit(t.Unit)}
	case "duration":
		return &arrow.DurationType{Unit: c07Unit(t.Unit)}
	case "decimal":
		return &arrow.Decimal128Type{Precision: t.P, Scale: t.S}
	case "dict":
		return &arrow.DictionaryType{IndexType: t.Idx.arrow(), ValueType: t.Val.arrow(), Ordered: t.Ordered}
	case "list":
		return arrow.ListOfField(t.Elem.arrow())
	case "map":
		mt := arrow.MapOfFields(arrow.Field{Name: "key", Type: t.Key.arrow()}, arrow.Field{Name: "value", Type: t.Val.arrow(), Nullable: t.VNull})
		mt.KeysSorted = t.Sorted
		return mt
	case "struct":
		fs := make([]arrow.Field, len(t.Fields))
		for i, f := range t.Fields {
			fs[i] = f.arrow()
		}
		return arrow.StructOf(fs...)
	}
	panic("c07: bad type kind " + t.K)
}

func c07MetaFrom(m arrow.Metadata) [][2]string {
	var out [][2]string
	for i, k := range m.Keys() {
		out = append(out, [2]string{k, m.Values()[i]})
	}
	sort.SliceStable(out, func(i, j int) bool { return out[i][0] < out[j][0] })
	return out
}

func c07FieldFrom(f arrow.Field) c07Field {
	return c07Field{Name: f.Name, Ty: c07TyFrom(f.Type), Nullable: f.Nullable, Meta: c07MetaFrom(f.Metadata)}
}

func c07TyFrom(dt arrow.DataType) c07Ty {
	switch t := dt.(type) {
	case *arrow.NullType:
		return c07Ty{K: "null"}
	case *arrow.BooleanType:
		return c07Ty{K: "bool"}
	case *arrow.Int8Type, *arrow.Int16Type, *arrow.Int32Type, *arrow.Int64Type:
		return c07Ty{K: "int", Signed: true, W: dt.(arrow.FixedWidthDataType).BitWidth()}
	case *arrow.Uint8Type, *arrow.Uint16Type, *arrow.Uint32Type, *arrow.Uint64Type:
		return c07Ty{K: "int", W: dt.(arrow.FixedWidthDataType).BitWidth()}
	case *arrow.Float16Type:
		return c07Ty{K: "float", W: 16}
	case *arrow.Float32Type:
		return c07Ty{K: "float", W: 32}
	case *arrow.Float64Type:
		return c07Ty{K: "float", W: 64}
	case *arrow.StringType:
		return c07Ty{K: "utf8"}
	case *arrow.LargeStringType:
		return c07Ty{K: "large_utf8"}
	case *arrow.BinaryType:
		return c07Ty{K: "binary"}
	case *arrow.LargeBinaryType:
		return c07Ty{K: "large_binary"}
	case *arrow.FixedSizeBinaryType:
		return c07Ty{K: "fixed", N: t.ByteWidth}
	case *arrow.Date32Type:
		return c07Ty{K: "date32"}
	case *arrow.Date64Type:
		return c07Ty{K: "date64"}
	case *arrow.TimestampType:
		return c07Ty{K: "timestamp", Unit: c07UnitName(t.Unit), TZ: t.TimeZone}
	case *arrow.Time32Type:
		return c07Ty{K: "time32", Unit: c07UnitName(t.Unit)}
	case *arrow.Time64Type:
		return c07Ty{K: "time64", Unit: c07UnitName(t.Unit)}
	case *arrow.DurationType:
		return c07Ty{K: "duration", Unit: c07UnitName(t.Unit)}
	case *arrow.Decimal128Type:
		return c07Ty{K: "decimal", P: t.Precision, S: t.Scale}
	case *arrow.DictionaryType:
		i, v := c07TyFrom(t.IndexType), c07TyFrom(t.ValueType)
		return c07Ty{K: "dict", Idx: &i, Val: &v, Ordered: t.Ordered}
	case *arrow.ListType:
		e := c07FieldFrom(t.ElemField())
		return c07Ty{K: "list", Elem: &e}
	case *arrow.MapType:
		k, v := c07TyFrom(t.KeyType()), c07TyFrom(t.ItemType())
		return c07Ty{K: "map", Key: &k, Val: &v, VNull: t.ItemField().Nullable, Sorted: t.KeysSorted}
	case *arrow.StructType:
		out := c07Ty{K: "struct"}
		for _, f := range t.Fields() {
			out.Fields = append(out.Fields, c07FieldFrom(f))
		}
		return out
	}
	panic(fmt.Sprintf("c07: unsupported arrow type %v", dt))
}

func c07UnitCoq(u string) string {
	return map[string]string{"s": "C07.USec", "ms": "C07.UMilli", "us": "C07.UMicro", "ns": "C07.UNano"}[u]
}

func c07MetaCoq(m [][2]string) string {
	s := append([][2]string(nil), m...)
	sort.SliceStable(s, func(i, j int) bool { return s[i][0] < s[j][0] })
	return ListOf(s, func(p [2]string) string { return "(" + B(p[0]) + ", " + B(p[1]) + ")" })
}

func c07FieldsCoq(fs []c07Field) string {
	out := "C07.FNil"
	for i := len(fs) - 1; i >= 0; i-- {
		f := fs[i]
		out = App("C07.FCons", B(f.Name), f.Ty.coq(), Bool(f.Nullable), c07MetaCoq(f.Meta), out)
	}
	return out
}

func (t c07Ty) coq() string {
	p := func(s string) string { return "(C07.TPrim " + s + ")" }
	switch t.K {
	case "null":
		return p("C07.PNull")
	case "bool":
		return p("C07.PBool")
	case "int":
		return p(App("C07.PInt", Bool(t.Signed), fmt.Sprintf("C07.W%d", t.W)))
	case "float":
		return p(App("C07.PFloat", fmt.Sprintf("C07.F%d", t.W)))
	case "utf8":
		return p("C07.PUtf8")
	case "large_utf8":
		return p("C07.PLargeUtf8")
	case "binary":
		return p("C07.PBinary")
	case "large_binary":
		return p("C07.PLargeBinary")
	case "fixed":
		return p(App("C07.PFixedBin", N(uint64(t.N))))
	case "date32":
		return p("C07.PDate32")
	case "date64":
		return p("C07.PDate64")
	case "timestamp":
		return p(App("C07.PTimestamp", c07UnitCoq(t.Unit), B(t.TZ)))
	case "time32":
		return p(App("C07.PTime32", c07UnitCoq(t.Unit)))
	case "time64":
		return p(App("C07.PTime64", c07UnitCoq(t.Unit)))
	case "duration":
		return p(App("C07.PDuration", c07UnitCoq(t.Unit)))
	case "decimal":
		return p(App("C07.PDecimal128", Z(int64(t.P)), Z(int64(t.S))))
	case "dict":
		return App("C07.TDict", t.Idx.coq(), t.Val.coq(), Bool(t.Ordered))
	case "list":
		return App("C07.TList", t.Elem.Ty.coq(), Bool(t.Elem.Nullable), c07MetaCoq(t.Elem.Meta))
	case "map":
		return App("C07.TMap", t.Key.coq(), t.Val.coq(), Bool(t.VNull))
	case "struct":
		return App("C07.TStruct", c07FieldsCoq(t.Fields))
	}
	panic("c07: bad type kind " + t.K)
}

func (v c07Val) coq() string {
	switch v.T {
	case "n":
		return "C07.VNull"
	case "i":
		return App("C07.VI", Z(v.I))
	case "b":
		return App("C07.VB", Bool(v.B))
	case "s":
		return App("C07.VS", B(string(v.S)))
	case "l":
		return App("C07.VL", ListOf(v.L, c07Val.coq))
	case "d":
		return App("C07.VD", Z(v.I), ListOf(v.D, B))
	}
	panic("c07: bad val " + v.T)
}

func (b c07Batch) coq() string {
	if b.Wrapped {
		if b.Inner != nil {
			return App("C07.Wrapped", Bool(b.Nullable), "(Some "+b.Inner.coq()+")", "[]")
		}
		return App("C07.Wrapped", Bool(b.Nullable), "None", B(string(b.emptyInnerStream())))
	}
	return App("C07.Plain", c07FieldsCoq(b.Fields), ListOf(b.Vals, c07Val.coq))
}

// ---------------------------------------------------------------- building batches

func c07Append(bl array.Builder, v c07Val) {
	if v.T == "n" {
		bl.AppendNull()
		return
	}
	switch b := bl.(type) {
	case *array.NullBuilder:
		b.AppendNull()
	case *array.BooleanBuilder:
		b.Append(v.B)
	case *array.Int8Builder:
		b.Append(int8(v.I))
	case *array.Int16Builder:
		b.Append(int16(v.I))
	case *array.Int32Builder:
		b.Append(int32(v.I))
	case *array.Int64Builder:
		b.Append(v.I)
	case *array.Uint8Builder:
		b.Append(uint8(v.I))
	case *array.Uint16Builder:
		b.Append(uint16(v.I))
	case *array.Uint32Builder:
		b.Append(uint32(v.I))
	case *array.Uint64Builder:
		b.Append(uint64(v.I))
	case *array.Float16Builder:
		b.Append(float16.New(float32(v.I)))
	case *array.Float32Builder:
		b.Append(float32(v.I))
	case *array.Float64Builder:
		b.Append(float64(v.I))
	case *array.StringBuilder:
		b.Append(string(v.S))
	case *array.LargeStringBuilder:
		b.Append(string(v.S))
	case *array.BinaryBuilder:
		b.Append(append([]byte{}, v.S...))
	case *array.FixedSizeBinaryBuilder:
		b.Append(v.S)
	case *array.Date32Builder:
		b.Append(arrow.Date32(v.I))
	case *array.Date64Builder:
		b.Append(arrow.Date64(v.I))
	case *array.TimestampBuilder:
		b.Append(arrow.Timestamp(v.I))
	case *array.Time32Builder:
		b.Append(arrow.Time32(v.I))
	case *array.Time64Builder:
		b.Append(arrow.Time64(v.I))
	case *array.DurationBuilder:
		b.Append(arrow.Duration(v.I))
	case *array.Decimal128Builder:
		b.Append(decimal128.FromI64(v.I))
	case *array.BinaryDictionaryBuilder:
		if err := b.Append(append([]byte{}, v.S...)); err != nil { // a nil slice would append a NULL
			panic(err)
		}
	case *array.MapBuilder: // before ListBuilder-like handling
		b.Append(true)
		for _, kv := range v.L {
			c07Append(b.KeyBuilder(), kv.L[0])
			c07Append(b.ItemBuilder(), kv.L[1])
		}
	case *array.ListBuilder:
		b.Append(true)
		for _, e := range v.L {
			c07Append(b.ValueBuilder(), e)
		}
	case *array.StructBuilder:
		b.Append(true)
		for i, e := range v.L {
			c07Append(b.FieldBuilder(i), e)
		}
	default:
		panic(fmt.Sprintf("c07: no appender for %T", bl))
	}
}

func c07Schema(fs []c07Field, withMeta bool) *arrow.Schema {
	af := make([]arrow.Field, len(fs))
	for i, f := range fs {
		af[i] = f.arrow()
	}
	if withMeta {
		md := arrow.NewMetadata([]string{"origin"}, []string{"c07"})
		return arrow.NewSchema(af, &md)
	}
	return arrow.NewSchema(af, nil)
}

func (b c07Batch) emptyInnerStream() []byte {
	var buf bytes.Buffer
	w := ipc.NewWriter(&buf, ipc.WithSchema(c07Schema(b.Fields, false)))
	if err := w.Close(); err != nil {
		panic(err)
	}
	return buf.Bytes()
}

func c07HasDict(dt arrow.DataType) bool {
	switch t := dt.(type) {
	case *arrow.DictionaryType:
		return true
	case *arrow.ListType:
		return c07HasDict(t.Elem())
	case *arrow.MapType:
		return c07HasDict(t.KeyType()) || c07HasDict(t.ItemType())
	case *arrow.StructType:
		for _, f := range t.Fields() {
			if c07HasDict(f.Type) {
				return true
			}
		}
	}
	return false
}

func c07Validity(vals []c07Val) (*memory.Buffer, int) {
	nulls := 0
	bits := make([]byte, (len(vals)+7)/8)
	for i, v := range vals {
		if v.T == "n" {
			nulls++
		} else {
			bits[i/8] |= 1 << (i % 8)
		}
	}
	if nulls == 0 {
		return nil, 0
	}
	return memory.NewBufferBytes(bits), nulls
}

// c07Array builds an array of len(vals) cells. Types without a dictionary go
// through the ordinary builders. A dictionary-encoded array is assembled from
// an EXPLICIT dictionary (the whole domain, unused and duplicate entries
// included, exactly as the case describes it) and an explicit index array, the
// way pyarrow ships categoricals — a dictionary builder would deduplicate and
// keep only the entries the rows use, so a one-row batch would always carry
// index 0. Lists and structs around a dictionary are assembled from raw data.
func c07Array(mem memory.Allocator, dt arrow.DataType, vals []c07Val) arrow.Array {
	if !c07HasDict(dt) {
		bl := array.NewBuilder(mem, dt)
		defer bl.Release()
		for _, v := range vals {
			c07Append(bl, v)
		}
		return bl.NewArray()
	}
	switch t := dt.(type) {
	case *arrow.DictionaryType:
		var dict []string
		for _, v := range vals {
			if v.T == "d" {
				dict = v.D
				break
			}
		}
		vb := array.NewStringBuilder(mem)
		defer vb.Release()
		for _, s := range dict {
			vb.Append(s)
		}
		values := vb.NewArray()
		defer values.Release()
		ib := array.NewBuilder(mem, t.IndexType)
		defer ib.Release()
		for _, v := range vals {
			if v.T == "n" {
				ib.AppendNull()
			} else {
				c07Append(ib, c07Val{T: "i", I: v.I})
			}
		}
		indices := ib.NewArray()
		defer indices.Release()
		return array.NewDictionaryArray(t, indices, values)
	case *arrow.ListType:
		var child []c07Val
		offsets := []int32{0}
		for _, v := range vals {
			if v.T != "n" {
				child = append(child, v.L...)
			}
			offsets = append(offsets, int32(len(child)))
		}
		ca := c07Array(mem, t.Elem(), child)
		defer ca.Release()
		vbuf, nulls := c07Validity(vals)
		data := array.NewData(t, len(vals), []*memory.Buffer{vbuf, memory.NewBufferBytes(arrow.Int32Traits.CastToBytes(offsets))},
			[]arrow.ArrayData{ca.Data()}, nulls, 0)
		defer data.Release()
		return array.NewListData(data)
	case *arrow.StructType:
		children := make([]arrow.ArrayData, t.NumFields())
		for j, f := range t.Fields() {
			cv := make([]c07Val, len(vals))
			for i, v := range vals {
				if v.T == "n" || j >= len(v.L) {
					cv[i] = c07Val{T: "n"}
				} else {
					cv[i] = v.L[j]
				}
			}
			ca := c07Array(mem, f.Type, cv)
			defer ca.Release()
			children[j] = ca.Data()
		}
		vbuf, nulls := c07Validity(vals)
		data := array.NewData(t, len(vals), []*memory.Buffer{vbuf}, children, nulls, 0)
		defer data.Release()
		return array.NewStructData(data)
	}
	panic(fmt.Sprintf("c07: cannot assemble %v around a dictionary", dt))
}

// record builds the (one-row) Arrow batch for b.
func (b c07Batch) record() arrow.RecordBatch {
	mem := memory.DefaultAllocator
	if b.Wrapped {
		var payload []byte
		if b.Inner != nil {
			in := b.Inner.record()
			var buf bytes.Buffer
			w := ipc.NewWriter(&buf, ipc.WithSchema(in.Schema()))
			if err := w.Write(in); err != nil {
				panic(err)
			}
			if err := w.Close(); err != nil {
				panic(err)
			}
			in.Release()
			payload = buf.Bytes()
		} else {
			payload = b.emptyInnerStream()
		}
		sch := arrow.NewSchema([]arrow.Field{{Name: "request", Type: arrow.BinaryTypes.Binary, Nullable: b.Nullable}}, nil)
		bb := array.NewBinaryBuilder(mem, arrow.BinaryTypes.Binary)
		defer bb.Release()
		bb.Append(payload)
		arr := bb.NewArray()
		defer arr.Release()
		return array.NewRecordBatch(sch, []arrow.Array{arr}, 1)
	}
	sch := c07Schema(b.Fields, b.SchemaMeta)
	cols := make([]arrow.Array, len(b.Fields))
	for i, f := range sch.Fields() {
		cols[i] = c07Array(mem, f.Type, []c07Val{b.Vals[i]})
	}
	rec := array.NewRecordBatch(sch, cols, 1)
	for _, c := range cols {
		c.Release()
	}
	return rec
}

// ---------------------------------------------------------------- rendering bound Go values

func c07VI(z int64) string   { return App("C07.VI", Z(z)) }
func c07VU(z uint64) string  { return App("C07.VI", fmt.Sprintf("%d%%Z", z)) }
func c07VS(s string) string  { return App("C07.VS", B(s)) }
func c07Floor(a, b int64) int64 {
	q := a / b
	if a%b != 0 && (a < 0) != (b < 0) {
		q--
	}
	return q
}

// c07Render renders a bound Go value; over selects the unit for time values
// and the canonical form of decimal text.
func c07Render(rv reflect.Value, over string) string {
	if rv.Kind() == reflect.Ptr {
		if rv.IsNil() {
			return "C07.VNull"
		}
		rv = rv.Elem()
	}
	switch x := rv.Interface().(type) {
	case time.Time:
		if x.IsZero() {
			return c07VS("zero-time")
		}
		if over == "date" {
			return c07VI(c07Floor(x.Unix(), 86400))
		}
		return c07VI(x.UnixMicro())
	case time.Duration:
		return c07VI(int64(x))
	case []byte:
		return c07VS(string(x))
	}
	switch rv.Kind() {
	case reflect.String:
		s := rv.String()
		if over == "decimal" {
			if i := strings.IndexByte(s, '.'); i >= 0 && len(s)-i-1 == 4 {
				if z, err := strconv.ParseInt(s[:i]+s[i+1:], 10, 64); err == nil {
					return c07VI(z)
				}
			}
		}
		return c07VS(s)
	case reflect.Int, reflect.Int8, reflect.Int16, reflect.Int32, reflect.Int64:
		return c07VI(rv.Int())
	case reflect.Uint, reflect.Uint8, reflect.Uint16, reflect.Uint32, reflect.Uint64:
		return c07VU(rv.Uint())
	case reflect.Float32, reflect.Float64:
		f := rv.Float()
		if f == math.Trunc(f) && math.Abs(f) < 1e15 {
			return c07VI(int64(f))
		}
		return c07VS(fmt.Sprintf("float:%x", math.Float64bits(f)))
	case reflect.Bool:
		return App("C07.VB", Bool(rv.Bool()))
	case reflect.Slice:
		xs := make([]string, rv.Len())
		for i := range xs {
			xs[i] = c07Render(rv.Index(i), "")
		}
		return App("C07.VL", List(xs))
	case reflect.Map:
		type kv struct{ k, s string }
		var kvs []kv
		for _, k := range rv.MapKeys() {
			kvs = append(kvs, kv{fmt.Sprint(k.Interface()), App("C07.VL", List([]string{c07Render(k, ""), c07Render(rv.MapIndex(k), "")}))})
		}
		sort.Slice(kvs, func(i, j int) bool { return kvs[i].k < kvs[j].k })
		xs := make([]string, len(kvs))
		for i := range kvs {
			xs[i] = kvs[i].s
		}
		return App("C07.VL", List(xs))
	case reflect.Struct:
		xs := make([]string, rv.NumField())
		for i := range xs {
			xs[i] = c07Render(rv.Field(i), "")
		}
		return App("C07.VL", List(xs))
	}
	return c07VS(fmt.Sprintf("unrenderable:%v", rv.Kind()))
}

// ---------------------------------------------------------------- run

func (b *c07Batch) innermost() *c07Batch {
	for b.Wrapped && b.Inner != nil {
		b = b.Inner
	}
	return b
}

func c07Run(in c07In) CaseOut {
	tags := []string{}
	if in.Note != "" {
		tags = append(tags, in.Note)
	}
	coqIn := App("C07.Build_input", ListOf(in.Decl, c07Decl.coq), in.Sent.coq())
	pt := c07StructType(in.Decl)
	s := vgirpc.NewServer()
	var trace []string
	var traceHuman []string
	err := vgirpc.VerifRegisterUnaryReflect(s, "m", pt, func(_ context.Context, _ *vgirpc.CallContext, p reflect.Value) (int64, error) {
		xs := make([]string, len(in.Decl))
		for i, d := range in.Decl {
			xs[i] = c07Render(p.Field(i), d.Over)
		}
		trace = append(trace, List(xs))
		traceHuman = append(traceHuman, fmt.Sprintf("%+v", p.Interface()))
		return 7, nil
	})
	type obsT struct {
		Reg      bool     `json:"reg"`
		Declared string   `json:"declared,omitempty"`
		Outcome  string   `json:"outcome,omitempty"`
		Detail   string   `json:"detail,omitempty"`
		Bound    []string `json:"bound,omitempty"`
	}
	if err != nil {
		tags = append(tags, "reg-error")
		o := obsT{Reg: false, Detail: err.Error()}
		return CaseOut{Coq: Pair(coqIn, App("C07.Build_obs", "false", "C07.FNil", "C07.TypeErr", "[]")), Tags: tags, Nontrivial: true, Obs: o}
	}
	declSchema, _ := vgirpc.SchemaForStruct(pt)
	var declared []c07Field
	for _, f := range declSchema.Fields() {
		declared = append(declared, c07FieldFrom(f))
	}
	rec := in.Sent.record()
	out, esc := RunPipe(s, ReqBytes(rec, StdMeta("m", "r1", "")))
	rec.Release()
	outcome, detail := "C07.Crash", ""
	if esc != nil {
		detail = fmt.Sprintf("escaped panic: %v", esc)
		tags = append(tags, "panic-escaped-serve")
	} else {
		sts := ParseStreams(out)
		var frames []Frame
		for _, st := range sts {
			frames = append(frames, st.Frames...)
		}
		switch {
		case len(sts) == 1 && len(frames) == 1 && frames[0].Kind == "exc" && frames[0].ExcType == "TypeError":
			outcome, detail = "C07.TypeErr", frames[0].Msg
		case len(sts) == 1 && len(frames) == 1 && frames[0].Kind == "data" && len(frames[0].Vals) == 1 && frames[0].Vals[0] == 7:
			outcome = "C07.Ran"
		default:
			detail = fmt.Sprintf("unexpected response: %d streams %+v", len(sts), frames)
		}
	}
	if outcome == "C07.Ran" && len(trace) == 0 || outcome != "C07.Ran" && len(trace) > 0 {
		// a result without the handler, or the handler ran but no result: keep
		// both facts visible (the trace is compared separately)
		tags = append(tags, "outcome-trace-inconsistent")
	}
	tags = append(tags, "out:"+strings.TrimPrefix(outcome, "C07."))
	// classification for the distribution and for known findings
	eff := in.Sent.innermost()
	if in.Sent.Wrapped {
		tags = append(tags, "wrapped")
	}
	if !eff.Wrapped {
		var walk func(v c07Val)
		walk = func(v c07Val) {
			if v.T == "d" {
				tags = append(tags, "dict-cell")
				if v.I > 0 {
					tags = append(tags, "dict-nonfirst-index")
				}
			}
			for _, e := range v.L {
				walk(e)
			}
		}
		for _, v := range eff.Vals {
			walk(v)
		}
	}
	if !eff.Wrapped && len(eff.Fields) == len(in.Decl) && len(eff.Vals) == len(in.Decl) {
		for i, d := range in.Decl {
			if d.Shape == "map" && d.Ptr && eff.Vals[i].T != "n" {
				tags = append(tags, "ptr-map-non-null")
			}
			if eff.Vals[i].T == "n" {
				tags = append(tags, "null-cell")
				if d.Default != nil {
					tags = append(tags, "null-with-default")
					if d.Ptr {
						tags = append(tags, "null-with-default-ptr")
					}
				}
			}
		}
	}
	coqObs := App("C07.Build_obs", "true", c07FieldsCoq(declared), outcome, List(trace))
	o := obsT{Reg: true, Declared: schemaLabel(declSchema), Outcome: outcome, Detail: detail, Bound: traceHuman}
	return CaseOut{Coq: Pair(coqIn, coqObs), Tags: dedup(tags), Nontrivial: true, Obs: o}
}

func dedup(xs []string) []string {
	seen := map[string]bool{}
	var out []string
	for _, x := range xs {
		if !seen[x] {
			seen[x] = true
			out = append(out, x)
		}
	}
	return out
}

// ---------------------------------------------------------------- generators

func sp(s string) *string { return &s }

type c07Combo struct {
	shape, kind, kind2, eo string
	overs                  []string
}

var c07Family = []c07Combo{
	{"leaf", "string", "", "", []string{"", "", "enum", "enum", "dict_string", "large_string", "decimal"}},
	{"leaf", "int64", "", "", []string{"", "", "", "int8", "int16", "int32", "uint8", "uint16", "uint32", "uint64"}},
	{"leaf", "int", "", "", []string{"", "int32"}},
	{"leaf", "int32", "", "", []string{""}}, {"leaf", "int16", "", "", []string{""}}, {"leaf", "int8", "", "", []string{""}},
	{"leaf", "uint64", "", "", []string{"", "uint32"}}, {"leaf", "uint32", "", "", []string{""}},
	{"leaf", "uint16", "", "", []string{""}}, {"leaf", "uint8", "", "", []string{""}},
	{"leaf", "float64", "", "", []string{"", "", "float32"}}, {"leaf", "float32", "", "", []string{""}},
	{"leaf", "bool", "", "", []string{""}},
	{"leaf", "bytes", "", "", []string{"", "binary", "large_binary", "fixed_binary"}},
	{"leaf", "time", "", "", []string{"date", "timestamp", "timestamp_utc", "time"}},
	{"leaf", "duration", "", "", []string{"", "duration"}},
	{"slice", "string", "", "", []string{""}}, {"slice", "string", "", "large_string", []string{""}},
	{"slice", "string", "", "enum", []string{""}}, {"slice", "string", "", "dict_string", []string{""}},
	{"slice", "int64", "", "", []string{""}}, {"slice", "int64", "", "int32", []string{""}},
	{"slice", "float64", "", "", []string{""}}, {"slice", "bool", "", "", []string{""}},
	{"slice", "bytes", "", "large_binary", []string{""}}, {"slice", "int32", "", "", []string{""}},
	{"slice", "uint8", "", "", []string{""}},
	{"map", "string", "int64", "", []string{""}}, {"map", "string", "string", "", []string{""}},
	{"map", "string", "float64", "", []string{""}}, {"map", "string", "bool", "", []string{""}},
	{"struct", "", "", "", []string{"struct"}},
}

var c07Names = []string{"a", "b", "x", "y", "count", "name", "request", "Value", "k_1", "séparateur", "a b", "result"}
var c07ChildKinds = []string{"string", "int64", "int32", "float64", "bool", "bytes"}

func c07Default(r *rand.Rand, kind string) *string {
	pick := func(xs ...string) *string { return sp(xs[r.Intn(len(xs))]) }
	switch kind {
	case "string":
		return pick("-", "", "dflt", "a=b", "default=x", "5", " ")
	case "bool":
		return pick("true", "false", "1", "0", "T", "F", "True", "FALSE", "t", "f", "yes", "", "tRUE")
	case "float64":
		return pick("0", "42", "-7", "+3", "1000000", "abc", "", "123456789012345", "-999999999999999", "007")
	case "float32":
		return pick("0", "42", "-7", "+3", "16777216", "16777217", "16777219", "-33554434", "123456789012345", "abc", "")
	case "int8":
		return pick("0", "127", "128", "-128", "-129", "+5", "abc", "", "007")
	case "int16":
		return pick("0", "32767", "32768", "-32768", "-32769", "+5", "x")
	case "int32":
		return pick("0", "5", "2147483647", "2147483648", "-2147483648", "-2147483649", "+5", "1_0")
	case "uint8":
		return pick("0", "255", "256", "+5", "-0", "-1", "abc", "")
	case "uint16":
		return pick("0", "65535", "65536", "+5", "-1")
	case "uint32":
		return pick("0", "4294967295", "4294967296", "+5", "-1", "12")
	case "uint64":
		return pick("0", "18446744073709551615", "18446744073709551616", "+5", "-1", "42", "")
	case "int", "int64", "duration":
		return pick("0", "42", "-7", "+3", "9223372036854775807", "9223372036854775808", "-9223372036854775808",
			"-9223372036854775809", "abc", "", "1_0", "0x10", " 5", "007", "-", "+", "-0")
	}
	return pick("0", "x", "") // kinds that take no default (bytes, time, slices, maps, structs)
}

func c07GenDecl(r *rand.Rand, rare bool) c07Decl {
	c := c07Family[r.Intn(len(c07Family))]
	d := c07Decl{Name: c07Names[r.Intn(len(c07Names))], Shape: c.shape, Kind: c.kind, Kind2: c.kind2, EO: c.eo}
	d.Over = c.overs[r.Intn(len(c.overs))]
	if d.Over == "fixed_binary" {
		d.FixedN = 1 + r.Intn(4)
	}
	if c.shape == "struct" {
		n := 1 + r.Intn(3)
		for i := 0; i < n; i++ {
			ch := c07Child{Name: fmt.Sprintf("c%d", i), Kind: c07ChildKinds[r.Intn(len(c07ChildKinds))], Ptr: r.Intn(3) == 0}
			if r.Intn(4) == 0 { // a dictionary-encoded child
				ch.Kind, ch.Over = "string", []string{"enum", "dict_string"}[r.Intn(2)]
			}
			d.Children = append(d.Children, ch)
		}
	}
	d.Ptr = r.Intn(4) == 0
	d.Nullable = r.Intn(5) == 0
	if d.Over != "decimal" && r.Intn(3) == 0 {
		k := c.kind
		if c.shape != "leaf" {
			k = "none"
		}
		if c.shape == "leaf" && k != "bytes" && k != "time" || rare {
			d.Default = c07Default(r, k)
		}
	}
	return d
}

func c07GenVal(r *rand.Rand, t c07Ty, nullP int) c07Val {
	if nullP > 0 && r.Intn(nullP) == 0 {
		return c07Val{T: "n"}
	}
	iv := func(lo, hi int64) c07Val {
		edge := []int64{lo, hi, 0, 1, -1}
		v := edge[r.Intn(len(edge))]
		if v < lo || v > hi || r.Intn(2) == 0 {
			v = lo + r.Int63n(hi-lo+1)
		}
		return c07Val{T: "i", I: v}
	}
	str := func() []byte {
		return []byte([]string{"", "a", "hello", "-", "zero-time", "naïve", "x y", "0"}[r.Intn(8)])
	}
	switch t.K {
	case "null":
		return c07Val{T: "n"}
	case "bool":
		return c07Val{T: "b", B: r.Intn(2) == 0}
	case "int":
		if t.Signed {
			if t.W == 64 {
				return []c07Val{{T: "i", I: math.MinInt64}, {T: "i", I: math.MaxInt64}, {T: "i", I: r.Int63() - r.Int63()}, {T: "i", I: int64(r.Intn(100))}}[r.Intn(4)]
			}
			return iv(-(1 << (t.W - 1)), 1<<(t.W-1)-1)
		}
		if t.W == 64 { // the description carries int64; uint64 values stay below 2^63
			return []c07Val{{T: "i", I: math.MaxInt64}, {T: "i", I: 0}, {T: "i", I: r.Int63()}}[r.Intn(3)]
		}
		return iv(0, 1<<t.W-1)
	case "float":
		return iv(-2000, 2000)
	case "utf8", "large_utf8", "binary", "large_binary":
		return c07Val{T: "s", S: str()}
	case "fixed":
		b := make([]byte, t.N)
		r.Read(b)
		return c07Val{T: "s", S: b}
	case "date32":
		return iv(-40000, 40000)
	case "date64":
		return c07Val{T: "i", I: 86400000 * int64(r.Intn(1000))}
	case "timestamp", "duration":
		return iv(-1<<40, 1<<40)
	case "time32":
		return iv(0, 86399)
	case "time64":
		return iv(0, 86399999999)
	case "decimal":
		return iv(-99999999999, 99999999999)
	case "dict":
		return c07DictCell(r, c07GenDict(r))
	case "list":
		n := r.Intn(4)
		v := c07Val{T: "l", L: []c07Val{}}
		var dict []string // the items of one list column share one dictionary
		if t.Elem.Ty.K == "dict" {
			dict = c07GenDict(r)
		}
		for i := 0; i < n; i++ {
			if dict != nil && r.Intn(4) != 0 {
				v.L = append(v.L, c07DictCell(r, dict))
				continue
			}
			if dict != nil {
				v.L = append(v.L, c07Val{T: "n"})
				continue
			}
			v.L = append(v.L, c07GenVal(r, t.Elem.Ty, 4))
		}
		return v
	case "map":
		n := r.Intn(3)
		v := c07Val{T: "l", L: []c07Val{}}
		for i := 0; i < n; i++ { // distinct keys, ascending
			k := c07GenVal(r, *t.Key, 0)
			if k.T == "s" {
				k.S = append([]byte{byte('a' + i)}, k.S...)
			} else if k.T == "i" {
				k.I = int64(i)
			}
			np := 0
			if t.VNull {
				np = 4
			}
			v.L = append(v.L, c07Val{T: "l", L: []c07Val{k, c07GenVal(r, *t.Val, np)}})
		}
		return v
	case "struct":
		v := c07Val{T: "l", L: []c07Val{}}
		for _, f := range t.Fields {
			v.L = append(v.L, c07GenVal(r, f.Ty, 4))
		}
		return v
	}
	panic("c07: genval " + t.K)
}

// c07GenDict returns a whole dictionary: the enum's domain as a client such as
// pyarrow ships it, with unused entries and sometimes duplicates.
func c07GenDict(r *rand.Rand) []string {
	switch r.Intn(7) {
	case 0:
		return []string{"only"}
	case 1:
		return []string{"slow", "fast", "turbo"}
	case 2:
		return []string{"red", "green", "blue", "green", "red"}
	case 3:
		return []string{"", "a", ""}
	case 4:
		return []string{"ünï", "x y", "0", "zero-time"}
	case 5:
		d := make([]string, 130+r.Intn(200)) // more entries than an int8 index could address
		for i := range d {
			d[i] = fmt.Sprintf("m%03d", i%97)
		}
		return d
	}
	n := 2 + r.Intn(5)
	d := make([]string, n)
	for i := range d {
		d[i] = []string{"a", "b", "c", "d"}[r.Intn(4)]
	}
	return d
}

// c07DictCell picks the row's index: first / last / middle / random.
func c07DictCell(r *rand.Rand, dict []string) c07Val {
	n := len(dict)
	i := []int{0, n - 1, n / 2, r.Intn(n), r.Intn(n)}[r.Intn(5)]
	return c07Val{T: "d", I: int64(i), D: dict}
}

func c07RandTy(r *rand.Rand) c07Ty {
	ts := []c07Ty{{K: "null"}, {K: "bool"}, {K: "int", Signed: true, W: 64}, {K: "int", W: 16}, {K: "float", W: 16}, {K: "float", W: 64},
		{K: "utf8"}, {K: "large_utf8"}, {K: "binary"}, {K: "fixed", N: 3}, {K: "date32"}, {K: "date64"},
		{K: "timestamp", Unit: "ms"}, {K: "time32", Unit: "ms"}, {K: "time64", Unit: "ns"}, {K: "duration", Unit: "s"}, {K: "decimal", P: 10, S: 2}}
	return ts[r.Intn(len(ts))]
}

// c07PerturbTy returns a type that differs from t in exactly one respect (a
// cosmetic one — list item name, map keysSorted — when cosmetic is set).
func c07PerturbTy(r *rand.Rand, t c07Ty) (c07Ty, string) {
	units := []string{"s", "ms", "us", "ns"}
	other := func(u string) string {
		for {
			if v := units[r.Intn(4)]; v != u {
				return v
			}
		}
	}
	switch t.K {
	case "int":
		if r.Intn(2) == 0 {
			t.Signed = !t.Signed
			return t, "int-sign"
		}
		t.W = map[int]int{8: 16, 16: 32, 32: 64, 64: 32}[t.W]
		return t, "int-width"
	case "float":
		t.W = map[int]int{16: 32, 32: 64, 64: 32}[t.W]
		return t, "float-width"
	case "utf8":
		return c07Ty{K: []string{"large_utf8", "binary"}[r.Intn(2)]}, "utf8-kind"
	case "large_utf8":
		return c07Ty{K: "utf8"}, "utf8-kind"
	case "binary":
		return c07Ty{K: []string{"large_binary", "utf8"}[r.Intn(2)]}, "binary-kind"
	case "large_binary":
		return c07Ty{K: "binary"}, "binary-kind"
	case "fixed":
		t.N++
		return t, "fixed-width"
	case "date32":
		return c07Ty{K: "date64"}, "date-kind"
	case "timestamp":
		if r.Intn(2) == 0 {
			t.Unit = other(t.Unit)
			return t, "ts-unit"
		}
		t.TZ = map[string]string{"": "UTC", "UTC": []string{"", "utc", "Europe/Paris"}[r.Intn(3)]}[t.TZ]
		return t, "ts-tz"
	case "time64":
		if r.Intn(2) == 0 {
			return c07Ty{K: "time64", Unit: "ns"}, "time-unit"
		}
		return c07Ty{K: "time32", Unit: "ms"}, "time-width"
	case "duration":
		t.Unit = other(t.Unit)
		return t, "duration-unit"
	case "decimal":
		if r.Intn(2) == 0 {
			t.P++
		} else {
			t.S++
		}
		return t, "decimal-ps"
	case "dict":
		switch r.Intn(3) {
		case 0:
			i := c07Ty{K: "int", Signed: true, W: 32}
			t.Idx = &i
			return t, "dict-index"
		case 1:
			t.Ordered = !t.Ordered
			return t, "dict-ordered"
		}
		return c07Ty{K: "utf8"}, "dict-to-utf8"
	case "list":
		e := *t.Elem
		switch r.Intn(3) {
		case 0:
			e.Ty, _ = c07PerturbTy(r, e.Ty)
			t.Elem = &e
			return t, "list-elem-type"
		case 1:
			e.Nullable = !e.Nullable
			t.Elem = &e
			return t, "list-elem-nullable"
		}
		e.Meta = [][2]string{{"k", "v"}}
		t.Elem = &e
		return t, "list-elem-meta"
	case "map":
		switch r.Intn(3) {
		case 0:
			v, _ := c07PerturbTy(r, *t.Val)
			t.Val = &v
			return t, "map-val-type"
		case 1:
			k := c07Ty{K: "large_utf8"}
			t.Key = &k
			return t, "map-key-type"
		}
		t.VNull = !t.VNull
		return t, "map-val-nullable"
	case "struct":
		fs := append([]c07Field(nil), t.Fields...)
		i := r.Intn(len(fs))
		what := ""
		switch r.Intn(5) {
		case 0:
			fs[i].Name += "_"
			what = "struct-child-name"
		case 1:
			fs[i].Nullable = !fs[i].Nullable
			what = "struct-child-nullable"
		case 2:
			fs[i].Ty, _ = c07PerturbTy(r, fs[i].Ty)
			what = "struct-child-type"
		case 3:
			fs = append(fs, c07Field{Name: "extra", Ty: c07Ty{K: "bool"}})
			what = "struct-child-added"
		default:
			fs[i].Meta = [][2]string{{"k", "v"}}
			what = "struct-child-meta"
		}
		t.Fields = fs
		return t, what
	}
	return c07RandTy(r), "type-replaced"
}

// c07Perturb applies one schema perturbation; returns the tag.
func c07Perturb(r *rand.Rand, fs []c07Field) ([]c07Field, string) {
	fs = append([]c07Field(nil), fs...)
	n := len(fs)
	switch k := r.Intn(11); {
	case k == 0 && n >= 2: // reorder
		i := r.Intn(n - 1)
		fs[i], fs[i+1] = fs[i+1], fs[i]
		return fs, "p:reordered"
	case k == 1 && n >= 1: // rename
		i := r.Intn(n)
		fs[i].Name = []string{fs[i].Name + "x", strings.ToUpper(fs[i].Name), " " + fs[i].Name, ""}[r.Intn(4)]
		return fs, "p:renamed"
	case k == 2 && n >= 1: // narrowed
		i := r.Intn(n)
		return append(fs[:i:i], fs[i+1:]...), "p:narrowed"
	case k == 3: // widened
		extra := c07Field{Name: []string{"extra", "request", "a"}[r.Intn(3)], Ty: c07RandTy(r), Nullable: r.Intn(2) == 0}
		i := r.Intn(n + 1)
		out := append(append(append([]c07Field(nil), fs[:i]...), extra), fs[i:]...)
		return out, "p:widened"
	case (k == 4 || k == 5 || k == 6) && n >= 1: // type
		i := r.Intn(n)
		var what string
		fs[i].Ty, what = c07PerturbTy(r, fs[i].Ty)
		return fs, "p:type:" + what
	case k == 7 && n >= 1: // nullability
		i := r.Intn(n)
		fs[i].Nullable = !fs[i].Nullable
		return fs, "p:nullability"
	case k == 8 && n >= 1: // field metadata
		i := r.Intn(n)
		fs[i].Meta = [][2]string{{"note", "x"}}
		return fs, "p:field-metadata"
	case k == 9 && n >= 1: // duplicate a column
		i := r.Intn(n)
		return append(fs, fs[i]), "p:duplicated"
	case k == 10 && n >= 1: // cosmetic: list item name / map keysSorted — still equal
		for i := range fs {
			if fs[i].Ty.K == "list" {
				e := *fs[i].Ty.Elem
				e.Name = "element"
				fs[i].Ty.Elem = &e
				return fs, "p:cosmetic-list-item-name"
			}
			if fs[i].Ty.K == "map" {
				fs[i].Ty.Sorted = true
				return fs, "p:cosmetic-map-keys-sorted"
			}
		}
	}
	return fs, "p:none"
}

func c07Declared(ds []c07Decl) ([]c07Field, bool) {
	sc, err := vgirpc.SchemaForStruct(c07StructType(ds))
	if err != nil {
		return nil, false
	}
	var out []c07Field
	for _, f := range sc.Fields() {
		out = append(out, c07FieldFrom(f))
	}
	return out, true
}

func c07Vals(r *rand.Rand, fs []c07Field, nullP int) []c07Val {
	vs := make([]c07Val, len(fs))
	for i, f := range fs {
		vs[i] = c07GenVal(r, f.Ty, nullP)
	}
	return vs
}

func c07Wrap(b c07Batch, nullable bool) c07Batch { return c07Batch{Wrapped: true, Nullable: nullable, Inner: &b} }

func c07Boundary(r *rand.Rand) []c07In {
	var out []c07In
	add := func(note string, ds []c07Decl, b c07Batch) { out = append(out, c07In{Decl: ds, Sent: b, Note: note}) }
	i64 := c07Decl{Name: "x", Shape: "leaf", Kind: "int64"}
	eq := func(ds []c07Decl, nullP int) c07Batch {
		fs, _ := c07Declared(ds)
		return c07Batch{Fields: fs, Vals: c07Vals(r, fs, nullP)}
	}
	// empty struct, empty batch; and one extra column
	add("b:empty", nil, c07Batch{})
	add("b:empty-widened", nil, c07Batch{Fields: []c07Field{{Name: "x", Ty: c07Ty{K: "bool"}}}, Vals: []c07Val{{T: "b", B: true}}})
	add("b:one-equal", []c07Decl{i64}, eq([]c07Decl{i64}, 0))
	add("b:one-missing", []c07Decl{i64}, c07Batch{})
	// every family member, equal, non-null then null
	for _, c := range c07Family {
		for _, o := range c.overs {
			d := c07Decl{Name: "v", Shape: c.shape, Kind: c.kind, Kind2: c.kind2, EO: c.eo, Over: o}
			if o == "fixed_binary" {
				d.FixedN = 3
			}
			if c.shape == "struct" {
				d.Children = []c07Child{{Name: "s", Kind: "string"}, {Name: "n", Kind: "int64", Ptr: true}, {Name: "b", Kind: "bytes"},
					{Name: "e", Kind: "string", Over: "enum"}, {Name: "ds", Kind: "string", Ptr: true, Over: "dict_string"}}
			}
			for _, ptr := range []bool{false, true} {
				d.Ptr = ptr
				add("b:family-equal", []c07Decl{d}, eq([]c07Decl{d}, 0))
				add("b:family-null", []c07Decl{d}, eq([]c07Decl{d}, 1))
			}
		}
	}
	// dictionary-encoded parameters: the dictionary carries the whole domain
	// (unused entries, duplicates) and the row's index selects entry 0 / the
	// last / a middle one / nothing (null); for enum and dict_string, as a
	// field, a pointer field, a list item and a struct child, plain and wrapped
	{
		dom := []string{"slow", "fast", "turbo", "fast", "eco"}
		cell := func(i int) c07Val { return c07Val{T: "d", I: int64(i), D: dom} }
		for _, o := range []string{"enum", "dict_string"} {
			for _, ptr := range []bool{false, true} {
				d := c07Decl{Name: "mode", Shape: "leaf", Kind: "string", Over: o, Ptr: ptr}
				ds := []c07Decl{i64, d}
				for _, i := range []int{0, 4, 2, 3, 1} {
					b := eq(ds, 0)
					b.Vals[1] = cell(i)
					add("b:dict-index", ds, b)
				}
				b := eq(ds, 0)
				b.Vals[1] = c07Val{T: "n"}
				add("b:dict-null-index", ds, b)
				b = eq(ds, 0)
				b.Vals[1] = c07Val{T: "d", I: 0, D: []string{"only"}}
				add("b:dict-single-entry", ds, b)
				b = eq(ds, 0)
				b.Vals[1] = cell(2)
				add("b:dict-wrapped", ds, c07Wrap(b, false))
			}
			dd := c07Decl{Name: "mode", Shape: "leaf", Kind: "string", Over: o, Nullable: true, Default: sp("eco")}
			b := eq([]c07Decl{dd}, 0)
			b.Vals[0] = c07Val{T: "n"}
			add("b:dict-null-default", []c07Decl{dd}, b)
			sl := []c07Decl{{Name: "modes", Shape: "slice", Kind: "string", EO: o}}
			b = eq(sl, 0)
			b.Vals[0] = c07Val{T: "l", L: []c07Val{cell(4), cell(0), {T: "n"}, cell(2), cell(3)}}
			add("b:dict-list-items", sl, b)
			b = eq(sl, 0)
			b.Vals[0] = c07Val{T: "l", L: []c07Val{}}
			add("b:dict-list-empty", sl, b)
			st := []c07Decl{{Name: "cfg", Shape: "struct", Over: "struct", Children: []c07Child{
				{Name: "n", Kind: "int64"}, {Name: "mode", Kind: "string", Over: o}, {Name: "alt", Kind: "string", Ptr: true, Over: o}}}}
			b = eq(st, 0)
			b.Vals[0] = c07Val{T: "l", L: []c07Val{{T: "i", I: 5}, cell(2), cell(4)}}
			add("b:dict-struct-child", st, b)
			b = eq(st, 0)
			b.Vals[0] = c07Val{T: "l", L: []c07Val{{T: "i", I: 5}, cell(1), {T: "n"}}}
			add("b:dict-struct-child-null", st, b)
		}
	}
	// defaults on every leaf kind, pointer and not: null and non-null cells
	for _, k := range []string{"string", "int", "int64", "int32", "int16", "int8", "uint64", "uint32", "uint16", "uint8", "float64", "float32", "bool", "duration", "bytes"} {
		for j := 0; j < 6; j++ {
			d := c07Decl{Name: "d", Shape: "leaf", Kind: k, Nullable: j%2 == 0, Ptr: j%3 == 0, Default: c07Default(r, k)}
			add("b:default-null", []c07Decl{i64, d}, func() c07Batch { b := eq([]c07Decl{i64, d}, 0); b.Vals[1] = c07Val{T: "n"}; return b }())
			if j < 2 {
				add("b:default-nonnull", []c07Decl{i64, d}, eq([]c07Decl{i64, d}, 0))
			}
		}
	}
	// a failing default after a good one, and before one: the first failure decides
	{
		ds := []c07Decl{{Name: "a", Shape: "leaf", Kind: "int64", Nullable: true, Default: sp("1")},
			{Name: "b", Shape: "leaf", Kind: "int8", Nullable: true, Default: sp("300")},
			{Name: "c", Shape: "leaf", Kind: "string", Nullable: true, Default: sp("z")}}
		add("b:default-second-fails", ds, eq(ds, 1))
	}
	// the reserved request shape
	two := []c07Decl{{Name: "a", Shape: "leaf", Kind: "string"}, {Name: "n", Shape: "leaf", Kind: "int64", Nullable: true, Default: sp("9")}}
	add("b:wrapped-equal", two, c07Wrap(eq(two, 0), false))
	add("b:wrapped-equal-null", two, c07Wrap(eq(two, 1), true))
	add("b:wrapped-twice", two, c07Wrap(c07Wrap(eq(two, 0), false), true))
	{
		fs, _ := c07Declared(two)
		p, _ := c07Perturb(r, fs)
		add("b:wrapped-mismatch", two, c07Wrap(c07Batch{Fields: p, Vals: c07Vals(r, p, 0)}, false))
		add("b:wrapped-no-batch", two, c07Batch{Wrapped: true, Fields: fs})
	}
	reqF := func(nl bool) []c07Field { return []c07Field{{Name: "request", Ty: c07Ty{K: "binary"}, Nullable: nl}} }
	add("b:request-garbage", two, c07Batch{Fields: reqF(false), Vals: []c07Val{{T: "s", S: []byte("not an ipc stream")}}})
	add("b:request-null", two, c07Batch{Fields: reqF(true), Vals: []c07Val{{T: "n"}}})
	add("b:request-empty", two, c07Batch{Fields: reqF(false), Vals: []c07Val{{T: "s", S: []byte{}}}})
	// a declared lone binary request (the shape the property excludes): null / empty cells bind directly
	lone := []c07Decl{{Name: "request", Shape: "leaf", Kind: "bytes", Nullable: true}}
	add("b:declared-request-null", lone, c07Batch{Fields: reqF(true), Vals: []c07Val{{T: "n"}}})
	add("b:declared-request-empty", lone, c07Batch{Fields: reqF(true), Vals: []c07Val{{T: "s", S: []byte{}}}})
	add("b:declared-request-garbage", lone, c07Batch{Fields: reqF(true), Vals: []c07Val{{T: "s", S: []byte("zz")}}})
	// a utf8 column named request is not the reserved shape
	sreq := []c07Decl{{Name: "request", Shape: "leaf", Kind: "string"}}
	add("b:utf8-request", sreq, eq(sreq, 0))
	// duplicate declared names: positional binding
	dup := []c07Decl{{Name: "a", Shape: "leaf", Kind: "int64"}, {Name: "a", Shape: "leaf", Kind: "int64"}, {Name: "a", Shape: "leaf", Kind: "string"}}
	add("b:duplicate-names", dup, eq(dup, 0))
	// schema-level metadata is ignored
	{
		b := eq(two, 0)
		b.SchemaMeta = true
		add("b:schema-metadata", two, b)
	}
	// registration errors
	add("b:reg-time-no-tag", []c07Decl{{Name: "t", Shape: "leaf", Kind: "time"}}, c07Batch{})
	add("b:reg-struct-no-tag", []c07Decl{{Name: "s", Shape: "struct", Children: []c07Child{{Name: "c", Kind: "bool"}}}}, c07Batch{})
	add("b:reg-struct-tag-on-leaf", []c07Decl{{Name: "s", Shape: "leaf", Kind: "int64", Over: "struct"}}, c07Batch{})
	// a tag type that does not fit the Go kind: equal schema, binding cannot work
	bad := []c07Decl{{Name: "s", Shape: "leaf", Kind: "string", Over: "int32"}}
	add("b:kind-mismatch", bad, eq(bad, 0))
	add("b:kind-mismatch-null", bad, eq(bad, 1))
	return out
}

func c07Gen(r *rand.Rand, n int, tier string) []c07In {
	out := c07Boundary(r)
	for len(out) < n {
		nf := r.Intn(5)
		if r.Intn(10) == 0 {
			nf = 5 + r.Intn(4)
		}
		rare := r.Intn(8) == 0 // defaults also on kinds that take none
		var ds []c07Decl
		for i := 0; i < nf; i++ {
			d := c07GenDecl(r, rare)
			if r.Intn(3) != 0 { // mostly distinct names
				d.Name = fmt.Sprintf("%s%d", d.Name, i)
			}
			ds = append(ds, d)
		}
		if r.Intn(40) == 0 { // malformed declarations
			ds = append(ds, []c07Decl{{Name: "t", Shape: "leaf", Kind: "time"}, {Name: "s", Shape: "leaf", Kind: "string", Over: "int32"},
				{Name: "f", Shape: "leaf", Kind: "bytes", Over: "fixed_binary", FixedN: 0}, {Name: "i", Shape: "leaf", Kind: "int64", Over: "large_string"}}[r.Intn(4)])
		}
		fs, ok := c07Declared(ds)
		if !ok {
			out = append(out, c07In{Decl: ds, Sent: c07Batch{}, Note: "g:reg-error"})
			continue
		}
		note := "g:equal"
		if r.Intn(100) < 55 {
			fs, note = c07Perturb(r, fs)
			if r.Intn(6) == 0 {
				var n2 string
				fs, n2 = c07Perturb(r, fs)
				note += "+" + strings.TrimPrefix(n2, "p:")
			}
			note = "g:" + note
		}
		nullP := []int{0, 0, 6, 3, 1}[r.Intn(5)]
		b := c07Batch{Fields: fs, Vals: c07Vals(r, fs, nullP)}
		switch r.Intn(12) {
		case 0:
			b = c07Wrap(b, r.Intn(2) == 0)
		case 1:
			b = c07Wrap(c07Wrap(b, false), r.Intn(2) == 0)
		case 2:
			if r.Intn(3) == 0 {
				b = c07Batch{Wrapped: true, Nullable: r.Intn(2) == 0, Fields: fs}
				note += "+no-batch"
			}
		case 3:
			b.SchemaMeta = true
		}
		out = append(out, c07In{Decl: ds, Sent: b, Note: note})
	}
	return out
}

func init() {
	Register("C07", "boundary set first (every member of the struct-tag family x pointer x null, every supported default kind, the reserved request shapes, duplicate names, registration errors), then random tagged structs of 0-8 fields from the family with batches that are equal (45%) or perturbed once or twice (reordered, renamed, narrowed, widened, duplicated, type-, nullability-, metadata-perturbed at any nesting level, cosmetic list-item-name / keysSorted), cells null with probability 0..1, optionally wrapped once or twice in the request column; every case drives the real Serve path and is non-trivial; distinct = distinct input JSON",
		c07Gen, c07Run)
}
