package main

import (
	"context"
	"crypto/sha256"
	"encoding/base64"
	"encoding/hex"
	"fmt"
	"math/rand"
	"regexp"
	"sort"
	"strconv"
	"strings"
	"time"

	"github.com/apache/arrow-go/v18/arrow"
	"github.com/apache/arrow-go/v18/arrow/array"

	"github.com/Query-farm/vgi-rpc-go/vgirpc"
)

// C12 — forged or altered state tokens never reach stream state.
//
// One case = one fresh real HttpServer (scripted surface prod / exch, a rehydrate
// callback and a dispatch hook that only record that they ran, token key of the
// case's length) plus a table of REFERENCE tokens really sealed by real servers:
// two /init calls over HTTP on the server under test, one /init on the other route,
// a second server whose key normalizeTokenKey maps to the same AEAD key, servers
// with foreign keys, and tokens only a key holder could seal (expired, unknown codec
// tag, bad zstd, bad gob, empty payload; through vgirpc/verif_c12.go). The case then
// PRESENTS mutations of those tokens in continuation requests over HTTP
// (POST /<method>/exchange) — single families or exhaustive sweeps (every bit of the
// text, every truncation, all 256 version bytes, all 256 values of one character,
// every bit of the raw envelope) — with the call-state cache enabled or disabled.
// Per presentation: status, body class, identity of the body bytes, the user code
// that ran (rehydrate, dispatch hook, state method, in order), accepted.

type c12Mut struct {
	M string `json:"m"` // none id lit flip trunc setchar ins append url nopad setver rawflip rawtrunc rawappend
	R int    `json:"r,omitempty"`
	A int    `json:"a,omitempty"`
	B int    `json:"b,omitempty"`
	T string `json:"t,omitempty"` // hex
}

type c12Fam struct {
	F    string  `json:"f"` // one flips truncs vers chars rawflips
	S    string  `json:"s,omitempty"`
	R    int     `json:"r,omitempty"`
	P    int     `json:"p,omitempty"`
	Lo   int     `json:"lo,omitempty"`
	Hi   int     `json:"hi,omitempty"` // -1 = to the end of the token
	Cur  *c12Mut `json:"cur,omitempty"`
	Call *c12Mut `json:"call,omitempty"`
}

type c12In struct {
	Route   string   `json:"route"` // prod | exch
	Cold    bool     `json:"cold"`
	Cancel  bool     `json:"cancel,omitempty"` // every presentation is a CANCEL continuation (vgi_rpc cancel key set, empty-schema batch)
	KeyLen  int      `json:"keylen"`
	Turns   int      `json:"turns"`
	Foreign []int    `json:"foreign,omitempty"` // key lengths of foreign servers
	Fams    []c12Fam `json:"fams"`
	Note    string   `json:"note,omitempty"`
}

// reference table layout
const (
	c12CurA = iota
	c12CallA
	c12CurB
	c12CallB
	c12CurO // /init of the other route's method
	c12CallO
	c12CurN // a second server holding the same (normalised) key
	c12CallN
	c12CurExp
	c12CallExp // expired call token (call id 4, like c12CurExp); its unexpired cursor is the last reference
	c12Empty
	c12BadTag
	c12BadZstd
	c12BadGob
	c12Foreign0 // cursor, call of foreign server j at c12Foreign0+2j, +2j+1
)

type c12Ref struct {
	text string
	key  int
	slot string
	pay  string // Coq payload term
}

type c12Hook struct{ sf *Surface }

func (h c12Hook) OnDispatchStart(ctx context.Context, _ vgirpc.DispatchInfo) (context.Context, vgirpc.HookToken) {
	h.sf.trace("H")
	return ctx, nil
}
func (h c12Hook) OnDispatchEnd(context.Context, vgirpc.HookToken, vgirpc.DispatchInfo, *vgirpc.CallStatistics, error) {
	h.sf.trace("E")
}

type c12Srv struct {
	sf *Surface
	h  *vgirpc.HttpServer
}

func c12Key(n int, salt byte) []byte {
	k := make([]byte, n)
	for i := range k {
		k[i] = byte(i*7+3) ^ salt
	}
	return k
}

func c12NewSrv(key []byte, sf *Surface) *c12Srv {
	if sf == nil {
		sf = newSurface()
	}
	s := NewScriptedServer(sf)
	s.SetDispatchHook(c12Hook{sf})
	h, err := vgirpc.NewHttpServerWithKey(s, key)
	if err != nil {
		panic(err)
	}
	h.SetProducerBatchLimit(1)
	h.SetRehydrateFunc(func(interface{}, string) error { sf.trace("R"); return nil })
	return &c12Srv{sf: sf, h: h}
}

func (s *c12Srv) init(method string, turns int) (cur, call string) {
	ts := make([]TurnScript, turns+2) // a producer consumes one turn in /init itself
	for i := range ts {
		ts[i] = TurnScript{Act: "emit", Value: int64(i + 1)}
	}
	s.sf.PushStream(StreamScript{Turns: ts, Canceller: true}) // states implement StreamCanceller: OnCancel is observable
	r := DoHTTP(s.h, "POST", "/"+method+"/init", ReqBytes(PIntBatch(1), StdMeta(method, "", "")), nil)
	c, k := vgirpc.FindStreamTokens(r.Body)
	if r.Status != 200 || c == nil || k == nil {
		panic(fmt.Sprintf("c12: /%s/init failed: status %d", method, r.Status))
	}
	return string(c), string(k)
}

func c12Other(route string) string {
	if route == "prod" {
		return "exch"
	}
	return "prod"
}
func c12Route(r string) string {
	if r == "prod" {
		return "C12.RProd"
	}
	return "C12.RExch"
}
func c12Slot(s string) string {
	if s == "call" {
		return "C12.SCall"
	}
	return "C12.SCursor"
}

func c12Lenient(t string) []byte {
	raw, err := base64.StdEncoding.DecodeString(t)
	if err != nil {
		return nil
	}
	return raw
}

func c12Apply(refs []c12Ref, m *c12Mut) (string, bool) {
	if m == nil || m.M == "none" {
		return "", false
	}
	text := ""
	if m.R >= 0 && m.R < len(refs) {
		text = refs[m.R].text
	}
	lit, _ := hex.DecodeString(m.T)
	b := []byte(text)
	raw := c12Lenient(text)
	switch m.M {
	case "id":
	case "lit":
		b = lit
	case "flip":
		if m.A < len(b) {
			b[m.A] ^= 1 << uint(m.B)
		}
	case "trunc":
		if m.A < len(b) {
			b = b[:m.A]
		}
	case "setchar":
		if m.A < len(b) {
			b[m.A] = byte(m.B)
		}
	case "ins":
		p := m.A
		if p > len(b) {
			p = len(b)
		}
		b = append(append(append([]byte{}, b[:p]...), byte(m.B)), b[p:]...)
	case "append":
		b = append(b, lit...)
	case "url":
		b = []byte(strings.NewReplacer("+", "-", "/", "_").Replace(text))
	case "nopad":
		b = []byte(strings.ReplaceAll(text, "=", ""))
	case "setver":
		r := []byte{byte(m.A)}
		if len(raw) > 0 {
			r = append(r, raw[1:]...)
		}
		b = []byte(base64.StdEncoding.EncodeToString(r))
	case "rawflip":
		r := append([]byte{}, raw...)
		if m.A < len(r) {
			r[m.A] ^= 1 << uint(m.B)
		}
		b = []byte(base64.StdEncoding.EncodeToString(r))
	case "rawtrunc":
		r := raw
		if m.A < len(r) {
			r = r[:m.A]
		}
		b = []byte(base64.StdEncoding.EncodeToString(r))
	case "rawappend":
		b = []byte(base64.StdEncoding.EncodeToString(append(append([]byte{}, raw...), lit...)))
	default:
		panic("c12: unknown mutation " + m.M)
	}
	return string(b), true
}

func (m *c12Mut) coq() string {
	if m == nil {
		return "C12.MNone"
	}
	lit, _ := hex.DecodeString(m.T)
	switch m.M {
	case "none":
		return "C12.MNone"
	case "id":
		return App("C12.MId", Nat(m.R))
	case "lit":
		return App("C12.MLit", B(string(lit)))
	case "flip":
		return App("C12.MFlip", Nat(m.R), Nat(m.A), N(uint64(m.B)))
	case "trunc":
		return App("C12.MTrunc", Nat(m.R), Nat(m.A))
	case "setchar":
		return App("C12.MSetChar", Nat(m.R), Nat(m.A), N(uint64(m.B)))
	case "ins":
		return App("C12.MIns", Nat(m.R), Nat(m.A), N(uint64(m.B)))
	case "append":
		return App("C12.MAppend", Nat(m.R), B(string(lit)))
	case "url":
		return App("C12.MUrl", Nat(m.R))
	case "nopad":
		return App("C12.MNoPad", Nat(m.R))
	case "setver":
		return App("C12.MSetVer", Nat(m.R), N(uint64(m.A)))
	case "rawflip":
		return App("C12.MRawFlip", Nat(m.R), Nat(m.A), N(uint64(m.B)))
	case "rawtrunc":
		return App("C12.MRawTrunc", Nat(m.R), Nat(m.A))
	case "rawappend":
		return App("C12.MRawAppend", Nat(m.R), B(string(lit)))
	}
	panic("c12: unknown mutation " + m.M)
}

type c12Pres struct {
	cur, call *c12Mut
	tag       string
}

func c12PairFor(slot string, partner int, m *c12Mut) (cur, call *c12Mut) {
	if slot == "call" {
		return &c12Mut{M: "id", R: partner}, m
	}
	return m, &c12Mut{M: "id", R: partner}
}

// c12Expand mirrors C12.expand1; hi = -1 is resolved against the real token here
// (and rendered resolved into the Coq term).
func c12Expand(refs []c12Ref, f *c12Fam) []c12Pres {
	var out []c12Pres
	add := func(m *c12Mut, tag string) {
		c, k := c12PairFor(f.S, f.P, m)
		out = append(out, c12Pres{c, k, tag})
	}
	switch f.F {
	case "one":
		t := "one:"
		if f.Cur != nil {
			t += f.Cur.M
		} else {
			t += "none"
		}
		t += "/"
		if f.Call != nil {
			t += f.Call.M
		} else {
			t += "none"
		}
		out = append(out, c12Pres{f.Cur, f.Call, t})
	case "flips":
		for p := f.Lo; p < f.Hi; p++ {
			for b := 0; b < 8; b++ {
				add(&c12Mut{M: "flip", R: f.R, A: p, B: b}, "sweep:textflip-"+f.S)
			}
		}
	case "truncs":
		for n := f.Lo; n < f.Hi; n++ {
			add(&c12Mut{M: "trunc", R: f.R, A: n}, "sweep:trunc-"+f.S)
		}
	case "vers":
		for v := 0; v < 256; v++ {
			add(&c12Mut{M: "setver", R: f.R, A: v}, "sweep:version-"+f.S)
		}
	case "chars":
		for c := 0; c < 256; c++ {
			add(&c12Mut{M: "setchar", R: f.R, A: f.Lo, B: c}, "sweep:char-"+f.S)
		}
	case "rawflips":
		for p := f.Lo; p < f.Hi; p++ {
			for b := 0; b < 8; b++ {
				add(&c12Mut{M: "rawflip", R: f.R, A: p, B: b}, "sweep:rawflip-"+f.S)
			}
		}
	default:
		panic("c12: unknown family " + f.F)
	}
	return out
}

func (f *c12Fam) coq() string {
	switch f.F {
	case "one":
		return App("C12.FOne", f.Cur.coq(), f.Call.coq())
	case "flips":
		return App("C12.FFlips", c12Slot(f.S), Nat(f.R), Nat(f.P), Nat(f.Lo), Nat(f.Hi))
	case "truncs":
		return App("C12.FTruncs", c12Slot(f.S), Nat(f.R), Nat(f.P), Nat(f.Lo), Nat(f.Hi))
	case "vers":
		return App("C12.FVers", c12Slot(f.S), Nat(f.R), Nat(f.P))
	case "chars":
		return App("C12.FChars", c12Slot(f.S), Nat(f.R), Nat(f.P), Nat(f.Lo))
	case "rawflips":
		return App("C12.FRawFlips", c12Slot(f.S), Nat(f.R), Nat(f.P), Nat(f.Lo), Nat(f.Hi))
	}
	panic("c12: unknown family " + f.F)
}

var (
	c12VerRe   = regexp.MustCompile(`Unsupported state token version (\d+) \(expected (\d+)\)`)
	c12MsgMal  string
	c12MsgSig  string
	c12MsgOnce = false
)

func c12Msgs() {
	if c12MsgOnce {
		return
	}
	c12MsgOnce = true
	for _, c := range vgirpc.VerifConstants() {
		switch c.Name {
		case "c12_msg_malformed":
			c12MsgMal = c.Bytes
		case "c12_msg_signature":
			c12MsgSig = c.Bytes
		}
	}
}

// c12Label classifies a response body; ok = a data/token response without error.
func c12Label(r HTTPResp) string {
	c12Msgs()
	msg := ""
	exc := false
	for _, st := range ParseStreams(r.Body) {
		for _, f := range st.Frames {
			if f.Kind == "exc" && !exc {
				exc, msg = true, f.Msg
			}
		}
	}
	if !exc {
		if r.Status == 200 && r.Header.Get("X-VGI-RPC-Error") == "" && r.Panic == nil {
			return "C12.LOk"
		}
		return "C12.LOther"
	}
	switch {
	case c12MsgMal != "" && strings.HasSuffix(msg, c12MsgMal):
		return "C12.LMalformed"
	case c12MsgSig != "" && strings.HasSuffix(msg, c12MsgSig):
		return "C12.LSignature"
	case strings.Contains(msg, "Missing state token in exchange request"):
		return "C12.LMissingState"
	case strings.Contains(msg, "Missing call token in exchange request"):
		return "C12.LMissingCall"
	case strings.Contains(msg, "State token expired"):
		return "C12.LExpired"
	case strings.Contains(msg, "was not issued for method"):
		return "C12.LWrongMethod"
	case strings.Contains(msg, "state token decode"):
		return "C12.LDecode"
	}
	if m := c12VerRe.FindStringSubmatch(msg); m != nil && strings.HasSuffix(msg, m[0]) {
		v, _ := strconv.Atoi(m[1])
		e, _ := strconv.Atoi(m[2])
		return App("C12.LVersion", N(uint64(v)), N(uint64(e)))
	}
	return "C12.LOther"
}

func c12Run(in c12In) CaseOut {
	key := c12Key(in.KeyLen, 0)
	srv := c12NewSrv(key, nil)
	defer srv.sf.Close()
	other := c12Other(in.Route)
	now := time.Now().Unix()

	tagset := map[string]bool{"route-" + in.Route: true, fmt.Sprintf("cold-%v", in.Cold): true, fmt.Sprintf("keylen-%d", in.KeyLen): true, fmt.Sprintf("cancel-%v", in.Cancel): true}
	// ---- reference tokens ---------------------------------------------------
	var refs []c12Ref
	add := func(text string, keyClass int, slot, pay string) {
		refs = append(refs, c12Ref{text, keyClass, slot, pay})
	}
	pair := func(s *c12Srv, method string, keyClass, callID int) {
		c, k := s.init(method, in.Turns)
		add(c, keyClass, "cursor", App("C12.PCursor", "false", N(uint64(callID))))
		add(k, keyClass, "call", App("C12.PCall", "false", N(uint64(callID)), c12Route(method)))
	}
	pair(srv, in.Route, 0, 0)
	pair(srv, in.Route, 0, 1)
	pair(srv, other, 0, 2)
	// a second server whose key normalizeTokenKey maps to the same AEAD key
	nkey := key
	if len(key) != 32 {
		nkey = vgirpc.VerifC12NormalizeKey(key)
	}
	same := c12NewSrv(nkey, srv.sf) // shares the surface: its states trace into the same log
	pair(same, in.Route, 0, 3)
	// what only a key holder could seal
	must := func(b []byte, err error) string {
		if err != nil {
			panic(err)
		}
		return string(b)
	}
	st := &ScriptStateC{ScriptState{SID: srv.sf.ID, Turns: []TurnScript{{Act: "emit", Value: 1}}}}
	curAad, _ := vgirpc.VerifC12Aads(nil)
	verCur, _ := vgirpc.VerifC12Versions()
	tagRaw, tagZstd := vgirpc.VerifC12CodecTags()
	idExp := "00000000000000000000000000000004"
	add(must(vgirpc.VerifC12MintCursor(srv.h, idExp, st, nil, now-7200)), 0, "cursor", "(C12.PCursor true 4)")
	// an expired PAIR for call id 4 (the real call ids of the /init calls are not observable from outside)
	add(must(vgirpc.VerifC12MintCall(srv.h, in.Route, idExp, "verif-stream", nil, now-7200)), 0, "call", App("C12.PCall", "true", "4", c12Route(in.Route)))
	add(must(vgirpc.VerifC12SealPacked(srv.h, verCur, nil, curAad)), 0, "cursor", "C12.PEmpty")
	add(must(vgirpc.VerifC12SealPacked(srv.h, verCur, []byte{0x7f, 1, 2, 3}, curAad)), 0, "cursor", "C12.PBadTag")
	add(must(vgirpc.VerifC12SealPacked(srv.h, verCur, []byte{tagZstd, 1, 2, 3, 4, 5}, curAad)), 0, "cursor", "C12.PBadZstd")
	add(must(vgirpc.VerifC12SealPacked(srv.h, verCur, []byte{tagRaw, 0xff, 0xfe, 0xfd, 0x01}, curAad)), 0, "cursor", "C12.PBadGob")
	for j, n := range in.Foreign {
		fk := c12Key(n%1000, byte(0x55+j))
		if n >= 1000 { // a key RELATED to this server's: same prefix, longer / shorter / last byte changed
			fk = append([]byte{}, key...)
			for len(fk) < n%1000 {
				fk = append(fk, byte(0xa0+len(fk)))
			}
			fk = fk[:n%1000]
			if len(fk) == len(key) {
				fk[len(fk)-1] ^= 1
			}
			tagset["foreign-key-shares-prefix"] = true
		}
		f := c12NewSrv(fk, srv.sf)
		pair(f, in.Route, j+1, 5+j)
	}
	// an unexpired cursor for the expired call token's id (index c12Foreign0 + 2*len(in.Foreign))
	add(must(vgirpc.VerifC12MintCursor(srv.h, idExp, st, nil, now)), 0, "cursor", "(C12.PCursor false 4)")

	if in.Cold {
		srv.h.SetCallStateCacheEntries(0)
	}

	// ---- presentations ------------------------------------------------------
	used := map[int]bool{}
	var fams []c12Fam
	var pres []c12Pres
	for _, f := range in.Fams {
		g := f
		if g.F != "one" && g.R >= 0 && g.R < len(refs) {
			n := len(refs[g.R].text)
			if g.F == "rawflips" {
				n = len(c12Lenient(refs[g.R].text))
			}
			if g.Hi < 0 || g.Hi > n+2 {
				g.Hi = n + 1 // one position past the end: the mutation is the identity there
				if g.F == "truncs" {
					g.Hi = n + 1
				}
			}
			if g.Lo == -100 { // the last data character (the one holding the slack bits)
				g.Lo = len(strings.TrimRight(refs[g.R].text, "=")) - 1
			}
			if g.Lo < 0 {
				g.Lo = n + g.Lo // negative = counted from the end
				if g.Lo < 0 {
					g.Lo = 0
				}
			}
		}
		used[g.R], used[g.P] = true, true
		for _, m := range []*c12Mut{g.Cur, g.Call} {
			if m != nil {
				used[m.R] = true
			}
		}
		fams = append(fams, g)
		pres = append(pres, c12Expand(refs, &g)...)
	}

	exchBody := func(cur, call string, hasCur, hasCall bool) []byte {
		var keys, vals []string
		if hasCur {
			keys, vals = append(keys, vgirpc.MetaStreamState), append(vals, cur)
		}
		if hasCall {
			keys, vals = append(keys, vgirpc.MetaCallState), append(vals, call)
		}
		var b arrow.RecordBatch
		if in.Cancel {
			keys, vals = append(keys, vgirpc.MetaCancel), append(vals, "true")
		}
		if in.Route == "exch" && !in.Cancel {
			b = PIntBatch(1)
		} else {
			b = array.NewRecordBatch(arrow.NewSchema(nil, nil), nil, 0)
		}
		defer b.Release()
		return c13IPC(b, arrow.NewMetadata(keys, vals))
	}

	dict := map[string]int{}
	var dictOrder []string
	var idxs []int
	bodyIDs := map[[32]byte]int{}
	type sample struct {
		Tag    string `json:"tag"`
		Status int    `json:"status"`
		Label  string `json:"label"`
		Body   int    `json:"body"`
		Evs    string `json:"evs"`
		Acc    bool   `json:"acc"`
	}
	var samples []sample
	counts := map[string]int{}
	nAcc, nRef := 0, 0
	for _, p := range pres {
		cur, hasCur := c12Apply(refs, p.cur)
		call, hasCall := c12Apply(refs, p.call)
		srv.sf.mu.Lock()
		srv.sf.Trace = nil
		srv.sf.mu.Unlock()
		r := DoHTTP(srv.h, "POST", "/"+in.Route+"/exchange", exchBody(cur, call, hasCur, hasCall), nil)
		label := c12Label(r)
		status := r.Status
		if r.Panic != nil {
			status = 599
		}
		if r.Header.Get("X-VGI-RPC-Error") != "" {
			status = 500
		}
		var evs []string
		srv.sf.mu.Lock()
		for _, e := range srv.sf.Trace {
			switch {
			case e == "R":
				evs = append(evs, "1")
			case e == "H":
				evs = append(evs, "2")
			case e == "E":
				evs = append(evs, "4")
			case strings.HasPrefix(e, "cancel@"):
				evs = append(evs, "5")
			case strings.HasPrefix(e, "produce#") || strings.HasPrefix(e, "exchange#"):
				evs = append(evs, "3")
			default:
				evs = append(evs, "9")
			}
		}
		srv.sf.mu.Unlock()
		acc := status == 200 && label == "C12.LOk"
		bid := 0
		if label != "C12.LOk" && label != "C12.LExpired" && label != "C12.LDecode" {
			h := sha256.Sum256(append([]byte(strconv.Itoa(r.Status)+"|"+r.Header.Get("X-VGI-RPC-Error")+"|"), r.Body...))
			if id, ok := bodyIDs[h]; ok {
				bid = id
			} else {
				bid = len(bodyIDs) + 1
				bodyIDs[h] = bid
			}
		}
		term := App("C12.po", strconv.Itoa(status), label, strconv.Itoa(bid), List(evs), Bool(acc))
		d, ok := dict[term]
		if !ok {
			d = len(dictOrder)
			dict[term] = d
			dictOrder = append(dictOrder, term)
		}
		idxs = append(idxs, d)
		lab := strings.TrimPrefix(strings.Fields(strings.Trim(label, "()"))[0], "C12.")
		tagset[p.tag] = true
		cls := "refused:" + lab
		if acc {
			cls = "accepted"
			nAcc++
		} else {
			nRef++
		}
		tagset[cls] = true
		counts[p.tag+" -> "+cls]++
		if len(samples) < 12 || (acc && p.tag != "one:id/id" && len(samples) < 40) {
			samples = append(samples, sample{p.tag, status, label, bid, strings.Join(evs, ""), acc})
		}
	}

	// ---- Coq terms ------------------------------------------------------------
	coqRefs := make([]string, len(refs))
	for i, r := range refs {
		text := "[]"
		if used[i] {
			text = `(str "` + r.text + `")`
		}
		coqRefs[i] = fmt.Sprintf("{| C12.r_text := %s; C12.r_key := %s; C12.r_slot := %s; C12.r_pay := %s |}",
			text, N(uint64(r.key)), c12Slot(r.slot), r.pay)
	}
	coqFams := make([]string, len(fams))
	for i := range fams {
		coqFams[i] = fams[i].coq()
	}
	warm := List([]string{Pair("0", c12Route(in.Route)), Pair("1", c12Route(in.Route)), Pair("2", c12Route(other))})
	input := fmt.Sprintf("{| C12.i_route := %s; C12.i_cold := %s; C12.i_cancel := %s; C12.i_refs := %s; C12.i_warm := %s; C12.i_fams := %s |}",
		c12Route(in.Route), Bool(in.Cold), Bool(in.Cancel), List(coqRefs), warm, List(coqFams))
	// distinct observations, distinct runs of eight of them, the sequence of runs
	pack := func(wide bool) (blocks []string, stream []byte, ok bool) {
		put := func(b []byte, v int) []byte {
			if wide {
				return append(b, byte(v>>8), byte(v))
			}
			return append(b, byte(v))
		}
		blockID := map[string]int{}
		for i := 0; i < len(idxs); i += 8 {
			var b []byte
			for _, d := range idxs[i:min(i+8, len(idxs))] {
				b = put(b, d)
			}
			id, seen := blockID[string(b)]
			if !seen {
				id = len(blocks)
				blockID[string(b)] = id
				blocks = append(blocks, B(string(b)))
			}
			stream = put(stream, id)
		}
		return blocks, stream, wide || (len(dictOrder) <= 256 && len(blocks) <= 256)
	}
	wide := false
	blocks, stream, fits := pack(false)
	if !fits {
		wide = true
		blocks, stream, _ = pack(true)
	}
	obs := App("C12.unpack", Bool(wide), List(dictOrder), List(blocks), B(string(stream)))

	var tags []string
	for t := range tagset {
		tags = append(tags, t)
	}
	sort.Strings(tags)
	return CaseOut{
		Coq:        Pair(input, obs),
		Tags:       tags,
		Nontrivial: nAcc > 0 && nRef > 0,
		Obs: map[string]any{"presentations": len(pres), "accepted": nAcc, "refused": nRef, "distinct_refusal_bodies": len(bodyIDs),
			"token_lengths": map[string]int{"cursor": len(refs[c12CurA].text), "call": len(refs[c12CallA].text)},
			"by_class":      counts, "samples": samples},
	}
}

// ---------------------------------------------------------------- generators

func c12One(cur, call *c12Mut) c12Fam { return c12Fam{F: "one", Cur: cur, Call: call} }
func c12ID(r int) *c12Mut             { return &c12Mut{M: "id", R: r} }
func c12Hex(s string) string          { return hex.EncodeToString([]byte(s)) }

// c12Singles: every distinct way of presenting something at the two slots.
func c12Singles(nForeign int) []c12Fam {
	a, k := c12ID(c12CurA), c12ID(c12CallA)
	none := &c12Mut{M: "none"}
	lit := func(s string) *c12Mut { return &c12Mut{M: "lit", T: c12Hex(s)} }
	var fs []c12Fam
	both := func(m func(r int) *c12Mut) {
		fs = append(fs, c12One(m(c12CurA), k), c12One(a, m(c12CallA)))
	}
	fs = append(fs,
		c12One(a, k), c12One(a, k), // verbatim, twice (no replay protection: stateless)
		c12One(c12ID(c12CurB), c12ID(c12CallB)),
		c12One(a, none), c12One(a, lit("")), c12One(none, k), c12One(lit(""), k), c12One(none, none),
		c12One(c12ID(c12CallA), c12ID(c12CurA)),                  // swapped slots
		c12One(a, c12ID(c12CallB)),                               // another call's call token
		c12One(c12ID(c12CurB), k),                                //
		c12One(c12ID(c12CurO), c12ID(c12CallO)),                  // minted by the other method's /init
		c12One(c12ID(c12CurN), c12ID(c12CallN)),                  // same normalised key, other server
		c12One(c12ID(c12CurN), c12ID(c12CallN)),                  // (again: cache now knows the call)
		c12One(c12ID(c12CurN), none),                             //
		c12One(c12ID(c12CurExp), c12ID(c12CallExp)),              // expired cursor
		c12One(c12ID(c12Foreign0+2*nForeign), c12ID(c12CallExp)), // fresh cursor, expired call token
		c12One(c12ID(c12Empty), k), c12One(c12ID(c12BadTag), k), c12One(c12ID(c12BadZstd), k), c12One(c12ID(c12BadGob), k),
		c12One(lit("!!!!"), k), c12One(lit("AAAA"), k), c12One(lit("A"), k), c12One(lit("===="), k), c12One(lit("\x00\xff"), k),
		c12One(lit(strings.Repeat("A", 56)), k), c12One(lit(strings.Repeat("A", 52)), k), // 42 / 39 raw zero bytes
		c12One(a, lit("!!!!")), c12One(a, lit("AAAA")), c12One(a, lit(strings.Repeat("A", 56))),
	)
	for j := 0; j < nForeign; j++ {
		fs = append(fs, c12One(c12ID(c12Foreign0+2*j), c12ID(c12Foreign0+2*j+1)), // foreign pair
			c12One(c12ID(c12Foreign0+2*j), k), c12One(a, c12ID(c12Foreign0+2*j+1)))
	}
	both(func(r int) *c12Mut { return &c12Mut{M: "url", R: r} })
	both(func(r int) *c12Mut { return &c12Mut{M: "nopad", R: r} })
	for _, s := range []string{"=", "==", "\n", "\r\n", " ", "\t", "A", "AAAA", "\x00"} {
		s := s
		both(func(r int) *c12Mut { return &c12Mut{M: "append", R: r, T: c12Hex(s)} })
	}
	for _, c := range []byte{'\n', '\r', ' ', '\t', '=', 'A', 0} {
		for _, pos := range []int{0, 1, 10, 4000} {
			c, pos := c, pos
			both(func(r int) *c12Mut { return &c12Mut{M: "ins", R: r, A: pos, B: int(c)} })
		}
	}
	for _, t := range []string{"", "\x00", "AAAAAAAAAAAAAAAAAAAAAAAAAAAAAAAAAAAAAAAAAAAAAAAAAAAAAAAAAAAAAAAAAAA"} {
		t := t
		both(func(r int) *c12Mut { return &c12Mut{M: "rawappend", R: r, T: c12Hex(t)} })
	}
	for _, n := range []int{0, 1, 24, 25, 40, 41, 42, 100} {
		n := n
		both(func(r int) *c12Mut { return &c12Mut{M: "rawtrunc", R: r, A: n} })
	}
	return fs
}

func c12Gen(r *rand.Rand, n int, tier string) []c12In {
	var out []c12In
	thorough := tier == "thorough"
	// 1. boundary: every single presentation kind, both routes, cache on / off
	out = append(out, c12In{Route: "prod", Cold: false, KeyLen: 32, Turns: 1, Foreign: []int{16, 1048}, Fams: c12Singles(2), Note: "singles"},
		c12In{Route: "exch", Cold: true, KeyLen: 40, Turns: 1, Foreign: []int{1032}, Fams: c12Singles(1), Note: "singles"})
	// 1b. the same presentations as CANCEL continuations: a cancel must authenticate both tokens like any
	// other continuation (cache off: the call token is consulted; cache on: hit, and miss for the second server's pair)
	out = append(out, c12In{Route: "prod", Cold: true, Cancel: true, KeyLen: 24, Turns: 1, Foreign: []int{64, 1024}, Fams: c12Singles(2), Note: "singles-cancel"},
		c12In{Route: "exch", Cold: false, Cancel: true, KeyLen: 32, Turns: 1, Foreign: []int{1040}, Fams: c12Singles(1), Note: "singles-cancel"})
	if thorough {
		out = append(out, c12In{Route: "exch", Cold: true, Cancel: true, KeyLen: 33, Turns: 2, Foreign: []int{16, 32, 1064}, Fams: c12Singles(3), Note: "singles-cancel"},
			c12In{Route: "prod", Cold: false, Cancel: true, KeyLen: 16, Turns: 0, Foreign: []int{20, 1016}, Fams: c12Singles(2), Note: "singles-cancel"})
	}
	if thorough {
		out = append(out, c12In{Route: "prod", Cold: true, KeyLen: 64, Turns: 1, Foreign: []int{16, 32, 64}, Fams: c12Singles(3), Note: "singles"},
			c12In{Route: "exch", Cold: false, KeyLen: 16, Turns: 1, Foreign: []int{17, 33, 63}, Fams: c12Singles(3), Note: "singles"})
	}
	// 2. exhaustive sweeps on real tokens (cache disabled: both tokens are consulted)
	sweep := func(route string, cold bool, keyLen, turns int, fams ...c12Fam) {
		out = append(out, c12In{Route: route, Cold: cold, KeyLen: keyLen, Turns: turns, Fams: fams, Note: "sweep"})
	}
	all := func(f, s string, ref, partner int) c12Fam {
		return c12Fam{F: f, S: s, R: ref, P: partner, Lo: 0, Hi: -1}
	}
	sweep("prod", true, 32, 0, all("flips", "cursor", c12CurA, c12CallA))
	sweep("prod", true, 16, 0, all("flips", "call", c12CallA, c12CurA))
	sweep("prod", true, 48, 0, all("truncs", "cursor", c12CurA, c12CallA), all("truncs", "call", c12CallA, c12CurA),
		all("vers", "cursor", c12CurA, c12CallA), all("vers", "call", c12CallA, c12CurA))
	// every forgery class of the call token (and of the cursor) under a CANCEL, cache disabled
	cancelSweep := func(route string, keyLen, turns int, fams ...c12Fam) {
		out = append(out, c12In{Route: route, Cold: true, Cancel: true, KeyLen: keyLen, Turns: turns, Fams: fams, Note: "sweep-cancel"})
	}
	if thorough {
		cancelSweep("prod", 32, 0, all("flips", "call", c12CallA, c12CurA), all("truncs", "call", c12CallA, c12CurA), all("vers", "call", c12CallA, c12CurA),
			all("rawflips", "call", c12CallA, c12CurA), c12Fam{F: "chars", S: "call", R: c12CallA, P: c12CurA, Lo: -100})
		cancelSweep("exch", 50, 1, all("flips", "cursor", c12CurA, c12CallA), all("truncs", "cursor", c12CurA, c12CallA), all("vers", "cursor", c12CurA, c12CallA),
			all("flips", "call", c12CallA, c12CurA))
	} else {
		cancelSweep("prod", 32, 0, c12Fam{F: "flips", S: "call", R: c12CallA, P: c12CurA, Lo: 0, Hi: 40}, c12Fam{F: "flips", S: "call", R: c12CallA, P: c12CurA, Lo: -26, Hi: -1},
			all("truncs", "call", c12CallA, c12CurA), all("vers", "call", c12CallA, c12CurA), c12Fam{F: "chars", S: "call", R: c12CallA, P: c12CurA, Lo: -100},
			c12Fam{F: "rawflips", S: "call", R: c12CallA, P: c12CurA, Lo: 0, Hi: 30}, c12Fam{F: "rawflips", S: "call", R: c12CallA, P: c12CurA, Lo: -17, Hi: -1},
			c12Fam{F: "flips", S: "cursor", R: c12CurA, P: c12CallA, Lo: 0, Hi: 12}, c12Fam{F: "truncs", S: "cursor", R: c12CurA, P: c12CallA, Lo: -12, Hi: -1})
	}
	if thorough {
		sweep("exch", true, 64, 1, all("rawflips", "cursor", c12CurA, c12CallA))
		sweep("exch", true, 17, 1, all("rawflips", "call", c12CallA, c12CurA))
	} else { // version byte, nonce, first ciphertext bytes; the tag
		sweep("exch", true, 64, 1, c12Fam{F: "rawflips", S: "cursor", R: c12CurA, P: c12CallA, Lo: 0, Hi: 44}, c12Fam{F: "rawflips", S: "cursor", R: c12CurA, P: c12CallA, Lo: -17, Hi: -1},
			c12Fam{F: "rawflips", S: "call", R: c12CallA, P: c12CurA, Lo: 0, Hi: 44}, c12Fam{F: "rawflips", S: "call", R: c12CallA, P: c12CurA, Lo: -17, Hi: -1})
	}
	// every value of the last data characters (slack bits) and of the first character
	chars := func(s string, ref, partner int) []c12Fam {
		var fs []c12Fam
		los := []int{-100}
		if thorough {
			los = []int{-100, -1, -2, -3, 0, 1}
		}
		for _, lo := range los {
			fs = append(fs, c12Fam{F: "chars", S: s, R: ref, P: partner, Lo: lo})
		}
		return fs
	}
	for _, turns := range []int{0, 1, 2} { // different raw lengths mod 3
		fs := chars("cursor", c12CurA, c12CallA)
		if turns == 0 || thorough {
			fs = append(fs, chars("call", c12CallA, c12CurA)...)
		}
		sweep("prod", true, 32, turns, fs...)
	}
	// cache enabled: the call token is not consulted on a hit — anything goes in that slot, nothing in the cursor slot
	sweep("prod", false, 32, 0, c12Fam{F: "flips", S: "call", R: c12CallA, P: c12CurA, Lo: 0, Hi: 24},
		all("vers", "call", c12CallA, c12CurA), c12Fam{F: "flips", S: "cursor", R: c12CurA, P: c12CallA, Lo: 0, Hi: 40},
		c12Fam{F: "flips", S: "cursor", R: c12CurA, P: c12CallA, Lo: -12, Hi: -1})
	if thorough {
		for _, route := range []string{"prod", "exch"} {
			for turns := 0; turns <= 3; turns++ {
				sweep(route, true, 16+7*turns, turns, all("flips", "cursor", c12CurA, c12CallA), all("flips", "call", c12CallA, c12CurA),
					all("rawflips", "cursor", c12CurA, c12CallA), all("rawflips", "call", c12CallA, c12CurA),
					all("truncs", "cursor", c12CurA, c12CallA), all("truncs", "call", c12CallA, c12CurA))
			}
		}
	}
	// 3. random: key lengths 16..64, random foreign keys, multi-byte mutations, splices
	for len(out) < n {
		in := c12In{Route: []string{"prod", "exch"}[r.Intn(2)], Cold: r.Intn(3) > 0, KeyLen: 16 + r.Intn(49), Turns: r.Intn(4), Cancel: r.Intn(3) == 0, Note: "random"}
		nf := 1 + r.Intn(3)
		for j := 0; j < nf; j++ {
			in.Foreign = append(in.Foreign, 16+r.Intn(49)+1000*r.Intn(2))
		}
		full := []int{c12CurB, c12CallB, c12CurO, c12CallO, c12CurN, c12CallN, c12CurExp, c12CallExp, c12Empty, c12BadTag, c12BadZstd, c12BadGob}
		for j := 0; j < 2*nf; j++ {
			full = append(full, c12Foreign0+j)
		}
		// every referenced token text costs the evaluator: the own pair plus three others per case
		pool := []int{c12CurA, c12CallA}
		for j := 0; j < 3; j++ {
			pool = append(pool, full[r.Intn(len(full))])
		}
		rmut := func(slotRef int) *c12Mut {
			ref := slotRef
			if r.Intn(4) == 0 {
				ref = pool[r.Intn(len(pool))]
			}
			switch r.Intn(14) {
			case 0:
				return c12ID(ref)
			case 1:
				return &c12Mut{M: "flip", R: ref, A: r.Intn(700), B: r.Intn(8)}
			case 2:
				return &c12Mut{M: "trunc", R: ref, A: r.Intn(700)}
			case 3:
				return &c12Mut{M: "setchar", R: ref, A: r.Intn(700), B: r.Intn(256)}
			case 4:
				return &c12Mut{M: "ins", R: ref, A: r.Intn(700), B: []int{10, 13, 32, 61, 65, 43, 45}[r.Intn(7)]}
			case 5:
				return &c12Mut{M: "append", R: ref, T: c12Hex([]string{"=", "\n", "AA==", "A", "\r\n\r\n"}[r.Intn(5)])}
			case 6:
				return &c12Mut{M: []string{"url", "nopad"}[r.Intn(2)], R: ref}
			case 7:
				return &c12Mut{M: "setver", R: ref, A: r.Intn(256)}
			case 8:
				return &c12Mut{M: "rawflip", R: ref, A: r.Intn(500), B: r.Intn(8)}
			case 9:
				return &c12Mut{M: "rawtrunc", R: ref, A: r.Intn(500)}
			case 10:
				b := make([]byte, 1+r.Intn(20))
				r.Read(b)
				return &c12Mut{M: "rawappend", R: ref, T: hex.EncodeToString(b)}
			case 11: // multi-byte garbage of token-like length, valid alphabet
				const alpha = "ABCDEFGHIJKLMNOPQRSTUVWXYZabcdefghijklmnopqrstuvwxyz0123456789+/"
				b := make([]byte, 4*(10+r.Intn(40)))
				for i := range b {
					b[i] = alpha[r.Intn(64)]
				}
				b[0], b[1] = 'B', "gk"[r.Intn(2)] // raw[0] = 6 / 1-ish prefixes now and then
				return &c12Mut{M: "lit", T: hex.EncodeToString(b)}
			case 12:
				return &c12Mut{M: "none"}
			}
			return c12ID(ref)
		}
		np := 20 + r.Intn(30)
		for j := 0; j < np; j++ {
			switch r.Intn(4) {
			case 0:
				in.Fams = append(in.Fams, c12One(rmut(c12CurA), c12ID(c12CallA)))
			case 1:
				in.Fams = append(in.Fams, c12One(c12ID(c12CurA), rmut(c12CallA)))
			case 2:
				in.Fams = append(in.Fams, c12One(rmut(c12CurA), rmut(c12CallA)))
			default:
				in.Fams = append(in.Fams, c12One(c12ID(pool[r.Intn(len(pool))]), c12ID(pool[r.Intn(len(pool))])))
			}
		}
		out = append(out, in)
	}
	return out
}

func init() {
	Register("C12", "boundary first: every single presentation kind (verbatim, replayed, missing / empty slot, swapped slots, another call's token, another method's, a second server with the same normalised key, foreign keys of length 16/32/64, expired, key-holder-only payloads, non-base64, too short, url-safe alphabet, padding stripped / added, CR LF space tab NUL inserted / appended, raw envelope truncated / extended) on both routes with the call-state cache enabled and disabled, each also as a CANCEL continuation (cancel key set; states implement StreamCanceller so OnCancel is observed); then exhaustive sweeps on real tokens over HTTP with the cache disabled: EVERY single-bit flip of the cursor text and of the call-token text, EVERY truncation of both, all 256 version bytes of both, every bit of both raw envelopes (canonical re-encoding), all 256 values of each of the last four characters and of the first (slack bits) for raw lengths of every residue mod 3; sweeps with the cache enabled (the call token is not consulted on a hit); the call-token sweeps (bit flips, every truncation, all version bytes, raw-envelope flips, slack-bit character) again under CANCEL with the cache disabled; then random cases (one in three a CANCEL case; key length 16..64, 1-3 foreign servers, random multi-byte mutations, splices, garbage of token-like length). non-trivial = at least one presentation accepted and one refused; distinct = distinct input JSON",
		c12Gen, c12Run)
}
