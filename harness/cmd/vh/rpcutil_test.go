package main

import (
	"bytes"
	"encoding/json"
	"fmt"
	"testing"

	"github.com/apache/arrow-go/v18/arrow"
)

func TestScriptedSurfaceSmoke(t *testing.T) {
	sf := newSurface()
	defer sf.Close()
	s := NewScriptedServer(sf)
	var in bytes.Buffer
	// unary
	sf.PushUnary(CallScript{Value: 10, Logs: []LogSpec{{Level: "INFO", Msg: "hi"}}})
	WriteReq(&in, int64Batch(arrow.NewSchema([]arrow.Field{{Name: "x", Type: arrow.PrimitiveTypes.Int64}}, nil), []int64{5}), StdMeta("u_int", "r1", ""))
	// producer with header, 2 emits then finish
	h := int64(7)
	sf.PushStream(StreamScript{Header: &h, Turns: []TurnScript{{Act: "emit", Value: 1}, {Act: "emit", Value: 2, Logs: []LogSpec{{Level: "WARN", Msg: "w"}}}}})
	WriteReq(&in, int64Batch(arrow.NewSchema([]arrow.Field{{Name: "x", Type: arrow.PrimitiveTypes.Int64}}, nil), []int64{0}), StdMeta("prod_h", "r2", ""))
	WriteInputStream(&in, arrow.NewSchema(nil, nil), []InputItem{{Kind: "tick"}, {Kind: "tick"}, {Kind: "tick"}, {Kind: "tick"}})
	// exchange, error on 2nd
	sf.PushStream(StreamScript{Turns: []TurnScript{{Act: "emit", Value: 100}, {Act: "err", Err: &ErrSpec{Kind: "plain", Msg: "boom"}}}, Canceller: true})
	WriteReq(&in, int64Batch(arrow.NewSchema([]arrow.Field{{Name: "x", Type: arrow.PrimitiveTypes.Int64}}, nil), []int64{0}), StdMeta("exch", "r3", ""))
	WriteInputStream(&in, inSchemaX, []InputItem{{Kind: "data", Vals: []int64{1, 2}}, {Kind: "data", Vals: []int64{3}}, {Kind: "data", Vals: []int64{4}}})
	// unary again
	sf.PushUnary(CallScript{Err: &ErrSpec{Kind: "rpc", Type: "ValueError", Msg: "bad"}})
	WriteReq(&in, int64Batch(arrow.NewSchema([]arrow.Field{{Name: "x", Type: arrow.PrimitiveTypes.Int64}}, nil), []int64{5}), StdMeta("u_int", "r4", ""))
	out, esc := RunPipe(s, in.Bytes())
	if esc != nil {
		t.Fatal(esc)
	}
	st := ParseStreams(out)
	b, _ := json.MarshalIndent(st, "", " ")
	fmt.Println(string(b))
	fmt.Println(sf.Trace)
	if len(st) != 5 {
		t.Fatalf("streams=%d", len(st))
	}
}
