package main

// C29 — sticky sessions. Drives REAL HttpServers (one per worker, shared token
// key, distinct server ids) through in-process HTTP with scripted, gated
// handlers, one atomic step at a time, and records the global event trace.
// The requested schedule is coarse; the schedule handed to the Coq model is the
// effective fine-grained one that was actually forced (see c29Run).

import (
	"context"
	"fmt"
	"math/rand"
	"net/http"
	"runtime"
	"sort"
	"strconv"
	"strings"
	"sync"
	"sync/atomic"
	"time"

	"github.com/Query-farm/vgi-rpc-go/vgirpc"
	"github.com/apache/arrow-go/v18/arrow"
)

type c29Prog struct {
	Kind string   `json:"kind"` // req | del | adv | reap | drain | shut
	W    int      `json:"w"`
	C    int      `json:"c"`  // caller index into c29Callers
	Tk   int      `json:"tk"` // -2 none, -1 garbage, k>=0 token handed to thread k
	Acc  bool     `json:"acc,omitempty"`
	TTL  int64    `json:"ttl,omitempty"` // seconds; 0 = registry default
	Body []string `json:"body,omitempty"`
	Out  string   `json:"out,omitempty"`    // ok | err | panic
	Fast bool     `json:"fast,omitempty"` // stress actor: resolve through VerifStickyResolve (real installStickyOnRequestNoCtx, no HTTP framing)
	Strm bool     `json:"stream,omitempty"` // req: run the script inside the first Produce turn of a producer stream (/sact/init)
	D    int64    `json:"d,omitempty"`      // adv: seconds
	B    bool     `json:"b,omitempty"`      // drain flag
}

type c29In struct {
	DTTL  int64     `json:"dttl"`
	Progs []c29Prog `json:"progs"`
	Sched []int     `json:"sched"`
	Note  string    `json:"note,omitempty"`
	// Stress > 0: progs = [opener; adv D; actors...] where every actor bears the
	// opener's (by then expired) token or is a reaper sweep / shutdown. The
	// actors are released together behind a barrier, for up to Stress rounds
	// (bounded time); see c29RunStress.
	Stress int `json:"stress,omitempty"`
}

type c29Caller struct {
	Auth bool
	D, P string
}

var c29Callers = []c29Caller{
	{}, {true, "bearer", "alice"}, {true, "bearer", "bob"}, {true, "", "anonymous"},
	{true, "jwt", "alice"}, {true, "a\x00b", "c"}, {true, "a", "b\x00c"},
}

const c29Workers = 3

// ---- per-case runtime --------------------------------------------------------

type c29State struct {
	label  int
	closed atomic.Int32
	cs     *c29Case
	inCall map[int]bool // threads currently inside a handler on this (resumed) session; guarded by cs.mu
}

type c29CloseEv struct {
	label, by int
	under     bool // some OTHER thread was inside its handler on this session when Close() ran
}

// curGoid returns the current goroutine id (used only to attribute a Close()
// call to the request / operator step that caused it).
func curGoid() int64 {
	var b [64]byte
	n := runtime.Stack(b[:], false)
	f := strings.Fields(string(b[:n]))
	if len(f) < 2 {
		return -1
	}
	id, _ := strconv.ParseInt(f[1], 10, 64)
	return id
}

func (s *c29State) Close() error {
	s.closed.Add(1)
	g := curGoid()
	cs := s.cs
	cs.mu.Lock()
	by, ok := cs.goThread[g]
	if !ok {
		by = cs.sysThread
	}
	under := false
	for u := range s.inCall {
		if u != by {
			under = true
		}
	}
	cs.closeBuf = append(cs.closeBuf, c29CloseEv{s.label, by, under})
	cs.mu.Unlock()
	return nil
}

type c29Thread struct {
	prog       c29Prog
	phase      string // "", "blocked", "run", "done"
	gate       chan struct{}
	ack        chan struct{}
	done       chan HTTPResp
	buf        []string // events produced by this thread's goroutine
	left       int      // handler actions left
	held       int      // label whose lock this request holds (-1 none)
	waitsOn    int      // label it is blocked on (-1)
	opened     int      // label of last successfully opened session (-1)
	wasBlocked bool
}

type c29Case struct {
	mu        sync.Mutex
	in        c29In
	srv       []*vgirpc.HttpServer
	th        []*c29Thread
	closeBuf  []c29CloseEv
	goThread  map[int64]int
	sysThread int
	nextLabel int
	entries   map[int]any
	trace     []string
	eff       []int
	minted    map[int]string // thread -> token string
	mintLabel map[int]int    // thread -> label of that token's session
	heldBy    map[int]int    // label -> thread holding its lock inside a handler
	waiter    map[int]int    // label -> blocked thread
	stuck     bool
	blocks    int
}

var c29cur atomic.Pointer[c29Case]

func (cs *c29Case) push(t int, ev string) {
	cs.mu.Lock()
	cs.th[t].buf = append(cs.th[t].buf, ev)
	cs.mu.Unlock()
}

// c29Body is the scripted user code of request thread t: it reports the session
// it sees on entry, marks itself as being in a call on that session, performs
// the gated OpenSession / CloseSession actions, parks on the final gate and
// returns the scripted outcome.
func c29Body(cc *vgirpc.CallContext, t int) string {
	cs := c29cur.Load()
	th := cs.th[t]
	label, stale := -1, false
	if st, ok := cc.Session().(*c29State); ok && st != nil {
		label, stale = st.label, st.closed.Load() > 0
		cs.mu.Lock()
		if e := vgirpc.VerifStickyEntry(cc); e != nil {
			cs.entries[label] = e
		}
		st.inCall[t] = true
		cs.mu.Unlock()
		defer func() {
			cs.mu.Lock()
			delete(st.inCall, t)
			cs.mu.Unlock()
		}()
	}
	sl := "None"
	if label >= 0 {
		sl = "(Some " + N(uint64(label)) + ")"
	}
	cs.mu.Lock()
	th.held = label
	cs.mu.Unlock()
	cs.push(t, App("C29.EEnter", Nat(t), sl, Bool(stale)))
	th.ack <- struct{}{}
	for _, a := range th.prog.Body {
		<-th.gate
		switch a {
		case "open":
			cs.mu.Lock()
			lab := cs.nextLabel
			cs.nextLabel++
			cs.mu.Unlock()
			st := &c29State{label: lab, cs: cs, inCall: map[int]bool{}}
			err := cc.OpenSession(st, time.Duration(th.prog.TTL)*time.Second)
			var a string
			switch err.(type) {
			case nil:
				a = App("C29.AOpened", N(uint64(lab)))
				cs.mu.Lock()
				th.opened = lab
				if e := vgirpc.VerifStickyEntry(cc); e != nil {
					cs.entries[lab] = e
				}
				cs.mu.Unlock()
			case *vgirpc.ServerDrainingError:
				a = "C29.ADraining"
			case *vgirpc.RpcError:
				a = "C29.ARefused"
			default:
				a = "C29.ARefused (* unexpected: " + strings.ReplaceAll(err.Error(), "*", "") + " *)"
			}
			cs.push(t, App("C29.EAct", Nat(t), a))
		case "close":
			hit := cc.CloseSession()
			cs.push(t, App("C29.EAct", Nat(t), App("C29.AClose", Bool(hit))))
		}
		th.ack <- struct{}{}
	}
	<-th.gate
	return th.prog.Out
}

func c29Handler(_ context.Context, cc *vgirpc.CallContext, p PInt) (int64, error) {
	switch c29Body(cc, int(p.X)) {
	case "err":
		return 0, &vgirpc.RpcError{Type: "ValueError", Message: "scripted"}
	case "panic":
		panic("scripted panic")
	}
	return 1, nil
}

// c29Stream is the producer-stream form: the same script runs inside the first
// Produce turn, which the HTTP transport folds into the /init request (under the
// same per-session lock).
type c29Stream struct{ T int }

func (st *c29Stream) Produce(_ context.Context, out *vgirpc.OutputCollector, cc *vgirpc.CallContext) error {
	switch c29Body(cc, st.T) {
	case "err":
		return &vgirpc.RpcError{Type: "ValueError", Message: "scripted"}
	case "panic":
		panic("scripted panic")
	}
	return out.Finish()
}

func c29StreamInit(_ context.Context, _ *vgirpc.CallContext, p PInt) (*vgirpc.StreamResult, error) {
	return &vgirpc.StreamResult{OutputSchema: c29OutSchema, State: &c29Stream{T: int(p.X)}}, nil
}

var c29OutSchema = arrow.NewSchema([]arrow.Field{{Name: "v", Type: arrow.PrimitiveTypes.Int64}}, nil)

func init() { vgirpc.RegisterStateType(&c29Stream{}) }

func c29Auth(r *http.Request) (*vgirpc.AuthContext, error) {
	var i int
	fmt.Sscanf(r.Header.Get("X-Caller"), "%d", &i)
	return c29AuthOf(i)
}

func c29AuthOf(i int) (*vgirpc.AuthContext, error) {
	c := c29Callers[i%len(c29Callers)]
	if !c.Auth {
		return vgirpc.Anonymous(), nil
	}
	return &vgirpc.AuthContext{Domain: c.D, Authenticated: true, Principal: c.P}, nil
}

func c29NewCase(in c29In) *c29Case {
	cs := &c29Case{in: in, entries: map[int]any{}, minted: map[int]string{}, mintLabel: map[int]int{},
		heldBy: map[int]int{}, waiter: map[int]int{}, goThread: map[int64]int{}, sysThread: -1}
	key := []byte("0123456789abcdef0123456789abcdef")
	for w := 0; w < c29Workers; w++ {
		s := vgirpc.NewServer()
		s.SetServerID(fmt.Sprintf("worker-%d", w))
		vgirpc.Unary(s, "act", c29Handler)
		vgirpc.Producer(s, "sact", c29OutSchema, c29StreamInit)
		h, err := vgirpc.NewHttpServerWithKey(s, key)
		if err != nil {
			panic(err)
		}
		h.SetAuthenticate(c29Auth)
		h.EnableSticky(time.Duration(in.DTTL) * time.Second)
		vgirpc.VerifStickyQuietReaper(h)
		cs.srv = append(cs.srv, h)
	}
	for _, p := range in.Progs {
		cs.th = append(cs.th, &c29Thread{prog: p, gate: make(chan struct{}, 1), ack: make(chan struct{}, 1),
			done: make(chan HTTPResp, 1), held: -1, waitsOn: -1, opened: -1, left: len(p.Body)})
	}
	return cs
}

const c29Long = 5 * time.Second
const c29Short = 40 * time.Millisecond

// flush moves closes (if withCloses) and thread t's buffered events into the trace.
func (cs *c29Case) flush(t int, withCloses bool) int {
	cs.mu.Lock()
	defer cs.mu.Unlock()
	n := 0
	if withCloses {
		sort.SliceStable(cs.closeBuf, func(i, j int) bool { return cs.closeBuf[i].label < cs.closeBuf[j].label })
		for _, c := range cs.closeBuf {
			cs.trace = append(cs.trace, App("C29.EClosed", N(uint64(c.label))))
			if c.under {
				cs.trace = append(cs.trace, App("C29.EUnder", Nat(c.by), N(uint64(c.label))))
			}
		}
		n = len(cs.closeBuf)
		cs.closeBuf = nil
	}
	cs.trace = append(cs.trace, cs.th[t].buf...)
	cs.th[t].buf = nil
	return n
}

func (cs *c29Case) emit(ev string) { cs.mu.Lock(); cs.trace = append(cs.trace, ev); cs.mu.Unlock() }

func (cs *c29Case) respEvent(t int, r HTTPResp) {
	th := cs.th[t]
	th.phase = "done"
	if th.prog.Kind == "del" {
		cs.emit(App("C29.EResp", Nat(t), App("C29.RDel", Bool(r.Status == http.StatusNoContent))))
		return
	}
	class := "C29.OOk"
	lost := false
	for _, s := range ParseStreams(r.Body) {
		for _, f := range s.Frames {
			if f.Kind == "exc" {
				switch {
				case f.ErrKind == "session_lost":
					lost = true
				case f.ExcType == "ValueError":
					class = "C29.OErr"
				default:
					class = "C29.OPanic"
				}
			}
		}
	}
	if r.Panic != nil {
		class = "C29.OPanic (* escaped *)"
	}
	if lost {
		cs.emit(App("C29.EResp", Nat(t), "C29.RLost"))
		return
	}
	tok := r.Header.Get("VGI-Session")
	mint := "None"
	if tok != "" {
		cs.minted[t] = tok
		cs.mintLabel[t] = th.opened
		mint = "(Some " + N(uint64(th.opened)) + ")"
	}
	closeHdr := r.Header.Get("VGI-Session-Close") == "true"
	cs.emit(App("C29.EResp", Nat(t), App("C29.RDone", class, mint, Bool(closeHdr))))
}

// await waits for thread t to either enter its handler / finish an action (ack)
// or complete its HTTP exchange. Returns "ack", "done" or "none".
func (cs *c29Case) await(t int, d time.Duration) (string, HTTPResp) {
	th := cs.th[t]
	select {
	case <-th.ack:
		return "ack", HTTPResp{}
	case r := <-th.done:
		return "done", r
	case <-time.After(d):
		return "none", HTTPResp{}
	}
}

// afterLock records what thread t did once it got past entry.lock.Lock():
// a request is now inside its handler; a delete has already run to completion.
func (cs *c29Case) entered(t int) {
	th := cs.th[t]
	th.phase = "run"
	cs.flush(t, false)
	cs.mu.Lock()
	h := th.held
	cs.mu.Unlock()
	if h >= 0 {
		cs.heldBy[h] = t
	}
}

func (cs *c29Case) start(t int) {
	th := cs.th[t]
	p := th.prog
	tok, lab := "", -1
	switch {
	case p.Tk == -1:
		tok = "AAAA"
	case p.Tk >= 0:
		if s, ok := cs.minted[p.Tk]; ok && p.Tk < len(cs.th) && cs.th[p.Tk].phase == "done" {
			tok, lab = s, cs.mintLabel[p.Tk]
		} else {
			tok = "AAAA"
		}
	}
	expectBlock := false
	if lab >= 0 {
		cs.mu.Lock()
		ent := cs.entries[lab]
		cs.mu.Unlock()
		oc, pc := cs.th[p.Tk].prog.C%len(c29Callers), p.C%len(c29Callers)
		sameCaller := oc == pc || (oc+pc == 11 && oc*pc == 30)
		auth, _ := c29AuthOf(pc)
		if _, held := cs.heldBy[lab]; held && sameCaller && vgirpc.VerifStickyEntryResolvable(cs.srv[p.W%c29Workers], ent, auth) {
			expectBlock = true
			if _, w := cs.waiter[lab]; w {
				return // a second waiter would make the wake-up order the runtime's choice: not forced
			}
		}
	}
	hdr := map[string]string{"X-Caller": fmt.Sprint(p.C)}
	if tok != "" {
		hdr["VGI-Session"] = tok
	}
	if p.Acc {
		hdr["VGI-Session-Accept"] = "true"
	}
	h := cs.srv[p.W%c29Workers]
	cs.emit(App("C29.EStart", Nat(t)))
	go func() {
		cs.mu.Lock()
		cs.goThread[curGoid()] = t
		cs.mu.Unlock()
		switch {
		case p.Kind == "del":
			th.done <- DoHTTP(h, "DELETE", "/__session__", nil, hdr)
		case p.Strm:
			th.done <- DoHTTP(h, "POST", "/sact/init", ReqBytes(PIntBatch(int64(t)), StdMeta("sact", "", "")), hdr)
		default:
			th.done <- DoHTTP(h, "POST", "/act", ReqBytes(PIntBatch(int64(t)), StdMeta("act", "", "")), hdr)
		}
	}()
	wait := c29Long
	if expectBlock {
		wait = c29Short
	}
	what, r := cs.await(t, wait)
	switch what {
	case "ack":
		cs.eff = append(cs.eff, t)
		if tok != "" {
			cs.eff = append(cs.eff, t)
		}
		cs.entered(t)
	case "done":
		cs.flush(t, true)
		cs.eff = append(cs.eff, t)
		if p.Kind == "del" && r.Status == http.StatusNoContent {
			cs.eff = append(cs.eff, t, t, t)
		}
		cs.respEvent(t, r)
	case "none":
		if !expectBlock {
			cs.stuck = true
			th.phase = "done"
			return
		}
		cs.blocks++
		th.wasBlocked = true
		cs.flush(t, true) // base code: nothing; a Close() before blocking shows up here
		th.phase = "blocked"
		th.waitsOn = lab
		cs.waiter[lab] = t
		cs.eff = append(cs.eff, t, t)
	}
}

// stepThread advances thread t by one harness step.
func (cs *c29Case) stepThread(t int) {
	th := cs.th[t]
	p := th.prog
	switch th.phase {
	case "done", "blocked":
		cs.eff = append(cs.eff, t) // stutter
		return
	case "":
		cs.mu.Lock()
		cs.sysThread = t
		cs.mu.Unlock()
		switch p.Kind {
		case "req", "del":
			cs.start(t)
		case "adv":
			for _, h := range cs.srv {
				vgirpc.VerifStickyShift(h, time.Duration(p.D)*time.Second)
			}
			cs.sysDone(t, 0)
		case "reap":
			n := vgirpc.VerifStickyReap(cs.srv[p.W%c29Workers])
			cs.flush(t, true)
			cs.sysDone(t, n)
		case "shut":
			cs.srv[p.W%c29Workers].DrainHandle().Shutdown()
			n := cs.flush(t, true)
			cs.sysDone(t, n)
		case "drain":
			if p.B {
				cs.srv[p.W%c29Workers].DrainHandle().Drain()
			} else {
				cs.srv[p.W%c29Workers].DrainHandle().ClearDrain()
			}
			cs.sysDone(t, 0)
		}
		return
	case "run":
		cs.eff = append(cs.eff, t)
		th.gate <- struct{}{}
		if th.left > 0 {
			th.left--
			if what, _ := cs.await(t, c29Long); what != "ack" {
				cs.stuck = true
			}
			cs.flush(t, true)
			return
		}
		// handler returns; deferred ReleaseLock; response
		var r HTTPResp
		select {
		case r = <-th.done:
		case <-time.After(c29Long):
			cs.stuck = true
			th.phase = "done"
			return
		}
		cs.flush(t, false)
		cs.respEvent(t, r)
		cs.mu.Lock()
		held := th.held
		cs.mu.Unlock()
		if held >= 0 && cs.heldBy[held] == t {
			delete(cs.heldBy, held)
			if u, ok := cs.waiter[held]; ok {
				delete(cs.waiter, held)
				cs.wake(u)
			}
		}
	}
}

// wake: the lock thread u was blocked on has just been released.
func (cs *c29Case) wake(u int) {
	th := cs.th[u]
	th.waitsOn = -1
	what, r := cs.await(u, c29Long)
	switch what {
	case "ack":
		cs.eff = append(cs.eff, u)
		cs.entered(u)
	case "done": // a delete: Lock, registry.close, Unlock
		cs.eff = append(cs.eff, u, u, u)
		cs.flush(u, true)
		cs.respEvent(u, r)
	default:
		cs.stuck = true
		th.phase = "done"
	}
}

func (cs *c29Case) sysDone(t, n int) {
	cs.th[t].phase = "done"
	cs.eff = append(cs.eff, t)
	cs.emit(App("C29.EResp", Nat(t), App("C29.RSys", N(uint64(n)))))
}

func c29CallerTerm(i int) string {
	c := c29Callers[i%len(c29Callers)]
	if !c.Auth {
		return "C29.Anon"
	}
	return App("C29.Auth", B(c.D), B(c.P))
}

func c29TokTerm(k int) string {
	switch {
	case k == -2:
		return "C29.TNone"
	case k == -1:
		return "C29.TGarbage"
	}
	return App("C29.TOf", Nat(k))
}

func c29ProgTerm(p c29Prog) string {
	w := N(uint64(p.W % c29Workers))
	switch p.Kind {
	case "req":
		body := ListOf(p.Body, func(a string) string {
			if a == "open" {
				return "C29.HOpen"
			}
			return "C29.HClose"
		})
		out := map[string]string{"ok": "C29.OOk", "err": "C29.OErr", "panic": "C29.OPanic"}[p.Out]
		if out == "" {
			out = "C29.OOk"
		}
		return App("C29.PReq", w, c29CallerTerm(p.C), c29TokTerm(p.Tk), Bool(p.Acc), Z(p.TTL), body, out)
	case "del":
		return App("C29.PDelete", w, c29CallerTerm(p.C), c29TokTerm(p.Tk))
	case "adv":
		return App("C29.PAdvance", Z(p.D))
	case "reap":
		return App("C29.PReap", w)
	case "drain":
		return App("C29.PDrain", w, Bool(p.B))
	}
	return App("C29.PShutdown", w)
}

func c29Run(in c29In) CaseOut {
	// normalise
	for i := range in.Progs {
		p := &in.Progs[i]
		if p.W < 0 {
			p.W = 0
		}
		if p.C < 0 {
			p.C = 0
		}
		if p.Tk >= len(in.Progs) || p.Tk < -2 {
			p.Tk = -1
		}
		if p.Kind == "req" && p.Out == "" {
			p.Out = "ok"
		}
	}
	if in.Stress > 0 && c29StressShape(in) {
		return c29RunStress(in)
	}
	in.Stress = 0
	cs := c29NewCase(in)
	c29cur.Store(cs)
	for _, t := range in.Sched {
		if t >= 0 && t < len(cs.th) {
			cs.stepThread(t)
		}
	}
	// completion: every request runs to its end (never leave goroutines behind)
	for guard := 0; guard < 10000; guard++ {
		progressed := false
		for t, th := range cs.th {
			if th.phase == "run" {
				cs.stepThread(t)
				progressed = true
				break
			}
			if th.phase == "" {
				cs.stepThread(t)
				if th.phase != "" { // not skipped as a second waiter
					progressed = true
					break
				}
			}
		}
		if !progressed {
			break
		}
	}
	// threads still blocked here are stuck behind a lock nobody will release
	for t, th := range cs.th {
		if th.phase == "blocked" {
			cs.stuck = true
			_ = t
		}
	}
	var locked []int
	cs.mu.Lock()
	for l, e := range cs.entries {
		if vgirpc.VerifStickyEntryLocked(e) {
			locked = append(locked, l)
		}
	}
	cs.mu.Unlock()
	sort.Ints(locked)
	for _, h := range cs.srv {
		h.DrainHandle().Shutdown()
	}

	trace := cs.trace
	if cs.stuck {
		trace = append(trace, App("C29.EStart", Nat(999999))) // marks a hung request: never matches the model
	}
	coqIn := App("C29.Build_input", Z(in.DTTL), ListOf(in.Progs, c29ProgTerm), ListOf(cs.eff, Nat))
	coqObs := App("C29.Build_obs", List(trace), ListOf(locked, func(l int) string { return N(uint64(l)) }))

	// tags
	tagset := map[string]bool{}
	tr := strings.Join(trace, "\n")
	add := func(c bool, t string) {
		if c {
			tagset[t] = true
		}
	}
	add(strings.Contains(tr, "C29.RLost"), "session-lost")
	add(strings.Contains(tr, "C29.AOpened"), "opened")
	add(strings.Contains(tr, "C29.ADraining"), "refused-draining")
	add(strings.Contains(tr, "C29.ARefused"), "refused-runtime")
	add(strings.Contains(tr, "C29.AClose true"), "close-hit")
	add(strings.Contains(tr, "C29.AClose false"), "close-miss")
	add(strings.Contains(tr, "C29.RDel true"), "delete-hit")
	add(strings.Contains(tr, "C29.RDel false"), "delete-miss")
	add(strings.Contains(tr, "C29.OPanic"), "handler-panic")
	add(strings.Contains(tr, "C29.OErr"), "handler-err")
	add(strings.Contains(tr, ") true)") && strings.Contains(tr, "C29.EEnter"), "maybe-stale")
	add(strings.Contains(tr, "C29.EUnder"), "close-under-call")
	for _, th := range cs.th {
		add(th.prog.Kind == "req" && th.prog.Strm, "stream-turn")
		add(th.prog.Kind == "del" && th.wasBlocked, "delete-during-call")
	}
	add(cs.stuck, "stuck")
	add(len(locked) > 0, "lock-left-held")
	resumed, stale, blocked := 0, 0, 0
	for _, e := range trace {
		if strings.HasPrefix(e, "(C29.EEnter") && strings.Contains(e, "Some") {
			resumed++
			if strings.HasSuffix(e, " true)") {
				stale++
			}
		}
	}
	delete(tagset, "maybe-stale")
	add(resumed > 0, "resumed")
	add(stale > 0, "obs-enter-after-close")
	closedEv := strings.Count(tr, "C29.EClosed")
	add(closedEv > 0, "state-closed")
	for _, p := range in.Progs {
		add(p.Kind == "adv", "time-shift")
		add(p.Kind == "reap", "reap")
		add(p.Kind == "shut", "shutdown")
		add(p.Kind == "drain", "drain-op")
	}
	blocked = cs.blocks
	add(blocked > 0, "forced-block")
	var tags []string
	for t := range tagset {
		tags = append(tags, t)
	}
	sort.Strings(tags)
	type obs struct {
		Trace  []string
		Locked []int
		Eff    []int
	}
	return CaseOut{Coq: Pair(coqIn, coqObs), Tags: tags, Nontrivial: resumed > 0 || closedEv > 0 || tagset["session-lost"],
		Obs: obs{trace, locked, cs.eff}}
}

// ---- concurrent stress on one expired session -----------------------------------

func c29StressShape(in c29In) bool {
	if len(in.Progs) < 3 {
		return false
	}
	p0, p1 := in.Progs[0], in.Progs[1]
	if p0.Kind != "req" || p0.Tk != -2 || !p0.Acc || len(p0.Body) != 1 || p0.Body[0] != "open" || p0.Out != "ok" || p1.Kind != "adv" {
		return false
	}
	for i, p := range in.Progs[2:] {
		switch p.Kind {
		case "req":
			if p.Tk != 0 || len(p.Body) != 0 {
				return false
			}
		case "del":
			if p.Tk != 0 {
				return false
			}
		case "reap", "shut":
			if i == 0 { // the first actor is a request or delete: evictions are normalised onto it
				return false
			}
		default:
			return false
		}
	}
	return true
}

type c29Round struct {
	opened bool
	closes int
	out    []string // per actor: lost | ran | del200 | del204 | sys | hung
	bad    bool
}

func c29StressRound(cs *c29Case, in c29In) c29Round {
	// servers are reused across rounds; each round opens a fresh session
	cs.mu.Lock()
	for i, p := range in.Progs {
		th := &c29Thread{prog: p, gate: make(chan struct{}), ack: make(chan struct{}, 16),
			done: make(chan HTTPResp, 1), held: -1, waitsOn: -1, opened: -1, left: len(p.Body)}
		close(th.gate) // handlers never park in a stress round
		cs.th[i] = th
	}
	lab := cs.nextLabel
	cs.closeBuf = nil
	cs.mu.Unlock()
	res := c29Round{out: make([]string, len(in.Progs))}
	post := func(t int, p c29Prog, hdr map[string]string) HTTPResp {
		h := cs.srv[p.W%c29Workers]
		if p.Strm {
			return DoHTTP(h, "POST", "/sact/init", ReqBytes(PIntBatch(int64(t)), StdMeta("sact", "", "")), hdr)
		}
		return DoHTTP(h, "POST", "/act", ReqBytes(PIntBatch(int64(t)), StdMeta("act", "", "")), hdr)
	}
	p0 := in.Progs[0]
	r0 := post(0, p0, map[string]string{"X-Caller": fmt.Sprint(p0.C), "VGI-Session-Accept": "true"})
	tok := r0.Header.Get("VGI-Session")
	res.opened = tok != ""
	for _, h := range cs.srv {
		vgirpc.VerifStickyShift(h, time.Duration(in.Progs[1].D)*time.Second)
	}
	// spin barrier: every actor is running on a P when the last one arrives, so
	// they reach the registry within nanoseconds of each other
	var arrived atomic.Int32
	nAct := int32(len(in.Progs) - 2)
	var wg sync.WaitGroup
	var mu sync.Mutex
	for i := 2; i < len(in.Progs); i++ {
		wg.Add(1)
		go func(t int, p c29Prog) {
			defer wg.Done()
			arrived.Add(1)
			for arrived.Load() < nAct {
				runtime.Gosched()
			}
			o := "sys"
			switch p.Kind {
			case "req":
				if p.Fast {
					auth, _ := c29AuthOf(p.C)
					o = "ran"
					if vgirpc.VerifStickyResolve(cs.srv[p.W%c29Workers], tok, auth) {
						o = "lost"
					}
					break
				}
				r := post(t, p, map[string]string{"X-Caller": fmt.Sprint(p.C), "VGI-Session": tok})
				o = "ran"
				for _, st := range ParseStreams(r.Body) {
					for _, f := range st.Frames {
						if f.Kind == "exc" && f.ErrKind == "session_lost" {
							o = "lost"
						}
					}
				}
			case "del":
				r := DoHTTP(cs.srv[p.W%c29Workers], "DELETE", "/__session__", nil, map[string]string{"X-Caller": fmt.Sprint(p.C), "VGI-Session": tok})
				o = fmt.Sprintf("del%d", r.Status)
			case "reap":
				vgirpc.VerifStickyReap(cs.srv[p.W%c29Workers])
			case "shut":
				cs.srv[p.W%c29Workers].DrainHandle().Shutdown()
			}
			mu.Lock()
			res.out[t] = o
			mu.Unlock()
		}(i, in.Progs[i])
	}
	fin := make(chan struct{})
	go func() { wg.Wait(); close(fin) }()
	select {
	case <-fin:
	case <-time.After(c29Long):
		res.bad = true
	}
	cs.mu.Lock()
	for _, c := range cs.closeBuf {
		if c.label == lab {
			res.closes++
		}
	}
	cs.mu.Unlock()
	mu.Lock()
	for i := 2; i < len(in.Progs); i++ {
		switch res.out[i] {
		case "lost", "del200", "sys":
		case "":
			res.out[i] = "hung"
			res.bad = true
		default:
			res.bad = true
		}
	}
	mu.Unlock()
	if !res.opened || res.closes != 1 {
		res.bad = true
	}
	return res
}

// c29RunStress releases the actors concurrently, round after round, and reports
// the first round in which the schedule-independent facts fail (Close() of the
// expired session's state ran exactly once; every request got session_lost,
// every DELETE 200), or else the last round, as a trace in canonical (program)
// order: the evictions are attached to the first actor and operator steps
// report RSys 0, because WHICH actor evicts is the schedule's choice. The Close
// total and every caller's own outcome are exact.
func c29RunStress(in c29In) CaseOut {
	deadline := time.Now().Add(1200 * time.Millisecond)
	var shown c29Round
	rounds, hist := 0, map[int]int{}
	cs := c29NewCase(in)
	c29cur.Store(cs)
	defer func() {
		for _, h := range cs.srv {
			h.DrainHandle().Shutdown()
		}
	}()
	for r := 0; r < in.Stress && (r == 0 || time.Now().Before(deadline)); r++ {
		res := c29StressRound(cs, in)
		rounds++
		hist[res.closes]++
		shown = res
		if res.bad {
			break
		}
	}
	var tr []string
	var eff []int
	if shown.opened {
		tr = append(tr, App("C29.EStart", Nat(0)), App("C29.EEnter", Nat(0), "None", "false"),
			App("C29.EAct", Nat(0), App("C29.AOpened", N(0))),
			App("C29.EResp", Nat(0), App("C29.RDone", "C29.OOk", "(Some "+N(0)+")", "false")))
	} else {
		tr = append(tr, App("C29.EStart", Nat(0)))
	}
	eff = append(eff, 0, 0, 0, 1)
	tr = append(tr, App("C29.EResp", Nat(1), App("C29.RSys", N(0))))
	for t := 2; t < len(in.Progs); t++ {
		eff = append(eff, t)
		p := in.Progs[t]
		if p.Kind == "req" || p.Kind == "del" {
			tr = append(tr, App("C29.EStart", Nat(t)))
		}
		if t == 2 {
			for k := 0; k < shown.closes; k++ {
				tr = append(tr, App("C29.EClosed", N(0)))
			}
		}
		switch shown.out[t] {
		case "lost":
			tr = append(tr, App("C29.EResp", Nat(t), "C29.RLost"))
		case "ran":
			tr = append(tr, App("C29.EEnter", Nat(t), "(Some "+N(0)+")", "true"),
				App("C29.EResp", Nat(t), App("C29.RDone", "C29.OOk", "None", "false")))
		case "del200":
			tr = append(tr, App("C29.EResp", Nat(t), App("C29.RDel", "false")))
		case "del204":
			tr = append(tr, App("C29.EResp", Nat(t), App("C29.RDel", "true")))
		case "sys":
			tr = append(tr, App("C29.EResp", Nat(t), App("C29.RSys", N(0))))
		}
	}
	coqIn := App("C29.Build_input", Z(in.DTTL), ListOf(in.Progs, c29ProgTerm), ListOf(eff, Nat))
	coqObs := App("C29.Build_obs", List(tr), "[]")
	tags := []string{"stress", fmt.Sprintf("stress-actors-%d", len(in.Progs)-2)}
	kinds := map[string]bool{}
	for _, p := range in.Progs[2:] {
		k := p.Kind
		if p.Kind == "req" && p.Strm {
			k = "stream"
		}
		if p.Kind == "req" && p.Fast {
			k = "bare"
		}
		kinds[k] = true
	}
	for k := range kinds {
		tags = append(tags, "stress-"+k)
	}
	if shown.bad {
		tags = append(tags, "stress-bad-round")
	}
	sort.Strings(tags)
	type obs struct {
		Rounds      int
		ClosesHist  map[int]int
		ShownRound  c29RoundObs
		Trace       []string
		Eff         []int
		Explanation string
	}
	return CaseOut{Coq: Pair(coqIn, coqObs), Tags: tags, Nontrivial: true,
		Obs: obs{rounds, hist, c29RoundObs{shown.opened, shown.closes, shown.out, shown.bad}, tr, eff,
			"concurrent rounds; trace is the first failing (else last) round in canonical order"}}
}

type c29RoundObs struct {
	Opened bool
	Closes int
	Out    []string
	Bad    bool
}

// ---- generators --------------------------------------------------------------

func c29Req(w, c, tk int, acc bool, ttl int64, out string, body ...string) c29Prog {
	return c29Prog{Kind: "req", W: w, C: c, Tk: tk, Acc: acc, TTL: ttl, Body: body, Out: out}
}

func c29Boundary() []c29In {
	open := func(c int) c29Prog { return c29Req(0, c, -2, true, 150, "ok", "open") }
	var out []c29In
	seq := func(n int) []int {
		s := make([]int, 0, n*4)
		for i := 0; i < n; i++ {
			s = append(s, i, i, i, i)
		}
		return s
	}
	add := func(note string, sched []int, ps ...c29Prog) {
		if sched == nil {
			sched = seq(len(ps))
		}
		out = append(out, c29In{DTTL: 250, Progs: ps, Sched: sched, Note: note})
	}
	add("open, resume, close in handler, resume again is lost", nil,
		open(1), c29Req(0, 1, 0, false, 0, "ok"), c29Req(0, 1, 0, false, 0, "ok", "close"), c29Req(0, 1, 0, false, 0, "ok"))
	add("other identity / anonymous / other worker / garbage all lost; owner still served", nil,
		open(1), c29Req(0, 2, 0, false, 0, "ok"), c29Req(0, 0, 0, false, 0, "ok"), c29Req(0, 3, 0, false, 0, "ok"),
		c29Req(1, 1, 0, false, 0, "ok"), c29Req(0, 1, -1, false, 0, "ok"), c29Req(0, 4, 0, false, 0, "ok"), c29Req(0, 1, 0, false, 0, "ok"))
	add("anonymous session vs authenticated principal named anonymous", nil,
		open(0), c29Req(0, 3, 0, false, 0, "ok"), c29Req(0, 0, 0, false, 0, "ok"))
	add("expiry inline on get", nil,
		open(1), c29Prog{Kind: "adv", D: 100}, c29Req(0, 1, 0, false, 0, "ok"), c29Prog{Kind: "adv", D: 100}, c29Req(0, 1, 0, false, 0, "ok"), c29Req(0, 1, 0, false, 0, "ok"))
	add("expiry by reaper then delete misses", nil,
		open(1), open(2), c29Prog{Kind: "adv", D: 200}, c29Prog{Kind: "reap", W: 0}, c29Prog{Kind: "del", W: 0, C: 1, Tk: 0}, c29Req(0, 2, 1, false, 0, "ok"))
	add("delete then delete then resume", nil,
		open(1), c29Prog{Kind: "del", W: 0, C: 1, Tk: 0}, c29Prog{Kind: "del", W: 0, C: 1, Tk: 0}, c29Req(0, 1, 0, false, 0, "ok"))
	add("delete by stranger misses, by owner hits", nil,
		open(1), c29Prog{Kind: "del", W: 0, C: 2, Tk: 0}, c29Prog{Kind: "del", W: 1, C: 1, Tk: 0}, c29Prog{Kind: "del", W: 0, C: 1, Tk: -2}, c29Prog{Kind: "del", W: 0, C: 1, Tk: 0})
	add("drain refuses new, serves existing; clear drain", nil,
		open(1), c29Prog{Kind: "drain", W: 0, B: true}, open(2), c29Req(0, 1, 0, false, 0, "ok"), c29Req(1, 2, -2, true, 0, "ok", "open"),
		c29Prog{Kind: "drain", W: 0, B: false}, open(2))
	add("shutdown closes all once; later close / delete miss", nil,
		open(1), open(2), c29Prog{Kind: "shut", W: 0}, c29Req(0, 1, 0, false, 0, "ok"), c29Prog{Kind: "del", W: 0, C: 2, Tk: 1}, c29Prog{Kind: "shut", W: 0}, open(1))
	add("no accept header, already bound, close twice, reopen in same request", nil,
		c29Req(0, 1, -2, false, 0, "ok", "open"), c29Req(0, 1, -2, true, 0, "ok", "open", "open", "close", "close", "open"),
		c29Req(0, 1, 1, true, 0, "ok", "open", "close", "open"), c29Req(0, 1, 2, false, 0, "ok"), c29Req(0, 1, 1, false, 0, "ok"))
	add("handler panics / errs after opening and while resumed: lock released, session usable", nil,
		c29Req(0, 1, -2, true, 0, "panic", "open"), c29Req(0, 1, 0, false, 0, "panic"), c29Req(0, 1, 0, false, 0, "err"), c29Req(0, 1, 0, false, 0, "ok"))
	// forced schedules
	add("same session serialises: B blocks until A returns", []int{0, 0, 0, 1, 2, 2, 1, 2},
		open(1), c29Req(0, 1, 0, false, 0, "ok"), c29Req(0, 1, 0, false, 0, "ok"))
	add("different sessions overlap", []int{0, 0, 0, 1, 1, 1, 2, 3, 2, 3},
		open(1), open(1), c29Req(0, 1, 0, false, 0, "ok"), c29Req(0, 1, 1, false, 0, "ok"))
	add("B resolves, blocks, A closes the session, B then runs on the closed state", []int{0, 0, 0, 1, 2, 1, 1, 2, 2},
		open(1), c29Req(0, 1, 0, false, 0, "ok", "close"), c29Req(0, 1, 0, false, 0, "ok", "close"))
	add("close vs delete race: Close once", []int{0, 0, 0, 1, 2, 1, 1},
		open(1), c29Req(0, 1, 0, false, 0, "ok", "close"), c29Prog{Kind: "del", W: 0, C: 1, Tk: 0})
	add("handler holds, expiry + reaper closes underneath, then handler close misses", []int{0, 0, 0, 1, 2, 3, 1, 1},
		open(1), c29Req(0, 1, 0, false, 0, "ok", "close"), c29Prog{Kind: "adv", D: 200}, c29Prog{Kind: "reap", W: 0})
	add("handler holds, shutdown underneath, waiter then runs stale, panic releases", []int{0, 0, 0, 1, 2, 3, 1, 2},
		open(1), c29Req(0, 1, 0, false, 0, "panic"), c29Req(0, 1, 0, false, 0, "ok"), c29Prog{Kind: "shut", W: 0})
	strm := func(p c29Prog) c29Prog { p.Strm = true; return p }
	del := c29Prog{Kind: "del", W: 0, C: 1, Tk: 0}
	add("DELETE during a unary call: waits for the handler, then closes", []int{0, 0, 0, 1, 2, 1},
		open(1), c29Req(0, 1, 0, false, 0, "ok"), del)
	add("DELETE during a stream turn", []int{0, 0, 0, 1, 2, 1},
		open(1), strm(c29Req(0, 1, 0, false, 0, "ok")), del)
	add("DELETE during a stream turn that panics", []int{0, 0, 0, 1, 2, 1},
		open(1), strm(c29Req(0, 1, 0, false, 0, "panic")), del)
	add("two DELETEs during a call", []int{0, 0, 0, 1, 2, 3, 1, 3},
		open(1), c29Req(0, 1, 0, false, 0, "err"), del, del)
	add("DELETE during a call, then resume", []int{0, 0, 0, 1, 2, 3, 1, 3, 3},
		open(1), c29Req(0, 1, 0, false, 0, "ok"), del, c29Req(0, 1, 0, false, 0, "ok"))
	add("session opened inside a stream turn, DELETE during a later unary call", []int{0, 0, 0, 1, 2, 1},
		strm(open(1)), c29Req(0, 1, 0, false, 0, "ok"), del)
	add("expired while held: a DELETE's token resolution evicts it under the call and answers 200 (expiry, not teardown)", []int{0, 0, 0, 1, 2, 3, 1},
		open(1), c29Req(0, 1, 0, false, 0, "ok"), c29Prog{Kind: "adv", D: 200}, del)
	add("default ttl from registry (dttl) and from package default", nil,
		c29Req(0, 1, -2, true, 0, "ok", "open"), c29Prog{Kind: "adv", D: 200}, c29Req(0, 1, 0, false, 0, "ok"), c29Prog{Kind: "adv", D: 100}, c29Req(0, 1, 0, false, 0, "ok"))
	out = append(out, c29In{DTTL: 0, Note: "package default ttl 300", Sched: seq(5), Progs: []c29Prog{
		c29Req(0, 1, -2, true, 0, "ok", "open"), {Kind: "adv", D: 200}, c29Req(0, 1, 0, false, 0, "ok"), {Kind: "adv", D: 200}, c29Req(0, 1, 0, false, 0, "ok")}})
	out = append(out, c29In{DTTL: 250, Note: "NUL in domain: colliding callers share a session (premise of the isolation theorem)", Sched: seq(3), Progs: []c29Prog{
		open(5), c29Req(0, 6, 0, false, 0, "ok"), c29Req(0, 5, 0, false, 0, "ok")}})
	return out
}

// c29Contention: one or two sessions of one owner, several requests / deletes
// bearing the same token started while earlier ones are still inside their
// handlers, with close / expiry / reaper / shutdown landing in between.
func c29Contention(r *rand.Rand) c29In {
	outs := []string{"ok", "err", "panic"}
	c := 1 + r.Intn(2)
	ps := []c29Prog{c29Req(0, c, -2, true, 150, outs[r.Intn(3)], "open")}
	nOpen := 1
	if r.Intn(3) == 0 {
		ps = append(ps, c29Req(0, c, -2, true, 250, "ok", "open"))
		nOpen = 2
	}
	k := 2 + r.Intn(4)
	for i := 0; i < k; i++ {
		tk := r.Intn(nOpen)
		switch x := r.Intn(10); {
		case x < 5:
			var body []string
			switch r.Intn(4) {
			case 0:
				body = []string{"close"}
			case 1:
				body = []string{"close", "open"}
			case 2:
				body = []string{"open"}
			}
			cc := c
			if r.Intn(8) == 0 {
				cc = 3 - c
			}
			q := c29Req(0, cc, tk, r.Intn(2) == 0, 150, outs[r.Intn(3)], body...)
			q.Strm = r.Intn(4) == 0
			ps = append(ps, q)
		case x < 8:
			ps = append(ps, c29Prog{Kind: "del", W: 0, C: c, Tk: tk})
		case x < 9:
			ps = append(ps, c29Prog{Kind: "adv", D: 200}, c29Prog{Kind: "reap", W: 0})
		default:
			ps = append(ps, c29Prog{Kind: []string{"shut", "drain"}[r.Intn(2)], W: 0, B: true})
		}
	}
	// openers complete first, then a random interleaving of the rest
	var sched []int
	for i := 0; i < nOpen; i++ {
		sched = append(sched, i, i, i)
	}
	rest := len(ps) - nOpen
	for j := 0; j < rest*4; j++ {
		sched = append(sched, nOpen+r.Intn(rest))
	}
	return c29In{DTTL: 250, Progs: ps, Sched: sched, Note: "contention"}
}

// c29Stress builds one stress input: opener (ttl 150) on worker 0, clock +200 s,
// then the given actors, all bearing the expired token.
func c29Stress(note string, rounds, caller int, strmOpen bool, actors ...c29Prog) c29In {
	op := c29Req(0, caller, -2, true, 150, "ok", "open")
	op.Strm = strmOpen
	ps := []c29Prog{op, {Kind: "adv", D: 200}}
	for _, a := range actors {
		if a.Kind == "req" || a.Kind == "del" {
			a.C, a.Tk = caller, 0
		}
		ps = append(ps, a)
	}
	return c29In{DTTL: 250, Progs: ps, Stress: rounds, Note: "stress: " + note}
}

func c29StressBoundary(rounds int) []c29In {
	u := c29Prog{Kind: "req", Out: "ok"}
	st := c29Prog{Kind: "req", Out: "ok", Strm: true}
	f := c29Prog{Kind: "req", Out: "ok", Fast: true}
	d := c29Prog{Kind: "del"}
	reap := c29Prog{Kind: "reap"}
	shut := c29Prog{Kind: "shut"}
	return []c29In{
		c29Stress("8 bare resolutions (installStickyOnRequestNoCtx without HTTP framing)", rounds, 1, false, f, f, f, f, f, f, f, f),
		c29Stress("bare resolutions racing DELETE, reaper and a unary resume", rounds, 2, false, f, f, d, reap, f, u, f),
		c29Stress("2 unary resumes of one expired session", rounds, 1, false, u, u),
		c29Stress("4 unary resumes", rounds, 1, false, u, u, u, u),
		c29Stress("8 unary resumes, anonymous owner", rounds, 0, false, u, u, u, u, u, u, u, u),
		c29Stress("stream inits", rounds, 2, true, st, st, st),
		c29Stress("two DELETEs", rounds, 1, false, d, d),
		c29Stress("resume, stream init and DELETE", rounds, 1, false, u, st, d, u),
		c29Stress("resumes racing the reaper", rounds, 1, false, u, reap, u, reap),
		c29Stress("DELETE and resume racing shutdown", rounds, 2, false, d, shut, u),
		c29Stress("resume racing reaper and shutdown", rounds, 1, false, u, reap, shut),
	}
}

func c29Gen(r *rand.Rand, n int, tier string) []c29In {
	rounds := 6000
	if tier == "thorough" {
		rounds = 20000
	}
	out := append(c29StressBoundary(rounds), c29Boundary()...)
	ttls := []int64{0, 150, 150, 250, 350}
	outs := []string{"ok", "ok", "ok", "err", "panic"}
	for len(out) < n {
		if r.Intn(3) == 0 {
			out = append(out, c29Contention(r))
			continue
		}
		if r.Intn(25) == 0 {
			kinds := []c29Prog{{Kind: "req", Out: "ok"}, {Kind: "req", Out: "ok", Fast: true}, {Kind: "del"}, {Kind: "req", Out: "ok", Strm: true}, {Kind: "req", Out: "ok", Fast: true}, {Kind: "reap"}, {Kind: "shut"}}
			acts := []c29Prog{kinds[r.Intn(3)]}
			for k := 1 + r.Intn(5); k > 0; k-- {
				acts = append(acts, kinds[r.Intn(len(kinds))])
			}
			out = append(out, c29Stress("random actors", 2000, r.Intn(3), r.Intn(3) == 0, acts...))
			continue
		}
		np := 3 + r.Intn(8)
		var ps []c29Prog
		var openers []int
		malformed := r.Intn(5) == 0
		for i := 0; i < np; i++ {
			x := r.Intn(100)
			callers := 3
			if malformed {
				callers = len(c29Callers)
			}
			pickTok := func() int {
				if len(openers) > 0 && r.Intn(10) < 8 {
					return openers[r.Intn(len(openers))]
				}
				if malformed && i > 0 && r.Intn(2) == 0 {
					return r.Intn(i)
				}
				return []int{-1, -2}[r.Intn(2)]
			}
			ownerOf := func(tk int) (int, int) {
				if tk >= 0 && r.Intn(10) < 8 {
					return ps[tk].W, ps[tk].C
				}
				return r.Intn(2), r.Intn(callers)
			}
			switch {
			case i == 0 || x < 22:
				p := c29Req(r.Intn(2), r.Intn(callers), -2, r.Intn(8) != 0, ttls[r.Intn(len(ttls))], outs[r.Intn(len(outs))], "open")
				if r.Intn(6) == 0 {
					p.Body = append(p.Body, []string{"close", "open"}[r.Intn(2)])
				}
				ps = append(ps, p)
				openers = append(openers, i)
			case x < 62:
				tk := pickTok()
				w, c := ownerOf(tk)
				var body []string
				switch r.Intn(6) {
				case 0, 1:
					body = []string{"close"}
				case 2:
					body = []string{"close", "open"}
					openers = append(openers, i)
				case 3:
					if r.Intn(2) == 0 {
						body = []string{"open"}
					}
				}
				q := c29Req(w, c, tk, r.Intn(3) != 0, ttls[r.Intn(len(ttls))], outs[r.Intn(len(outs))], body...)
				q.Strm = r.Intn(4) == 0
				ps = append(ps, q)
			case x < 74:
				tk := pickTok()
				w, c := ownerOf(tk)
				ps = append(ps, c29Prog{Kind: "del", W: w, C: c, Tk: tk})
			case x < 84:
				ps = append(ps, c29Prog{Kind: "adv", D: int64(40 * (1 + 2*r.Intn(3)))})
			case x < 90:
				ps = append(ps, c29Prog{Kind: "reap", W: r.Intn(2)})
			case x < 96:
				ps = append(ps, c29Prog{Kind: "drain", W: r.Intn(2), B: r.Intn(3) != 0})
			default:
				ps = append(ps, c29Prog{Kind: "shut", W: r.Intn(2)})
			}
		}
		var sched []int
		if r.Intn(3) == 0 {
			// sequential history: each thread runs to completion in order
			for i := range ps {
				sched = append(sched, i, i, i, i)
			}
		} else {
			// interleaving: random walk biased towards starting threads in order
			started := 1
			for k := 0; k < np*5; k++ {
				if started < np && r.Intn(3) == 0 {
					sched = append(sched, started)
					started++
				} else {
					sched = append(sched, r.Intn(started))
				}
			}
		}
		out = append(out, c29In{DTTL: []int64{250, 250, 0, 150}[r.Intn(4)], Progs: ps, Sched: sched})
	}
	return out
}

func init() {
	Register("C29", "first 11 concurrent-stress cases (2-8 actors bearing one just-expired session token -- unary, stream init, DELETE, bare installStickyOnRequestNoCtx -- plus reaper sweeps and shutdown, released behind a barrier for up to 6000/20000 rounds or 1.2 s, spin barrier; facts compared: Close() exactly once, every request session_lost, every DELETE 200; shown in canonical order), ~4% of the random stream likewise; then boundary histories and forced schedules first (DELETE during a unary call / a stream turn / two DELETEs / DELETE then resume, identity/worker/garbage isolation, expiry inline and by reaper, delete, drain, shutdown, panics, same-session blocking, different-session overlap, close/delete/expiry/shutdown races), then random programs of 3-10 threads over 2 workers x 3 callers (20% with all 7 callers incl. NUL-domain and arbitrary token refs), 1/3 sequential histories and 2/3 random interleavings; TTLs in {default,150,250,350}s and clock shifts in {40,120,200}s so no expiry falls on a boundary (boundary cases use 100s steps against TTLs = 50 mod 100); 25% of requests run their script inside a producer stream's first turn; non-trivial = a session was resumed, a state was closed or a request got session_lost; distinct = distinct input JSON",
		c29Gen, c29Run)
}
