package main

import (
	"context"
	"encoding/json"
	"errors"
	"fmt"
	"math/rand"
	"strings"
	"time"

	"github.com/Query-farm/vgi-rpc-go/vgirpc"
	"github.com/apache/arrow-go/v18/arrow"
)

// C05 — error envelopes carry a stable cross-language error type.
type c05Err struct {
	Ctor  string  `json:"ctor"` // rpc|notimpl|notimpl_msg|protover|sessionlost|draining|extcap|plain|custom|wrap
	A     string  `json:"a,omitempty"`
	B     string  `json:"b,omitempty"`
	C     string  `json:"c,omitempty"`
	Inner *c05Err `json:"inner,omitempty"`
}

type c05In struct {
	Path  string  `json:"path"` // direct|pipe_unary|http_unary|pipe_init|http_init|pipe_produce|pipe_exchange|http_exchange|http_produce
	Debug bool    `json:"debug"`
	Err   *c05Err `json:"err,omitempty"`
	Panic string  `json:"panic,omitempty"` // "str:<msg>" | "err:<msg>" | "int"
}

func (e *c05Err) build() error {
	switch e.Ctor {
	case "rpc":
		return &vgirpc.RpcError{Type: e.A, Message: e.B, Kind: e.C}
	case "plain":
		return errors.New(e.A)
	case "custom":
		return &harnessCustomErr{msg: e.A}
	case "wrap":
		return fmt.Errorf(e.A+": %w", e.Inner.build())
	}
	return vgirpc.VerifFrameworkError(e.Ctor, e.A)
}

func (e *c05Err) coq() string {
	switch e.Ctor {
	case "rpc":
		return App("C05.GRpc", B(e.A), B(e.B), B(e.C))
	case "notimpl":
		return App("C05.GNotImpl", B(e.A))
	case "notimpl_msg":
		return App("C05.GNotImplMsg", B(e.A))
	case "protover":
		return App("C05.GProtoVer", B(e.A))
	case "sessionlost":
		return App("C05.GSessionLost", B(e.A))
	case "draining":
		return "C05.GDraining"
	case "extcap":
		return App("C05.GExtCap", B(e.A))
	case "plain":
		return App("C05.GPlain", B(e.A))
	case "custom":
		return App("C05.GCustom", B(fmt.Sprintf("%T", &harnessCustomErr{})), B(e.A))
	case "wrap":
		return App("C05.GWrap", B(e.A), e.Inner.coq())
	}
	panic("ctor " + e.Ctor)
}

// an error a scripted handler can raise (ErrSpec covers rpc/plain/custom/wrapped_rpc)
func (e *c05Err) spec() *ErrSpec {
	switch e.Ctor {
	case "rpc":
		return &ErrSpec{Kind: "rpc", Type: e.A, Msg: e.B, ErrKind: e.C}
	case "plain":
		return &ErrSpec{Kind: "plain", Msg: e.A}
	case "custom":
		return &ErrSpec{Kind: "custom", Msg: e.A}
	case "wrap":
		if e.A == "ctx" && e.Inner.Ctor == "rpc" {
			return &ErrSpec{Kind: "wrapped_rpc", Type: e.Inner.A, Msg: e.Inner.B, ErrKind: e.Inner.C}
		}
	}
	return nil
}

// texts whose JSON encoding needs escapes a Go string literal spells differently (relayed compiler / CLI output
// with ANSI colours, NUL, DEL, BEL, line separators, astral runes): the envelope must still parse and carry them
var c05OddTexts = []string{"\x1b[31mred\x1b[0m", "nul\x00byte", "del\x7f", "bell\a tab\t nl\n cr\r quote\" back\\", "sep\u2028\u2029", "astral \U0001F600 \U000E0001", "\x01\x02\x1f"}

var c05Paths = []string{"direct", "pipe_unary", "http_unary", "pipe_init", "http_init", "pipe_produce", "pipe_exchange", "http_exchange", "http_produce"}

func c05Leaf(r *rand.Rand, handlerOnly bool) *c05Err {
	msgs := append([]string{"boom", "", "bad value: x", "unicode é", "Type: looks like one"}, c05OddTexts...)
	types := []string{"ValueError", "TypeError", "PermissionError", "RuntimeError", "MyCustomError", "", "*errors.errorString", "Esc\x1bType"}
	kinds := []string{"", "", "my_kind", "session_lost"}
	n := 9
	if handlerOnly {
		n = 3
	}
	switch r.Intn(n) {
	case 0:
		return &c05Err{Ctor: "rpc", A: types[r.Intn(len(types))], B: msgs[r.Intn(len(msgs))], C: kinds[r.Intn(len(kinds))]}
	case 1:
		return &c05Err{Ctor: "plain", A: msgs[r.Intn(len(msgs))]}
	case 2:
		return &c05Err{Ctor: "custom", A: msgs[r.Intn(len(msgs))]}
	case 3:
		return &c05Err{Ctor: "notimpl", A: []string{"foo", "", "m'x"}[r.Intn(3)]}
	case 4:
		return &c05Err{Ctor: "notimpl_msg", A: msgs[r.Intn(len(msgs))]}
	case 5:
		return &c05Err{Ctor: "protover", A: msgs[r.Intn(len(msgs))]}
	case 6:
		return &c05Err{Ctor: "sessionlost", A: msgs[r.Intn(len(msgs))]}
	case 7:
		return &c05Err{Ctor: "draining"}
	}
	return &c05Err{Ctor: "extcap", A: msgs[r.Intn(len(msgs))]}
}

func c05Gen(r *rand.Rand, n int, tier string) []c05In {
	var out []c05In
	// boundary: every constructor directly, debug on and off; wraps to depth 3
	for _, dbg := range []bool{false, true} {
		for k := 0; k < 9; k++ {
			rr := rand.New(rand.NewSource(int64(k)))
			var e *c05Err
			for { // pick the k-th constructor deterministically
				e = c05Leaf(rr, false)
				if map[string]int{"rpc": 0, "plain": 1, "custom": 2, "notimpl": 3, "notimpl_msg": 4, "protover": 5, "sessionlost": 6, "draining": 7, "extcap": 8}[e.Ctor] == k {
					break
				}
			}
			out = append(out, c05In{Path: "direct", Debug: dbg, Err: e})
			w := e
			for d := 0; d < 3; d++ {
				w = &c05Err{Ctor: "wrap", A: []string{"ctx", "outer", ""}[d], Inner: w}
				out = append(out, c05In{Path: "direct", Debug: dbg, Err: w})
			}
		}
	}
	// control and other escape-needing characters in message and type, debug on and off, directly and end to end
	for _, txt := range c05OddTexts {
		for _, dbg := range []bool{false, true} {
			for _, p := range []string{"direct", "pipe_unary", "http_unary", "http_exchange"} {
				out = append(out, c05In{Path: p, Debug: dbg, Err: &c05Err{Ctor: "rpc", A: "ValueError", B: txt, C: ""}})
			}
			out = append(out, c05In{Path: "direct", Debug: dbg, Err: &c05Err{Ctor: "plain", A: txt}})
			out = append(out, c05In{Path: "pipe_unary", Debug: dbg, Panic: "str:" + txt})
		}
	}
	out = append(out, c05In{Path: "pipe_unary", Debug: false, Err: &c05Err{Ctor: "rpc", A: "Esc\x1bType", B: "m", C: ""}})
	// every dispatch path x every handler-raisable kind and panic value
	for _, p := range c05Paths[1:] {
		for _, e := range []*c05Err{{Ctor: "rpc", A: "ValueError", B: "bad", C: ""}, {Ctor: "rpc", A: "MyErr", B: "m", C: "my_kind"}, {Ctor: "plain", A: "boom"},
			{Ctor: "custom", A: "cust"}, {Ctor: "wrap", A: "ctx", Inner: &c05Err{Ctor: "rpc", A: "ValueError", B: "inner", C: "k"}}} {
			out = append(out, c05In{Path: p, Debug: len(out)%2 == 0, Err: e})
		}
		for _, pv := range []string{"str:kaboom", "err:perr", "int"} {
			out = append(out, c05In{Path: p, Debug: len(out)%2 == 0, Panic: pv})
		}
	}
	// errors the framework raises itself, before any user code: the envelope rules (and the debug switch) hold
	// for them as well; the error value is read back from the wire (its prose is not modelled)
	for _, fw := range c05Framework {
		for _, dbg := range []bool{false, true} {
			out = append(out, c05In{Path: fw, Debug: dbg})
		}
	}
	for len(out) < n {
		p := c05Paths[r.Intn(len(c05Paths))]
		in := c05In{Path: p, Debug: r.Intn(2) == 0}
		if p == "direct" {
			e := c05Leaf(r, false)
			for d := r.Intn(4); d > 0; d-- {
				e = &c05Err{Ctor: "wrap", A: []string{"ctx", "a b", "", "x: y"}[r.Intn(4)], Inner: e}
			}
			in.Err = e
		} else if r.Intn(4) == 0 {
			in.Panic = []string{"str:kaboom", "str:", "err:perr", "int", "str:unicode é"}[r.Intn(5)]
		} else {
			e := c05Leaf(r, true)
			if r.Intn(3) == 0 && e.Ctor == "rpc" {
				e = &c05Err{Ctor: "wrap", A: "ctx", Inner: e}
			}
			in.Err = e
		}
		out = append(out, in)
	}
	return out
}

var c05Framework = []string{"fw_pipe_gate_unary", "fw_pipe_gate_absent", "fw_pipe_gate_stream", "fw_http_gate_unary", "fw_http_gate_init",
	"fw_http_draining_opensession", "fw_pipe_unknown", "fw_http_unknown", "fw_pipe_badparams", "fw_http_badparams", "fw_pipe_stream_badparams", "fw_http_init_badparams"}

// c05RunFramework provokes an error raised by the server itself and reads the error value back from the wire.
func c05RunFramework(in c05In) []byte {
	sf := newSurface()
	defer sf.Close()
	s := NewScriptedServer(sf)
	s.SetDebugErrors(in.Debug)
	hs := func() *vgirpc.HttpServer { return vgirpc.NewHttpServer(s) }
	tick := InputBytes(arrow.NewSchema(nil, nil), []InputItem{{Kind: "tick"}})
	withPV := func(m [][2]string, v string) [][2]string { return append(m, [2]string{vgirpc.MetaProtocolVersion, v}) }
	wrong := int64Batch(arrow.NewSchema([]arrow.Field{{Name: "y", Type: arrow.PrimitiveTypes.Int64}}, nil), []int64{5}) // column y where the methods declare x
	switch in.Path {
	case "fw_pipe_gate_unary":
		s.SetProtocolVersion("2.10.3")
		b, _ := RunPipe(s, ReqBytes(PIntBatch(1), withPV(StdMeta("u_int", "rid", ""), "3.0.0")))
		return b
	case "fw_pipe_gate_absent":
		s.SetProtocolVersion("2.10.3")
		b, _ := RunPipe(s, ReqBytes(PIntBatch(1), StdMeta("u_int", "rid", "")))
		return b
	case "fw_pipe_gate_stream":
		s.SetProtocolVersion("2.10.3")
		b, _ := RunPipe(s, append(ReqBytes(PIntBatch(1), withPV(StdMeta("prod", "rid", ""), "2.9.0")), tick...))
		return b
	case "fw_http_gate_unary":
		s.SetProtocolVersion("2.10.3")
		return DoHTTP(hs(), "POST", "/u_int", ReqBytes(PIntBatch(1), withPV(StdMeta("u_int", "rid", ""), "1.2.03")), nil).Body
	case "fw_http_gate_init":
		s.SetProtocolVersion("2.10.3")
		return DoHTTP(hs(), "POST", "/exch/init", ReqBytes(PIntBatch(1), StdMeta("exch", "rid", "")), nil).Body
	case "fw_http_draining_opensession":
		// a typed refusal the framework hands to user code, which returns it unchanged: sticky sessions enabled,
		// the server draining, a request that asks for a session; the handler passes OpenSession's error through
		s2 := vgirpc.NewServer()
		s2.SetDebugErrors(in.Debug)
		vgirpc.Unary(s2, "open", func(_ context.Context, cc *vgirpc.CallContext, p PInt) (int64, error) {
			st := p.X
			if err := cc.OpenSession(&st, 0); err != nil {
				return 0, err
			}
			return p.X, nil
		})
		h2 := vgirpc.NewHttpServer(s2)
		h2.EnableSticky(time.Minute)
		h2.DrainHandle().Drain()
		return DoHTTP(h2, "POST", "/open", ReqBytes(PIntBatch(1), StdMeta("open", "rid", "")), map[string]string{"VGI-Session-Accept": "true"}).Body
	case "fw_pipe_unknown":
		b, _ := RunPipe(s, ReqBytes(PIntBatch(1), StdMeta("no_such_method", "rid", "")))
		return b
	case "fw_http_unknown":
		return DoHTTP(hs(), "POST", "/no_such_method", ReqBytes(PIntBatch(1), StdMeta("no_such_method", "rid", "")), nil).Body
	case "fw_pipe_badparams":
		b, _ := RunPipe(s, ReqBytes(wrong, StdMeta("u_int", "rid", "")))
		return b
	case "fw_http_badparams":
		return DoHTTP(hs(), "POST", "/u_int", ReqBytes(wrong, StdMeta("u_int", "rid", "")), nil).Body
	case "fw_pipe_stream_badparams":
		b, _ := RunPipe(s, append(ReqBytes(wrong, StdMeta("prod", "rid", "")), tick...))
		return b
	case "fw_http_init_badparams":
		return DoHTTP(hs(), "POST", "/prod/init", ReqBytes(wrong, StdMeta("prod", "rid", "")), nil).Body
	}
	return nil
}

func c05Run(in c05In) CaseOut {
	type obsT struct {
		NExc                    int
		Type, Msg, LogMsg, Kind string
		TB, Frames              bool
	}
	var o obsT
	tags := []string{in.Path}
	var src string
	var spec *ErrSpec
	isFw := strings.HasPrefix(in.Path, "fw_")
	if isFw {
		tags = append(tags, "framework-raised")
	} else if in.Panic != "" {
		shown := ""
		switch {
		case in.Panic == "int":
			spec, shown = &ErrSpec{Kind: "panic_int"}, "42"
		case in.Panic[:4] == "str:":
			spec, shown = &ErrSpec{Kind: "panic_str", Msg: in.Panic[4:]}, in.Panic[4:]
		default:
			spec, shown = &ErrSpec{Kind: "panic_err", Msg: in.Panic[4:]}, in.Panic[4:]
		}
		src = App("C05.Panicked", B(shown))
		tags = append(tags, "panic")
	} else {
		src = App("C05.Returned", in.Err.coq())
		spec = in.Err.spec()
		tags = append(tags, "ctor-"+in.Err.Ctor)
	}
	if in.Path == "direct" {
		env := vgirpc.VerifErrorEnvelope(in.Err.build(), in.Debug)
		o = obsT{1, env.Type, env.Message, env.LogMessage, env.Kind, env.HasTraceback, env.HasFrames}
	} else {
		sf := newSurface()
		defer sf.Close()
		s := NewScriptedServer(sf)
		s.SetDebugErrors(in.Debug)
		var body []byte
		hs := func() *vgirpc.HttpServer { return vgirpc.NewHttpServer(s) }
		tick := InputBytes(arrow.NewSchema(nil, nil), []InputItem{{Kind: "tick"}, {Kind: "tick"}})
		data := InputBytes(inSchemaX, []InputItem{{Kind: "data", Vals: []int64{1}}, {Kind: "data", Vals: []int64{2}}})
		errTurn := []TurnScript{{Act: "emit", Value: 1}, {Act: "err", Err: spec}}
		if isFw {
			body = c05RunFramework(in)
		}
		switch in.Path {
		case "pipe_unary":
			sf.PushUnary(CallScript{Err: spec})
			body, _ = RunPipe(s, ReqBytes(PIntBatch(1), StdMeta("u_int", "rid", "")))
		case "http_unary":
			sf.PushUnary(CallScript{Err: spec})
			body = DoHTTP(hs(), "POST", "/u_int", ReqBytes(PIntBatch(1), StdMeta("u_int", "rid", "")), nil).Body
		case "pipe_init":
			sf.PushStream(StreamScript{Init: CallScript{Err: spec}})
			body, _ = RunPipe(s, append(ReqBytes(PIntBatch(1), StdMeta("prod", "rid", "")), tick...))
		case "http_init":
			sf.PushStream(StreamScript{Init: CallScript{Err: spec}})
			body = DoHTTP(hs(), "POST", "/exch/init", ReqBytes(PIntBatch(1), StdMeta("exch", "rid", "")), nil).Body
		case "pipe_produce":
			sf.PushStream(StreamScript{Turns: errTurn})
			body, _ = RunPipe(s, append(ReqBytes(PIntBatch(1), StdMeta("prod", "rid", "")), tick...))
		case "pipe_exchange":
			sf.PushStream(StreamScript{Turns: errTurn})
			body, _ = RunPipe(s, append(ReqBytes(PIntBatch(1), StdMeta("exch", "rid", "")), data...))
		case "http_produce":
			sf.PushStream(StreamScript{Turns: errTurn})
			body = DoHTTP(hs(), "POST", "/prod/init", ReqBytes(PIntBatch(1), StdMeta("prod", "rid", "")), nil).Body
		case "http_exchange":
			sf.PushStream(StreamScript{Turns: []TurnScript{{Act: "err", Err: spec}}})
			h := hs()
			initBody := DoHTTP(h, "POST", "/exch/init", ReqBytes(PIntBatch(1), StdMeta("exch", "rid", "")), nil).Body
			st, call := vgirpc.FindStreamTokens(initBody)
			meta := [][2]string{{vgirpc.MetaStreamState, string(st)}}
			if len(call) > 0 {
				meta = append(meta, [2]string{vgirpc.MetaCallState, string(call)})
			}
			var rb []byte
			{
				b := int64Batch(inSchemaX, []int64{5})
				rb = ReqBytes(b, meta)
			}
			body = DoHTTP(h, "POST", "/exch/exchange", rb, nil).Body
		}
		for _, st := range ParseStreams(body) {
			for _, f := range st.Frames {
				if f.Kind == "exc" {
					o.NExc++
					o.Type, o.LogMsg, o.Kind = f.ExcType, f.Msg, f.ErrKind
					var ex struct {
						ExceptionMessage string            `json:"exception_message"`
						Traceback        string            `json:"traceback"`
						Frames           []json.RawMessage `json:"frames"`
					}
					_ = json.Unmarshal([]byte(f.Extra), &ex)
					o.Msg, o.TB, o.Frames = ex.ExceptionMessage, ex.Traceback != "", len(ex.Frames) > 0
				}
			}
		}
	}
	if isFw {
		// the error value as the wire shows it; the gate paths insist on the typed ProtocolVersionError
		if strings.Contains(in.Path, "_gate_") {
			src = App("C05.Returned", App("C05.GProtoVer", B(o.Msg)))
		} else if strings.Contains(in.Path, "_draining_") {
			src = App("C05.Returned", "C05.GDraining")
		} else if strings.Contains(in.Path, "_unknown") {
			src = App("C05.Returned", App("C05.GNotImplMsg", B(o.Msg)))
		} else {
			src = App("C05.Returned", App("C05.GRpc", B(o.Type), B(strings.TrimPrefix(o.Msg, o.Type+": ")), B(o.Kind)))
		}
	}
	if in.Debug {
		tags = append(tags, "debug")
	}
	pathCoq := map[string]string{"direct": "C05.Direct", "pipe_unary": "C05.PipeUnary", "http_unary": "C05.HttpUnary", "pipe_init": "C05.PipeInit",
		"http_init": "C05.HttpInit", "pipe_produce": "C05.PipeProduce", "pipe_exchange": "C05.PipeExchange", "http_exchange": "C05.HttpExchange", "http_produce": "C05.HttpProduce"}[in.Path]
	if isFw {
		pathCoq = "C05.Framework"
	}
	coqIn := App("C05.Build_input", pathCoq, Bool(in.Debug), src)
	coqObs := App("C05.Build_obs", N(uint64(o.NExc)), B(o.Type), B(o.Msg), B(o.LogMsg), B(o.Kind), Bool(o.TB), Bool(o.Frames))
	return CaseOut{Coq: Pair(coqIn, coqObs), Tags: tags, Nontrivial: true, Obs: o}
}

func init() {
	Register("C05", "every error constructor (RpcError with/without kind, the five typed framework errors, errors.New, a harness-defined error type) directly through the envelope builder with wrap depth 0-3 and debug on/off; then every dispatch path (pipe/HTTP unary, pipe/HTTP stream init, pipe produce/exchange turn, HTTP produce/exchange turn) x handler-raisable errors and three panic values; then random mixes; every case non-trivial; distinct = distinct input JSON",
		c05Gen, c05Run)
}
