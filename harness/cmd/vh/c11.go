package main

import (
	"bytes"
	"context"
	"fmt"
	"math/rand"

	"github.com/Query-farm/vgi-rpc-go/vgirpc"
	"github.com/apache/arrow-go/v18/arrow"
	"github.com/apache/arrow-go/v18/arrow/array"
	"github.com/apache/arrow-go/v18/arrow/ipc"
	"github.com/apache/arrow-go/v18/arrow/memory"
)

// C11 — a stream behaves the same over HTTP as over a pipe. One case runs the
// SAME scripted stream call twice against the real code: once through
// Server.Serve (pipe) and once through 1..3 HttpServer instances sharing a
// token key, driven by a minimal hand-rolled client loop (POST /m/init, then
// POST /m/exchange echoing the cursor + call tokens found with
// vgirpc.FindStreamTokens). Both raw results go to the model; the property
// (equal client views) is evaluated inside Coq on the implementation's output.
type c11In struct {
	Kind     string       `json:"kind"` // prod | prod_h | exch | exch_h | dyn_p | dyn_x
	ReqID    string       `json:"req_id"`
	LogLevel string       `json:"log_level"`
	Script   StreamScript `json:"script"` // init logs / init error / header / turns
	OCol     string       `json:"ocol,omitempty"` // output column a DYNAMIC method's init handler chooses (default v)
	Col      string       `json:"col"`    // exchange input column: i64 | i32 | bad (field named y)
	Ins      [][]int64    `json:"ins"`    // exchange inputs (one batch each); producers: one tick per entry
	L        int          `json:"L"`      // producer batch limit, 0 = unlimited
	CapEvery bool         `json:"cap_every"`
	CacheMax int          `json:"cache_max"` // -1 = default (4096), 0 = disabled, n = size
	Route    []int        `json:"route"`     // instance id of request k is Route[k % len]
	Compress string       `json:"compress"`  // "" | gzip | zstd | x-zstd (private negotiation header)
}

// c11Hist is one case: several stream calls opened on the SAME HttpServer
// instances and advanced by one client in the order given by Sched (entry j =
// index of the call that takes the next step: its /init, then one continuation
// or one exchange input per step); calls not finished when Sched ends are run
// to completion in order. L / CapEvery / CacheMax are server settings and are
// taken from Calls[0]. Each call is compared with its own pipe run.
type c11Hist struct {
	Calls []c11In `json:"calls"`
	Sched []int   `json:"sched,omitempty"`
}

// output columns a dynamic init handler can choose; x/2 selects one. Two of
// them serialize to the same number of bytes, the others to different lengths.
var c11OCols = []string{"v", "alpha", "bravo", "c", "delta_longer_name"}

func c11OColIdx(name string) int {
	for i, c := range c11OCols {
		if c == name {
			return i
		}
	}
	return 0
}

func c11OutSchema(idx int) *arrow.Schema {
	if idx <= 0 || idx >= len(c11OCols) {
		return outSchemaV
	}
	return arrow.NewSchema([]arrow.Field{{Name: c11OCols[idx], Type: arrow.PrimitiveTypes.Int64}}, nil)
}

// ExchOnlyState is the scripted state of a dynamic EXCHANGE call: it must not
// implement ProducerState, because a dynamic method picks its mode from the
// interfaces the state implements.
type ExchOnlyState struct{ S ScriptState }

func (st *ExchOnlyState) Exchange(ctx context.Context, in arrow.RecordBatch, out *vgirpc.OutputCollector, cc *vgirpc.CallContext) error {
	return st.S.turn("exchange", in, out, cc)
}

func init() { vgirpc.RegisterStateType(&ExchOnlyState{}) }

// newC11Server is NewScriptedServer plus the dynamic method "dyn": producer when
// x is even, exchange (with a RUNTIME input schema {x:int64}) when x is odd.
func newC11Server(sf *Surface) *vgirpc.Server {
	s := NewScriptedServer(sf)
	vgirpc.DynamicStreamWithHeader(s, "dyn", HdrInt{}.ArrowSchema(),
		func(_ context.Context, cc *vgirpc.CallContext, p PInt) (*vgirpc.StreamResult, error) {
			c := sf.popStream()
			sf.trace("dyn.init(x=%d)", p.X)
			for _, l := range c.Init.Logs {
				cc.ClientLog(vgirpc.LogLevel(l.Level), l.Msg, kvs(l.Extras)...)
			}
			if c.Init.Err != nil {
				return nil, c.Init.Err.raise()
			}
			base := ScriptState{SID: sf.ID, Turns: c.Turns}
			r := &vgirpc.StreamResult{OutputSchema: c11OutSchema(int(p.X / 2))}
			if p.X%2 == 0 {
				r.State = &base
			} else {
				r.State = &ExchOnlyState{S: base}
				r.InputSchema = inSchemaX
			}
			if c.Header != nil {
				r.Header = HdrInt{H: *c.Header}
			}
			return r, nil
		})
	return s
}

func c11Method(kind string) (method string, x int64, producer bool) {
	return c11MethodOf(c11In{Kind: kind})
}

// c11MethodOf: the dynamic method takes its mode from the parity of x and its
// output column from x/2.
func c11MethodOf(in c11In) (method string, x int64, producer bool) {
	switch in.Kind {
	case "prod", "prod_h":
		return in.Kind, 2, true
	case "exch", "exch_h":
		return in.Kind, 3, false
	case "dyn_p":
		return "dyn", int64(2 * c11OColIdx(in.OCol)), true
	}
	return "dyn", int64(2*c11OColIdx(in.OCol) + 1), false
}

var (
	c11SchemaI32 = arrow.NewSchema([]arrow.Field{{Name: "x", Type: arrow.PrimitiveTypes.Int32}}, nil)
	c11SchemaBad = arrow.NewSchema([]arrow.Field{{Name: "y", Type: arrow.PrimitiveTypes.Int64}}, nil)
	c11Empty     = arrow.NewSchema(nil, nil)
)

func c11InputSchema(in c11In, producer bool) *arrow.Schema {
	if producer {
		return c11Empty
	}
	switch in.Col {
	case "i32":
		return c11SchemaI32
	case "bad":
		return c11SchemaBad
	}
	return inSchemaX
}

func c11Batch(schema *arrow.Schema, vals []int64, meta [][2]string) arrow.RecordBatch {
	var cols []arrow.Array
	rows := int64(0)
	if schema.NumFields() == 1 {
		rows = int64(len(vals))
		if schema.Field(0).Type.ID() == arrow.INT32 {
			b := array.NewInt32Builder(memory.DefaultAllocator)
			for _, v := range vals {
				b.Append(int32(v))
			}
			cols = append(cols, b.NewArray())
			b.Release()
		} else {
			b := array.NewInt64Builder(memory.DefaultAllocator)
			b.AppendValues(vals, nil)
			cols = append(cols, b.NewArray())
			b.Release()
		}
	}
	defer func() {
		for _, c := range cols {
			c.Release()
		}
	}()
	if len(meta) == 0 {
		return array.NewRecordBatch(schema, cols, rows)
	}
	keys := make([]string, len(meta))
	mv := make([]string, len(meta))
	for i, p := range meta {
		keys[i], mv[i] = p[0], p[1]
	}
	return array.NewRecordBatchWithMetadata(schema, cols, rows, arrow.NewMetadata(keys, mv))
}

func c11InputStream(schema *arrow.Schema, batches [][]int64, meta [][2]string) []byte {
	var buf bytes.Buffer
	w := ipc.NewWriter(&buf, ipc.WithSchema(schema))
	for _, vals := range batches {
		b := c11Batch(schema, vals, meta)
		if err := w.Write(b); err != nil {
			panic(err)
		}
		b.Release()
	}
	if err := w.Close(); err != nil {
		panic(err)
	}
	return buf.Bytes()
}

type c11Resp struct {
	Status  int       `json:"status"`
	ErrHdr  bool      `json:"err_hdr"`
	Streams []RStream `json:"streams"`
	Tok     bool      `json:"tok"`
	Enc     string    `json:"enc,omitempty"`
	Inst    int       `json:"inst"`
}

// c11Client is the minimal client of ONE call: POST /m/init, then POST
// /m/exchange echoing the latest cursor and the call token of /init.
type c11Client struct {
	in       c11In
	method   string
	x        int64
	producer bool
	k        int
	cur      []byte
	call     []byte
	started  bool
	done     bool
	next     int
	out      []c11Resp
}

// c11HTTPHist drives all calls of a history against shared instances.
func c11HTTPHist(h c11Hist, tags *[]string) [][]c11Resp {
	key := []byte("c11-shared-token-key-0123456789abcdef")
	ninst := 1
	allProd := true
	for _, in := range h.Calls {
		for _, r := range in.Route {
			if r+1 > ninst {
				ninst = r + 1
			}
		}
		_, _, p := c11MethodOf(in)
		allProd = allProd && p
	}
	cfg := h.Calls[0]
	sf := newSurface()
	defer sf.Close()
	var hs []*vgirpc.HttpServer
	for i := 0; i < ninst; i++ {
		hsrv, err := vgirpc.NewHttpServerWithKey(newC11Server(sf), key)
		if err != nil {
			panic(err)
		}
		hsrv.SetProducerBatchLimit(cfg.L)
		if cfg.CapEvery && allProd {
			hsrv.SetMaxResponseBytes(1)
		}
		if cfg.CacheMax >= 0 {
			hsrv.SetCallStateCacheEntries(cfg.CacheMax)
		}
		hs = append(hs, hsrv)
	}
	cls := make([]*c11Client, len(h.Calls))
	for i, in := range h.Calls {
		m, x, p := c11MethodOf(in)
		cls[i] = &c11Client{in: in, method: m, x: x, producer: p}
	}
	do := func(c *c11Client, path string, body []byte) {
		hdr := map[string]string{}
		switch c.in.Compress {
		case "gzip", "zstd":
			hdr["Accept-Encoding"] = c.in.Compress
		case "x-zstd":
			hdr["X-VGI-Accept-Encoding"] = "zstd"
		}
		inst := 0
		if len(c.in.Route) > 0 {
			inst = c.in.Route[c.k%len(c.in.Route)]
		}
		c.k++
		resp := DoHTTP(hs[inst], "POST", path, body, hdr)
		enc := resp.Header.Get("Content-Encoding")
		if enc == "" {
			enc = resp.Header.Get("X-VGI-Content-Encoding")
		}
		data, err := vgirpc.DecodeContentEncoding(resp.Body, enc, 1<<26)
		if err != nil {
			data = nil
			*tags = append(*tags, "decode-error")
		}
		if resp.Panic != nil {
			*tags = append(*tags, "escaped-panic")
		}
		cur, call := vgirpc.FindStreamTokens(data)
		c.out = append(c.out, c11Resp{Status: resp.Status, ErrHdr: resp.Header.Get("X-VGI-RPC-Error") == "true",
			Streams: ParseStreams(data), Tok: cur != nil, Enc: enc, Inst: inst})
		c.cur = cur
		if !c.started {
			c.call = call
		}
	}
	step := func(c *c11Client) {
		if c.done {
			return
		}
		if !c.started {
			sf.PushStream(c.in.Script) // popped by this call's init handler
			do(c, "/"+c.method+"/init", ReqBytes(PIntBatch(c.x), StdMeta(c.method, c.in.ReqID, c.in.LogLevel)))
			c.started = true
			if c.cur == nil {
				c.done = true
			}
			return
		}
		if c.cur == nil || (!c.producer && c.next >= len(c.in.Ins)) || c.k > 10000 {
			c.done = true
			return
		}
		meta := [][2]string{{vgirpc.MetaStreamState, string(c.cur)}}
		if c.call != nil {
			meta = append(meta, [2]string{vgirpc.MetaCallState, string(c.call)})
		}
		var vals []int64
		if !c.producer {
			vals = c.in.Ins[c.next]
			c.next++
		}
		do(c, "/"+c.method+"/exchange", c11InputStream(c11InputSchema(c.in, c.producer), [][]int64{vals}, meta))
		if c.cur == nil {
			c.done = true
		}
	}
	for _, j := range h.Sched {
		if j >= 0 && j < len(cls) {
			step(cls[j])
		}
	}
	for _, c := range cls {
		for !c.done {
			step(c)
		}
	}
	out := make([][]c11Resp, len(cls))
	for i, c := range cls {
		out[i] = c.out
	}
	return out
}

func c11Pipe(in c11In, tags *[]string) []RStream {
	method, x, producer := c11MethodOf(in)
	sf := newSurface()
	defer sf.Close()
	sf.PushStream(in.Script)
	s := newC11Server(sf)
	input := ReqBytes(PIntBatch(x), StdMeta(method, in.ReqID, in.LogLevel))
	batches := in.Ins
	if producer {
		batches = make([][]int64, len(in.Ins))
	}
	input = append(input, c11InputStream(c11InputSchema(in, producer), batches, nil)...)
	out, esc := RunPipe(s, input)
	if esc != nil {
		*tags = append(*tags, "escaped-panic")
	}
	return ParseStreams(out)
}

// ---------------------------------------------------------------- rendering

func c11Logs(ls []LogSpec) string {
	return ListOf(ls, func(l LogSpec) string { return App("C11.Build_logmsg", B(l.Level), B(l.Msg), c04KV(l.Extras)) })
}

func c11Failure(e *ErrSpec) string {
	switch e.Kind {
	case "rpc":
		return App("C11.ERpc", B(e.Type), B(e.Msg))
	case "plain":
		return App("C11.EPlain", B(e.Msg))
	case "wrapped_rpc":
		return App("C11.EWrapped", B(e.Type), B(e.Msg))
	case "panic_str", "panic_err":
		return App("C11.EPanic", B(e.Msg))
	case "panic_int":
		return App("C11.EPanic", B("42"))
	}
	panic("bad kind " + e.Kind)
}

func c11Turn(t TurnScript) string {
	act := map[string]string{"emit": "C11.AEmit", "emit2": "C11.AEmit2", "noemit": "C11.ANoEmit", "finish": "C11.AFinish", "emit_finish": "C11.AEmitFinish"}[t.Act]
	if t.Act == "err" {
		act = App("C11.AErr", c11Failure(t.Err))
	}
	return App("C11.Build_tscript", c11Logs(t.Logs), act, Z(t.Value), c04KV(t.Meta))
}

func c11CoqInput(in c11In) string {
	kind := map[string]string{"prod": "C11.MProd", "prod_h": "C11.MProdH", "exch": "C11.MExch", "exch_h": "C11.MExchH", "dyn_p": "C11.MDynProd", "dyn_x": "C11.MDynExch"}[in.Kind]
	col := map[string]string{"i64": "C11.CI64", "i32": "C11.CI32", "bad": "C11.CBadName", "": "C11.CI64"}[in.Col]
	initFail := "None"
	if in.Script.Init.Err != nil {
		initFail = App("Some", c11Failure(in.Script.Init.Err))
	}
	hdr := "None"
	if in.Script.Header != nil {
		hdr = App("Some", Z(*in.Script.Header))
	}
	cmax := in.CacheMax
	if cmax < 0 {
		cmax = 4096
	}
	ocol := in.OCol
	if ocol == "" {
		ocol = "v"
	}
	return App("C11.Build_input", kind, B(in.ReqID), B(in.LogLevel), c11Logs(in.Script.Init.Logs), initFail, hdr, B(ocol),
		ListOf(in.Script.Turns, c11Turn), col, ListOf(in.Ins, func(v []int64) string { return ListOf(v, Z) }),
		Nat(in.L), Bool(in.CapEvery), Nat(cmax), ListOf(in.Route, Nat), Bool(in.Compress != ""))
}

func c11CallTags(in c11In, http []c11Resp, tags *[]string) {
	add := func(t string) { *tags = append(*tags, t) }
	add(in.Kind)
	add(fmt.Sprintf("inst=%d", len(uniqInts(in.Route))))
	if in.Compress != "" {
		enc := false
		for _, r := range http {
			enc = enc || r.Enc != ""
		}
		if enc {
			add("compressed-" + in.Compress)
		} else {
			add("compression-requested-not-applied")
		}
	}
	if in.Script.Init.Err != nil {
		add("init-fail")
	}
	if in.Col != "i64" && in.Col != "" {
		add("col-" + in.Col)
	}
	_, _, producer := c11MethodOf(in)
	// a dynamic exchange stream whose input is castable to (or refused by) the
	// RUNTIME input schema but not equal to it: the case the code got wrong over
	// HTTP before the call token carried the runtime input schema
	if in.Kind == "dyn_x" && in.Col != "i64" && in.Col != "" && len(in.Ins) > 0 && in.Script.Init.Err == nil {
		add("dyn-exchange-runtime-cast")
	}
	if (in.Kind == "dyn_x" || in.Kind == "dyn_p") && in.OCol != "" && in.OCol != "v" {
		add("dyn-ocol-" + in.OCol)
	}
	for _, t := range in.Script.Turns {
		if t.Act == "err" || t.Act == "emit2" || t.Act == "noemit" || (!producer && (t.Act == "finish" || t.Act == "emit_finish")) {
			add("turn-fail")
			break
		}
	}
	add(fmt.Sprintf("http-requests=%d", min(len(http), 6)))
}

func c11Run(h c11Hist) CaseOut {
	if len(h.Calls) == 0 {
		return CaseOut{Coq: Pair(App("C11H.Build_input", "[]", "[]"), "[]"), Tags: []string{"empty-history"}}
	}
	// server settings are shared: normalise every call to Calls[0]'s
	allProd := true
	for _, in := range h.Calls {
		_, _, p := c11MethodOf(in)
		allProd = allProd && p
	}
	for i := range h.Calls {
		h.Calls[i].L, h.Calls[i].CacheMax = h.Calls[0].L, h.Calls[0].CacheMax
		h.Calls[i].CapEvery = h.Calls[0].CapEvery && allProd
	}
	cfg := h.Calls[0]
	tags := []string{fmt.Sprintf("calls=%d", min(len(h.Calls), 4)), fmt.Sprintf("L=%d", cfg.L)}
	if cfg.CapEvery {
		tags = append(tags, "cap-every")
	}
	switch {
	case cfg.CacheMax == 0:
		tags = append(tags, "cache-off")
	case cfg.CacheMax < 0:
		tags = append(tags, "cache-default")
	default:
		tags = append(tags, "cache-small")
	}
	http := c11HTTPHist(h, &tags)
	var pipes [][]RStream
	nontrivial := false
	obs := make([]string, len(h.Calls))
	for i, in := range h.Calls {
		pipe := c11Pipe(in, &tags)
		pipes = append(pipes, pipe)
		c11CallTags(in, http[i], &tags)
		nontrivial = nontrivial || (len(in.Script.Turns) > 0 && len(in.Ins) > 0)
		obs[i] = App("C11.Build_obs", coqStreams(pipe), ListOf(http[i], func(r c11Resp) string {
			return App("C11.Build_hresp", Z(int64(r.Status)), Bool(r.ErrHdr), coqStreams(r.Streams), Bool(r.Tok))
		}))
	}
	if len(h.Calls) > 1 {
		// do two calls actually overlap: some call takes a step between two steps of another
		overlap := false
		seen := map[int]int{}
		for pos, j := range h.Sched {
			if last, ok := seen[j]; ok && pos-last > 1 {
				overlap = true
			}
			seen[j] = pos
		}
		if overlap {
			tags = append(tags, "overlapping-calls")
		} else {
			tags = append(tags, "sequential-calls")
		}
	}
	coqIn := App("C11H.Build_input", ListOf(h.Calls, c11CoqInput), ListOf(h.Sched, Nat))
	return CaseOut{Coq: Pair(coqIn, List(obs)), Tags: tags, Nontrivial: nontrivial,
		Obs: map[string]any{"pipe": pipes, "http": http}}
}

func uniqInts(xs []int) []int {
	seen := map[int]bool{}
	var out []int
	for _, x := range xs {
		if !seen[x] {
			seen[x] = true
			out = append(out, x)
		}
	}
	if len(out) == 0 {
		out = []int{0}
	}
	return out
}

// ---------------------------------------------------------------- generator

var c11Errs = []ErrSpec{
	{Kind: "rpc", Type: "ValueError", Msg: "bad value"}, {Kind: "rpc", Type: "MyCustom", Msg: ""},
	{Kind: "plain", Msg: "boom"}, {Kind: "wrapped_rpc", Type: "ValueError", Msg: "inner"},
	{Kind: "panic_str", Msg: "kaboom"}, {Kind: "panic_err", Msg: "perr"}, {Kind: "panic_int", Msg: ""},
}

func c11GenLogs(r *rand.Rand, max int) []LogSpec {
	var out []LogSpec
	for k := r.Intn(max + 1); k > 0; k-- {
		l := LogSpec{Level: c04MsgLevels[r.Intn(len(c04MsgLevels))], Msg: []string{"", "hello", "a b", "unicode é世", "t"}[r.Intn(5)]}
		for e := r.Intn(3); e > 0; e-- {
			l.Extras = append(l.Extras, [2]string{[]string{"k", "a", "zz"}[r.Intn(3)], fmt.Sprint(r.Intn(5))})
		}
		out = append(out, l)
	}
	return out
}

func c11GenTurns(r *rand.Rand, producer bool, n int, failing bool) []TurnScript {
	var out []TurnScript
	for i := 0; i < n; i++ {
		t := TurnScript{Act: "emit", Value: r.Int63n(2000) - 1000, Logs: c11GenLogs(r, 2)}
		if r.Intn(4) == 0 {
			t.Meta = [][2]string{{[]string{"um", "vgi_batch_index", "a"}[r.Intn(3)], fmt.Sprint(r.Intn(9))}}
			if r.Intn(2) == 0 {
				t.Meta = append(t.Meta, [2]string{"zz", "1"})
			}
		}
		out = append(out, t)
	}
	if n > 0 && failing {
		i := r.Intn(n)
		switch r.Intn(6) {
		case 0, 1:
			e := c11Errs[r.Intn(len(c11Errs))]
			out[i].Act, out[i].Err = "err", &e
		case 2:
			out[i].Act = "emit2"
		case 3:
			out[i].Act = "noemit"
		case 4:
			out[i].Act = "finish"
		case 5:
			out[i].Act = "emit_finish"
		}
	} else if n > 0 && producer && r.Intn(3) == 0 {
		out[n-1].Act = []string{"finish", "emit_finish"}[r.Intn(2)]
	}
	return out
}

func c11GenSingle(r *rand.Rand, n int, tier string) []c11In {
	var out []c11In
	h7 := int64(7)
	emit := func(v int64) TurnScript { return TurnScript{Act: "emit", Value: v} }
	five := []TurnScript{emit(1), emit(2), emit(3), emit(4), emit(5)}
	logsInit := []LogSpec{{Level: "INFO", Msg: "init-i"}, {Level: "DEBUG", Msg: "init-d"}}
	// ---- boundary cases first
	for _, L := range []int{0, 1, 2, 5, 6} { // chunking boundaries around the 5 data batches
		for _, kind := range []string{"prod", "prod_h", "dyn_p"} {
			out = append(out, c11In{Kind: kind, ReqID: "rid", LogLevel: "INFO", Script: StreamScript{Init: CallScript{Logs: logsInit}, Header: &h7, Turns: five},
				Ins: make([][]int64, 7), L: L, CacheMax: -1, Route: []int{0, 1, 2}})
		}
	}
	for _, cm := range []int{0, 1, -1} {
		for _, route := range [][]int{{0}, {0, 1}, {0, 1, 2}, {1, 0, 0, 2}} {
			out = append(out, c11In{Kind: "exch_h", ReqID: "r", Script: StreamScript{Init: CallScript{Logs: logsInit}, Header: &h7, Turns: five},
				Col: "i64", Ins: [][]int64{{1}, {2, 3}, {}, {4}, {5}, {6}}, CacheMax: cm, Route: route})
			out = append(out, c11In{Kind: "prod", Script: StreamScript{Turns: five}, Ins: make([][]int64, 6), L: 1, CapEvery: cm == 1, CacheMax: cm, Route: route})
		}
	}
	// the probes named in the design: castable-but-unequal and uncastable inputs on static and dynamic exchange
	for _, kind := range []string{"exch", "exch_h", "dyn_x"} {
		for _, col := range []string{"i64", "i32", "bad"} {
			out = append(out, c11In{Kind: kind, ReqID: "rq", Script: StreamScript{Turns: five[:2]}, Col: col, Ins: [][]int64{{10}, {20, 1}}, CacheMax: -1, Route: []int{0, 1}})
		}
	}
	// init failures, failing turns with logs, compression
	for i, e := range c11Errs {
		e := e
		kind := []string{"prod", "exch", "prod_h", "exch_h", "dyn_p", "dyn_x"}[i%6]
		out = append(out, c11In{Kind: kind, ReqID: "rid", Script: StreamScript{Init: CallScript{Logs: logsInit, Err: &e}, Header: &h7, Turns: five}, Col: "i64", Ins: [][]int64{{1}, {2}}, CacheMax: -1, Route: []int{0}})
		out = append(out, c11In{Kind: kind, ReqID: "rid", Script: StreamScript{Header: &h7, Turns: []TurnScript{emit(1), {Act: "err", Err: &e, Logs: logsInit}, emit(3)}}, Col: "i64", Ins: [][]int64{{1}, {2}, {3}, {4}}, L: i % 3, CacheMax: -1, Route: []int{0, 1},
			Compress: []string{"", "gzip", "zstd", "x-zstd"}[i%4]})
	}
	// ---- random structured cases
	kinds := []string{"prod", "prod_h", "exch", "exch_h", "dyn_p", "dyn_x"}
	for len(out) < n {
		in := c11In{Kind: kinds[r.Intn(len(kinds))], ReqID: []string{"", "r-1", "req id"}[r.Intn(3)], LogLevel: c04Levels[r.Intn(len(c04Levels))],
			L: []int{0, 1, 2, 5}[r.Intn(4)], CacheMax: []int{0, -1, -1, 1, 2}[r.Intn(5)], Compress: []string{"", "", "gzip", "zstd", "x-zstd"}[r.Intn(5)], Col: "i64"}
		_, _, producer := c11Method(in.Kind)
		nt := r.Intn(8)
		in.Script.Turns = c11GenTurns(r, producer, nt, r.Intn(3) == 0)
		in.Script.Init.Logs = c11GenLogs(r, 3)
		if r.Intn(3) > 0 {
			h := r.Int63n(100)
			in.Script.Header = &h
		}
		if r.Intn(12) == 0 {
			e := c11Errs[r.Intn(len(c11Errs))]
			in.Script.Init.Err = &e
		}
		ninst := 1 + r.Intn(3)
		for k := 1 + r.Intn(5); k > 0; k-- {
			in.Route = append(in.Route, r.Intn(ninst))
		}
		if producer {
			in.CapEvery = r.Intn(5) == 0
			in.Ins = make([][]int64, nt+1+r.Intn(3)) // always enough ticks for the scripted producer to finish
		} else {
			if r.Intn(5) == 0 {
				in.Col = []string{"i32", "bad"}[r.Intn(2)]
			}
			for k := r.Intn(nt + 3); k > 0; k-- {
				var vals []int64
				for j := r.Intn(3); j > 0; j-- {
					vals = append(vals, r.Int63n(200)-100)
				}
				in.Ins = append(in.Ins, vals)
			}
		}
		out = append(out, in)
	}
	return out
}

// c11Gen: histories. Boundary histories of OVERLAPPING calls first, then every
// single-call case of c11GenSingle as a one-call history, then random histories
// of 2-3 overlapping calls.
func c11Gen(r *rand.Rand, n int, tier string) []c11Hist {
	var out []c11Hist
	emit := func(v int64) TurnScript { return TurnScript{Act: "emit", Value: v} }
	four := []TurnScript{emit(1), emit(2), emit(3), emit(4)}
	mk := func(kind, ocol string, L int, route []int, col string) c11In {
		in := c11In{Kind: kind, OCol: ocol, ReqID: "r", Script: StreamScript{Turns: four}, L: L, CacheMax: -1, Route: route, Col: col}
		if _, _, p := c11MethodOf(in); p {
			in.Ins = make([][]int64, 6)
		} else {
			in.Ins = [][]int64{{10}, {20, 1}, {30}}
		}
		return in
	}
	alt := func(ncalls, steps int) []int {
		var sc []int
		for j := 0; j < steps; j++ {
			sc = append(sc, j%ncalls)
		}
		return sc
	}
	// open A, open B, continue A, continue B, ... on the instance(s) that served the /init:
	// A is dynamic (its schemas live only in the call token / cache), B's schema differs
	for _, ka := range []string{"dyn_p", "dyn_x"} {
		for _, kb := range []string{"dyn_p", "dyn_x"} {
			for _, ob := range []string{"bravo", "delta_longer_name", "c", "v"} {
				for ri, route := range [][]int{{0}, {0, 1}} {
					col := []string{"i64", "i32"}[ri]
					out = append(out, c11Hist{Calls: []c11In{mk(ka, "alpha", 1+ri, route, col), mk(kb, ob, 1+ri, route, col)}, Sched: alt(2, 12)})
				}
			}
		}
	}
	// other orders and a third call; B static (its /init mints a call token too); small / disabled cache
	for i, sc := range [][]int{{0, 1, 1, 1, 0, 0, 0}, {0, 1, 2, 0, 1, 2, 0, 1, 2}, {1, 0, 2, 2, 1, 0, 0}, {0, 1, 2, 2, 2, 2, 0}, {2, 1, 0, 0, 1, 2}} {
		calls := []c11In{mk("dyn_p", "alpha", 1, []int{0}, "i64"), mk([]string{"prod", "exch", "prod_h", "exch_h", "dyn_x"}[i], "bravo", 1, []int{0}, "i64"), mk("dyn_x", "c", 1, []int{0, 0, 1}, "i32")}
		calls[0].CacheMax = []int{-1, -1, 1, 2, 0}[i]
		out = append(out, c11Hist{Calls: calls, Sched: sc})
		out = append(out, c11Hist{Calls: calls[:2], Sched: sc})
	}
	// every single-call case
	nb := len(c11GenSingle(rand.New(rand.NewSource(1)), 0, tier))
	nSingle := nb + (n-len(out)-nb)/2
	if nSingle < nb {
		nSingle = nb
	}
	for _, in := range c11GenSingle(r, nSingle, tier) {
		if (in.Kind == "dyn_p" || in.Kind == "dyn_x") && r.Intn(2) == 0 {
			in.OCol = c11OCols[r.Intn(len(c11OCols))]
		}
		out = append(out, c11Hist{Calls: []c11In{in}})
	}
	// random histories of 2-3 overlapping calls
	for len(out) < n {
		nc := 2 + r.Intn(2)
		pool := c11GenSingle(r, nb+nc, tier)[nb:]
		h := c11Hist{}
		steps := 0
		for _, in := range pool {
			if r.Intn(3) > 0 { // bias towards the methods whose schemas travel in the token
				in.Kind = []string{"dyn_p", "dyn_x"}[r.Intn(2)]
				if in.Kind == "dyn_p" {
					in.Ins = make([][]int64, len(in.Script.Turns)+2)
					in.Col = "i64"
				}
				for i := range in.Script.Turns { // keep the script valid for the new mode
					if a := in.Script.Turns[i].Act; in.Kind == "dyn_x" && (a == "finish" || a == "emit_finish") {
						in.Script.Turns[i].Act = "emit"
					}
				}
			}
			if in.Kind == "dyn_p" || in.Kind == "dyn_x" {
				in.OCol = c11OCols[r.Intn(len(c11OCols))]
			}
			if r.Intn(2) == 0 {
				in.Route = []int{0}
			}
			h.Calls = append(h.Calls, in)
			steps += 2 + len(in.Ins)
		}
		h.Calls[0].L = []int{1, 1, 2, 0, 5}[r.Intn(5)]
		h.Calls[0].CacheMax = []int{-1, -1, -1, 0, 1, 2}[r.Intn(6)]
		for k := r.Intn(steps + 1); k > 0; k-- {
			h.Sched = append(h.Sched, r.Intn(nc))
		}
		out = append(out, h)
	}
	return out
}

func init() {
	Register("C11", "each case is a HISTORY of 1-3 scripted stream calls opened on the same 1-3 HttpServer instances (shared key, per-instance call-state cache) and advanced by one hand-rolled client in a given interleaving (cursor + call tokens echoed); every call is also run alone over the pipe (Server.Serve) and the two client views are compared per call. Boundary histories first: open A, open B, continue A, ... with A dynamic (producer / exchange, output column alpha) and B dynamic with an output column of the same / another serialized length (bravo, delta_longer_name, c, v), L in {1,2}, one instance and two, int64 / int32 inputs; 3-call orders with a static B and cache {default,1,2,0}. Then every single-call case (L in {0,1,2,5,6} around 5 batches, cache {0,1,default} x 4 routings, castable / uncastable inputs on static and dynamic exchange, 7 init-failure kinds, failing turns, gzip/zstd/private-header compression, then random: 6 method kinds, 0-7 turns with user metadata / logs / a failing turn in 1/3, init logs vs requested level, header, cap every cycle on 1/5 of producers, random dynamic output column). Then random histories of 2-3 overlapping calls biased to dynamic methods with random output columns, random schedule. Producers always get enough ticks to finish; non-trivial = some call has a scripted turn and an input; distinct = distinct input JSON",
		c11Gen, c11Run)
}
