package main

import (
	"fmt"
	"math/rand"
	"net"
	"net/http"
	"net/http/httptest"
	"sort"
	"strconv"
	"strings"
	"sync"
	"time"

	"github.com/Query-farm/vgi-rpc-go/vgirpc"
)

// C32 — parallel range fetch: exact resource or an error, never a hang.
//
// The real FetchWithParallelRangeRequests runs against an httptest server. Every
// range request blocks in the handler until the harness releases it, so the
// harness (not the Go scheduler) decides the order in which results reach the
// receive loop: it releases ONE attempt, waits until that attempt's goroutine
// has closed its response body (fetchChunk defers the Close, so by then its
// result is in the channel), and only then releases the next. The order that
// was realised is what the model is run on.

type c32Ans struct {
	Idx   int    `json:"i"`
	Hedge bool   `json:"h,omitempty"`
	Kind  string `json:"k"` // exact short long whole200 whole206 status drop trunc wrong
	K     int    `json:"n,omitempty"`
	// F is how the end of the body is signalled: "" = declared Content-Length,
	// "chunked" (handler flushes before writing), "close" (HTTP/1.0, connection
	// close ends the body), "auto" (no explicit length: net/http declares it up to
	// 2 KiB and chunks above). With anything but a declared length the client sees
	// ContentLength = -1 and a short body ends with a clean EOF.
	F string `json:"f,omitempty"`
}

type c32In struct {
	Res       []byte   `json:"res"`
	Head      string   `json:"head"` // ok | fail | noranges | nolen
	Simple    c32Ans   `json:"simple"`
	Chunk     int64    `json:"chunk"`
	Par       int      `json:"par"`
	Threshold int64    `json:"threshold"`
	MaxFetch  int64    `json:"maxfetch"`
	Mult      string   `json:"mult"` // off | neg | tiny | huge
	MaxHedges int      `json:"maxhedges"`
	Script    []c32Ans `json:"script"`
	Pref      string   `json:"pref"` // rand | failfirst | faillast | low | high
	Order     []int    `json:"order"`
	// Free: no gating. Handlers answer after small scripted latencies, the real
	// time-based hedge test runs (mult real = 2.0, half = 0.5) and neither the
	// delivery order nor the hedge decisions are observed. Both requests for a
	// chunk get the SAME answer kind; theorem duplicate_blind_outcome shows the
	// outcome then does not depend on order or hedging, so the model is run on the
	// canonical order (first requests by index, no hedges).
	Free bool   `json:"free,omitempty"`
	Note string `json:"note,omitempty"`
}

const (
	c32Quiet       = 500 * time.Microsecond
	c32Settle      = 12 * time.Millisecond
	c32HangTimeout = 1500 * time.Millisecond
	c32DefChunk    = 8 * 1024 * 1024
)

type c32Att struct {
	idx        int
	hedge      bool
	start, end int64
	kind       c32Ans
	release    chan struct{}
	closed     chan struct{}
	once       sync.Once
}

func (a *c32Att) key() string { return fmt.Sprintf("%d/%v", a.idx, a.hedge) }

type c32Env struct {
	in       c32In
	effChunk int64
	mu       sync.Mutex
	seen     map[int]int
	atts     map[string]*c32Att
	arrivals chan *c32Att
	quit     chan struct{}
	desync   []string
	ranges   int
	simple   int
}

func (e *c32Env) note(s string) {
	e.mu.Lock()
	e.desync = append(e.desync, s)
	e.mu.Unlock()
}

func (e *c32Env) answerFor(idx int, hedge bool) c32Ans {
	if e.in.Free {
		hedge = false
	}
	for _, a := range e.in.Script {
		if a.Idx == idx && a.Hedge == hedge {
			return a
		}
	}
	return c32Ans{Idx: idx, Hedge: hedge, Kind: "drop"}
}

func c32Drop(w http.ResponseWriter) net.Conn {
	hj, ok := w.(http.Hijacker)
	if !ok {
		panic("no hijacker")
	}
	c, _, err := hj.Hijack()
	if err != nil {
		panic(err)
	}
	return c
}

// respond writes the scripted answer for the byte range [start,end] of the resource.
func (e *c32Env) respond(w http.ResponseWriter, a c32Ans, start, end int64, tag string) {
	res := e.in.Res
	if end >= int64(len(res)) {
		end = int64(len(res)) - 1
	}
	var chunk []byte
	if start <= end && start >= 0 {
		chunk = res[start : end+1]
	}
	w.Header().Set("X-Attempt", tag)
	send := func(code int, body []byte) {
		cr := ""
		if code == http.StatusPartialContent {
			cr = fmt.Sprintf("bytes %d-%d/%d", start, end, len(res))
			w.Header().Set("Content-Range", cr)
		}
		switch a.F {
		case "chunked":
			w.WriteHeader(code)
			w.(http.Flusher).Flush()
			h := len(body) / 2
			if h > 0 {
				w.Write(body[:h])
				w.(http.Flusher).Flush()
			}
			w.Write(body[h:])
		case "close":
			c := c32Drop(w)
			fmt.Fprintf(c, "HTTP/1.0 %d %s\r\nX-Attempt: %s\r\n", code, http.StatusText(code), tag)
			if cr != "" {
				fmt.Fprintf(c, "Content-Range: %s\r\n", cr)
			}
			fmt.Fprint(c, "\r\n")
			c.Write(body)
			c.Close()
		case "auto":
			w.WriteHeader(code)
			w.Write(body)
		default:
			w.Header().Set("Content-Length", strconv.Itoa(len(body)))
			w.WriteHeader(code)
			w.Write(body)
		}
	}
	switch a.Kind {
	case "exact":
		send(206, chunk)
	case "short":
		n := len(chunk) - 1 - a.K
		if n < 0 {
			n = 0
		}
		send(206, chunk[:n])
	case "long":
		b := append([]byte(nil), chunk...)
		for i := 0; i <= a.K; i++ {
			b = append(b, 0xEE)
		}
		send(206, b)
	case "whole200":
		send(200, res)
	case "whole206":
		send(206, res)
	case "status":
		send(a.K, nil)
	case "wrong":
		b := make([]byte, len(chunk))
		for i, c := range chunk {
			b[i] = 255 - c
		}
		send(206, b)
	case "trunc":
		c := c32Drop(w)
		if a.F == "chunked" { // chunked body cut off before its terminating chunk
			fmt.Fprintf(c, "HTTP/1.1 206 Partial Content\r\nTransfer-Encoding: chunked\r\nX-Attempt: %s\r\nConnection: close\r\n\r\n", tag)
			if h := chunk[:len(chunk)/2]; len(h) > 0 {
				fmt.Fprintf(c, "%x\r\n%s\r\n", len(h), h)
			}
			c.Close()
			return
		}
		decl := len(chunk)
		if decl == 0 {
			decl = 1
		}
		fmt.Fprintf(c, "HTTP/1.1 206 Partial Content\r\nContent-Length: %d\r\nX-Attempt: %s\r\nConnection: close\r\n\r\n", decl, tag)
		c.Write(chunk[:len(chunk)/2])
		c.Close()
	default: // drop
		c32Drop(w).Close()
	}
}

func (e *c32Env) ServeHTTP(w http.ResponseWriter, r *http.Request) {
	size := int64(len(e.in.Res))
	if r.Method == http.MethodHead {
		switch e.in.Head {
		case "fail":
			c32Drop(w).Close()
		case "noranges":
			w.Header().Set("Content-Length", strconv.FormatInt(size, 10))
		case "nolen":
			w.Header().Set("Accept-Ranges", "bytes")
		default:
			w.Header().Set("Content-Length", strconv.FormatInt(size, 10))
			w.Header().Set("Accept-Ranges", "bytes")
		}
		return
	}
	rg := r.Header.Get("Range")
	if rg == "" {
		e.mu.Lock()
		e.simple++
		e.mu.Unlock()
		e.respond(w, e.in.Simple, 0, e.effChunk-1, "")
		return
	}
	var start, end int64
	if _, err := fmt.Sscanf(rg, "bytes=%d-%d", &start, &end); err != nil {
		e.note("bad range header " + rg)
		w.WriteHeader(400)
		return
	}
	idx := int(start / e.effChunk)
	e.mu.Lock()
	ord := e.seen[idx]
	e.seen[idx]++
	e.ranges++
	e.mu.Unlock()
	if ord >= 2 || start%e.effChunk != 0 {
		e.note(fmt.Sprintf("unexpected range request %s (ordinal %d)", rg, ord))
		w.WriteHeader(500)
		return
	}
	a := &c32Att{idx: idx, hedge: ord == 1, start: start, end: end, release: make(chan struct{}), closed: make(chan struct{})}
	a.kind = e.answerFor(idx, a.hedge)
	if e.in.Free {
		lat := 0
		if k := 2*idx + ord; k < len(e.in.Order) {
			lat = e.in.Order[k] % 5
			if e.in.Order[k]%7 == 0 {
				lat = 25 // a straggler: slow enough for the real hedge test to fire
			}
		}
		select {
		case <-time.After(time.Duration(lat) * time.Millisecond):
		case <-e.quit:
			return
		case <-r.Context().Done():
			return
		}
		e.respond(w, a.kind, start, end, "")
		return
	}
	e.mu.Lock()
	e.atts[a.key()] = a
	e.mu.Unlock()
	e.arrivals <- a
	select {
	case <-a.release:
	case <-e.quit:
		return
	case <-r.Context().Done():
		return
	}
	e.respond(w, a.kind, start, end, a.key())
}

// c32RT wraps response bodies so the harness sees when fetchChunk is done with one.
type c32RT struct {
	base http.RoundTripper
	env  *c32Env
}
type c32Body struct {
	inner interface {
		Read([]byte) (int, error)
		Close() error
	}
	a *c32Att
}

func (b *c32Body) Read(p []byte) (int, error) { return b.inner.Read(p) }
func (b *c32Body) Close() error {
	err := b.inner.Close()
	b.a.once.Do(func() { close(b.a.closed) })
	return err
}
func (t *c32RT) RoundTrip(req *http.Request) (*http.Response, error) {
	resp, err := t.base.RoundTrip(req)
	if err != nil {
		return nil, err
	}
	if k := resp.Header.Get("X-Attempt"); k != "" {
		t.env.mu.Lock()
		a := t.env.atts[k]
		t.env.mu.Unlock()
		if a != nil {
			resp.Body = &c32Body{inner: resp.Body, a: a}
		}
	}
	return resp, nil
}

func c32MayAccept(k string) bool { return k == "exact" || k == "whole206" || k == "wrong" }
func c32IsFail(k string) bool   { return !c32MayAccept(k) }

func c32KindCoq(a c32Ans) string {
	f := "C32.Declared"
	switch a.F {
	case "chunked":
		f = "C32.Chunked"
	case "close":
		f = "C32.CloseDelim"
	case "auto":
		f = "C32.Auto"
	}
	switch a.Kind {
	case "exact":
		return App("C32.KExact", f)
	case "short":
		return App("C32.KShort", f, Nat(a.K))
	case "long":
		return App("C32.KLong", f, Nat(a.K))
	case "whole200":
		return App("C32.KWhole200", f)
	case "whole206":
		return App("C32.KWhole206", f)
	case "status":
		return App("C32.KStatus", f, N(uint64(a.K)))
	case "wrong":
		return App("C32.KWrong", f)
	}
	return "C32.KFail"
}

var c32Framings = []string{"", "chunked", "close", "auto"}

func c32RandFraming(r *rand.Rand) string {
	switch x := r.Intn(20); {
	case x < 11:
		return ""
	case x < 15:
		return "chunked"
	case x < 18:
		return "close"
	}
	return "auto"
}

func c32AttCoq(idx int, hedge bool) string { return Pair(Nat(idx), Bool(hedge)) }

func c32Run(in c32In) CaseOut {
	env := &c32Env{in: in, seen: map[int]int{}, atts: map[string]*c32Att{}, arrivals: make(chan *c32Att, 4096), quit: make(chan struct{})}
	env.effChunk = in.Chunk
	if env.effChunk <= 0 {
		env.effChunk = c32DefChunk
	}
	srv := httptest.NewServer(env)
	base := &http.Transport{DisableKeepAlives: true}
	client := &http.Client{Transport: &c32RT{base: base, env: env}, Timeout: 30 * time.Second}
	cfg := &vgirpc.FetchConfig{ParallelThresholdBytes: in.Threshold, ChunkSizeBytes: in.Chunk, MaxParallelRequests: in.Par,
		TimeoutSeconds: 60, MaxFetchBytes: in.MaxFetch, MaxSpeculativeHedges: in.MaxHedges}
	switch in.Mult {
	case "neg":
		cfg.SpeculativeRetryMultiplier = -2
	case "tiny":
		cfg.SpeculativeRetryMultiplier = 1e-12
	case "huge":
		cfg.SpeculativeRetryMultiplier = 1e7
	case "real":
		cfg.SpeculativeRetryMultiplier = 2.0
	case "half":
		cfg.SpeculativeRetryMultiplier = 0.5
	}

	type fetchRes struct {
		data  []byte
		err   error
		panic any
	}
	doneCh := make(chan fetchRes, 1)
	go func() {
		var fr fetchRes
		defer func() {
			if p := recover(); p != nil {
				fr.panic = p
			}
			doneCh <- fr
		}()
		fr.data, fr.err = vgirpc.FetchWithParallelRangeRequests(client, srv.URL+"/res", cfg)
	}()

	pending := map[string]*c32Att{}
	var realized []*c32Att
	var result *fetchRes
	hang := false
	settled := false
	step := 0
	// collect arrivals until none has come for c32Quiet; true if the call returned
	collect := func() bool {
		t := time.NewTimer(c32Quiet)
		defer t.Stop()
		for {
			select {
			case a := <-env.arrivals:
				pending[a.key()] = a
				if !t.Stop() {
					select {
					case <-t.C:
					default:
					}
				}
				t.Reset(c32Quiet)
			case r := <-doneCh:
				result = &r
				return true
			case <-t.C:
				return false
			}
		}
	}
	if in.Free {
		select {
		case r := <-doneCh:
			result = &r
		case <-time.After(4 * c32HangTimeout):
			hang = true
		}
	}
	for result == nil && !hang {
		if len(pending) == 0 {
			select {
			case a := <-env.arrivals:
				pending[a.key()] = a
			case r := <-doneCh:
				result = &r
			case <-time.After(c32HangTimeout):
				hang = true
			}
			if result != nil || hang {
				break
			}
		}
		if collect() {
			break
		}
		cands := make([]*c32Att, 0, len(pending))
		for _, a := range pending {
			cands = append(cands, a)
		}
		sort.Slice(cands, func(i, j int) bool {
			if cands[i].idx != cands[j].idx {
				return cands[i].idx < cands[j].idx
			}
			return !cands[i].hedge && cands[j].hedge
		})
		// scheduling preference narrows the candidates, the order numbers pick one
		narrow := func(keep func(*c32Att) bool) {
			var f []*c32Att
			for _, a := range cands {
				if keep(a) {
					f = append(f, a)
				}
			}
			if len(f) > 0 {
				cands = f
			}
		}
		switch in.Pref {
		case "failfirst":
			narrow(func(a *c32Att) bool { return c32IsFail(a.kind.Kind) })
		case "faillast":
			narrow(func(a *c32Att) bool { return !c32IsFail(a.kind.Kind) })
		case "low":
			cands = cands[:1]
		case "high":
			cands = cands[len(cands)-1:]
		}
		o := 0
		if step < len(in.Order) {
			o = in.Order[step]
		}
		if o < 0 {
			o = -o
		}
		pick := cands[o%len(cands)]
		step++
		delete(pending, pick.key())
		realized = append(realized, pick)
		close(pick.release)
		if pick.kind.Kind == "drop" {
			// no response body to observe; an error result commutes with every other
			// result in the receive loop, a short pause keeps the common order anyway
			time.Sleep(2 * time.Millisecond)
		} else {
			select {
			case <-pick.closed:
			case r := <-doneCh:
				result = &r
			case <-time.After(3 * time.Second):
				env.note("attempt " + pick.key() + " released but its body was never closed")
			}
		}
		if result == nil && in.Mult == "tiny" && !settled && c32MayAccept(pick.kind.Kind) {
			// len(completionTimes) is appended by the worker before the loop has handled the
			// previous result; let the loop handle the first accepted result before a second
			// one can be appended, so the >= 2 test is the deterministic one the model uses
			settled = true
			select {
			case r := <-doneCh:
				result = &r
			case <-time.After(c32Settle):
			}
		}
	}
	close(env.quit)
	srv.CloseClientConnections()
	srv.Close()
	base.CloseIdleConnections()

	// ---- observables ----
	type obs struct {
		Outcome  string `json:"outcome"`
		Len      int    `json:"len"`
		Ranges   int    `json:"range_requests"`
		Simple   int    `json:"plain_gets"`
		Realized string `json:"realized"`
		Notes    string `json:"notes,omitempty"`
	}
	o := obs{Ranges: env.ranges, Simple: env.simple, Notes: strings.Join(env.desync, "; ")}
	var coqObs string
	switch {
	case hang || (result != nil && result.panic != nil):
		o.Outcome = "hang"
		if !hang {
			o.Outcome = "panic"
			o.Notes += fmt.Sprint(" panic: ", result.panic)
		}
		coqObs = "C32.OHang"
	case result.err != nil:
		o.Outcome = "error"
		coqObs = "C32.OError"
	default:
		o.Len = len(result.data)
		if string(result.data) == string(in.Res) {
			o.Outcome = "exact"
		} else {
			o.Outcome = "wrong-bytes"
		}
		coqObs = App("C32.OBytes", B(string(result.data)))
	}
	if len(env.desync) > 0 {
		coqObs = "C32.ODesync" // the harness lost control of the run; never equal to a model outcome the spec accepts silently
		o.Outcome = "harness-desync"
	}
	var rs []string
	for _, a := range realized {
		rs = append(rs, a.key())
	}
	o.Realized = strings.Join(rs, " ")

	// ---- Coq input ----
	head := "C32.HeadFail"
	switch in.Head {
	case "ok":
		head = App("C32.HeadOk", "true", "true")
	case "noranges":
		head = App("C32.HeadOk", "true", "false")
	case "nolen":
		head = App("C32.HeadOk", "false", "true")
	}
	mult := "C32.MOff"
	switch in.Mult {
	case "tiny":
		mult = "C32.MTiny"
	case "huge":
		mult = "C32.MHuge"
	}
	script := ListOf(in.Script, func(a c32Ans) string { return Pair(c32AttCoq(a.Idx, a.Hedge), c32KindCoq(a)) })
	sched := ListOf(realized, func(a *c32Att) string { return c32AttCoq(a.idx, a.hedge) })
	if in.Free {
		nchunks := 0
		if len(in.Res) > 0 {
			nchunks = int((int64(len(in.Res)) + env.effChunk - 1) / env.effChunk)
		}
		var sc, sd []string
		for i := 0; i < nchunks; i++ {
			k := c32KindCoq(env.answerFor(i, false))
			sc = append(sc, Pair(c32AttCoq(i, false), k), Pair(c32AttCoq(i, true), k))
			sd = append(sd, c32AttCoq(i, false))
		}
		script, sched = List(sc), List(sd)
	}
	coqIn := App("C32.Build_input", B(string(in.Res)), head, c32KindCoq(in.Simple), Z(in.Chunk), Z(int64(in.Par)),
		Z(in.Threshold), Z(in.MaxFetch), mult, Z(int64(in.MaxHedges)), script, sched)

	// ---- tags ----
	nch := 0
	if len(in.Res) > 0 {
		nch = int((int64(len(in.Res)) + env.effChunk - 1) / env.effChunk)
	}
	tags := []string{"out:" + o.Outcome, "mult:" + in.Mult, "head:" + in.Head, "pref:" + in.Pref}
	if env.ranges > 0 {
		tags = append(tags, "path:parallel")
	} else if env.simple > 0 {
		tags = append(tags, "path:simple")
	} else {
		tags = append(tags, "path:refused")
	}
	switch {
	case in.Par <= 0:
		tags = append(tags, "par:default")
	case in.Par == 1:
		tags = append(tags, "par:1")
	case in.Par < nch:
		tags = append(tags, "par:<chunks")
	default:
		tags = append(tags, "par:>=chunks")
	}
	if in.Chunk <= 0 {
		tags = append(tags, "chunk:default")
	} else if len(in.Res) > 0 && int64(len(in.Res))%in.Chunk != 0 {
		tags = append(tags, "chunk:ragged")
	} else {
		tags = append(tags, "chunk:even")
	}
	switch {
	case len(in.Res) <= 1:
		tags = append(tags, fmt.Sprintf("size:%d", len(in.Res)))
	default:
		tags = append(tags, "size:>1")
	}
	hedges := 0
	dup := false
	seenOK := map[int]bool{}
	kinds := map[string]bool{}
	for _, a := range realized {
		if a.hedge {
			hedges++
		}
		kinds[a.kind.Kind] = true
		if a.kind.F != "" {
			kinds[a.kind.Kind+"/"+a.kind.F] = true
		}
		if (a.kind.Kind == "short" || a.kind.Kind == "long") && (a.kind.F == "chunked" || a.kind.F == "close" || (a.kind.F == "auto" && a.end-a.start > 2100)) {
			kinds["wrong-length-undeclared"] = true
		}
		if a.kind.Kind == "exact" {
			if seenOK[a.idx] {
				dup = true
			}
			seenOK[a.idx] = true
		}
	}
	if env.ranges > 0 {
		tags = append(tags, fmt.Sprintf("hedges-delivered:%d", hedges))
		for k := range kinds {
			tags = append(tags, "ans:"+k)
		}
		if dup {
			tags = append(tags, "duplicate-success")
		}
		badOrig := false
		for i := 0; i < nch; i++ {
			if k := env.answerFor(i, false).Kind; k != "exact" && !(k == "whole206" && nch == 1) {
				badOrig = true
			}
		}
		if badOrig && o.Outcome == "exact" {
			tags = append(tags, "rescued-by-duplicate")
		}
		if !badOrig {
			tags = append(tags, "all-first-requests-ok")
		}
		if n := len(realized); n > 0 && c32IsFail(realized[0].kind.Kind) {
			tags = append(tags, "failure-first")
		}
		if n := len(realized); n > 1 && c32IsFail(realized[n-1].kind.Kind) {
			tags = append(tags, "failure-last")
		}
	}
	for _, a := range append([]c32Ans{in.Simple}, in.Script...) {
		if a.Kind == "wrong" {
			tags = append(tags, "lying-server")
			break
		}
	}
	if in.Free && env.ranges > nch {
		tags = append(tags, "free-run-hedged-for-real")
	}
	if in.Note != "" {
		tags = append(tags, in.Note)
	}
	sort.Strings(tags)
	return CaseOut{Coq: Pair(coqIn, coqObs), Tags: tags, Nontrivial: env.ranges > 0 || env.simple > 0, Obs: o}
}

// ---- generator ---------------------------------------------------------------

func c32Res(r *rand.Rand, n int) []byte {
	b := make([]byte, n)
	for i := range b {
		b[i] = byte(r.Intn(256))
	}
	return b
}

var c32FailKinds = []string{"drop", "trunc", "status", "short", "long", "whole200", "whole206"}
var c32Codes = []int{200, 400, 404, 416, 500, 503}

func c32RandKind(r *rand.Rand, idx int, hedge bool, pFail float64) c32Ans {
	a := c32Ans{Idx: idx, Hedge: hedge, Kind: "exact"}
	if r.Float64() < pFail {
		a.Kind = c32FailKinds[r.Intn(len(c32FailKinds))]
		switch a.Kind {
		case "status":
			a.K = c32Codes[r.Intn(len(c32Codes))]
		case "short", "long":
			a.K = r.Intn(3)
		}
	}
	a.F = c32RandFraming(r)
	return a
}

func c32Base(res []byte, chunk int64) c32In {
	return c32In{Res: res, Head: "ok", Simple: c32Ans{Kind: "whole200"}, Chunk: chunk, Par: 4, Threshold: 1,
		MaxFetch: 1 << 20, Mult: "off", MaxHedges: 4, Pref: "rand"}
}

func c32AllExact(in *c32In, n int, hedges bool) {
	for i := 0; i < n; i++ {
		in.Script = append(in.Script, c32Ans{Idx: i, Kind: "exact"})
		if hedges {
			in.Script = append(in.Script, c32Ans{Idx: i, Hedge: true, Kind: "exact"})
		}
	}
}

func c32Gen(r *rand.Rand, n int, tier string) []c32In {
	var out []c32In
	add := func(in c32In, note string) {
		in.Note = note
		for len(in.Order) < 40 {
			in.Order = append(in.Order, r.Intn(1000))
		}
		out = append(out, in)
	}
	// --- boundary cases ---
	for _, size := range []int{0, 1, 2} { // tiny resources through every head mode
		for _, head := range []string{"ok", "fail", "noranges", "nolen"} {
			for _, th := range []int64{-3, 0, 1, 2} {
				in := c32Base(c32Res(r, size), 1)
				in.Head, in.Threshold = head, th
				c32AllExact(&in, size, false)
				add(in, "boundary-size")
			}
		}
	}
	for _, par := range []int{-1, 0, 1, 2, 3, 64} { // parallelism around the chunk count, ragged last chunk
		for _, chunk := range []int64{-1, 0, 1, 3, 4, 5, 10, 11} {
			in := c32Base(c32Res(r, 10), chunk)
			in.Par = par
			c32AllExact(&in, 10, false)
			add(in, "boundary-par-chunk")
		}
	}
	for _, mf := range []int64{0, 9, 10, 11} { // size cap on both paths
		for _, head := range []string{"ok", "noranges"} {
			in := c32Base(c32Res(r, 10), 4)
			in.MaxFetch, in.Head = mf, head
			c32AllExact(&in, 3, false)
			add(in, "boundary-maxfetch")
		}
	}
	for _, k := range append([]string{"exact", "wrong"}, c32FailKinds...) { // every answer kind alone on one chunk of three, early and late
		for _, pref := range []string{"failfirst", "faillast"} {
			for _, mult := range []string{"off", "tiny"} {
				in := c32Base(c32Res(r, 9), 3)
				in.Mult, in.Pref = mult, pref
				c32AllExact(&in, 3, true)
				in.Script[2] = c32Ans{Idx: 1, Kind: k, K: 1} // original of chunk 1
				if k == "status" {
					in.Script[2].K = 200
				}
				add(in, "boundary-kind")
			}
		}
	}
	for _, k := range append([]string{"exact", "wrong"}, c32FailKinds...) { // single chunk: whole-body answers have the right length
		in := c32Base(c32Res(r, 5), 8)
		in.Script = []c32Ans{{Idx: 0, Kind: k, K: 0}}
		if k == "status" {
			in.Script[0].K = 500
		}
		add(in, "boundary-single-chunk")
	}
	for _, k := range []string{"whole200", "exact", "status", "drop", "trunc", "wrong", "whole206"} { // plain GET answers
		for _, head := range []string{"fail", "noranges"} {
			in := c32Base(c32Res(r, 6), 2)
			in.Head = head
			in.Simple = c32Ans{Kind: k, K: 200}
			if k == "status" && head == "fail" {
				in.Simple.K = 503
			}
			add(in, "boundary-simple")
		}
	}
	for _, mh := range []int{-1, 0, 1, 2, 5} { // hedge cap; originals of the upper chunks fail, duplicates succeed
		for _, pref := range []string{"low", "high", "rand"} {
			in := c32Base(c32Res(r, 12), 2)
			in.Mult, in.MaxHedges, in.Pref, in.Par = "tiny", mh, pref, 16
			for i := 0; i < 6; i++ {
				k := "exact"
				if i >= 3 {
					k = "drop"
				}
				in.Script = append(in.Script, c32Ans{Idx: i, Kind: k}, c32Ans{Idx: i, Hedge: true, Kind: "exact"})
			}
			add(in, "boundary-hedge-cap")
		}
	}
	for _, hk := range []string{"drop", "trunc", "status", "short", "whole200", "exact"} { // duplicates that fail (or succeed twice) while other chunks are still pending
		for _, pref := range []string{"low", "high", "rand"} {
			for _, mh := range []int{0, 3} {
				in := c32Base(c32Res(r, 12), 2)
				in.Mult, in.MaxHedges, in.Pref, in.Par = "tiny", mh, pref, 16
				for i := 0; i < 6; i++ {
					in.Script = append(in.Script, c32Ans{Idx: i, Kind: "exact"}, c32Ans{Idx: i, Hedge: true, Kind: hk, K: 500})
				}
				if hk == "short" {
					for j := range in.Script {
						in.Script[j].K = 0
					}
				}
				add(in, "boundary-duplicate-outcomes")
			}
		}
	}
	// wrong-length (and right-length) 206 bodies under every framing, at the first / middle / last chunk
	for _, k := range []string{"short", "long", "exact", "whole206"} {
		for _, f := range c32Framings {
			for _, pos := range []int{0, 2, 3} {
				in := c32Base(c32Res(r, 10), 3) // chunks 3,3,3,1: a short last chunk is an EMPTY body
				c32AllExact(&in, 4, false)
				in.Script[pos] = c32Ans{Idx: pos, Kind: k, F: f}
				in.Pref = []string{"low", "high", "rand"}[(pos+len(f))%3]
				add(in, "boundary-framing")
			}
		}
	}
	for _, k := range []string{"short", "long"} { // bodies above net/http's 2 KiB auto-length buffer, 100 bytes off
		for _, f := range c32Framings {
			for pos := 0; pos < 3; pos++ {
				in := c32Base(c32Res(r, 6000), 2500)
				c32AllExact(&in, 3, false)
				in.Script[pos] = c32Ans{Idx: pos, Kind: k, K: 99, F: f}
				for j := range in.Script {
					if j != pos {
						in.Script[j].F = c32Framings[(j+pos)%4]
					}
				}
				add(in, "boundary-framing-large")
			}
		}
	}
	for _, f := range []string{"chunked", "close", "auto"} { // the speculative duplicate is the one with the wrong length; its original failed
		for _, k := range []string{"short", "long"} {
			for _, pos := range []int{0, 2, 3} {
				in := c32Base(c32Res(r, 10), 3)
				in.Mult, in.MaxHedges, in.Par, in.Pref = "tiny", 0, 16, "faillast"
				c32AllExact(&in, 4, true)
				in.Script[2*pos] = c32Ans{Idx: pos, Kind: "drop"}
				in.Script[2*pos+1] = c32Ans{Idx: pos, Hedge: true, Kind: k, F: f}
				add(in, "boundary-framing-duplicate")
			}
		}
	}
	for _, f := range c32Framings { // other routes: the plain GET, a bare status, a cut-off chunked body
		in := c32Base(c32Res(r, 7), 3)
		in.Head = "noranges"
		in.Simple = c32Ans{Kind: "whole200", F: f}
		add(in, "boundary-framing-simple")
		in = c32Base(c32Res(r, 7), 3)
		c32AllExact(&in, 3, false)
		in.Script[1] = c32Ans{Idx: 1, Kind: "status", K: 206, F: f} // 206 with an empty body
		in.Script[2] = c32Ans{Idx: 2, Kind: "trunc", F: f}
		add(in, "boundary-framing-empty-206")
	}
	nFree := 40
	if tier == "thorough" {
		nFree = 300
	}
	for f := 0; f < nFree; f++ { // free-running: real goroutine scheduling and the real time-based hedge test
		size := 6 + r.Intn(40)
		chunk := int64(1 + r.Intn(8))
		if int64(size)/chunk > 10 {
			chunk = int64(size)/10 + 1
		}
		in := c32Base(c32Res(r, size), chunk)
		in.Free = true
		in.Mult = []string{"real", "real", "half", "off"}[r.Intn(4)]
		in.Par = []int{0, 1, 2, 3, 8, 32}[r.Intn(6)]
		in.MaxHedges = []int{0, 1, 2, 4}[r.Intn(4)]
		nch := int((int64(size) + chunk - 1) / chunk)
		p := []float64{0, 0, 0, 0.15, 0.4}[r.Intn(5)]
		for i := 0; i < nch; i++ {
			in.Script = append(in.Script, c32RandKind(r, i, false, p))
		}
		add(in, "free-run")
	}
	// --- random stream ---
	sizes := []int{2, 3, 5, 7, 8, 9, 12, 16, 17, 31, 48, 64, 100, 257}
	for len(out) < n {
		size := sizes[r.Intn(len(sizes))]
		if r.Intn(25) == 0 {
			size = r.Intn(2)
		}
		large := r.Intn(30) == 0 // chunk bodies above net/http's 2 KiB auto-length buffer
		if large {
			size = 2200 + r.Intn(4500)
		}
		var chunk int64
		switch r.Intn(10) {
		case 0:
			chunk = int64(size)
		case 1:
			chunk = int64(size) + 1
		case 2:
			chunk = int64(-r.Intn(2))
		default:
			chunk = 1 + int64(r.Intn(size+1))
		}
		maxChunks := 10
		if tier == "thorough" {
			maxChunks = 24
		}
		if chunk > 0 && int64(size)/chunk > int64(maxChunks) {
			chunk = int64(size)/int64(maxChunks) + 1
		}
		if large && chunk > 0 && chunk < 2100 {
			chunk = 2100 + int64(r.Intn(900))
		}
		in := c32Base(c32Res(r, size), chunk)
		eff := chunk
		if eff <= 0 {
			eff = c32DefChunk
		}
		nch := 0
		if size > 0 {
			nch = int((int64(size) + eff - 1) / eff)
		}
		in.Par = []int{-2, 0, 1, 1, 2, 2, 3, 4, 8, 64}[r.Intn(10)]
		in.Mult = []string{"off", "neg", "tiny", "tiny", "tiny", "huge"}[r.Intn(6)]
		in.MaxHedges = []int{-1, 0, 1, 1, 2, 3, 4, 4}[r.Intn(8)]
		in.Pref = []string{"rand", "rand", "rand", "failfirst", "faillast", "low", "high"}[r.Intn(7)]
		in.Threshold = []int64{-1, 0, 1, int64(size), int64(size), int64(size) + 1}[r.Intn(6)]
		if r.Intn(4) != 0 {
			in.Threshold = 1
		}
		in.MaxFetch = 1 << 20
		if r.Intn(12) == 0 {
			in.MaxFetch = int64(size) - 1 + int64(r.Intn(2))
		}
		in.Head = "ok"
		if r.Intn(8) == 0 {
			in.Head = []string{"fail", "noranges", "nolen"}[r.Intn(3)]
		}
		in.Simple = c32Ans{Kind: "whole200", F: c32RandFraming(r)}
		if r.Intn(3) == 0 {
			in.Simple = c32RandKind(r, 0, false, 0.8)
		}
		// failure profile
		var pOrig, pHedge float64
		oneBad := false
		switch r.Intn(6) {
		case 0: // healthy server
		case 1: // one bad original (set below)
			oneBad = true
		case 2:
			pOrig, pHedge = 0.25, 0.1
		case 3:
			pOrig, pHedge = 0.5, 0.5
		case 4: // originals mostly bad, duplicates good
			pOrig, pHedge = 0.6, 0.05
		case 5: // duplicates bad
			pOrig, pHedge = 0.1, 0.9
		}
		for i := 0; i < nch; i++ {
			in.Script = append(in.Script, c32RandKind(r, i, false, pOrig), c32RandKind(r, i, true, pHedge))
		}
		if nch > 0 && (oneBad || r.Intn(3) == 0) {
			j := r.Intn(len(in.Script))
			if oneBad {
				j &^= 1 // an original
			}
			in.Script[j] = c32RandKind(r, in.Script[j].Idx, in.Script[j].Hedge, 1)
		}
		if large {
			for j := range in.Script {
				if k := in.Script[j].Kind; k == "short" || k == "long" {
					in.Script[j].K = r.Intn(150)
				}
			}
		}
		note := "random"
		if nch > 0 && r.Intn(20) == 0 { // malformed stream: a server that lies with right-length bytes
			j := r.Intn(len(in.Script))
			in.Script[j].Kind = "wrong"
			note = "random-lying"
		}
		if nch > 0 && r.Intn(15) == 0 { // whole-body server: ignores Range altogether
			for j := range in.Script {
				in.Script[j].Kind = "whole200"
			}
			note = "random-whole-body-server"
		}
		add(in, note)
	}
	return out
}

func init() {
	Register("C32", "boundary grid first (sizes 0/1/2 x head modes x thresholds; parallelism -1..64 x chunk sizes incl. unset and ragged; size cap; every answer kind early and late; single chunk; plain-GET answers; hedge caps), then random resources/chunk plans/parallelism/hedging with per-attempt answer kinds and a generated release order forced through blocking handlers; non-trivial = the call issued at least one GET; distinct = distinct input JSON",
		c32Gen, c32Run)
}
