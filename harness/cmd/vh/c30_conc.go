package main

import (
	"fmt"
	"math/rand"
	"runtime"
	"sort"
	"strings"
	"sync"
	"time"

	"github.com/Query-farm/vgi-rpc-go/vgirpc"
	"github.com/apache/arrow-go/v18/arrow"
)

// C30, overlapped externalizations (Model/C30.v: Conc).
//
// Several MaybeExternalizeBatch calls are in flight at once, forced from outside: every
// job has its own scripted Storage whose Upload parks on a gate AFTER it was handed the
// payload and BEFORE it copies it (a PUT that is still streaming its body). A schedule is
// a list of events: {k} = start externalization k and let it run until its Upload is
// parked (serialize, hash, compress have happened), {up,k} = open k's gate: the storage
// copies what the slice holds NOW and the call returns. While k is parked any number of
// other externalizations run to completion or park in turn. Afterwards every pointer is
// resolved against the object stored for it and compared with the batch it was made from.
// "free" cases start all jobs at once and let a storage that yields before copying race
// with the other serializations (nominal schedule in the term; the model's answer does not
// depend on the schedule, which is the theorem).

type c30ConcEv struct {
	Up bool `json:"up,omitempty"`
	K  int  `json:"k"`
}

type c30GateStore struct {
	url     string
	free    bool
	entered chan struct{}
	release chan struct{}
	obj     *c30Obj
}

func (s *c30GateStore) Upload(data []byte, _ *arrow.Schema, enc string) (string, error) {
	if s.free {
		for i := 0; i < 4; i++ {
			runtime.Gosched()
		}
		time.Sleep(200 * time.Microsecond)
	} else {
		close(s.entered)
		<-s.release
	}
	s.obj = &c30Obj{data: append([]byte(nil), data...), enc: enc}
	return s.url, nil
}

func c30RunConc(in c30In, mat *c30Mat) CaseOut {
	realBase, canonBase := c30Base(true)
	n := len(in.Jobs)
	if in.Procs1 {
		defer runtime.GOMAXPROCS(runtime.GOMAXPROCS(1))
	}
	z := in.Cfg.Comp == "zstd"
	type job struct {
		b     arrow.RecordBatch
		st    *c30GateStore
		cfg   *vgirpc.ExternalLocationConfig
		path  string
		xb    arrow.RecordBatch
		xm    arrow.Metadata
		err   error
		done  chan struct{}
		state int // 0 not started, 1 parked, 2 finished
	}
	jobs := make([]*job, n)
	type sub struct{ real, canon string }
	var subs []sub
	for k := range jobs {
		path := fmt.Sprintf("/o/%d", c30Seq.Add(1))
		st := &c30GateStore{url: realBase + path, free: in.Free, entered: make(chan struct{}), release: make(chan struct{})}
		jobs[k] = &job{b: c30Build(in.Jobs[k]), st: st, path: path, done: make(chan struct{}),
			cfg: c30RealCfg(c30Cfg{Storage: true, Thr: 1, Comp: in.Cfg.Comp, HTTPSOnly: true}, nil)}
		jobs[k].cfg.Storage = st
		subs = append(subs, sub{realBase + path, fmt.Sprintf("%s/o/%d", canonBase, k+1)})
		defer c30Objs.Delete(path)
	}
	sort.Slice(subs, func(i, j int) bool { return len(subs[i].real) > len(subs[j].real) })
	canon := func(s string) string {
		for _, x := range subs {
			s = strings.ReplaceAll(s, x.real, x.canon)
		}
		return s
	}
	start := func(j *job) {
		go func() {
			defer close(j.done)
			j.xb, j.xm, j.err = vgirpc.MaybeExternalizeBatch(j.b, arrow.Metadata{}, j.cfg)
		}()
	}
	var steps []string
	stepsOf := func(k int, up bool) {
		if up {
			steps = append(steps, fmt.Sprintf("C30.SUp %d", k))
			return
		}
		steps = append(steps, fmt.Sprintf("C30.SSer %d", k), fmt.Sprintf("C30.SHash %d", k))
		if z {
			steps = append(steps, fmt.Sprintf("C30.SComp %d", k))
		}
	}
	if in.Free {
		var wg sync.WaitGroup
		gate := make(chan struct{})
		for _, j := range jobs {
			wg.Add(1)
			go func(j *job) {
				defer wg.Done()
				<-gate
				j.xb, j.xm, j.err = vgirpc.MaybeExternalizeBatch(j.b, arrow.Metadata{}, j.cfg)
			}(j)
		}
		close(gate)
		wg.Wait()
		for k := range jobs {
			stepsOf(k, false)
		}
		for k := range jobs {
			stepsOf(k, true)
		}
	} else {
		for _, ev := range in.Sched {
			if ev.K < 0 || ev.K >= n {
				panic("c30: schedule names a job that does not exist")
			}
			j := jobs[ev.K]
			switch {
			case !ev.Up && j.state == 0:
				start(j)
				select {
				case <-j.st.entered:
					j.state = 1
				case <-j.done: // never reached its Upload
					j.state = 2
				}
			case ev.Up && j.state == 1:
				close(j.st.release)
				<-j.done
				j.state = 2
			case ev.Up && j.state == 2:
			default:
				panic("c30: schedule breaks an externalization's program order")
			}
			stepsOf(ev.K, ev.Up)
		}
		for _, j := range jobs {
			if j.state != 2 {
				panic("c30: schedule leaves an externalization unfinished")
			}
		}
	}
	// every pointer is resolved against what the storage holds for it
	var jobT, outT, human []string
	okAll := true
	tags := []string{"mode:conc", fmt.Sprintf("jobs:%d", n)}
	for k, j := range jobs {
		upT := "[]"
		if j.st.obj != nil {
			t, raw, rawT := mat.describe(j.st.obj.data, j.st.obj.enc)
			mat.add(rawT, raw)
			if j.st.obj.enc == "zstd" {
				mat.add(t, j.st.obj.data)
			}
			upT = List([]string{Pair(t, Bool(j.st.obj.enc == "zstd"))})
			c30Objs.Store(j.path, *j.st.obj)
		}
		resT := "None"
		if j.err == nil {
			out, om, err := vgirpc.ResolveExternalLocation(j.xb, j.xm, j.cfg)
			r, tag := c30CoqRes(j.xb, out, om, err, canon)
			resT = "(Some " + r + ")"
			same := err == nil && out.NumRows() == j.b.NumRows() && c30CoqBatch(out) == c30CoqBatch(j.b)
			switch {
			case tag != "res:ok":
				okAll = false
				tags = append(tags, fmt.Sprintf("job%d:%s", k, tag))
				human = append(human, fmt.Sprintf("pointer %d: refused (%v)", k, err))
			case !same:
				okAll = false
				tags = append(tags, fmt.Sprintf("job%d:other-batch", k))
				human = append(human, fmt.Sprintf("pointer %d: resolved to a batch that is not batch %d", k, k))
			default:
				human = append(human, fmt.Sprintf("pointer %d: resolved to batch %d", k, k))
			}
		} else {
			okAll = false
			human = append(human, fmt.Sprintf("externalization %d failed: %v", k, j.err))
		}
		jobT = append(jobT, Pair(c30CoqBatch(j.b), c30B(fmt.Sprintf("%s/o/%d", canonBase, k+1))))
		outT = append(outT, "(C30.Build_job_out "+c30CoqBatch(j.xb)+" "+c30CoqMeta(j.xm, canon)+" "+upT+" "+resT+")")
	}
	if okAll {
		tags = append(tags, "res:all-ok")
	}
	if in.Free {
		tags = append(tags, "sched:free")
	} else {
		tags = append(tags, "sched:forced")
	}
	if in.Procs1 {
		tags = append(tags, "procs:1")
	}
	if z {
		tags = append(tags, "comp:zstd")
	}
	coqIn := "(C30.Conc " + List(mat.tbl) + " " + Bool(z) + " C30.VHttps " + List(jobT) + " [" + strings.Join(steps, "; ") + "])"
	coq := c30N.wrap("(" + coqIn + ", C30.OConc " + List(outT) + ")")
	return CaseOut{Coq: coq, Tags: tags, Nontrivial: true,
		Obs: map[string]any{"jobs": n, "all_resolved_to_own_batch_without_error": okAll, "per_pointer": human,
			"schedule": strings.Join(steps, "; ")}}
}

// ---- generation -------------------------------------------------------------

func c30ConcJob(r *rand.Rand, rows int64, seed int64) c30Batch {
	// distinct, non-compressible-to-equal contents per job
	var runs [][2]int64
	for i, left := int64(0), rows; left > 0; i++ {
		c := (rows + 3) / 4
		if c > left {
			c = left
		}
		runs = append(runs, [2]int64{seed*1000 + i*(seed+1), c})
		left -= c
	}
	return c30Batch{Cols: 1, Runs: [][][2]int64{runs}}
}

func c30ConcCase(comp string, rows []int64, sched []c30ConcEv, procs1 bool) c30In {
	in := c30In{Mode: "conc", TLS: true, Cfg: c30Cfg{Storage: true, Thr: 1, Comp: comp, HTTPSOnly: true}, Sched: sched, Procs1: procs1}
	for k, n := range rows {
		in.Jobs = append(in.Jobs, c30ConcJob(nil, n, int64(k+1)))
	}
	return in
}

// the schedule written into the term of a free-running case (the model's answer does not
// depend on it): every job up to its upload, then every upload
func c30Nominal(n int) []c30ConcEv {
	var s []c30ConcEv
	for k := 0; k < n; k++ {
		s = append(s, c30ConcEv{K: k})
	}
	for k := 0; k < n; k++ {
		s = append(s, c30ConcEv{Up: true, K: k})
	}
	return s
}

func c30ConcBoundary(r *rand.Rand) []c30In {
	var out []c30In
	pre := func(k int) c30ConcEv { return c30ConcEv{K: k} }
	up := func(k int) c30ConcEv { return c30ConcEv{Up: true, K: k} }
	for _, comp := range []string{"", "zstd"} {
		// A parked in Upload while B runs completely: same size, smaller, larger
		for _, rows := range [][]int64{{40, 40}, {40, 12}, {12, 40}} {
			out = append(out, c30ConcCase(comp, rows, []c30ConcEv{pre(0), pre(1), up(1), up(0)}, true))
		}
		// both parked, released in either order; strictly sequential for reference
		out = append(out, c30ConcCase(comp, []int64{30, 30}, []c30ConcEv{pre(0), pre(1), up(0), up(1)}, true))
		out = append(out, c30ConcCase(comp, []int64{30, 30}, []c30ConcEv{pre(0), up(0), pre(1), up(1)}, true))
		// three deep, and one long-parked upload under two complete externalizations
		out = append(out, c30ConcCase(comp, []int64{25, 25, 25}, []c30ConcEv{pre(0), pre(1), pre(2), up(2), up(1), up(0)}, true))
		out = append(out, c30ConcCase(comp, []int64{25, 20, 25}, []c30ConcEv{pre(0), pre(1), up(1), pre(2), up(2), up(0)}, true))
		out = append(out, c30ConcCase(comp, []int64{40, 40}, []c30ConcEv{pre(0), pre(1), up(1), up(0)}, false))
		// free-running goroutines through a storage that copies late
		for _, p1 := range []bool{true, false} {
			c := c30ConcCase(comp, []int64{30, 30, 30, 30}, c30Nominal(4), p1)
			c.Free = true
			out = append(out, c)
		}
	}
	return out
}

func c30ConcRandom(r *rand.Rand) c30In {
	n := 2 + r.Intn(3)
	rows := make([]int64, n)
	base := int64(8 + r.Intn(40))
	for i := range rows {
		rows[i] = base
		if r.Intn(3) == 0 {
			rows[i] = 1 + r.Int63n(60)
		}
	}
	comp := []string{"", "", "zstd"}[r.Intn(3)]
	if r.Intn(5) == 0 {
		c := c30ConcCase(comp, rows, c30Nominal(n), r.Intn(2) == 0)
		c.Free = true
		return c
	}
	// random interleaving that keeps pre(k) before up(k)
	var sched []c30ConcEv
	state := make([]int, n)
	left := 2 * n
	for left > 0 {
		k := r.Intn(n)
		if state[k] == 2 {
			continue
		}
		sched = append(sched, c30ConcEv{Up: state[k] == 1, K: k})
		state[k]++
		left--
	}
	return c30ConcCase(comp, rows, sched, r.Intn(4) > 0)
}
