package vgirpc

import (
	"bytes"
	"testing"
)

func TestZZDemoA2(t *testing.T) {
	s := zzServer()
	s.SetProtocolVersion("2.1.0")
	var in bytes.Buffer
	p := zzInt64Batch(1)
	// Stream request refused by the version gate (client major differs).
	if err := WriteRequest(&in, "prod", p, "1.0.0"); err != nil {
		t.Fatal(err)
	}
	p.Release()
	zzTicks(t, &in, 3)
	good := zzInt64Batch(42)
	if err := WriteRequest(&in, "echo", good, "2.1.7"); err != nil {
		t.Fatal(err)
	}
	good.Release()

	var out bytes.Buffer
	s.Serve(&in, &out)
	streams := zzReadStreams(t, out.Bytes())
	for i, st := range streams {
		for j, md := range st.batches {
			t.Logf("stream %d batch %d rows=%d md=%v", i, j, st.rows[j], md)
		}
	}
	if len(streams) != 2 {
		t.Fatalf("expected exactly 2 response streams, got %d", len(streams))
	}
	if k, _ := streams[0].batches[0].GetValue(MetaErrorKind); k != "protocol_version_mismatch" {
		t.Fatalf("first response should be the version refusal, got kind %q", k)
	}
	last := len(streams[1].batches) - 1
	if streams[1].rows[last] != 1 {
		t.Fatalf("second response should be the unary result")
	}
}
