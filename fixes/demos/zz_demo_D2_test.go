package vgirpc

import (
	"encoding/json"
	"fmt"
	"net/http"
	"net/http/httptest"
	"testing"
)

func TestDemoD2ReasonFromClosedSet(t *testing.T) {
	closed := map[AuthReason]bool{
		AuthReasonMissingCredential: true, AuthReasonInvalidCredential: true,
		AuthReasonExpiredCredential: true, AuthReasonInsufficientScope: true,
		AuthReasonProxyRequired: true, AuthReasonUnauthorized: true,
	}
	cases := []struct {
		err  error
		want AuthReason
	}{
		{&AuthFailure{Reason: "made_up"}, AuthReasonUnauthorized},
		{fmt.Errorf("wrap: %w", &AuthFailure{Reason: "Expired_Credential", Detail: "d"}), AuthReasonUnauthorized},
		{&AuthFailure{Reason: "bad\r\nX-Injected: 1"}, AuthReasonUnauthorized},
		{&AuthFailure{}, AuthReasonUnauthorized},
		{&AuthFailure{Reason: AuthReasonExpiredCredential}, AuthReasonExpiredCredential},
		{&AuthFailure{Reason: AuthReasonProxyRequired}, AuthReasonProxyRequired},
		{&AuthFailure{Reason: AuthReasonMissingCredential}, AuthReasonMissingCredential},
		{&AuthFailure{Reason: AuthReasonInvalidCredential}, AuthReasonInvalidCredential},
		{&AuthFailure{Reason: AuthReasonInsufficientScope}, AuthReasonInsufficientScope},
		{&RpcError{Type: "PermissionError", Message: "x"}, AuthReasonInsufficientScope},
		{&RpcError{Type: "ValueError", Message: "x"}, AuthReasonUnauthorized},
	}
	for _, tc := range cases {
		h := NewHttpServer(NewServer())
		h.SetAuthenticate(func(r *http.Request) (*AuthContext, error) { return nil, tc.err })
		h.InitPages()
		req := httptest.NewRequest("POST", "/anything", nil)
		req.Header.Set("Content-Type", arrowContentType)
		w := httptest.NewRecorder()
		h.ServeHTTP(w, req)
		if w.Code != http.StatusUnauthorized {
			t.Errorf("%v: status %d", tc.err, w.Code)
		}
		got := AuthReason(w.Header().Get(HeaderAuthReason))
		if !closed[got] || got != tc.want {
			t.Errorf("%q: VGI-Auth-Reason = %q, want %q", tc.err, got, tc.want)
		}
		var body map[string]any
		if err := json.Unmarshal(w.Body.Bytes(), &body); err != nil {
			t.Fatal(err)
		}
		if body["reason"] != string(tc.want) {
			t.Errorf("%q: body reason = %v, want %q", tc.err, body["reason"], tc.want)
		}
	}
}
