package vgirpc

import (
	"bytes"
	"context"
	"testing"

	"github.com/apache/arrow-go/v18/arrow"
	"github.com/apache/arrow-go/v18/arrow/array"
	"github.com/apache/arrow-go/v18/arrow/ipc"
	"github.com/apache/arrow-go/v18/arrow/memory"
)

type zzParams struct {
	Value int64 `vgirpc:"value"`
}

var zzSchema = arrow.NewSchema([]arrow.Field{{Name: "value", Type: arrow.PrimitiveTypes.Int64}}, nil)
var zzBadSchema = arrow.NewSchema([]arrow.Field{{Name: "other", Type: arrow.BinaryTypes.String}}, nil)

func zzInt64Batch(v int64) arrow.RecordBatch {
	b := array.NewInt64Builder(memory.NewGoAllocator())
	b.Append(v)
	col := b.NewArray()
	b.Release()
	rec := array.NewRecordBatch(zzSchema, []arrow.Array{col}, 1)
	col.Release()
	return rec
}

func zzBadBatch() arrow.RecordBatch {
	b := array.NewStringBuilder(memory.NewGoAllocator())
	b.Append("x")
	col := b.NewArray()
	b.Release()
	rec := array.NewRecordBatch(zzBadSchema, []arrow.Array{col}, 1)
	col.Release()
	return rec
}

// zzTicks writes an input IPC stream of n empty-schema tick batches.
func zzTicks(t *testing.T, buf *bytes.Buffer, n int) {
	t.Helper()
	empty := arrow.NewSchema(nil, nil)
	w := ipc.NewWriter(buf, ipc.WithSchema(empty))
	for i := 0; i < n; i++ {
		rec := array.NewRecordBatch(empty, nil, 0)
		if err := w.Write(rec); err != nil {
			t.Fatal(err)
		}
		rec.Release()
	}
	if err := w.Close(); err != nil {
		t.Fatal(err)
	}
}

type zzResp struct {
	batches []arrow.Metadata
	rows    []int64
}

// zzReadStreams splits out into its concatenated IPC streams.
func zzReadStreams(t *testing.T, out []byte) []zzResp {
	t.Helper()
	var res []zzResp
	r := bytes.NewReader(out)
	for r.Len() > 0 {
		rd, err := ipc.NewReader(r)
		if err != nil {
			t.Fatalf("stream %d: %v", len(res), err)
		}
		var s zzResp
		for rd.Next() {
			b := rd.RecordBatch()
			md := arrow.Metadata{}
			if m, ok := b.(interface{ Metadata() arrow.Metadata }); ok {
				md = m.Metadata()
			}
			s.batches = append(s.batches, md)
			s.rows = append(s.rows, b.NumRows())
		}
		rd.Release()
		res = append(res, s)
	}
	return res
}

func zzServer() *Server {
	s := NewServer()
	Unary(s, "echo", func(_ context.Context, _ *CallContext, p zzParams) (int64, error) {
		return p.Value, nil
	})
	Producer(s, "prod", zzSchema,
		func(context.Context, *CallContext, zzParams) (*StreamResult, error) {
			return &StreamResult{OutputSchema: zzSchema, State: &zzProducer{}}, nil
		})
	return s
}

type zzProducer struct{ n int }

func (p *zzProducer) Produce(_ context.Context, out *OutputCollector, _ *CallContext) error {
	p.n++
	if p.n > 2 {
		return out.Finish()
	}
	return out.EmitMap(map[string][]interface{}{"value": {int64(p.n)}})
}

func TestZZDemoA1(t *testing.T) {
	s := zzServer()
	var in bytes.Buffer
	bad := zzBadBatch()
	if err := WriteRequest(&in, "prod", bad, ""); err != nil {
		t.Fatal(err)
	}
	bad.Release()
	zzTicks(t, &in, 3)
	good := zzInt64Batch(42)
	if err := WriteRequest(&in, "echo", good, ""); err != nil {
		t.Fatal(err)
	}
	good.Release()

	var out bytes.Buffer
	s.Serve(&in, &out)
	streams := zzReadStreams(t, out.Bytes())
	for i, st := range streams {
		for j, md := range st.batches {
			t.Logf("stream %d batch %d rows=%d md=%v", i, j, st.rows[j], md)
		}
	}
	if len(streams) != 2 {
		t.Fatalf("expected exactly 2 response streams, got %d", len(streams))
	}
	if lvl, _ := streams[0].batches[0].GetValue(MetaLogLevel); lvl != "EXCEPTION" {
		t.Fatalf("first response should be the TypeError, got level %q", lvl)
	}
	last := len(streams[1].batches) - 1
	if streams[1].rows[last] != 1 {
		t.Fatalf("second response should be the unary result")
	}
}
