package vgirpc

import (
	"math"
	"testing"
	"time"

	"github.com/apache/arrow-go/v18/arrow"
)

type demoB3TS struct {
	A time.Time  `vgirpc:"a,timestamp"`
	B time.Time  `vgirpc:"b,timestamp_utc"`
	C *time.Time `vgirpc:"c,timestamp"`
}

func TestDemoB3TimestampRoundTrip(t *testing.T) {
	micros := []int64{
		0, 1, -1, 1_700_000_000_123_456,
		// just inside / outside the +-292y Duration window
		math.MaxInt64 / 1000, math.MaxInt64/1000 + 1,
		math.MinInt64 / 1000, math.MinInt64/1000 - 1,
		// year 1 and year 9999
		time.Date(1, 1, 1, 0, 0, 0, 0, time.UTC).UnixMicro(),
		time.Date(9999, 12, 31, 23, 59, 59, 999999000, time.UTC).UnixMicro(),
		math.MaxInt64, math.MinInt64, math.MaxInt64 - 1, math.MinInt64 + 1,
	}
	for _, us := range micros {
		in := time.UnixMicro(us).UTC()
		if in.UnixMicro() != us {
			t.Fatalf("test precondition: Go cannot represent %d", us)
		}
		got := roundTrip(t, demoB3TS{A: in, B: in, C: &in}).Interface().(demoB3TS)
		for name, g := range map[string]time.Time{"a": got.A, "b": got.B, "c": *got.C} {
			if !g.Equal(in) || g.UnixMicro() != us {
				t.Errorf("us=%d field %s: sent %s, decoded %s (us=%d)", us, name, in, g, g.UnixMicro())
			}
		}
	}
}

func TestDemoB3OtherUnits(t *testing.T) {
	// wire -> Go for the other units the decoder accepts
	cases := []struct {
		unit arrow.TimeUnit
		v    int64
		want time.Time
	}{
		{arrow.Second, 253402300799, time.Date(9999, 12, 31, 23, 59, 59, 0, time.UTC)},
		{arrow.Second, -62135596800, time.Date(1, 1, 1, 0, 0, 0, 0, time.UTC)},
		{arrow.Second, 10_000_000_000, time.Unix(10_000_000_000, 0)}, // year 2286 > 292y
		{arrow.Millisecond, 253402300799999, time.Date(9999, 12, 31, 23, 59, 59, 999000000, time.UTC)},
		{arrow.Millisecond, -62135596800000, time.Date(1, 1, 1, 0, 0, 0, 0, time.UTC)},
		{arrow.Millisecond, -1, time.Date(1969, 12, 31, 23, 59, 59, 999000000, time.UTC)},
		{arrow.Nanosecond, math.MaxInt64, time.Unix(0, math.MaxInt64)},
		{arrow.Nanosecond, math.MinInt64, time.Unix(0, math.MinInt64)},
		{arrow.Nanosecond, -1, time.Date(1969, 12, 31, 23, 59, 59, 999999999, time.UTC)},
	}
	for _, c := range cases {
		got := timestampToTime(c.v, &arrow.TimestampType{Unit: c.unit})
		if !got.Equal(c.want) {
			t.Errorf("unit %v v=%d: got %s want %s", c.unit, c.v, got, c.want.UTC())
		}
		if got.Location() != time.UTC {
			t.Errorf("unit %v: result not UTC", c.unit)
		}
	}
}
