// Demo for the C27 finding fixed by c4e0fbf ("refuse PKCE session cookies whose
// base64url text is not canonical"). Drop into vgirpc/ and run
//   go test ./vgirpc/ -run TestDemoCookieB64
// It fails on c4e0fbf^ (the altered texts are accepted) and passes on c4e0fbf.
package vgirpc

import (
	"strings"
	"testing"
	"time"
)

func TestDemoCookieB64NonCanonicalTextRefused(t *testing.T) {
	key := []byte("demo-session-key-0123456789abcdef")
	const alpha = "ABCDEFGHIJKLMNOPQRSTUVWXYZabcdefghijklmnopqrstuvwxyz0123456789-_"
	// payload lengths 49+4 and 49+3: raw length mod 3 = 2 and 1, so the last
	// base64 symbol has 2 resp. 4 unused bits and the text ends in "=" resp. "=="
	for _, f := range [][4]string{{"vv", "s", "/", ""}, {"v", "s", "/", ""}} {
		issued := packOAuthCookie(f[0], f[1], f[2], f[3], key, time.Now().Unix())
		if !strings.HasSuffix(issued, "=") {
			t.Fatalf("test setup: expected a padded cookie, got %q", issued)
		}
		// the issued text, and the same text with its padding stripped, are accepted
		for _, ok := range []string{issued, strings.TrimRight(issued, "=")} {
			v, s, u, r, err := unpackOAuthCookie(ok, key, sessionMaxAge)
			if err != nil || v != f[0] || s != f[1] || u != f[2] || r != f[3] {
				t.Fatalf("issued cookie %q not round-tripped: %q %q %q %q %v", ok, v, s, u, r, err)
			}
		}
		// (1) last symbol altered within its unused bits
		b := []byte(issued)
		j := len(strings.TrimRight(issued, "=")) - 1
		b[j] = alpha[strings.IndexByte(alpha, b[j])^1]
		slack := string(b)
		// (2) CR LF inserted
		crlf := issued[:7] + "\r\n" + issued[7:]
		// (3) both on the padding-stripped form
		slackRaw := strings.TrimRight(slack, "=")
		for name, altered := range map[string]string{"slack-bits": slack, "crlf": crlf, "slack-bits-unpadded": slackRaw} {
			if altered == issued {
				t.Fatalf("test setup: %s did not alter the text", name)
			}
			if _, _, _, _, err := unpackOAuthCookie(altered, key, sessionMaxAge); err == nil {
				t.Errorf("%s: altered cookie text %q was accepted (issued %q)", name, altered, issued)
			}
		}
	}
}
