package vgirpc

import (
	"reflect"
	"testing"

	"github.com/apache/arrow-go/v18/arrow"
	"github.com/apache/arrow-go/v18/arrow/array"
	"github.com/apache/arrow-go/v18/arrow/memory"
)

type zzDef struct {
	A *string `vgirpc:"a,default=dd"`
	B int32   `vgirpc:"b,nullable,default=5"`
	C *int64  `vgirpc:"c,default=-7"`
}

func TestZZDefaultPtr(t *testing.T) {
	sc, err := structToSchema(reflect.TypeOf(zzDef{}))
	if err != nil {
		t.Fatal(err)
	}
	bld := array.NewRecordBuilder(memory.DefaultAllocator, sc)
	for i := range sc.Fields() {
		bld.Field(i).AppendNull()
	}
	rec := bld.NewRecordBatch()
	_ = arrow.Null
	v, err := deserializeParams(rec, reflect.TypeOf(zzDef{}))
	if err != nil {
		t.Fatal(err)
	}
	z := v.Interface().(zzDef)
	if z.A == nil || *z.A != "dd" || z.B != 5 || z.C == nil || *z.C != -7 {
		t.Fatalf("%+v", z)
	}
}
