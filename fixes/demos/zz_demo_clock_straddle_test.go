package vgirpc

// Demonstration for fix d22e231 (property C25): with the clock read twice per
// verification, a replay whose window check falls in the last acceptable second
// and whose cache lookup falls just past the next second boundary was admitted
// a second time. Fails on d22e231^, passes on d22e231.
//
//	cp demo_clock_straddle_test.go <repo>/vgirpc/ && go test ./vgirpc -run TestDemoProofReplayClockStraddle

import (
	"bytes"
	"net/http"
	"testing"
	"time"
)

func TestDemoProofReplayClockStraddle(t *testing.T) {
	secret := bytes.Repeat([]byte{1}, 32)
	var reads []time.Time
	idx := 0
	now := func() time.Time { // returns reads[0], then reads[1] for every later call
		v := reads[idx]
		if idx < len(reads)-1 {
			idx++
		}
		return v
	}
	innerCalls := 0
	gate, err := ProofAuthenticate(ProofConfig{
		Mode: ProofModeRequire, OriginID: "w1", SkewSeconds: 30, Now: now,
		Secrets: map[string]ProofSecret{"k1": {Secret: secret, Label: "px1"}},
	}, func(r *http.Request) (*AuthContext, error) {
		innerCalls++
		return &AuthContext{Domain: "jwt", Authenticated: true, Principal: "alice"}, nil
	})
	if err != nil {
		t.Fatal(err)
	}
	const t0 = int64(1700000000)
	tok, err := MintProof(secret, "k1", "w1", t0+30, "AAAAAAAAAAAAAAAAAAAAAA")
	if err != nil {
		t.Fatal(err)
	}
	present := func(first, second time.Time) error {
		reads, idx = []time.Time{first, second}, 0
		r, _ := http.NewRequest(http.MethodPost, "/x", nil)
		r.Header.Set(ProofHeader, tok)
		_, err := gate(r)
		return err
	}
	if err := present(time.Unix(t0, 0), time.Unix(t0, 0)); err != nil {
		t.Fatalf("first presentation (ts = now+skew) must be accepted: %v", err)
	}
	// last acceptable second of ts = t0+30 is t0+60; a monotone clock ticks over between two reads
	if err := present(time.Unix(t0+60, 999999999), time.Unix(t0+61, 0)); err == nil {
		t.Fatalf("replay admitted: window judged at t0+60.999999999, cache at t0+61.000000000 (inner called %d times)", innerCalls)
	}
	if innerCalls != 1 {
		t.Fatalf("inner authenticator called %d times, want 1", innerCalls)
	}
}
