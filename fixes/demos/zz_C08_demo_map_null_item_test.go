package vgirpc

// Demonstration for fix 6a47532 (property C08): a nil pointer stored as a map
// item must come back nil. Before the fix setMapField decoded every item
// without testing its validity bit and {"a": nil} came back as {"a": &0}.
// Copy into /repo/vgirpc and run: go test ./vgirpc -run TestDemoC08MapNullItem

import (
	"bytes"
	"reflect"
	"testing"

	"github.com/apache/arrow-go/v18/arrow/ipc"
)

func TestDemoC08MapNullItem(t *testing.T) {
	type rec struct {
		M map[string]*int64 `vgirpc:"m"`
	}
	seven := int64(7)
	in := rec{M: map[string]*int64{"a": nil, "b": &seven}}
	data, err := serializeVgirpcStruct(in)
	if err != nil {
		t.Fatal(err)
	}
	rd, err := ipc.NewReader(bytes.NewReader(data))
	if err != nil {
		t.Fatal(err)
	}
	defer rd.Release()
	if !rd.Next() {
		t.Fatal("no batch")
	}
	rv, err := deserializeParams(rd.RecordBatch(), reflect.TypeOf(in))
	if err != nil {
		t.Fatal(err)
	}
	out := rv.Interface().(rec)
	if p, ok := out.M["a"]; !ok || p != nil {
		got := "missing"
		if p != nil {
			got = "pointer to " + string(rune('0'+*p))
		}
		t.Fatalf(`item "a" was nil, decoded as %s`, got)
	}
	if p := out.M["b"]; p == nil || *p != 7 {
		t.Fatalf(`item "b" was &7, decoded as %v`, p)
	}
}
