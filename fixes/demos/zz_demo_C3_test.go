package vgirpc

import (
	"bytes"
	"net/http"
	"net/http/httptest"
	"strings"
	"testing"
)

// C18: a decoded-size overrun is 413 only when the cap exceeded is the
// advertised max_request_bytes; otherwise 400 with an accurate message.
func TestDemoC3DecodedOverrunStatus(t *testing.T) {
	payload := bytes.Repeat([]byte("a"), 4096) // compresses to a few bytes

	post := func(h *HttpServer, enc string, body []byte) *httptest.ResponseRecorder {
		req := httptest.NewRequest(http.MethodPost, "/nosuch", bytes.NewReader(body))
		req.Header.Set("Content-Type", arrowContentType)
		req.Header.Set("Content-Encoding", enc)
		rec := httptest.NewRecorder()
		h.ServeHTTP(rec, req)
		return rec
	}
	_ = post

	for _, enc := range []string{"zstd", "gzip"} {
		var body []byte
		if enc == "zstd" {
			body = zstdCompress(t, payload)
		} else {
			body = gzipCompress(t, payload)
		}

		// (1) No max_request_bytes configured; decoded cap 1024 -> 400.
		h := NewHttpServer(NewServer())
		h.SetMaxDecompressedBodySize(1024)
		r := httptest.NewRequest(http.MethodPost, "/x", bytes.NewReader(body))
		r.Header.Set("Content-Encoding", enc)
		_, err := h.readHTTPBody(r)
		if err == nil {
			t.Fatalf("%s: over-cap body accepted", enc)
		}
		rec := httptest.NewRecorder()
		h.writeBodyReadError(rec, err, nil)
		if rec.Code != http.StatusBadRequest {
			t.Errorf("%s: no advertised cap: status %d, want 400 (err: %v)", enc, rec.Code, err)
		}
		if strings.Contains(err.Error(), "max_request_bytes") {
			t.Errorf("%s: no advertised cap, but message names max_request_bytes: %q", enc, err.Error())
		}
		if rec.Header().Get(maxRequestBytesHeader) != "" {
			t.Errorf("%s: unexpected advert", enc)
		}

		// (1b) default derived cap (maxBodySize*16), still no advertised cap.
		h = NewHttpServer(NewServer())
		h.SetMaxBodySize(64)
		r = httptest.NewRequest(http.MethodPost, "/x", bytes.NewReader(body))
		r.Header.Set("Content-Encoding", enc)
		_, err = h.readHTTPBody(r)
		if err == nil {
			t.Fatalf("%s: over derived cap accepted", enc)
		}
		rec = httptest.NewRecorder()
		h.writeBodyReadError(rec, err, nil)
		if rec.Code != http.StatusBadRequest || strings.Contains(err.Error(), "max_request_bytes") {
			t.Errorf("%s: derived cap: status %d err %q, want 400 without max_request_bytes", enc, rec.Code, err.Error())
		}

		// (2) Advertised cap is the one exceeded -> 413 naming it.
		h = NewHttpServer(NewServer())
		h.SetMaxRequestBytes(1024)
		r = httptest.NewRequest(http.MethodPost, "/x", bytes.NewReader(body))
		r.Header.Set("Content-Encoding", enc)
		_, err = h.readHTTPBody(r)
		if err == nil {
			t.Fatalf("%s: over advertised cap accepted", enc)
		}
		rec = httptest.NewRecorder()
		h.writeBodyReadError(rec, err, nil)
		if rec.Code != http.StatusRequestEntityTooLarge || !strings.Contains(err.Error(), "max_request_bytes=1024") {
			t.Errorf("%s: advertised cap: status %d err %q, want 413 naming max_request_bytes=1024", enc, rec.Code, err.Error())
		}

		// (3) Advertised cap 8192 not exceeded (4096 decoded), tighter
		// decoded cap 1024 exceeded -> 400, must not name max_request_bytes.
		h = NewHttpServer(NewServer())
		h.SetMaxRequestBytes(8192)
		h.SetMaxDecompressedBodySize(1024)
		r = httptest.NewRequest(http.MethodPost, "/x", bytes.NewReader(body))
		r.Header.Set("Content-Encoding", enc)
		_, err = h.readHTTPBody(r)
		if err == nil {
			t.Fatalf("%s: over decoded cap accepted", enc)
		}
		rec = httptest.NewRecorder()
		h.writeBodyReadError(rec, err, nil)
		if rec.Code != http.StatusBadRequest || strings.Contains(err.Error(), "max_request_bytes") {
			t.Errorf("%s: tighter decoded cap: status %d err %q, want 400 without max_request_bytes", enc, rec.Code, err.Error())
		}

		// (4) Within caps still decodes exactly.
		h = NewHttpServer(NewServer())
		h.SetMaxRequestBytes(4096)
		r = httptest.NewRequest(http.MethodPost, "/x", bytes.NewReader(body))
		r.Header.Set("Content-Encoding", enc)
		got, err := h.readHTTPBody(r)
		if err != nil || !bytes.Equal(got, payload) {
			t.Errorf("%s: exact-boundary body: err %v len %d", enc, err, len(got))
		}

		// Intermediary decoder: cap error must not claim max_request_bytes.
		if _, err := DecodeContentEncoding(body, enc, 16); err == nil || strings.Contains(err.Error(), "max_request_bytes") {
			t.Errorf("%s: DecodeContentEncoding cap error: %v", enc, err)
		}
	}
}
