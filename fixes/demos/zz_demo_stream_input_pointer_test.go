package vgirpc

// Demonstration for fix 29847dc (property C36, found by the C36 shared-memory
// session model): an exchange INPUT batch sent as a shared-memory pointer batch
// (0 rows + vgi_rpc.shm_offset / shm_length) in a stream call whose request
// engaged no segment - here on a connection that never advertised one - was not
// refused: the lockstep loop resolved pointer inputs only `if req.Shm != nil`,
// so the zero-row pointer batch reached ExchangeState.Exchange as data. The
// client had put 8 rows of 2 behind the pointer and got the answer for an empty
// batch (sum 0), with no error. After the fix the stream ends with one IOError
// exception batch and the next request on the connection is served.
// Fails before 29847dc, passes after. Drop into vgirpc/ and run
//   go test ./vgirpc -run TestZZInputPointerNoSegment

import (
	"bytes"
	"context"
	"encoding/json"
	"strconv"
	"testing"

	"github.com/apache/arrow-go/v18/arrow"
	"github.com/apache/arrow-go/v18/arrow/array"
	"github.com/apache/arrow-go/v18/arrow/ipc"
	"github.com/apache/arrow-go/v18/arrow/memory"
)

type zzInPtrParams struct {
	X int64 `vgirpc:"x"`
}

// zzInPtrState answers every input batch with one row: the sum of its x column.
type zzInPtrState struct{ Calls int }

func (s *zzInPtrState) Exchange(_ context.Context, in arrow.RecordBatch, out *OutputCollector, _ *CallContext) error {
	s.Calls++
	var sum int64
	if in.NumCols() > 0 {
		if c, ok := in.Column(0).(*array.Int64); ok {
			for i := 0; i < c.Len(); i++ {
				sum += c.Value(i)
			}
		}
	}
	b := array.NewInt64Builder(memory.NewGoAllocator())
	b.Append(sum)
	col := b.NewArray()
	b.Release()
	defer col.Release()
	return out.Emit(array.NewRecordBatch(zzInPtrOut, []arrow.Array{col}, 1))
}

var (
	zzInPtrIn  = arrow.NewSchema([]arrow.Field{{Name: "x", Type: arrow.PrimitiveTypes.Int64}}, nil)
	zzInPtrOut = arrow.NewSchema([]arrow.Field{{Name: "v", Type: arrow.PrimitiveTypes.Int64}}, nil)
)

func zzInPtrBatch(vals []int64, meta map[string]string) arrow.RecordBatch {
	b := array.NewInt64Builder(memory.NewGoAllocator())
	b.AppendValues(vals, nil)
	col := b.NewArray()
	b.Release()
	defer col.Release()
	if meta == nil {
		return array.NewRecordBatch(zzInPtrIn, []arrow.Array{col}, int64(len(vals)))
	}
	var keys, mvals []string
	for k, v := range meta {
		keys, mvals = append(keys, k), append(mvals, v)
	}
	return array.NewRecordBatchWithMetadata(zzInPtrIn, []arrow.Array{col}, int64(len(vals)), arrow.NewMetadata(keys, mvals))
}

func zzInPtrWrite(t *testing.T, buf *bytes.Buffer, recs ...arrow.RecordBatch) {
	t.Helper()
	w := ipc.NewWriter(buf, ipc.WithSchema(zzInPtrIn))
	for _, r := range recs {
		if err := w.Write(r); err != nil {
			t.Fatal(err)
		}
		r.Release()
	}
	if err := w.Close(); err != nil {
		t.Fatal(err)
	}
}

type zzInPtrFrame struct {
	exc  string
	vals []int64
}

func zzInPtrRead(t *testing.T, data []byte) [][]zzInPtrFrame {
	t.Helper()
	var out [][]zzInPtrFrame
	r := bytes.NewReader(data)
	for r.Len() > 0 {
		rd, err := ipc.NewReader(r)
		if err != nil {
			t.Fatalf("response stream %d: %v", len(out), err)
		}
		var frames []zzInPtrFrame
		for rd.Next() {
			rec := rd.RecordBatch()
			var f zzInPtrFrame
			if bm, ok := rec.(arrow.RecordBatchWithMetadata); ok {
				if lvl, ok := bm.Metadata().GetValue(MetaLogLevel); ok && lvl == string(LogException) {
					extra, _ := bm.Metadata().GetValue(MetaLogExtra)
					var ex map[string]any
					_ = json.Unmarshal([]byte(extra), &ex)
					f.exc, _ = ex["exception_type"].(string)
					if f.exc == "" {
						f.exc = "?"
					}
				}
			}
			if f.exc == "" && rec.NumCols() > 0 {
				if c, ok := rec.Column(0).(*array.Int64); ok {
					for i := 0; i < c.Len(); i++ {
						f.vals = append(f.vals, c.Value(i))
					}
				}
			}
			frames = append(frames, f)
		}
		rd.Release()
		out = append(out, frames)
	}
	return out
}

func TestZZInputPointerNoSegment(t *testing.T) {
	s := NewServer()
	Exchange(s, "zz_sum", zzInPtrOut, zzInPtrIn, func(_ context.Context, _ *CallContext, _ zzInPtrParams) (*StreamResult, error) {
		return &StreamResult{OutputSchema: zzInPtrOut, InputSchema: zzInPtrIn, State: &zzInPtrState{}}, nil
	})
	Unary(s, "zz_echo", func(_ context.Context, _ *CallContext, p zzInPtrParams) (int64, error) { return p.X, nil })

	// the client owns a segment and writes 8 rows of 2 into it, but never advertises it
	seg, err := ShmCreate(ShmHeaderSize + 16384)
	if err != nil {
		t.Skipf("shared memory not available: %v", err)
	}
	defer seg.Close()
	payload := zzInPtrBatch([]int64{2, 2, 2, 2, 2, 2, 2, 2}, nil)
	off, ln, ok, err := seg.AllocateAndWrite(payload)
	payload.Release()
	if err != nil || !ok {
		t.Fatalf("AllocateAndWrite: ok=%v err=%v", ok, err)
	}

	std := func(method string) map[string]string {
		return map[string]string{MetaMethod: method, MetaRequestVersion: ProtocolVersion}
	}
	var in bytes.Buffer
	// exchange call: inline request without any shm metadata, then the input stream
	// [inline 3 rows of 1, POINTER batch, inline 1 row of 5]
	zzInPtrWrite(t, &in, zzInPtrBatch([]int64{1}, std("zz_sum")))
	zzInPtrWrite(t, &in,
		zzInPtrBatch([]int64{1, 1, 1}, nil),
		zzInPtrBatch(nil, map[string]string{MetaShmOffset: strconv.FormatUint(off, 10), MetaShmLength: strconv.Itoa(ln)}),
		zzInPtrBatch([]int64{5}, nil))
	// the next request on the same connection
	zzInPtrWrite(t, &in, zzInPtrBatch([]int64{41}, std("zz_echo")))

	var out bytes.Buffer
	s.Serve(&in, &out)
	resp := zzInPtrRead(t, out.Bytes())

	if len(resp) != 2 {
		t.Fatalf("want 2 response streams (exchange, echo), got %d: %+v", len(resp), resp)
	}
	ex := resp[0]
	// the answer to the first (inline) input, then exactly one IOError: the pointer is refused
	if len(ex) != 2 || ex[0].exc != "" || len(ex[0].vals) != 1 || ex[0].vals[0] != 3 || ex[1].exc != "IOError" {
		t.Errorf("exchange stream: want [sum 3, IOError], got %+v (a sum 0 in second place is the answer to the unresolved zero-row pointer batch)", ex)
	}
	echo := resp[1]
	if len(echo) != 1 || echo[0].exc != "" || len(echo[0].vals) != 1 || echo[0].vals[0] != 41 {
		t.Errorf("next request: want [41], got %+v", echo)
	}
	// the server neither resolved nor freed the client's slot
	s2 := seg.readAllocs()
	if len(s2) != 1 || s2[0][0] != off {
		t.Errorf("allocation table: want the client's own slot at %d only, got %v", off, s2)
	}
}
