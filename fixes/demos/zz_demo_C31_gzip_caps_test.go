// Demo for fix 75e15f4 ("apply the external fetch caps to gzip responses and
// redact URLs in fetchSimple errors"), found by the C31 verification: a
// `Content-Encoding: gzip` answer was inflated transparently by Go's transport,
// so MaxFetchBytes counted DECODED bytes and MaxDecompressedBytes was never
// consulted. Both tests fail on 75e15f4^ and pass on 75e15f4. Drop into vgirpc/
// and run:
//   go test ./vgirpc -run 'TestDemoGzip'
package vgirpc

import (
	"bytes"
	"compress/gzip"
	"net/http"
	"net/http/httptest"
	"strconv"
	"testing"
	"time"
)

func demoGzipOrigin(body []byte) *httptest.Server {
	return httptest.NewServer(http.HandlerFunc(func(w http.ResponseWriter, r *http.Request) {
		w.Header().Set("Content-Encoding", "gzip")
		w.Header().Set("Content-Length", strconv.Itoa(len(body)))
		w.Write(body)
	}))
}

func demoGzip(level int, payload []byte) []byte {
	var b bytes.Buffer
	zw, _ := gzip.NewWriterLevel(&b, level)
	zw.Write(payload)
	zw.Close()
	return b.Bytes()
}

// A gzip body decoding to 600 bytes must be refused under MaxDecompressedBytes = 599.
func TestDemoGzipDecodedPayloadOverDecompressionCap(t *testing.T) {
	payload := bytes.Repeat([]byte("0123456789"), 60) // 600 bytes
	srv := demoGzipOrigin(demoGzip(gzip.DefaultCompression, payload))
	defer srv.Close()
	cfg := &ExternalLocationConfig{HTTPClient: srv.Client(), RetryDelay: time.Microsecond,
		MaxFetchBytes: 1 << 20, MaxDecompressedBytes: 599}
	data, err := fetchExternalData(cfg.httpClient(), srv.URL+"/x", nil, cfg.maxFetchBytes(), cfg.maxDecompressedBytes(), cfg.maxRedirects())
	if err == nil {
		t.Fatalf("a payload of %d decoded bytes was accepted under max_decompressed_bytes=599", len(data))
	}
	// one byte more room: accepted, and what comes back is the decoded payload
	cfg.MaxDecompressedBytes = 600
	data, err = fetchExternalData(cfg.httpClient(), srv.URL+"/x", nil, cfg.maxFetchBytes(), cfg.maxDecompressedBytes(), cfg.maxRedirects())
	if err != nil || !bytes.Equal(data, payload) {
		t.Fatalf("at the cap: err=%v, %d bytes", err, len(data))
	}
}

// A stored-block gzip body of 623 wire bytes (600 decoded) must be refused under
// MaxFetchBytes = 610: the cap is on the encoded body.
func TestDemoGzipWireBodyOverFetchCap(t *testing.T) {
	payload := make([]byte, 600)
	for i := range payload {
		payload[i] = byte(i*131 + i*i*7)
	}
	wire := demoGzip(gzip.NoCompression, payload)
	if len(wire) <= 610 || len(payload) > 610 {
		t.Fatalf("bad demo sizes: wire %d, decoded %d", len(wire), len(payload))
	}
	srv := demoGzipOrigin(wire)
	defer srv.Close()
	cfg := &ExternalLocationConfig{HTTPClient: srv.Client(), MaxFetchBytes: 610, MaxDecompressedBytes: 1 << 20}
	data, err := fetchExternalData(cfg.httpClient(), srv.URL+"/x", nil, cfg.maxFetchBytes(), cfg.maxDecompressedBytes(), cfg.maxRedirects())
	if err == nil {
		t.Fatalf("a body of %d wire bytes was accepted under max_fetch_bytes=610 (%d decoded bytes returned)", len(wire), len(data))
	}
}
