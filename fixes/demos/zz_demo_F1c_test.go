package vgirpc

// Demo for the second decoder-OOM class (flatbuffer vector lengths inside a
// Schema message). Needs the optional vector-bounds patch.

import (
	"bufio"
	"encoding/hex"
	"encoding/json"
	"os"
	"runtime"
	"testing"
	"time"
)

func TestF1c_SchemaVectorLengthWitness(t *testing.T) {
	f, err := os.Open("/tmp/bld_C03/verif/corpus/C03.jsonl")
	if err != nil {
		t.Skip(err)
	}
	defer f.Close()
	sc := bufio.NewScanner(f)
	sc.Buffer(make([]byte, 1<<20), 1<<26)
	n := 0
	for sc.Scan() {
		var rec struct{ Raw, Tag, Route string }
		if json.Unmarshal(sc.Bytes(), &rec) != nil || rec.Tag != "finding-decoder-oom" {
			continue
		}
		body, err := hex.DecodeString(rec.Raw)
		if err != nil {
			t.Fatal(err)
		}
		n++
		var before, after runtime.MemStats
		runtime.ReadMemStats(&before)
		start := time.Now()
		req, rerr := readRequestBytes(body)
		el := time.Since(start)
		runtime.ReadMemStats(&after)
		if rerr == nil {
			req.Batch.Release()
			t.Errorf("%s witness (%d bytes) accepted", rec.Route, len(body))
		}
		if d := after.TotalAlloc - before.TotalAlloc; d > 1<<20 || el > 100*time.Millisecond {
			t.Errorf("%s witness: %d bytes allocated, %v", rec.Route, d, el)
		}
		t.Logf("%s witness (%d bytes): %v", rec.Route, len(body), rerr)
	}
	if n == 0 {
		t.Skip("no finding-decoder-oom records")
	}
}
