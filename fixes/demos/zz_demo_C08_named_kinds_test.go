package vgirpc

import (
	"bytes"
	"reflect"
	"testing"

	"github.com/apache/arrow-go/v18/arrow/ipc"
)

type zzLevel int32
type zzFlag bool
type zzRatio float64
type zzBlob []byte
type zzU uint16

func (l zzLevel) String() string { return "L" }

type zzNamedParams struct {
	L zzLevel   `vgirpc:"l"`
	F zzFlag    `vgirpc:"f"`
	R zzRatio   `vgirpc:"r"`
	B zzBlob    `vgirpc:"b"`
	U zzU       `vgirpc:"u"`
	X []zzBlob  `vgirpc:"x"`
	Y []zzLevel `vgirpc:"y"`
}

func TestZZNamedKindsRoundTrip(t *testing.T) {
	in := zzNamedParams{L: 5, F: true, R: 0.5, B: zzBlob("ab"), U: 7, X: []zzBlob{zzBlob("c")}, Y: []zzLevel{1, 2}}
	data, err := serializeVgirpcStruct(in)
	if err != nil {
		t.Fatalf("serialize: %v", err)
	}
	rd, err := ipc.NewReader(bytes.NewReader(data))
	if err != nil {
		t.Fatal(err)
	}
	defer rd.Release()
	if !rd.Next() {
		t.Fatal("no batch")
	}
	batch := rd.RecordBatch()
	out, err := deserializeParams(batch, reflect.TypeOf(in))
	if err != nil {
		t.Fatalf("deserialize: %v", err)
	}
	if !reflect.DeepEqual(out.Interface(), in) {
		t.Fatalf("got %#v want %#v", out.Interface(), in)
	}
}
