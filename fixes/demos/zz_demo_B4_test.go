package vgirpc

import (
	"math"
	"testing"
	"time"
)

type demoB4 struct {
	D  time.Time     `vgirpc:"d,date"`
	T  time.Time     `vgirpc:"t,time"`
	Du time.Duration `vgirpc:"du,duration"`
	TS time.Time     `vgirpc:"ts,timestamp"`
}

func floorDay(t time.Time) time.Time {
	y, m, d := t.UTC().Date()
	return time.Date(y, m, d, 0, 0, 0, 0, time.UTC)
}

func TestDemoB4DaysSinceEpoch(t *testing.T) {
	cases := []struct {
		in   time.Time
		want int32
	}{
		{time.Date(1970, 1, 1, 0, 0, 0, 0, time.UTC), 0},
		{time.Date(1970, 1, 1, 23, 59, 59, 999999999, time.UTC), 0},
		{time.Date(1969, 12, 31, 12, 0, 0, 0, time.UTC), -1},
		{time.Date(1969, 12, 31, 0, 0, 0, 0, time.UTC), -1},
		{time.Date(1969, 12, 31, 23, 59, 59, 999999999, time.UTC), -1},
		{time.Date(1969, 12, 30, 23, 0, 0, 0, time.UTC), -2},
		{time.Date(1, 1, 1, 0, 0, 0, 0, time.UTC), -719162},
		{time.Date(1, 1, 1, 13, 0, 0, 0, time.UTC), -719162},
		{time.Date(9999, 12, 31, 23, 0, 0, 0, time.UTC), 2932896},
		// a zone-offset instant: the UTC calendar day is what counts
		{time.Date(1970, 1, 1, 1, 0, 0, 0, time.FixedZone("x", 2*3600)), -1},
		{time.Unix(int64(math.MaxInt32)*86400, 0), math.MaxInt32},
		{time.Unix(int64(math.MinInt32)*86400, 0), math.MinInt32},
		{time.Unix(int64(math.MinInt32)*86400+5, 0), math.MinInt32},
	}
	for _, c := range cases {
		if got := daysSinceEpoch(c.in); got != c.want {
			t.Errorf("daysSinceEpoch(%s) = %d, want %d", c.in.UTC(), got, c.want)
		}
	}
}

func TestDemoB4RoundTrip(t *testing.T) {
	instants := []time.Time{
		time.Date(1969, 12, 31, 12, 0, 0, 0, time.UTC),
		time.Date(1969, 12, 31, 23, 59, 59, 999999000, time.UTC),
		time.Date(1950, 6, 15, 1, 2, 3, 456789000, time.UTC),
		time.Date(1, 1, 1, 13, 14, 15, 0, time.UTC),
		time.Date(9999, 12, 31, 23, 59, 59, 999999000, time.UTC),
		time.Date(2024, 2, 29, 6, 0, 0, 0, time.UTC),
		time.Unix(int64(math.MaxInt32)*86400, 0).UTC(),
		time.Unix(int64(math.MinInt32)*86400, 0).UTC(),
		time.Unix(int64(math.MaxInt32)*86400+86399, 0).UTC(),
		time.UnixMicro(math.MaxInt64).UTC(),
		time.UnixMicro(math.MinInt64).UTC(),
	}
	for _, in := range instants {
		for _, du := range []time.Duration{0, time.Microsecond, -time.Microsecond, -90 * time.Minute,
			math.MaxInt64 / 1000 * 1000, math.MinInt64 / 1000 * 1000} {
			got := roundTrip(t, demoB4{D: in, T: in, Du: du, TS: in}).Interface().(demoB4)
			if !got.D.Equal(floorDay(in)) {
				t.Errorf("date: sent %s, decoded %s, want %s", in, got.D, floorDay(in))
			}
			if microsSinceMidnight(got.T) != microsSinceMidnight(in) {
				t.Errorf("time: sent %s, decoded %s", in, got.T)
			}
			if got.Du != du {
				t.Errorf("duration: sent %v decoded %v", du, got.Du)
			}
			if got.TS.UnixMicro() != in.UnixMicro() {
				t.Errorf("timestamp: sent %s decoded %s", in, got.TS)
			}
		}
	}
}
