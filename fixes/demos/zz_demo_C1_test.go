package vgirpc

import (
	"testing"
	"time"
)

// C15: the call-state cache must never extend a call token's lifetime.
func TestDemoC1CallCacheDoesNotExtendLifetime(t *testing.T) {
	key := []byte("0123456789abcdef0123456789abcdef")
	mk := func() *HttpServer {
		h, err := NewHttpServerWithKey(NewServer(), key)
		if err != nil {
			t.Fatal(err)
		}
		h.SetTokenTTL(3 * time.Second)
		return h
	}
	a, b := mk(), mk()

	callID, err := newCallID()
	if err != nil {
		t.Fatal(err)
	}
	// A call token minted 2 s ago (age in [2,3) s of a 3 s TTL).
	created := time.Now().Unix() - 2
	callToken, err := a.sealToken(callTokenVersion,
		&callTokenData{CreatedAt: created, CallID: callID, StreamID: "sid"}, callTokenAad(nil))
	if err != nil {
		t.Fatal(err)
	}
	cursor := func() *cursorTokenData {
		return &cursorTokenData{CreatedAt: time.Now().Unix(), CallID: callID}
	}

	// Instance A: miss, token still valid -> accepted, entry cached.
	if _, err := a.resolveCall(cursor(), callToken, nil); err != nil {
		t.Fatalf("fresh-enough call token refused: %v", err)
	}

	time.Sleep(1600 * time.Millisecond) // age now > 3 s

	_, errB := b.resolveCall(cursor(), callToken, nil) // other instance: miss
	_, errA := a.resolveCall(cursor(), callToken, nil) // same instance: hit
	if errB == nil {
		t.Fatalf("instance B accepted an expired call token")
	}
	if errA == nil {
		t.Fatalf("cache hit on instance A accepted an expired call token that instance B refused (%v)", errB)
	}
}
