package vgirpc

import (
	"bytes"
	"context"
	"encoding/json"
	"errors"
	"fmt"
	"testing"

	"github.com/apache/arrow-go/v18/arrow"
	"github.com/apache/arrow-go/v18/arrow/array"
	"github.com/apache/arrow-go/v18/arrow/ipc"
	"github.com/apache/arrow-go/v18/arrow/memory"
)

type zz3Params struct {
	Value int64 `vgirpc:"value"`
}

type zz3Custom struct{}

func (zz3Custom) Error() string { return "custom" }

func zz3ExcType(t *testing.T, s *Server, method string) string {
	t.Helper()
	schema := arrow.NewSchema([]arrow.Field{{Name: "value", Type: arrow.PrimitiveTypes.Int64}}, nil)
	b := array.NewInt64Builder(memory.NewGoAllocator())
	b.Append(1)
	col := b.NewArray()
	b.Release()
	rec := array.NewRecordBatch(schema, []arrow.Array{col}, 1)
	col.Release()
	var in, out bytes.Buffer
	if err := WriteRequest(&in, method, rec, ""); err != nil {
		t.Fatal(err)
	}
	rec.Release()
	s.Serve(&in, &out)
	rd, err := ipc.NewReader(&out)
	if err != nil {
		t.Fatal(err)
	}
	defer rd.Release()
	for rd.Next() {
		md := rd.RecordBatch().(interface{ Metadata() arrow.Metadata }).Metadata()
		if lvl, _ := md.GetValue(MetaLogLevel); lvl == "EXCEPTION" {
			x, _ := md.GetValue(MetaLogExtra)
			var d struct {
				ExceptionType string `json:"exception_type"`
			}
			if err := json.Unmarshal([]byte(x), &d); err != nil {
				t.Fatal(err)
			}
			return d.ExceptionType
		}
	}
	t.Fatalf("no exception batch for %s", method)
	return ""
}

func TestZZDemoA3(t *testing.T) {
	s := NewServer()
	reg := func(name string, e error) {
		Unary(s, name, func(context.Context, *CallContext, zz3Params) (int64, error) { return 0, e })
	}
	reg("plain", errors.New("boom"))
	reg("wrapped", fmt.Errorf("ctx: %w", &RpcError{Type: "ValueError", Message: "bad"}))
	reg("custom", zz3Custom{})
	reg("rpc", &RpcError{Type: "ValueError", Message: "bad"})
	reg("draining", &ServerDrainingError{})
	reg("lost", &SessionLostError{Reason: "x"})
	reg("pv", &ProtocolVersionError{Message: "x"})
	reg("mni", &MethodNotImplementedError{Method: "x"})

	want := map[string]string{
		"plain": "RuntimeError", "wrapped": "RuntimeError", "custom": "RuntimeError",
		"rpc": "ValueError", "draining": "ServerDrainingError", "lost": "SessionLostError",
		"pv": "ProtocolVersionError", "mni": "AttributeError", "nosuch": "AttributeError",
	}
	for m, w := range want {
		if got := zz3ExcType(t, s, m); got != w {
			t.Errorf("%s: exception_type = %q, want %q", m, got, w)
		}
	}
	for _, dbg := range []bool{false, true} {
		var d struct {
			ExceptionType string `json:"exception_type"`
		}
		_ = json.Unmarshal([]byte(buildErrorExtra(newExternalCapError("m", 2, 1), dbg)), &d)
		if d.ExceptionType != "RuntimeError" {
			t.Errorf("cap: %q", d.ExceptionType)
		}
	}
}
