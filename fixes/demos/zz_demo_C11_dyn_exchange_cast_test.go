package vgirpc

// Demo for property C11 (a stream behaves the same over HTTP as over a pipe).
// Drop into /repo/vgirpc and run:  go test ./vgirpc -run TestZzC11DynExchangeCast
//
// A method registered with DynamicStreamWithHeader has no registered input
// schema; its init handler returns StreamResult.InputSchema = {x:int64}. The
// client sends {x:int32} (castable, not equal) and, separately, {y:int64}
// (uncastable: wrong field name). The pipe casts against the runtime input
// schema; before the fix "cast dynamic exchange input over HTTP against the
// schema the init handler chose" the HTTP exchange route did not, so the state
// received the batch as sent (value -999 below) and the wrong field name was
// not refused. Fails before that commit, passes after.

import (
	"bytes"
	"context"
	"net/http"
	"net/http/httptest"
	"strings"
	"testing"

	"github.com/apache/arrow-go/v18/arrow"
	"github.com/apache/arrow-go/v18/arrow/array"
	"github.com/apache/arrow-go/v18/arrow/ipc"
	"github.com/apache/arrow-go/v18/arrow/memory"
)

type zzC11Params struct {
	X int64 `vgirpc:"x"`
}

type zzC11Hdr struct {
	H int64 `arrow:"h"`
}

func (zzC11Hdr) ArrowSchema() *arrow.Schema {
	return arrow.NewSchema([]arrow.Field{{Name: "h", Type: arrow.PrimitiveTypes.Int64}}, nil)
}

// zzC11State implements ExchangeState only (a dynamic method picks its mode
// from the interfaces the state implements).
type zzC11State struct{ N int }

var (
	zzC11Out = arrow.NewSchema([]arrow.Field{{Name: "v", Type: arrow.PrimitiveTypes.Int64}}, nil)
	zzC11In  = arrow.NewSchema([]arrow.Field{{Name: "x", Type: arrow.PrimitiveTypes.Int64}}, nil)
	zzC11I32 = arrow.NewSchema([]arrow.Field{{Name: "x", Type: arrow.PrimitiveTypes.Int32}}, nil)
	zzC11Bad = arrow.NewSchema([]arrow.Field{{Name: "y", Type: arrow.PrimitiveTypes.Int64}}, nil)
)

func (s *zzC11State) Exchange(_ context.Context, in arrow.RecordBatch, out *OutputCollector, _ *CallContext) error {
	s.N++
	v := int64(-999) // what a state written for {x:int64} makes of any other column type
	if c, ok := in.Column(0).(*array.Int64); ok && c.Len() > 0 {
		v = c.Value(0)
	}
	b := array.NewInt64Builder(memory.NewGoAllocator())
	b.Append(v)
	col := b.NewArray()
	b.Release()
	defer col.Release()
	return out.Emit(array.NewRecordBatch(zzC11Out, []arrow.Array{col}, 1))
}

func init() { RegisterStateType(&zzC11State{}) }

func zzC11Server() *Server {
	s := NewServer()
	DynamicStreamWithHeader(s, "dyn", zzC11Hdr{}.ArrowSchema(),
		func(context.Context, *CallContext, zzC11Params) (*StreamResult, error) {
			return &StreamResult{OutputSchema: zzC11Out, InputSchema: zzC11In, State: &zzC11State{}}, nil
		})
	return s
}

func zzC11Batch(schema *arrow.Schema, v int64, meta map[string]string) arrow.RecordBatch {
	var col arrow.Array
	if schema.Field(0).Type.ID() == arrow.INT32 {
		b := array.NewInt32Builder(memory.NewGoAllocator())
		b.Append(int32(v))
		col = b.NewArray()
		b.Release()
	} else {
		b := array.NewInt64Builder(memory.NewGoAllocator())
		b.Append(v)
		col = b.NewArray()
		b.Release()
	}
	defer col.Release()
	if len(meta) == 0 {
		return array.NewRecordBatch(schema, []arrow.Array{col}, 1)
	}
	var keys, vals []string
	for k, x := range meta {
		keys = append(keys, k)
		vals = append(vals, x)
	}
	return array.NewRecordBatchWithMetadata(schema, []arrow.Array{col}, 1, arrow.NewMetadata(keys, vals))
}

func zzC11Stream(t *testing.T, schema *arrow.Schema, v int64, meta map[string]string) []byte {
	t.Helper()
	var buf bytes.Buffer
	w := ipc.NewWriter(&buf, ipc.WithSchema(schema))
	b := zzC11Batch(schema, v, meta)
	if err := w.Write(b); err != nil {
		t.Fatal(err)
	}
	b.Release()
	if err := w.Close(); err != nil {
		t.Fatal(err)
	}
	return buf.Bytes()
}

func zzC11Request(t *testing.T) []byte {
	t.Helper()
	var buf bytes.Buffer
	p := zzC11Batch(zzC11In, 1, nil)
	defer p.Release()
	if err := WriteRequest(&buf, "dyn", p, ""); err != nil {
		t.Fatal(err)
	}
	return buf.Bytes()
}

// zzC11Outcome reads every IPC stream in data and reports the first data value
// and the first EXCEPTION message (the client view of a one-turn call).
func zzC11Outcome(t *testing.T, data []byte) (vals []int64, exc string) {
	t.Helper()
	r := bytes.NewReader(data)
	for r.Len() > 0 {
		rd, err := ipc.NewReader(r)
		if err != nil {
			t.Fatalf("response is not an IPC stream: %v", err)
		}
		for rd.Next() {
			rec := rd.RecordBatch()
			if bm, ok := rec.(arrow.RecordBatchWithMetadata); ok {
				md := bm.Metadata()
				if lvl, ok := md.GetValue(MetaLogLevel); ok && lvl == string(LogException) {
					exc, _ = md.GetValue(MetaLogMessage)
					continue
				}
			}
			if rec.NumRows() > 0 {
				if c, ok := rec.Column(0).(*array.Int64); ok {
					vals = append(vals, c.Value(0))
				}
			}
		}
		rd.Release()
	}
	return vals, exc
}

func zzC11Pipe(t *testing.T, schema *arrow.Schema, v int64) ([]int64, string) {
	t.Helper()
	in := append(zzC11Request(t), zzC11Stream(t, schema, v, nil)...)
	var out bytes.Buffer
	zzC11Server().Serve(bytes.NewReader(in), &out)
	return zzC11Outcome(t, out.Bytes())
}

func zzC11HTTP(t *testing.T, schema *arrow.Schema, v int64) ([]int64, string, int) {
	t.Helper()
	h := NewHttpServer(zzC11Server())
	post := func(path string, body []byte) *httptest.ResponseRecorder {
		req := httptest.NewRequest(http.MethodPost, path, bytes.NewReader(body))
		req.Header.Set("Content-Type", "application/vnd.apache.arrow.stream")
		rec := httptest.NewRecorder()
		h.ServeHTTP(rec, req)
		return rec
	}
	initResp := post("/dyn/init", zzC11Request(t))
	if initResp.Code != http.StatusOK {
		t.Fatalf("init status %d", initResp.Code)
	}
	cur, call := FindStreamTokens(initResp.Body.Bytes())
	if cur == nil {
		t.Fatal("no cursor token in /init response")
	}
	meta := map[string]string{MetaStreamState: string(cur)}
	if call != nil {
		meta[MetaCallState] = string(call)
	}
	ex := post("/dyn/exchange", zzC11Stream(t, schema, v, meta))
	vals, exc := zzC11Outcome(t, ex.Body.Bytes())
	return vals, exc, ex.Code
}

func TestZzC11DynExchangeCastableInput(t *testing.T) {
	pv, pe := zzC11Pipe(t, zzC11I32, 10)
	hv, he, code := zzC11HTTP(t, zzC11I32, 10)
	if pe != "" || len(pv) != 1 || pv[0] != 10 {
		t.Fatalf("pipe: values %v exception %q, want [10]", pv, pe)
	}
	if he != "" || len(hv) != 1 || hv[0] != pv[0] {
		t.Fatalf("HTTP (status %d): values %v exception %q; the pipe returned %v — the int32 input was not cast against the runtime input schema", code, hv, he, pv)
	}
}

func TestZzC11DynExchangeCastUncastableInput(t *testing.T) {
	pv, pe := zzC11Pipe(t, zzC11Bad, 10)
	hv, he, code := zzC11HTTP(t, zzC11Bad, 10)
	if len(pv) != 0 || !strings.HasPrefix(pe, "TypeError") {
		t.Fatalf("pipe: values %v exception %q, want a TypeError and no data", pv, pe)
	}
	if len(hv) != 0 || he != pe {
		t.Fatalf("HTTP (status %d): values %v exception %q; the pipe refused with %q — the wrong field name was not refused", code, hv, he, pe)
	}
	if code != http.StatusBadRequest {
		t.Fatalf("HTTP status %d, want 400 like the static-method cast refusal", code)
	}
}
