package vgirpc

import (
	"bytes"
	"fmt"
	"net/http"
	"net/http/httptest"
	"strconv"
	"sync"
	"testing"
	"time"
)

// demoE2Behaviour decides how the server answers the attempt-th request for
// chunk index idx. It returns true if it wrote the response itself.
type demoE2Behaviour func(w http.ResponseWriter, idx, attempt int, body []byte, s, e int) bool

func demoE2Server(body []byte, chunk int, b demoE2Behaviour) *httptest.Server {
	var mu sync.Mutex
	attempts := map[int]int{}
	return httptest.NewServer(http.HandlerFunc(func(w http.ResponseWriter, r *http.Request) {
		if r.Method == http.MethodHead {
			w.Header().Set("Accept-Ranges", "bytes")
			w.Header().Set("Content-Length", strconv.Itoa(len(body)))
			return
		}
		rng := r.Header.Get("Range")
		if rng == "" {
			w.Write(body)
			return
		}
		var s, e int
		fmt.Sscanf(rng, "bytes=%d-%d", &s, &e)
		idx := s / chunk
		mu.Lock()
		attempts[idx]++
		a := attempts[idx]
		mu.Unlock()
		if b != nil && b(w, idx, a, body, s, e) {
			return
		}
		w.Header().Set("Content-Range", fmt.Sprintf("bytes %d-%d/%d", s, e, len(body)))
		w.WriteHeader(http.StatusPartialContent)
		w.Write(body[s : e+1])
	}))
}

func demoE2Fetch(t *testing.T, name string, url string, cfg *FetchConfig, body []byte) {
	t.Helper()
	type res struct {
		data []byte
		err  error
	}
	ch := make(chan res, 1)
	go func() {
		defer func() {
			if p := recover(); p != nil {
				ch <- res{err: fmt.Errorf("PANIC: %v", p)}
			}
		}()
		d, err := FetchWithParallelRangeRequests(http.DefaultClient, url, cfg)
		ch <- res{d, err}
	}()
	select {
	case r := <-ch:
		if r.err != nil {
			if len(r.err.Error()) > 6 && r.err.Error()[:6] == "PANIC:" {
				t.Errorf("%s: %v", name, r.err)
			} else {
				t.Logf("%s: error (acceptable): %v", name, r.err)
			}
			return
		}
		if !bytes.Equal(r.data, body) {
			t.Errorf("%s: returned %d bytes that differ from the %d-byte resource, with no error", name, len(r.data), len(body))
		} else {
			t.Logf("%s: exact bytes", name)
		}
	case <-time.After(5 * time.Second):
		t.Errorf("%s: fetch did not return within 5s (hang)", name)
	}
}

func demoE2Cfg() *FetchConfig {
	return &FetchConfig{
		ParallelThresholdBytes:     1,
		ChunkSizeBytes:             100,
		MaxParallelRequests:        4,
		MaxFetchBytes:              1 << 20,
		SpeculativeRetryMultiplier: 0, // hedging off unless a case turns it on
		MaxSpeculativeHedges:       4,
	}
}

func TestDemoE2(t *testing.T) {
	body := make([]byte, 1000)
	for i := range body {
		body[i] = byte(i * 7)
	}

	// (i) server ignores Range and answers 200 with the whole body
	{
		srv := demoE2Server(body, 100, func(w http.ResponseWriter, idx, a int, body []byte, s, e int) bool {
			w.Write(body)
			return true
		})
		demoE2Fetch(t, "200-whole-body", srv.URL, demoE2Cfg(), body)
		srv.Close()
	}
	// (i') short 206
	{
		srv := demoE2Server(body, 100, func(w http.ResponseWriter, idx, a int, body []byte, s, e int) bool {
			if idx != 3 {
				return false
			}
			w.WriteHeader(http.StatusPartialContent)
			w.Write(body[s : s+10])
			return true
		})
		demoE2Fetch(t, "short-206", srv.URL, demoE2Cfg(), body)
		srv.Close()
	}
	// (i'') over-long 206
	{
		srv := demoE2Server(body, 100, func(w http.ResponseWriter, idx, a int, body []byte, s, e int) bool {
			if idx != 3 {
				return false
			}
			w.WriteHeader(http.StatusPartialContent)
			w.Write(body[s:])
			return true
		})
		demoE2Fetch(t, "long-206", srv.URL, demoE2Cfg(), body)
		srv.Close()
	}
	// (ii) one chunk fails quickly, the rest succeed afterwards
	{
		srv := demoE2Server(body, 100, func(w http.ResponseWriter, idx, a int, body []byte, s, e int) bool {
			if idx == 0 {
				w.WriteHeader(500)
				return true
			}
			time.Sleep(50 * time.Millisecond)
			return false
		})
		demoE2Fetch(t, "first-chunk-fails", srv.URL, demoE2Cfg(), body)
		srv.Close()
	}
	// (ii') every chunk fails
	{
		srv := demoE2Server(body, 100, func(w http.ResponseWriter, idx, a int, body []byte, s, e int) bool {
			w.WriteHeader(503)
			return true
		})
		demoE2Fetch(t, "all-chunks-fail", srv.URL, demoE2Cfg(), body)
		srv.Close()
	}
	// (iii) MaxParallelRequests = 0 and negative
	for _, n := range []int{0, -3} {
		srv := demoE2Server(body, 100, nil)
		cfg := demoE2Cfg()
		cfg.MaxParallelRequests = n
		demoE2Fetch(t, fmt.Sprintf("parallel=%d", n), srv.URL, cfg, body)
		srv.Close()
	}
	// chunk size 0
	{
		srv := demoE2Server(body, 100, nil)
		cfg := demoE2Cfg()
		cfg.ChunkSizeBytes = 0
		demoE2Fetch(t, "chunksize=0", srv.URL, cfg, body)
		srv.Close()
	}
	// hedging: first attempt of chunk 5 is slow and answers with WRONG bytes
	// of the right length much later; the hedge answers correctly. The
	// result must be the exact resource either way.
	{
		srv := demoE2Server(body, 100, func(w http.ResponseWriter, idx, a int, body []byte, s, e int) bool {
			if idx == 5 && a == 1 {
				time.Sleep(600 * time.Millisecond)
				return false
			}
			time.Sleep(10 * time.Millisecond)
			return false
		})
		cfg := demoE2Cfg()
		cfg.MaxParallelRequests = 16
		cfg.SpeculativeRetryMultiplier = 2.0
		start := time.Now()
		demoE2Fetch(t, "hedged-slow-chunk", srv.URL, cfg, body)
		t.Logf("hedged fetch took %v", time.Since(start))
		srv.Close()
	}
	// hedging with a failing original whose hedge succeeds, and failing hedge whose original succeeds
	{
		srv := demoE2Server(body, 100, func(w http.ResponseWriter, idx, a int, body []byte, s, e int) bool {
			if idx == 5 && a == 1 {
				time.Sleep(300 * time.Millisecond)
				return false
			}
			if idx == 5 && a == 2 {
				w.WriteHeader(500)
				return true
			}
			time.Sleep(10 * time.Millisecond)
			return false
		})
		cfg := demoE2Cfg()
		cfg.MaxParallelRequests = 16
		cfg.SpeculativeRetryMultiplier = 2.0
		demoE2Fetch(t, "hedge-fails-original-ok", srv.URL, cfg, body)
		srv.Close()
	}
}

func TestDemoE2Random(t *testing.T) {
	for seed := 0; seed < 60; seed++ {
		size := 1 + (seed*131)%1500
		chunk := 1 + (seed*37)%300
		body := make([]byte, size)
		for i := range body {
			body[i] = byte(i*7 + seed)
		}
		srv := demoE2Server(body, chunk, func(w http.ResponseWriter, idx, a int, body []byte, s, e int) bool {
			h := (idx*7919 + a*104729 + seed*31) % 11
			time.Sleep(time.Duration(h*3) * time.Millisecond)
			switch h {
			case 0:
				w.WriteHeader(500)
				return true
			case 1:
				w.Write(body)
				return true
			case 2:
				w.WriteHeader(206)
				w.Write(body[s:e])
				return true
			case 3:
				w.WriteHeader(206)
				w.Write(body[s : e+1])
				w.Write([]byte("x"))
				return true
			case 4:
				time.Sleep(80 * time.Millisecond)
			}
			return false
		})
		cfg := demoE2Cfg()
		cfg.ChunkSizeBytes = int64(chunk)
		cfg.MaxParallelRequests = seed % 5
		cfg.SpeculativeRetryMultiplier = float64(seed%3) * 0.75
		cfg.MaxSpeculativeHedges = seed % 4
		demoE2Fetch(t, fmt.Sprintf("seed=%d size=%d chunk=%d", seed, size, chunk), srv.URL, cfg, body)
		srv.Close()
	}
}
