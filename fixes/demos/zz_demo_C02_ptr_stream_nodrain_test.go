package vgirpc

// Demonstration for fix 6a8fa9d (property C02, found by the C02 session model):
// a STREAM call whose request batch is a shared-memory pointer batch (0 rows +
// vgi_rpc.shm_offset) on a connection where no segment was ever attached is
// refused with IOError. Before the fix serveOne returned without draining the
// client's input stream, so that stream was parsed as the next request: an extra
// ProtocolError response appeared and every later response came one slot late;
// with an EMPTY input stream ReadRequest returned io.EOF and the session ended.
// Fails before 6a8fa9d, passes after. Drop into vgirpc/ and run
//   go test ./vgirpc -run TestZZPtrStream

import (
	"bytes"
	"context"
	"testing"

	"github.com/apache/arrow-go/v18/arrow"
	"github.com/apache/arrow-go/v18/arrow/array"
	"github.com/apache/arrow-go/v18/arrow/ipc"
	"github.com/apache/arrow-go/v18/arrow/memory"
)

type zzPtrParams struct {
	X int64 `vgirpc:"x"`
}

type zzPtrState struct{ N int }

func (s *zzPtrState) Produce(_ context.Context, out *OutputCollector, _ *CallContext) error {
	return out.Finish()
}

var (
	zzPtrIn  = arrow.NewSchema([]arrow.Field{{Name: "x", Type: arrow.PrimitiveTypes.Int64}}, nil)
	zzPtrOut = arrow.NewSchema([]arrow.Field{{Name: "v", Type: arrow.PrimitiveTypes.Int64}}, nil)
)

func zzPtrRequest(t *testing.T, buf *bytes.Buffer, method string, rows int, extra map[string]string) {
	t.Helper()
	b := array.NewInt64Builder(memory.NewGoAllocator())
	for i := 0; i < rows; i++ {
		b.Append(7)
	}
	col := b.NewArray()
	b.Release()
	defer col.Release()
	keys := []string{MetaMethod, MetaRequestVersion}
	vals := []string{method, ProtocolVersion}
	for k, v := range extra {
		keys = append(keys, k)
		vals = append(vals, v)
	}
	rec := array.NewRecordBatchWithMetadata(zzPtrIn, []arrow.Array{col}, int64(rows), arrow.NewMetadata(keys, vals))
	defer rec.Release()
	w := ipc.NewWriter(buf, ipc.WithSchema(zzPtrIn))
	if err := w.Write(rec); err != nil {
		t.Fatal(err)
	}
	if err := w.Close(); err != nil {
		t.Fatal(err)
	}
}

func zzPtrTicks(t *testing.T, buf *bytes.Buffer, n int) {
	t.Helper()
	empty := arrow.NewSchema(nil, nil)
	w := ipc.NewWriter(buf, ipc.WithSchema(empty))
	for i := 0; i < n; i++ {
		rec := array.NewRecordBatch(empty, nil, 0)
		if err := w.Write(rec); err != nil {
			t.Fatal(err)
		}
		rec.Release()
	}
	if err := w.Close(); err != nil {
		t.Fatal(err)
	}
}

// zzPtrResponses splits the server output into IPC streams and returns, per
// stream, the exception_type-bearing log message of its first batch ("" when
// the first batch is not an EXCEPTION) and the first int64 value if any.
type zzPtrStream struct {
	exc  string
	vals []int64
}

func zzPtrResponses(t *testing.T, out []byte) []zzPtrStream {
	t.Helper()
	var res []zzPtrStream
	r := bytes.NewReader(out)
	for r.Len() > 0 {
		rd, err := ipc.NewReader(r)
		if err != nil {
			t.Fatalf("response stream %d: %v", len(res), err)
		}
		var st zzPtrStream
		for rd.Next() {
			rec := rd.RecordBatch()
			if bm, ok := rec.(arrow.RecordBatchWithMetadata); ok {
				if lvl, ok := bm.Metadata().GetValue(MetaLogLevel); ok && lvl == string(LogException) {
					st.exc, _ = bm.Metadata().GetValue(MetaLogMessage)
				}
			}
			if rec.NumCols() > 0 {
				if c, ok := rec.Column(0).(*array.Int64); ok {
					for i := 0; i < c.Len(); i++ {
						st.vals = append(st.vals, c.Value(i))
					}
				}
			}
		}
		rd.Release()
		res = append(res, st)
	}
	return res
}

func zzPtrServer() *Server {
	s := NewServer()
	Unary(s, "u_int", func(_ context.Context, _ *CallContext, p zzPtrParams) (int64, error) { return p.X + 100, nil })
	Producer(s, "prod", zzPtrOut, func(_ context.Context, _ *CallContext, p zzPtrParams) (*StreamResult, error) {
		return &StreamResult{OutputSchema: zzPtrOut, State: &zzPtrState{}}, nil
	})
	return s
}

func zzPtrRun(t *testing.T, ticks int) []zzPtrStream {
	t.Helper()
	var in bytes.Buffer
	// call 1: stream call to prod; the request batch is a shm pointer batch, no segment on this connection
	zzPtrRequest(t, &in, "prod", 0, map[string]string{MetaShmOffset: "4096", MetaShmLength: "64"})
	zzPtrTicks(t, &in, ticks) // the client's input stream, written right behind the request
	// calls 2 and 3: plain unary calls on the same connection
	zzPtrRequest(t, &in, "u_int", 1, nil)
	zzPtrRequest(t, &in, "u_int", 1, nil)
	var out bytes.Buffer
	zzPtrServer().Serve(&in, &out)
	return zzPtrResponses(t, out.Bytes())
}

func zzPtrCheck(t *testing.T, res []zzPtrStream) {
	t.Helper()
	if len(res) != 3 {
		t.Fatalf("3 calls must get exactly 3 response streams, got %d: %+v", len(res), res)
	}
	if res[0].exc == "" {
		t.Errorf("call 1 should be refused with an exception, got %+v", res[0])
	}
	for i := 1; i <= 2; i++ {
		if res[i].exc != "" || len(res[i].vals) != 1 || res[i].vals[0] != 107 {
			t.Errorf("call %d (u_int x=7) should be answered 107 in its own slot, got %+v", i+1, res[i])
		}
	}
}

func TestZZPtrStreamRefusalDrainsInput(t *testing.T) { zzPtrCheck(t, zzPtrRun(t, 2)) }

// With an empty input stream the unread stream used to be taken for a request
// with no batches: ReadRequest returned io.EOF and the serve loop ended, so the
// two unary calls got no response at all.
func TestZZPtrStreamRefusalEmptyInputKeepsSession(t *testing.T) { zzPtrCheck(t, zzPtrRun(t, 0)) }
