package vgirpc

import (
	"bytes"
	"net/http"
	"net/http/httptest"
	"testing"

	"github.com/apache/arrow-go/v18/arrow"
	"github.com/apache/arrow-go/v18/arrow/array"
	"github.com/apache/arrow-go/v18/arrow/ipc"
)

func demoE1ZeroRow(meta arrow.Metadata) arrow.RecordBatch {
	b := makeBatch(0)
	defer b.Release()
	return array.NewRecordBatchWithMetadata(testSchema, b.Columns(), 0, meta)
}

func demoE1Log() arrow.RecordBatch {
	return demoE1ZeroRow(arrow.NewMetadata(
		[]string{MetaLogLevel, MetaLogMessage}, []string{"INFO", "hello"}))
}

func demoE1Pointer() arrow.RecordBatch {
	return demoE1ZeroRow(arrow.NewMetadata(
		[]string{MetaLocation}, []string{"https://elsewhere.example/x"}))
}

func demoE1Stream(batches ...arrow.RecordBatch) []byte {
	var buf bytes.Buffer
	w := ipc.NewWriter(&buf, ipc.WithSchema(testSchema))
	for _, b := range batches {
		if err := w.Write(b); err != nil {
			panic(err)
		}
	}
	w.Close()
	return buf.Bytes()
}

func demoE1Resolve(t *testing.T, body []byte) (arrow.RecordBatch, error) {
	t.Helper()
	server := httptest.NewTLSServer(http.HandlerFunc(func(w http.ResponseWriter, r *http.Request) {
		w.Write(body)
	}))
	defer server.Close()
	pointer, meta := MakeExternalLocationBatch(testSchema, server.URL+"/x")
	defer pointer.Release()
	cfg := &ExternalLocationConfig{HTTPClient: server.Client()}
	out, _, err := ResolveExternalLocation(pointer, meta, cfg)
	return out, err
}

func TestDemoE1(t *testing.T) {
	data := makeBatch(3)
	defer data.Release()
	dataWithMeta := array.NewRecordBatchWithMetadata(testSchema, data.Columns(), 3,
		arrow.NewMetadata([]string{"user.key"}, []string{"v"}))
	defer dataWithMeta.Release()

	okCases := map[string][]arrow.RecordBatch{
		"data,log":     {data, demoE1Log()},
		"log,data":     {demoE1Log(), data},
		"log,data,log": {demoE1Log(), dataWithMeta, demoE1Log()},
	}
	for name, bs := range okCases {
		out, err := demoE1Resolve(t, demoE1Stream(bs...))
		if err != nil {
			t.Errorf("%s: unexpected error %v", name, err)
			continue
		}
		if out.NumRows() != 3 {
			t.Errorf("%s: resolved batch has %d rows, want the 3-row data batch", name, out.NumRows())
		}
		if _, isLog := recordMetadata(out)[MetaLogLevel]; isLog {
			t.Errorf("%s: a log batch was returned as data", name)
		}
	}

	errCases := map[string][]arrow.RecordBatch{
		"data,pointer": {data, demoE1Pointer()},
		"pointer,data": {demoE1Pointer(), data},
		"pointer":      {demoE1Pointer()},
		"log only":     {demoE1Log()},
		"log,pointer":  {demoE1Log(), demoE1Pointer()},
	}
	for name, bs := range errCases {
		out, err := demoE1Resolve(t, demoE1Stream(bs...))
		if err == nil {
			t.Errorf("%s: expected an error, got batch with %d rows meta=%v", name, out.NumRows(), recordMetadata(out))
		}
	}
}
