package vgirpc

// Demonstration for property C19 (response size caps): a VOID unary method
// whose log batches push the body past max_response_bytes must be replaced by
// the cap error, exactly like a valued unary method. Fails on ff02128^ (the
// 1816-byte body is sent whole, no X-VGI-RPC-Error), passes on ff02128.

import (
	"bytes"
	"context"
	"net/http"
	"net/http/httptest"
	"strings"
	"testing"

	"github.com/apache/arrow-go/v18/arrow"
	"github.com/apache/arrow-go/v18/arrow/array"
	"github.com/apache/arrow-go/v18/arrow/ipc"
	"github.com/apache/arrow-go/v18/arrow/memory"
)

type demoVoidCapParams struct {
	X int64 `vgirpc:"x"`
}

func demoVoidCapRequest(t *testing.T, method string) []byte {
	t.Helper()
	schema := arrow.NewSchema([]arrow.Field{{Name: "x", Type: arrow.PrimitiveTypes.Int64}}, nil)
	b := array.NewInt64Builder(memory.NewGoAllocator())
	b.Append(1)
	col := b.NewArray()
	b.Release()
	defer col.Release()
	md := arrow.NewMetadata([]string{MetaMethod, MetaRequestVersion}, []string{method, ProtocolVersion})
	rec := array.NewRecordBatchWithMetadata(schema, []arrow.Array{col}, 1, md)
	defer rec.Release()
	var buf bytes.Buffer
	w := ipc.NewWriter(&buf, ipc.WithSchema(schema))
	if err := w.Write(rec); err != nil {
		t.Fatal(err)
	}
	if err := w.Close(); err != nil {
		t.Fatal(err)
	}
	return buf.Bytes()
}

func TestDemoVoidUnaryHonoursResponseCap(t *testing.T) {
	s := NewServer()
	UnaryVoid(s, "noisy", func(_ context.Context, cc *CallContext, _ demoVoidCapParams) error {
		for i := 0; i < 5; i++ {
			cc.ClientLog(LogInfo, strings.Repeat("m", 100))
		}
		return nil
	})
	do := func(capBytes int64) *httptest.ResponseRecorder {
		h := NewHttpServer(s)
		h.SetMaxResponseBytes(capBytes)
		req := httptest.NewRequest(http.MethodPost, "/noisy", bytes.NewReader(demoVoidCapRequest(t, "noisy")))
		req.Header.Set("Content-Type", arrowContentType)
		w := httptest.NewRecorder()
		h.ServeHTTP(w, req)
		return w
	}
	free := do(0)
	if free.Code != http.StatusOK || free.Header().Get(rpcErrorHeader) != "" {
		t.Fatalf("uncapped void call: status %d, error header %q", free.Code, free.Header().Get(rpcErrorHeader))
	}
	full := free.Body.Len()
	if full <= 600 {
		t.Fatalf("test premise: uncapped body is only %d bytes", full)
	}
	// a cap the body fits in changes nothing
	if roomy := do(int64(full)); roomy.Body.Len() != full || roomy.Header().Get(rpcErrorHeader) != "" {
		t.Fatalf("cap == body length must not refuse: %d bytes, error header %q", roomy.Body.Len(), roomy.Header().Get(rpcErrorHeader))
	}
	capped := do(600)
	if capped.Header().Get(rpcErrorHeader) != "true" {
		t.Fatalf("void response of %d bytes under max_response_bytes=600 was sent whole (%d bytes, no %s)",
			full, capped.Body.Len(), rpcErrorHeader)
	}
	rd, err := ipc.NewReader(bytes.NewReader(capped.Body.Bytes()))
	if err != nil {
		t.Fatal(err)
	}
	defer rd.Release()
	n, sawCap := 0, false
	for rd.Next() {
		n++
		if rb, ok := rd.RecordBatch().(arrow.RecordBatchWithMetadata); ok {
			md := rb.Metadata()
			if msg, ok := md.GetValue(MetaLogMessage); ok && strings.Contains(msg, "max_response_bytes") {
				sawCap = true
			}
		}
	}
	if n != 1 || !sawCap {
		t.Fatalf("want an error-only response naming max_response_bytes, got %d batches (cap error seen: %v)", n, sawCap)
	}
}
