package vgirpc

// Demo for fix afb7453 "do not wrap a MaxInt64 body cap to a negative read limit"
// (property C18). Drop into vgirpc/ and run
//     go test ./vgirpc -run TestDemoC18MaxInt64Cap
// It FAILS on afb7453^ (cap+1 / cap*16 wrapped in int64: a body within a MaxInt64
// cap was delivered EMPTY without an error; SetMaxBodySize(1<<60+1) derived a
// decoded cap of 16 bytes) and PASSES on afb7453 (capPlusOne / saturatingMul16).

import (
	"bytes"
	"compress/gzip"
	"math"
	"net/http"
	"net/http/httptest"
	"testing"
)

func TestDemoC18MaxInt64Cap(t *testing.T) {
	payload := bytes.Repeat([]byte("0123456789"), 30) // 300 bytes
	var gz bytes.Buffer
	zw := gzip.NewWriter(&gz)
	_, _ = zw.Write(payload)
	_ = zw.Close()

	read := func(h *HttpServer, enc string, body []byte) ([]byte, error) {
		r := httptest.NewRequest(http.MethodPost, "/x", bytes.NewReader(body))
		if enc != "" {
			r.Header.Set("Content-Encoding", enc)
		}
		return h.readHTTPBody(r)
	}

	// (1) wire cap MaxInt64, identity body: must come back exactly.
	h := NewHttpServer(NewServer())
	h.SetMaxBodySize(math.MaxInt64)
	if got, err := read(h, "", payload); err != nil || !bytes.Equal(got, payload) {
		t.Errorf("SetMaxBodySize(MaxInt64), identity: got %d bytes, err %v; want the 300 bytes sent", len(got), err)
	}

	// (2) advertised cap MaxInt64 with no wire cap: same.
	h = NewHttpServer(NewServer())
	h.SetMaxBodySize(0)
	h.SetMaxRequestBytes(math.MaxInt64)
	if got, err := read(h, "", payload); err != nil || !bytes.Equal(got, payload) {
		t.Errorf("SetMaxRequestBytes(MaxInt64), identity: got %d bytes, err %v; want the 300 bytes sent", len(got), err)
	}

	// (3) decoded cap MaxInt64, gzip body: must decode exactly.
	h = NewHttpServer(NewServer())
	h.SetMaxDecompressedBodySize(math.MaxInt64)
	if got, err := read(h, "gzip", gz.Bytes()); err != nil || !bytes.Equal(got, payload) {
		t.Errorf("SetMaxDecompressedBodySize(MaxInt64), gzip: got %d bytes, err %v; want the 300 bytes encoded", len(got), err)
	}

	// (4) wire cap above MaxInt64/16: the derived decoded cap (16x) must not wrap to 16 bytes.
	h = NewHttpServer(NewServer())
	h.SetMaxBodySize(1<<60 + 1)
	if got, err := read(h, "gzip", gz.Bytes()); err != nil || !bytes.Equal(got, payload) {
		t.Errorf("SetMaxBodySize(1<<60+1), gzip: got %d bytes, err %v; want the 300 bytes encoded", len(got), err)
	}

	// (5) the intermediary decoder with a MaxInt64 per-coding limit.
	if got, err := DecodeContentEncoding(gz.Bytes(), "gzip", math.MaxInt64); err != nil || !bytes.Equal(got, payload) {
		t.Errorf("DecodeContentEncoding(gz, gzip, MaxInt64): got %d bytes, err %v; want the 300 bytes encoded", len(got), err)
	}

	// (6) a finite cap still refuses one byte past it (the saturation changed nothing there).
	h = NewHttpServer(NewServer())
	h.SetMaxBodySize(299)
	if _, err := read(h, "", payload); err == nil {
		t.Errorf("SetMaxBodySize(299): a 300-byte body was accepted")
	}
}
