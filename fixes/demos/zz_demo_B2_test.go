package vgirpc

import (
	"bytes"
	"context"
	"io"
	"net"
	"net/http"
	"net/http/httptest"
	"strings"
	"testing"

	"github.com/apache/arrow-go/v18/arrow"
	"github.com/apache/arrow-go/v18/arrow/array"
	"github.com/apache/arrow-go/v18/arrow/ipc"
	"github.com/apache/arrow-go/v18/arrow/memory"
)

type demoB2Point struct {
	X float64 `arrow:"x"`
	Y float64 `arrow:"y"`
}

func (demoB2Point) ArrowSchema() *arrow.Schema {
	return arrow.NewSchema([]arrow.Field{
		{Name: "x", Type: arrow.PrimitiveTypes.Float64},
		{Name: "y", Type: arrow.PrimitiveTypes.Float64},
	}, nil)
}

type demoB2Params struct {
	P demoB2Point `vgirpc:"p"`
}

// outer batch matches the declared params schema (p: binary); the INNER
// IPC stream has x as a utf8 column instead of float64.
func demoB2Request(t *testing.T, method string, good bool) []byte {
	t.Helper()
	mem := memory.NewGoAllocator()
	var inner []byte
	if good {
		b, err := serializeArrowSerializable(demoB2Point{X: 1, Y: 2})
		if err != nil {
			t.Fatal(err)
		}
		inner = b
	} else {
		schema := arrow.NewSchema([]arrow.Field{
			{Name: "x", Type: arrow.BinaryTypes.String},
			{Name: "y", Type: arrow.PrimitiveTypes.Float64},
		}, nil)
		sb := array.NewStringBuilder(mem)
		sb.Append("not a float")
		xs := sb.NewArray()
		fb := array.NewFloat64Builder(mem)
		fb.Append(2)
		ys := fb.NewArray()
		rec := array.NewRecordBatch(schema, []arrow.Array{xs, ys}, 1)
		var buf bytes.Buffer
		w := ipc.NewWriter(&buf, ipc.WithSchema(schema))
		if err := w.Write(rec); err != nil {
			t.Fatal(err)
		}
		w.Close()
		inner = buf.Bytes()
	}
	outerSchema := arrow.NewSchema([]arrow.Field{{Name: "p", Type: arrow.BinaryTypes.Binary}}, nil)
	bb := array.NewBinaryBuilder(mem, arrow.BinaryTypes.Binary)
	bb.Append(inner)
	col := bb.NewArray()
	outer := array.NewRecordBatch(outerSchema, []arrow.Array{col}, 1)
	return regressionRequest(t, method, outer)
}

func demoB2Server() (*Server, *int) {
	calls := new(int)
	s := NewServer()
	Unary(s, "u", func(_ context.Context, _ *CallContext, p demoB2Params) (regressionResult, error) {
		*calls++
		return regressionResult{Value: int64(p.P.X)}, nil
	})
	Producer(s, "p", regressionSchema,
		func(_ context.Context, _ *CallContext, p demoB2Params) (*StreamResult, error) {
			*calls++
			return &StreamResult{OutputSchema: regressionSchema, State: &finishProducerState{}}, nil
		})
	return s, calls
}

func TestDemoB2Pipe(t *testing.T) {
	for _, method := range []string{"u", "p"} {
		t.Run(method, func(t *testing.T) {
			s, calls := demoB2Server()
			input := append([]byte(nil), demoB2Request(t, method, false)...)
			input = append(input, demoB2Request(t, "u", true)...)
			var out bytes.Buffer
			var panicked interface{}
			func() {
				defer func() { panicked = recover() }()
				s.Serve(bytes.NewReader(input), &out)
			}()
			if panicked != nil {
				t.Fatalf("panic escaped Serve: %v", panicked)
			}
			if !strings.Contains(out.String(), "parameter deserialization") {
				t.Fatalf("no TypeError response")
			}
			if *calls != 1 {
				t.Fatalf("following valid request not served: calls=%d", *calls)
			}
		})
	}
}

// Real net/http server so we observe what a client sees (net/http recovers the
// panic and drops the connection with no status line).
func TestDemoB2HTTP(t *testing.T) {
	for _, tc := range []struct{ method, path string }{{"u", "/u"}, {"p", "/p/init"}} {
		t.Run(tc.method, func(t *testing.T) {
			s, calls := demoB2Server()
			h := NewHttpServer(s)
			h.InitPages()
			ts := httptest.NewUnstartedServer(h)
			ts.Config.ErrorLog = nil
			ts.Start()
			defer ts.Close()
			resp, err := http.Post(ts.URL+tc.path, arrowContentType, bytes.NewReader(demoB2Request(t, tc.method, false)))
			if err != nil {
				if _, ok := err.(net.Error); ok || strings.Contains(err.Error(), "EOF") {
					t.Fatalf("exchange aborted without a response: %v", err)
				}
				t.Fatal(err)
			}
			body, _ := io.ReadAll(resp.Body)
			resp.Body.Close()
			if resp.StatusCode != http.StatusBadRequest {
				t.Fatalf("expected 400, got %d", resp.StatusCode)
			}
			if !strings.Contains(string(body), "TypeError") {
				t.Fatalf("expected TypeError body, got %q", body)
			}
			if *calls != 0 {
				t.Fatal("handler ran")
			}
			// the good request still works
			resp, err = http.Post(ts.URL+"/u", arrowContentType, bytes.NewReader(demoB2Request(t, "u", true)))
			if err != nil || resp.StatusCode != 200 {
				t.Fatalf("good request failed: %v %v", err, resp)
			}
			resp.Body.Close()
		})
	}
}
