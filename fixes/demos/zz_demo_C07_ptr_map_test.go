// Demonstration for property C07 ("when the batch's schema equals the declared
// parameter schema the handler runs and each field holds the value sent").
//
// A pointer-to-map parameter field (*map[string]float64) with an equal schema
// and a non-null cell was refused with
//   TypeError: ... malformed parameter value: reflect.MakeMapWithSize of non-map type
// (an escaping panic before the panic containment landed), because setMapField
// dereferenced a field type that setFieldFromArrow had already dereferenced.
//
// Fails on 0746f27, passes on 099ce14 ("fix: bind non-null values to
// pointer-to-map parameter fields"). Drop into vgirpc/ and run:
//   go test ./vgirpc -run TestDemoPtrMapParamBinds
package vgirpc

import (
	"bytes"
	"context"
	"reflect"
	"testing"

	"github.com/apache/arrow-go/v18/arrow"
	"github.com/apache/arrow-go/v18/arrow/array"
	"github.com/apache/arrow-go/v18/arrow/ipc"
	"github.com/apache/arrow-go/v18/arrow/memory"
)

type demoPtrMapParams struct {
	V *map[string]float64 `vgirpc:"v"`
}

func reflectTypeOfDemoPtrMap() reflect.Type { return reflect.TypeOf(demoPtrMapParams{}) }

func TestDemoPtrMapParamBinds(t *testing.T) {
	s := NewServer()
	ran := false
	var got map[string]float64
	Unary(s, "m", func(_ context.Context, _ *CallContext, p demoPtrMapParams) (int64, error) {
		ran = true
		if p.V != nil {
			got = *p.V
		}
		return 7, nil
	})

	// the batch the declared schema asks for: v: map<utf8, float64> nullable, one row {"k": 2.5}
	declared, err := SchemaForStruct(reflectTypeOfDemoPtrMap())
	if err != nil {
		t.Fatal(err)
	}
	mt := declared.Field(0).Type.(*arrow.MapType)
	mb := array.NewMapBuilderWithType(memory.NewGoAllocator(), mt)
	mb.Append(true)
	mb.KeyBuilder().(*array.StringBuilder).Append("k")
	mb.ItemBuilder().(*array.Float64Builder).Append(2.5)
	col := mb.NewArray()
	mb.Release()
	rec := array.NewRecordBatch(declared, []arrow.Array{col}, 1)
	col.Release()
	defer rec.Release()
	if !rec.Schema().Equal(declared) {
		t.Fatal("test bug: batch schema differs from the declared schema")
	}

	var req, resp bytes.Buffer
	if err := WriteRequest(&req, "m", rec, ""); err != nil {
		t.Fatal(err)
	}
	func() {
		defer func() {
			if rv := recover(); rv != nil {
				t.Fatalf("panic escaped Serve: %v", rv)
			}
		}()
		s.Serve(&req, &resp)
	}()

	if !ran {
		msg := ""
		if r, err := ipc.NewReader(bytes.NewReader(resp.Bytes())); err == nil {
			for r.Next() {
				if bm, ok := r.RecordBatch().(arrow.RecordBatchWithMetadata); ok {
					if m, ok := bm.Metadata().GetValue(MetaLogMessage); ok {
						msg = m
					}
				}
			}
			r.Release()
		}
		t.Fatalf("schema equals the declared schema but the handler did not run; server answered: %q", msg)
	}
	if len(got) != 1 || got["k"] != 2.5 {
		t.Fatalf("handler saw %v, want map[k:2.5]", got)
	}
}
