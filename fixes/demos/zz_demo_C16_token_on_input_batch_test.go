package vgirpc

// Demo for property C16 (HTTP continuations advance the stream exactly one turn;
// the handler never sees a token).
// Drop into /repo/vgirpc and run:  go test ./vgirpc -run TestZzC16TokenOnInputBatch
//
// POST /exch/init, then POST /exch/exchange with an {x:int64} batch whose custom
// metadata is [a=1, vgi_rpc.stream_state#b64=<cursor>, b=2,
// vgi_rpc.call_state#b64=<call token>]. The exchange state reads the INPUT
// BATCH's own custom metadata (not CallContext.InputMetadata). Before the fix
// "strip framework tokens from the exchange input batch handed to the state"
// the batch still carried the request's full metadata, so the state saw the
// sealed cursor and the call token — on the schema-equal path and on the
// castRecordBatch path ({x:int32} input), which copies the metadata over.
// Fails before that commit, passes after.

import (
	"bytes"
	"context"
	"net/http"
	"net/http/httptest"
	"strings"
	"testing"

	"github.com/apache/arrow-go/v18/arrow"
	"github.com/apache/arrow-go/v18/arrow/array"
	"github.com/apache/arrow-go/v18/arrow/ipc"
	"github.com/apache/arrow-go/v18/arrow/memory"
)

type zzC16Params struct {
	X int64 `vgirpc:"x"`
}

type zzC16State struct{ N int }

var (
	zzC16Out = arrow.NewSchema([]arrow.Field{{Name: "v", Type: arrow.PrimitiveTypes.Int64}}, nil)
	zzC16In  = arrow.NewSchema([]arrow.Field{{Name: "x", Type: arrow.PrimitiveTypes.Int64}}, nil)
	zzC16I32 = arrow.NewSchema([]arrow.Field{{Name: "x", Type: arrow.PrimitiveTypes.Int32}}, nil)

	zzC16SeenBatchKeys [][]string // per Exchange call: keys of the input batch's own metadata
	zzC16SeenCtxKeys   [][]string // per Exchange call: keys of CallContext.InputMetadata
)

func (s *zzC16State) Exchange(_ context.Context, in arrow.RecordBatch, out *OutputCollector, cc *CallContext) error {
	s.N++
	var bk []string
	if bm, ok := in.(arrow.RecordBatchWithMetadata); ok {
		bk = append(bk, bm.Metadata().Keys()...)
	}
	zzC16SeenBatchKeys = append(zzC16SeenBatchKeys, bk)
	zzC16SeenCtxKeys = append(zzC16SeenCtxKeys, append([]string(nil), cc.InputMetadata.Keys()...))
	b := array.NewInt64Builder(memory.NewGoAllocator())
	b.Append(int64(s.N))
	col := b.NewArray()
	b.Release()
	defer col.Release()
	return out.Emit(array.NewRecordBatch(zzC16Out, []arrow.Array{col}, 1))
}

func init() { RegisterStateType(&zzC16State{}) }

func zzC16Batch(schema *arrow.Schema, v int64, keys, vals []string) []byte {
	var col arrow.Array
	if schema.Field(0).Type.ID() == arrow.INT32 {
		b := array.NewInt32Builder(memory.NewGoAllocator())
		b.Append(int32(v))
		col = b.NewArray()
		b.Release()
	} else {
		b := array.NewInt64Builder(memory.NewGoAllocator())
		b.Append(v)
		col = b.NewArray()
		b.Release()
	}
	defer col.Release()
	var rec arrow.RecordBatch
	if keys != nil {
		rec = array.NewRecordBatchWithMetadata(schema, []arrow.Array{col}, 1, arrow.NewMetadata(keys, vals))
	} else {
		rec = array.NewRecordBatch(schema, []arrow.Array{col}, 1)
	}
	defer rec.Release()
	var buf bytes.Buffer
	w := ipc.NewWriter(&buf, ipc.WithSchema(schema))
	if err := w.Write(rec); err != nil {
		panic(err)
	}
	if err := w.Close(); err != nil {
		panic(err)
	}
	return buf.Bytes()
}

func zzC16Post(h http.Handler, path string, body []byte) *httptest.ResponseRecorder {
	req := httptest.NewRequest("POST", path, bytes.NewReader(body))
	req.Header.Set("Content-Type", "application/vnd.apache.arrow.stream")
	rec := httptest.NewRecorder()
	h.ServeHTTP(rec, req)
	return rec
}

func TestZzC16TokenOnInputBatch(t *testing.T) {
	s := NewServer()
	Exchange(s, "exch", zzC16Out, zzC16In, func(context.Context, *CallContext, zzC16Params) (*StreamResult, error) {
		return &StreamResult{OutputSchema: zzC16Out, InputSchema: zzC16In, State: &zzC16State{}}, nil
	})
	h, err := NewHttpServerWithKey(s, []byte("zz-c16-demo-key-0123456789abcdef-0123456789"))
	if err != nil {
		t.Fatal(err)
	}
	init := zzC16Post(h, "/exch/init", zzC16Batch(zzC16In, 1,
		[]string{MetaMethod, MetaRequestVersion}, []string{"exch", ProtocolVersion}))
	if init.Code != 200 {
		t.Fatalf("init status %d", init.Code)
	}
	cur, call := FindStreamTokens(init.Body.Bytes())
	if cur == nil || call == nil {
		t.Fatalf("init returned no tokens")
	}
	keys := []string{"a", MetaStreamState, "b", MetaCallState}
	for i, schema := range []*arrow.Schema{zzC16In, zzC16I32} {
		vals := []string{"1", string(cur), "2", string(call)}
		resp := zzC16Post(h, "/exch/exchange", zzC16Batch(schema, 5, keys, vals))
		if resp.Code != 200 || resp.Header().Get("X-VGI-RPC-Error") != "" {
			t.Fatalf("turn %d: status %d err=%q", i, resp.Code, resp.Header().Get("X-VGI-RPC-Error"))
		}
		next, _ := FindStreamTokens(resp.Body.Bytes())
		if next == nil {
			t.Fatalf("turn %d returned no cursor", i)
		}
		cur = next
	}
	if len(zzC16SeenBatchKeys) != 2 {
		t.Fatalf("expected 2 Exchange calls, got %d", len(zzC16SeenBatchKeys))
	}
	for i := range zzC16SeenBatchKeys {
		path := []string{"schema-equal", "cast"}[i]
		if got := strings.Join(zzC16SeenCtxKeys[i], ","); got != "a,b" {
			t.Errorf("%s path: CallContext.InputMetadata keys = %q, want \"a,b\"", path, got)
		}
		for _, k := range zzC16SeenBatchKeys[i] {
			if k == MetaStreamState || k == MetaCallState || k == MetaCancel {
				t.Errorf("%s path: the state read framework key %q off the input batch's own metadata (a sealed token reached user code); batch keys = %v",
					path, k, zzC16SeenBatchKeys[i])
			}
		}
		if got := strings.Join(zzC16SeenBatchKeys[i], ","); got != "a,b" {
			t.Errorf("%s path: input batch metadata keys = %q, want the request's own keys \"a,b\" in order", path, got)
		}
	}
}
