package vgirpc

import (
	"bytes"
	"context"
	"fmt"
	"net/http"
	"net/http/httptest"
	"strings"
	"testing"

	"github.com/apache/arrow-go/v18/arrow"
)

// zero-row batch with the params schema + vgi_rpc.location metadata.
func demoB1Pointer(t *testing.T, method string) []byte {
	t.Helper()
	pointer := emptyBatch(regressionSchema)
	defer pointer.Release()
	meta := arrow.NewMetadata(
		[]string{MetaMethod, MetaRequestVersion, MetaLocation},
		[]string{method, ProtocolVersion, "http://nowhere.invalid/x"},
	)
	return regressionIPC(t, pointer, meta)
}

func demoB1Server() (*Server, *int) {
	calls := new(int)
	s := NewServer()
	Unary(s, "u", func(_ context.Context, _ *CallContext, p regressionParams) (regressionResult, error) {
		*calls++
		return regressionResult(p), nil
	})
	Producer(s, "p", regressionSchema,
		func(_ context.Context, _ *CallContext, p regressionParams) (*StreamResult, error) {
			*calls++
			return &StreamResult{OutputSchema: regressionSchema, State: &finishProducerState{}}, nil
		})
	return s, calls
}

func TestDemoB1PipeZeroRowPointer(t *testing.T) {
	for _, method := range []string{"u", "p"} {
		t.Run(method, func(t *testing.T) {
			s, calls := demoB1Server()
			good := regressionBatch(t, 7)
			defer good.Release()
			input := append([]byte(nil), demoB1Pointer(t, method)...)
			// a valid request follows on the same connection: it must be served.
			input = append(input, regressionRequest(t, "u", good)...)

			var out bytes.Buffer
			var panicked interface{}
			func() {
				defer func() { panicked = recover() }()
				s.Serve(bytes.NewReader(input), &out)
			}()
			if panicked != nil {
				t.Fatalf("panic escaped Serve: %v", panicked)
			}
			if !strings.Contains(out.String(), "parameter deserialization") {
				t.Fatalf("no error response for the zero-row pointer batch")
			}
			if *calls != 1 {
				t.Fatalf("expected the following valid request to be served once, handler calls=%d", *calls)
			}
		})
	}
}

func TestDemoB1HTTPZeroRowPointer(t *testing.T) {
	for _, tc := range []struct{ method, path string }{{"u", "/u"}, {"p", "/p/init"}} {
		t.Run(tc.method, func(t *testing.T) {
			s, calls := demoB1Server()
			h := NewHttpServer(s)
			h.InitPages()
			req := httptest.NewRequest(http.MethodPost, tc.path, bytes.NewReader(demoB1Pointer(t, tc.method)))
			req.Header.Set("Content-Type", arrowContentType)
			w := httptest.NewRecorder()
			var panicked interface{}
			func() {
				defer func() { panicked = recover() }()
				h.ServeHTTP(w, req)
			}()
			if panicked != nil {
				t.Fatalf("panic escaped ServeHTTP: %v", panicked)
			}
			if w.Code != http.StatusBadRequest {
				t.Fatalf("expected 400, got %d", w.Code)
			}
			if *calls != 0 {
				t.Fatalf("handler ran")
			}
			fmt.Println(tc.path, w.Code)
		})
	}
}
