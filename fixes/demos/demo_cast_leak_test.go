//go:build leakcheck

package vgirpc

// Demonstration for fix a3f8652 (property C41, finding-cast-retains-source-batch):
// castRecordBatch wraps each column it has to convert in compute.NewDatum, which
// RETAINS the column; before the fix that datum was never released, so the
// source batch's buffers could never be freed: an exchange input materialised
// through the checked allocator (ResolveExternalLocation) that needed a cast
// (e.g. int32 sent for an int64 field) leaked one batch per turn, without bound,
// and the cast-failure path leaked it too.
// Copy into /repo/vgirpc (next to demo_emitmap_leak_test.go, which declares the
// shared helpers) and run:
//   go test -tags leakcheck ./vgirpc -run TestDemoC41CastLeak

import (
	"testing"

	"github.com/apache/arrow-go/v18/arrow"
	"github.com/apache/arrow-go/v18/arrow/array"
	"github.com/apache/arrow-go/v18/arrow/memory"
)

var (
	regressionSchemaDemoC41 = arrow.NewSchema([]arrow.Field{{Name: "value", Type: arrow.PrimitiveTypes.Int64}}, nil)
	demoC41UntrackedAlloc   = memory.NewGoAllocator()
)

func TestDemoC41CastLeak(t *testing.T) {
	alloc := leakCheckAllocator()
	target := regressionSchemaDemoC41

	t.Run("cast succeeds (int32 -> int64), 8 turns", func(t *testing.T) {
		src := arrow.NewSchema([]arrow.Field{{Name: "value", Type: arrow.PrimitiveTypes.Int32}}, nil)
		before := alloc.CurrentAlloc()
		for turn := 0; turn < 8; turn++ {
			b := array.NewInt32Builder(alloc) // stands for a batch resolved through defaultAllocator()
			b.Append(int32(turn))
			col := b.NewArray()
			b.Release()
			in := array.NewRecordBatch(src, []arrow.Array{col}, 1)
			col.Release()
			out, err := castRecordBatch(in, target)
			if err != nil {
				t.Fatal(err)
			}
			if got := out.Column(0).(*array.Int64).Value(0); got != int64(turn) {
				t.Fatalf("cast value %d, want %d", got, turn)
			}
			out.Release() // the turn's releaseInput()
			in.Release()  // the owner of the resolved batch
		}
		if after := alloc.CurrentAlloc(); after != before {
			t.Fatalf("cast kept the source batches alive: outstanding %d -> %d bytes after 8 turns", before, after)
		}
	})

	t.Run("cast fails (utf8 'abc' -> int64)", func(t *testing.T) {
		src := arrow.NewSchema([]arrow.Field{{Name: "value", Type: arrow.BinaryTypes.String}}, nil)
		before := alloc.CurrentAlloc()
		b := array.NewStringBuilder(alloc)
		b.Append("abc")
		col := b.NewArray()
		b.Release()
		in := array.NewRecordBatch(src, []arrow.Array{col}, 1)
		col.Release()
		if out, err := castRecordBatch(in, target); err == nil {
			out.Release()
			t.Fatal("cast of 'abc' to int64 must fail")
		}
		in.Release()
		if after := alloc.CurrentAlloc(); after != before {
			t.Fatalf("failed cast kept the source batch alive: outstanding %d -> %d bytes", before, after)
		}
	})
}
