package vgirpc

import (
	"bytes"
	"context"
	"net/http"
	"net/http/httptest"
	"strings"
	"testing"

	"github.com/apache/arrow-go/v18/arrow"
	"github.com/apache/arrow-go/v18/arrow/array"
	"github.com/apache/arrow-go/v18/arrow/ipc"
	"github.com/apache/arrow-go/v18/arrow/memory"
)

const (
	demoC4Rows    = 512 // 512 int64 = 4096 bytes of Arrow data per batch
	demoC4Batches = 20
)

// demoC4Prod emits demoC4Batches batches of demoC4Rows rows, then finishes.
type demoC4Prod struct{ Seq int64 }

func (p *demoC4Prod) Produce(_ context.Context, out *OutputCollector, _ *CallContext) error {
	if p.Seq >= demoC4Batches {
		return out.Finish()
	}
	b := array.NewInt64Builder(memory.NewGoAllocator())
	for i := 0; i < demoC4Rows; i++ {
		b.Append(p.Seq*demoC4Rows + int64(i))
	}
	col := b.NewArray()
	b.Release()
	rec := array.NewRecordBatch(regressionSchema, []arrow.Array{col}, demoC4Rows)
	col.Release()
	p.Seq++
	return out.Emit(rec)
}

type demoC4Exch struct{}

func (*demoC4Exch) Exchange(_ context.Context, in arrow.RecordBatch, out *OutputCollector, _ *CallContext) error {
	in.Retain()
	return out.Emit(in)
}

type demoC4Turn struct {
	bodyLen     int
	dataBatches int
	rows        []int64
	rpcError    bool
	body        []byte
}

func demoC4Do(t *testing.T, h *HttpServer, path string, body []byte) demoC4Turn {
	t.Helper()
	req := httptest.NewRequest(http.MethodPost, path, bytes.NewReader(body))
	req.Header.Set("Content-Type", arrowContentType)
	w := httptest.NewRecorder()
	h.ServeHTTP(w, req)
	if w.Code != http.StatusOK {
		t.Fatalf("%s: status %d: %s", path, w.Code, w.Body.String())
	}
	turn := demoC4Turn{bodyLen: w.Body.Len(), body: w.Body.Bytes(), rpcError: w.Header().Get(rpcErrorHeader) == "true"}
	rd, err := ipc.NewReader(bytes.NewReader(w.Body.Bytes()))
	if err != nil {
		t.Fatalf("%s: %v", path, err)
	}
	defer rd.Release()
	for rd.Next() {
		rec := rd.RecordBatch()
		if rec.NumRows() > 0 {
			turn.dataBatches++
			col := rec.Column(0).(*array.Int64)
			for i := 0; i < col.Len(); i++ {
				turn.rows = append(turn.rows, col.Value(i))
			}
		}
	}
	return turn
}

// drive runs a whole producer stream and returns each HTTP turn.
func demoC4Drive(t *testing.T, h *HttpServer, method string) []demoC4Turn {
	t.Helper()
	params := regressionBatch(t, 1)
	defer params.Release()
	var turns []demoC4Turn
	turn := demoC4Do(t, h, "/"+method+"/init", regressionRequest(t, method, params))
	turns = append(turns, turn)
	token, callToken := FindStreamTokens(turn.body)
	for token != nil && len(turns) < 100 {
		tick := array.NewRecordBatch(arrow.NewSchema(nil, nil), nil, 0)
		body := regressionIPC(t, tick, arrow.NewMetadata(
			[]string{MetaStreamState, MetaCallState}, []string{string(token), string(callToken)}))
		tick.Release()
		turn = demoC4Do(t, h, "/"+method+"/exchange", body)
		turns = append(turns, turn)
		token, _ = FindStreamTokens(turn.body)
	}
	return turns
}

func demoC4Server() *Server {
	RegisterStateType(&demoC4Prod{})
	RegisterStateType(&demoC4Exch{})
	s := NewServer()
	Producer(s, "big", regressionSchema,
		func(context.Context, *CallContext, regressionParams) (*StreamResult, error) {
			return &StreamResult{OutputSchema: regressionSchema, State: &demoC4Prod{}}, nil
		})
	Exchange(s, "echo", regressionSchema, regressionSchema,
		func(context.Context, *CallContext, regressionParams) (*StreamResult, error) {
			return &StreamResult{OutputSchema: regressionSchema, InputSchema: regressionSchema, State: &demoC4Exch{}}, nil
		})
	Unary(s, "one", func(_ context.Context, _ *CallContext, p regressionParams) (regressionResult, error) {
		return regressionResult(p), nil
	})
	return s
}

func demoC4CheckFullStream(t *testing.T, turns []demoC4Turn) {
	t.Helper()
	var next int64
	for _, tr := range turns {
		for _, v := range tr.rows {
			if v != next {
				t.Fatalf("stream corrupted: got %d want %d", v, next)
			}
			next++
		}
	}
	if next != demoC4Rows*demoC4Batches {
		t.Fatalf("stream incomplete: %d rows of %d", next, demoC4Rows*demoC4Batches)
	}
}

// C19: max_response_bytes on a producer response.
func TestDemoC4ProducerHonoursResponseCap(t *testing.T) {
	// Cap unset: one response carries everything (behaviour must not change).
	h := NewHttpServer(demoC4Server())
	h.InitPages()
	turns := demoC4Drive(t, h, "big")
	if len(turns) != 1 || turns[0].dataBatches != demoC4Batches {
		t.Fatalf("cap unset: %d turns, first has %d batches", len(turns), turns[0].dataBatches)
	}
	demoC4CheckFullStream(t, turns)
	oneBatch := turns[0].bodyLen / demoC4Batches // ~ wire size of one data batch

	for _, capBytes := range []int64{1, 4000, 10000, 30000} {
		h = NewHttpServer(demoC4Server())
		h.SetMaxResponseBytes(capBytes)
		h.InitPages()
		turns = demoC4Drive(t, h, "big")
		demoC4CheckFullStream(t, turns)
		for i, tr := range turns {
			// bytes before the last data batch must be under the cap, i.e.
			// the body exceeds the cap by at most one data batch (+ the
			// zero-row token batch and stream framing).
			slack := int64(oneBatch) + 2048
			if int64(tr.bodyLen) > capBytes+slack {
				t.Errorf("cap %d: turn %d body %d bytes (%d data batches) exceeds cap by more than one batch",
					capBytes, i, tr.bodyLen, tr.dataBatches)
			}
			if tr.rpcError {
				t.Errorf("cap %d: turn %d flagged as error", capBytes, i)
			}
		}
		t.Logf("cap %d: %d turns, first turn %d bytes / %d batches", capBytes, len(turns), turns[0].bodyLen, turns[0].dataBatches)
	}
}

// C19: unary and exchange over max_response_bytes are replaced by an error.
func TestDemoC4UnaryExchangeHardCap(t *testing.T) {
	h := NewHttpServer(demoC4Server())
	h.SetMaxResponseBytes(16)
	h.InitPages()

	params := regressionBatch(t, 7)
	defer params.Release()
	u := demoC4Do(t, h, "/one", regressionRequest(t, "one", params))
	if !u.rpcError || u.dataBatches != 0 {
		t.Errorf("unary over cap: rpcError=%v dataBatches=%d", u.rpcError, u.dataBatches)
	}
	requireRuntimeErrorContains(t, u.body, "max_response_bytes")

	init := demoC4Do(t, h, "/echo/init", regressionRequest(t, "echo", params))
	token, callToken := FindStreamTokens(init.body)
	if token == nil {
		t.Fatalf("exchange init: no token")
	}
	body := regressionIPC(t, params, arrow.NewMetadata(
		[]string{MetaStreamState, MetaCallState}, []string{string(token), string(callToken)}))
	e := demoC4Do(t, h, "/echo/exchange", body)
	if !e.rpcError || e.dataBatches != 0 {
		t.Errorf("exchange over cap: rpcError=%v dataBatches=%d", e.rpcError, e.dataBatches)
	}
	requireRuntimeErrorContains(t, e.body, "max_response_bytes")
}

func requireRuntimeErrorContains(t *testing.T, body []byte, want string) {
	t.Helper()
	rd, err := ipc.NewReader(bytes.NewReader(body))
	if err != nil {
		t.Fatal(err)
	}
	defer rd.Release()
	for rd.Next() {
		if m, ok := rd.RecordBatch().(arrow.RecordBatchWithMetadata); ok {
			md := m.Metadata()
			for _, v := range md.Values() {
				if strings.Contains(v, want) {
					return
				}
			}
		}
	}
	t.Errorf("no error batch mentioning %q", want)
}

type demoC4Storage struct{ sizes []int }

func (s *demoC4Storage) Upload(data []byte, _ *arrow.Schema, _ string) (string, error) {
	s.sizes = append(s.sizes, len(data))
	return "https://storage.invalid/x", nil
}

// C19 (report only): max_externalized_response_bytes on a producer turn.
func TestDemoC4ProducerExternalCap(t *testing.T) {
	storage := &demoC4Storage{}
	s := demoC4Server()
	s.SetExternalLocation(&ExternalLocationConfig{Storage: storage, ExternalizeThresholdBytes: 1})
	h := NewHttpServer(s)
	h.SetMaxExternalizedResponseBytes(10000)
	h.InitPages()
	params := regressionBatch(t, 1)
	defer params.Release()
	turn := demoC4Do(t, h, "/big/init", regressionRequest(t, "big", params))
	arrowBytes := int64(len(storage.sizes)) * demoC4Rows * 8
	t.Logf("external cap 10000: uploads=%v arrowBytes=%d rpcError=%v", storage.sizes, arrowBytes, turn.rpcError)
	if arrowBytes > 10000 {
		t.Errorf("producer turn uploaded %d Arrow bytes, over the 10000 cap", arrowBytes)
	}
	if !turn.rpcError {
		t.Logf("note: turn was not flagged as an error")
	}
}
