// Demonstration for property C30 / fix 36fcb9e "carry the caller's custom metadata into an
// externalized batch". Copy into vgirpc/ and run:
//   go test ./vgirpc -run TestDemoC30MetaArgSurvivesExternalization -count=1
// Fails on 36fcb9e^ (the metadata passed next to the batch is gone after resolution although
// the same call below the threshold returns it), passes on 36fcb9e.
package vgirpc

import (
	"net/http"
	"net/http/httptest"
	"reflect"
	"testing"

	"github.com/apache/arrow-go/v18/arrow"
	"github.com/apache/arrow-go/v18/arrow/array"
	"github.com/apache/arrow-go/v18/arrow/memory"
)

type demoC30Store struct {
	data []byte
	enc  string
	url  string
}

func (s *demoC30Store) Upload(d []byte, _ *arrow.Schema, enc string) (string, error) {
	s.data, s.enc = append([]byte(nil), d...), enc
	return s.url, nil
}

func TestDemoC30MetaArgSurvivesExternalization(t *testing.T) {
	mem := memory.NewGoAllocator()
	sch := arrow.NewSchema([]arrow.Field{{Name: "c0", Type: arrow.PrimitiveTypes.Int64}}, nil)
	bl := array.NewInt64Builder(mem)
	bl.AppendValues([]int64{1, 1, 1, 2, -5, -5, -5, -5, -5, -5}, nil)
	col := bl.NewArray()
	own := arrow.NewMetadata([]string{"own"}, []string{"1"})
	batch := array.NewRecordBatchWithMetadata(sch, []arrow.Array{col}, 10, own)
	side := arrow.NewMetadata([]string{"trace"}, []string{"abc"})

	st := &demoC30Store{}
	srv := httptest.NewServer(http.HandlerFunc(func(w http.ResponseWriter, r *http.Request) {
		if st.enc != "" {
			w.Header().Set("Content-Encoding", st.enc)
		}
		w.Write(st.data)
	}))
	defer srv.Close()
	st.url = srv.URL + "/o/1"

	size := batchBufferSize(batch)
	for _, comp := range []*Compression{nil, {Algorithm: "zstd"}} {
		// below the threshold: (batch, meta) come back untouched
		cfg := &ExternalLocationConfig{Storage: st, ExternalizeThresholdBytes: size + 1, Compression: comp}
		b1, m1, err := MaybeExternalizeBatch(batch, side, cfg)
		if err != nil || b1 != batch || !reflect.DeepEqual(m1.ToMap(), side.ToMap()) {
			t.Fatalf("below threshold: want the inputs back, got rows=%d meta=%v err=%v", b1.NumRows(), m1, err)
		}
		// at the threshold: pointer, then resolve
		cfg.ExternalizeThresholdBytes = size
		pb, pm, err := MaybeExternalizeBatch(batch, side, cfg)
		if err != nil || pb.NumRows() != 0 {
			t.Fatalf("at threshold: want a pointer, got rows=%d err=%v", pb.NumRows(), err)
		}
		rb, _, err := ResolveExternalLocation(pb, pm, cfg)
		if err != nil {
			t.Fatalf("resolve: %v", err)
		}
		got := batchMetadata(rb)
		wantK, wantV := []string{"own", "trace"}, []string{"1", "abc"}
		if !reflect.DeepEqual(got.Keys(), wantK) || !reflect.DeepEqual(got.Values(), wantV) {
			t.Fatalf("compression=%v: resolved batch carries custom metadata %v, want own ++ side = [own:1 trace:abc]", comp != nil, got)
		}
		if rb.NumRows() != 10 || !array.Equal(rb.Column(0), col) {
			t.Fatalf("resolved values differ")
		}
	}
}
