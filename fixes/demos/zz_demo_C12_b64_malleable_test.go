package vgirpc

import (
	"encoding/base64"
	"testing"
)

type demoC12State struct{ N int64 }

// C12: a state token whose TEXT was altered must be refused, even when the
// alteration is invisible to encoding/base64 (CR/LF anywhere, the unused low
// bits of the final quantum). Fails on 99fee40^, passes on 99fee40.
func TestDemoC12Base64TextMalleability(t *testing.T) {
	RegisterStateType(demoC12State{})
	h, err := NewHttpServerWithKey(NewServer(), []byte("0123456789abcdef0123456789abcdef"))
	if err != nil {
		t.Fatal(err)
	}
	// pad the state until the raw envelope has slack bits (len%3 != 0)
	var tok []byte
	for n := int64(1); ; n *= 300 {
		tok, err = h.packCursorToken("00112233445566778899aabbccddeeff", demoC12State{N: n}, nil)
		if err != nil {
			t.Fatal(err)
		}
		if tok[len(tok)-1] == '=' {
			break
		}
		if n > 1<<40 {
			t.Skip("could not mint a padded token")
		}
	}
	if _, err := h.openCursorToken(tok, nil); err != nil {
		t.Fatalf("verbatim token refused: %v", err)
	}
	s := string(tok)
	raw, _ := base64.StdEncoding.DecodeString(s)

	// every other final data character that decodes to the same raw bytes (slack bits)
	last := len(s) - 1
	for s[last] == '=' {
		last--
	}
	const alpha = "ABCDEFGHIJKLMNOPQRSTUVWXYZabcdefghijklmnopqrstuvwxyz0123456789+/"
	variants := map[string]string{
		"newline inserted": s[:10] + "\n" + s[10:],
		"CRLF appended":    s + "\r\n",
	}
	for i := 0; i < len(alpha); i++ {
		m := s[:last] + string(alpha[i]) + s[last+1:]
		if m == s {
			continue
		}
		if r, err := base64.StdEncoding.DecodeString(m); err == nil && string(r) == string(raw) {
			variants["slack bits of the last character ("+string(s[last])+"->"+string(alpha[i])+")"] = m
		}
	}
	if len(variants) < 3 {
		t.Fatalf("no slack-bit variant found (raw len %d)", len(raw))
	}
	for name, m := range variants {
		if _, err := h.openCursorToken([]byte(m), nil); err == nil {
			t.Errorf("altered token text accepted: %s", name)
		} else if err.Error() != "RuntimeError: Malformed state token" && err.Error() != "Malformed state token" {
			t.Errorf("%s: refused, but not as a malformed token: %v", name, err)
		}
	}
}
