package vgirpc

import (
	"net/http/httptest"
	"sync"
	"testing"
	"time"
)

// A proof accepted once must be refused for as long as its timestamp is
// still inside the acceptance window.
func TestDemoD3ReplayAfterCacheExpiry(t *testing.T) {
	secret := goldenSecret(t)
	const skew = 30
	for _, tsOff := range []int64{skew, skew - 1, 1, 0, -skew} {
		var mu sync.Mutex
		now := time.Unix(goldenTime, 0)
		clock := func() time.Time { mu.Lock(); defer mu.Unlock(); return now }
		fn, err := ProofAuthenticate(ProofConfig{
			Mode:        ProofModeRequire,
			OriginID:    goldenOrigin,
			Secrets:     map[string]ProofSecret{goldenKid: {Secret: secret, Label: goldenKid}},
			SkewSeconds: skew,
			Now:         clock,
		}, nil)
		if err != nil {
			t.Fatal(err)
		}
		tok, err := MintProof(secret, goldenKid, goldenOrigin, goldenTime+tsOff, "AAAAAAAAAAAAAAAAAAAAAA")
		if err != nil {
			t.Fatal(err)
		}
		present := func() error {
			r := httptest.NewRequest("POST", "/x", nil)
			r.Header.Set(ProofHeader, tok)
			_, err := fn(r)
			return err
		}
		if err := present(); err != nil {
			t.Fatalf("tsOff=%d: first presentation refused: %v", tsOff, err)
		}
		// Walk the clock forward in half-second steps well past the window.
		for step := 1; step <= 2*(3*skew); step++ {
			mu.Lock()
			now = time.Unix(goldenTime, 0).Add(time.Duration(step) * 500 * time.Millisecond)
			mu.Unlock()
			if err := present(); err == nil {
				t.Errorf("tsOff=%d: replay ACCEPTED at now+%.1fs", tsOff, float64(step)/2)
				break
			}
		}
	}
}
