package vgirpc

// Demo for defect F1, part B (needs the fix to compile): the framing guard
// agrees with arrow-go on valid input and on every single-bit mutation.

import (
	"bufio"
	"bytes"
	"context"
	"encoding/binary"
	"fmt"
	"io"
	"net/http"
	"net/http/httptest"
	"os"
	"os/exec"
	"runtime"
	"strconv"
	"strings"
	"syscall"
	"testing"

	"github.com/apache/arrow-go/v18/arrow"
	"github.com/apache/arrow-go/v18/arrow/array"
	"github.com/apache/arrow-go/v18/arrow/ipc"
	"github.com/apache/arrow-go/v18/arrow/memory"
)

// f1DrainStreams reads every concatenated stream in body with arrow-go and
// returns the offsets at which arrow-go finished each stream.
func f1DrainStreams(t *testing.T, body []byte) (ends []int, batches int) {
	r := bytes.NewReader(body)
	for r.Len() > 0 {
		rd, err := ipc.NewReader(r)
		if err != nil {
			t.Fatalf("arrow-go cannot open stream at %d: %v", len(body)-r.Len(), err)
		}
		for rd.Next() {
			batches++
		}
		if err := rd.Err(); err != nil {
			t.Fatalf("arrow-go read error: %v", err)
		}
		rd.Release()
		ends = append(ends, len(body)-r.Len())
	}
	return ends, batches
}

func f1AssertGuardMatchesArrow(t *testing.T, name string, body []byte) {
	t.Helper()
	if err := checkIPCFraming(body); err != nil {
		t.Fatalf("%s: guard refused a valid body: %v", name, err)
	}
	ends, _ := f1DrainStreams(t, body)
	pos := 0
	for i, want := range ends {
		n, err := checkIPCStreamFraming(body[pos:])
		if err != nil {
			t.Fatalf("%s: stream %d: %v", name, i, err)
		}
		if pos+n != want {
			t.Fatalf("%s: stream %d ends at %d per guard, %d per arrow-go", name, i, pos+n, want)
		}
		pos += n
	}
	if pos != len(body) {
		t.Fatalf("%s: guard stopped at %d of %d", name, pos, len(body))
	}
}

type f1Hdr struct {
	N int64 `arrow:"n"`
}

func (f1Hdr) ArrowSchema() *arrow.Schema {
	return arrow.NewSchema([]arrow.Field{{Name: "n", Type: arrow.PrimitiveTypes.Int64}}, nil)
}

type f1LogProd struct{ N int } // exported: the HTTP state token gob-encodes it

func (p *f1LogProd) Produce(_ context.Context, out *OutputCollector, _ *CallContext) error {
	if p.N >= 3 {
		return out.Finish()
	}
	p.N++
	out.ClientLog(LogInfo, fmt.Sprintf("batch %d", p.N))
	return out.Emit(f1XBatch(int64(p.N)))
}

func TestF1_ValidBodiesStillAccepted(t *testing.T) {
	mem := memory.DefaultAllocator
	// WriteRequest over several shapes, incl. zero columns and a dictionary column.
	dictType := &arrow.DictionaryType{IndexType: arrow.PrimitiveTypes.Int8, ValueType: arrow.BinaryTypes.String}
	dictSchema := arrow.NewSchema([]arrow.Field{{Name: "d", Type: dictType}, {Name: "s", Type: arrow.BinaryTypes.String}}, nil)
	db := array.NewDictionaryBuilder(mem, dictType).(*array.BinaryDictionaryBuilder)
	_ = db.AppendString("hello")
	darr := db.NewArray()
	db.Release()
	sb := array.NewStringBuilder(mem)
	sb.Append("wörld")
	sarr := sb.NewArray()
	sb.Release()
	dictBatch := array.NewRecordBatch(dictSchema, []arrow.Array{darr, sarr}, 1)
	darr.Release()
	sarr.Release()
	defer dictBatch.Release()
	empty := emptyBatch(arrow.NewSchema(nil, nil))
	defer empty.Release()
	x := f1XBatch(7)
	defer x.Release()

	for name, b := range map[string]arrow.RecordBatch{"x": x, "empty": empty, "dict": dictBatch} {
		for _, method := range []string{"m", "", "méthode"} {
			for _, pv := range []string{"", "1.2.3"} {
				var buf bytes.Buffer
				if err := WriteRequest(&buf, method, b, pv); err != nil {
					t.Fatal(err)
				}
				label := fmt.Sprintf("WriteRequest(%q,%s,%q)", method, name, pv)
				f1AssertGuardMatchesArrow(t, label, buf.Bytes())
				req, err := readRequestBytes(buf.Bytes())
				if err != nil {
					t.Fatalf("%s: %v", label, err)
				}
				if req.Method != method || req.Batch.NumCols() != b.NumCols() {
					t.Fatalf("%s: round trip mismatch", label)
				}
				req.Batch.Release()
				if got := FindProtocolVersion(buf.Bytes()); got != pv {
					t.Fatalf("%s: FindProtocolVersion = %q", label, got)
				}
			}
		}
	}

	// WriteUnaryResult / ReadUnaryResult.
	env := arrow.NewSchema([]arrow.Field{{Name: "result", Type: arrow.BinaryTypes.Binary}}, nil)
	for _, payload := range [][]byte{nil, []byte("x"), bytes.Repeat([]byte{0xAB}, 100000)} {
		var buf bytes.Buffer
		if err := WriteUnaryResult(&buf, env, payload); err != nil {
			t.Fatal(err)
		}
		f1AssertGuardMatchesArrow(t, "WriteUnaryResult", buf.Bytes())
		_, got, ok := ReadUnaryResult(buf.Bytes())
		if !ok || !bytes.Equal(got, payload) {
			t.Fatalf("ReadUnaryResult round trip failed (ok=%v, %d bytes)", ok, len(got))
		}
	}

	// Real server responses: header stream + data stream with log batches and
	// a token batch, exchange init (token only), unary with dictionary result.
	RegisterStateType(&f1LogProd{})
	RegisterStateType(f1Exch{})
	srv := NewServer()
	ProducerWithHeader(srv, "ph", f1XSchema, f1Hdr{}.ArrowSchema(), func(context.Context, *CallContext, f1Params) (*StreamResult, error) {
		return &StreamResult{OutputSchema: f1XSchema, State: &f1LogProd{}, Header: f1Hdr{N: 3}}, nil
	})
	Exchange(srv, "e", f1XSchema, f1XSchema, func(context.Context, *CallContext, f1Params) (*StreamResult, error) {
		return &StreamResult{OutputSchema: f1XSchema, State: f1Exch{}}, nil
	})
	Unary(srv, "m", func(_ context.Context, c *CallContext, p f1Params) (int64, error) {
		c.ClientLog(LogInfo, "hi")
		return p.X, nil
	})
	hs := NewHttpServer(srv)
	hs.SetProducerBatchLimit(1) // force a continuation token after the first data batch
	do := func(path string, body []byte) []byte {
		req := httptest.NewRequest(http.MethodPost, path, bytes.NewReader(body))
		req.Header.Set("Content-Type", arrowContentType)
		rec := httptest.NewRecorder()
		hs.ServeHTTP(rec, req)
		if rec.Code != 200 {
			t.Fatalf("%s: status %d: %s", path, rec.Code, rec.Body.String())
		}
		return rec.Body.Bytes()
	}
	mkReq := func(method string) []byte {
		var buf bytes.Buffer
		if err := WriteRequest(&buf, method, x, ""); err != nil {
			t.Fatal(err)
		}
		return buf.Bytes()
	}
	resp := do("/ph/init", mkReq("ph"))
	ends, batches := f1DrainStreams(t, resp)
	if len(ends) != 2 {
		t.Fatalf("producer-with-header response has %d streams, want 2", len(ends))
	}
	t.Logf("ph/init: %d bytes, streams end at %v, %d batches", len(resp), ends, batches)
	f1AssertGuardMatchesArrow(t, "ph/init response", resp)
	state, _ := FindStreamTokens(resp)
	if state == nil {
		t.Fatalf("no continuation token found in the data stream (second stream)")
	}
	resp = do("/e/init", mkReq("e"))
	f1AssertGuardMatchesArrow(t, "e/init response", resp)
	if s, _ := FindStreamTokens(resp); s == nil {
		t.Fatal("no token in exchange init response")
	}
	resp = do("/m", mkReq("m"))
	f1AssertGuardMatchesArrow(t, "unary response", resp)
}

// Legacy (pre-0.15) framing without continuation markers is what arrow-go
// still reads; the guard must walk it the same way.
func TestF1_LegacyFramingAccepted(t *testing.T) {
	body := f1ValidRequest(t)
	var legacy []byte
	for pos := 0; pos < len(body); {
		if !bytes.Equal(body[pos:pos+4], []byte{0xFF, 0xFF, 0xFF, 0xFF}) {
			t.Fatalf("no marker at %d", pos)
		}
		end, err := skipOneIPCMessage(body[pos:])
		if err != nil { // EOS
			legacy = append(legacy, 0, 0, 0, 0)
			break
		}
		legacy = append(legacy, body[pos+4:pos+end]...)
		pos += end
	}
	f1AssertGuardMatchesArrow(t, "legacy", legacy)
	req, err := readRequestBytes(legacy)
	if err != nil {
		t.Fatal(err)
	}
	req.Batch.Release()
}

// Bytes after a clean end-of-stream are none of the single-stream readers'
// business, before or after the fix.
func TestF1_TrailingBytesLeftToCallers(t *testing.T) {
	valid := f1ValidRequest(t)
	garbage := append(bytes.Clone(valid), 0x00, 0x00, 0x00, 0x70)
	req, err := readRequestBytes(garbage)
	if err != nil {
		t.Fatalf("valid stream + trailing bytes refused: %v", err)
	}
	req.Batch.Release()
	if got := FindProtocolVersion(garbage); got != "1.2.3" {
		t.Fatalf("FindProtocolVersion = %q", got)
	}
	// FindStreamTokens walks on into the next stream: that one is bounded.
	var before, after runtime.MemStats
	runtime.ReadMemStats(&before)
	s, c := FindStreamTokens(garbage)
	runtime.ReadMemStats(&after)
	if s != nil || c != nil {
		t.Fatalf("tokens from a token-less body: %q %q", s, c)
	}
	if d := after.TotalAlloc - before.TotalAlloc; d > 1<<20 {
		t.Fatalf("FindStreamTokens allocated %d bytes walking into trailing garbage", d)
	}
	// A token in the first stream is still found when garbage follows.
	tokSchema := arrow.NewSchema(nil, nil)
	var buf bytes.Buffer
	w := ipc.NewWriter(&buf, ipc.WithSchema(tokSchema))
	if err := writeStateTokenBatch(w, tokSchema, []byte("tok"), []byte("call")); err != nil {
		t.Fatal(err)
	}
	w.Close()
	withTok := append(buf.Bytes(), 0x00, 0x00, 0x00, 0x70)
	s, c = FindStreamTokens(withTok)
	if string(s) != "tok" || string(c) != "call" {
		t.Fatalf("tokens = %q %q", s, c)
	}
}

// f1ShortReader notes whether the consumer ever asked for more bytes than
// were left — i.e. acted on a declared length the data does not back.
type f1ShortReader struct {
	r          *bytes.Reader
	short      bool
	expectMeta bool // the previous 4-byte read was a non-zero length word
}

func (s *f1ShortReader) Read(p []byte) (int, error) {
	// A 4-byte read at the very end is just arrow-go looking for the next
	// message; anything else that overruns is a declared length.
	if len(p) > s.r.Len() && (len(p) != 4 || s.expectMeta) {
		s.short = true
	}
	n, err := s.r.Read(p)
	wasLen := len(p) == 4 && n == 4 && !s.expectMeta
	s.expectMeta = false
	if wasLen {
		if w := binary.LittleEndian.Uint32(p); w != 0 && w != 0xFFFFFFFF {
			s.expectMeta = true
		}
	}
	return n, err
}

func f1Flip(body []byte, i int) []byte {
	v := bytes.Clone(body)
	v[i/8] ^= 1 << (i % 8)
	return v
}

// Every single-bit mutation of the valid request, each handed to UNGUARDED
// arrow-go (plain ReadRequest) in a memory-limited child:
//   - what the guard refuses, arrow-go must fail on too (no false refusals);
//   - what the guard accepts and arrow-go nevertheless dies / over-allocates on
//     is logged as residual: those are lengths INSIDE the metadata flatbuffer
//     (vector lengths), not message framing.
func TestF1_GuardAgreesWithArrowOnEveryBitFlip(t *testing.T) {
	body := f1ValidRequest(t)
	nbits := len(body) * 8
	if start := os.Getenv("ZZ_F1_DIFF"); start != "" {
		var lim syscall.Rlimit
		lim.Cur, lim.Max = 4<<30, 4<<30
		_ = syscall.Setrlimit(syscall.RLIMIT_DATA, &lim)
		from, _ := strconv.Atoi(start)
		out := bufio.NewWriter(os.Stdout)
		for i := from; i < nbits; i++ {
			v := f1Flip(body, i)
			verdict := "A"
			if _, err := checkIPCStreamFraming(v); err != nil {
				verdict = "R"
			}
			fmt.Fprintf(out, "V %d %s\n", i, verdict)
			out.Flush()
			var before, after runtime.MemStats
			runtime.ReadMemStats(&before)
			// unguarded arrow-go: "clean" = reads the whole stream to its EOS
			// without error; "lenient" = ReadRequest takes it anyway (it
			// ignores errors while draining past the first batch).
			// (arrow-go maps an EOF while reading a declared length to a clean
			// end, so a read past the end of the data counts as not clean.)
			res := "err"
			sr := &f1ShortReader{r: bytes.NewReader(v)}
			if rd, err := ipc.NewReader(sr); err == nil {
				for rd.Next() {
				}
				if rd.Err() == nil && !sr.short {
					res = "clean"
				}
				rd.Release()
			}
			if res != "clean" {
				if req, err := ReadRequest(bytes.NewReader(v)); err == nil {
					req.Batch.Release()
					res = "lenient"
				}
			}
			runtime.ReadMemStats(&after)
			fmt.Fprintf(out, "RES %d %s %d\n", i, res, after.TotalAlloc-before.TotalAlloc)
		}
		fmt.Fprintln(out, "DIFF-DONE")
		out.Flush()
		return
	}

	type outcome struct {
		verdict, res string
		alloc        uint64
	}
	results := make([]outcome, nbits)
	from, deaths := 0, 0
	for from < nbits {
		cmd := exec.Command(os.Args[0], "-test.run", "^TestF1_GuardAgreesWithArrowOnEveryBitFlip$")
		cmd.Env = append(os.Environ(), "ZZ_F1_DIFF="+strconv.Itoa(from))
		var stderr bytes.Buffer
		cmd.Stderr = &stderr
		stdout, _ := cmd.StdoutPipe()
		if err := cmd.Start(); err != nil {
			t.Fatal(err)
		}
		raw, _ := io.ReadAll(stdout)
		_ = cmd.Wait()
		last, done := -1, false
		for _, line := range strings.Split(string(raw), "\n") {
			f := strings.Fields(line)
			switch {
			case len(f) == 3 && f[0] == "V":
				last, _ = strconv.Atoi(f[1])
				results[last] = outcome{verdict: f[2], res: "died"}
			case len(f) == 4 && f[0] == "RES":
				i, _ := strconv.Atoi(f[1])
				results[i].res = f[2]
				results[i].alloc, _ = strconv.ParseUint(f[3], 10, 64)
			case line == "DIFF-DONE":
				done = true
			}
		}
		if done {
			break
		}
		if last < 0 {
			t.Fatalf("child made no progress from %d: %s", from, stderr.String())
		}
		if !strings.Contains(stderr.String(), "out of memory") {
			// Under RLIMIT_DATA the Go runtime can also fault inside the GC
			// when its own bookkeeping cannot be mapped; still a death.
			first, _, _ := strings.Cut(stderr.String(), "\n")
			t.Logf("child died on flip %d without an out-of-memory banner: %s", last, first)
		}
		deaths++
		from = last + 1
	}

	var accepted, refused, refusedDied, refusedBig, refusedLenient, stillOK int
	var residual []string
	for i, r := range results {
		big := r.res == "died" || r.alloc > 16<<20
		switch r.verdict {
		case "R":
			refused++
			if r.res == "clean" {
				t.Errorf("guard refused flip %d (byte %d bit %d) but arrow-go reads it cleanly", i, i/8, i%8)
			}
			if r.res == "lenient" {
				refusedLenient++
			}
			if r.res == "died" {
				refusedDied++
			} else if big {
				refusedBig++
			}
		case "A":
			accepted++
			if r.res == "clean" || r.res == "lenient" {
				stillOK++
			}
			if big {
				residual = append(residual, fmt.Sprintf("byte %d bit %d (%s, %d bytes)", i/8, i%8, r.res, r.alloc))
			}
		default:
			t.Fatalf("flip %d not examined", i)
		}
	}
	t.Logf("%d flips: guard refused %d (unguarded arrow-go: %d killed the process, %d more allocated >16 MiB, none read cleanly to EOS;"+
		" %d have an intact first batch and a corrupt tail that ReadRequest used to ignore while draining)",
		nbits, refused, refusedDied, refusedBig, refusedLenient)
	t.Logf("guard accepted %d (%d still parse as a request); %d child deaths in total", accepted, stillOK, deaths)
	t.Logf("RESIDUAL (not framing — vector lengths inside the metadata flatbuffer): %d accepted flips still die/over-allocate in arrow-go: %v",
		len(residual), residual)
}
