package vgis3

import (
	"regexp"
	"sync"
	"testing"
)

var demoUUIDRe = regexp.MustCompile(`\A[0-9a-f]{8}-[0-9a-f]{4}-4[0-9a-f]{3}-[89ab][0-9a-f]{3}-[0-9a-f]{12}\z`)

func TestDemoD4KeysUnique(t *testing.T) {
	const n = 1000
	seen := make(map[string]bool, n)
	for i := 0; i < n; i++ {
		seen[generateUUID()] = true
	}
	if len(seen) != n {
		t.Errorf("sequential: %d distinct keys out of %d", len(seen), n)
	}

	var mu sync.Mutex
	var wg sync.WaitGroup
	conc := make(map[string]bool)
	for g := 0; g < 16; g++ {
		wg.Add(1)
		go func() {
			defer wg.Done()
			for i := 0; i < 500; i++ {
				k := generateUUID()
				mu.Lock()
				conc[k] = true
				mu.Unlock()
			}
		}()
	}
	wg.Wait()
	if len(conc) != 16*500 {
		t.Errorf("concurrent: %d distinct keys out of %d", len(conc), 16*500)
	}
	if k := generateUUID(); !demoUUIDRe.MatchString(k) {
		t.Errorf("key %q is not a canonical UUIDv4", k)
	}
}
