package vgirpc

import (
	"bytes"
	"context"
	"fmt"
	"net/http"
	"net/http/httptest"
	"sync/atomic"
	"testing"

	"github.com/apache/arrow-go/v18/arrow"
)

var demoC2Calls atomic.Int64

type demoC2Prod struct{ Seq int64 }

func (p *demoC2Prod) Produce(_ context.Context, out *OutputCollector, _ *CallContext) error {
	demoC2Calls.Add(1)
	p.Seq++
	return out.EmitMap(map[string][]interface{}{"value": {p.Seq}})
}

type demoC2Exch struct{ N int64 }

func (s *demoC2Exch) Exchange(_ context.Context, _ arrow.RecordBatch, out *OutputCollector, _ *CallContext) error {
	demoC2Calls.Add(1)
	s.N++
	return out.EmitMap(map[string][]interface{}{"value": {s.N}})
}

func (s *demoC2Exch) OnCancel(context.Context, *CallContext) error {
	demoC2Calls.Add(1)
	return nil
}

func demoC2Post(t *testing.T, h *HttpServer, path string, body []byte) (rec *httptest.ResponseRecorder, panicked interface{}) {
	t.Helper()
	req := httptest.NewRequest(http.MethodPost, path, bytes.NewReader(body))
	req.Header.Set("Content-Type", arrowContentType)
	rec = httptest.NewRecorder()
	func() {
		defer func() { panicked = recover() }()
		h.ServeHTTP(rec, req)
	}()
	return rec, panicked
}

// C14: a continuation token only resumes the stream method that minted it.
func TestDemoC2CrossMethodTokensRefused(t *testing.T) {
	RegisterStateType(&demoC2Prod{})
	RegisterStateType(&demoC2Exch{})

	s := NewServer()
	prod := func(context.Context, *CallContext, regressionParams) (*StreamResult, error) {
		return &StreamResult{OutputSchema: regressionSchema, State: &demoC2Prod{}}, nil
	}
	exch := func(context.Context, *CallContext, regressionParams) (*StreamResult, error) {
		return &StreamResult{OutputSchema: regressionSchema, InputSchema: regressionSchema, State: &demoC2Exch{}}, nil
	}
	Producer(s, "prodA", regressionSchema, prod)
	Producer(s, "prodB", regressionSchema, prod)
	Exchange(s, "exchA", regressionSchema, regressionSchema, exch)
	Exchange(s, "exchB", regressionSchema, regressionSchema, exch)
	DynamicStreamWithHeader(s, "dynP", arrow.NewSchema(nil, nil), prod)
	DynamicStreamWithHeader(s, "dynE", arrow.NewSchema(nil, nil), exch)
	h := NewHttpServer(s)
	h.SetProducerBatchLimit(1)
	h.InitPages()

	methods := []string{"prodA", "prodB", "exchA", "exchB", "dynP", "dynE"}
	var failures []string
	for _, from := range methods {
		for _, to := range methods {
			for _, cancel := range []bool{false, true} {
				params := regressionBatch(t, 1)
				initW, p := demoC2Post(t, h, "/"+from+"/init", regressionRequest(t, from, params))
				if p != nil || initW.Code != http.StatusOK {
					t.Fatalf("init %s: code %d panic %v body %s", from, initW.Code, p, initW.Body.String())
				}
				token, callToken := FindStreamTokens(initW.Body.Bytes())
				if token == nil || callToken == nil {
					t.Fatalf("init %s: no tokens", from)
				}
				keys := []string{MetaStreamState, MetaCallState}
				vals := []string{string(token), string(callToken)}
				if cancel {
					keys = append(keys, MetaCancel)
					vals = append(vals, "1")
				}
				body := regressionIPC(t, params, arrow.NewMetadata(keys, vals))
				params.Release()

				before := demoC2Calls.Load()
				w, p := demoC2Post(t, h, "/"+to+"/exchange", body)
				ran := demoC2Calls.Load() - before
				label := fmt.Sprintf("%s -> %s (cancel=%v)", from, to, cancel)
				if from == to {
					if p != nil || w.Code != http.StatusOK || w.Header().Get(rpcErrorHeader) != "" {
						failures = append(failures, fmt.Sprintf("%s: same-method continuation broke: code %d panic %v", label, w.Code, p))
					}
					continue
				}
				switch {
				case p != nil:
					failures = append(failures, fmt.Sprintf("%s: PANIC %v", label, p))
				case w.Code < 400 || w.Code >= 500:
					failures = append(failures, fmt.Sprintf("%s: status %d (want 4xx), state code ran %d times", label, w.Code, ran))
				case ran != 0:
					failures = append(failures, fmt.Sprintf("%s: status %d but state code ran %d times", label, w.Code, ran))
				}
			}
		}
	}
	for _, f := range failures {
		t.Error(f)
	}
}
