package vgirpc

// Demonstration for fix 98f5cb3 (property C08): a timestamp column must be
// written in the unit it declares. Before the fix both TIMESTAMP builder paths
// wrote UnixMicro() whatever the unit, while timestampToTime honours the unit,
// so a timestamp[ms] field holding 2023-11-14T22:13:20.123Z decoded as year 55840.
// Copy into /repo/vgirpc and run: go test ./vgirpc -run TestDemoC08TimestampUnit

import (
	"reflect"
	"testing"
	"time"

	"github.com/apache/arrow-go/v18/arrow"
)

type demoC08TsS struct {
	T time.Time   `arrow:"t"`
	L []time.Time `arrow:"l"`
}
type demoC08TsMs struct {
	T time.Time   `arrow:"t"`
	L []time.Time `arrow:"l"`
}
type demoC08TsNs struct {
	T time.Time   `arrow:"t"`
	L []time.Time `arrow:"l"`
}

func demoC08Schema(u arrow.TimeUnit) *arrow.Schema {
	ts := &arrow.TimestampType{Unit: u}
	return arrow.NewSchema([]arrow.Field{{Name: "t", Type: ts}, {Name: "l", Type: arrow.ListOf(ts)}}, nil)
}
func (demoC08TsS) ArrowSchema() *arrow.Schema  { return demoC08Schema(arrow.Second) }
func (demoC08TsMs) ArrowSchema() *arrow.Schema { return demoC08Schema(arrow.Millisecond) }
func (demoC08TsNs) ArrowSchema() *arrow.Schema { return demoC08Schema(arrow.Nanosecond) }

func TestDemoC08TimestampUnit(t *testing.T) {
	at := time.Unix(1700000000, 123456789).UTC() // 2023-11-14T22:13:20.123456789Z
	for _, c := range []struct {
		name string
		v    ArrowSerializable
		want time.Time // the instant floored to the declared unit
	}{
		{"s", demoC08TsS{at, []time.Time{at}}, time.Unix(1700000000, 0).UTC()},
		{"ms", demoC08TsMs{at, []time.Time{at}}, time.Unix(1700000000, 123000000).UTC()},
		{"ns", demoC08TsNs{at, []time.Time{at}}, at},
	} {
		data, err := serializeArrowSerializable(c.v)
		if err != nil {
			t.Fatalf("%s: %v", c.name, err)
		}
		rv, err := deserializeArrowSerializable(reflect.TypeOf(c.v), data)
		if err != nil {
			t.Fatalf("%s: %v", c.name, err)
		}
		got := rv.Field(0).Interface().(time.Time)
		if !got.Equal(c.want) {
			t.Errorf("timestamp[%s] column (buildArray path): wrote %v, decoded %v, want %v", c.name, at, got, c.want)
		}
		l := rv.Field(1).Interface().([]time.Time)
		if len(l) != 1 || !l[0].Equal(c.want) {
			t.Errorf("list<timestamp[%s]> column (appendToBuilder path): wrote %v, decoded %v, want %v", c.name, at, l, c.want)
		}
	}
}
