//go:build leakcheck

package vgirpc

// Demonstration for fix ae22754 (property C41, finding-emitmap-double-emit-leak):
// a batch the collector builds itself (EmitMap / EmitArrays) and Emit then
// refuses ("only one data batch may be emitted per call") must be released by
// the collector — the caller never held it. Before the fix EmitMap handed the
// second batch to Emit, Emit returned the error without taking ownership, and
// the batch's buffers stayed outstanding in the checked allocator for ever
// (5 buffers / 320 bytes per occurrence with an {int64, utf8} output schema).
// Copy into /repo/vgirpc and run:
//   go test -tags leakcheck ./vgirpc -run TestDemoC41EmitMapDoubleEmitLeak

import (
	"bytes"
	"context"
	"testing"

	"github.com/apache/arrow-go/v18/arrow"
	"github.com/apache/arrow-go/v18/arrow/array"
	"github.com/apache/arrow-go/v18/arrow/ipc"
)

var demoC41OutSchema = arrow.NewSchema([]arrow.Field{
	{Name: "v", Type: arrow.PrimitiveTypes.Int64},
	{Name: "s", Type: arrow.BinaryTypes.String},
}, nil)

type demoC41DoubleEmit struct{}

func (demoC41DoubleEmit) Produce(_ context.Context, out *OutputCollector, _ *CallContext) error {
	if err := out.EmitMap(map[string][]interface{}{"v": {int64(1)}, "s": {"a"}}); err != nil {
		return err
	}
	return out.EmitMap(map[string][]interface{}{"v": {int64(2)}, "s": {"b"}})
}

func TestDemoC41EmitMapDoubleEmitLeak(t *testing.T) {
	alloc := leakCheckAllocator()

	t.Run("collector/EmitMap", func(t *testing.T) {
		before := alloc.CurrentAlloc()
		out := newOutputCollector(demoC41OutSchema, "", true)
		if err := out.EmitMap(map[string][]interface{}{"v": {int64(1)}, "s": {"a"}}); err != nil {
			t.Fatal(err)
		}
		if err := out.EmitMap(map[string][]interface{}{"v": {int64(2)}, "s": {"b"}}); err == nil {
			t.Fatal("second EmitMap must be refused")
		}
		out.releaseBatches() // what every dispatch error path does
		if after := alloc.CurrentAlloc(); after != before {
			t.Fatalf("refused EmitMap batch leaked: outstanding %d -> %d bytes", before, after)
		}
	})

	t.Run("collector/EmitArrays", func(t *testing.T) {
		before := alloc.CurrentAlloc()
		out := newOutputCollector(regressionSchemaDemoC41, "", true)
		mk := func(v int64) arrow.Array {
			b := array.NewInt64Builder(alloc)
			defer b.Release()
			b.Append(v)
			return b.NewArray()
		}
		a1, a2 := mk(1), mk(2)
		if err := out.EmitArrays([]arrow.Array{a1}, 1); err != nil {
			t.Fatal(err)
		}
		if err := out.EmitArrays([]arrow.Array{a2}, 1); err == nil {
			t.Fatal("second EmitArrays must be refused")
		}
		a1.Release() // the caller's own references
		a2.Release()
		out.releaseBatches()
		if after := alloc.CurrentAlloc(); after != before {
			t.Fatalf("refused EmitArrays batch leaked: outstanding %d -> %d bytes", before, after)
		}
	})

	t.Run("pipe/producer", func(t *testing.T) {
		s := NewServer()
		type p struct {
			X int64 `vgirpc:"x"`
		}
		Producer(s, "twice", demoC41OutSchema, func(context.Context, *CallContext, p) (*StreamResult, error) {
			return &StreamResult{OutputSchema: demoC41OutSchema, State: demoC41DoubleEmit{}}, nil
		})
		// request + one tick
		xs := arrow.NewSchema([]arrow.Field{{Name: "x", Type: arrow.PrimitiveTypes.Int64}}, nil)
		xb := array.NewInt64Builder(demoC41UntrackedAlloc)
		xb.Append(1)
		col := xb.NewArray()
		xb.Release()
		params := array.NewRecordBatch(xs, []arrow.Array{col}, 1)
		col.Release()
		var req bytes.Buffer
		if err := WriteRequest(&req, "twice", params, ""); err != nil {
			t.Fatal(err)
		}
		params.Release()
		empty := arrow.NewSchema(nil, nil)
		w := ipc.NewWriter(&req, ipc.WithSchema(empty))
		tick := array.NewRecordBatch(empty, nil, 0)
		if err := w.Write(tick); err != nil {
			t.Fatal(err)
		}
		tick.Release()
		if err := w.Close(); err != nil {
			t.Fatal(err)
		}
		before := alloc.CurrentAlloc()
		var resp bytes.Buffer
		if err := s.serveOne(context.Background(), bytes.NewReader(req.Bytes()), &resp, &shmConnState{}); err != nil {
			t.Fatal(err)
		}
		if after := alloc.CurrentAlloc(); after != before {
			t.Fatalf("double-emit producer call leaked: outstanding %d -> %d bytes", before, after)
		}
	})
}
