// Demo for fix 846e992 ("expose Retry-After to cross-origin callers"), found by
// the C20 verification: with CORS enabled every rejection header a response
// carries must be listed in Access-Control-Expose-Headers. Fails on 846e992^,
// passes on 846e992. Drop into vgirpc/ and run:
//   go test ./vgirpc -run TestDemoRetryAfterExposedUnderCors
package vgirpc

import (
	"net/http"
	"net/http/httptest"
	"strings"
	"testing"
)

func TestDemoRetryAfterExposedUnderCors(t *testing.T) {
	h := NewHttpServer(NewServer())
	h.SetCorsOrigins("https://app.example.com")
	h.SetAuthenticate(func(*http.Request) (*AuthContext, error) {
		return nil, NewAuthUnavailable("identity provider is down")
	})

	req := httptest.NewRequest("POST", "/any_method", strings.NewReader(""))
	req.Header.Set("Content-Type", "application/vnd.apache.arrow.stream")
	req.Header.Set("Origin", "https://app.example.com")
	rec := httptest.NewRecorder()
	h.ServeHTTP(rec, req)

	if rec.Code != http.StatusServiceUnavailable {
		t.Fatalf("status = %d, want 503", rec.Code)
	}
	if rec.Header().Get("Retry-After") == "" {
		t.Fatal("503 carries no Retry-After")
	}
	exposed := false
	for _, name := range strings.Split(rec.Header().Get("Access-Control-Expose-Headers"), ",") {
		if strings.EqualFold(strings.TrimSpace(name), "Retry-After") {
			exposed = true
		}
	}
	if !exposed {
		t.Fatalf("Retry-After is on the 503 but not in Access-Control-Expose-Headers (%q): a cross-origin caller cannot read it",
			rec.Header().Get("Access-Control-Expose-Headers"))
	}
}
