package vgirpc

import (
	"strings"
	"testing"
)

func TestZZDemoA4(t *testing.T) {
	cases := []struct {
		server, client string
		admit          bool
		dir            string
	}{
		{"99999999999999999999.0.0", "99999999999999999998.0.1", false, "client is too old"},
		{"99999999999999999998.0.0", "99999999999999999999.0.1", false, "server is too old"},
		{"1.99999999999999999999.0", "1.99999999999999999998.0", false, "client is too old"},
		{"1.9223372036854775808.0", "1.9223372036854775807.0", false, "client is too old"},
		{"9223372036854775807.0.0", "9223372036854775808.0.0", false, "server is too old"},
		{"99999999999999999999.5.0", "99999999999999999999.5.77777777777777777777777", true, ""},
		{"100000000000000000000.0.0", "99999999999999999999.0.0", false, "client is too old"},
		{"2.10.0", "2.9.0", false, "client is too old"},
		{"2.9.0", "2.10.0", false, "server is too old"},
		{"10.0.0", "9.0.0", false, "client is too old"},
		{"2.1.0", "2.1.5", true, ""},
		{"0.0.0", "0.0.1", true, ""},
		{"2.1.0", "02.1.0", false, "malformed"},
		{"2.1.0", "2.1", false, "malformed"},
		{"2.1.0", "2.1.0-rc1", false, "malformed"},
		{"2.1.0", " 2.1.0", false, "malformed"},
		{"2.1.0", "2.1.0\n", false, "malformed"},
	}
	for _, c := range cases {
		s := NewServer()
		s.SetProtocolVersion(c.server)
		err := s.checkProtocolVersion(c.client, true)
		if c.admit {
			if err != nil {
				t.Errorf("server %s client %s: refused: %v", c.server, c.client, err)
			}
			continue
		}
		if err == nil {
			t.Errorf("server %s client %s: admitted, want refusal (%s)", c.server, c.client, c.dir)
			continue
		}
		if !strings.Contains(err.Message, c.dir) {
			t.Errorf("server %s client %s: message %q lacks %q", c.server, c.client, err.Message, c.dir)
		}
	}
}
