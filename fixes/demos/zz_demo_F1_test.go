package vgirpc

// Demo for defect F1: untrusted IPC bytes reach arrow-go's ipc.NewReader, which
// allocates the DECLARED metadata/body length before reading it.

import (
	"bytes"
	"context"
	"errors"
	"fmt"
	"net/http"
	"net/http/httptest"
	"os"
	"os/exec"
	"reflect"
	"runtime"
	"strings"
	"sync/atomic"
	"syscall"
	"testing"
	"time"

	"github.com/apache/arrow-go/v18/arrow"
	"github.com/apache/arrow-go/v18/arrow/array"
	"github.com/apache/arrow-go/v18/arrow/memory"
)

type f1Params struct {
	X int64 `vgirpc:"x"`
}

type f1Exch struct{}

func (f1Exch) Exchange(_ context.Context, in arrow.RecordBatch, out *OutputCollector, _ *CallContext) error {
	return out.Emit(in)
}

type f1Prod struct{ done bool }

func (p *f1Prod) Produce(_ context.Context, out *OutputCollector, _ *CallContext) error {
	return out.Finish()
}

type f1Uploader struct{}

func (f1Uploader) GenerateUploadURL(*arrow.Schema) (UploadURL, error) {
	return UploadURL{UploadURL: "https://u.example/put", DownloadURL: "https://u.example/get", ExpiresAt: time.Now().Add(time.Hour)}, nil
}

type f1Ser struct {
	A int64 `arrow:"a"`
}

func (f1Ser) ArrowSchema() *arrow.Schema {
	return arrow.NewSchema([]arrow.Field{{Name: "a", Type: arrow.PrimitiveTypes.Int64}}, nil)
}

var f1XSchema = arrow.NewSchema([]arrow.Field{{Name: "x", Type: arrow.PrimitiveTypes.Int64}}, nil)

func f1XBatch(v int64) arrow.RecordBatch {
	b := array.NewInt64Builder(memory.DefaultAllocator)
	defer b.Release()
	b.Append(v)
	arr := b.NewArray()
	defer arr.Release()
	return array.NewRecordBatch(f1XSchema, []arrow.Array{arr}, 1)
}

// f1ValidRequest is the 463-byte WriteRequest("m", {x:int64=7}, "1.2.3") body.
func f1ValidRequest(t testing.TB) []byte {
	batch := f1XBatch(7)
	defer batch.Release()
	var buf bytes.Buffer
	if err := WriteRequest(&buf, "m", batch, "1.2.3"); err != nil {
		t.Fatal(err)
	}
	return buf.Bytes()
}

// f1Flipped is the valid request with bit 7 of byte 173 flipped: the
// flatbuffer Message.bodyLength of the record-batch message becomes ~2^47.
func f1Flipped(t testing.TB) []byte {
	body := bytes.Clone(f1ValidRequest(t))
	// (464 bytes with this arrow-go build; byte 173 is byte 5 of bodyLength.)
	body[173] ^= 0x80
	return body
}

type f1Entry struct {
	name string
	// run feeds body to the entry point and reports whether it was rejected
	// the way that entry point reports an unreadable body.
	run func(body []byte) (rejected bool, detail string)
}

func f1Entries(t testing.TB) (entries []f1Entry, cleanup func()) {
	srv := NewServer()
	Unary(srv, "m", func(_ context.Context, _ *CallContext, p f1Params) (int64, error) { return p.X, nil })
	Producer(srv, "p", f1XSchema, func(context.Context, *CallContext, f1Params) (*StreamResult, error) {
		return &StreamResult{OutputSchema: f1XSchema, State: &f1Prod{}}, nil
	})
	Exchange(srv, "e", f1XSchema, f1XSchema, func(context.Context, *CallContext, f1Params) (*StreamResult, error) {
		return &StreamResult{OutputSchema: f1XSchema, State: f1Exch{}}, nil
	})
	hs := NewHttpServer(srv)
	hs.SetUploadURLProvider(f1Uploader{})

	post := func(path string) func([]byte) (bool, string) {
		return func(body []byte) (bool, string) {
			req := httptest.NewRequest(http.MethodPost, path, bytes.NewReader(body))
			req.Header.Set("Content-Type", arrowContentType)
			rec := httptest.NewRecorder()
			hs.ServeHTTP(rec, req)
			return rec.Code == http.StatusBadRequest, fmt.Sprintf("status %d", rec.Code)
		}
	}
	entries = append(entries,
		f1Entry{"http unary", post("/m")},
		f1Entry{"http stream init", post("/p/init")},
		f1Entry{"http stream exchange", post("/e/exchange")},
		f1Entry{"http describe", post("/__describe__")},
		f1Entry{"http upload_url", post("/__upload_url__/init")},
		f1Entry{"FindStreamTokens", func(b []byte) (bool, string) {
			s, c := FindStreamTokens(b)
			return s == nil && c == nil, fmt.Sprintf("%q %q", s, c)
		}},
		f1Entry{"FindStateToken", func(b []byte) (bool, string) { s := FindStateToken(b); return s == nil, string(s) }},
		f1Entry{"FindCallStateToken", func(b []byte) (bool, string) { s := FindCallStateToken(b); return s == nil, string(s) }},
		f1Entry{"FindProtocolVersion", func(b []byte) (bool, string) { s := FindProtocolVersion(b); return s == "", s }},
		f1Entry{"ReadUnaryResult", func(b []byte) (bool, string) { _, _, ok := ReadUnaryResult(b); return !ok, "" }},
	)

	// HTTP client: a fake server answers with whatever body is current.
	var current atomic.Pointer[[]byte]
	fake := httptest.NewServer(http.HandlerFunc(func(w http.ResponseWriter, _ *http.Request) {
		w.Header().Set("Content-Type", arrowContentType)
		_, _ = w.Write(*current.Load())
	}))
	client, err := NewHttpClient(fake.URL)
	if err != nil {
		t.Fatal(err)
	}
	params := emptyBatch(arrow.NewSchema(nil, nil))
	isProto := func(err error) (bool, string) {
		var re *RpcError
		if err == nil {
			return false, "nil error"
		}
		return errors.As(err, &re) && re.Type == "ProtocolError", err.Error()
	}
	// warm the connection with a readable response so transport set-up is not measured.
	valid := f1ValidRequest(t)
	current.Store(&valid)
	if cb, err := client.CallUnary(context.Background(), "m", params, nil); err == nil {
		cb.Release()
	}
	entries = append(entries,
		f1Entry{"client CallUnary", func(b []byte) (bool, string) {
			current.Store(&b)
			cb, err := client.CallUnary(context.Background(), "m", params, nil)
			if err == nil {
				cb.Release()
			}
			return isProto(err)
		}},
		f1Entry{"client OpenProducer", func(b []byte) (bool, string) {
			current.Store(&b)
			st, err := client.OpenProducer(context.Background(), "p", params, ClientStreamSchema{Output: f1XSchema})
			if err == nil {
				st.Close()
			}
			return isProto(err)
		}},
	)

	// Nested payloads.
	wrapSchema := arrow.NewSchema([]arrow.Field{{Name: "request", Type: arrow.BinaryTypes.Binary}}, nil)
	serSchema := arrow.NewSchema([]arrow.Field{{Name: "s", Type: arrow.BinaryTypes.Binary}}, nil)
	binBatch := func(schema *arrow.Schema, b []byte) arrow.RecordBatch {
		bb := array.NewBinaryBuilder(memory.DefaultAllocator, arrow.BinaryTypes.Binary)
		defer bb.Release()
		bb.Append(b)
		arr := bb.NewArray()
		defer arr.Release()
		return array.NewRecordBatch(schema, []arrow.Array{arr}, 1)
	}
	_ = serSchema
	entries = append(entries,
		f1Entry{"deserializeParams wrapped request", func(b []byte) (bool, string) {
			batch := binBatch(wrapSchema, b)
			defer batch.Release()
			_, err := deserializeParams(batch, reflect.TypeOf(f1Params{}))
			return err != nil, fmt.Sprint(err)
		}},
		f1Entry{"deserializeArrowSerializable", func(b []byte) (bool, string) {
			_, err := deserializeArrowSerializable(reflect.TypeOf(f1Ser{}), b)
			return err != nil, fmt.Sprint(err)
		}},
		f1Entry{"shm readIPCStream", func(b []byte) (bool, string) {
			rb, err := readIPCStream(b)
			if err == nil {
				rb.Release()
			}
			return err != nil, fmt.Sprint(err)
		}},
	)

	// External fetch.
	ext := httptest.NewTLSServer(http.HandlerFunc(func(w http.ResponseWriter, _ *http.Request) {
		_, _ = w.Write(*current.Load())
	}))
	cfg := &ExternalLocationConfig{URLValidator: nil, HTTPClient: ext.Client()}
	resolve := func(b []byte) (bool, string) {
		current.Store(&b)
		ptr, meta := MakeExternalLocationBatch(f1XSchema, ext.URL+"/x")
		defer ptr.Release()
		res, _, err := ResolveExternalLocation(ptr, meta, cfg)
		if err == nil {
			res.Release()
		}
		return err != nil, fmt.Sprint(err)
	}
	{ // warm TLS
		var buf bytes.Buffer
		wb := f1XBatch(1)
		_ = WriteRequest(&buf, "m", wb, "")
		wb.Release()
		if rej, d := resolve(buf.Bytes()); rej {
			t.Fatalf("external warm-up fetch failed: %s", d)
		}
	}
	entries = append(entries, f1Entry{"ResolveExternalLocation", resolve})

	return entries, func() {
		params.Release()
		client.Close()
		fake.Close()
		ext.Close()
	}
}

// The 4-byte body and plain ASCII text must be refused without allocating the
// length they "declare".
func TestF1_SmallMalformedBodiesRejectedCheaply(t *testing.T) {
	entries, cleanup := f1Entries(t)
	defer cleanup()
	bodies := map[string][]byte{
		"00000070": {0x00, 0x00, 0x00, 0x70},
		"ascii":    []byte("this is not arrow ipc"),
	}
	for bname, body := range bodies {
		for _, e := range entries {
			t.Run(bname+"/"+e.name, func(t *testing.T) {
				var before, after runtime.MemStats
				runtime.ReadMemStats(&before)
				start := time.Now()
				rejected, detail := e.run(body)
				elapsed := time.Since(start)
				runtime.ReadMemStats(&after)
				alloc := after.TotalAlloc - before.TotalAlloc
				if !rejected {
					t.Errorf("not rejected: %s", detail)
				}
				if alloc >= 1<<20 {
					t.Errorf("allocated %d bytes for a %d-byte body", alloc, len(body))
				}
				if elapsed >= 100*time.Millisecond {
					t.Errorf("took %v", elapsed)
				}
			})
		}
	}
}

// One flipped bit in bodyLength must produce an error, not kill the process.
// Runs in a child with RLIMIT_DATA so this test run survives on unfixed code.
func TestF1_FlippedBodyLengthDoesNotKillProcess(t *testing.T) {
	if os.Getenv("ZZ_F1_CHILD") == "1" {
		var lim syscall.Rlimit
		lim.Cur, lim.Max = 2<<30, 2<<30
		_ = syscall.Setrlimit(syscall.RLIMIT_DATA, &lim)
		entries, cleanup := f1Entries(t)
		defer cleanup()
		body := f1Flipped(t)
		for _, e := range entries {
			fmt.Printf("ENTRY %s\n", e.name)
			rejected, detail := e.run(body)
			if !rejected {
				t.Errorf("%s: not rejected: %s", e.name, detail)
			}
		}
		fmt.Println("CHILD-DONE")
		return
	}
	cmd := exec.Command(os.Args[0], "-test.run", "^TestF1_FlippedBodyLengthDoesNotKillProcess$", "-test.v")
	cmd.Env = append(os.Environ(), "ZZ_F1_CHILD=1")
	out, err := cmd.CombinedOutput()
	s := string(out)
	if err != nil || !strings.Contains(s, "CHILD-DONE") {
		if i := strings.Index(s, "fatal error"); i >= 0 {
			end := i + 200
			if end > len(s) {
				end = len(s)
			}
			last := s[:i]
			if j := strings.LastIndex(last, "ENTRY "); j >= 0 {
				last = last[j:]
			}
			t.Fatalf("child process died: %v\nlast: %s\n%s", err, strings.TrimSpace(last), s[i:end])
		}
		t.Fatalf("child failed: %v\n%s", err, s)
	}
}
