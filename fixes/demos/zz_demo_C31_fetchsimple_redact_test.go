// Demo for fix 75e15f4 ("apply the external fetch caps to gzip responses and
// redact URLs in fetchSimple errors"), found by the C31 verification:
// fetchSimple (the plain-GET fall back of FetchWithParallelRangeRequests)
// reported `GET <raw url>: status N` and handed back the client's url.Error
// unchanged, so user name, password and query string of the URL showed up in
// error text. Fails on 75e15f4^, passes on 75e15f4. Drop into vgirpc/ and run:
//   go test ./vgirpc -run TestDemoFetchSimpleErrorsAreRedacted
package vgirpc

import (
	"net"
	"net/http"
	"net/http/httptest"
	"strings"
	"testing"
)

func TestDemoFetchSimpleErrorsAreRedacted(t *testing.T) {
	srv := httptest.NewServer(http.HandlerFunc(func(w http.ResponseWriter, r *http.Request) {
		w.WriteHeader(http.StatusNotFound)
	}))
	defer srv.Close()
	// a port nobody listens on, for the transport-error path
	l, err := net.Listen("tcp", "127.0.0.1:0")
	if err != nil {
		t.Fatal(err)
	}
	dead := l.Addr().String()
	l.Close()

	secrets := []string{"alice-user", "hunter2-pass", "tok=s3cr3t-query"}
	for name, host := range map[string]string{"status": srv.Listener.Addr().String(), "transport": dead} {
		raw := "http://alice-user:hunter2-pass@" + host + "/data/x?tok=s3cr3t-query"
		// through the exported entry point: HEAD fails or answers 404 without Accept-Ranges -> fetchSimple
		_, err := FetchWithParallelRangeRequests(srv.Client(), raw, DefaultFetchConfig())
		if err == nil {
			t.Fatalf("%s: expected an error", name)
		}
		for _, s := range secrets {
			if strings.Contains(err.Error(), s) {
				t.Errorf("%s: error text contains %q: %s", name, s, err)
			}
		}
		if !strings.Contains(err.Error(), "http://"+host+"/data/x") {
			t.Errorf("%s: error text does not name the redacted URL: %s", name, err)
		}
	}
}
