package vgirpc

import (
	"bytes"
	"net/http"
	"net/http/httptest"
	"testing"
	"time"

	"github.com/apache/arrow-go/v18/arrow"
	"github.com/apache/arrow-go/v18/arrow/array"
	"github.com/apache/arrow-go/v18/arrow/memory"
)

type demoCountingProvider struct{ n int }

func (p *demoCountingProvider) GenerateUploadURL(*arrow.Schema) (UploadURL, error) {
	p.n++
	return UploadURL{UploadURL: "https://up/x", DownloadURL: "https://down/x", ExpiresAt: time.Now().Add(time.Hour)}, nil
}

func demoUploadURLBody(t *testing.T) []byte {
	t.Helper()
	b := array.NewInt64Builder(memory.NewGoAllocator())
	defer b.Release()
	b.Append(3)
	arr := b.NewArray()
	defer arr.Release()
	batch := array.NewRecordBatch(UploadURLParamsSchema, []arrow.Array{arr}, 1)
	defer batch.Release()
	var buf bytes.Buffer
	if err := WriteRequest(&buf, UploadURLMethod, batch, ""); err != nil {
		t.Fatal(err)
	}
	return buf.Bytes()
}

func TestDemoD1UploadURLBehindAuthenticator(t *testing.T) {
	cases := []struct {
		name string
		err  error
		want int
	}{
		{"AuthFailure", &AuthFailure{Reason: AuthReasonInvalidCredential, Detail: "nope"}, http.StatusUnauthorized},
		{"ValueError", &RpcError{Type: "ValueError", Message: "nope"}, http.StatusUnauthorized},
		{"Unavailable", &AuthUnavailableError{}, http.StatusServiceUnavailable},
		{"Other", &RpcError{Type: "RuntimeError", Message: "boom"}, http.StatusInternalServerError},
	}
	for _, tc := range cases {
		t.Run(tc.name, func(t *testing.T) {
			h := NewHttpServer(NewServer())
			p := &demoCountingProvider{}
			h.SetUploadURLProvider(p)
			h.SetAuthenticate(func(r *http.Request) (*AuthContext, error) { return nil, tc.err })
			h.InitPages()

			req := httptest.NewRequest("POST", "/__upload_url__/init", bytes.NewReader(demoUploadURLBody(t)))
			req.Header.Set("Content-Type", arrowContentType)
			w := httptest.NewRecorder()
			h.ServeHTTP(w, req)
			if w.Code != tc.want {
				t.Errorf("status = %d, want %d", w.Code, tc.want)
			}
			if p.n != 0 {
				t.Errorf("provider ran %d times behind a rejecting authenticator", p.n)
			}
		})
	}

	// Accepted request still works.
	h := NewHttpServer(NewServer())
	p := &demoCountingProvider{}
	h.SetUploadURLProvider(p)
	h.SetAuthenticate(func(r *http.Request) (*AuthContext, error) {
		return &AuthContext{Authenticated: true, Principal: "a"}, nil
	})
	h.InitPages()
	req := httptest.NewRequest("POST", "/__upload_url__/init", bytes.NewReader(demoUploadURLBody(t)))
	req.Header.Set("Content-Type", arrowContentType)
	w := httptest.NewRecorder()
	h.ServeHTTP(w, req)
	if w.Code != 200 || p.n != 3 {
		t.Errorf("accepted: status=%d n=%d", w.Code, p.n)
	}
}
