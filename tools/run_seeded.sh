#!/bin/sh
# run_seeded.sh <seed-dir-name> [extra check ids...] — apply /verif/seeded/<name>/patch.diff to /repo, run the
# check of the property it breaks (plus any extra ids), record the verdicts in /verif/seeded/<name>/result.json,
# and undo the patch straight afterwards. Run serially; nothing else may be using /repo meanwhile.
set -u
name="$1"; shift
d="/verif/seeded/$name"
prop=$(python3 -c "import json;print(json.load(open('$d/meta.json'))['property'])")
cd /repo || exit 2
if [ -n "$(git status --porcelain --untracked-files=no)" ]; then echo "/repo has local modifications; refusing"; exit 2; fi
git apply --check "$d/patch.diff" || { echo "patch does not apply to current /repo"; exit 3; }
git apply "$d/patch.diff"
res="{"
for id in $prop "$@"; do
  cd /verif && ./check $id > /verif/.build/seeded_${name}_$id.log 2>&1; rc=$?
  line=$(grep -E "^VIOLATION" /verif/.build/seeded_${name}_$id.log | head -1)
  sum=$(grep -E "tier=" /verif/.build/seeded_${name}_$id.log | tail -1)
  [ -f /verif/replays/$id.json ] && [ $rc -ne 0 ] && cp /verif/replays/$id.json "$d/replay_$id.json"
  res="$res\"$id\": {\"exit\": $rc, \"violation_line\": \"$(echo $line | sed 's/"/\\"/g')\", \"summary\": \"$(echo $sum | sed 's/"/\\"/g')\"},"
  echo "$name -> $id: exit $rc  $line"
done
git -C /repo checkout -- .
res="${res%,}}"
echo "$res" > "$d/result.json"
# restore evidence of the unchanged tree for the touched properties is the caller's job (re-run ./check)
