import sys,subprocess,re,os
# usage: dbg.py file line  -> insert "Show." before given line & compile up to there
f,ln=sys.argv[1],int(sys.argv[2])
L=open(f).read().split('\n')
out=L[:ln-1]+['Show. Abort.']
open('/tmp/dbg_tmp_%d.v'%os.getpid(),'w').write('\n'.join(out)+'\n')
r=subprocess.run(['coqc','-Q','.','VR','/tmp/dbg_tmp_%d.v'%os.getpid()],capture_output=True,text=True)
print((r.stdout+r.stderr)[-3000:])
