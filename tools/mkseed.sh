#!/bin/sh
# mkseed.sh <Cxx> — scratch worktree for a seeded-mutation agent (outside /repo and /verif)
set -e
id="$1"; d="/tmp/seed_$id"; mkdir -p "$d"
[ -d "$d/repo" ] || git -C /repo worktree add -q --detach "$d/repo" HEAD
echo "$d/repo at $(git -C $d/repo rev-parse --short HEAD)"
