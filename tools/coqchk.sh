#!/bin/sh
# coqchk.sh — independent re-check of the compiled development (every Props/*.vo and its closure)
# with coqchk; prints the axioms the checked closure relies on. Run after a successful ./check setup / make;
# nothing else may rebuild coq/ meanwhile. Result goes to /verif/evidence/coqchk.txt.
cd /verif/coq || exit 2
mods=$(ls Props/*.vo | sed 's#Props/\(.*\)\.vo#VR.Props.\1#')
out=/verif/evidence/coqchk.txt
{ echo "coqchk -silent -o -Q . VR <all VR.Props.*>  ($(coqchk --version 2>&1 | head -1))"; echo "started $(date -u +%FT%TZ)"; } > $out
/usr/bin/time -v timeout 7200 coqchk -silent -o -Q . VR $mods >> $out 2>&1
rc=$?
echo "exit=$rc finished $(date -u +%FT%TZ)" >> $out
tail -30 $out
exit $rc
