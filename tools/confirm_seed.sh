#!/bin/bash
# confirm_seed.sh <seed-dir-name> — independently confirm a seeded change in a scratch worktree of /repo's main:
# applies, builds, vets, the existing suite passes with it, the demo fails with it and passes without it.
# Appends the verdict to /verif/seeded/<name>/confirm.json and removes the worktree.
name="$1"; d="/verif/seeded/$name"; w="/tmp/confirm_$name"
export GOFLAGS=-mod=mod GOPROXY=off
rm -rf "$w"; git -C /repo worktree prune; git -C /repo worktree add -q --detach "$w" HEAD || exit 2
cd "$w"
res() { python3 - "$@" <<'PY'
import json,sys
d,base=sys.argv[1],sys.argv[2]; kv=dict(a.split('=',1) for a in sys.argv[3:])
kv['base']=base
json.dump(kv,open(d+'/confirm.json','w'),indent=1)
print(kv)
PY
}
base=$(git rev-parse --short HEAD)
applies=no; builds=no; suite=no; demo_with=unknown; demo_without=unknown
if git apply --check "$d/patch.diff" 2>/dev/null; then applies=yes; git apply "$d/patch.diff"; else res "$d" "$base" applies=no; cd /; git -C /repo worktree remove --force "$w"; exit 1; fi
demo=$(ls $d/*_test.go | head -1); pkgdir=vgirpc
grep -qE "^package (s3|vgis3)" "$demo" && pkgdir=vgirpc/s3; grep -qE "^package (gcs|vgigcs)" "$demo" && pkgdir=vgirpc/gcs; grep -qE "^package (otel|vgiotel)" "$demo" && pkgdir=vgirpc/otel
tags=""; head -5 "$demo" | grep -q "go:build leakcheck" && tags="-tags leakcheck"
(go build ./... && go vet ./vgirpc/) >/tmp/confirm_$name.log 2>&1 && builds=yes
(cd $w && go test -count=1 ./vgirpc/... >>/tmp/confirm_$name.log 2>&1) && suite=yes
# sub-packages with their own go.mod are not covered by the root module's ./...: build, vet and test them too
if [ "$pkgdir" != vgirpc ]; then (cd $w/$pkgdir && go build ./... && go vet . && go test -count=1 ./... >>/tmp/confirm_$name.log 2>&1) || { builds=no; suite=no; }; fi
cp "$demo" "$w/$pkgdir/zz_seed_demo_test.go"
runre=$(grep -oE "^func (Test[A-Za-z0-9_]+)" "$demo" | awk '{print $2}' | paste -sd'|')
(cd $w/$pkgdir && go test $tags -count=1 -run "^($runre)\$" . >>/tmp/confirm_$name.log 2>&1) && demo_with=pass || demo_with=fail
git apply -R "$d/patch.diff"
(cd $w/$pkgdir && go test $tags -count=1 -run "^($runre)\$" . >>/tmp/confirm_$name.log 2>&1) && demo_without=pass || demo_without=fail
res "$d" "$base" applies=$applies builds_and_vets=$builds existing_suite_passes_with_patch=$suite demo_with_patch=$demo_with demo_without_patch=$demo_without
cd /; git -C /repo worktree remove --force "$w"; rm -f /tmp/confirm_$name.log
