#!/bin/sh
# commit_integration.sh "<ids>" — commit new verif hook files in /repo, refresh hooks.json + MANIFEST, commit /verif, drop scratch dirs.
set -e
ids="$1"
cd /repo
if [ -n "$(git status --porcelain | grep '^??' | grep verif)" ]; then
  git add $(git status --porcelain | grep '^??' | awk '{print $2}' | grep verif)
  git commit -qm "verif: hooks for $ids (build tag verif)"
fi
cd /verif
python3 - <<'PY'
import json,subprocess
log=subprocess.run(['git','-C','/repo','log','--format=%h %s','6bdd940..HEAD'],capture_output=True,text=True).stdout.strip().split('\n')
json.dump({"source_commits":[l.split()[0] for l in log if ' verif:' in l]},open('/verif/props/hooks.json','w'))
PY
./check manifest
git add -A && git commit -qm "integrate $ids" && echo committed
for id in $ids; do
  if [ -d /tmp/bld_$id ]; then git -C /repo worktree remove --force /tmp/bld_$id/repo 2>/dev/null || true; rm -rf /tmp/bld_$id; fi
done
