#!/bin/sh
# mkscratch.sh <name> — private scratch copy of /verif plus a git worktree of /repo
# under /tmp/bld_<name>, so a builder can develop one property in isolation.
set -e
n="$1"; d="/tmp/bld_$n"
[ -n "$n" ] || { echo "usage: mkscratch.sh <name>"; exit 2; }
rm -rf "$d/verif"; mkdir -p "$d"
if [ ! -d "$d/repo" ]; then git -C /repo worktree add -q --detach "$d/repo" HEAD; fi
rsync -a --exclude .git --exclude .build --exclude replays --exclude '*.vo' --exclude '*.vok' --exclude '*.vos' --exclude '*.glob' --exclude '.*.aux' --exclude 'coq/Makefile*' --exclude 'coq/.Makefile.d' /verif/ "$d/verif/"
sed -i "s#=> /repo#=> $d/repo#g" "$d/verif/harness/go.mod"
echo "scratch ready: $d/verif (check driver) and $d/repo (worktree at $(git -C $d/repo rev-parse --short HEAD))"
