#!/bin/sh
# integrate.sh <Cxx> [scratchname] — copy a builder's deliverables from /tmp/bld_<name> into /verif and /repo.
# Copies: coq/{Model,Proofs,Props}/<Cxx>*.v, harness/cmd/vh/<cxx>*.go, props/<Cxx>.json, corpus/<Cxx>.jsonl,
# new untracked verif hook files in the scratch repo. Reports (does not copy) any other changed file.
set -e
id="$1"; name="${2:-$1}"; d="/tmp/bld_$name"; lc=$(echo "$id" | tr 'A-Z' 'a-z')
[ -d "$d/verif" ] || { echo "no $d/verif"; exit 2; }
for sub in Model Proofs Props; do
  for f in "$d/verif/coq/$sub/$id"*.v; do [ -e "$f" ] && cp -v "$f" "/verif/coq/$sub/"; done
done
for f in "$d/verif/harness/cmd/vh/$lc"*.go; do [ -e "$f" ] && cp -v "$f" /verif/harness/cmd/vh/; done
[ -e "$d/verif/props/$id.json" ] && cp -v "$d/verif/props/$id.json" /verif/props/
[ -e "$d/verif/corpus/$id.jsonl" ] && cp -v "$d/verif/corpus/$id.jsonl" /verif/corpus/
# hook files: untracked files in the scratch repo
( cd "$d/repo" && git status --porcelain | grep '^??' | awk '{print $2}' ) | while read f; do
  case "$f" in *verif*) mkdir -p "/repo/$(dirname $f)"; cp -v "$d/repo/$f" "/repo/$f";; *) echo "UNTRACKED (not copied): $f";; esac
done
( cd "$d/repo" && git status --porcelain | grep -v '^??' ) | sed 's/^/REPO MODIFIED (not copied): /'
echo "--- other differences between scratch verif and /verif (not copied):"
diff -rq --exclude=.build --exclude=.git --exclude=replays --exclude=evidence --exclude='*.vo*' --exclude='*.glob' --exclude='.*.aux' --exclude='Makefile*' --exclude='.Makefile.d' --exclude=_CoqProject --exclude='.lia.cache' --exclude=go.mod --exclude=MANIFEST.json "$d/verif" /verif | grep -v "/$id\|/$lc" | head -40 || true
