package main

// C33 — storage backends never reuse an object key.
//
// The real S3Storage.Upload / GCSStorage.Upload run against an in-process fake
// object store (one httptest server: S3 path-style PUT /bucket/key and the GCS
// JSON multipart upload POST /upload/storage/v1/b/bucket/o) that records every
// object key and body in arrival order.
//
//   sched  the random source is scripted: the 16 bytes each key is built from come
//          from the input (crypto/rand.Reader is replaced, google/uuid gets SetRand;
//          only reads whose caller is the storage package are scripted, everything
//          else - SDK invocation ids, multipart boundaries - reads the OS source).
//          A schedule (list of thread ids) is forced from outside: a Draw step lets
//          one goroutine start its Upload and run until its PUT is parked inside the
//          fake store, a Put step releases that PUT.  obs = ordered (tid, key) list
//          + number of payloads no longer in the store.
//   conc   same scripted source, G goroutines x M uploads free-running; obs = sorted
//          key list (the model does not know which goroutine got which draw).
//   real   OS randomness: sequential, 16 goroutines, several processes (re-exec of
//          vh), and direct calls of generateUUID; obs = uploads, distinct keys,
//          shape verdict (regexp), lost payloads, a small sample of keys.

import (
	"bytes"
	crand "crypto/rand"
	"encoding/hex"
	"encoding/json"
	"fmt"
	"io"
	"math/rand"
	"mime"
	"mime/multipart"
	"net/http"
	"net/http/httptest"
	"os"
	"os/exec"
	"regexp"
	"runtime"
	"sort"
	"strings"
	"sync"
	"time"

	vgigcs "github.com/Query-farm/vgi-rpc-go/vgirpc/gcs"
	vgis3 "github.com/Query-farm/vgi-rpc-go/vgirpc/s3"
	"github.com/apache/arrow-go/v18/arrow"
	"github.com/google/uuid"
)

type c33In struct {
	Kind    string     `json:"kind"`    // sched | conc | real
	Backend string     `json:"backend"` // s3 | gcs | s3gen
	Prefix  string     `json:"prefix"`
	Progs   [][]string `json:"progs,omitempty"`  // sched: per thread, content encodings of its uploads
	Stream  []string   `json:"stream,omitempty"` // hex, 16 bytes each: what the random source hands out
	Sched   []int      `json:"sched,omitempty"`
	Enc     string     `json:"enc,omitempty"`
	G       int        `json:"g,omitempty"`
	M       int        `json:"m,omitempty"`
	P       int        `json:"p,omitempty"`
	Mode    string     `json:"mode,omitempty"` // real: seq | go | proc | gen
}

// ---- scripted random source ------------------------------------------------

type c33Rand struct {
	mu     sync.Mutex
	queue  [][]byte
	served int
	orig   io.Reader
}

const c33PkgS3 = "github.com/Query-farm/vgi-rpc-go/vgirpc/s3."
const c33PkgGCS = "github.com/Query-farm/vgi-rpc-go/vgirpc/gcs."

// c33IsKeyDraw reports whether the innermost caller outside io / crypto/rand /
// google/uuid / this reader is the storage package, i.e. the read feeds an object key.
func c33IsKeyDraw() bool {
	pcs := make([]uintptr, 24)
	n := runtime.Callers(2, pcs)
	fr := runtime.CallersFrames(pcs[:n])
	for {
		f, more := fr.Next()
		fn := f.Function
		switch {
		case strings.HasPrefix(fn, "io."), strings.HasPrefix(fn, "crypto/rand."), strings.HasPrefix(fn, "crypto/internal/"),
			strings.HasPrefix(fn, "github.com/google/uuid."), strings.HasPrefix(fn, "main.(*c33Rand)"):
		default:
			return strings.HasPrefix(fn, c33PkgS3) || strings.HasPrefix(fn, c33PkgGCS)
		}
		if !more {
			return false
		}
	}
}

func (r *c33Rand) Read(p []byte) (int, error) {
	if c33IsKeyDraw() {
		r.mu.Lock()
		if len(r.queue) > 0 && len(r.queue[0]) == len(p) {
			copy(p, r.queue[0])
			r.queue = r.queue[1:]
			r.served++
			r.mu.Unlock()
			return len(p), nil
		}
		r.mu.Unlock()
	}
	return r.orig.Read(p)
}

func (r *c33Rand) load(q [][]byte) {
	r.mu.Lock()
	r.queue, r.served = q, 0
	r.mu.Unlock()
}

// unload empties the queue and returns how many scripted values were consumed.
func (r *c33Rand) unload() int {
	r.mu.Lock()
	defer r.mu.Unlock()
	r.queue = nil
	return r.served
}

// ---- fake object store ------------------------------------------------------

type c33Put struct {
	Key  string
	Body string
}

type c33Arrival struct {
	put     c33Put
	release chan bool // true: store and answer 200; false: answer 403 without storing
}

type c33Bucket struct {
	mu     sync.Mutex
	puts   []c33Put
	arrive chan *c33Arrival // non-nil: every PUT parks here until released
}

type c33Env struct {
	mu      sync.Mutex
	buckets map[string]*c33Bucket
	srv     *httptest.Server
	rnd     *c33Rand
	seq     int
}

var (
	c33Once   sync.Once
	c33E      *c33Env
	c33KeyRe  = regexp.MustCompile(`^[0-9a-f]{8}-[0-9a-f]{4}-4[0-9a-f]{3}-[89ab][0-9a-f]{3}-[0-9a-f]{12}$`)
	c33NoData *arrow.Schema
)

func (e *c33Env) bucket(name string) *c33Bucket {
	e.mu.Lock()
	defer e.mu.Unlock()
	return e.buckets[name]
}

func (e *c33Env) newBucket(gated bool) (string, *c33Bucket) {
	e.mu.Lock()
	defer e.mu.Unlock()
	e.seq++
	name := fmt.Sprintf("c33b%d", e.seq)
	b := &c33Bucket{}
	if gated {
		b.arrive = make(chan *c33Arrival, 64)
	}
	e.buckets[name] = b
	return name, b
}

func (e *c33Env) dropBucket(name string) {
	e.mu.Lock()
	delete(e.buckets, name)
	e.mu.Unlock()
}

func (e *c33Env) serve(w http.ResponseWriter, r *http.Request) {
	body, _ := io.ReadAll(r.Body)
	var bname, key, data string
	gcs := false
	switch {
	case r.Method == http.MethodPut: // S3 path style: /bucket/key...
		p := strings.TrimPrefix(r.URL.Path, "/")
		i := strings.IndexByte(p, '/')
		if i < 0 {
			http.Error(w, "no key", 400)
			return
		}
		bname, key, data = p[:i], p[i+1:], string(body)
	case r.Method == http.MethodPost && strings.HasPrefix(r.URL.Path, "/upload/storage/v1/b/"):
		gcs = true
		bname = strings.TrimSuffix(strings.TrimPrefix(r.URL.Path, "/upload/storage/v1/b/"), "/o")
		_, params, err := mime.ParseMediaType(r.Header.Get("Content-Type"))
		if err != nil {
			http.Error(w, "bad content type", 400)
			return
		}
		mr := multipart.NewReader(bytes.NewReader(body), params["boundary"])
		p1, err := mr.NextPart()
		if err != nil {
			http.Error(w, "no metadata part", 400)
			return
		}
		var meta struct {
			Name string `json:"name"`
		}
		mb, _ := io.ReadAll(p1)
		json.Unmarshal(mb, &meta)
		p2, err := mr.NextPart()
		if err != nil {
			http.Error(w, "no media part", 400)
			return
		}
		db, _ := io.ReadAll(p2)
		key, data = meta.Name, string(db)
	default:
		http.Error(w, "unsupported", 400)
		return
	}
	b := e.bucket(bname)
	if b == nil {
		http.Error(w, "no such bucket", 404)
		return
	}
	put := c33Put{Key: key, Body: data}
	if b.arrive != nil {
		a := &c33Arrival{put: put, release: make(chan bool, 1)}
		b.arrive <- a
		if !<-a.release {
			http.Error(w, "aborted by schedule", 403)
			return
		}
	}
	b.mu.Lock()
	b.puts = append(b.puts, put)
	b.mu.Unlock()
	if gcs {
		w.Header().Set("Content-Type", "application/json")
		json.NewEncoder(w).Encode(map[string]any{"kind": "storage#object", "bucket": bname, "name": key, "size": fmt.Sprint(len(data))})
		return
	}
	w.Header().Set("ETag", `"0"`)
	w.WriteHeader(200)
}

func c33Setup() *c33Env {
	c33Once.Do(func() {
		e := &c33Env{buckets: map[string]*c33Bucket{}}
		e.rnd = &c33Rand{orig: crand.Reader}
		crand.Reader = e.rnd // generateUUID: crypto/rand.Read -> Reader
		uuid.SetRand(e.rnd)  // gcs: uuid.New()
		if ep := os.Getenv("VH_C33_ENDPOINT"); ep != "" {
			// child process: the parent owns the store
			e.srv = &httptest.Server{URL: ep}
		} else {
			e.srv = httptest.NewServer(http.HandlerFunc(e.serve))
		}
		os.Setenv("AWS_ACCESS_KEY_ID", "AKIDEXAMPLE")
		os.Setenv("AWS_SECRET_ACCESS_KEY", "c33-not-a-secret")
		os.Setenv("AWS_REGION", "us-east-1")
		os.Setenv("AWS_EC2_METADATA_DISABLED", "true")
		os.Setenv("AWS_CONFIG_FILE", "/nonexistent/c33")
		os.Setenv("AWS_SHARED_CREDENTIALS_FILE", "/nonexistent/c33")
		os.Unsetenv("AWS_PROFILE")
		os.Unsetenv("AWS_SESSION_TOKEN")
		os.Setenv("STORAGE_EMULATOR_HOST", strings.TrimPrefix(e.srv.URL, "http://"))
		os.Unsetenv("GOOGLE_APPLICATION_CREDENTIALS")
		c33E = e
	})
	return c33E
}

type c33Uploader interface {
	Upload(data []byte, schema *arrow.Schema, contentEncoding string) (string, error)
}

func c33NewStorage(e *c33Env, backend, bucket, prefix string) (c33Uploader, error) {
	switch backend {
	case "s3":
		return vgis3.NewS3Storage(bucket, vgis3.S3Config{Prefix: prefix, EndpointURL: e.srv.URL})
	case "gcs":
		return vgigcs.NewGCSStorage(bucket, vgigcs.GCSConfig{Prefix: prefix})
	}
	return nil, fmt.Errorf("backend %q", backend)
}

// c33Uploaded classifies Upload's result: the object was written when there is no
// error, or when the only failure is GCS URL signing (no credentials offline; the
// object is already in the store by then).
func c33Uploaded(backend string, err error) (ok bool, signFail bool) {
	if err == nil {
		return true, false
	}
	if backend == "gcs" && strings.Contains(err.Error(), "GCS signed URL") {
		return true, true
	}
	return false, false
}

func c33Backend(b string) string {
	switch b {
	case "s3":
		return "C33.S3"
	case "gcs":
		return "C33.GCS"
	}
	return "C33.S3Gen"
}

func c33EffPrefix(backend, p string) string {
	if backend == "s3gen" {
		return ""
	}
	if p == "" {
		return "vgi-rpc/"
	}
	return p
}

// c33Lost counts payloads that were written (marker in sent) but are not the final
// content of any key.
func c33Lost(puts []c33Put, sent []string) int {
	final := map[string]string{}
	for _, p := range puts {
		final[p.Key] = p.Body
	}
	have := map[string]bool{}
	for _, b := range final {
		have[b] = true
	}
	lost := 0
	for _, s := range sent {
		if !have[s] {
			lost++
		}
	}
	return lost
}

// c33B renders a byte string as a Coq term. A string that starts with a run of at
// least 32 equal bytes (the long-prefix cases) is rendered as (C33.rep n c ++ rest),
// which denotes exactly the same byte list: n and c are read off the string itself.
func c33B(s string) string {
	n := 0
	for n < len(s) && s[n] == s[0] {
		n++
	}
	if n < 32 {
		return B(s)
	}
	rest := "[]"
	if n < len(s) {
		rest = B(s[n:])
	}
	return fmt.Sprintf("(C33.rep %d%%nat %d%%N ++ %s)", n, s[0], rest)
}

// c33LongPrefix: a legal object-name prefix of exactly n bytes (n >= 1).
func c33LongPrefix(n int) string {
	if n <= 0 {
		return ""
	}
	return strings.Repeat("a", n-1) + "/"
}

// c33PrefixLens: length classes up to and beyond the backends' 1024-byte name limit.
// 978/982/983/988 are where prefix+uuid(+.arrow.zst/.arrow) first reaches 1024.
var c33PrefixLens = []int{1, 100, 900, 977, 978, 979, 982, 983, 987, 988, 989, 1000, 1013, 1014, 1017, 1018, 1023, 1024, 1025, 1100}

func c33PlenTag(backend, prefix, enc string) []string {
	n := len(c33EffPrefix(backend, prefix))
	var tags []string
	switch {
	case n < 32:
	case n < 900:
		tags = append(tags, "plen=32..899")
	case n < 978:
		tags = append(tags, "plen=900..977")
	case n < 1018:
		tags = append(tags, "plen=978..1017")
	case n <= 1024:
		tags = append(tags, "plen=1018..1024")
	default:
		tags = append(tags, "plen>1024")
	}
	return tags
}

func c33Stream(in c33In) ([][]byte, bool) {
	var out [][]byte
	for _, h := range in.Stream {
		b, err := hex.DecodeString(h)
		if err != nil || len(b) != 16 {
			return nil, false
		}
		out = append(out, b)
	}
	return out, true
}

// ---- sched: forced interleaving ---------------------------------------------

type c33Res struct {
	url string
	err error
}

type c33Thread struct {
	todo    []string
	k       int
	cmd     chan string
	done    chan c33Res
	pending *c33Arrival
	payload string
	broken  bool
}

func c33RunSched(in c33In) CaseOut {
	e := c33Setup()
	tags := append([]string{"sched", in.Backend}, c33PlenTag(in.Backend, in.Prefix, "")...)
	stream, ok := c33Stream(in)
	coqIn := App("C33.Sched", c33Backend(in.Backend), c33B(in.Prefix),
		ListOf(in.Progs, func(p []string) string { return ListOf(p, B) }),
		ListOf(in.Stream, func(h string) string { return `(hx "` + h + `")` }),
		ListOf(in.Sched, Nat))
	if !ok {
		return CaseOut{Coq: Pair(coqIn, "(C33.OSched [] 0%nat)"), Tags: append(tags, "bad-input"), Obs: "bad stream"}
	}
	bname, bk := e.newBucket(true)
	defer e.dropBucket(bname)
	st, err := c33NewStorage(e, in.Backend, bname, in.Prefix)
	if err != nil {
		panic(err)
	}
	ths := make([]*c33Thread, len(in.Progs))
	for i, prog := range in.Progs {
		t := &c33Thread{todo: append([]string(nil), prog...), cmd: make(chan string), done: make(chan c33Res, 1)}
		ths[i] = t
		go func(tid int, t *c33Thread) {
			k := 0
			for enc := range t.cmd {
				u, err := st.Upload([]byte(fmt.Sprintf("c33|%s|%d|%d|", bname, tid, k)), c33NoData, enc)
				k++
				t.done <- c33Res{u, err}
			}
		}(i, t)
	}
	var sent []string
	type op struct {
		Tid int
		Key string
	}
	var order []op
	signFail, notConsumed, urlBad := false, false, false
	pos := 0
	for _, tid := range in.Sched {
		if tid < 0 || tid >= len(ths) || ths[tid].broken {
			continue
		}
		t := ths[tid]
		if t.pending != nil { // Put step
			a := t.pending
			t.pending = nil
			a.release <- true
			var res c33Res
			select {
			case res = <-t.done:
			case <-time.After(30 * time.Second):
				panic("C33: Upload did not return after its PUT was released")
			}
			up, sf := c33Uploaded(in.Backend, res.err)
			signFail = signFail || sf
			if !up {
				tags = append(tags, "upload-error")
				t.broken = true
				continue
			}
			sent = append(sent, a.put.Body)
			order = append(order, op{tid, a.put.Key})
			if in.Backend == "s3" && !strings.Contains(res.url, "/"+bname+"/"+a.put.Key+"?") {
				urlBad = true
			}
			continue
		}
		if len(t.todo) == 0 || pos >= len(stream) {
			continue // nothing to start / random source exhausted: no-op, as in the model
		}
		enc := t.todo[0]
		t.todo = t.todo[1:]
		e.rnd.load([][]byte{stream[pos]})
		pos++
		t.payload = fmt.Sprintf("c33|%s|%d|%d|", bname, tid, t.k)
		t.k++
		t.cmd <- enc
		select {
		case a := <-bk.arrive:
			if a.put.Body != t.payload {
				panic("C33: unexpected PUT while forcing a schedule: " + a.put.Body)
			}
			t.pending = a
		case <-t.done:
			tags = append(tags, "upload-failed-before-put")
			t.broken = true
		case <-time.After(30 * time.Second):
			panic("C33: Upload neither reached the store nor returned")
		}
		if e.rnd.unload() != 1 {
			notConsumed = true
		}
	}
	for _, t := range ths { // drawn but never put: abort
		if t.pending != nil {
			t.pending.release <- false
			<-t.done
			tags = append(tags, "aborted-pending")
		}
		close(t.cmd)
	}
	bk.mu.Lock()
	puts := append([]c33Put(nil), bk.puts...)
	bk.mu.Unlock()
	lost := c33Lost(puts, sent)
	if urlBad {
		tags = append(tags, "url-key-mismatch")
		lost += 1000
	}
	// the store's arrival order must be the forced order
	if len(puts) != len(order) {
		tags = append(tags, "store-order-mismatch")
		lost += 2000
	} else {
		for i := range puts {
			if puts[i].Key != order[i].Key {
				tags = append(tags, "store-order-mismatch")
				lost += 2000
				break
			}
		}
	}
	if signFail {
		tags = append(tags, "gcs-sign-unavailable")
	}
	if notConsumed {
		tags = append(tags, "draw-not-from-random-source")
	}
	seen := map[string]bool{}
	dup := false
	for _, o := range order {
		if seen[o.Key] {
			dup = true
		}
		seen[o.Key] = true
	}
	if dup {
		tags = append(tags, "key-collision")
	}
	tags = append(tags, fmt.Sprintf("puts=%d", min(len(order), 8)))
	coqObs := App("C33.OSched", ListOf(order, func(o op) string { return Pair(Nat(o.Tid), c33B(o.Key)) }), Nat(lost))
	fresh := c33Fresh(stream)
	if !fresh {
		tags = append(tags, "stream-not-fresh")
	}
	return CaseOut{Coq: Pair(coqIn, coqObs), Tags: tags, Nontrivial: fresh && len(order) >= 2,
		Obs: map[string]any{"puts": order, "lost": lost}}
}

// c33Fresh: scripted values pairwise distinct after the version/variant mask.
func c33Fresh(stream [][]byte) bool {
	seen := map[string]bool{}
	for _, s := range stream {
		m := append([]byte(nil), s...)
		m[6] = m[6]&0x0f | 0x40
		m[8] = m[8]&0x3f | 0x80
		if seen[string(m)] {
			return false
		}
		seen[string(m)] = true
	}
	return true
}

// ---- conc: scripted source, free-running goroutines ---------------------------

func c33RunConc(in c33In) CaseOut {
	e := c33Setup()
	tags := append([]string{"conc", in.Backend}, c33PlenTag(in.Backend, in.Prefix, in.Enc)...)
	stream, ok := c33Stream(in)
	n := in.G * in.M
	coqIn := App("C33.Conc", c33Backend(in.Backend), c33B(in.Prefix), B(in.Enc), Nat(n),
		ListOf(in.Stream, func(h string) string { return `(hx "` + h + `")` }))
	if !ok || in.G <= 0 || in.M <= 0 || len(stream) < n {
		return CaseOut{Coq: Pair(coqIn, "(C33.OConc [] 0%nat)"), Tags: append(tags, "bad-input"), Obs: "bad input"}
	}
	bname, bk := e.newBucket(false)
	defer e.dropBucket(bname)
	st, err := c33NewStorage(e, in.Backend, bname, in.Prefix)
	if err != nil {
		panic(err)
	}
	e.rnd.load(append([][]byte(nil), stream[:n]...))
	var wg sync.WaitGroup
	var mu sync.Mutex
	var sent []string
	start := make(chan struct{})
	for g := 0; g < in.G; g++ {
		wg.Add(1)
		go func(g int) {
			defer wg.Done()
			<-start
			for k := 0; k < in.M; k++ {
				pl := fmt.Sprintf("c33|%s|%d|%d|", bname, g, k)
				_, err := st.Upload([]byte(pl), c33NoData, in.Enc)
				if up, _ := c33Uploaded(in.Backend, err); up {
					mu.Lock()
					sent = append(sent, pl)
					mu.Unlock()
				}
			}
		}(g)
	}
	close(start)
	wg.Wait()
	if e.rnd.unload() != n {
		tags = append(tags, "draw-not-from-random-source")
	}
	bk.mu.Lock()
	puts := append([]c33Put(nil), bk.puts...)
	bk.mu.Unlock()
	keys := make([]string, len(puts))
	for i, p := range puts {
		keys[i] = p.Key
	}
	sort.Strings(keys)
	lost := c33Lost(puts, sent)
	if len(sent) != n {
		tags = append(tags, "upload-error")
	}
	fresh := c33Fresh(stream)
	if !fresh {
		tags = append(tags, "stream-not-fresh")
	}
	tags = append(tags, fmt.Sprintf("g=%d", in.G))
	return CaseOut{Coq: Pair(coqIn, App("C33.OConc", ListOf(keys, c33B), Nat(lost))), Tags: tags, Nontrivial: fresh && n >= 2,
		Obs: map[string]any{"keys": keys, "lost": lost}}
}

// ---- real randomness -----------------------------------------------------------

type c33Child struct {
	Backend, Bucket, Prefix, Enc string
	Proc, G, M                   int
}

func c33Hammer(st c33Uploader, backend, bname, enc string, proc, g, m int) []string {
	var wg sync.WaitGroup
	var mu sync.Mutex
	var sent []string
	start := make(chan struct{})
	for gi := 0; gi < g; gi++ {
		wg.Add(1)
		go func(gi int) {
			defer wg.Done()
			<-start
			for k := 0; k < m; k++ {
				pl := fmt.Sprintf("c33|%s|%d.%d|%d|", bname, proc, gi, k)
				_, err := st.Upload([]byte(pl), c33NoData, enc)
				if up, _ := c33Uploaded(backend, err); up {
					mu.Lock()
					sent = append(sent, pl)
					mu.Unlock()
				}
			}
		}(gi)
	}
	close(start)
	wg.Wait()
	return sent
}

func c33RunReal(in c33In) CaseOut {
	e := c33Setup()
	tags := append([]string{"real", in.Backend, in.Mode}, c33PlenTag(in.Backend, in.Prefix, in.Enc)...)
	var keys []string
	var uploads, lost int
	switch in.Mode {
	case "gen":
		uploads = in.G * in.M
		keys = make([]string, uploads)
		var wg sync.WaitGroup
		for g := 0; g < in.G; g++ {
			wg.Add(1)
			go func(g int) {
				defer wg.Done()
				for k := 0; k < in.M; k++ {
					keys[g*in.M+k] = vgis3.VerifGenerateUUID()
				}
			}(g)
		}
		wg.Wait()
	default:
		bname, bk := e.newBucket(false)
		defer e.dropBucket(bname)
		var sent []string
		if in.Mode == "proc" {
			exe, err := os.Executable()
			if err != nil {
				panic(err)
			}
			var cmds []*exec.Cmd
			outs := make([]*bytes.Buffer, in.P)
			for p := 0; p < in.P; p++ {
				spec, _ := json.Marshal(c33Child{in.Backend, bname, in.Prefix, in.Enc, p, in.G, in.M})
				cmd := exec.Command(exe, "list")
				cmd.Env = append(os.Environ(), "VH_C33_CHILD="+string(spec), "VH_C33_ENDPOINT="+e.srv.URL)
				outs[p] = &bytes.Buffer{}
				cmd.Stdout = outs[p]
				cmd.Stderr = os.Stderr
				if err := cmd.Start(); err != nil {
					panic(err)
				}
				cmds = append(cmds, cmd)
			}
			for p, cmd := range cmds {
				if err := cmd.Wait(); err != nil {
					panic(fmt.Sprintf("C33 child %d: %v", p, err))
				}
				var s []string
				json.Unmarshal(outs[p].Bytes(), &s)
				sent = append(sent, s...)
			}
			uploads = in.P * in.G * in.M
		} else {
			st, err := c33NewStorage(e, in.Backend, bname, in.Prefix)
			if err != nil {
				panic(err)
			}
			sent = c33Hammer(st, in.Backend, bname, in.Enc, 0, in.G, in.M)
			uploads = in.G * in.M
		}
		bk.mu.Lock()
		puts := append([]c33Put(nil), bk.puts...)
		bk.mu.Unlock()
		for _, p := range puts {
			keys = append(keys, p.Key)
		}
		if len(sent) != uploads {
			tags = append(tags, "upload-error")
		}
		lost = c33Lost(puts, sent) + (uploads - len(sent))
	}
	eff := c33EffPrefix(in.Backend, in.Prefix)
	ext := ""
	if in.Backend == "gcs" {
		ext = ".arrow"
		if in.Enc == "zstd" {
			ext = ".arrow.zst"
		}
	}
	distinct := map[string]bool{}
	shape := true
	for _, k := range keys {
		distinct[k] = true
		if !strings.HasPrefix(k, eff) || !strings.HasSuffix(k, ext) || !c33KeyRe.MatchString(k[len(eff):len(k)-len(ext)]) {
			shape = false
		}
	}
	sample := keys
	if len(sample) > 6 {
		sample = sample[:6]
	}
	if len(distinct) != len(keys) {
		tags = append(tags, "key-collision")
	}
	coqIn := App("C33.Real", c33Backend(in.Backend), c33B(in.Prefix), B(in.Enc), N(uint64(uploads)))
	coqObs := App("C33.OReal", N(uint64(len(keys))), N(uint64(len(distinct))), Bool(shape), N(uint64(lost)), ListOf(sample, c33B))
	return CaseOut{Coq: Pair(coqIn, coqObs), Tags: tags, Nontrivial: uploads >= 2,
		Obs: map[string]any{"uploads": len(keys), "distinct": len(distinct), "shape": shape, "lost": lost, "sample": sample}}
}

func c33Run(in c33In) CaseOut {
	switch in.Kind {
	case "sched":
		return c33RunSched(in)
	case "conc":
		return c33RunConc(in)
	}
	return c33RunReal(in)
}

// ---- generators -----------------------------------------------------------------

var c33Prefixes = []string{"", "p/", "vgi-rpc/", "a/b-c_d/", "4a4a-", "x"}
var c33Encs = []string{"", "zstd", "gzip", "zst", "ZSTD"}
var c33EdgeBytes = []byte{0x00, 0x09, 0x0a, 0x0f, 0x10, 0x3f, 0x40, 0x4f, 0x7f, 0x80, 0x99, 0x9a, 0xa0, 0xbf, 0xc0, 0xf0, 0xff}

func c33Entropy(r *rand.Rand) []byte {
	b := make([]byte, 16)
	edge := r.Intn(3) == 0
	for i := range b {
		if edge {
			b[i] = c33EdgeBytes[r.Intn(len(c33EdgeBytes))]
		} else {
			b[i] = byte(r.Intn(256))
		}
	}
	return b
}

func c33Hex(bs [][]byte) []string {
	out := make([]string, len(bs))
	for i, b := range bs {
		out[i] = hex.EncodeToString(b)
	}
	return out
}

// c33Interleave: a complete random interleaving of 2-step uploads.
func c33Interleave(r *rand.Rand, progs [][]string) []int {
	left := make([]int, len(progs))
	total := 0
	for i, p := range progs {
		left[i] = 2 * len(p)
		total += left[i]
	}
	var s []int
	for total > 0 {
		t := r.Intn(len(progs))
		if left[t] == 0 {
			continue
		}
		left[t]--
		total--
		s = append(s, t)
	}
	return s
}

func c33Gen(r *rand.Rand, n int, tier string) []c33In {
	var out []c33In
	e0 := bytes.Repeat([]byte{0x00}, 16)
	eF := bytes.Repeat([]byte{0xff}, 16)
	e1 := []byte{0x01, 0x23, 0x45, 0x67, 0x89, 0xab, 0xcd, 0xef, 0x10, 0x32, 0x54, 0x76, 0x98, 0xba, 0xdc, 0xfe}
	flip := func(e []byte, i int, x byte) []byte { c := append([]byte(nil), e...); c[i] ^= x; return c }
	// boundary cases first
	for _, be := range []string{"s3", "gcs"} {
		for _, enc := range []string{"", "zstd", "gzip"} {
			out = append(out, c33In{Kind: "sched", Backend: be, Prefix: "", Progs: [][]string{{enc}}, Stream: c33Hex([][]byte{e1}), Sched: []int{0, 0}})
		}
		// extreme bytes; two threads drawing in one order and putting in the other
		out = append(out, c33In{Kind: "sched", Backend: be, Prefix: "p/", Progs: [][]string{{""}, {"zstd"}}, Stream: c33Hex([][]byte{e0, eF}), Sched: []int{0, 1, 1, 0}})
		// the same value twice: the freshness premise is false, the second put overwrites
		out = append(out, c33In{Kind: "sched", Backend: be, Prefix: "p/", Progs: [][]string{{""}, {""}}, Stream: c33Hex([][]byte{e1, e1}), Sched: []int{0, 1, 0, 1}})
		// values differing only in forced bits (version nibble, variant bits): same key
		out = append(out, c33In{Kind: "sched", Backend: be, Prefix: "p/", Progs: [][]string{{"", ""}}, Stream: c33Hex([][]byte{e1, flip(e1, 6, 0xb0)}), Sched: []int{0, 0, 0, 0}})
		out = append(out, c33In{Kind: "sched", Backend: be, Prefix: "p/", Progs: [][]string{{""}, {""}}, Stream: c33Hex([][]byte{e1, flip(e1, 8, 0xc0)}), Sched: []int{1, 0, 0, 1}})
		// values differing in one free bit next to a forced one: distinct keys
		out = append(out, c33In{Kind: "sched", Backend: be, Prefix: "p/", Progs: [][]string{{"", "", ""}}, Stream: c33Hex([][]byte{e1, flip(e1, 6, 0x01), flip(e1, 8, 0x20)}), Sched: []int{0, 0, 0, 0, 0, 0}})
		// one free bit in each of the other bytes
		var one [][]byte
		for i := 0; i < 16; i++ {
			one = append(one, flip(e0, i, 0x08))
		}
		prog := make([]string, 16)
		sch := make([]int, 32)
		out = append(out, c33In{Kind: "sched", Backend: be, Prefix: "x", Progs: [][]string{prog}, Stream: c33Hex(one), Sched: sch})
		// incomplete schedule, idle and unknown thread ids, source shorter than the programs
		out = append(out, c33In{Kind: "sched", Backend: be, Prefix: "p/", Progs: [][]string{{"", ""}, {""}}, Stream: c33Hex([][]byte{e0, e1}), Sched: []int{0, 7, 1, 1, 0, 0, 1, 1, 0}})
		out = append(out, c33In{Kind: "sched", Backend: be, Prefix: "p/", Progs: [][]string{{""}, {""}}, Stream: c33Hex([][]byte{e0, eF}), Sched: []int{0, 1, 1}})
	}
	// prefix length classes up to and beyond the 1024-byte object-name limit, both
	// backends, both extensions: two threads, interleaved, extreme and ordinary draws
	for i, pl := range c33PrefixLens {
		for _, be := range []string{"s3", "gcs"} {
			encs := [][]string{{""}, {"zstd"}}
			if i%2 == 1 {
				encs = [][]string{{"zstd"}, {"zstd"}}
			}
			out = append(out, c33In{Kind: "sched", Backend: be, Prefix: c33LongPrefix(pl), Progs: encs,
				Stream: c33Hex([][]byte{e1, flip(e1, 15, 0x01)}), Sched: []int{0, 1, 1, 0}})
		}
	}
	// real randomness
	big := tier == "thorough"
	pick := func(q, t int) int {
		if big {
			return t
		}
		return q
	}
	out = append(out,
		c33In{Kind: "real", Backend: "s3gen", Mode: "gen", G: 1, M: pick(100000, 1000000)},
		c33In{Kind: "real", Backend: "s3gen", Mode: "gen", G: 16, M: pick(6250, 62500)},
		c33In{Kind: "real", Backend: "s3", Mode: "seq", Prefix: "", G: 1, M: pick(150, 2000)},
		c33In{Kind: "real", Backend: "s3", Mode: "go", Prefix: "r/", Enc: "zstd", G: 16, M: pick(12, 250)},
		c33In{Kind: "real", Backend: "gcs", Mode: "seq", Prefix: "", Enc: "zstd", G: 1, M: pick(60, 600)},
		c33In{Kind: "real", Backend: "gcs", Mode: "go", Prefix: "r/", G: 16, M: pick(6, 80)},
	)
	out = append(out,
		c33In{Kind: "real", Backend: "gcs", Mode: "seq", Prefix: c33LongPrefix(1018), G: 1, M: pick(8, 60)},
		c33In{Kind: "real", Backend: "gcs", Mode: "go", Prefix: c33LongPrefix(1000), Enc: "zstd", G: 4, M: pick(3, 30)},
		c33In{Kind: "real", Backend: "s3", Mode: "go", Prefix: c33LongPrefix(1024), G: 4, M: pick(3, 30)},
		c33In{Kind: "conc", Backend: "gcs", Prefix: c33LongPrefix(1014), Enc: "zstd", G: 3, M: 1, Stream: c33Hex([][]byte{e0, e1, eF})},
		c33In{Kind: "conc", Backend: "s3", Prefix: c33LongPrefix(990), Enc: "", G: 3, M: 1, Stream: c33Hex([][]byte{e0, e1, eF})},
	)
	if big {
		out = append(out,
			c33In{Kind: "real", Backend: "s3", Mode: "proc", Prefix: "r/", P: 4, G: 8, M: 60},
			c33In{Kind: "real", Backend: "s3", Mode: "proc", Prefix: "", P: 2, G: 16, M: 40},
			c33In{Kind: "real", Backend: "gcs", Mode: "proc", Prefix: "r/", Enc: "zstd", P: 3, G: 8, M: 20},
		)
	}
	for len(out) < n {
		be := []string{"s3", "gcs"}[r.Intn(2)]
		pf := c33Prefixes[r.Intn(len(c33Prefixes))]
		switch r.Intn(12) {
		case 0:
			pf = c33LongPrefix(c33PrefixLens[r.Intn(len(c33PrefixLens))])
		case 1:
			pf = c33LongPrefix(960 + r.Intn(80))
		}
		if r.Intn(5) == 0 { // free-running goroutines over a scripted source
			g, m := 2+r.Intn(5), 1+r.Intn(3)
			var st [][]byte
			for i := 0; i < g*m; i++ {
				st = append(st, c33Entropy(r))
			}
			if r.Intn(6) == 0 {
				st[len(st)-1] = append([]byte(nil), st[0]...)
			}
			out = append(out, c33In{Kind: "conc", Backend: be, Prefix: pf, Enc: c33Encs[r.Intn(len(c33Encs))], G: g, M: m, Stream: c33Hex(st)})
			continue
		}
		nt := 1 + r.Intn(4)
		progs := make([][]string, nt)
		total := 0
		for i := range progs {
			k := 1 + r.Intn(3)
			for j := 0; j < k; j++ {
				progs[i] = append(progs[i], c33Encs[r.Intn(len(c33Encs))])
			}
			total += k
		}
		var st [][]byte
		for i := 0; i < total; i++ {
			st = append(st, c33Entropy(r))
		}
		switch r.Intn(10) {
		case 0: // repeated value
			if total >= 2 {
				st[r.Intn(total)] = append([]byte(nil), st[r.Intn(total)]...)
			}
		case 1: // repeated up to forced bits
			if total >= 2 {
				i, j := r.Intn(total), r.Intn(total)
				c := append([]byte(nil), st[i]...)
				c[6] ^= byte(r.Intn(16)) << 4
				c[8] ^= byte(r.Intn(4)) << 6
				st[j] = c
			}
		case 2: // near miss: one free bit differs
			if total >= 2 {
				i, j := r.Intn(total), r.Intn(total)
				if i != j {
					c := append([]byte(nil), st[i]...)
					bit := r.Intn(128)
					for (bit/8 == 6 && bit%8 >= 4) || (bit/8 == 8 && bit%8 >= 6) {
						bit = r.Intn(128)
					}
					c[bit/8] ^= 1 << (bit % 8)
					st[j] = c
				}
			}
		}
		sch := c33Interleave(r, progs)
		switch r.Intn(8) {
		case 0:
			sch = sch[:r.Intn(len(sch)+1)]
		case 1:
			sch = append(sch[:len(sch)/2:len(sch)/2], append([]int{nt + r.Intn(3)}, sch[len(sch)/2:]...)...)
		}
		out = append(out, c33In{Kind: "sched", Backend: be, Prefix: pf, Progs: progs, Stream: c33Hex(st), Sched: sch})
	}
	return out
}

func init() {
	if spec := os.Getenv("VH_C33_CHILD"); spec != "" {
		var c c33Child
		if err := json.Unmarshal([]byte(spec), &c); err != nil {
			fmt.Fprintln(os.Stderr, "C33 child:", err)
			os.Exit(3)
		}
		e := c33Setup()
		st, err := c33NewStorage(e, c.Backend, c.Bucket, c.Prefix)
		if err != nil {
			fmt.Fprintln(os.Stderr, "C33 child:", err)
			os.Exit(3)
		}
		sent := c33Hammer(st, c.Backend, c.Bucket, c.Enc, c.Proc, c.G, c.M)
		json.NewEncoder(os.Stdout).Encode(sent)
		os.Exit(0)
	}
	Register("C33", "boundary schedules first (single upload per backend/encoding, extreme bytes, repeated draw, draws equal up to the forced version/variant bits, one free bit per byte, truncated schedule, exhausted source), then real-randomness runs (10^5 generateUUID calls single- and 16-threaded, sequential and 16-goroutine Uploads per backend; thorough: 10^6 and 2-4 simultaneous processes), then random forced schedules of 1-4 threads x 1-3 uploads over scripted random sources (30% with a repeated / forced-bit-equal / one-bit-apart value, 25% truncated or with idle thread ids) and 20% free-running goroutine cases; non-trivial = at least two uploads and a fresh source; distinct = distinct input JSON",
		c33Gen, c33Run)
}
