package main

import (
	"encoding/hex"
	"fmt"
	"io"
	"strings"

	"github.com/Query-farm/vgi-rpc-go/vgirpc"
)

// --- rendering Go values as Coq terms --------------------------------------

// B renders a byte string as a Coq `bytes` term.
func B(s string) string {
	if s == "" {
		return "[]"
	}
	return `(hx "` + hex.EncodeToString([]byte(s)) + `")`
}

// Bool renders a bool.
func Bool(b bool) string {
	if b {
		return "true"
	}
	return "false"
}

// Z renders an integer as a Coq Z term.
func Z(v int64) string {
	if v < 0 {
		return fmt.Sprintf("(%d)%%Z", v)
	}
	return fmt.Sprintf("%d%%Z", v)
}

// N renders a non-negative integer as a Coq N term.
func N(v uint64) string { return fmt.Sprintf("%d%%N", v) }

// Nat renders a small non-negative integer as a Coq nat term.
func Nat(v int) string { return fmt.Sprintf("%d%%nat", v) }

// List renders a Coq list from already-rendered elements.
func List(xs []string) string { return "[" + strings.Join(xs, "; ") + "]" }

// ListOf renders a list by mapping f over xs.
func ListOf[T any](xs []T, f func(T) string) string {
	out := make([]string, len(xs))
	for i, x := range xs {
		out[i] = f(x)
	}
	return List(out)
}

// Opt renders an option.
func Opt(present bool, v string) string {
	if !present {
		return "None"
	}
	return "(Some " + v + ")"
}

// Pair renders a pair.
func Pair(a, b string) string { return "(" + a + ", " + b + ")" }

// App renders a constructor / function application.
func App(f string, args ...string) string {
	if len(args) == 0 {
		return f
	}
	return "(" + f + " " + strings.Join(args, " ") + ")"
}

// --- Gen/Consts.v -----------------------------------------------------------

func writeConsts(w io.Writer) {
	fmt.Fprintln(w, "(* Gen/Consts.v — REGENERATED on every check run by `vh consts` from the code")
	fmt.Fprintln(w, "   compiled out of /repo's current working tree (vgirpc.VerifConstants, build")
	fmt.Fprintln(w, "   tag verif). Do not edit: models and theorems are stated over these names. *)")
	fmt.Fprintln(w, "From VR Require Import Lib.Bytes.")
	fmt.Fprintln(w, "Open Scope N_scope.")
	seen := map[string]string{}
	for _, c := range vgirpc.VerifConstants() {
		// the same constant may be exported by two hook files: keep the first
		// definition when the values agree, and make a disagreement a build error
		sig := fmt.Sprintf("%s|%q|%d|%q", c.Kind, c.Bytes, c.Num, c.List)
		if prev, dup := seen[c.Name]; dup {
			if prev != sig {
				fmt.Fprintf(w, "Definition %s : Prop := False. (* CONFLICTING duplicate constant exported by two hooks *)\n", c.Name)
			}
			continue
		}
		seen[c.Name] = sig
		switch c.Kind {
		case "bytes":
			fmt.Fprintf(w, "Definition %s : bytes := Eval compute in %s. (* %q *)\n", c.Name, B(c.Bytes), c.Bytes)
		case "num":
			fmt.Fprintf(w, "Definition %s : Z := %s.\n", c.Name, Z(c.Num))
		case "list":
			fmt.Fprintf(w, "Definition %s : list bytes := Eval compute in %s.\n", c.Name, ListOf(c.List, B))
		}
	}
}
