// Command vh is the correspondence harness: for one property it generates
// inputs from a seeded PRNG, runs the real implementation (built from /repo's
// current tree with -tags verif), and writes one JSON line per case holding the
// input, the projected observables, and the Coq term `(input, obs)` that the
// driver hands to the model.
package main

import (
	"bufio"
	"encoding/json"
	"flag"
	"fmt"
	"math/rand"
	"os"
	"sort"
)

// CaseOut is what running one input against the implementation yields.
type CaseOut struct {
	Coq        string   `json:"coq"`        // Coq term of type (input * obs)
	Tags       []string `json:"tags"`       // branch / class tags (distribution + known-finding matching)
	Nontrivial bool     `json:"nontrivial"` // by the property's stated rule
	Obs        any      `json:"obs"`        // human-readable observables
}

type caseLine struct {
	Idx   int             `json:"idx"`
	Input json.RawMessage `json:"input"`
	CaseOut
}

type prop struct {
	id   string
	rule string
	gen  func(r *rand.Rand, n int, tier string) []json.RawMessage
	run  func(in json.RawMessage) (CaseOut, error)
}

var props = map[string]*prop{}

// Register adds a property harness. gen produces n inputs; run executes one.
func Register[I any](id, rule string, gen func(r *rand.Rand, n int, tier string) []I, run func(I) CaseOut) {
	props[id] = &prop{
		id: id, rule: rule,
		gen: func(r *rand.Rand, n int, tier string) []json.RawMessage {
			var out []json.RawMessage
			for _, x := range gen(r, n, tier) {
				b, err := json.Marshal(x)
				if err != nil {
					panic(err)
				}
				out = append(out, b)
			}
			return out
		},
		run: func(in json.RawMessage) (CaseOut, error) {
			var x I
			if err := json.Unmarshal(in, &x); err != nil {
				return CaseOut{}, err
			}
			return run(x), nil
		},
	}
}

func main() {
	if len(os.Args) < 2 {
		fmt.Fprintln(os.Stderr, "usage: vh <consts|list|Cxx> [-seed S] [-n N] [-tier T] [-inputs file] [-out file]")
		os.Exit(2)
	}
	cmd := os.Args[1]
	fs := flag.NewFlagSet(cmd, flag.ExitOnError)
	seed := fs.Int64("seed", 1, "PRNG seed")
	n := fs.Int("n", 200, "number of generated cases")
	tier := fs.String("tier", "quick", "quick|thorough")
	inputs := fs.String("inputs", "", "JSONL file of inputs to run before generated ones (corpus / replay)")
	only := fs.Bool("only-inputs", false, "run only -inputs, generate nothing")
	out := fs.String("out", "", "output JSONL (default stdout)")
	fs.Parse(os.Args[2:])

	switch cmd {
	case "consts":
		writeConsts(os.Stdout)
		return
	case "list":
		var ids []string
		for id := range props {
			ids = append(ids, id)
		}
		sort.Strings(ids)
		for _, id := range ids {
			fmt.Println(id)
		}
		return
	case "rule":
		fs2 := fs.Args()
		if len(fs2) == 1 && props[fs2[0]] != nil {
			fmt.Println(props[fs2[0]].rule)
		}
		return
	}
	p := props[cmd]
	if p == nil {
		fmt.Fprintf(os.Stderr, "vh: no harness for %s\n", cmd)
		os.Exit(2)
	}
	w := bufio.NewWriter(os.Stdout)
	if *out != "" {
		f, err := os.Create(*out)
		if err != nil {
			panic(err)
		}
		defer f.Close()
		w = bufio.NewWriter(f)
	}
	defer w.Flush()

	var ins []json.RawMessage
	if *inputs != "" {
		f, err := os.Open(*inputs)
		if err == nil {
			sc := bufio.NewScanner(f)
			sc.Buffer(make([]byte, 1<<20), 1<<28)
			for sc.Scan() {
				b := append([]byte(nil), sc.Bytes()...)
				if len(b) == 0 {
					continue
				}
				// accept either a bare input or a full case line with an "input" field
				var probe struct {
					Input json.RawMessage `json:"input"`
				}
				if json.Unmarshal(b, &probe) == nil && len(probe.Input) > 0 {
					b = probe.Input
				}
				ins = append(ins, b)
			}
			f.Close()
		}
	}
	if !*only {
		r := rand.New(rand.NewSource(*seed))
		ins = append(ins, p.gen(r, *n, *tier)...)
	}
	enc := json.NewEncoder(w)
	enc.SetEscapeHTML(false)
	for i, in := range ins {
		co, err := p.run(in)
		if err != nil {
			fmt.Fprintf(os.Stderr, "vh: case %d: %v\n", i, err)
			os.Exit(3)
		}
		if err := enc.Encode(caseLine{Idx: i, Input: in, CaseOut: co}); err != nil {
			panic(err)
		}
	}
}
