(* Model/C09.v — the __describe__ response and the protocol hash payload
   (vgirpc/describe.go buildDescribeBatch + computeProtocolHash, the seven
   registration functions of vgirpc/server_register.go, Server.availableMethods,
   server_serve.go serveDescribe, http_helpers.go handleDescribe).

   Arrow schema IPC bytes are opaque byte strings (supplied by the harness from
   its own serialisation of the schemas it registers).  SHA-256 is a function
   parameter [H] of the model: nothing is assumed about it. *)
From VR Require Export Lib.Strs Gen.Consts.
Open Scope N_scope.

(* ---- Go string order: bytewise lexicographic (sort.Strings) -------------- *)
Fixpoint bcmp (a b : bytes) : comparison :=
  match a, b with
  | [], [] => Eq
  | [], _ :: _ => Lt
  | _ :: _, [] => Gt
  | x :: a', y :: b' => match N.compare x y with Eq => bcmp a' b' | c => c end
  end.
Definition bltb (a b : bytes) : bool := match bcmp a b with Lt => true | _ => false end.

(* insertion sort; [insert] puts x before the first element that is not < x *)
Fixpoint insert (x : bytes) (l : list bytes) : list bytes :=
  match l with
  | [] => [x]
  | h :: t => if bltb h x then h :: insert x t else x :: l
  end.
Definition sort_names (l : list bytes) : list bytes := fold_right insert [] l.

(* ---- registrations ------------------------------------------------------ *)
Inductive mtype := MUnary | MProducer | MExchange | MDynamic.

(* the fields of methodInfo that describe reads; schemas as IPC bytes,
   None = nil pointer *)
Record minfo := {
  mi_type : mtype;
  mi_result_type : bool;            (* ResultType != nil *)
  mi_params : bytes;                (* ParamsSchema *)
  mi_result : bytes;                (* ResultSchema *)
  mi_output : option bytes;         (* OutputSchema *)
  mi_has_header : bool;
  mi_header : option bytes }.       (* HeaderSchema *)

(* one call of a registration function, in the caller's terms *)
Inductive regcall :=
| RUnary (name params result : bytes)
| RUnaryVoid (name params : bytes)
| RProducer (name params output : bytes)
| RProducerH (name params output : bytes) (header : option bytes)
| RExchange (name params output : bytes)
| RExchangeH (name params output : bytes) (header : option bytes)
| RDynamicH (name params : bytes) (header : option bytes).

Definition rc_name (c : regcall) : bytes :=
  match c with
  | RUnary n _ _ | RUnaryVoid n _ | RProducer n _ _ | RProducerH n _ _ _
  | RExchange n _ _ | RExchangeH n _ _ _ | RDynamicH n _ _ => n
  end.

(* k-th member of the schema family the harness registers (its own IPC
   serialisation, published through Gen/Consts.v); just a name for opaque bytes *)
Definition sch (k : nat) : bytes := nth k c09_pool [].

Definition E0 : bytes := c09_empty_schema_ipc.   (* arrow.NewSchema(nil, nil) *)

(* server_register.go: what each function stores in s.methods[name] *)
Definition info_of (c : regcall) : minfo :=
  match c with
  | RUnary _ p r => Build_minfo MUnary true p r None false None
  | RUnaryVoid _ p => Build_minfo MUnary false p E0 None false None
  | RProducer _ p o => Build_minfo MProducer false p E0 (Some o) false None
  | RProducerH _ p o h => Build_minfo MProducer false p E0 (Some o) true h
  | RExchange _ p o => Build_minfo MExchange false p E0 (Some o) false None
  | RExchangeH _ p o h => Build_minfo MExchange false p E0 (Some o) true h
  | RDynamicH _ p h => Build_minfo MDynamic false p E0 None true h
  end.

(* s.methods : map[string]*methodInfo as an association list; assignment
   overwrites an existing key *)
Definition mmap := list (bytes * minfo).
Fixpoint map_set (k : bytes) (v : minfo) (m : mmap) : mmap :=
  match m with
  | [] => [(k, v)]
  | (k', v') :: t => if beqb k k' then (k, v) :: t else (k', v') :: map_set k v t
  end.
Fixpoint map_get (k : bytes) (m : mmap) : option minfo :=
  match m with
  | [] => None
  | (k', v') :: t => if beqb k k' then Some v' else map_get k t
  end.
Definition methods_of (regs : list regcall) : mmap :=
  fold_left (fun m c => map_set (rc_name c) (info_of c) m) regs [].

(* ---- buildDescribeBatch ------------------------------------------------- *)
(* what one loop iteration appends to the column builders and to the parallel
   slices handed to computeProtocolHash *)
Record ent := {
  e_name : bytes; e_mt : bytes; e_hr : bool; e_params : bytes; e_result : bytes;
  e_hh : bool;
  e_hcol : option bytes;    (* headerSchemaBuilder: Append / AppendNull *)
  e_hhash : bytes;          (* headerSchemaIPC[i]: nil when not appended *)
  e_xcol : option bool;     (* isExchangeBuilder *)
  e_xhash : Z }.            (* isExchanges[i]: -1 null, 0 false, 1 true *)

Definition method_type_str (t : mtype) : bytes :=
  match t with MUnary => c09_mt_unary | _ => c09_mt_stream end.

Definition ent_of (n : bytes) (i : minfo) : ent :=
  let hdr := if mi_has_header i then mi_header i else None in
  {| e_name := n;
     e_mt := method_type_str (mi_type i);
     e_hr := match mi_type i with MUnary => mi_result_type i | _ => false end;
     e_params := mi_params i;
     e_result := match mi_output i with Some o => o | None => mi_result i end;
     e_hh := mi_has_header i;
     e_hcol := hdr;
     e_hhash := match hdr with Some h => h | None => [] end;
     e_xcol := None;
     e_xhash := (-1)%Z |}.

(* the loop over names; s.methods[name] on a missing key is a nil dereference *)
Fixpoint build_ents (m : mmap) (names : list bytes) : option (list ent) :=
  match names with
  | [] => Some []
  | n :: t =>
      match map_get n m, build_ents m t with
      | Some i, Some r => Some (ent_of n i :: r)
      | _, _ => None
      end
  end.

(* ---- computeProtocolHash: the bytes written to the hasher, in order ------ *)
Definition US : N := 31.   (* 0x1f *)
Definition RS : N := 30.   (* 0x1e *)
Definition BAR : N := 124.
Definition hash_prefix : bytes := str "vgi_rpc.describe.v".
Definition c_one : bytes := str "1".
Definition c_zero : bytes := str "0".
Definition c_dash : bytes := str "-".

Definition hash_ent (e : ent) : bytes :=
  [US] ++ e_name e ++ [RS] ++ e_mt e ++ [RS]
  ++ (if e_hr e then c_one else c_zero) ++ [RS]
  ++ (if e_hh e then c_one else c_zero) ++ [RS]
  ++ (if (e_xhash e =? 1)%Z then c_one else if (e_xhash e =? 0)%Z then c_zero else c_dash) ++ [RS]
  ++ e_params e ++ [RS] ++ e_result e ++ [RS]
  ++ (match e_hhash e with [] => [] | h => h end).

Definition hash_payload (pn : bytes) (ents : list ent) : bytes :=
  hash_prefix ++ c09_describe_version ++ [BAR] ++ c09_wire_version ++ [BAR] ++ pn ++ [BAR]
  ++ flat_map hash_ent ents.

(* ---- the response -------------------------------------------------------- *)
Record row := {
  w_name : bytes; w_mt : bytes; w_hr : bool; w_params : bytes; w_result : bytes;
  w_hh : bool; w_header : option bytes; w_x : option bool }.

Definition row_of_ent (e : ent) : row :=
  {| w_name := e_name e; w_mt := e_mt e; w_hr := e_hr e; w_params := e_params e;
     w_result := e_result e; w_hh := e_hh e; w_header := e_hcol e; w_x := e_xcol e |}.

Record resp := { r_rows : list row; r_meta : list (bytes * bytes) }.

Record cfg := { g_service : bytes; g_server_id : bytes; g_pv : bytes }.   (* [] = unset *)

Definition protocol_name (g : cfg) : bytes :=
  match g_service g with [] => c09_default_protocol_name | s => s end.

Definition sorted_method_names (regs : list regcall) : list bytes :=
  sort_names (sort_names (map fst (methods_of regs))).   (* availableMethods sorts, then sort.Strings again *)

Definition describe_ents (regs : list regcall) : option (list ent) :=
  build_ents (methods_of regs) (sorted_method_names regs).

Definition build_describe (H : bytes -> bytes) (g : cfg) (regs : list regcall) : option resp :=
  match describe_ents regs with
  | None => None
  | Some ents =>
      Some {| r_rows := map row_of_ent ents;
              r_meta :=
                [(c09_k_protocol_name, protocol_name g);
                 (c09_k_request_version, c09_wire_version);
                 (c09_k_describe_version, c09_describe_version);
                 (c09_k_protocol_hash, H (hash_payload (protocol_name g) ents))]
                ++ (match g_server_id g with [] => [] | s => [(c09_k_server_id, s)] end)
                ++ (match g_pv g with [] => [] | v => [(c09_k_protocol_version, v)] end) |}
  end.

(* rows / payload as plain values ([] when the loop would have panicked; the
   proofs show it never does) *)
Definition describe_rows (regs : list regcall) : list row :=
  match describe_ents regs with Some e => map row_of_ent e | None => [] end.
Definition describe_payload (g : cfg) (regs : list regcall) : bytes :=
  match describe_ents regs with Some e => hash_payload (protocol_name g) e | None => [] end.

(* transports: both build the batch with buildDescribeBatch and write one IPC
   stream holding it; HTTP adds status 200 *)
Definition pipe_describe (H : bytes -> bytes) (g : cfg) (regs : list regcall) : option resp :=
  build_describe H g regs.
Definition http_describe (H : bytes -> bytes) (g : cfg) (regs : list regcall) : Z * option resp :=
  (200%Z, build_describe H g regs).

(* ======================================================================== *)
(* Specification side: written from the describe contract (CLAUDE.md wire
   format section, docs/guide/introspection.md), not from the loop above.     *)

(* the registration that is in force for a name: the last one made *)
Definition last_reg (n : bytes) (regs : list regcall) : option regcall :=
  find (fun c => beqb (rc_name c) n) (rev regs).

(* what the row of a method must say, per registration function *)
Definition spec_row (c : regcall) : row :=
  match c with
  | RUnary n p r => Build_row n c09_mt_unary true p r false None None
  | RUnaryVoid n p => Build_row n c09_mt_unary false p E0 false None None
  | RProducer n p o => Build_row n c09_mt_stream false p o false None None
  | RProducerH n p o h => Build_row n c09_mt_stream false p o true h None
  | RExchange n p o => Build_row n c09_mt_stream false p o false None None
  | RExchangeH n p o h => Build_row n c09_mt_stream false p o true h None
  | RDynamicH n p h => Build_row n c09_mt_stream false p E0 true h None
  end.

(* reference framing of the canonical payload, over the DECODED rows:
     "vgi_rpc.describe.v<DV>|<WV>|<protocol name>|"  then per row, in order,
     0x1f  and the eight fields joined by 0x1e:
       name, method_type, has_return, has_header, is_exchange, params, result, header
     booleans as "1"/"0", null is_exchange as "-", null header as nothing.   *)
Definition flag (b : bool) : bytes := if b then str "1" else str "0".
Definition tri (o : option bool) : bytes := match o with Some b => flag b | None => str "-" end.
Definition ref_fields (w : row) : list bytes :=
  [w_name w; w_mt w; flag (w_hr w); flag (w_hh w); tri (w_x w); w_params w; w_result w;
   match w_header w with Some h => h | None => [] end].
Definition ref_payload (pn : bytes) (rows : list row) : bytes :=
  join [BAR] [str "vgi_rpc.describe.v" ++ c09_describe_version; c09_wire_version; pn; []]
  ++ concat (map (fun w => US :: join [RS] (ref_fields w)) rows).

(* ---- decidable helpers --------------------------------------------------- *)
Definition obytes_eqb := opt_eqb beqb.
Definition row_eqb (a b : row) : bool :=
  beqb (w_name a) (w_name b) && beqb (w_mt a) (w_mt b) && Bool.eqb (w_hr a) (w_hr b)
  && beqb (w_params a) (w_params b) && beqb (w_result a) (w_result b)
  && Bool.eqb (w_hh a) (w_hh b) && obytes_eqb (w_header a) (w_header b)
  && opt_eqb Bool.eqb (w_x a) (w_x b).
Definition kv_eqb := pair_eqb beqb beqb.
Definition resp_eqb (a b : resp) : bool :=
  list_eqb row_eqb (r_rows a) (r_rows b) && list_eqb kv_eqb (r_meta a) (r_meta b).

Definition rc_eqb (a b : regcall) : bool :=
  match a, b with
  | RUnary n p r, RUnary n' p' r' => beqb n n' && beqb p p' && beqb r r'
  | RUnaryVoid n p, RUnaryVoid n' p' => beqb n n' && beqb p p'
  | RProducer n p o, RProducer n' p' o' => beqb n n' && beqb p p' && beqb o o'
  | RProducerH n p o h, RProducerH n' p' o' h' => beqb n n' && beqb p p' && beqb o o' && obytes_eqb h h'
  | RExchange n p o, RExchange n' p' o' => beqb n n' && beqb p p' && beqb o o'
  | RExchangeH n p o h, RExchangeH n' p' o' h' => beqb n n' && beqb p p' && beqb o o' && obytes_eqb h h'
  | RDynamicH n p h, RDynamicH n' p' h' => beqb n n' && beqb p p' && obytes_eqb h h'
  | _, _ => false
  end.

Fixpoint strictly_sortedb (l : list bytes) : bool :=
  match l with
  | a :: (b :: _) as t => bltb a b && strictly_sortedb t
  | _ => true
  end.

Fixpoint nodupb (l : list bytes) : bool :=
  match l with [] => true | x :: t => negb (existsb (beqb x) t) && nodupb t end.

(* regs2 is a reordering of regs, and regs has pairwise distinct names *)
Definition perm_check (regs regs2 : list regcall) : bool :=
  Nat.eqb (length regs) (length regs2) && nodupb (map rc_name regs)
  && forallb (fun c => existsb (rc_eqb c) regs2) regs.

(* sorted by name, every row is exactly the contract row of the registration in
   force for its name, and every registered name has a row *)
Definition rows_ok (regs : list regcall) (rows : list row) : bool :=
  strictly_sortedb (map w_name rows)
  && forallb (fun w => match last_reg (w_name w) regs with
                       | Some c => row_eqb w (spec_row c) | None => false end) rows
  && forallb (fun c => existsb (fun w => beqb (w_name w) (rc_name c)) rows) regs.

Fixpoint meta_get (k : bytes) (m : list (bytes * bytes)) : bytes :=
  match m with [] => [] | (k', v) :: t => if beqb k k' then v else meta_get k t end.

(* ======================================================================== *)
(* Histories on ONE server: registrations and setters interleaved with describe
   requests, Server.ProtocolHash() calls and dispatched calls.
   server.go: ProtocolHash() computes the digest once (sync.Once) and keeps it;
   server_serve.go / http_*.go: every dispatched call to a REGISTERED method
   calls ProtocolHash() while building DispatchInfo; buildDescribeBatch hashes
   the live surface on every __describe__ and never reads that cache.          *)
Inductive op :=
| OReg (c : regcall)
| OSetService (s : bytes)
| OSetServerID (s : bytes)
| OSetPV (v : bytes)          (* SetProtocolVersion; [] opts out *)
| ODescPipe
| ODescHTTP
| OHash                       (* Server.ProtocolHash() *)
| OCall (name : bytes)        (* a request for method [name] over the pipe *)
| OHttpSet (k v : bytes).     (* a setter of the HttpServer front end (SetProtocolName, SetPrefix,
                                 SetRepoURL, page toggles, CORS ...): handleDescribe reads only
                                 h.server, so none of them is an input of describe *)

Definition is_mutator (o : op) : bool :=
  match o with OReg _ | OSetService _ | OSetServerID _ | OSetPV _ => true | _ => false end.
Definition is_describe (o : op) : bool :=
  match o with ODescPipe | ODescHTTP => true | _ => false end.

(* the surface: configuration and registrations made so far, in order *)
Definition surface := (cfg * list regcall)%type.
Definition surface0 : surface := (Build_cfg [] [] [], []).
Definition apply_mut (s : surface) (o : op) : surface :=
  let (g, regs) := s in
  match o with
  | OReg c => (g, regs ++ [c])
  | OSetService v => (Build_cfg v (g_server_id g) (g_pv g), regs)
  | OSetServerID v => (Build_cfg (g_service g) v (g_pv g), regs)
  | OSetPV v => (Build_cfg (g_service g) (g_server_id g) v, regs)
  | _ => s
  end.
Definition surface_after (s : surface) (ops : list op) : surface := fold_left apply_mut ops s.

Record hstate := {
  h_surface : surface;
  h_once : option bytes }.    (* payload whose digest protocolHashOnce holds; None = not yet run *)
Definition h_init : hstate := {| h_surface := surface0; h_once := None |}.

Definition payload_of (s : surface) : option bytes :=
  match describe_ents (snd s) with
  | Some e => Some (hash_payload (protocol_name (fst s)) e) | None => None end.

(* Server.ProtocolHash() *)
Definition h_touch (st : hstate) : hstate :=
  match h_once st with
  | Some _ => st
  | None => {| h_surface := h_surface st; h_once := payload_of (h_surface st) |}
  end.

(* what one op lets the outside see *)
Inductive oobs :=
| BNone
| BDesc (status : Z)
        (r : option resp)         (* the response served *)
        (fresh : option resp)     (* describe of a brand-new server given only the mutators so far *)
        (other : option resp)     (* the SAME server asked over the other transport right after *)
        (payload : option bytes)  (* byte string the harness hashed *)
        (hash_ok frame_ok decode_ok : bool)
| BHash (preimage : option bytes). (* payload whose SHA-256 ProtocolHash() returned *)

Definition desc_obs (H : bytes -> bytes) (s : surface) (status : Z) (r : option resp) : oobs :=
  BDesc status r (build_describe H (fst s) (snd s)) (build_describe H (fst s) (snd s))
        (payload_of s) true true true.

Definition hstep (H : bytes -> bytes) (st : hstate) (o : op) : hstate * oobs :=
  let s := h_surface st in
  match o with
  | ODescPipe => (st, desc_obs H s 200 (pipe_describe H (fst s) (snd s)))
  | ODescHTTP => (st, desc_obs H s (fst (http_describe H (fst s) (snd s))) (snd (http_describe H (fst s) (snd s))))
  | OHash => let st' := h_touch st in (st', BHash (h_once st'))
  | OCall n =>
      (* serveOne answers the two framework methods before the method lookup,
         even when a user method was registered under such a name *)
      (if beqb n (str "__describe__") || beqb n (str "__transport_options__") then st
       else match last_reg n (snd s) with Some _ => h_touch st | None => st end, BNone)
  | _ => ({| h_surface := apply_mut s o; h_once := h_once st |}, BNone)
  end.

Fixpoint hist_run (H : bytes -> bytes) (st : hstate) (ops : list op) : list oobs :=
  match ops with
  | [] => []
  | o :: t => let (st', b) := hstep H st o in b :: hist_run H st' t
  end.

(* The seeded-defect shape, kept for the refutation witness only: describe
   shares ONE memo with ProtocolHash() and stamps the memoized digest. *)
Definition memo_resp (H : bytes -> bytes) (memo : option bytes) (r : option resp) : option resp :=
  match memo, r with
  | Some pl, Some p =>
      Some {| r_rows := r_rows p;
              r_meta := map (fun kv => if beqb (fst kv) c09_k_protocol_hash then (fst kv, H pl) else kv) (r_meta p) |}
  | _, _ => r
  end.
Definition hstep_memo (H : bytes -> bytes) (st : hstate) (o : op) : hstate * oobs :=
  if is_describe o then
    let st' := h_touch st in
    let s := h_surface st in
    (st', BDesc 200 (memo_resp H (h_once st') (build_describe H (fst s) (snd s)))
                (build_describe H (fst s) (snd s))
                (memo_resp H (h_once st') (build_describe H (fst s) (snd s))) (payload_of s)
                (opt_eqb beqb (h_once st') (payload_of s)) true true)
  else hstep H st o.
Fixpoint hist_run_memo (H : bytes -> bytes) (st : hstate) (ops : list op) : list oobs :=
  match ops with
  | [] => []
  | o :: t => let (st', b) := hstep_memo H st o in b :: hist_run_memo H st' t
  end.

(* one describe observation against the surface in force when it was served *)
Definition desc_ok (regs : list regcall) (b : oobs) : bool :=
  match b with
  | BDesc status (Some p) fresh other payload hash_ok frame_ok decode_ok =>
      rows_ok regs (r_rows p) && hash_ok && frame_ok && decode_ok
      && opt_eqb beqb payload (Some (ref_payload (meta_get c09_k_protocol_name (r_meta p)) (r_rows p)))
      && Z.eqb status 200
      && opt_eqb resp_eqb fresh (Some p)       (* digest included: = a fresh server with this surface *)
      && opt_eqb resp_eqb other (Some p)       (* pipe and HTTP of the same server agree, digest included *)
  | _ => false
  end.

(* every describe in the history meets the same spec; the surface is tracked
   from the INPUT ops alone *)
Fixpoint hist_ok (s : surface) (ops : list op) (obs : list oobs) : bool :=
  match ops, obs with
  | [], [] => true
  | o :: ops', b :: obs' =>
      (if is_describe o then desc_ok (snd s) b else true) && hist_ok (apply_mut s o) ops' obs'
  | _, _ => false
  end.

(* ---- correspondence interface -------------------------------------------- *)
Record input := {
  i_cfg : cfg;
  i_regs : list regcall;      (* first server, registration order *)
  i_regs2 : list regcall;     (* second server, same cfg *)
  i_sub : bool;               (* also served from a fresh OS process *)
  i_hist : list op;           (* a history run on one further server, starting from NewServer() *)
  i_http : list (bytes * bytes) }.   (* HttpServer setters applied before the HTTP describe of the
                                        first server; not an input of the model: see OHttpSet *)

Record obs := {
  o_pipe : option resp;            (* Server.Serve on buffers *)
  o_http_status : Z;
  o_http : option resp;            (* POST /__describe__ *)
  o_alt : option resp;             (* second server, pipe *)
  o_sub : option (option resp);    (* first server rebuilt in a fresh process *)
  o_payload : option bytes;        (* byte string the harness hashed *)
  o_hash_ok : bool;                (* lower-hex SHA-256(o_payload) = reported protocol_hash *)
  o_frame_ok : bool;               (* stream schema is the 8-column describe schema, one batch, nothing trailing *)
  o_decode_ok : bool;              (* every schema cell decodes to a schema Equal to the registered one *)
  o_accessor_ok : bool;            (* Server.ProtocolHash() = reported protocol_hash *)
  o_hist : list oobs }.            (* one entry per op of i_hist *)

Definition model_with (H : bytes -> bytes) (i : input) : obs :=
  let p := pipe_describe H (i_cfg i) (i_regs i) in
  {| o_pipe := p;
     o_http_status := fst (http_describe H (i_cfg i) (i_regs i));
     o_http := snd (http_describe H (i_cfg i) (i_regs i));
     o_alt := pipe_describe H (i_cfg i) (i_regs2 i);
     o_sub := if i_sub i then Some p else None;
     o_payload := match describe_ents (i_regs i) with
                  | Some e => Some (hash_payload (protocol_name (i_cfg i)) e) | None => None end;
     o_hash_ok := true; o_frame_ok := true; o_decode_ok := true; o_accessor_ok := true;
     o_hist := hist_run H h_init (i_hist i) |}.

(* the executable model cannot compute SHA-256: the digest value is masked when
   model and implementation are compared (its preimage o_payload is compared
   instead, and o_hash_ok ties the two on the implementation side) *)
Definition model (i : input) : obs := model_with (fun _ => []) i.

Definition mask_resp (r : resp) : resp :=
  {| r_rows := r_rows r;
     r_meta := map (fun kv => if beqb (fst kv) c09_k_protocol_hash then (fst kv, []) else kv) (r_meta r) |}.
Definition oresp_eqb (a b : option resp) : bool :=
  opt_eqb resp_eqb (option_map mask_resp a) (option_map mask_resp b).

Definition oobs_eqb (a b : oobs) : bool :=
  match a, b with
  | BNone, BNone => true
  | BDesc s r f x p h1 h2 h3, BDesc s' r' f' x' p' h1' h2' h3' =>
      Z.eqb s s' && oresp_eqb r r' && oresp_eqb f f' && oresp_eqb x x' && opt_eqb beqb p p'
      && Bool.eqb h1 h1' && Bool.eqb h2 h2' && Bool.eqb h3 h3'
  | BHash p, BHash p' => opt_eqb beqb p p'
  | _, _ => false
  end.

Definition obs_eqb (a b : obs) : bool :=
  oresp_eqb (o_pipe a) (o_pipe b) && Z.eqb (o_http_status a) (o_http_status b)
  && oresp_eqb (o_http a) (o_http b) && oresp_eqb (o_alt a) (o_alt b)
  && opt_eqb oresp_eqb (o_sub a) (o_sub b)
  && opt_eqb beqb (o_payload a) (o_payload b)
  && Bool.eqb (o_hash_ok a) (o_hash_ok b) && Bool.eqb (o_frame_ok a) (o_frame_ok b)
  && Bool.eqb (o_decode_ok a) (o_decode_ok b) && Bool.eqb (o_accessor_ok a) (o_accessor_ok b)
  && list_eqb oobs_eqb (o_hist a) (o_hist b).

(* the property, decided on one observation (digest values compared unmasked) *)
Definition spec_static (i : input) (o : obs) : bool :=
  match o_pipe o with
  | None => false
  | Some p =>
      rows_ok (i_regs i) (r_rows p)
      && o_frame_ok o && o_decode_ok o && o_hash_ok o && o_accessor_ok o
      && opt_eqb beqb (o_payload o)
           (Some (ref_payload (meta_get c09_k_protocol_name (r_meta p)) (r_rows p)))
      && Z.eqb (o_http_status o) 200 && opt_eqb resp_eqb (o_http o) (Some p)
      && (if perm_check (i_regs i) (i_regs2 i) then opt_eqb resp_eqb (o_alt o) (Some p) else true)
      && match o_sub o with None => true | Some s => opt_eqb resp_eqb s (Some p) end
  end.

Definition spec_ok (i : input) (o : obs) : bool :=
  spec_static i o && hist_ok surface0 (i_hist i) (o_hist o).
