(* Model/C04.v — a unary call's response: the handler's logs at or above the
   requested level in emission order, then exactly one result batch, or exactly
   one exception batch and no result (vgirpc/server_unary.go serveUnary,
   vgirpc/http_unary.go handleUnary, context.go ClientLog, log.go, wire.go). *)
From VR Require Export Lib.Frames Gen.Consts.
Open Scope N_scope.

(* log.go logLevelPriority: position in the regenerated level table, 6 if unknown *)
Fixpoint prio_in (tbl : list bytes) (l : bytes) (n : Z) : Z :=
  match tbl with
  | [] => 6%Z
  | x :: t => if beqb x l then n else prio_in t l (n + 1)%Z
  end.
Definition prio (l : bytes) : Z := prio_in log_levels l 0%Z.

Record logmsg := { lg_level : bytes; lg_msg : bytes; lg_extras : kvlist }.

(* how scripted user code ends; mirrors harness ErrSpec kinds *)
Inductive failure :=
| ERpc (ty msg : bytes)          (* return &RpcError{Type, Message} *)
| EPlain (msg : bytes)           (* return errors.New(msg) *)
| EWrapped (ty msg : bytes)      (* return fmt.Errorf("ctx: %w", &RpcError{..}) *)
| EPanic (shown : bytes).        (* panic(v); shown = fmt.Sprint(v) *)

Inductive method := UInt | UVoid.
Inductive transport := Pipe | Http.

Record input := {
  i_transport : transport; i_method : method; i_x : Z;
  i_reqid : bytes; i_loglevel : bytes;           (* request metadata; empty = absent *)
  i_logs : list logmsg; i_fail : option failure; i_value : Z }.

Record obs := {
  o_status : Z;                 (* HTTP status, 0 on pipe *)
  o_errhdr : bool;              (* X-VGI-RPC-Error: true (HTTP) *)
  o_streams : list stream }.

Definition colon_sp : bytes := [58; 32].
Definition rpc_error_text (ty msg : bytes) : bytes := ty ++ colon_sp ++ msg.  (* RpcError.Error() *)

Definition exc_type (f : failure) : bytes :=
  match f with
  | ERpc ty _ => ty
  | EPlain _ | EWrapped _ _ | EPanic _ => exc_runtime_error
  end.
Definition exc_msg (f : failure) : bytes :=
  match f with
  | ERpc ty m => rpc_error_text ty m
  | EPlain m => m
  | EWrapped ty m => wrap_prefix ++ rpc_error_text ty m
  | EPanic s => rpc_error_text exc_runtime_error (panic_prefix ++ s)
  end.

Definition effective_level (l : bytes) : bytes := match l with [] => level_trace | _ => l end.
Definition admitted (req : bytes) (m : logmsg) : bool := (prio (lg_level m) <=? prio (effective_level req))%Z.

Definition log_frame (reqid : bytes) (m : logmsg) : frame :=
  FLog (lg_level m) (lg_msg m) reqid (kv_sort (lg_extras m)).

Definition result_schema (m : method) : bytes := match m with UInt => schema_result_int64 | UVoid => [] end.

Definition final_frame (i : input) : frame :=
  match i_fail i with
  | Some f => FExc (exc_type f) (exc_msg f) (i_reqid i) []
  | None => match i_method i with
            | UInt => FData 1 [(i_value i + i_x i)%Z] []
            | UVoid => FData 0 [] []
            end
  end.

Definition response_frames (i : input) : list frame :=
  map (log_frame (i_reqid i)) (filter (admitted (i_loglevel i)) (i_logs i)) ++ [final_frame i].

Definition model (i : input) : obs :=
  {| o_status := match i_transport i with Pipe => 0%Z | Http => 200%Z end;
     o_errhdr := match i_transport i, i_fail i with Http, Some _ => true | _, _ => false end;
     o_streams := [ {| st_schema := result_schema (i_method i); st_frames := response_frames i |} ] |}.

Definition obs_eqb (a b : obs) : bool :=
  Z.eqb (o_status a) (o_status b) && Bool.eqb (o_errhdr a) (o_errhdr b)
  && list_eqb stream_eqb (o_streams a) (o_streams b).

(* ---- the property in decidable form, on one observation ------------------ *)
Definition log_key (f : frame) : bytes * bytes :=
  match f with FLog l m _ _ => (l, m) | _ => ([], []) end.
Definition frame_reqid (f : frame) : bytes :=
  match f with FLog _ _ r _ => r | FExc _ _ r _ => r | _ => [] end.

Definition log_extras (f : frame) : kvlist :=
  match f with FLog _ _ _ e => e | _ => [] end.

Definition spec_ok (i : input) (o : obs) : bool :=
  match o_streams o with
  | [s] =>
      let fs := st_frames s in
      let logs := removelast fs in
      let fin := last fs FToken in
      beqb (st_schema s) (result_schema (i_method i))
      (* everything before the last batch is a log batch: the admitted messages, in emission order *)
      && forallb is_log logs
      && list_eqb (pair_eqb beqb beqb) (map log_key logs)
           (map (fun m => (lg_level m, lg_msg m)) (filter (admitted (i_loglevel i)) (i_logs i)))
      (* ... each carrying exactly the extras it was raised with (as they were at that moment) *)
      && list_eqb kv_eqb (map log_extras logs)
           (map (fun m => kv_sort (lg_extras m)) (filter (admitted (i_loglevel i)) (i_logs i)))
      (* every log and exception batch echoes the request id *)
      && forallb (fun f => negb (is_log f || is_exc f) || beqb (frame_reqid f) (i_reqid i)) fs
      (* exactly one result batch holding the value, or exactly one exception and no result *)
      && match i_fail i with
         | None => Nat.eqb (count is_data fs) 1 && Nat.eqb (count is_exc fs) 0
                   && frame_eqb fin (match i_method i with UInt => FData 1 [(i_value i + i_x i)%Z] [] | UVoid => FData 0 [] [] end)
         | Some f => Nat.eqb (count is_exc fs) 1 && Nat.eqb (count is_data fs) 0
                     && match fin with FExc t _ _ _ => beqb t (exc_type f) | _ => false end
         end
  | _ => false
  end.
