(* Model/C26.v — token introspection route (vgirpc/introspect_token.go:
   EnableTokenIntrospection, handleIntrospectToken, readIntrospectToken,
   introspectRateLimiter.allow, introspectJWSShaped; vgirpc/http.go:authenticate).

   One case = a server configuration plus a HISTORY of requests against that one
   server.  A request carries its arrival time (ticks), the outcome of the
   scripted authenticator, the shape of its body and the outcome the scripted
   resolver would give.  The model threads the fixed-window limiter through the
   history and returns, per request, status / body / Retry-After and the ordered
   trace of the observable actions (authenticator called, limiter consulted,
   body read, resolver called with which credential).

   Oracles (supplied per input by the harness, checked by the correspondence):
   encoding/json (b_tok is what the body decodes to), net/http routing.
   No proofs in this file. *)
From VR Require Export Lib.Strs Gen.Consts.
Open Scope Z_scope.

(* ---- the JWS shape: \A[A-Za-z0-9_-]+\.[A-Za-z0-9_-]+\.[A-Za-z0-9_-]*\z ---- *)
Definition b64url (c : N) : bool :=
  (N.leb 65 c && N.leb c 90) || (N.leb 97 c && N.leb c 122) || (N.leb 48 c && N.leb c 57)
  || N.eqb c 45 || N.eqb c 95.
Definition DOT : N := 46%N.

Inductive jst := J0 | J1 | J2 | J3 | J4 | JX.
Definition jstep (st : jst) (c : N) : jst :=
  match st with
  | J0 => if b64url c then J1 else JX
  | J1 => if b64url c then J1 else if N.eqb c DOT then J2 else JX
  | J2 => if b64url c then J3 else JX
  | J3 => if b64url c then J3 else if N.eqb c DOT then J4 else JX
  | J4 => if b64url c then J4 else JX
  | JX => JX
  end.
Definition jaccept (st : jst) : bool := match st with J4 => true | _ => false end.
Definition jws_shaped (s : bytes) : bool := jaccept (fold_left jstep s J0).

Definition blen (s : bytes) : Z := Z.of_nat (length s).
Definition nonempty (s : bytes) : bool := match s with [] => false | _ => true end.

(* ---- configuration ----------------------------------------------------- *)
Record config := {
  c_call_enable : bool;        (* EnableTokenIntrospection was called *)
  c_has_resolver : bool;       (* cfg.Resolver != nil *)
  c_principals : list bytes;   (* cfg.Principals *)
  c_default_ttl : Z;           (* cfg.DefaultTTLSeconds *)
  c_rate : Z;                  (* cfg.RateLimitPerSecond *)
  c_has_auth : bool;           (* SetAuthenticate was called *)
  c_window : Z }.              (* limiter window, ticks *)

Definition enable_ok (c : config) : bool := c_has_resolver c && existsb nonempty (c_principals c).
Definition enabled (c : config) : bool := c_call_enable c && enable_ok c.
(* cfg.principals[caller]: the map holds the non-empty configured principals *)
Definition allowlisted (c : config) (p : bytes) : bool := nonempty p && existsb (beqb p) (c_principals c).
Definition eff_ttl (c : config) : Z := if c_default_ttl c <=? 0 then introspect_default_ttl else c_default_ttl c.
Definition eff_rate (c : config) : Z := if c_rate c <=? 0 then introspect_default_rate else c_rate c.

(* ---- one request ------------------------------------------------------- *)
Inductive auth_out :=
| ACtx (authenticated : bool) (principal : bytes)   (* a non-nil AuthContext and a nil error *)
| AUnavail (retry : Z)                               (* an AuthUnavailableError with this RetryAfter *)
| AReject                                            (* AuthFailure / RpcError Value|PermissionError *)
| AOther.                                            (* any other error *)

Record body := {
  b_clen : Z;                  (* r.ContentLength (-1 = unknown) *)
  b_len : Z;                   (* bytes the body reader would deliver *)
  b_tok : option bytes }.      (* json.Unmarshal into struct{Token string}: None = error, Some t = field value (absent = empty) *)

Record res_out := {
  r_err : option (option Z);   (* None = nil error; Some None = plain error; Some (Some n) = AuthUnavailableError{RetryAfter n} *)
  r_ok : bool; r_princ : bytes; r_name : bytes; r_ttl : Z }.

Record req := { q_now : Z; q_auth : auth_out; q_body : body; q_res : res_out }.

Definition retry_of (n : Z) : Z := if n >? 0 then n else auth_default_retry_after.

(* readIntrospectToken *)
Definition body_is_read (b : body) : bool := negb (b_clen b >? introspect_max_body_bytes).
Definition read_token (b : body) : option bytes :=
  if b_clen b >? introspect_max_body_bytes then None
  else if b_len b >? introspect_max_body_bytes then None
  else match b_tok b with
       | None => None
       | Some t => if negb (nonempty t) || (blen t >? introspect_max_token_chars) then None else Some t
       end.

(* ---- the fixed-window limiter ----------------------------------------- *)
Record lim := { l_ws : option Z; l_counts : bytes -> Z }.
Definition lim0 : lim := {| l_ws := None; l_counts := fun _ => 0 |}.
Definition upd (f : bytes -> Z) (k : bytes) (v : Z) : bytes -> Z := fun x => if beqb x k then v else f x.
Definition lim_reset (W now : Z) (s : lim) : bool :=
  match l_ws s with None => true | Some w => now - w >=? W end.
Definition lim_roll (W now : Z) (s : lim) : lim :=
  if lim_reset W now s then {| l_ws := Some now; l_counts := fun _ => 0 |} else s.
Definition lim_allow (W rate now : Z) (key : bytes) (s : lim) : bool * lim :=
  let s1 := lim_roll W now s in
  if l_counts s1 key >=? rate then (false, s1)
  else (true, {| l_ws := l_ws s1; l_counts := upd (l_counts s1) key (l_counts s1 key + 1) |}).

(* ---- observables ------------------------------------------------------- *)
Inductive action := AAuth | ALimit | ARead | AResolve (credential : bytes).
Inductive rbody :=
| BRaw (b : bytes)                          (* the response body, byte for byte *)
| BIdent (principal name : bytes) (ttl : Z) (* 200: exactly the three keys *)
| BAuthLayer.                               (* written by HttpServer.authenticate, not by this route *)

Record rout := {
  o_status : Z; o_body : rbody; o_retry : option Z; o_trace : list action;
  o_leak : bool }.  (* harness: the credential text occurs in the response or in a captured log record *)

Definition mk (st : Z) (b : rbody) (ra : option Z) (tr : list action) : rout :=
  {| o_status := st; o_body := b; o_retry := ra; o_trace := tr; o_leak := false |}.

Definition eff_auth (c : config) (q : req) : auth_out :=
  if c_has_auth c then q_auth q else ACtx false [].   (* Anonymous() *)

(* handleIntrospectToken, branch by branch *)
Definition handle (c : config) (s : lim) (q : req) : rout * lim :=
  if negb (enabled c) then (mk 404 (BRaw introspect_body_not_enabled) None [], s) else
  let tr0 := if c_has_auth c then [AAuth] else [] in
  match eff_auth c q with
  | AUnavail n => (mk 503 BAuthLayer (Some (retry_of n)) tr0, s)
  | AReject => (mk 401 BAuthLayer None tr0, s)
  | AOther => (mk 500 BAuthLayer None tr0, s)
  | ACtx au p =>
      if negb (au && allowlisted c p) then (mk 403 (BRaw introspect_body_403) None tr0, s) else
      let '(ok, s') := lim_allow (c_window c) (eff_rate c) (q_now q) p s in
      if negb ok then (mk 429 (BRaw introspect_body_429) (Some 1) (tr0 ++ [ALimit]), s') else
      let tr1 := tr0 ++ [ALimit] ++ (if body_is_read (q_body q) then [ARead] else []) in
      match read_token (q_body q) with
      | None => (mk 404 (BRaw introspect_body_404) None tr1, s')
      | Some cred =>
          if jws_shaped cred then (mk 404 (BRaw introspect_body_404) None tr1, s') else
          let tr2 := tr1 ++ [AResolve cred] in
          let r := q_res q in
          match r_err r with
          | Some e =>
              let ra := match e with Some n => retry_of n | None => auth_default_retry_after end in
              (mk 503 (BRaw introspect_body_503) (Some ra) tr2, s')
          | None =>
              if negb (r_ok r) then (mk 404 (BRaw introspect_body_404) None tr2, s') else
              let ttl := if r_ttl r <=? 0 then eff_ttl c else r_ttl r in
              (mk 200 (BIdent (r_princ r) (r_name r) ttl) None tr2, s')
          end
      end
  end.

Fixpoint run_from (c : config) (s : lim) (h : list req) : list rout :=
  match h with
  | [] => []
  | q :: t => let '(o, s') := handle c s q in o :: run_from c s' t
  end.
Definition run (c : config) (h : list req) : list rout := run_from c lim0 h.

(* ---- correspondence interface ----------------------------------------- *)
(* monomorphic term builders: the harness renders its cases with these so that
   elaborating a case creates no implicit-argument evars (a large polymorphic
   list literal is slow to elaborate) *)
Definition eb : bytes := [].
Definition brep (n : N) (c : N) : bytes := repeat c (N.to_nat n).   (* run-length form of long inputs *)
Definition bapp (a b : bytes) : bytes := a ++ b.
Definition noZ : option Z := None.
Definition someZ (z : Z) : option Z := Some z.
Definition noB : option bytes := None.
Definition someB (b : bytes) : option bytes := Some b.
Definition noE : option (option Z) := None.
Definition someE (e : option Z) : option (option Z) := Some e.
Definition pnil : list bytes := [].
Definition pcons (x : bytes) (l : list bytes) : list bytes := x :: l.
Definition tnil : list action := [].
Definition tcons (x : action) (l : list action) : list action := x :: l.
Definition qnil : list req := [].
Definition qcons (x : req) (l : list req) : list req := x :: l.
Definition onil : list rout := [].
Definition ocons (x : rout) (l : list rout) : list rout := x :: l.
Record input := { i_cfg : config; i_hist : list req }.
Record obs := { o_enable_err : bool; o_outs : list rout }.

Definition model (i : input) : obs :=
  {| o_enable_err := c_call_enable (i_cfg i) && negb (enable_ok (i_cfg i));
     o_outs := run (i_cfg i) (i_hist i) |}.

Definition action_eqb (a b : action) : bool :=
  match a, b with
  | AAuth, AAuth | ALimit, ALimit | ARead, ARead => true
  | AResolve x, AResolve y => beqb x y
  | _, _ => false
  end.
Definition rbody_eqb (a b : rbody) : bool :=
  match a, b with
  | BRaw x, BRaw y => beqb x y
  | BIdent p n t, BIdent p' n' t' => beqb p p' && beqb n n' && (t =? t')
  | BAuthLayer, BAuthLayer => true
  | _, _ => false
  end.
Definition rout_eqb (a b : rout) : bool :=
  (o_status a =? o_status b) && rbody_eqb (o_body a) (o_body b)
  && opt_eqb Z.eqb (o_retry a) (o_retry b) && list_eqb action_eqb (o_trace a) (o_trace b)
  && Bool.eqb (o_leak a) (o_leak b).
Definition obs_eqb (a b : obs) : bool :=
  Bool.eqb (o_enable_err a) (o_enable_err b) && list_eqb rout_eqb (o_outs a) (o_outs b).

(* ---- the property in decidable form (spec_ok) --------------------------
   Evaluated on the IMPLEMENTATION's observables.  It uses the predicates the
   property is stated with (enabled, allowlisted, JWS-shaped, oversized, the
   window partition) but not [handle] / [lim_allow]. *)

(* the caller may introspect: the authenticator returned an authenticated,
   allowlisted context *)
Definition authorized (c : config) (q : req) : bool :=
  match eff_auth c q with ACtx au p => au && allowlisted c p | _ => false end.
Definition caller (c : config) (q : req) : bytes :=
  match eff_auth c q with ACtx _ p => p | _ => [] end.

(* what the subject stage has to answer, as a function of the resolver's answer
   only (the credential text matters only through: usable / JWS-shaped) *)
Inductive answer := AnsUnres | AnsUnavail (retry : Z) | AnsIdent (p n : bytes) (ttl : Z).
Definition res_answer (c : config) (r : res_out) : answer :=
  match r_err r with
  | Some (Some n) => AnsUnavail (retry_of n)
  | Some None => AnsUnavail auth_default_retry_after
  | None => if r_ok r then AnsIdent (r_princ r) (r_name r) (if r_ttl r <=? 0 then eff_ttl c else r_ttl r)
            else AnsUnres
  end.
Definition eff_answer (c : config) (q : req) : answer :=
  match read_token (q_body q) with
  | None => AnsUnres
  | Some cred => if jws_shaped cred then AnsUnres else res_answer c (q_res q)
  end.

(* the fixed-window partition, a function of the input alone: window index of
   every request (only authorized requests reach the limiter and move it) *)
Fixpoint windows (c : config) (ws : option Z) (k : nat) (h : list req) : list nat :=
  match h with
  | [] => []
  | q :: t =>
      if enabled c && authorized c q then
        let reset := match ws with None => true | Some w => q_now q - w >=? c_window c end in
        let ws' := if reset then Some (q_now q) else ws in
        let k' := if reset then S k else k in
        k' :: windows c ws' k' t
      else k :: windows c ws k t
  end.

Definition is_resolve (a : action) : bool := match a with AResolve _ => true | _ => false end.
Definition is_subject (a : action) : bool := match a with ARead | AResolve _ => true | _ => false end.
Definition is_limit (a : action) : bool := match a with ALimit => true | _ => false end.

(* an introspection is ADMITTED when an authorized caller is not turned away by
   the limiter *)
Definition admitted (c : config) (q : req) (o : rout) : bool :=
  enabled c && authorized c q && negb (o_status o =? 429).

(* every resolver invocation: with the request's own credential, which is
   usable and not JWS-shaped; after the limiter; at most once *)
Fixpoint resolves_ok (b : body) (seen_limit : bool) (tr : list action) : bool :=
  match tr with
  | [] => true
  | AResolve cr :: t =>
      seen_limit
      && match read_token b with Some cr' => beqb cr cr' | None => false end
      && negb (jws_shaped cr) && (0 <? blen cr) && (blen cr <=? introspect_max_token_chars)
      && negb (existsb is_resolve t) && resolves_ok b seen_limit t
  | ALimit :: t => resolves_ok b true t
  | _ :: t => resolves_ok b seen_limit t
  end.

Definition spec_req (c : config) (q : req) (o : rout) : bool :=
  negb (o_leak o) &&
  if negb (enabled c) then
    (o_status o =? 404) && rbody_eqb (o_body o) (BRaw introspect_body_not_enabled)
    && match o_trace o with [] => true | _ => false end
  else if negb (authorized c q) then
    negb (existsb is_subject (o_trace o)) && negb (existsb is_limit (o_trace o))
    && match eff_auth c q with
       | ACtx _ _ => (o_status o =? 403) && rbody_eqb (o_body o) (BRaw introspect_body_403)
       | AUnavail _ => o_status o =? 503
       | AReject => o_status o =? 401
       | AOther => o_status o =? 500
       end
  else
    resolves_ok (q_body q) false (o_trace o)
    && (if o_status o =? 429 then negb (existsb is_subject (o_trace o))
        else match eff_answer c q with
             | AnsUnres => (o_status o =? 404) && rbody_eqb (o_body o) (BRaw introspect_body_404)
             | _ => true
             end).

Fixpoint spec_reqs (c : config) (h : list req) (os : list rout) : bool :=
  match h, os with
  | [], [] => true
  | q :: h', o :: os' => spec_req c q o && spec_reqs c h' os'
  | _, _ => false
  end.

(* per caller and window: how many admitted *)
Fixpoint count_adm (c : config) (who : bytes) (k : nat) (h : list req) (os : list rout) (ws : list nat) : Z :=
  match h, os, ws with
  | q :: h', o :: os', w :: ws' =>
      (if admitted c q o && beqb (caller c q) who && Nat.eqb w k then 1 else 0) + count_adm c who k h' os' ws'
  | _, _, _ => 0
  end.

Fixpoint rate_ok_at (c : config) (h0 : list req) (os0 : list rout) (ws0 : list nat)
         (h : list req) (ws : list nat) : bool :=
  match h, ws with
  | q :: h', w :: ws' =>
      (count_adm c (caller c q) w h0 os0 ws0 <=? eff_rate c) && rate_ok_at c h0 os0 ws0 h' ws'
  | _, _ => true
  end.

Definition spec_ok (i : input) (o : obs) : bool :=
  let c := i_cfg i in let h := i_hist i in let ws := windows c None O h in
  Bool.eqb (o_enable_err o) (c_call_enable c && negb (enable_ok c))
  && spec_reqs c h (o_outs o)
  && rate_ok_at c h (o_outs o) ws h ws.
