(* Model/C35.v — shared-memory pointer batches (vgirpc/shm.go: IsShmPointerBatch,
   ResolveShmBatch, ReadBatch, MaybeWriteToShm, makeShmPointerBatch, the layout
   discriminators schemaHasTopLevelDictionary / schemaHasNestedDictionary,
   serializeForShm / skipOneIPCMessage / readMessageBodyLength and the reader's
   schema-prefix + EOS reconstruction).

   Integers are unbounded Z; Go's uint64 / int wrap is written explicitly
   ([wrap64], [s64]).  Partial operations (slicing) are [option] / an explicit
   Panic constructor.  The allocator is NOT modelled (property C34): the region a
   write obtained is an input ([r_alloc]).  Arrow IPC encode/decode is not
   modelled: the encoder's bytes are inputs ([r_full], [r_schema_only]) and the
   decoder's verdict is only predicted for regions that cover a written slot. *)
From VR Require Export Lib.Strs Gen.Consts.
Open Scope Z_scope.

Definition TWO64 : Z := 18446744073709551616.
Definition TWO63 : Z := 9223372036854775808.
Definition wrap64 (z : Z) : Z := z mod TWO64.                       (* uint64 arithmetic *)
Definition s64 (z : Z) : Z := let w := z mod TWO64 in if w <? TWO63 then w else w - TWO64.  (* int(uint64) *)
Definition zlen {A} (l : list A) : Z := Z.of_nat (length l).

(* ---- arrow.Metadata: ordered key/value list, GetValue = first match ------ *)
Definition meta := list (bytes * bytes).
Fixpoint lookup (k : bytes) (md : meta) : option bytes :=
  match md with
  | [] => None
  | (k', v) :: t => if beqb k' k then Some v else lookup k t
  end.
Definition has_key (k : bytes) (md : meta) : bool := match lookup k md with Some _ => true | None => false end.
Definition get (k : bytes) (md : meta) : bytes := match lookup k md with Some v => v | None => [] end.
Definition is_ptr_key (k : bytes) : bool := beqb k c35_k_off || beqb k c35_k_len.
Definition strip_ptr (md : meta) : meta := filter (fun kv => negb (is_ptr_key (fst kv))) md.
Definition resolved_md (md : meta) (name : bytes) : meta := strip_ptr md ++ [(c35_k_source, name)].
Definition md_eqb : meta -> meta -> bool := list_eqb (pair_eqb beqb beqb).

(* ---- strconv.ParseUint(s, 10, 64) and strconv.Atoi on a 64-bit int -------- *)
Definition is_digit (c : N) : bool := ((48 <=? c) && (c <=? 57))%N.
Definition MAXU : Z := TWO64 - 1.
Definition CUTOFF : Z := MAXU / 10 + 1.
(* the digit loop of ParseUint: None = syntax or range error *)
Fixpoint pu_loop (n : Z) (s : bytes) : option Z :=
  match s with
  | [] => Some n
  | c :: t =>
      if negb (is_digit c) then None                        (* ErrSyntax *)
      else if CUTOFF <=? n then None                         (* ErrRange: n*10 overflows *)
      else let n10 := wrap64 (n * 10) in
           let n1 := wrap64 (n10 + Z.of_N (c - 48)) in
           if (n1 <? n10) || (MAXU <? n1) then None          (* ErrRange: n+d overflows *)
           else pu_loop n1 t
  end.
Definition parse_uint (s : bytes) : option Z := match s with [] => None | _ => pu_loop 0 s end.
(* Atoi: the <19-byte fast path and ParseInt(s,10,0) agree; this is ParseInt *)
Definition parse_int (s : bytes) : option Z :=
  match s with
  | [] => None
  | c :: t =>
      let neg := (c =? 45)%N in
      let body := if (c =? 43)%N || neg then t else s in
      match parse_uint body with
      | None => None
      | Some un =>
          if negb neg && (TWO63 <=? un) then None
          else if neg && (TWO63 <? un) then None
          else Some (if neg then - un else un)
      end
  end.
(* strconv.FormatUint / Itoa for non-negative values *)
Fixpoint dec_digits (fuel : nat) (n : Z) (acc : bytes) : bytes :=
  match fuel with
  | O => acc
  | S f => let acc' := (48 + Z.to_N (n mod 10))%N :: acc in
           if n <? 10 then acc' else dec_digits f (n / 10) acc'
  end.
Definition dec_str (n : Z) : bytes := dec_digits 24 n [].

(* ---- ShmSegment.ReadBatch up to the slice handed to the IPC reader ----- *)
Inductive rd := RClosed | RBounds | RPanic | RSlice (off len : Z).
Definition read_region (closed : bool) (size off len : Z) : rd :=
  if closed then RClosed else
  let e := wrap64 (off + wrap64 len) in            (* end := offset + uint64(length) *)
  if size <? e then RBounds else                   (* end > uint64(s.size) *)
  (* s.data[offset:end]; len(data) = cap(data) = size: Go panics unless off <= end <= cap *)
  if (off <=? e) && (e <=? size) then RSlice off (e - off) else RPanic.

(* ---- IsShmPointerBatch / ResolveShmBatch ---------------------------------- *)
Definition is_ptr (rows : Z) (md : meta) : bool :=
  (rows =? 0) && has_key c35_k_off md && negb (has_key c35_k_loglevel md).

Inductive res :=
| Unchanged | EBadOff | EBadLen | EClosed | EBounds | ERecovered
| Read (off len : Z) (md' : meta).   (* region [off, off+len) is handed to the IPC reader *)

Definition resolve (seg closed : bool) (size : Z) (name : bytes) (rows : Z) (md : meta) : res :=
  if negb seg || negb (is_ptr rows md) then Unchanged else
  match parse_uint (get c35_k_off md) with
  | None => EBadOff
  | Some off =>
      match parse_int (get c35_k_len md) with
      | None => EBadLen
      | Some len =>
          match read_region closed size off len with
          | RClosed => EClosed
          | RBounds => EBounds
          | RPanic => ERecovered                 (* slice panic, caught by the deferred recover *)
          | RSlice o l => Read o l (resolved_md md name)
          end
      end
  end.

(* ---- schema shapes and the writer / reader layout discriminators ---------- *)
Inductive ty := TInt | TStr | TDict | TList (t : ty) | TStruct (ts : list ty).
Fixpoint ty_has_dict (t : ty) : bool :=
  match t with
  | TDict => true
  | TList e => ty_has_dict e
  | TStruct ts => existsb ty_has_dict ts
  | _ => false
  end.
Definition is_dict (t : ty) : bool := match t with TDict => true | _ => false end.
Definition has_top_dict (s : list ty) : bool := existsb is_dict s.
Definition has_nested_dict (s : list ty) : bool := negb (has_top_dict s) && existsb ty_has_dict s.
Inductive wlayout := WStripped | WFull | WFast.
Definition writer_layout (s : list ty) : wlayout :=
  if has_top_dict s then WStripped else if has_nested_dict s then WFull else WFast.

(* ---- IPC framing that shm.go itself adds / removes ------------------------ *)
Definition EOS : bytes := c35_ipc_eos.
Definition sub (b : bytes) (a n : Z) : bytes := firstn (Z.to_nat n) (skipn (Z.to_nat a) b).
Fixpoint le_dec (b : bytes) : Z := match b with [] => 0 | x :: t => Z.of_N x + 256 * le_dec t end.
Definition rdle (b : bytes) (pos n : Z) : Z := le_dec (sub b pos n).
Definition s32 (z : Z) : Z := if z <? 2147483648 then z else z - 4294967296.

(* readMessageBodyLength: hand-walk of the flatbuffer Message table *)
Definition body_len (m : bytes) : option Z :=
  let n := zlen m in
  if n <? 4 then None else
  let tp := rdle m 0 4 in
  if n <=? tp then None else
  (* fbFieldPos (flatbuffers Table.Offset) for vtable slot 10 *)
  if n <? tp + 4 then None else
  let vp := tp - s32 (rdle m tp 4) in
  if (vp <? 0) || (n <? vp + 2) then None else
  if rdle m vp 2 <=? 10 then Some 0 else            (* slot >= vtableSize: field absent *)
  if n <? vp + 12 then None else
  let fo := rdle m (vp + 10) 2 in
  if fo =? 0 then Some 0 else
  if n <? tp + fo + 8 then None else
  Some (s64 (rdle m (tp + fo) 8)).

(* skipOneIPCMessage *)
Definition CONT : bytes := [255; 255; 255; 255]%N.
Definition skip_msg (buf : bytes) : option Z :=
  let n := zlen buf in
  if n <? 8 then None else
  let p0 := if has_prefix CONT buf then 4 else 0 in
  let ml := rdle buf p0 4 in
  let pos := p0 + 4 in
  if ml =? 0 then None else
  if n <? pos + ml then None else
  match body_len (sub buf pos ml) with
  | None => None
  | Some bl => Some (s64 (pos + ml + bl))
  end.

Definition has_suffix (suf s : bytes) : bool := has_prefix (rev suf) (rev s).
(* Go slice expression b[lo:hi]; None = run-time panic *)
Definition slice (b : bytes) (lo hi : Z) : option bytes :=
  if (0 <=? lo) && (lo <=? hi) && (hi <=? zlen b) then Some (sub b lo (hi - lo)) else None.

Inductive wres := WErr | WPanic | WBytes (b : bytes).
(* serializeForShm on the full stream *)
Definition strip_stream (full : bytes) : wres :=
  match skip_msg full with
  | None => WErr
  | Some k =>
      if negb (has_suffix EOS full) then WErr else
      match slice full k (zlen full - zlen EOS) with
      | None => WPanic
      | Some b => WBytes b
      end
  end.
(* the schema-message prefix: schemaOnly[:len-8] (ReadBatch; cachedSchemaBytes also checks the suffix) *)
Definition schema_prefix (so : bytes) : option bytes :=
  if zlen so <? zlen EOS then None else Some (sub so 0 (zlen so - zlen EOS)).
Definition reconstruct (so region : bytes) : option bytes :=
  match schema_prefix so with None => None | Some p => Some (p ++ region ++ EOS) end.
(* what AllocateAndWrite stores for a batch whose complete IPC stream is [full];
   fast path: cached schema message ++ payload ++ EOS, byte-identical to [full] (oracle) *)
Definition stored_region (s : list ty) (full : bytes) : wres :=
  match writer_layout s with WStripped => strip_stream full | _ => WBytes full end.
(* what ReadBatch hands to the IPC reader *)
Definition reader_input (s : list ty) (so region : bytes) : option bytes :=
  if has_top_dict s then reconstruct so region else Some region.

Definition framing_ok (s : list ty) (full so : bytes) : bool :=
  match stored_region s full with
  | WBytes st => match reader_input s so st with Some ri => beqb ri full | None => false end
  | _ => false
  end.

(* ---- correspondence interface -------------------------------------------- *)
Record ptr_case := {
  p_seg : bool; p_closed : bool; p_size : Z; p_name : bytes;
  p_rows : Z; p_md : meta;
  p_schema : list ty;               (* the pointer batch's schema shape *)
  p_slots : list (Z * Z * bool)     (* regions that hold a batch of that schema, and whether the 4
                                       bytes after the region (inside the segment) are all zero *)
}.
Record rt_case := {
  r_seg : bool; r_rows : Z; r_bufsize : Z; r_thresh : Z;
  r_schema : list ty; r_md : meta;
  r_size : Z; r_name : bytes;
  r_alloc : option (Z * Z);   (* allocator oracle: the table entry the write obtained *)
  r_full : bytes;             (* ipc.Writer output for the batch (schema msg, dict msgs, batch msg, EOS) *)
  r_schema_only : bytes       (* ipc.Writer output for the bare schema (schema msg, EOS) *)
}.
(* one write of a history on ONE segment.  The segment memoises the schema message of the fast
   path in schemaCache, keyed by the identity of the *arrow.Schema object: [w_key] is that
   identity (two writes carry the same key iff they passed the very same schema object). *)
Record wr := {
  w_key : N;
  w_schema : list ty;          (* schema shape, as the layout discriminators see it *)
  w_sm : bytes;                (* ipc.Writer's schema message for this write's schema (schema-only stream minus EOS) *)
  w_body : bytes;              (* ipc.Writer's dictionary + record-batch messages for this write's batch *)
  w_md : meta;                 (* the batch's custom metadata *)
  w_alloc : option (Z * Z)     (* allocator oracle *)
}.
Record hist_case := { h_size : Z; h_name : bytes; h_writes : list wr }.
Inductive input := IPtr (c : ptr_case) | IRt (c : rt_case) | ISkip (buf : bytes) | IHist (c : hist_case).

Inductive robs :=
| OUnchanged | OErrOff | OErrLen | OErrClosed | OErrRecovered | OErrOther | OPanic
| OResolved (off : Z) (md : meta) (eq : bool)
| OReadAny (off len : Z) (md : meta).      (* model only: in-segment region, decoder verdict not predicted *)
Inductive obs :=
| OPtr (r : robs) (after_ok : bool)
       (again : robs)        (* the SAME pointer batch object resolved a second time *)
       (alias : robs)        (* then another pointer batch built from the same arrow.Metadata object *)
       (md_after : meta)     (* the pointer batch's own metadata after the first resolve *)
| ORt2 (o : obs) (again : robs)   (* an ORt observation, and its pointer batch resolved a second time *)
| ORt (replaced werr : bool) (ptr_rows : Z) (ptr_md : meta) (stored : bytes) (r : robs)
| OSkip (k : option Z)
| OHist (ws : list wobs)
with wobs := WObs (replaced : bool) (stored : bytes) (r : robs).

(* A slot (o, l, e): the region (o, l) was written by MaybeWriteToShm; it decodes to the written
   batch, and so does every region (o, l') with 0 <= e <= l' (e < 0: no longer region is predicted).
   readIPCStream first runs checkIPCStreamFraming over the bytes handed to the reader: a complete
   stream (fast / full layout) ends at its own EOS, so anything may follow it; a stripped region
   is followed by the synthesized EOS, so the bytes after the record-batch message must themselves
   be an end-of-stream word (4 zero bytes = legacy EOS) — otherwise the verdict is not predicted. *)
Definition slot := (Z * Z * Z)%type.
Definition eff_slots (schema : list ty) (slots : list (Z * Z * bool)) : list slot :=
  map (fun s => match s with (o, l, z) =>
         (o, l, if has_top_dict schema then (if z : bool then l + 4 else -1) else l + 1) end) slots.
Definition covers (slots : list slot) (off len : Z) : bool :=
  existsb (fun s => match s with (o, l, e) =>
             (o =? off) && ((l =? len) || ((0 <=? e) && (e <=? len))) end) slots.
Definition robs_of (slots : list slot) (r : res) : robs :=
  match r with
  | Unchanged => OUnchanged | EBadOff => OErrOff | EBadLen => OErrLen | EClosed => OErrClosed
  | EBounds => OErrOther | ERecovered => OErrRecovered
  | Read o l md' => if covers slots o l then OResolved o md' true else OReadAny o l md'
  end.

Definition run_ptr (c : ptr_case) : robs :=
  robs_of (eff_slots (p_schema c) (p_slots c)) (resolve (p_seg c) (p_closed c) (p_size c) (p_name c) (p_rows c) (p_md c)).

Definition ptr_md_of (off len : Z) (md : meta) : meta :=
  (c35_k_off, dec_str off) :: (c35_k_len, dec_str len) :: strip_ptr md.

Definition run_rt (c : rt_case) : obs :=
  (* not replaced: the caller gets the very same batch back; resolving it again is
     ResolveShmBatch on that batch (a zero-row batch with a stale offset key IS a pointer) *)
  let unchanged := ORt false false 0 [] []
       (robs_of [] (resolve (r_seg c) false (r_size c) (r_name c) (r_rows c) (r_md c))) in
  if negb (r_seg c) || (r_rows c =? 0) || (r_bufsize c <? r_thresh c) then unchanged else
  match r_alloc c with
  | None => unchanged
  | Some (off, len) =>
      match stored_region (r_schema c) (r_full c) with
      | WBytes st =>
          let pmd := ptr_md_of off (zlen st) (r_md c) in
          let r := match resolve true false (r_size c) (r_name c) 0 pmd with
                   | Read o l md' =>
                       match reader_input (r_schema c) (r_schema_only c) st with
                       | Some ri => OResolved o md' (beqb ri (r_full c) && (l =? zlen st))
                       | None => OErrOther
                       end
                   | other => robs_of [] other
                   end in
          ORt true false 0 pmd st r
      | _ => ORt false true 0 [] [] OUnchanged
      end
  end.

(* ---- histories on one segment: the schema-message cache --------------------- *)
Definition wfull (w : wr) : bytes := w_sm w ++ w_body w ++ EOS.    (* ipc.Writer's complete stream *)
Definition wso (w : wr) : bytes := w_sm w ++ EOS.                  (* writeSchemaOnlyStream *)
Definition cache := list (N * bytes).
Fixpoint cache_get (k : N) (c : cache) : option bytes :=
  match c with [] => None | (k', v) :: t => if (k' =? k)%N then Some v else cache_get k t end.
(* cachedSchemaBytes on a miss: the schema-only stream minus its trailing EOS *)
Definition cached_prefix (so : bytes) : option bytes :=
  if (zlen so <? zlen EOS) || negb (has_suffix EOS so) then None
  else Some (sub so 0 (zlen so - zlen EOS)).
(* AllocateAndWrite: what is stored, and the cache afterwards.  A write that obtained no
   region ([w_alloc] = None: canFitLocked refused) returns before touching the cache. *)
Definition write_step (c : cache) (w : wr) : cache * wres :=
  match w_alloc w with
  | None => (c, WErr)
  | Some _ =>
      match writer_layout (w_schema w) with
      | WStripped => (c, strip_stream (wfull w))
      | WFull => (c, WBytes (wfull w))
      | WFast =>
          match cache_get (w_key w) c with
          | Some sm => (c, WBytes (sm ++ w_body w ++ EOS))
          | None =>
              match cached_prefix (wso w) with
              | None => (c, WErr)
              | Some sm => ((w_key w, sm) :: c, WBytes (sm ++ w_body w ++ EOS))
              end
          end
      end
  end.
Fixpoint run_writes (c : cache) (ws : list wr) : list wres :=
  match ws with
  | [] => []
  | w :: t => let cr := write_step c w in snd cr :: run_writes (fst cr) t
  end.
(* what a write stores on a segment that has seen nothing before *)
Definition fresh_store (w : wr) : wres :=
  match w_alloc w with None => WErr | Some _ => stored_region (w_schema w) (wfull w) end.

Definition wobs_of (size : Z) (name : bytes) (w : wr) (res : wres) : wobs :=
  match w_alloc w, res with
  | Some (off, len), WBytes st =>
      let pmd := ptr_md_of off (zlen st) (w_md w) in
      WObs true st
        (match resolve true false size name 0 pmd with
         | Read o l md' =>
             match reader_input (w_schema w) (wso w) st with
             | Some ri => OResolved o md' (beqb ri (wfull w) && (l =? zlen st))
             | None => OErrOther
             end
         | other => robs_of [] other
         end)
  | _, _ => WObs false [] OUnchanged     (* same batch handed back; it has rows, so it is no pointer *)
  end.
Fixpoint zip_wobs (size : Z) (name : bytes) (ws : list wr) (rs : list wres) : list wobs :=
  match ws, rs with
  | w :: ws', r :: rs' => wobs_of size name w r :: zip_wobs size name ws' rs'
  | _, _ => []
  end.
Definition run_hist (c : hist_case) : obs :=
  OHist (zip_wobs (h_size c) (h_name c) (h_writes c) (run_writes [] (h_writes c))).

Definition rt_r (o : obs) : robs := match o with ORt _ _ _ _ _ r => r | _ => OPanic end.

Definition model (i : input) : obs :=
  match i with
  (* ResolveShmBatch is a function of the segment and of the batch it is handed and leaves
     both as they were: a repeat on the same object, or on an alias, answers the same *)
  | IPtr c => OPtr (run_ptr c) true (run_ptr c) (run_ptr c) (p_md c)
  | IRt c => let o := run_rt c in ORt2 o (rt_r o)
  | ISkip b => OSkip (skip_msg b)
  | IHist c => run_hist c
  end.

Definition robs_eqb (m o : robs) : bool :=
  match m, o with
  | OUnchanged, OUnchanged | OErrOff, OErrOff | OErrLen, OErrLen | OErrClosed, OErrClosed
  | OErrRecovered, OErrRecovered | OErrOther, OErrOther | OPanic, OPanic => true
  | OResolved a m1 e1, OResolved b m2 e2 => (a =? b) && md_eqb m1 m2 && Bool.eqb e1 e2
  | OReadAny a _ m1, OResolved b m2 _ => (a =? b) && md_eqb m1 m2
  | OReadAny _ _ _, OErrOther | OReadAny _ _ _, OErrRecovered => true    (* decoder rejected / panicked on the bytes *)
  | _, _ => false
  end.
Definition obs_eqb1 (m o : obs) : bool :=
  match m, o with
  | OPtr r1 a1 g1 l1 d1, OPtr r2 a2 g2 l2 d2 =>
      robs_eqb r1 r2 && Bool.eqb a1 a2 && robs_eqb g1 g2 && robs_eqb l1 l2 && md_eqb d1 d2
  | ORt p1 w1 n1 m1 s1 r1, ORt p2 w2 n2 m2 s2 r2 =>
      Bool.eqb p1 p2 && Bool.eqb w1 w2 && (n1 =? n2) && md_eqb m1 m2 && beqb s1 s2 && robs_eqb r1 r2
  | OSkip a, OSkip b => opt_eqb Z.eqb a b
  | OHist a, OHist b =>
      list_eqb (fun x y => match x, y with WObs p1 s1 r1, WObs p2 s2 r2 =>
                  Bool.eqb p1 p2 && beqb s1 s2 && robs_eqb r1 r2 end) a b
  | _, _ => false
  end.

Definition obs_eqb (m o : obs) : bool :=
  match m, o with
  | ORt2 o1 g1, ORt2 o2 g2 => obs_eqb1 o1 o2 && robs_eqb g1 g2
  | _, _ => obs_eqb1 m o
  end.

(* ---- the property, decided on one observation ----------------------------- *)
Definition is_err (r : robs) : bool :=
  match r with OErrOff | OErrLen | OErrClosed | OErrRecovered | OErrOther => true | _ => false end.
Definition size_ok (size : Z) : bool := (0 <=? size) && (size <? TWO63).

(* a pointer (offset string, length string) names a region inside the segment *)
Definition in_segment (size : Z) (offs lens : bytes) : option (Z * Z) :=
  match parse_uint offs, parse_int lens with
  | Some off, Some len => if (0 <=? len) && (off + len <=? size) then Some (off, len) else None
  | _, _ => None
  end.

Definition spec_ptr (seg closed : bool) (size : Z) (name : bytes) (rows : Z) (md : meta)
    (slots : list slot) (r : robs) : bool :=
  if negb seg || negb (is_ptr rows md) then match r with OUnchanged => true | _ => false end
  else match in_segment size (get c35_k_off md) (get c35_k_len md) with
       | Some (off, len) =>
           if closed then is_err r else
           match r with
           | OResolved o md' eq =>
               (o =? off) && md_eqb md' (resolved_md md name) && (eq || negb (covers slots off len))
           | OErrOther | OErrRecovered => negb (covers slots off len)
           | OReadAny o l md' =>     (* model only: exactly this region reaches the decoder *)
               (o =? off) && (l =? len) && md_eqb md' (resolved_md md name) && negb (covers slots off len)
           | _ => false
           end
       | None => is_err r      (* malformed / negative / overflowing / out of segment: an error, nothing else *)
       end.

(* premise on a history: a cache key identifies the schema message (same *arrow.Schema object,
   same schema) *)
Definition key_sound_b (ws : list wr) : bool :=
  forallb (fun w1 => forallb (fun w2 => negb (w_key w1 =? w_key w2)%N || beqb (w_sm w1) (w_sm w2)) ws) ws.
(* the property for ONE write of a history, with no reference to the other writes: it was
   replaced and its pointer resolves to the batch that this write passed in *)
Definition spec_w (size : Z) (name : bytes) (w : wr) (o : wobs) : bool :=
  match o with WObs replaced stored r =>
    match w_alloc w with
    | None => negb replaced && match r with OUnchanged => true | _ => false end
    | Some (off, len) =>
        if negb ((c35_header_size <=? off) && (off + len <=? size) && (len =? zlen stored)) then true else
        if negb (framing_ok (w_schema w) (wfull w) (wso w)) then true else
        if has_key c35_k_loglevel (w_md w) then true else
        replaced && match r with
                    | OResolved o' md' eq => (o' =? off) && eq && md_eqb md' (resolved_md (w_md w) name)
                    | _ => false
                    end
    end
  end.
Fixpoint spec_ws (size : Z) (name : bytes) (ws : list wr) (os : list wobs) : bool :=
  match ws, os with
  | [], [] => true
  | w :: ws', o :: os' => spec_w size name w o && spec_ws size name ws' os'
  | _, _ => false
  end.

(* resolving again must answer exactly what the first resolve answered *)
Definition robs_same (a b : robs) : bool :=
  match a, b with
  | OUnchanged, OUnchanged | OErrOff, OErrOff | OErrLen, OErrLen | OErrClosed, OErrClosed
  | OErrRecovered, OErrRecovered | OErrOther, OErrOther | OPanic, OPanic => true
  | OResolved a m1 e1, OResolved b m2 e2 => (a =? b) && md_eqb m1 m2 && Bool.eqb e1 e2
  | OReadAny a l1 m1, OReadAny b l2 m2 => (a =? b) && (l1 =? l2) && md_eqb m1 m2
  | _, _ => false
  end.

Definition spec_rt (c : rt_case) (o : obs) : bool :=
  match o with
  | ORt replaced werr prows pmd stored r =>
      let same := negb replaced && negb werr
                  && spec_ptr (r_seg c) false (r_size c) (r_name c) (r_rows c) (r_md c) [] r in
      negb (size_ok (r_size c)) ||
      (if negb (r_seg c) || (r_rows c =? 0) || (r_bufsize c <? r_thresh c) then same
       else match r_alloc c with
            | None => same
            | Some (off, len) =>
                if werr then negb replaced else
                (* allocator premise (C34): the region lies in the data area *)
                if negb ((c35_header_size <=? off) && (off + len <=? r_size c) && (len =? zlen stored)) then true else
                (* premise on the encoder's bytes: the framing round trip holds for them
                   (Proofs: strip_reconstruct shows it for every delimited schema-message ++ rest ++ EOS) *)
                if negb (framing_ok (r_schema c) (r_full c) (r_schema_only c)) then true else
                (* premise: a data batch carries no log-level key (log batches have zero rows) *)
                if has_key c35_k_loglevel (r_md c) then true else
                replaced && (prows =? 0)
                && opt_eqb (pair_eqb Z.eqb Z.eqb) (in_segment (r_size c) (get c35_k_off pmd) (get c35_k_len pmd)) (Some (off, len))
                && md_eqb (strip_ptr pmd) (strip_ptr (r_md c))
                && match r with
                   | OResolved o md' eq => (o =? off) && eq && md_eqb md' (resolved_md (r_md c) (r_name c))
                   | _ => false
                   end
            end)
  | _ => false
  end.

Definition spec_ok (i : input) (o : obs) : bool :=
  match i, o with
  | IPtr c, OPtr r after_ok again alias md_after =>
      negb (size_ok (p_size c)) ||
      (after_ok
       && spec_ptr (p_seg c) (p_closed c) (p_size c) (p_name c) (p_rows c) (p_md c) (eff_slots (p_schema c) (p_slots c)) r
       (* the caller's pointer batch is an input: it must not be rewritten ... *)
       && md_eqb md_after (p_md c)
       (* ... so the same object, and any batch sharing its metadata, still resolves, to the same answer *)
       && spec_ptr (p_seg c) (p_closed c) (p_size c) (p_name c) (p_rows c) (p_md c) (eff_slots (p_schema c) (p_slots c)) again
       && spec_ptr (p_seg c) (p_closed c) (p_size c) (p_name c) (p_rows c) (p_md c) (eff_slots (p_schema c) (p_slots c)) alias
       && robs_same r again && robs_same r alias)
  | IRt c, ORt2 o again => spec_rt c o && robs_same (rt_r o) again
  | ISkip _, OSkip _ => true
  | IHist c, OHist os =>
      negb (size_ok (h_size c)) || negb (key_sound_b (h_writes c))
      || spec_ws (h_size c) (h_name c) (h_writes c) os
  | _, _ => false
  end.
