(* Model/C05.v — what an EXCEPTION batch says about an error (vgirpc/errors.go
   buildErrorExtra + the typed error classes, wire.go writeErrorBatch, and the
   panic-to-error conversions in server_unary.go, server_stream.go,
   http_unary.go, http_stream.go). *)
From VR Require Export Lib.Strs Gen.Consts.
Open Scope N_scope.

(* Go error values, as far as the envelope can tell them apart. [GCustom]
   carries the Go dynamic type name (what %T would print) as data, so that
   "no Go type name reaches the wire" can be stated as independence of it. *)
Inductive goerr :=
| GRpc (ty msg kind : bytes)            (* *RpcError{Type, Message, Kind} *)
| GNotImpl (meth : bytes)               (* *MethodNotImplementedError{Method} *)
| GNotImplMsg (msg : bytes)             (* ... with an explicit Message *)
| GProtoVer (msg : bytes)               (* *ProtocolVersionError *)
| GSessionLost (reason : bytes)         (* *SessionLostError; empty reason = default text *)
| GDraining                             (* *ServerDrainingError *)
| GExtCap (msg : bytes)                 (* cap refusal (externalCapError) *)
| GPlain (msg : bytes)                  (* errors.New *)
| GCustom (gotype msg : bytes)          (* any other error type *)
| GWrap (prefix : bytes) (inner : goerr). (* fmt.Errorf(prefix + ": %w", inner) *)

Definition colon_sp : bytes := [58; 32].
Definition squote : bytes := [39].

Fixpoint err_text (e : goerr) : bytes :=           (* err.Error() *)
  match e with
  | GRpc ty m _ => ty ++ colon_sp ++ m
  | GNotImpl meth => c05_notimpl_default_prefix ++ meth ++ squote
  | GNotImplMsg m => match m with [] => c05_notimpl_default_prefix ++ str "m" ++ squote | _ => m end
  | GProtoVer m => m
  | GSessionLost r => match r with [] => c05_sessionlost_default | _ => r end
  | GDraining => c05_draining_text
  | GExtCap m => m
  | GPlain m => m
  | GCustom _ m => m
  | GWrap p i => p ++ colon_sp ++ err_text i
  end.

Definition exc_type (e : goerr) : bytes :=
  match e with
  | GRpc ty _ _ => ty
  | GNotImpl _ | GNotImplMsg _ => c05_notimpl_type
  | GProtoVer _ => pv_error_type
  | GSessionLost _ => c05_sessionlost_type
  | GDraining => c05_draining_type
  | GExtCap _ => c05_extcap_type
  | GPlain _ | GCustom _ _ | GWrap _ _ => exc_runtime_error
  end.

Definition err_kind (e : goerr) : bytes :=
  match e with
  | GRpc _ _ k => k
  | GNotImpl _ | GNotImplMsg _ => c05_notimpl_kind
  | GProtoVer _ => pv_error_kind
  | GSessionLost _ => c05_sessionlost_kind
  | GDraining => c05_draining_kind
  | GExtCap _ => c05_extcap_kind
  | GPlain _ | GCustom _ _ | GWrap _ _ => []
  end.

Inductive source := Returned (e : goerr) | Panicked (shown : bytes).
Inductive path :=
| Direct                                   (* writeErrorBatch on the value itself *)
| PipeUnary | HttpUnary | PipeInit | HttpInit
| PipeProduce | PipeExchange | HttpExchange | HttpProduce
| Framework.                               (* raised by the server itself before user code runs: version
                                              gate, unknown method, parameter mismatch (pipe and HTTP) *)

(* recovered panics become RpcError{RuntimeError, ...}; handler and init
   paths prefix the message, turn paths do not *)
Definition panic_prefix_of (p : path) : bytes :=
  match p with
  | PipeUnary | HttpUnary | PipeInit | HttpInit => panic_prefix
  | _ => []
  end.

Definition effective (p : path) (s : source) : goerr :=
  match s with
  | Returned e => e
  | Panicked shown => GRpc exc_runtime_error (panic_prefix_of p ++ shown) []
  end.

Record input := { i_path : path; i_debug : bool; i_src : source }.

Record obs := {
  o_nexc : N;                       (* exception batches in the response *)
  o_type : bytes; o_msg : bytes; o_logmsg : bytes; o_kind : bytes;
  o_tb : bool; o_frames : bool }.   (* traceback / frames non-empty *)

Definition model (i : input) : obs :=
  let e := effective (i_path i) (i_src i) in
  {| o_nexc := 1; o_type := exc_type e; o_msg := err_text e; o_logmsg := err_text e;
     o_kind := err_kind e; o_tb := i_debug i; o_frames := i_debug i |}.

Definition obs_eqb (a b : obs) : bool :=
  N.eqb (o_nexc a) (o_nexc b) && beqb (o_type a) (o_type b) && beqb (o_msg a) (o_msg b)
  && beqb (o_logmsg a) (o_logmsg b) && beqb (o_kind a) (o_kind b)
  && Bool.eqb (o_tb a) (o_tb b) && Bool.eqb (o_frames a) (o_frames b).

(* ---- the property on one observation -------------------------------------- *)
Definition wire_names : list bytes :=
  [exc_runtime_error; c05_notimpl_type; pv_error_type; c05_sessionlost_type; c05_draining_type; c05_extcap_type].

Definition is_rpc (e : goerr) : option bytes := match e with GRpc ty _ _ => Some ty | _ => None end.

Definition expected_type (p : path) (s : source) : bytes :=
  match s with
  | Panicked _ => exc_runtime_error
  | Returned e =>
      match e with
      | GRpc ty _ _ => ty
      | GNotImpl _ | GNotImplMsg _ => c05_notimpl_type
      | GProtoVer _ => pv_error_type
      | GSessionLost _ => c05_sessionlost_type
      | GDraining => c05_draining_type
      | GExtCap _ => exc_runtime_error
      | _ => exc_runtime_error
      end
  end.

Definition spec_ok (i : input) (o : obs) : bool :=
  N.eqb (o_nexc o) 1
  && beqb (o_type o) (expected_type (i_path i) (i_src i))
  (* a name from the closed wire set unless the error is an RpcError value *)
  && (match i_src i with Returned (GRpc _ _ _) => true | _ => existsb (beqb (o_type o)) wire_names end)
  && beqb (o_msg o) (err_text (effective (i_path i) (i_src i)))
  && beqb (o_logmsg o) (o_msg o)
  && beqb (o_kind o) (err_kind (effective (i_path i) (i_src i)))
  && Bool.eqb (o_tb o) (i_debug i) && Bool.eqb (o_frames o) (i_debug i).
