(* Model/C33.v (DESIGN name: Keys.v) — object keys written by the storage backends.
   vgirpc/s3/s3.go   Upload:  key = prefix ++ generateUUID()
                     generateUUID: 16 bytes from crypto/rand, b[6] = b[6]&0x0f|0x40,
                     b[8] = b[8]&0x3f|0x80, printed %x-%x-%x-%x-%x over 4-2-2-2-6 bytes.
   vgirpc/gcs/gcs.go Upload:  key = prefix ++ uuid.New().String() ++ ext,
                     ext = .arrow.zst when contentEncoding = zstd, else .arrow
                     (google/uuid v4: same 16 random bytes, same two masks, same text).
   Both constructors replace an empty configured prefix by vgi-rpc/ .

   An upload is two atomic steps: Draw (16 bytes leave the random source) and Put
   (the object is written under the key).  A schedule is a list of thread ids; the
   random source is the list of values it hands out, in the order it hands them out
   (one list for all goroutines and all processes writing to the bucket).

   [legacy_entropy] is the pre-fix S3 derivation (first 16 bytes of the decimal text
   of time.Now().UnixNano(), no mask), kept for the refutation witness. *)
From VR Require Export Lib.Strs.
Open Scope N_scope.

Inductive backend := S3 | GCS | S3Gen. (* S3Gen = bare generateUUID(), no prefix *)

(* ---- text of a UUID ------------------------------------------------------ *)
Definition hexdigit (d : N) : N := if d <? 10 then 48 + d else 87 + d.
Definition hex2 (b : N) : bytes := [hexdigit (b / 16); hexdigit (b mod 16)].
Fixpoint hexs (l : bytes) : bytes :=
  match l with [] => [] | b :: r => hex2 b ++ hexs r end.

Definition DASH : N := 45.

Definition uuid_text (u : bytes) : bytes :=
  hexs (firstn 4 u) ++ DASH :: hexs (firstn 2 (skipn 4 u)) ++ DASH ::
  hexs (firstn 2 (skipn 6 u)) ++ DASH :: hexs (firstn 2 (skipn 8 u)) ++ DASH ::
  hexs (skipn 10 u).

(* version / variant bits forced on bytes 6 and 8 *)
Definition ver (b : N) : N := N.lor (N.land b 15) 64.
Definition var (b : N) : N := N.lor (N.land b 63) 128.

Definition mask (e : bytes) : bytes :=
  match e with
  | b0 :: b1 :: b2 :: b3 :: b4 :: b5 :: b6 :: b7 :: b8 :: r =>
      b0 :: b1 :: b2 :: b3 :: b4 :: b5 :: ver b6 :: b7 :: var b8 :: r
  | _ => e
  end.

(* what the random source returns for one key: 16 bytes *)
Definition wf_entropy (e : bytes) : bool := Nat.eqb (length e) 16 && all_bytes e.

(* n copies of one byte: compact notation the harness uses for long prefixes *)
Definition rep (n : nat) (c : N) : bytes := repeat c n.

(* ---- prefix, extension, key ---------------------------------------------- *)
Definition default_prefix : bytes := Eval compute in str "vgi-rpc/".
Definition enc_zstd : bytes := Eval compute in str "zstd".
Definition ext_arrow : bytes := Eval compute in str ".arrow".
Definition ext_arrow_zst : bytes := Eval compute in str ".arrow.zst".

Definition eff_prefix (b : backend) (p : bytes) : bytes :=
  match b with
  | S3Gen => []
  | _ => match p with [] => default_prefix | _ => p end
  end.

Definition ext (b : backend) (enc : bytes) : bytes :=
  match b with
  | GCS => if beqb enc enc_zstd then ext_arrow_zst else ext_arrow
  | _ => []
  end.

Definition key (b : backend) (p enc e : bytes) : bytes :=
  eff_prefix b p ++ uuid_text (mask e) ++ ext b enc.

(* ---- decidable shape: prefix, 8-4-4-4-12 lower hex, version 4, variant 10xx, ext *)
Definition is_hexc (c : N) : bool :=
  ((48 <=? c) && (c <=? 57)) || ((97 <=? c) && (c <=? 102)).
Definition is_varc (c : N) : bool := (c =? 56) || (c =? 57) || (c =? 97) || (c =? 98).

Inductive pc := PH | PD | P4 | PV.
Definition pc_ok (k : pc) (c : N) : bool :=
  match k with PH => is_hexc c | PD => c =? DASH | P4 => c =? 52 | PV => is_varc c end.
Fixpoint match_pat (pat : list pc) (s : bytes) : bool :=
  match pat, s with
  | [], [] => true
  | k :: pat', c :: s' => pc_ok k c && match_pat pat' s'
  | _, _ => false
  end.
Definition uuid_pat : list pc :=
  [PH;PH;PH;PH;PH;PH;PH;PH; PD; PH;PH;PH;PH; PD; P4;PH;PH;PH; PD; PV;PH;PH;PH; PD;
   PH;PH;PH;PH;PH;PH;PH;PH;PH;PH;PH;PH].
Definition uuid_shape (u : bytes) : bool := match_pat uuid_pat u.

Definition ext_ok (b : backend) (r : bytes) : bool :=
  match b with
  | GCS => beqb r ext_arrow || beqb r ext_arrow_zst
  | _ => beqb r []
  end.

Definition key_shape (b : backend) (p k : bytes) : bool :=
  let q := eff_prefix b p in
  has_prefix q k &&
  (let r := skipn (length q) k in uuid_shape (firstn 36 r) && ext_ok b (skipn 36 r)).

(* ---- the upload machine -------------------------------------------------- *)
Record thread := { pending : option (bytes * bytes);  (* drawn entropy, encoding *)
                   todo : list bytes }.               (* encodings of uploads still to start *)
Record st := { threads : list thread;
               rng : list bytes;                      (* values the random source has not handed out yet *)
               log : list (nat * (bytes * bytes)) }.  (* completed puts, oldest first: tid, entropy, enc *)

Fixpoint upd {A} (n : nat) (x : A) (l : list A) : list A :=
  match l, n with
  | [], _ => []
  | _ :: r, O => x :: r
  | a :: r, S n' => a :: upd n' x r
  end.

Definition step (s : st) (tid : nat) : st :=
  match nth_error (threads s) tid with
  | None => s
  | Some th =>
      match pending th with
      | Some (e, x) =>
          {| threads := upd tid {| pending := None; todo := todo th |} (threads s);
             rng := rng s; log := log s ++ [(tid, (e, x))] |}
      | None =>
          match todo th, rng s with
          | x :: td, e :: r =>
              {| threads := upd tid {| pending := Some (e, x); todo := td |} (threads s);
                 rng := r; log := log s |}
          | _, _ => s
          end
      end
  end.

Definition init (progs : list (list bytes)) (stream : list bytes) : st :=
  {| threads := map (fun td => {| pending := None; todo := td |}) progs;
     rng := stream; log := [] |}.

Definition run (s : st) (sched : list nat) : st := fold_left step sched s.

Definition put_of (b : backend) (p : bytes) (t : nat * (bytes * bytes)) : nat * bytes :=
  (fst t, key b p (snd (snd t)) (fst (snd t))).
Definition puts (b : backend) (p : bytes) (s : st) : list (nat * bytes) := map (put_of b p) (log s).

(* number of puts whose object is overwritten by a later put *)
Definition memb (k : bytes) (l : list bytes) : bool := existsb (beqb k) l.
Fixpoint lost (ks : list bytes) : nat :=
  match ks with
  | [] => O
  | k :: r => ((if memb k r then 1 else 0) + lost r)%nat
  end.
Fixpoint nodupb (l : list bytes) : bool :=
  match l with [] => true | k :: r => negb (memb k r) && nodupb r end.

(* ---- sorted key set of a free-running concurrent case --------------------- *)
Fixpoint bleb (a b : bytes) : bool :=   (* bytewise lexicographic <=, = Go string order *)
  match a, b with
  | [], _ => true
  | _ :: _, [] => false
  | x :: a', y :: b' => if x <? y then true else if y <? x then false else bleb a' b'
  end.
Fixpoint insert (k : bytes) (l : list bytes) : list bytes :=
  match l with
  | [] => [k]
  | h :: t => if bleb k h then k :: l else h :: insert k t
  end.
Definition sort (l : list bytes) : list bytes := fold_right insert [] l.

(* ---- input / obs / model / spec ------------------------------------------ *)
Inductive input :=
| Sched (b : backend) (prefix : bytes) (progs : list (list bytes)) (stream : list bytes) (sched : list nat)
| Conc (b : backend) (prefix enc : bytes) (n : nat) (stream : list bytes)
| Real (b : backend) (prefix enc : bytes) (n : N).

Inductive obs :=
| OSched (ps : list (nat * bytes)) (nlost : nat)
| OConc (ks : list bytes) (nlost : nat)
| OReal (uploads distinct : N) (shape : bool) (nlost : N) (sample : list bytes).

Definition model (i : input) : obs :=
  match i with
  | Sched b p progs stream sched =>
      let ps := puts b p (run (init progs stream) sched) in
      OSched ps (lost (map snd ps))
  | Conc b p enc n stream =>
      let ks := map (key b p enc) (firstn n stream) in
      OConc (sort ks) (lost ks)
  | Real b p enc n => OReal n n true 0 []   (* under the freshness premise; keys themselves are not predictable *)
  end.

Definition put_eqb (a c : nat * bytes) : bool := Nat.eqb (fst a) (fst c) && beqb (snd a) (snd c).

Definition obs_eqb (a c : obs) : bool :=
  match a, c with
  | OSched p1 l1, OSched p2 l2 => list_eqb put_eqb p1 p2 && Nat.eqb l1 l2
  | OConc k1 l1, OConc k2 l2 => list_eqb beqb k1 k2 && Nat.eqb l1 l2
  | OReal u1 d1 s1 l1 _, OReal u2 d2 s2 l2 _ => (u1 =? u2) && (d1 =? d2) && Bool.eqb s1 s2 && (l1 =? l2)
  | _, _ => false
  end.

Definition fresh (stream : list bytes) : bool :=
  forallb wf_entropy stream && nodupb (map mask stream).

(* The property on one observation: every key has the documented shape, and if the
   random source never repeated a 122-bit value, no two puts share a key and no
   payload was lost. *)
Definition spec_ok (i : input) (o : obs) : bool :=
  match i, o with
  | Sched b p _ stream _, OSched ps nl =>
      if forallb wf_entropy stream then
        forallb (fun t => key_shape b p (snd t)) ps &&
        (if fresh stream then nodupb (map snd ps) && Nat.eqb nl 0 else true)
      else true
  | Conc b p _ n stream, OConc ks nl =>
      if forallb wf_entropy stream then
        forallb (key_shape b p) ks &&
        (if fresh stream then nodupb ks && Nat.eqb nl 0 && Nat.eqb (length ks) (Nat.min n (length stream)) else true)
      else true
  | Real b p _ n, OReal u d sh nl sample =>
      (u =? n) && (d =? n) && sh && (nl =? 0) && forallb (key_shape b p) sample
  | _, _ => false
  end.

(* ---- pre-fix S3 derivation (refutation witness only) --------------------- *)
Fixpoint dec_aux (fuel : nat) (n : N) (acc : bytes) : bytes :=
  match fuel with
  | O => acc
  | S f => let acc' := (48 + n mod 10) :: acc in
           if n / 10 =? 0 then acc' else dec_aux f (n / 10) acc'
  end.
Definition dec (n : N) : bytes := dec_aux 40 n [].   (* fmt.Sprintf("%d", n), n < 10^40 *)

Definition legacy_entropy (now_ns : N) : bytes :=
  let d := firstn 16 (dec now_ns) in d ++ repeat 0 (16 - length d).
Definition legacy_key (p : bytes) (now_ns : N) : bytes :=
  eff_prefix S3 p ++ uuid_text (legacy_entropy now_ns).
