(* Model/C27.v — browser OAuth PKCE login (vgirpc/oauth_pkce_cookie.go,
   oauth_pkce_oidc.go validateOriginalURL / validateReturnTo, oauth_pkce_handlers.go
   handleOAuthCallback / pkceRedirectToOAuth / pkceEarlyReturnRedirect).

   External functions are ARGUMENTS of the model functions (oracles):
     mac      : key -> message -> tag            (HMAC-SHA256)
     enc_raw  : raw -> text                      (base64.RawURLEncoding.EncodeToString)
     dec_pad  : text -> option raw               (base64.URLEncoding.DecodeString)
     dec_raw  : text -> option raw               (base64.RawURLEncoding.DecodeString)
     parse    : string -> option urlrec          (net/url.Parse, projected to the
                                                  fields the code reads)
   In theorems they are universally quantified (with the stated premises); in the
   correspondence check the harness supplies, per case, the answers Go's own
   crypto/hmac, encoding/base64 and net/url gave for exactly the strings the code
   passes to them, as finite tables. *)
From VR Require Export Lib.Strs Gen.Consts.
Open Scope N_scope.

(* ---- fixed-width integers ---------------------------------------------- *)
Fixpoint le_bytes (k : nat) (n : N) : bytes :=
  match k with O => [] | S k' => n mod 256 :: le_bytes k' (n / 256) end.
Fixpoint le_val (b : bytes) : N :=
  match b with [] => 0 | x :: t => x + 256 * le_val t end.
Definition le16 (n : N) : bytes := le_bytes 2 n.   (* binary.LittleEndian.PutUint16(uint16(n)) : wraps mod 2^16 *)
Definition le64 (n : N) : bytes := le_bytes 8 n.

Definition two63 : Z := 9223372036854775808.
Definition two64 : Z := 18446744073709551616.
Definition to_u64 (z : Z) : N := Z.to_N (z mod two64).                 (* uint64(int64) *)
Definition to_i64 (n : N) : Z :=                                        (* int64(uint64) *)
  let z := Z.of_N n in if (z <? two63)%Z then z else (z - two64)%Z.
Definition wrap64 (z : Z) : Z := to_i64 (to_u64 z).                     (* int64 arithmetic result *)

Definition lenN (s : bytes) : N := N.of_nat (length s).
Definition is_nil (s : bytes) : bool := match s with [] => true | _ => false end.

(* ---- constants (regenerated from the compiled code) -------------------- *)
Definition VERSION : N := Z.to_N pkce_cookie_version.
Definition MACLEN : nat := Z.to_nat pkce_hmac_len.
Definition MINLEN : nat := 49.                 (* literal in unpackOAuthCookie *)
Definition SESSION_MAX_AGE : Z := pkce_session_max_age.
Definition ORIG_MAX : N := Z.to_N pkce_original_url_max.
Definition RT_MAX : N := Z.to_N pkce_return_to_max.

(* ---- (a) cookie codec --------------------------------------------------- *)
Record fields := { f_created : Z; f_verifier : bytes; f_state : bytes; f_url : bytes; f_rt : bytes }.

Definition lp (x : bytes) : bytes := le16 (lenN x) ++ x.

Definition payload (f : fields) : bytes :=
  [VERSION] ++ le64 (to_u64 (f_created f))
  ++ lp (f_verifier f) ++ lp (f_state f) ++ lp (f_url f) ++ lp (f_rt f).

Definition pack_raw (mac : bytes -> bytes -> bytes) (key : bytes) (f : fields) : bytes :=
  payload f ++ mac key (payload f).

Inductive res := Accepted (v s u r : bytes) | Refused.

(* one length-prefixed field: (field, rest) or None = truncated *)
Definition read_field (p : bytes) : option (bytes * bytes) :=
  match p with
  | a :: b :: t =>
      let n := N.to_nat (le_val [a; b]) in
      if (n <=? length t)%nat then Some (take n t, drop n t) else None
  | _ => None
  end.

Definition read4 (body : bytes) : res :=
  match read_field body with None => Refused | Some (v, b1) =>
  match read_field b1 with None => Refused | Some (s, b2) =>
  match read_field b2 with None => Refused | Some (u, b3) =>
  match read_field b3 with None => Refused | Some (r, _) => Accepted v s u r
  end end end end.

(* age check: age := now - int64(createdAt) in int64; refused when maxAge > 0 and
   (age < 0 or age > maxAge) *)
Definition stale (now max_age : Z) (created_u64 : N) : bool :=
  let age := wrap64 (now - to_i64 created_u64) in
  (0 <? max_age)%Z && ((age <? 0)%Z || (max_age <? age)%Z).

Definition unpack_payload (p : bytes) (now max_age : Z) : res :=
  match p with
  | [] => Refused
  | ver :: rest =>
      if negb (ver =? VERSION) then Refused
      else if stale now max_age (le_val (take 8 rest)) then Refused
      else read4 (drop 8 rest)
  end.

Definition unpack_raw (mac : bytes -> bytes -> bytes) (key raw : bytes) (now max_age : Z) : res :=
  let n := length raw in
  if (n <? MINLEN)%nat then Refused else
  let p := take (n - MACLEN) raw in
  let tag := drop (n - MACLEN) raw in
  if negb (beqb tag (mac key p)) then Refused
  else unpack_payload p now max_age.

Definition decode (dec_pad dec_raw : bytes -> option bytes) (text : bytes) : option bytes :=
  match dec_pad text with Some r => Some r | None => dec_raw text end.

(* strings.TrimRight(s, "=") *)
(* (linear-time reversal: cookie texts in generated cases reach 87 kB) *)
Definition trim_pad (s : bytes) : bytes :=
  rev_append ((fix strip (l : bytes) : bytes :=
                 match l with c :: t => if c =? 61 then strip t else l | [] => [] end) (rev_append s [])) [].

(* unpackOAuthCookie: decode (padded, else unpadded), then require the decoded
   bytes to re-encode (unpadded) to the presented text up to trailing '=' *)
Definition unpack_text (enc_raw : bytes -> bytes) (dec_pad dec_raw : bytes -> option bytes)
  (mac : bytes -> bytes -> bytes) (key text : bytes) (now max_age : Z) : res :=
  match decode dec_pad dec_raw text with
  | None => Refused
  | Some raw =>
      if negb (beqb (enc_raw raw) (trim_pad text)) then Refused
      else unpack_raw mac key raw now max_age
  end.

(* the decoder before the fix: whatever decodes is taken (kept for the refutation witness) *)
Definition unpack_text_legacy (dec_pad dec_raw : bytes -> option bytes) (mac : bytes -> bytes -> bytes)
  (key text : bytes) (now max_age : Z) : res :=
  match decode dec_pad dec_raw text with
  | None => Refused
  | Some raw => unpack_raw mac key raw now max_age
  end.

Definition pack_text (enc : bytes -> bytes) (mac : bytes -> bytes -> bytes) (key : bytes) (f : fields) : bytes :=
  enc (pack_raw mac key f).

(* the guard under which the codec is exact *)
Definition fields_ok (f : fields) : bool :=
  (lenN (f_verifier f) <? 65536) && (lenN (f_state f) <? 65536)
  && (lenN (f_url f) <? 65536) && (lenN (f_rt f) <? 65536).
Definition created_ok (f : fields) : bool :=
  ((- two63 <=? f_created f) && (f_created f <? two63))%Z.
Definition fresh (now max_age created : Z) : bool :=
  negb (0 <? max_age)%Z || ((created <=? now)%Z && (now - created <=? max_age)%Z).

(* ---- (c) redirect target validation, relative to the url.Parse oracle --- *)
Record urlrec := { u_scheme : bytes; u_host : bytes; u_hostname : bytes; u_port : bytes }.

Definition s_http : bytes := Eval compute in str "http".
Definition s_https : bytes := Eval compute in str "https".
Definition s_sep : bytes := Eval compute in str "://".
Definition s_slash : bytes := [47].
Definition COLON : N := 58.

Definition is_localhost (h : bytes) : bool :=
  beqb h (str "localhost") || beqb h (str "127.0.0.1") || beqb h (str "[::1]").
Definition memb (x : bytes) (l : list bytes) : bool := existsb (beqb x) l.
Definition origin_of (s h : bytes) : bytes := s ++ s_sep ++ h.
Definition origin_port_of (s h p : bytes) : bytes := s ++ s_sep ++ h ++ [COLON] ++ p.
Definition web_scheme (s : bytes) : bool := beqb s s_http || beqb s s_https.

(* "scheme and host match an allowlist entry (and port too, when the entry names
   one) or is http localhost" on a (scheme, hostname, port) triple *)
Definition origin_allowed (allow : list bytes) (s h p : bytes) : bool :=
  (is_localhost h && beqb s s_http)
  || memb (origin_of s h) allow
  || (negb (is_nil p) && memb (origin_port_of s h p) allow).

Definition validate_return (parse : bytes -> option urlrec) (allow : list bytes) (u : bytes) : bytes :=
  if is_nil u || (RT_MAX <? lenN u) then [] else
  match parse u with
  | None => []
  | Some r =>
      if negb (web_scheme (u_scheme r)) then []
      else if is_nil (u_host r) then []
      else if is_localhost (u_hostname r) && beqb (u_scheme r) s_http then u
      else if memb (origin_of (u_scheme r) (u_hostname r)) allow then u
      else if negb (is_nil (u_port r)) && memb (origin_port_of (u_scheme r) (u_hostname r) (u_port r)) allow then u
      else []
  end.

Definition fallback (prefix : bytes) : bytes := if is_nil prefix then s_slash else prefix.
Definition trunc_orig (u : bytes) : bytes := if ORIG_MAX <? lenN u then take (N.to_nat ORIG_MAX) u else u.

Definition validate_original (parse : bytes -> option urlrec) (u prefix : bytes) : bytes :=
  let u' := trunc_orig u in
  match parse u' with
  | None => fallback prefix
  | Some r =>
      if negb (is_nil (u_scheme r)) || negb (is_nil (u_host r)) then fallback prefix
      else if negb (is_nil prefix) && negb (has_prefix prefix u') then fallback prefix
      else u'
  end.

(* ---- an independent, WHATWG-style reading of a Location value ----------- *)
Definition is_tabnl (c : N) : bool := (c =? 9) || (c =? 10) || (c =? 13).
Definition is_slash (c : N) : bool := (c =? 47) || (c =? 92).
Definition is_alpha (c : N) : bool := ((65 <=? c) && (c <=? 90)) || ((97 <=? c) && (c <=? 122)).
Definition is_schemech (c : N) : bool :=
  is_alpha c || ((48 <=? c) && (c <=? 57)) || (c =? 43) || (c =? 45) || (c =? 46).
Fixpoint drop_c0 (s : bytes) : bytes :=
  match s with c :: t => if c <=? 32 then drop_c0 t else s | [] => [] end.
Definition clean (s : bytes) : bytes := drop_c0 (filter (fun c => negb (is_tabnl c)) s).
Fixpoint scheme_tail (s : bytes) : bool :=
  match s with
  | [] => false
  | c :: t => if c =? COLON then true else if is_schemech c then scheme_tail t else false
  end.
Definition has_scheme (s : bytes) : bool :=
  match s with c :: t => is_alpha c && scheme_tail t | [] => false end.

Inductive bkind := BSame | BNetwork | BAbsolute.
Definition bkind_eqb (a b : bkind) : bool :=
  match a, b with BSame, BSame | BNetwork, BNetwork | BAbsolute, BAbsolute => true | _, _ => false end.
(* how a browser resolves a Location value against the page's own origin *)
Definition browser_kind (t : bytes) : bkind :=
  let c := clean t in
  match c with
  | a :: b :: _ => if is_slash a && is_slash b then BNetwork
                   else if has_scheme c then BAbsolute else BSame
  | _ => BSame
  end.

(* split helpers *)
Fixpoint span (p : N -> bool) (s : bytes) : bytes * bytes :=     (* longest prefix NOT satisfying p *)
  match s with
  | [] => ([], [])
  | c :: t => if p c then ([], s) else let (a, b) := span p t in (c :: a, b)
  end.
Fixpoint drop_slashes (s : bytes) : bytes :=
  match s with c :: t => if is_slash c then drop_slashes t else s | [] => [] end.
Fixpoint after_last_at (s : bytes) : bytes :=       (* host[:port] part of an authority *)
  match s with
  | [] => []
  | c :: t => if (c =? 64) && negb (mem 64 t) then t
              else if mem 64 t then after_last_at t else s
  end.
Definition split_hostport (hp : bytes) : bytes * bytes :=
  match hp with
  | 91 :: t => let (h, rest) := span (fun c => c =? 93) t in
               (h, match rest with _ :: 58 :: p => p | _ => [] end)
  | _ => let (h, rest) := span (fun c => c =? COLON) hp in
         (h, match rest with _ :: p => p | [] => [] end)
  end.
(* (scheme, hostname, port) a browser would navigate to, for http/https URLs *)
Definition browser_origin (u : bytes) : option (bytes * bytes * bytes) :=
  let c := clean u in
  if negb (has_scheme c) then None else
  let (sch, rest) := span (fun x => x =? COLON) c in
  let sch := to_lower sch in
  if negb (web_scheme sch) then None else
  let auth := fst (span (fun x => is_slash x || (x =? 63) || (x =? 35)) (drop_slashes (tl rest))) in
  let (h, p) := split_hostport (after_last_at auth) in
  Some (sch, h, p).

Definition browser_allowed (allow : list bytes) (u : bytes) : bool :=
  match browser_origin u with
  | Some (s, h, p) => origin_allowed allow s h p
  | None => false
  end.
Definition agrees (u : bytes) (r : urlrec) : bool :=
  match browser_origin u with
  | Some (s, h, p) => beqb s (u_scheme r) && beqb h (u_hostname r) && beqb p (u_port r)
  | None => false
  end.

(* a target whose first bytes already fix the browser's reading as same-origin path *)
Definition starts_safe (t : bytes) : bool :=
  match t with
  | a :: rest => (a =? 47) && match rest with [] => true | c :: _ => negb (is_slash c) && negb (is_tabnl c) end
  | [] => false
  end.

(* ---- (b) the callback handler ------------------------------------------ *)
Inductive exch := ExOk (token : bytes) | ExFail.

Record cbin := {
  cb_prefix : bytes;
  cb_error : bytes;  cb_code : bytes;  cb_state : bytes;     (* query values, [] = absent *)
  cb_cookie : option bytes;                                  (* session cookie text *)
  cb_disc : bool;                                            (* OIDC discovery succeeds *)
  cb_exch : exch }.                                          (* what the IdP answers to a token request *)

Record cbout := {
  co_status : N;
  co_trace : list (bytes * bytes);      (* token requests the IdP received: (code, code_verifier) *)
  co_base : bytes;                      (* Location without the appended token fragment *)
  co_sep : N;                           (* byte between base and token=, 0 = none *)
  co_bearer : bool;                     (* the bearer token occurs in Location *)
  co_auth : option bytes;               (* value of the auth cookie that is set *)
  co_leak : bool }.                     (* a token of the IdP response occurs anywhere else in the response:
                                           another header, another cookie, the body *)

Definition cb_fail (st : N) (tr : list (bytes * bytes)) : cbout :=
  {| co_status := st; co_trace := tr; co_base := []; co_sep := 0; co_bearer := false; co_auth := None; co_leak := false |}.

Definition callback (enc_raw : bytes -> bytes) (dec_pad dec_raw : bytes -> option bytes) (mac : bytes -> bytes -> bytes)
  (parse : bytes -> option urlrec) (key : bytes) (now : Z) (i : cbin) : cbout :=
  if negb (is_nil (cb_error i)) then cb_fail 400 [] else
  if is_nil (cb_code i) || is_nil (cb_state i) then cb_fail 400 [] else
  match cb_cookie i with
  | None => cb_fail 400 []
  | Some [] => cb_fail 400 []
  | Some text =>
    match unpack_text enc_raw dec_pad dec_raw mac key text now SESSION_MAX_AGE with
    | Refused => cb_fail 400 []
    | Accepted v s u r =>
      if negb (beqb (cb_state i) s) then cb_fail 400 [] else
      if negb (cb_disc i) then cb_fail 502 [] else
      let tr := [(cb_code i, v)] in
      match cb_exch i with
      | ExFail => cb_fail 502 tr
      | ExOk [] => cb_fail 502 tr
      | ExOk tok =>
          if negb (is_nil r) then
            {| co_status := 302; co_trace := tr; co_base := r;
               co_sep := if mem 35 r then 38 else 35; co_bearer := true; co_auth := None; co_leak := false |}
          else
            {| co_status := 302; co_trace := tr; co_base := validate_original parse u (cb_prefix i);
               co_sep := 0; co_bearer := false; co_auth := Some tok; co_leak := false |}
      end
    end
  end.

(* what pkceRedirectToOAuth packs for a page request *)
Definition join_query (path q : bytes) : bytes := if is_nil q then path else path ++ [63] ++ q.
Definition login_fields (parse : bytes -> option urlrec) (allow : list bytes) (prefix path q rt_param : bytes)
  (created : Z) (verifier state : bytes) : fields :=
  {| f_created := created; f_verifier := verifier; f_state := state;
     f_url := validate_original parse (join_query path q) prefix;
     f_rt := validate_return parse allow rt_param |}.

(* pkceEarlyReturnRedirect: Some (base, sep) when it redirects with the token *)
Definition early (parse : bytes -> option urlrec) (allow : list bytes) (rt_param token : bytes) : option (bytes * N) :=
  let r := validate_return parse allow rt_param in
  if is_nil r || is_nil token then None else Some (r, if mem 35 r then 38 else 35).

(* ---- correspondence interface ------------------------------------------ *)
(* compact literals for long (periodic) runs in generated cases *)
Definition rep (n c : N) : bytes := repeat c (N.to_nat n).
Definition reps (n : N) (pat : bytes) : bytes := concat (repeat pat (N.to_nat n)).
(* finite oracle tables *)
Fixpoint lookup {A} (t : list (bytes * A)) (d : A) (k : bytes) : A :=
  match t with [] => d | (k', v) :: r => if beqb k k' then v else lookup r d k end.
Definition tbl_parse (t : list (bytes * option urlrec)) : bytes -> option urlrec := lookup t None.

Record ck := {                          (* one unpack call with its oracle answers *)
  ck_text : bytes;                                    (* the cookie text presented *)
  ck_encraw : bytes;                                  (* RawURLEncoding.EncodeToString(decoded) *)
  ck_pad : option bytes;  ck_rawdec : option bytes;   (* the two base64 decoders on ck_text *)
  ck_mac : bytes;                                     (* HMAC(key, decoded[:len-32]) *)
  ck_now : Z;  ck_max_age : Z }.

Definition ck_unpack_on (c : ck) (text : bytes) (max_age : Z) : res :=
  unpack_text (fun _ => ck_encraw c) (fun _ => ck_pad c) (fun _ => ck_rawdec c) (fun _ _ => ck_mac c) [] text (ck_now c) max_age.
Definition ck_unpack (c : ck) : res := ck_unpack_on c (ck_text c) (ck_max_age c).

Inductive origin_kind :=
  | Honest (f : fields)            (* text is what the real packOAuthCookie produced for f *)
  | Tampered (f : fields) (issued_mac : bytes)   (* derived, without the key, from the issued cookie payload f ++ issued_mac *)
  | Crafted.                       (* arbitrary payload MACed with the server key by the harness *)

Inductive input :=
  | IUnpack (k : origin_kind) (c : ck)
  | IReturn (u : bytes) (allow : list bytes) (pr : option urlrec)
  | IOrig (u prefix : bytes) (pr : option urlrec)
  | ICallback (i : cbin) (c : ck) (pr : option urlrec)
  | ILogin (allow : list bytes) (prefix path q rt_param : bytes) (tbl : list (bytes * option urlrec))
  | IEarly (allow : list bytes) (rt_param token : bytes) (pr : option urlrec).

Inductive obs :=
  | ORes (r : res)
  | OStr (s : bytes)
  | OCb (o : cbout)
  | OLogin (url rt : bytes) (state_echoed : bool) (vlen slen : N)
  | OEarly (e : option (bytes * N)).

Definition model (i : input) : obs :=
  match i with
  | IUnpack _ c => ORes (ck_unpack c)
  | IReturn u allow pr => OStr (validate_return (fun _ => pr) allow u)
  | IOrig u prefix pr => OStr (validate_original (fun _ => pr) u prefix)
  | ICallback i c pr =>
      OCb (callback (fun _ => ck_encraw c) (fun _ => ck_pad c) (fun _ => ck_rawdec c) (fun _ _ => ck_mac c) (fun _ => pr) [] (ck_now c) i)
  | ILogin allow prefix path q rt tbl =>
      let f := login_fields (tbl_parse tbl) allow prefix path q rt 0%Z [] [] in
      OLogin (f_url f) (f_rt f) true (Z.to_N pkce_verifier_len) (Z.to_N pkce_state_len)
  | IEarly allow rt tok pr => OEarly (early (fun _ => pr) allow rt tok)
  end.

Definition res_eqb (a b : res) : bool :=
  match a, b with
  | Refused, Refused => true
  | Accepted v s u r, Accepted v' s' u' r' => beqb v v' && beqb s s' && beqb u u' && beqb r r'
  | _, _ => false
  end.
Definition pairb_eqb (a b : bytes * bytes) : bool := beqb (fst a) (fst b) && beqb (snd a) (snd b).
Definition cbout_eqb (a b : cbout) : bool :=
  (co_status a =? co_status b) && list_eqb pairb_eqb (co_trace a) (co_trace b)
  && beqb (co_base a) (co_base b) && (co_sep a =? co_sep b)
  && Bool.eqb (co_bearer a) (co_bearer b) && opt_eqb beqb (co_auth a) (co_auth b)
  && Bool.eqb (co_leak a) (co_leak b).
Definition obs_eqb (a b : obs) : bool :=
  match a, b with
  | ORes x, ORes y => res_eqb x y
  | OStr x, OStr y => beqb x y
  | OCb x, OCb y => cbout_eqb x y
  | OLogin u r e v s, OLogin u' r' e' v' s' =>
      beqb u u' && beqb r r' && Bool.eqb e e' && (v =? v') && (s =? s')
  | OEarly x, OEarly y => opt_eqb (fun p q => beqb (fst p) (fst q) && (snd p =? snd q)) x y
  | _, _ => false
  end.

(* ---- the property, decided on one observation -------------------------- *)
(* a same-origin redirect target: what validateOriginalURL promises, read both
   through Go's parser (the record) and through the browser-style classifier *)
Definition orig_go_ok (u prefix : bytes) (pr : option urlrec) (o : bytes) : bool :=
  beqb o (fallback prefix)
  || (beqb o (trunc_orig u)
      && match pr with Some r => is_nil (u_scheme r) && is_nil (u_host r) | None => false end
      && has_prefix prefix o).
Definition good_prefix (p : bytes) : bool :=
  match p with a :: c :: _ => (a =? 47) && negb (is_slash c) && negb (is_tabnl c) | _ => false end.
Definition orig_browser_ok (prefix o : bytes) : bool :=
  bkind_eqb (browser_kind o) BSame && has_prefix prefix o.
(* the strong reading is demanded whenever the prefix is a proper path prefix, or
   (empty prefix) the input has the shape the routes can produce *)
Definition orig_spec (u prefix : bytes) (pr : option urlrec) (o : bytes) : bool :=
  orig_go_ok u prefix pr o
  && (if good_prefix prefix || (is_nil prefix && starts_safe u) then orig_browser_ok prefix o else true).

Definition return_go_ok (u : bytes) (allow : list bytes) (pr : option urlrec) (o : bytes) : bool :=
  is_nil o
  || (beqb o u && (lenN u <=? RT_MAX)
      && match pr with
         | Some r => web_scheme (u_scheme r) && negb (is_nil (u_host r))
                     && origin_allowed allow (u_scheme r) (u_hostname r) (u_port r)
         | None => false
         end).
(* ungated: an accepted return URL must also be allowed under the browser reading *)
Definition return_spec (u : bytes) (allow : list bytes) (pr : option urlrec) (o : bytes) : bool :=
  return_go_ok u allow pr o && (is_nil o || browser_allowed allow u).

(* premise on the supplied oracle answers under which the model meets the spec *)
Definition parse_sane (u : bytes) (allow : list bytes) (pr : option urlrec) : bool :=
  is_nil (validate_return (fun _ => pr) allow u)
  || match pr with Some r => agrees u r | None => true end.

Definition ck_raw (c : ck) : option bytes := decode (fun _ => ck_pad c) (fun _ => ck_rawdec c) [].
Definition ck_tag_ok (c : ck) : bool :=        (* the presented tag is the genuine MAC *)
  match ck_raw c with
  | Some raw => negb (length raw <? MINLEN)%nat && beqb (drop (length raw - MACLEN) raw) (ck_mac c)
  | None => false
  end.
(* ideal-MAC premise for one tampered cookie: without the key, a genuine tag is
   only ever presented on the issued bytes themselves *)
Definition mac_sane (k : origin_kind) (c : ck) : bool :=
  match k with
  | Tampered f imac => (negb (ck_tag_ok c) || opt_eqb beqb (ck_raw c) (Some (payload f ++ imac)))
                        && (length imac =? MACLEN)%nat
  | Honest f => opt_eqb beqb (ck_raw c) (Some (payload f ++ ck_mac c)) && (length (ck_mac c) =? MACLEN)%nat
                && beqb (ck_encraw c) (trim_pad (ck_text c))     (* what pack emits is the canonical text *)
  | Crafted => true
  end.

Definition unpack_spec (k : origin_kind) (c : ck) (o : res) : bool :=
  match k with
  | Honest f =>
      if fields_ok f && created_ok f then
        if fresh (ck_now c) (ck_max_age c) (f_created f)
        then res_eqb o (Accepted (f_verifier f) (f_state f) (f_url f) (f_rt f))
        else res_eqb o Refused
      else true
  | Tampered f imac =>
      match o with
      | Refused => true
      | Accepted v s u r =>
          opt_eqb beqb (ck_raw c) (Some (payload f ++ imac))          (* the issued bytes ... *)
          && beqb (ck_encraw c) (trim_pad (ck_text c))               (* ... in their one canonical text, up to '=' padding *)
          && (if fields_ok f && created_ok f
              then res_eqb o (Accepted (f_verifier f) (f_state f) (f_url f) (f_rt f))
                   && fresh (ck_now c) (ck_max_age c) (f_created f)
              else true)
      end
  | Crafted =>
      match o with
      | Accepted _ _ _ _ => ck_tag_ok c
      | Refused => true
      end
  end.

Definition is_nil_opt {A} (x : option A) : bool := match x with None => true | Some _ => false end.
Definition cb_spec (i : cbin) (c : ck) (pr : option urlrec) (o : cbout) : bool :=
  let cookie := match cb_cookie i with Some (t0 :: t) => ck_unpack_on c (t0 :: t) SESSION_MAX_AGE | _ => Refused end in
  (* (b) a code is exchanged only on a valid cookie whose packed state equals the
     returned state, once, with the packed verifier *)
  (match co_trace o with
   | [] => true
   | [(code, ver)] =>
       match cookie with
       | Accepted v s _ _ => beqb (cb_state i) s && beqb ver v && beqb code (cb_code i)
                             && negb (is_nil code) && is_nil (cb_error i)
       | Refused => false
       end
   | _ => false
   end)
  (* the token leaves only after a successful exchange *)
  && (if co_bearer o || (match co_auth o with Some _ => true | None => false end)
      then (match co_trace o, cb_exch i with [_], ExOk (_ :: _) => true | _, _ => false end)
           && (co_status o =? 302)
      else true)
  (* redirect targets *)
  && (if co_status o =? 302 then
        match cookie with
        | Accepted _ _ u r =>
            if co_bearer o then negb (is_nil r) && beqb (co_base o) r && is_nil_opt (co_auth o)
            else is_nil r && orig_spec u (cb_prefix i) pr (co_base o)
                 (* ... and then the bearer, whatever its size, is in the auth cookie, whole *)
                 && match co_auth o, cb_exch i with Some a, ExOk t => beqb a t | _, _ => false end
        | Refused => false
        end
      else is_nil (co_base o) && negb (co_bearer o))
  (* no token of the IdP response anywhere else in the response *)
  && negb (co_leak o).


Definition login_spec (allow : list bytes) (prefix path q rt_param : bytes)
  (tbl : list (bytes * option urlrec)) (url rt : bytes) (echoed : bool) (vlen slen : N) : bool :=
  let pu := tbl_parse tbl (trunc_orig (join_query path q)) in
  orig_spec (join_query path q) prefix pu url
  && return_spec rt_param allow (tbl_parse tbl rt_param) rt
  && echoed && (vlen <? 65536) && (slen <? 65536) && (0 <? slen)
  && (lenN url <? 65536) && (lenN rt <? 65536).

Definition early_spec (allow : list bytes) (rt_param token : bytes) (pr : option urlrec) (e : option (bytes * N)) : bool :=
  match e with
  | None => true
  | Some (base, _) => negb (is_nil base) && negb (is_nil token) && return_spec rt_param allow pr base
  end.

Definition spec_ok (i : input) (o : obs) : bool :=
  match i, o with
  | IUnpack k c, ORes r => unpack_spec k c r
  | IReturn u allow pr, OStr s => return_spec u allow pr s
  | IOrig u prefix pr, OStr s => orig_spec u prefix pr s
  | ICallback i c pr, OCb o => cb_spec i c pr o
  | ILogin allow prefix path q rt tbl, OLogin url r e v s => login_spec allow prefix path q rt tbl url r e v s
  | IEarly allow rt tok pr, OEarly e => early_spec allow rt tok pr e
  | _, _ => false
  end.

(* premises on one input: the oracle answers it carries are consistent with an
   ideal MAC and with the browser-style reading of the URLs that get accepted;
   the clock is a non-negative int64 and max_age an int; the operator's prefix
   fits a uint16 length *)
Definition time_sane (c : ck) : bool :=
  ((0 <=? ck_now c) && (ck_now c <? two63) && (ck_max_age c <? two63))%Z.
Definition input_sane (i : input) : bool :=
  match i with
  | IUnpack k c => mac_sane k c && time_sane c
  | IReturn u allow pr => parse_sane u allow pr
  | IOrig _ _ _ => true
  | ICallback _ _ _ => true
  | ILogin allow prefix _ _ rt tbl => parse_sane rt allow (tbl_parse tbl rt) && (lenN prefix <? 65536)
  | IEarly allow rt _ pr => parse_sane rt allow pr
  end.
