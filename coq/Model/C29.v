(* Model/C29.v — sticky sessions (vgirpc/sticky.go sessionRegistry, sticky_context.go
   OpenSession / CloseSession, http_sticky.go installStickyOnRequestNoCtx / ReleaseLock /
   handleStickyDelete).

   Step model.  A case is a list of thread programs (HTTP requests, DELETE
   /__session__, operator / clock operations) and a schedule (list of thread
   ids).  One scheduled step = one critical section of the Go code:
     request   : [resolve: token open + server-id check + registry.get under r.mu]
                 [entry.lock.Lock()  -- a step on a held lock is a stutter]
                 [one handler action: OpenSession (registry.open) | CloseSession (registry.close)]*
                 [handler returns ok/err/panic; deferred ReleaseLock; response]
     delete    : [resolve] [Lock] [registry.close] [Unlock; response]
     advance d | reap w (drainExpired) | drain w b (SetDraining) | shutdown w : one step.
   Session ids are a counter (crypto/rand freshness is the oracle); a token is
   the record the AEAD seals (worker id, session id) plus the AAD it was sealed
   under (ideal AEAD: it opens only under the same AAD).  Time is Z seconds. *)
From VR Require Export Lib.Bytes Gen.Consts.
Open Scope N_scope.

Inductive caller := Anon | Auth (d p : bytes).

Definition aad (c : caller) : bytes :=
  match c with Anon => c29_aad_anon | Auth d p => c29_aad_auth_pre ++ d ++ c29_aad_sep ++ p end.
Definition pkey (c : caller) : bytes :=
  match c with Anon => c29_pkey_anon | Auth d p => d ++ c29_pkey_sep ++ p end.

Record token := { k_w : N; k_sid : N; k_aad : bytes }.
Inductive tokref := TNone | TGarbage | TOf (k : nat).
Inductive hact := HOpen | HClose.
Inductive outcome := OOk | OErr | OPanic.

Inductive prog :=
| PReq (w : N) (c : caller) (tk : tokref) (acc : bool) (ttl : Z) (body : list hact) (out : outcome)
| PDelete (w : N) (c : caller) (tk : tokref)
| PAdvance (d : Z)
| PReap (w : N)
| PDrain (w : N) (b : bool)
| PShutdown (w : N).

Record entry := { e_sid : N; e_w : N; e_key : bytes; e_exp : Z }.

Inductive phase :=
| PhInit
| PhWait (s : N)                              (* resolved, waiting for entry.lock *)
| PhRun (held : option N) (rest : list hact)  (* inside the handler *)
| PhDel (s : N) (unlocking : bool)            (* DELETE holding the lock *)
| PhDone.

Record thr := { t_ph : phase; t_sess : option N; t_closed : bool; t_mint : option token }.

Record state := {
  now : Z; next : N; ents : list entry; drain : list N;
  locks : list (N * nat); closes : list N; thrs : list thr }.

Inductive act := AOpened (s : N) | ARefused | ADraining | AClose (hit : bool).
Inductive resp :=
| RLost
| RDone (o : outcome) (mint : option N) (closehdr : bool)
| RDel (hit : bool)
| RSys (n : N).
Inductive event :=
| EStart (t : nat)
| EEnter (t : nat) (s : option N) (stale : bool)
| EAct (t : nat) (a : act)
| EClosed (s : N)
| EUnder (t : nat) (s : N)   (* the Close() just reported was caused by thread t while ANOTHER
                               thread was inside its handler on the resumed session s *)
| EResp (t : nat) (r : resp).

Record input := { i_dttl : Z; i_progs : list prog; i_sched : list nat }.
Record obs := { o_trace : list event; o_locked : list N }.

(* ---- small helpers ----------------------------------------------------- *)
Definition memN (x : N) (l : list N) : bool := existsb (N.eqb x) l.
Definition memn (x : nat) (l : list nat) : bool := existsb (Nat.eqb x) l.

Fixpoint upd {A} (l : list A) (n : nat) (x : A) : list A :=
  match l, n with
  | [], _ => []
  | _ :: t, O => x :: t
  | a :: t, S m => a :: upd t m x
  end.

Definition set_thr (st : state) (t : nat) (th : thr) : state :=
  {| now := now st; next := next st; ents := ents st; drain := drain st;
     locks := locks st; closes := closes st; thrs := upd (thrs st) t th |}.
Definition set_ph (th : thr) (p : phase) : thr :=
  {| t_ph := p; t_sess := t_sess th; t_closed := t_closed th; t_mint := t_mint th |}.

Definition find_ent (w s : N) (es : list entry) : option entry :=
  find (fun e => (e_sid e =? s) && (e_w e =? w)) es.
Definition rm_ent (s : N) (es : list entry) : list entry :=
  filter (fun e => negb (e_sid e =? s)) es.
Definition lock_of (s : N) (ls : list (N * nat)) : option nat :=
  match find (fun p => fst p =? s) ls with Some p => Some (snd p) | None => None end.
Definition unlock (s : N) (ls : list (N * nat)) : list (N * nat) :=
  filter (fun p => negb (fst p =? s)) ls.
Definition unlock_opt (h : option N) ls := match h with Some s => unlock s ls | None => ls end.

(* remove [dead] entries, Close() each (registry order = ascending sid) *)
Definition evict (st : state) (dead : entry -> bool) : state * list N :=
  let gone := map e_sid (filter dead (ents st)) in
  ({| now := now st; next := next st; ents := filter (fun e => negb (dead e)) (ents st);
      drain := drain st; locks := locks st; closes := rev gone ++ closes st; thrs := thrs st |}, gone).

(* sessionRegistry.close(sid) on worker w *)
Definition reg_close (st : state) (w s : N) : state * bool :=
  match find_ent w s (ents st) with
  | Some _ => (fst (evict st (fun e => e_sid e =? s)), true)
  | None => (st, false)
  end.

(* token delivered to the client by thread k (known once k's response is out) *)
Definition token_of (st : state) (k : nat) : option token :=
  match nth_error (thrs st) k with
  | Some th => match t_ph th with PhDone => t_mint th | _ => None end
  | None => None
  end.
Definition deref (st : state) (tk : tokref) : option token :=
  match tk with TOf k => token_of st k | _ => None end.

(* openSessionToken + server-id check + sessionRegistry.get *)
Definition resolve (st : state) (w : N) (c : caller) (tk : option token)
  : state * list event * option N :=
  match tk with
  | None => (st, [], None)
  | Some k =>
      if negb (beqb (k_aad k) (aad c)) then (st, [], None)
      else if negb (k_w k =? w) then (st, [], None)
      else match find_ent w (k_sid k) (ents st) with
           | None => (st, [], None)
           | Some e =>
               if (e_exp e <? now st)%Z
               then (fst (evict st (fun e' => e_sid e' =? k_sid k)), [EClosed (k_sid k)], None)
               else if negb (beqb (e_key e) (pkey c)) then (st, [], None)
               else (st, [], Some (k_sid k))
           end
  end.

Definition eff_ttl (dttl ttl : Z) : Z :=
  let d := if (dttl <=? 0)%Z then c29_default_ttl_s else dttl in
  if (ttl <=? 0)%Z then d else ttl.

Definition bump (st : state) : state :=
  {| now := now st; next := next st + 1; ents := ents st; drain := drain st;
     locks := locks st; closes := closes st; thrs := thrs st |}.

(* one handler action of request thread t *)
Definition do_act (dttl : Z) (st : state) (t : nat) (th : thr) (w : N) (c : caller) (acc : bool)
  (ttl : Z) (a : hact) : state * thr * list event :=
  match a with
  | HOpen =>
      let st1 := bump st in
      if negb acc then (st1, th, [EAct t ARefused])
      else if (match t_sess th with Some _ => negb (t_closed th) | None => false end)
      then (st1, th, [EAct t ARefused])
      else if memN w (drain st) then (st1, th, [EAct t ADraining])
      else
        let s := next st in
        let e := {| e_sid := s; e_w := w; e_key := pkey c; e_exp := (now st + eff_ttl dttl ttl)%Z |} in
        ({| now := now st; next := next st + 1; ents := ents st ++ [e]; drain := drain st;
            locks := locks st; closes := closes st; thrs := thrs st |},
         {| t_ph := t_ph th; t_sess := Some s; t_closed := false;
            t_mint := Some {| k_w := w; k_sid := s; k_aad := aad c |} |},
         [EAct t (AOpened s)])
  | HClose =>
      match t_sess th with
      | None => (st, th, [EAct t (AClose false)])
      | Some s =>
          let '(st1, hit) := reg_close st w s in
          (st1, {| t_ph := t_ph th; t_sess := t_sess th; t_closed := true; t_mint := t_mint th |},
           (if hit then [EClosed s] else []) ++ [EAct t (AClose hit)])
      end
  end.

Definition with_locks (st : state) (ls : list (N * nat)) : state :=
  {| now := now st; next := next st; ents := ents st; drain := drain st;
     locks := ls; closes := closes st; thrs := thrs st |}.

Definition sys_done (st : state) (t : nat) (th : thr) (n : N) : state * list event :=
  (set_thr st t (set_ph th PhDone), [EResp t (RSys n)]).

Definition step0 (dttl : Z) (ps : list prog) (st : state) (t : nat) : state * list event :=
  match nth_error ps t, nth_error (thrs st) t with
  | Some p, Some th =>
      match t_ph th, p with
      | PhDone, _ => (st, [])
      (* ---- requests and deletes: resolve ---- *)
      | PhInit, PReq w c TNone _ _ body _ =>
          (set_thr st t (set_ph th (PhRun None body)), [EStart t; EEnter t None false])
      | PhInit, PDelete w c TNone =>
          (set_thr st t (set_ph th PhDone), [EStart t; EResp t (RDel false)])
      | PhInit, PReq w c tk _ _ _ _ =>
          let '(st1, evs, r) := resolve st w c (deref st tk) in
          match r with
          | Some s => (set_thr st1 t (set_ph th (PhWait s)), EStart t :: evs)
          | None => (set_thr st1 t (set_ph th PhDone), EStart t :: evs ++ [EResp t RLost])
          end
      | PhInit, PDelete w c tk =>
          let '(st1, evs, r) := resolve st w c (deref st tk) in
          match r with
          | Some s => (set_thr st1 t (set_ph th (PhWait s)), EStart t :: evs)
          | None => (set_thr st1 t (set_ph th PhDone), EStart t :: evs ++ [EResp t (RDel false)])
          end
      (* ---- entry.lock.Lock() ---- *)
      | PhWait s, PReq _ _ _ _ _ body _ =>
          match lock_of s (locks st) with
          | Some _ => (st, [])
          | None =>
              let st1 := with_locks st ((s, t) :: locks st) in
              (set_thr st1 t {| t_ph := PhRun (Some s) body; t_sess := Some s;
                                t_closed := false; t_mint := t_mint th |},
               [EEnter t (Some s) (memN s (closes st))])
          end
      | PhWait s, PDelete _ _ _ =>
          match lock_of s (locks st) with
          | Some _ => (st, [])
          | None => (set_thr (with_locks st ((s, t) :: locks st)) t (set_ph th (PhDel s false)), [])
          end
      (* ---- handler ---- *)
      | PhRun h (a :: rest), PReq w c _ acc ttl _ _ =>
          let '(st1, th1, evs) := do_act dttl st t th w c acc ttl a in
          (set_thr st1 t (set_ph th1 (PhRun h rest)), evs)
      | PhRun h [], PReq _ _ _ _ _ _ out =>
          (set_thr (with_locks st (unlock_opt h (locks st))) t (set_ph th PhDone),
           [EResp t (RDone out (option_map k_sid (t_mint th)) (t_closed th))])
      (* ---- delete body ---- *)
      | PhDel s false, PDelete w _ _ =>
          let '(st1, hit) := reg_close st w s in
          (set_thr st1 t (set_ph th (PhDel s true)), if hit then [EClosed s] else [])
      | PhDel s true, PDelete _ _ _ =>
          (set_thr (with_locks st (unlock s (locks st))) t (set_ph th PhDone), [EResp t (RDel true)])
      (* ---- operator / clock ---- *)
      | PhInit, PAdvance d =>
          sys_done {| now := (now st + d)%Z; next := next st; ents := ents st; drain := drain st;
                      locks := locks st; closes := closes st; thrs := thrs st |} t th 0
      | PhInit, PReap w =>
          let '(st1, gone) := evict st (fun e => (e_w e =? w) && (e_exp e <? now st)%Z) in
          (fst (sys_done st1 t th 0), map EClosed gone ++ [EResp t (RSys (N.of_nat (length gone)))])
      | PhInit, PShutdown w =>
          let '(st1, gone) := evict st (fun e => e_w e =? w) in
          (fst (sys_done st1 t th 0), map EClosed gone ++ [EResp t (RSys (N.of_nat (length gone)))])
      | PhInit, PDrain w b =>
          sys_done {| now := now st; next := next st; ents := ents st;
                      drain := if b then w :: drain st else filter (fun x => negb (x =? w)) (drain st);
                      locks := locks st; closes := closes st; thrs := thrs st |} t th 0
      | _, _ => (st, [])
      end
  | _, _ => (st, [])
  end.

(* Is some thread other than t inside its handler on the resumed session s?  (The
   scripted state counts the calls in flight on it; Close() reads that count.) *)
Definition in_call_other (st : state) (t : nat) (s : N) : bool :=
  existsb (fun p => negb (Nat.eqb (fst p) t) &&
                    match t_ph (snd p) with PhRun (Some s') _ => s' =? s | _ => false end)
          (combine (seq 0 (length (thrs st))) (thrs st)).

Definition annotate (st : state) (t : nat) (evs : list event) : list event :=
  flat_map (fun e => match e with
                     | EClosed s => if in_call_other st t s then [e; EUnder t s] else [e]
                     | _ => [e]
                     end) evs.

Definition step (dttl : Z) (ps : list prog) (st : state) (t : nat) : state * list event :=
  let '(st', evs) := step0 dttl ps st t in (st', annotate st t evs).

Fixpoint run (dttl : Z) (ps : list prog) (st : state) (sched : list nat) : state * list event :=
  match sched with
  | [] => (st, [])
  | t :: r =>
      let '(st1, e1) := step dttl ps st t in
      let '(st2, e2) := run dttl ps st1 r in
      (st2, e1 ++ e2)
  end.

Definition thr0 : thr := {| t_ph := PhInit; t_sess := None; t_closed := false; t_mint := None |}.
Definition init (ps : list prog) : state :=
  {| now := 0%Z; next := 0; ents := []; drain := []; locks := []; closes := [];
     thrs := map (fun _ => thr0) ps |}.

Definition model (i : input) : obs :=
  let '(st, tr) := run (i_dttl i) (i_progs i) (init (i_progs i)) (i_sched i) in
  {| o_trace := tr; o_locked := map fst (locks st) |}.

(* ---- observable equality ---------------------------------------------- *)
Definition outcome_eqb (a b : outcome) : bool :=
  match a, b with OOk, OOk | OErr, OErr | OPanic, OPanic => true | _, _ => false end.
Definition act_eqb (a b : act) : bool :=
  match a, b with
  | AOpened x, AOpened y => x =? y
  | ARefused, ARefused | ADraining, ADraining => true
  | AClose x, AClose y => Bool.eqb x y
  | _, _ => false
  end.
Definition resp_eqb (a b : resp) : bool :=
  match a, b with
  | RLost, RLost => true
  | RDone o m c, RDone o' m' c' => outcome_eqb o o' && opt_eqb N.eqb m m' && Bool.eqb c c'
  | RDel x, RDel y => Bool.eqb x y
  | RSys x, RSys y => x =? y
  | _, _ => false
  end.
Definition event_eqb (a b : event) : bool :=
  match a, b with
  | EStart t, EStart u => Nat.eqb t u
  | EEnter t s x, EEnter u s' y => Nat.eqb t u && opt_eqb N.eqb s s' && Bool.eqb x y
  | EAct t x, EAct u y => Nat.eqb t u && act_eqb x y
  | EClosed s, EClosed s' => s =? s'
  | EUnder t s, EUnder u s' => Nat.eqb t u && (s =? s')
  | EResp t x, EResp u y => Nat.eqb t u && resp_eqb x y
  | _, _ => false
  end.
Definition subsetN (a b : list N) : bool := forallb (fun x => memN x b) a.
Definition obs_eqb (a b : obs) : bool :=
  list_eqb event_eqb (o_trace a) (o_trace b)
  && subsetN (o_locked a) (o_locked b) && subsetN (o_locked b) (o_locked a).

(* ---- the property, decided on the observable trace -------------------- *)
Fixpoint assocN {A} (k : N) (l : list (N * A)) : option A :=
  match l with [] => None | (k', v) :: r => if k' =? k then Some v else assocN k r end.
Fixpoint assocn {A} (k : nat) (l : list (nat * A)) : option A :=
  match l with [] => None | (k', v) :: r => if Nat.eqb k' k then Some v else assocn k r end.

Definition dom_ok (c : caller) : bool :=
  match c with Anon => true | Auth d _ => negb (memN 0 d) end.
Definition caller_eqb (a b : caller) : bool :=
  match a, b with
  | Anon, Anon => true
  | Auth d p, Auth d' p' => beqb d d' && beqb p p'
  | _, _ => false
  end.

(* (L) mutual exclusion and no lock left behind.  Open handler sections on
   resumed sessions; a section opens at EEnter t (Some s) and ends at t's response. *)
Record monL := { l_open : list (nat * N); l_done : list nat; l_ok : bool }.
Definition monL0 : monL := {| l_open := []; l_done := []; l_ok := true |}.
Definition monL_step (m : monL) (e : event) : monL :=
  match e with
  | EEnter t (Some s) _ =>
      {| l_open := (t, s) :: l_open m; l_done := l_done m;
         l_ok := l_ok m && negb (existsb (fun p => snd p =? s) (l_open m)) |}
  | EResp t _ =>
      {| l_open := filter (fun p => negb (Nat.eqb (fst p) t)) (l_open m);
         l_done := t :: l_done m; l_ok := l_ok m |}
  | _ => m
  end.

(* (C) Close() at most once per session and only on a session that was opened
   (ids fresh); no session is opened on a draining worker. *)
Record monC := { c_drain : list N; c_opened : list N; c_closed : list N; c_ok : bool }.
Definition monC0 : monC := {| c_drain := []; c_opened := []; c_closed := []; c_ok := true |}.
Definition monC_step (ps : list prog) (m : monC) (e : event) : monC :=
  match e with
  | EAct t (AOpened s) =>
      {| c_drain := c_drain m; c_opened := s :: c_opened m; c_closed := c_closed m;
         c_ok := c_ok m && match nth_error ps t with
                           | Some (PReq w _ _ _ _ _ _) => negb (memN w (c_drain m)) && negb (memN s (c_opened m))
                           | _ => false
                           end |}
  | EClosed s =>
      {| c_drain := c_drain m; c_opened := c_opened m; c_closed := s :: c_closed m;
         c_ok := c_ok m && negb (memN s (c_closed m)) && memN s (c_opened m) |}
  | EResp t _ =>
      match nth_error ps t with
      | Some (PDrain w b) =>
          {| c_drain := if b then w :: c_drain m else filter (fun x => negb (x =? w)) (c_drain m);
             c_opened := c_opened m; c_closed := c_closed m; c_ok := c_ok m |}
      | _ => m
      end
  | _ => m
  end.

(* (I) isolation: a handler is entered on session s only by a request whose
   token was handed out for s, sent by the caller that opened s to the worker
   that opened it, and s was neither closed nor past its expiry when the request
   arrived.  The monitor replays the clock from the advance operations. *)
Record sinfo := { s_w : N; s_c : caller; s_exp : Z }.
Record monI := {
  i_now : Z; i_sess : list (N * sinfo); i_closed : list N;
  i_start : list (nat * (Z * list N)); i_mint : list (nat * N); i_ok : bool }.
Definition monI0 : monI :=
  {| i_now := 0%Z; i_sess := []; i_closed := []; i_start := []; i_mint := []; i_ok := true |}.
Definition ref_sid (m : monI) (tk : tokref) : option N :=
  match tk with TOf k => assocn k (i_mint m) | _ => None end.
Definition monI_step (dttl : Z) (ps : list prog) (m : monI) (e : event) : monI :=
  match e with
  | EStart t =>
      {| i_now := i_now m; i_sess := i_sess m; i_closed := i_closed m;
         i_start := (t, (i_now m, i_closed m)) :: i_start m; i_mint := i_mint m; i_ok := i_ok m |}
  | EEnter t (Some s) _ =>
      {| i_now := i_now m; i_sess := i_sess m; i_closed := i_closed m; i_start := i_start m;
         i_mint := i_mint m;
         i_ok := i_ok m &&
           match nth_error ps t, assocN s (i_sess m), assocn t (i_start m) with
           | Some (PReq w c tk _ _ _ _), Some si, Some (t0, closed0) =>
               opt_eqb N.eqb (ref_sid m tk) (Some s) && (s_w si =? w)
               && (caller_eqb (s_c si) c || negb (dom_ok c && dom_ok (s_c si)))
               && negb (memN s closed0) && (t0 <=? s_exp si)%Z
           | _, _, _ => false
           end |}
  | EAct t (AOpened s) =>
      match nth_error ps t with
      | Some (PReq w c _ _ ttl _ _) =>
          {| i_now := i_now m;
             i_sess := (s, {| s_w := w; s_c := c; s_exp := (i_now m + eff_ttl dttl ttl)%Z |}) :: i_sess m;
             i_closed := i_closed m; i_start := i_start m; i_mint := i_mint m; i_ok := i_ok m |}
      | _ => m
      end
  | EClosed s =>
      {| i_now := i_now m; i_sess := i_sess m; i_closed := s :: i_closed m; i_start := i_start m;
         i_mint := i_mint m; i_ok := i_ok m |}
  | EResp t r =>
      {| i_now := match nth_error ps t with Some (PAdvance d) => (i_now m + d)%Z | _ => i_now m end;
         i_sess := i_sess m; i_closed := i_closed m; i_start := i_start m;
         i_mint := match r with RDone _ (Some s) _ => (t, s) :: i_mint m | _ => i_mint m end;
         i_ok := i_ok m |}
  | _ => m
  end.

(* (X) teardown is serialized with calls: a DELETE /__session__ that reports a
   hit (204) never ran the state's Close() while another request was inside its
   handler on that session.  (A DELETE or request whose token resolution merely
   evicts an EXPIRED entry answers 200 / session_lost; expiry, the reaper and
   shutdown are not calls bearing the session and are not constrained here.) *)
Record monX := { x_sus : list nat; x_ok : bool }.
Definition monX0 : monX := {| x_sus := []; x_ok := true |}.
Definition monX_step (ps : list prog) (m : monX) (e : event) : monX :=
  match e with
  | EUnder t _ =>
      match nth_error ps t with
      | Some (PDelete _ _ _) => {| x_sus := t :: x_sus m; x_ok := x_ok m |}
      | _ => m
      end
  | EResp t r =>
      {| x_sus := filter (fun u => negb (Nat.eqb u t)) (x_sus m);
         x_ok := x_ok m && match r with RDel true => negb (memn t (x_sus m)) | _ => true end |}
  | _ => m
  end.

Definition specL (i : input) (o : obs) : bool :=
  let m := fold_left monL_step (o_trace o) monL0 in
  l_ok m && (if forallb (fun t => memn t (l_done m)) (seq 0 (length (i_progs i)))
             then match o_locked o with [] => true | _ => false end else true).
Definition specC (i : input) (o : obs) : bool :=
  c_ok (fold_left (monC_step (i_progs i)) (o_trace o) monC0).
Definition specI (i : input) (o : obs) : bool :=
  i_ok (fold_left (monI_step (i_dttl i) (i_progs i)) (o_trace o) monI0).

Definition specX (i : input) (o : obs) : bool :=
  x_ok (fold_left (monX_step (i_progs i)) (o_trace o) monX0).

Definition spec_ok (i : input) (o : obs) : bool := specL i o && specC i o && specI i o && specX i o.

(* ---- the swapped teardown order (refutation variant) --------------------- *)
(* handleStickyDelete running registry.close BEFORE entry.lock.Lock():
   [resolve] [registry.close] [Lock] [Unlock; response].  Phases are reused:
   for a delete, PhDel s false here means closed-and-waiting-for-the-lock. *)
Definition step0_sw (dttl : Z) (ps : list prog) (st : state) (t : nat) : state * list event :=
  match nth_error ps t, nth_error (thrs st) t with
  | Some (PDelete w _ _), Some th =>
      match t_ph th with
      | PhWait s =>
          let '(st1, hit) := reg_close st w s in
          (set_thr st1 t (set_ph th (PhDel s false)), if hit then [EClosed s] else [])
      | PhDel s false =>
          match lock_of s (locks st) with
          | Some _ => (st, [])
          | None => (set_thr (with_locks st ((s, t) :: locks st)) t (set_ph th (PhDel s true)), [])
          end
      | _ => step0 dttl ps st t
      end
  | _, _ => step0 dttl ps st t
  end.
Fixpoint run_sw (dttl : Z) (ps : list prog) (st : state) (sched : list nat) : state * list event :=
  match sched with
  | [] => (st, [])
  | t :: r =>
      let '(st1, e1) := step0_sw dttl ps st t in
      let '(st2, e2) := run_sw dttl ps st1 r in
      (st2, annotate st t e1 ++ e2)
  end.
Definition model_sw (i : input) : obs :=
  let '(st, tr) := run_sw (i_dttl i) (i_progs i) (init (i_progs i)) (i_sched i) in
  {| o_trace := tr; o_locked := map fst (locks st) |}.
