(* Model/C01.v — the intermediary wire helpers (vgirpc/wire.go ReadRequest;
   vgirpc/wire_intermediary.go WriteRequest, FindStreamTokens, FindStateToken,
   FindCallStateToken, FindProtocolVersion, ReadUnaryResult, WriteUnaryResult;
   wire.go writeStateTokenBatch; shm.go IsShmPointerBatch).

   A body is modelled one level above the Arrow IPC byte codec: a list of
   segments, a segment being one IPC stream (schema, batches, how it ends) or
   bytes that do not open as a stream. A batch is (row count, custom metadata
   as an ORDERED list of key/value byte strings, columns as lists of cells).
   arrow-go is the codec between bytes and this view; the harness performs it
   and also reports what the real writers put on the wire in this view. *)
From VR Require Export Lib.Strs Gen.Consts.
Open Scope N_scope.

(* ---- abstract Arrow values ---------------------------------------------- *)
Inductive ctype := TInt64 | TUtf8 | TBinary | TLargeBinary | TOther.
Definition field := (bytes * ctype)%type.
Definition schema := list field.
Definition meta := list (bytes * bytes).
Definition column := list bytes.
Record batch := { b_rows : N; b_meta : meta; b_cols : list column }.

(* how a stream ends: the EOS marker; end of data without a marker (arrow-go
   treats it as a clean end); data that ends inside a length prefix (arrow-go
   reports a read error after the intact batches; nothing oversized is
   declared, so the framing guard lets it through); a message that declares
   more bytes than remain (refused by the framing guard, ipc_guard.go) *)
Inductive term := TEos | TEof | TCut | TBroken.
Inductive seg := Stream (sc : schema) (bs : list batch) (t : term) | Junk.
Definition body := list seg.

(* vgirpc/ipc_guard.go checkIPCStreamFraming on the stream a segment starts:
   the allocation-free walk over the declared lengths. Every byte-slice entry
   point applies it before arrow-go sees the bytes; the reader-based
   ReadRequest cannot (the total size is unknown to it). *)
Definition seg_ok (g : seg) : bool :=
  match g with Junk => false | Stream _ _ TBroken => false | Stream _ _ _ => true end.
Definition guard_first (bd : body) : bool :=
  match bd with [] => true | g :: _ => seg_ok g end.

(* the name ReadUnaryResult looks up (a literal in the Go source) *)
Definition f_result : bytes := Eval compute in str "result".

(* ---- arrow.Metadata ------------------------------------------------------ *)
(* GetValue = FindKey = FIRST match *)
Fixpoint get (k : bytes) (m : meta) : option bytes :=
  match m with
  | [] => None
  | (k', v) :: t => if beqb k' k then Some v else get k t
  end.
Definition has (k : bytes) (m : meta) : bool :=
  match get k m with Some _ => true | None => false end.
(* `v, found := md.GetValue(k); found && v != ""` *)
Definition get_ne (k : bytes) (m : meta) : option bytes :=
  match get k m with Some (c :: v) => Some (c :: v) | _ => None end.
Definition dflt (o : option bytes) : bytes := match o with Some v => v | None => [] end.

(* Request.Metadata is a Go map filled in key order: LAST value wins. Its
   canonical view lists the keys in order of first occurrence. *)
Fixpoint get_last (k : bytes) (m : meta) : option bytes :=
  match m with
  | [] => None
  | (k', v) :: t =>
      match get_last k t with
      | Some x => Some x
      | None => if beqb k' k then Some v else None
      end
  end.
Definition memb (k : bytes) (l : list bytes) : bool := existsb (beqb k) l.
Fixpoint first_keys (seen : list bytes) (m : meta) : list bytes :=
  match m with
  | [] => []
  | (k, _) :: t => if memb k seen then first_keys seen t else k :: first_keys (k :: seen) t
  end.
Definition map_view (m : meta) : meta :=
  map (fun k => (k, dflt (get_last k m))) (first_keys [] m).

(* ---- utf8.ValidString ---------------------------------------------------- *)
Definition inr (lo hi c : N) : bool := (lo <=? c) && (c <=? hi).
Definition cont (c : N) : bool := inr 128 191 c.
Fixpoint utf8_valid (s : bytes) : bool :=
  match s with
  | [] => true
  | c :: t =>
      if c <? 128 then utf8_valid t
      else if inr 194 223 c then
        match t with c1 :: t1 => cont c1 && utf8_valid t1 | _ => false end
      else if inr 224 239 c then
        match t with
        | c1 :: c2 :: t2 =>
            (if c =? 224 then inr 160 191 c1 else if c =? 237 then inr 128 159 c1 else cont c1)
            && cont c2 && utf8_valid t2
        | _ => false
        end
      else if inr 240 244 c then
        match t with
        | c1 :: c2 :: c3 :: t3 =>
            (if c =? 240 then inr 144 191 c1 else if c =? 244 then inr 128 143 c1 else cont c1)
            && cont c2 && cont c3 && utf8_valid t3
        | _ => false
        end
      else false
  end.

(* ---- ReadRequest --------------------------------------------------------- *)
Record request := {
  q_method : bytes; q_version : bytes; q_request_id : bytes; q_log_level : bytes;
  q_schema : schema; q_rows : N; q_cols : list column;
  q_meta : meta (* canonical view of the Metadata map *) }.

Inductive reason :=
  RsIpc | RsEof | RsNoMethod | RsBadUtf8 | RsNoVersion | RsWrongVersion | RsRowCount.
Inductive etype := EIpc | EEof | EProtocol | EVersion | EOther.
Definition etype_of (r : reason) : etype :=
  match r with
  | RsIpc => EIpc | RsEof => EEof
  | RsNoMethod | RsBadUtf8 | RsRowCount => EProtocol
  | RsNoVersion | RsWrongVersion => EVersion
  end.
Inductive rres := Rej (r : reason) | Acc (q : request).

(* shm.go IsShmPointerBatch *)
Definition is_shm_pointer (b : batch) : bool :=
  (b_rows b =? 0) && has k_shm_offset (b_meta b) && negb (has k_log_level (b_meta b)).

Definition nofields (sc : schema) : bool := match sc with [] => true | _ => false end.

(* the row-count rule: fields present, rows <> 1, and neither pointer exemption *)
Definition row_rule_violated (sc : schema) (b : batch) : bool :=
  negb (nofields sc) && negb (b_rows b =? 1)
  && negb (has k_location (b_meta b)) && negb (is_shm_pointer b).

Definition mk_request (sc : schema) (b : batch) (meth ver : bytes) : request :=
  {| q_method := meth; q_version := ver;
     q_request_id := dflt (get k_request_id (b_meta b));
     q_log_level := dflt (get k_log_level (b_meta b));
     q_schema := sc; q_rows := b_rows b; q_cols := b_cols b;
     q_meta := map_view (b_meta b) |}.

(* the checks, in the code's order *)
Definition validate (sc : schema) (b : batch) : rres :=
  let m := b_meta b in
  match get k_method m with
  | None => Rej RsNoMethod
  | Some meth =>
      if negb (utf8_valid meth) then Rej RsBadUtf8 else
      match get k_request_version m with
      | None => Rej RsNoVersion
      | Some ver =>
          if negb (beqb ver wire_version) then Rej RsWrongVersion
          else if row_rule_violated sc b then Rej RsRowCount
          else Acc (mk_request sc b meth ver)
      end
  end.

(* one stream is read off the reader: open it, take the first batch, drain
   the rest (errors while draining are not looked at), then validate *)
Definition read_request (bd : body) : rres :=
  match bd with
  | [] => Rej RsIpc
  | Junk :: _ => Rej RsIpc
  | Stream _ [] TBroken :: _ => Rej RsIpc
  | Stream _ [] TCut :: _ => Rej RsIpc
  | Stream _ [] _ :: _ => Rej RsEof
  | Stream sc (b :: _) _ :: _ => validate sc b
  end.

(* ---- WriteRequest -------------------------------------------------------- *)
Definition req_meta (m v : bytes) : meta :=
  (k_method, m) :: (k_request_version, wire_version)
  :: match v with [] => [] | _ => [(k_protocol_version, v)] end.

Definition write_request (m : bytes) (sc : schema) (rows : N) (cols : list column) (v : bytes) : seg :=
  Stream sc [ {| b_rows := rows; b_meta := req_meta m v; b_cols := cols |} ] TEos.

(* ---- writeStateTokenBatch ------------------------------------------------ *)
Definition token_batch (sc : schema) (tok call : bytes) : batch :=
  {| b_rows := 0;
     b_meta := (k_stream_state, tok) :: match call with [] => [] | _ => [(k_call_state, call)] end;
     b_cols := map (fun _ => []) sc |}.

(* ---- FindStreamTokens ---------------------------------------------------- *)
Definition or_first {A} (a b : option A) : option A := match a with Some _ => a | None => b end.
Definition cursor_of (b : batch) : option bytes := get_ne k_stream_state (b_meta b).
Definition call_of (b : batch) : option bytes := get_ne k_call_state (b_meta b).

(* scanStreamForTokens: the batches of ONE stream; returns at the first cursor *)
Fixpoint scan_batches (bs : list batch) (call : option bytes) : option bytes * option bytes :=
  match bs with
  | [] => (None, call)
  | b :: t =>
      let call' := or_first call (call_of b) in
      match cursor_of b with
      | Some tok => (Some tok, call')
      | None => scan_batches t call'
      end
  end.

(* the outer loop. It stops: when the framing guard refuses the stream about
   to be opened (nothing of that stream is looked at); with the cursor in hand;
   when a stream could not be opened or read to its end; when the data is used
   up. (The Go loop's `r.Len() == before` guard cannot fire: opening a stream
   on a non-empty reader either consumes bytes or fails.) *)
Fixpoint find_loop (bd : body) (call : option bytes) : option bytes * option bytes :=
  match bd with
  | [] => (None, call)
  | Junk :: _ => (None, call)
  | Stream _ _ TBroken :: _ => (None, call)
  | Stream _ bs t :: rest =>
      let '(st, c) := scan_batches bs None in
      let call' := or_first call c in
      match st with
      | Some _ => (st, call')
      | None => match t with TEos => find_loop rest call' | _ => (None, call') end
      end
  end.
Definition find_stream_tokens (bd : body) := find_loop bd None.
Definition find_state_token (bd : body) := fst (find_stream_tokens bd).
Definition find_call_state_token (bd : body) := snd (find_stream_tokens bd).

(* ---- FindProtocolVersion ------------------------------------------------- *)
Definition pv_of (b : batch) : option bytes := get_ne k_protocol_version (b_meta b).
Fixpoint fpv_batches (bs : list batch) : bytes :=
  match bs with
  | [] => []
  | b :: t => match pv_of b with Some v => v | None => fpv_batches t end
  end.
Definition find_protocol_version (bd : body) : bytes :=
  match bd with
  | Stream _ _ TBroken :: _ => []          (* refused by the framing guard *)
  | Stream _ bs _ :: _ => fpv_batches bs
  | _ => []
  end.
(* before the guard (kept for the refutation witness) *)
Definition find_protocol_version_legacy (bd : body) : bytes :=
  match bd with Stream _ bs _ :: _ => fpv_batches bs | _ => [] end.

(* ---- ReadUnaryResult / WriteUnaryResult ---------------------------------- *)
Fixpoint field_index (n : bytes) (sc : schema) : option nat :=
  match sc with
  | [] => None
  | (n', _) :: t => if beqb n' n then Some O else
                    match field_index n t with Some i => Some (S i) | None => None end
  end.

(* a batch with rows: the first field called result, if it is a binary column *)
Definition decide_result (sc : schema) (b : batch) : option (schema * bytes) :=
  match field_index f_result sc with
  | None => None
  | Some i =>
      match nth_error sc i, nth_error (b_cols b) i with
      | Some (_, TBinary), Some (v :: _) => Some (sc, v)
      | _, _ => None
      end
  end.

Definition log_level_skippable (b : batch) : bool :=
  match get k_log_level (b_meta b) with
  | Some l => negb (beqb l level_exception)
  | None => false
  end.

Fixpoint rur_batches (sc : schema) (bs : list batch) : option (schema * bytes) :=
  match bs with
  | [] => None
  | b :: t =>
      if 0 <? b_rows b then decide_result sc b
      else if log_level_skippable b then rur_batches sc t
      else None
  end.
Definition read_unary_result (bd : body) : option (schema * bytes) :=
  match bd with
  | Stream _ _ TBroken :: _ => None        (* refused by the framing guard *)
  | Stream sc bs _ :: _ => rur_batches sc bs
  | _ => None
  end.

Definition envelope_ok (sc : schema) : bool :=
  match sc with [(_, TBinary)] => true | _ => false end.
Definition write_unary_result (sc : schema) (r : bytes) : option seg :=
  if envelope_ok sc
  then Some (Stream sc [ {| b_rows := 1; b_meta := []; b_cols := [[r]] |} ] TEos)
  else None.

(* ---- inputs of the correspondence check ---------------------------------- *)
Inductive bspec := BRaw (b : batch) | BToken (tok call : bytes).
Inductive sspec :=
| SRaw (sc : schema) (bs : list bspec) (t : term)
| SJunk
| SWriteReq (m : bytes) (sc : schema) (rows : N) (cols : list column) (v : bytes)
| SWriteRes (sc : schema) (r : bytes).
Inductive input := IBody (ss : list sspec) | IMalformed.

Definition terminal (s : sspec) : bool :=
  match s with SJunk => true | SRaw _ _ TEos => false | SRaw _ _ _ => true | _ => false end.
(* nothing after a segment that does not end in EOS is on the wire *)
Fixpoint cut (ss : list sspec) : list sspec :=
  match ss with
  | [] => []
  | s :: t => if terminal s then [s] else s :: cut t
  end.

Definition expand_b (sc : schema) (s : bspec) : batch :=
  match s with BRaw b => b | BToken tok call => token_batch sc tok call end.
Definition expand_s (s : sspec) : option seg :=
  match s with
  | SRaw sc bs t => Some (Stream sc (map (expand_b sc) bs) t)
  | SJunk => Some Junk
  | SWriteReq m sc rows cols v => Some (write_request m sc rows cols v)
  | SWriteRes sc r => write_unary_result sc r
  end.
Fixpoint expand (ss : list sspec) : body :=
  match ss with
  | [] => []
  | s :: t => match expand_s s with Some g => g :: expand t | None => expand t end
  end.
Definition writer_failed (s : sspec) : bool :=
  match expand_s s with Some _ => false | None => true end.
Definition wire (ss : list sspec) : body := expand (cut ss).

(* ---- observables ---------------------------------------------------------- *)
Inductive rview := VRej (t : etype) | VAcc (q : request).
Definition view (r : rres) : rview :=
  match r with Rej x => VRej (etype_of x) | Acc q => VAcc q end.

Record bobs := {
  o_body : body;                        (* what is on the wire, decoded by arrow-go *)
  o_werr : list bool;                   (* per segment: the writer returned an error *)
  o_rr : rview;                         (* ReadRequest *)
  o_tok : option bytes * option bytes;  (* FindStreamTokens *)
  o_state : option bytes;               (* FindStateToken *)
  o_call : option bytes;                (* FindCallStateToken *)
  o_pv : bytes;                         (* FindProtocolVersion *)
  o_ur : option (schema * bytes);       (* ReadUnaryResult *)
  o_guard : bool;                       (* checkIPCStreamFraming accepts the first stream *)
  o_guard_all : bool;                   (* checkIPCFraming accepts every stream *)
  o_panics : N }.
(* for malformed bytes the model predicts nothing; observed are: crashes
   (recovered panics + process deaths) of the reader-based ReadRequest; crashes
   of the byte-slice functions; MiB allocated by the byte-slice functions; and
   whether a body the framing guard refuses yielded nothing from them *)
Inductive obs := OB (r : bobs) | OM (rr_crashes slice_crashes slice_alloc_mib : N) (refusal_respected : bool).
(* what the byte-slice functions together may allocate on a body of at most a
   few KiB (they are guarded: no declared length can exceed the body) *)
Definition slice_alloc_cap_mib : N := 8.

Definition model (i : input) : obs :=
  match i with
  | IMalformed => OM 0 0 0 true
  | IBody ss =>
      let bd := wire ss in
      OB {| o_body := bd; o_werr := map writer_failed (cut ss);
            o_rr := view (read_request bd);
            o_tok := find_stream_tokens bd;
            o_state := find_state_token bd; o_call := find_call_state_token bd;
            o_pv := find_protocol_version bd;
            o_ur := read_unary_result bd;
            o_guard := guard_first bd; o_guard_all := forallb seg_ok bd; o_panics := 0 |}
  end.

(* ---- decidable equality on observables ------------------------------------ *)
Definition ctype_eqb (a b : ctype) : bool :=
  match a, b with
  | TInt64, TInt64 | TUtf8, TUtf8 | TBinary, TBinary | TLargeBinary, TLargeBinary | TOther, TOther => true
  | _, _ => false
  end.
Definition field_eqb : field -> field -> bool := pair_eqb beqb ctype_eqb.
Definition schema_eqb : schema -> schema -> bool := list_eqb field_eqb.
Definition meta_eqb : meta -> meta -> bool := list_eqb (pair_eqb beqb beqb).
Definition cols_eqb : list column -> list column -> bool := list_eqb (list_eqb beqb).
Definition batch_eqb (a b : batch) : bool :=
  (b_rows a =? b_rows b) && meta_eqb (b_meta a) (b_meta b) && cols_eqb (b_cols a) (b_cols b).
Definition term_eqb (a b : term) : bool :=
  match a, b with TEos, TEos | TEof, TEof | TCut, TCut | TBroken, TBroken => true | _, _ => false end.
Definition seg_eqb (a b : seg) : bool :=
  match a, b with
  | Junk, Junk => true
  | Stream s1 b1 t1, Stream s2 b2 t2 => schema_eqb s1 s2 && list_eqb batch_eqb b1 b2 && term_eqb t1 t2
  | _, _ => false
  end.
Definition body_eqb : body -> body -> bool := list_eqb seg_eqb.
Definition etype_eqb (a b : etype) : bool :=
  match a, b with
  | EIpc, EIpc | EEof, EEof | EProtocol, EProtocol | EVersion, EVersion | EOther, EOther => true
  | _, _ => false
  end.
Definition request_eqb (a b : request) : bool :=
  beqb (q_method a) (q_method b) && beqb (q_version a) (q_version b)
  && beqb (q_request_id a) (q_request_id b) && beqb (q_log_level a) (q_log_level b)
  && schema_eqb (q_schema a) (q_schema b) && (q_rows a =? q_rows b)
  && cols_eqb (q_cols a) (q_cols b) && meta_eqb (q_meta a) (q_meta b).
Definition rview_eqb (a b : rview) : bool :=
  match a, b with
  | VRej x, VRej y => etype_eqb x y
  | VAcc p, VAcc q => request_eqb p q
  | _, _ => false
  end.
Definition ob_eqb : option bytes -> option bytes -> bool := opt_eqb beqb.
Definition tok_eqb : option bytes * option bytes -> option bytes * option bytes -> bool :=
  pair_eqb ob_eqb ob_eqb.
Definition ur_eqb : option (schema * bytes) -> option (schema * bytes) -> bool :=
  opt_eqb (pair_eqb schema_eqb beqb).

Definition bobs_eqb (a b : bobs) : bool :=
  body_eqb (o_body a) (o_body b) && list_eqb Bool.eqb (o_werr a) (o_werr b)
  && rview_eqb (o_rr a) (o_rr b) && tok_eqb (o_tok a) (o_tok b)
  && ob_eqb (o_state a) (o_state b) && ob_eqb (o_call a) (o_call b)
  && beqb (o_pv a) (o_pv b) && ur_eqb (o_ur a) (o_ur b)
  && Bool.eqb (o_guard a) (o_guard b) && Bool.eqb (o_guard_all a) (o_guard_all b)
  && (o_panics a =? o_panics b).
Definition obs_eqb (a b : obs) : bool :=
  match a, b with
  | OB x, OB y => bobs_eqb x y
  | OM _ _ _ _, OM _ _ _ _ => true   (* the model makes no prediction about malformed bytes; spec_ok judges them *)
  | _, _ => false
  end.

(* ---- the property in decidable form ---------------------------------------
   Everything below is phrased without the reader models above: first-match
   searches over the batches that are on the wire. *)
Fixpoint first_some {A B} (f : A -> option B) (l : list A) : option B :=
  match l with [] => None | x :: t => or_first (f x) (first_some f t) end.

(* the batches a walk over concatenated streams can reach: nothing of a
   stream whose framing is refused, nothing after a stream that does not end
   in EOS *)
Fixpoint reach (bd : body) : list batch :=
  match bd with
  | [] => []
  | Junk :: _ => []
  | Stream _ _ TBroken :: _ => []
  | Stream _ bs TEos :: rest => bs ++ reach rest
  | Stream _ bs _ :: _ => bs
  end.
(* up to and including the first cursor-bearing batch *)
Fixpoint upto_cursor (l : list batch) : list batch :=
  match l with
  | [] => []
  | b :: t => match cursor_of b with Some _ => [b] | None => b :: upto_cursor t end
  end.
Definition spec_tokens (bd : body) : option bytes * option bytes :=
  (first_some cursor_of (reach bd), first_some call_of (upto_cursor (reach bd))).

(* the first stream, when the byte-slice functions get to read it *)
Definition first_stream (bd : body) : option (schema * list batch) :=
  match bd with
  | Stream _ _ TBroken :: _ => None
  | Stream sc bs _ :: _ => Some (sc, bs)
  | _ => None
  end.

Definition spec_pv (bd : body) : bytes :=
  match first_stream bd with Some (_, bs) => dflt (first_some pv_of bs) | None => [] end.

Definition is_log (b : batch) : bool := (b_rows b =? 0) && log_level_skippable b.
Fixpoint drop_logs (bs : list batch) : list batch :=
  match bs with b :: t => if is_log b then drop_logs t else bs | [] => [] end.
Definition spec_ur (bd : body) : option (schema * bytes) :=
  match first_stream bd with
  | Some (sc, bs) =>
      match drop_logs bs with
      | b :: _ => if b_rows b =? 0 then None else decide_result sc b
      | [] => None
      end
  | None => None
  end.

(* ReadRequest: class of the outcome and, when accepted, every field *)
Definition spec_request (bd : body) (v : rview) : bool :=
  match bd with
  | Stream sc (b :: _) _ :: _ =>
      let m := b_meta b in
      let meth_ok := match get k_method m with Some x => utf8_valid x | None => false end in
      let ver_ok := match get k_request_version m with Some x => beqb x wire_version | None => false end in
      match v with
      | VAcc q =>
          meth_ok && ver_ok && negb (row_rule_violated sc b)
          && request_eqb q (mk_request sc b (dflt (get k_method m)) wire_version)
      | VRej EProtocol => negb meth_ok || (ver_ok && row_rule_violated sc b)
      | VRej EVersion => meth_ok && negb ver_ok
      | VRej _ => false
      end
  | Stream _ [] TBroken :: _ | Stream _ [] TCut :: _ => match v with VRej EIpc => true | _ => false end
  | Stream _ [] _ :: _ => match v with VRej EEof => true | _ => false end
  | _ => match v with VRej EIpc => true | _ => false end
  end.

(* WriteRequest then ReadRequest / FindProtocolVersion on exactly that body *)
Definition spec_req_roundtrip (ss : list sspec) (r : bobs) : bool :=
  match ss with
  | [SWriteReq m sc rows cols v] =>
      if utf8_valid m && (nofields sc || (rows =? 1)) then
        match o_rr r with
        | VAcc q =>
            beqb (q_method q) m && beqb (q_version q) wire_version
            && schema_eqb (q_schema q) sc && (q_rows q =? rows) && cols_eqb (q_cols q) cols
            && ob_eqb (get k_protocol_version (q_meta q)) (match v with [] => None | _ => Some v end)
            && beqb (q_request_id q) [] && beqb (q_log_level q) []
        | VRej _ => false
        end && beqb (o_pv r) v
      else match o_rr r with VRej EProtocol => true | _ => false end
  | _ => true
  end.

(* WriteUnaryResult then ReadUnaryResult on exactly that body *)
Definition spec_res_roundtrip (ss : list sspec) (r : bobs) : bool :=
  match ss with
  | [SWriteRes sc res] =>
      match sc with
      | [(n, TBinary)] =>
          list_eqb Bool.eqb (o_werr r) [false]
          && ur_eqb (o_ur r) (if beqb n f_result then Some (sc, res) else None)
      | _ => list_eqb Bool.eqb (o_werr r) [true] && body_eqb (o_body r) []
      end
  | _ => true
  end.

Definition spec_ok (i : input) (o : obs) : bool :=
  match i, o with
  | IMalformed, OM rr_crashes slice_crashes alloc refusal =>
      (rr_crashes =? 0) && (slice_crashes =? 0) && (alloc <=? slice_alloc_cap_mib) && refusal
  | IBody ss, OB r =>
      let bd := wire ss in
      (o_panics r =? 0)
      && body_eqb (o_body r) bd
      && spec_request bd (o_rr r)
      && tok_eqb (o_tok r) (spec_tokens bd)
      && ob_eqb (o_state r) (fst (spec_tokens bd)) && ob_eqb (o_call r) (snd (spec_tokens bd))
      && beqb (o_pv r) (spec_pv bd)
      && ur_eqb (o_ur r) (spec_ur bd)
      (* malformed framing is refused: the guard's verdict, and nothing comes out *)
      && Bool.eqb (o_guard r) (guard_first bd) && Bool.eqb (o_guard_all r) (forallb seg_ok bd)
      && (o_guard r || (tok_eqb (o_tok r) (None, None) && beqb (o_pv r) [] && ur_eqb (o_ur r) None))
      && spec_req_roundtrip ss r
      && spec_res_roundtrip ss r
  | _, _ => false
  end.
