(* Model/C16.v (DESIGN: HttpTurn) — one exchange stream (or one producer stream with
   producer batch limit 1) over HTTP, as a history of continuation requests
   (vgirpc/http_stream.go handleStreamInit / handleStreamExchange ->
   handleStreamCancel / handleExchangeCall / handleProducerContinuation ->
   runProduceLoopInto, stripFrameworkTickMetadata, requestMetadata, packCursorToken,
   writeStateTokenBatch; vgirpc/stream.go OutputCollector Emit / ClientLog / Finish /
   validate: batches are flushed in the order they were collected, the data batch
   is the one at dataBatchIdx).

   The server keeps no per-stream state: a cursor token seals the whole state, so
   the state a request runs against is a function of the cursor it presents.
   A history is therefore modelled over the list of cursors minted so far
   ([minted]: k-th minted cursor |-> the script position it seals); a request
   names the cursor it presents by its index, so an old cursor can be replayed.

   Request metadata is an ORDERED list of (key, value) where a value is a
   literal or a reference to a token the server minted earlier (cursor k, the
   call token) — exactly what the harness puts on the wire. Lookups are
   arrow.Metadata.GetValue = first match. *)
From VR Require Export Lib.Frames Gen.Consts.
From VR Require Model.C04.
Open Scope N_scope.

(* ---- request metadata ----------------------------------------------------- *)
Inductive mval := VLit (b : bytes) | VCur (k : nat) | VCall.
Definition rmeta := list (bytes * mval).

Definition mval_eqb (a b : mval) : bool :=
  match a, b with
  | VLit x, VLit y => beqb x y
  | VCur j, VCur k => Nat.eqb j k
  | VCall, VCall => true
  | _, _ => false
  end.
Definition rmeta_eqb (a b : rmeta) : bool := list_eqb (pair_eqb beqb mval_eqb) a b.

(* frameworkTickMetadataKeys (REGENERATED table) and stripFrameworkTickMetadata *)
Definition is_fw (k : bytes) : bool := existsb (beqb k) c16_framework_keys.
Definition keep (kv : bytes * mval) : bool := negb (is_fw (fst kv)).
Definition strip (m : rmeta) : rmeta := filter keep m.

(* arrow.Metadata.GetValue: first entry with that key *)
Fixpoint get_first (k : bytes) (m : rmeta) : option mval :=
  match m with
  | [] => None
  | (k', v) :: t => if beqb k k' then Some v else get_first k t
  end.
Definition has_key (k : bytes) (m : rmeta) : bool :=
  match get_first k m with Some _ => true | None => false end.

Definition is_tok (v : mval) : bool := match v with VLit _ => false | _ => true end.

(* ---- scripted user code (harness c16.go C16State) ------------------------- *)
Inductive act :=
| AEmit | AEmit0 | AEmit2 | AEmit2Ignore | ANoEmit | AFinish | AEmitFinish | AErr (f : C04.failure)
| AEmitErr (f : C04.failure).   (* a successful Emit (and the late logs), THEN the error / panic *)
Record tscript := { t_logs : list C04.logmsg; t_act : act; t_value : Z;
                    t_meta : kvlist;      (* EmitWithMetadata map *)
                    t_peek : bool;        (* the handler reads the input batch's own metadata *)
                    t_late : list C04.logmsg }.   (* out.ClientLog calls AFTER the first successful Emit of the turn *)
Inductive cscript := CNone | COk | CErr | CPanic.   (* no OnCancel | returns nil | returns an error | panics *)

Inductive body := BData (vals : list Z) | BTick.    (* {x:int64} batch | empty-schema batch *)
Record op := { o_meta : rmeta; o_body : body }.

Record input := { i_turns : list tscript; i_cancel : cscript;
                  i_cache : bool;          (* call-state cache enabled *)
                  i_ops : list op;
                  i_prod : bool }.         (* a PRODUCER stream (batch limit 1: one Produce per request, turn 0 inside /init) *)

(* ---- observables ----------------------------------------------------------- *)
Inductive tr := TInit | TEx (pos : N) (insum : Z) | TProd (pos : N) | TCancel (pos : N) | TOther (what : bytes).
Definition tr_eqb (a b : tr) : bool :=
  match a, b with
  | TInit, TInit => true
  | TEx p x, TEx q y => (p =? q) && Z.eqb x y
  | TCancel p, TCancel q => p =? q
  | TProd p, TProd q => p =? q
  | TOther x, TOther y => beqb x y
  | _, _ => false
  end.

(* what the handler recorded *)
Record seen := { sn_meta : rmeta;            (* CallContext.InputMetadata, in order *)
                 sn_batch : option rmeta;    (* the input batch's own metadata, when the script looks *)
                 sn_leak : bool }.           (* a minted token inside TransportMetadata / Cookies / schema metadata *)
Definition seen_eqb (a b : seen) : bool :=
  rmeta_eqb (sn_meta a) (sn_meta b) && opt_eqb rmeta_eqb (sn_batch a) (sn_batch b) && Bool.eqb (sn_leak a) (sn_leak b).

Record resp := {
  r_status : Z; r_errhdr : bool; r_schema : bytes;
  r_frames : list frame;               (* a zero-row batch carrying only the cursor is FData 0 [] _ *)
  r_curs : list (list mval);           (* per frame: the values under the stream-state key, wire order *)
  r_first : option mval;               (* the cursor a first-match reader (FindStreamTokens) recovers *)
  r_hascall : bool;                    (* the response hands over a call token (/init only) *)
  r_pos : option N;                    (* script position sealed in the LAST stream-state value of the data batch *)
  r_seen : option seen;
  r_trace : list tr;                   (* calls into user code during this request *)
  r_strip : rmeta }.                   (* stripFrameworkTickMetadata called directly on the request metadata *)
Definition obs := list resp.

Definition resp_eqb (a b : resp) : bool :=
  Z.eqb (r_status a) (r_status b) && Bool.eqb (r_errhdr a) (r_errhdr b) && beqb (r_schema a) (r_schema b)
  && list_eqb frame_eqb (r_frames a) (r_frames b) && list_eqb (list_eqb mval_eqb) (r_curs a) (r_curs b)
  && opt_eqb mval_eqb (r_first a) (r_first b) && Bool.eqb (r_hascall a) (r_hascall b)
  && opt_eqb N.eqb (r_pos a) (r_pos b) && opt_eqb seen_eqb (r_seen a) (r_seen b)
  && list_eqb tr_eqb (r_trace a) (r_trace b) && rmeta_eqb (r_strip a) (r_strip b).
Definition obs_eqb (a b : obs) : bool := list_eqb resp_eqb a b.

(* ---- one Exchange call followed by the framework's validation -------------- *)
Definition out_schema : bytes := str "v:int64".
Definition zsum (l : list Z) : Z := fold_right Z.add 0%Z l.
Definition insum (b : body) : Z := match b with BData v => zsum v | BTick => 0%Z end.
Definition is_tick (b : body) : bool := match b with BTick => true | BData _ => false end.

Definition default_turn : tscript :=
  {| t_logs := []; t_act := AEmit; t_value := 0; t_meta := []; t_peek := false; t_late := [] |}.
Definition turn_at (i : input) (p : N) : tscript := nth (N.to_nat p) (i_turns i) default_turn.

Definition is_ss (kv : bytes * bytes) : bool := beqb (fst kv) c16_meta_stream_state.
Definition exc (ty msg : bytes) : frame := FExc ty msg [] [].
Definition turn_exc_msg (f : C04.failure) : bytes :=
  match f with C04.EPanic s => C04.rpc_error_text exc_runtime_error s | _ => C04.exc_msg f end.

Inductive tres :=
| TROk (frames : list frame) (user_cur : list mval)   (* flushed batches; what the emit metadata put under the stream-state key *)
| TRFin (frames : list frame) (user_cur : list mval)  (* producer only: out.Finish() accepted, the stream is over *)
| TRErr (e : frame).                                  (* everything collected is dropped, one EXCEPTION batch *)

(* the collector holds the batches in the order the calls were made: logs raised before
   the Emit, the data batch, logs raised after it *)
Definition turn (prod : bool) (t : tscript) (x : Z) : tres :=
  let logs := map (C04.log_frame []) (t_logs t) in
  let late := map (C04.log_frame []) (t_late t) in
  let m := kv_sort (t_meta t) in                              (* a Go map: last write wins *)
  let um := filter (fun kv => negb (is_ss kv)) m in
  let uc := map (fun kv => VLit (snd kv)) (filter is_ss m) in
  let data1 := FData 1 [(t_value t + x)%Z] um in
  let fin_ex := TRErr (exc c11_exc_finish_exchange c11_err_finish_exchange) in
  match t_act t with
  | AEmit | AEmit2Ignore => TROk (logs ++ [data1] ++ late) uc
  | AEmit0 => TROk (logs ++ [FData 0 [] um] ++ late) uc
  | AEmit2 => TRErr (exc c11_exc_two_batches c11_err_two_batches)
  | ANoEmit => TRErr (exc c11_exc_no_data c11_err_no_data)
  | AFinish => if prod then TRFin logs [] else fin_ex
  | AEmitFinish => if prod then TRFin (logs ++ [data1] ++ late) uc else fin_ex
  (* the error path releases whatever the collector holds: an Emit before the failure changes nothing *)
  | AErr f | AEmitErr f => TRErr (exc (C04.exc_type f) (turn_exc_msg f))
  end.

(* FindStreamTokens: first batch whose FIRST stream-state value is non-empty *)
Definition head_nonempty (c : list mval) : option mval :=
  match c with
  | [] => None
  | VLit [] :: _ => None
  | v :: _ => Some v
  end.
Fixpoint first_of (curs : list (list mval)) : option mval :=
  match curs with
  | [] => None
  | c :: rest => match head_nonempty c with Some v => Some v | None => first_of rest end
  end.

(* exchange: per-frame cursor values of a validated turn: the user's, then the fresh cursor, on the
   batch at dataBatchIdx only *)
Definition curs_of (fs : list frame) (uc : list mval) (fresh : mval) : list (list mval) :=
  map (fun f => if is_data f then uc ++ [fresh] else []) fs.
(* producer: the data batch carries the emit metadata only; the cursor follows on its own zero-row batch *)
Definition curs_prod (fs : list frame) (uc : list mval) : list (list mval) :=
  map (fun f => if is_data f then uc else []) fs.
Definition sentinel : frame := FData 0 [] [].

(* ---- the continuation route, in the order of the code --------------------- *)
Definition has_canceller (c : cscript) : bool := match c with CNone => false | _ => true end.
Definition call_ok (v : option mval) : bool := match v with Some VCall => true | _ => false end.
Definition presented (minted : list N) (v : mval) : option N :=
  match v with VCur k => nth_error minted k | _ => None end.

Definition refuse (ety : bytes) (o : op) : resp :=
  {| r_status := 400; r_errhdr := false; r_schema := []; r_frames := [exc ety []]; r_curs := [[]];
     r_first := None; r_hascall := false; r_pos := None; r_seen := None; r_trace := []; r_strip := strip (o_meta o) |}.

(* [leaks] = the code before fix 270d950: the batch handed to Exchange kept the request's full metadata *)
Definition seen_of (leaks : bool) (t : tscript) (m : rmeta) : seen :=
  {| sn_meta := strip m; sn_batch := if t_peek t then Some (if leaks then m else strip m) else None; sn_leak := false |}.
(* Produce gets no input batch *)
Definition seen_prod (m : rmeta) : seen := {| sn_meta := m; sn_batch := None; sn_leak := false |}.

(* handleStreamExchange up to the mode switch: every check that can refuse the request, in code order *)
Inductive verdict := VRefuse (ety : bytes) | VAccept (p : N).
Definition cancelled (o : op) : bool := has_key c16_meta_cancel (o_meta o).
Definition gate (i : input) (minted : list N) (o : op) : verdict :=
  let m := o_meta o in
  (* cast against the registered input schema (a producer registers none), skipped on cancel *)
  if negb (i_prod i) && negb (cancelled o) && is_tick (o_body o) then VRefuse c14_exc_cast else
  match get_first c16_meta_stream_state m with
  | None => VRefuse exc_runtime_error                        (* Missing state token *)
  | Some v =>
      match presented minted v with
      | None => VRefuse exc_runtime_error                    (* does not open as a cursor *)
      | Some p =>
          (* resolveCall: cache hit (the stream's /init ran on this server), else the echoed call token *)
          if negb (i_cache i) && negb (call_ok (get_first c16_meta_call_state m))
          then VRefuse exc_runtime_error else VAccept p
      end
  end.

(* one Produce cycle and what runProduceLoopInto + its caller write for it (batch limit 1):
   [sn] = what the handler is shown, [pre] = calls made before the Produce in this request,
   [withcall] = the token batch also hands over the call token (/init) *)
Definition produce_resp (i : input) (minted : list N) (p : N) (sn : seen) (pre : list tr) (withcall : bool) (st : rmeta)
  : resp * list N :=
  let mk := fun fs cs pos hc =>
    {| r_status := 200; r_errhdr := false; r_schema := out_schema; r_frames := fs; r_curs := cs;
       r_first := first_of cs; r_hascall := hc; r_pos := pos; r_seen := Some sn;
       r_trace := pre ++ [TProd p]; r_strip := st |} in
  match turn true (turn_at i p) 0 with
  | TRErr e => (mk [e] [[]] None false, minted)                 (* in-band error, status stays 200 *)
  | TRFin fs uc => (mk fs (curs_prod fs uc) None false, minted)
  | TROk fs uc =>
      (mk (fs ++ [sentinel]) (curs_prod fs uc ++ [[VCur (length minted)]]) (Some (p + 1)) withcall, minted ++ [p + 1])
  end.

Definition handle (leaks : bool) (i : input) (minted : list N) (o : op) : resp * list N :=
  let m := o_meta o in
  match gate i minted o with
  | VRefuse e => (refuse e o, minted)
  | VAccept p =>
      if cancelled o then
        (* handleStreamCancel: the hook if the state has one (its error / panic is swallowed), an empty stream *)
        ({| r_status := 200; r_errhdr := false; r_schema := out_schema; r_frames := []; r_curs := [];
            r_first := None; r_hascall := false; r_pos := None; r_seen := None;
            r_trace := if has_canceller (i_cancel i) then [TCancel p] else []; r_strip := strip m |}, minted)
      else if i_prod i then
        (* handleProducerContinuation: the request metadata, stripped, is the tick metadata *)
        produce_resp i minted p (seen_prod (strip m)) [] false (strip m)
      else
        (* handleExchangeCall *)
        let t := turn_at i p in
        let x := insum (o_body o) in
        match turn false t x with
        | TRErr e =>
            ({| r_status := 200; r_errhdr := true; r_schema := out_schema; r_frames := [e]; r_curs := [[]];
                r_first := None; r_hascall := false; r_pos := None; r_seen := Some (seen_of leaks t m);
                r_trace := [TEx p x]; r_strip := strip m |}, minted)
        | TRFin fs uc => (refuse [] o, minted)   (* unreachable: an exchange collector refuses Finish *)
        | TROk fs uc =>
            let cs := curs_of fs uc (VCur (length minted)) in
            ({| r_status := 200; r_errhdr := false; r_schema := out_schema; r_frames := fs; r_curs := cs;
                r_first := first_of cs; r_hascall := false; r_pos := Some (p + 1); r_seen := Some (seen_of leaks t m);
                r_trace := [TEx p x]; r_strip := strip m |}, minted ++ [p + 1])
        end
  end.

Fixpoint run (leaks : bool) (i : input) (minted : list N) (ops : list op) : list resp :=
  match ops with
  | [] => []
  | o :: rest => let (r, minted') := handle leaks i minted o in r :: run leaks i minted' rest
  end.

(* POST /init of an exchange method: no turn runs, a zero-row batch hands over cursor 0 and the call token *)
Definition init_resp : resp :=
  {| r_status := 200; r_errhdr := false; r_schema := out_schema; r_frames := [sentinel]; r_curs := [[VCur 0]];
     r_first := Some (VCur 0); r_hascall := true; r_pos := Some 0; r_seen := None; r_trace := [TInit]; r_strip := [] |}.
(* POST /init of a producer: turn 0 runs inside it; its tick metadata is requestMetadata(req): the
   init request's own metadata sorted by key (the harness sends method and request version) *)
Definition init_meta : rmeta :=
  [(c03_meta_method, VLit (str "c16p")); (c03_meta_request_version, VLit c03_request_version)].
Definition init_prod (i : input) : resp * list N := produce_resp i [] 0 (seen_prod init_meta) [TInit] true [].

Definition model_gen (leaks : bool) (i : input) : obs :=
  if i_prod i then let (r0, m0) := init_prod i in r0 :: run leaks i m0 (i_ops i)
  else init_resp :: run leaks i [0] (i_ops i).
(* the CURRENT code (after fix 270d950) *)
Definition model : input -> obs := model_gen false.
Definition model_legacy : input -> obs := model_gen true.

(* ---- the property in decidable form, on the implementation's observables --- *)
Definition act_ok (a : act) : bool := match a with AEmit | AEmit0 | AEmit2Ignore => true | _ => false end.
Definition act_fin (a : act) : bool := match a with AFinish | AEmitFinish => true | _ => false end.

(* the client put tokens only where the protocol puts them *)
Definition is_token_key (k : bytes) : bool := beqb k c16_meta_stream_state || beqb k c16_meta_call_state.
Definition tokens_proper (m : rmeta) : bool := forallb (fun kv => negb (is_tok (snd kv)) || is_token_key (fst kv)) m.
Definition no_token (m : rmeta) : bool := forallb (fun kv => negb (is_tok (snd kv))) m.
Definition no_fw_key (m : rmeta) : bool := forallb keep m.

Definition is_none {A} (x : option A) : bool := match x with None => true | Some _ => false end.
Definition is_nil {A} (x : list A) : bool := match x with [] => true | _ => false end.
Definition all_empty (cs : list (list mval)) : bool := forallb is_nil cs.
Definition no_cursor (r : resp) : bool := all_empty (r_curs r) && is_none (r_first r) && is_none (r_pos r).

(* exchange: the cursor rides THE data batch and no other batch (in particular no log batch): on a
   data batch the LAST stream-state value is [fresh], every other batch has none *)
Fixpoint cursor_on_data (fs : list frame) (cs : list (list mval)) (fresh : mval) : bool :=
  match fs, cs with
  | [], [] => true
  | f :: fs', c :: cs' =>
      (if is_data f then mval_eqb (last c (VLit [])) fresh && negb (is_nil c) else is_nil c)
      && cursor_on_data fs' cs' fresh
  | _, _ => false
  end.
(* producer: within the turn's own batches no batch carries a token; only a data batch may carry
   (literal) values under the stream-state key, put there by the emit metadata *)
Definition lits (c : list mval) : bool := forallb (fun v => negb (is_tok v)) c.
Fixpoint bare (fs : list frame) (cs : list (list mval)) : bool :=
  match fs, cs with
  | [], [] => true
  | f :: fs', c :: cs' => (if is_data f then lits c else is_nil c) && bare fs' cs'
  | _, _ => false
  end.

(* what the handler saw: InputMetadata is the request metadata minus the framework keys, same order;
   nothing framework-keyed on the batch either; no token anywhere when the client put them only under framework keys *)
Definition handler_view_ok (m : rmeta) (s : seen) : bool :=
  rmeta_eqb (sn_meta s) (strip m)
  && match sn_batch s with None => true | Some b => no_fw_key b end
  && (negb (tokens_proper m)
      || (no_token (sn_meta s) && match sn_batch s with None => true | Some b => no_token b end && negb (sn_leak s))).

(* which requests must be accepted, decided from the request and the cursors handed out so far *)
Definition expect (i : input) (known : list N) (o : op) : option N :=
  let m := o_meta o in
  match get_first c16_meta_stream_state m with
  | None => None
  | Some v =>
      match presented known v with
      | None => None
      | Some p =>
          if (i_cache i || call_ok (get_first c16_meta_call_state m))
             && (cancelled o || i_prod i || negb (is_tick (o_body o)))
          then Some p else None
      end
  end.

(* one producer cycle (batch limit 1): a validated turn = its batches with exactly one data batch
   and no token, then ONE zero-row batch carrying exactly the fresh cursor; a finished turn and a
   failed turn carry no cursor *)
Definition spec_produce (t : tscript) (fresh : mval) (p : N) (r : resp) : bool :=
  Z.eqb (r_status r) 200 && negb (r_errhdr r) &&
  if act_ok (t_act t) then
    let body := removelast (r_frames r) in
    frame_eqb (last (r_frames r) FToken) sentinel && list_eqb mval_eqb (last (r_curs r) []) [fresh]
    && negb (is_nil (r_frames r)) && negb (is_nil (r_curs r))
    && Nat.eqb (count is_data body) 1 && Nat.eqb (count is_exc body) 0 && bare body (removelast (r_curs r))
    && opt_eqb N.eqb (r_pos r) (Some (p + 1))
  else if act_fin (t_act t) then
    Nat.eqb (count is_exc (r_frames r)) 0 && Nat.leb (count is_data (r_frames r)) 1
    && bare (r_frames r) (r_curs r) && is_none (r_pos r)
  else
    match r_frames r with [FExc _ _ _ _] => true | _ => false end && no_cursor r.

Definition spec_step (i : input) (known : list N) (o : op) (r : resp) : bool :=
  let m := o_meta o in
  rmeta_eqb (r_strip r) (strip m) && negb (r_hascall r) &&
  match expect i known o with
  | Some p =>
      Z.eqb (r_status r) 200 &&
      if cancelled o then
        (* the cancel hook once, an empty stream, no cursor, no Produce / Exchange *)
        is_nil (r_frames r) && no_cursor r && negb (r_errhdr r)
        && list_eqb tr_eqb (r_trace r) (if has_canceller (i_cancel i) then [TCancel p] else [])
        && is_none (r_seen r)
      else
        let t := turn_at i p in
        match r_seen r with Some s => handler_view_ok m s | None => false end &&
        if i_prod i then
          (* exactly one Produce, at the position the presented cursor seals *)
          list_eqb tr_eqb (r_trace r) [TProd p] && spec_produce t (VCur (length known)) p r
        else
          (* exactly one Exchange, at the position the presented cursor seals *)
          list_eqb tr_eqb (r_trace r) [TEx p (insum (o_body o))]
          && if act_ok (t_act t) then
               negb (r_errhdr r)
               && Nat.eqb (count is_data (r_frames r)) 1 && Nat.eqb (count is_exc (r_frames r)) 0
               && cursor_on_data (r_frames r) (r_curs r) (VCur (length known))
               && opt_eqb N.eqb (r_pos r) (Some (p + 1))
             else
               r_errhdr r
               && match r_frames r with [FExc _ _ _ _] => true | _ => false end
               && no_cursor r
  | None =>
      (400 <=? r_status r)%Z && (r_status r <? 500)%Z && no_cursor r
      && is_nil (r_trace r) && is_none (r_seen r) && forallb is_exc (r_frames r)
  end.

(* the cursors the IMPLEMENTATION handed out so far, by the position each seals *)
Definition learn (known : list N) (r : resp) : list N :=
  match r_pos r with Some p => known ++ [p] | None => known end.

Fixpoint spec_run (i : input) (known : list N) (ops : list op) (rs : list resp) : bool :=
  match ops, rs with
  | [], [] => true
  | o :: ops', r :: rs' => spec_step i known o r && spec_run i (learn known r) ops' rs'
  | _, _ => false
  end.

Definition spec_init (r : resp) : bool :=
  Z.eqb (r_status r) 200 && negb (r_errhdr r) && r_hascall r
  && cursor_on_data (r_frames r) (r_curs r) (VCur 0) && Nat.eqb (count is_data (r_frames r)) 1
  && opt_eqb N.eqb (r_pos r) (Some 0) && is_none (r_seen r) && list_eqb tr_eqb (r_trace r) [TInit].
Definition spec_init_prod (i : input) (r : resp) : bool :=
  list_eqb tr_eqb (r_trace r) [TInit; TProd 0]
  && match r_seen r with
     | Some s => rmeta_eqb (sn_meta s) init_meta && is_none (sn_batch s) && negb (sn_leak s)
     | None => false
     end
  && Bool.eqb (r_hascall r) (act_ok (t_act (turn_at i 0)))
  && spec_produce (turn_at i 0) (VCur 0) 0 r.

Definition spec_ok (i : input) (o : obs) : bool :=
  match o with
  | r0 :: rs => (if i_prod i then spec_init_prod i r0 else spec_init r0) && spec_run i (learn [] r0) (i_ops i) rs
  | [] => false
  end.
