(* Model/C25.v — proxy proofs verify only for their worker and can never be replayed.
   Go: vgirpc/proof.go — proofKidRe/proofTsRe/proofNonceRe/proofOriginRe/proofMacRe,
   proofCanonicalString, VerifyProof, nonceCache.checkAndAdd, newNonceCache, proofReplayTTL,
   ProofAuthenticate (constructor checks + the returned gate), verifyRequestProof;
   the answer a refused request gets: unauthorized.go (NewAuthFailure / writeUnauthorized).

   Bytes are [list N]. Clock reads are Z nanoseconds since the epoch. A request carries two
   readings [r_tv] / [r_tc] of the injected clock: the first and the second value it returns.
   Since d22e231 VerifyProof reads the clock ONCE and judges both the window (whole seconds,
   .Unix()) and the nonce cache (nanoseconds) at that reading: the current gate is [step] on the
   normalised request [norm r] (r_tc := r_tv). Before d22e231 the cache read the clock a second
   time: that gate is [step] on the request as given ([model_two_reads], kept for the
   _legacy_refuted witness). HMAC-SHA256 is a section variable ([hmac key msg]); the executable [model]
   instantiates it with a finite table supplied by the harness (computed with Go's crypto/hmac
   over a canonical string the harness frames independently). base64url decoding of the 43-char
   MAC field is defined (Go's RawURLEncoding is NOT strict: the two spare bits are ignored). *)
From VR Require Export Lib.Strs Gen.Consts.
Open Scope N_scope.

(* ---- field charsets (the regexps' source text is in Gen/Consts.v, tied in Proofs) ---- *)
Definition is_digit (c : N) : bool := (48 <=? c) && (c <=? 57).
Definition is_alnum (c : N) : bool :=
  is_digit c || ((65 <=? c) && (c <=? 90)) || ((97 <=? c) && (c <=? 122)).
Definition is_tokch (c : N) : bool := is_alnum c || (c =? 95) || (c =? 45).      (* [A-Za-z0-9_-] *)
Definition is_origch (c : N) : bool := is_tokch c || (c =? 46) || (c =? 58) || (c =? 47). (* [A-Za-z0-9._:/-] *)
Definition len_in (lo hi : nat) (s : bytes) : bool :=
  Nat.leb lo (length s) && Nat.leb (length s) hi.

Definition kid_ok (s : bytes) : bool := forallb is_tokch s && len_in 1 64 s.
Definition ts_ok (s : bytes) : bool := forallb is_digit s && len_in 1 20 s.
Definition nonce_ok (s : bytes) : bool := forallb is_tokch s && len_in 22 22 s.
Definition mac_ok (s : bytes) : bool := forallb is_tokch s && len_in 43 43 s.
Definition origin_ok (s : bytes) : bool := forallb is_origch s && len_in 1 255 s.

(* ---- base64url (raw, non-strict) --------------------------------------------------- *)
Definition b64val (c : N) : N :=
  if (65 <=? c) && (c <=? 90) then c - 65
  else if (97 <=? c) && (c <=? 122) then c - 71
  else if is_digit c then c + 4
  else if c =? 45 then 62 else if c =? 95 then 63 else 0.

Fixpoint b64dec (s : bytes) : bytes :=
  match s with
  | a :: b :: c :: d :: t =>
      let v := ((b64val a * 64 + b64val b) * 64 + b64val c) * 64 + b64val d in
      (v / 65536) :: ((v / 256) mod 256) :: (v mod 256) :: b64dec t
  | [a; b; c] =>
      let v := (b64val a * 64 + b64val b) * 64 + b64val c in      (* 18 bits: 2 bytes, 2 spare bits dropped *)
      [v / 1024; (v / 4) mod 256]
  | [a; b] => [(b64val a * 64 + b64val b) / 16]
  | _ => []
  end.

(* ---- the MAC input --------------------------------------------------------------------- *)
Definition canonical (kid ts nonce origin : bytes) : bytes :=
  c25_domain_prefix ++ 0 :: kid ++ 0 :: ts ++ 0 :: nonce ++ 0 :: origin.

(* ---- wire grammar: v1.kid.ts.nonce.mac ------------------------------------------------- *)
Record fields := { f_kid : bytes; f_ts : bytes; f_nonce : bytes; f_mac : bytes }.
Definition fields_ok (f : fields) : bool :=
  kid_ok (f_kid f) && ts_ok (f_ts f) && nonce_ok (f_nonce f) && mac_ok (f_mac f).
Definition dot : N := 46.
Definition wire (f : fields) : bytes :=
  join [dot] [c25_version; f_kid f; f_ts f; f_nonce f; f_mac f].

Definition parse (tok : bytes) : option fields :=
  if (Z.of_nat (length tok) >? c25_max_header_len)%Z then None else
  match split_on dot tok with
  | [v; k; t; n; m] =>
      let f := {| f_kid := k; f_ts := t; f_nonce := n; f_mac := m |} in
      if beqb v c25_version && fields_ok f then Some f else None
  | _ => None
  end.

(* strconv.ParseInt(ts, 10, 64) on 1..20 digits: the value, refused above MaxInt64 *)
Definition digits_val (s : bytes) : Z :=
  fold_left (fun acc c => (acc * 10 + Z.of_N (c - 48))%Z) s 0%Z.
Definition max_int64 : Z := 9223372036854775807%Z.
Definition wrap64 (z : Z) : Z := ((z + 9223372036854775808) mod 18446744073709551616 - 9223372036854775808)%Z.
Definition ns_per_s : Z := 1000000000%Z.
Definition unix_s (ns : Z) : Z := (ns / ns_per_s)%Z.

(* age := now.Unix() - ts ; if age > skew expired ; if -age > skew not_yet_valid  (int64) *)
Inductive window := WOk | WExpired | WNotYet.
Definition window_check (skew now_s ts : Z) : window :=
  let age := wrap64 (now_s - ts) in
  if (age >? skew)%Z then WExpired
  else if (wrap64 (- age) >? skew)%Z then WNotYet else WOk.

(* ---- configuration ---------------------------------------------------------------------- *)
Inductive mode := MOff | MAllow | MRequire | MOther.
Record config := {
  c_mode : mode;
  c_origin : bytes;
  c_secrets : list (bytes * (bytes * bytes));   (* kid -> (secret, label); a Go map: kids distinct *)
  c_skew : Z;
  c_cap : Z;                                    (* ReplayCapacity as configured *)
  c_nocache : bool;                             (* DisableReplayCache *)
  c_inner_nil : bool                            (* inner == nil *)
}.

(* 32 copies of one byte: how the harness names its secrets compactly *)
Definition sec (b : N) : bytes := repeat b 32.

Fixpoint lookup_kid (k : bytes) (l : list (bytes * (bytes * bytes))) : option (bytes * bytes) :=
  match l with
  | [] => None
  | (k', v) :: t => if beqb k k' then Some v else lookup_kid k t
  end.

(* ProofAuthenticate's constructor checks (any failure = an error, no gate) *)
Definition ctor_ok (c : config) : bool :=
  match c_mode c with MAllow | MRequire => true | _ => false end
  && origin_ok (c_origin c)
  && negb (match c_secrets c with [] => true | _ => false end)
  && forallb (fun e => kid_ok (fst e) && (Z.of_nat (length (fst (snd e))) =? c25_secret_len)%Z) (c_secrets c)
  && (c_skew c >? 0)%Z.

Definition eff_cap (c : config) : Z := if (c_cap c <=? 0)%Z then c25_default_capacity else c_cap c.
(* proofReplayTTL(skew) as a Duration (int64 ns); linear by the regenerated constants *)
Definition ttl_ns (skew : Z) : Z := wrap64 (c25_ttl_base_ns + skew * c25_ttl_step_ns).
(* the pre-fix TTL: time.Duration(skew) * time.Second *)
Definition legacy_ttl_ns (skew : Z) : Z := wrap64 (skew * ns_per_s).

(* ---- the nonce cache: front of the list = front of the Go list ----------------------- *)
Definition cache := list (bytes * Z).          (* (nonce, expiresAt ns) *)

Fixpoint sweep (now : Z) (l : cache) : cache :=   (* drop the expired PREFIX: !expiresAt.After(now) *)
  match l with
  | (n, e) :: t => if (e <=? now)%Z then sweep now t else l
  | [] => []
  end.
Definition seen (n : bytes) (l : cache) : bool := existsb (fun p => beqb n (fst p)) l.
(* for order.Len() >= capacity { remove front } *)
Definition evict (cap : Z) (l : cache) : cache :=
  skipn (Z.to_nat (Z.of_nat (length l) + 1 - cap)) l.
Definition check_and_add (ttl cap now : Z) (n : bytes) (l : cache) : bool * cache :=
  let l1 := sweep now l in
  if seen n l1 then (false, l1)
  else (true, evict cap l1 ++ [(n, (now + ttl)%Z)]).

(* ---- requests, results ----------------------------------------------------------------- *)
Inductive inner_script :=
| IOk (dom prin : bytes) (authd : bool)     (* inner returns this AuthContext *)
| IErr (tag : N).                           (* inner returns the harness's tag-th sentinel error *)

Record req := {
  r_tv : Z;                   (* clock reading in VerifyProof  (ns) *)
  r_tc : Z;                   (* clock reading in checkAndAdd  (ns) *)
  r_hdrs : list bytes;        (* r.Header.Values("VGI-Proxy-Proof") *)
  r_inner : inner_script
}.

Inductive reason := RNoProof | RMalformed | RUnknownKid | RExpired | RNotYet | RBadMac | RReplayed.
Definition reason_bytes (r : reason) : bytes :=
  match r with
  | RNoProof => str "no_proof" | RMalformed => str "malformed" | RUnknownKid => str "unknown_kid"
  | RExpired => str "expired" | RNotYet => str "not_yet_valid" | RBadMac => str "bad_mac"
  | RReplayed => str "replayed"
  end.
Definition reason_eqb (a b : reason) : bool := beqb (reason_bytes a) (reason_bytes b).

Inductive vres := VOk (label kid : bytes) | VErr (r : reason).

(* the one answer of a refusal: AuthFailure reason + detail, and what the HttpServer writes *)
Record answer := { a_reason : bytes; a_detail : bytes; a_status : Z; a_hdr : bytes; a_body : bytes }.
Definition proxy_required : answer :=
  {| a_reason := c25_refusal_reason; a_detail := c25_refusal_detail; a_status := c25_refusal_status;
     a_hdr := c25_refusal_hdr_reason; a_body := c25_refusal_body |}.
Definition answer_eqb (a b : answer) : bool :=
  beqb (a_reason a) (a_reason b) && beqb (a_detail a) (a_detail b) && (a_status a =? a_status b)%Z
  && beqb (a_hdr a) (a_hdr b) && beqb (a_body a) (a_body b).

Inductive out :=
| ORefused (a : answer) (inner_called : bool)
| OInnerErr (tag : N)                                 (* inner's error, verbatim (same pointer) *)
| OPass (inner_called : bool) (dom prin : bytes) (authd : bool)
        (claims : list bytes).                        (* verified, proxy, kid, origin_id, reason *)

Section HM.
  Variable hmac : bytes -> bytes -> bytes.            (* key, message *)
  Variable ttlf : Z -> Z.                             (* skew -> nonce TTL in ns *)

  (* VerifyProof up to (not including) the replay cache; [now_s] = nowFn().Unix() *)
  Definition precheck (c : config) (now_s : Z) (tok : bytes) : reason + (fields * bytes) :=
    match parse tok with
    | None => inl RMalformed
    | Some f =>
      match lookup_kid (f_kid f) (c_secrets c) with
      | None => inl RUnknownKid
      | Some (secret, label) =>
        let ts := digits_val (f_ts f) in
        if (ts >? max_int64)%Z then inl RMalformed else
        match window_check (c_skew c) now_s ts with
        | WExpired => inl RExpired
        | WNotYet => inl RNotYet
        | WOk =>
          if beqb (b64dec (f_mac f)) (hmac secret (canonical (f_kid f) (f_ts f) (f_nonce f) (c_origin c)))
          then inr (f, label) else inl RBadMac
        end
      end
    end.

  Definition verify_token (c : config) (st : cache) (tv tc : Z) (tok : bytes) : vres * cache :=
    match precheck c (unix_s tv) tok with
    | inl r => (VErr r, st)
    | inr (f, label) =>
      if c_nocache c then (VOk label (f_kid f), st) else
      let '(fresh, st') := check_and_add (ttlf (c_skew c)) (eff_cap c) tc (f_nonce f) st in
      if fresh then (VOk label (f_kid f), st') else (VErr RReplayed, st')
    end.

  (* verifyRequestProof *)
  Definition verify_request (c : config) (st : cache) (r : req) : vres * cache :=
    match r_hdrs r with
    | [] => (VErr RNoProof, st)
    | v0 :: rest =>
      match v0 with
      | [] => (VErr RNoProof, st)
      | _ =>
        if negb (match rest with [] => true | _ => false end) || mem 44 v0
        then (VErr RMalformed, st)
        else verify_token c st (r_tv r) (r_tc r) v0
      end
    end.

  Definition claims_of (c : config) (v : vres) : list bytes :=
    match v with
    | VOk label kid => [str "true"; label; kid; c_origin c; str "ok"]
    | VErr r => [str "false"; []; []; c_origin c; reason_bytes r]
    end.

  (* the closure returned by ProofAuthenticate, after verifyRequestProof *)
  Definition gate_out (c : config) (v : vres) (r : req) : out :=
    match v, c_mode c with
    | VErr _, MRequire => ORefused proxy_required false
    | _, _ =>
      let cl := claims_of c v in
      if c_inner_nil c then OPass false c25_claims_key (nth 1 cl []) true cl
      else match r_inner r with
           | IOk d p a => OPass true d p a cl
           | IErr t => OInnerErr t
           end
    end.

  Definition step (c : config) (st : cache) (r : req) : (vres * out) * cache :=
    let '(v, st') := verify_request c st r in ((v, gate_out c v r), st').

  Fixpoint run (c : config) (st : cache) (h : list req) : list (vres * out) :=
    match h with
    | [] => []
    | r :: t => let '(vo, st') := step c st r in vo :: run c st' t
    end.
  (* the cache after a history *)
  Fixpoint exec (c : config) (st : cache) (h : list req) : cache :=
    match h with
    | [] => st
    | r :: t => exec c (snd (step c st r)) t
    end.
End HM.

(* ---- executable instance ---------------------------------------------------------------- *)
Definition hm_table := list ((bytes * bytes) * bytes).
Fixpoint hm_lookup (t : hm_table) (k m : bytes) : bytes :=
  match t with
  | [] => []
  | ((k', m'), v) :: t' => if beqb k k' && beqb m m' then v else hm_lookup t' k m
  end.

Record input := {
  i_cfg : config;
  i_hm : hm_table;                                     (* HMAC-SHA256 on the points that matter *)
  i_canon : list ((bytes * bytes) * (bytes * bytes));  (* probes of proofCanonicalString *)
  i_hist : list req
}.
Record obs := {
  o_ctor : bool;                 (* ProofAuthenticate returned a gate *)
  o_canon : list bytes;
  o_outs : list out
}.

(* one clock reading per verification (d22e231): window and cache both judged at r_tv *)
Definition norm (r : req) : req :=
  {| r_tv := r_tv r; r_tc := r_tv r; r_hdrs := r_hdrs r; r_inner := r_inner r |}.

Definition model_gen (two_reads : bool) (ttlf : Z -> Z) (i : input) : obs :=
  let c := i_cfg i in
  {| o_ctor := ctor_ok c;
     o_canon := map (fun p => canonical (fst (fst p)) (snd (fst p)) (fst (snd p)) (snd (snd p))) (i_canon i);
     o_outs := if ctor_ok c
               then map snd (run (hm_lookup (i_hm i)) ttlf c []
                                 (if two_reads then i_hist i else map norm (i_hist i)))
               else [] |}.
Definition model : input -> obs := model_gen false ttl_ns.                 (* the current code *)
Definition model_two_reads : input -> obs := model_gen true ttl_ns.        (* 0a1ccaa .. d22e231^ *)
Definition model_legacy_ttl : input -> obs := model_gen true legacy_ttl_ns. (* before 0a1ccaa *)

Definition out_eqb (a b : out) : bool :=
  match a, b with
  | ORefused x i, ORefused y j => answer_eqb x y && Bool.eqb i j
  | OInnerErr s, OInnerErr t => s =? t
  | OPass i d p a cl, OPass j d' p' a' cl' =>
      Bool.eqb i j && beqb d d' && beqb p p' && Bool.eqb a a' && list_eqb beqb cl cl'
  | _, _ => false
  end.
Definition obs_eqb (a b : obs) : bool :=
  Bool.eqb (o_ctor a) (o_ctor b) && list_eqb beqb (o_canon a) (o_canon b)
  && list_eqb out_eqb (o_outs a) (o_outs b).

(* ---- the property in decidable form, on observables --------------------------------------- *)
Definition is_refusal (o : out) : bool := match o with ORefused _ _ => true | _ => false end.
Definition verified_claim (o : out) : option bool :=     (* what the out says about the proof *)
  match o with
  | OPass _ _ _ _ cl => Some (beqb (nth 0 cl []) (str "true"))
  | _ => None
  end.
(* the gate certainly admitted the proof / certainly did not / cannot tell (allow mode + inner error) *)
Definition admitted (m : mode) (o : out) : option bool :=
  match m, o with
  | MRequire, ORefused _ _ => Some false
  | MRequire, _ => Some true
  | _, OPass _ _ _ _ _ => verified_claim o
  | _, _ => None
  end.
Definition maybe_admitted (m : mode) (o : out) : bool :=
  match admitted m o with Some false => false | _ => true end.

(* clock premises *)
Definition max_ns : Z := (4611686018427387904 * 1000000000)%Z.   (* 2^62 s *)
Definition sane_req (r : req) : bool := (0 <=? r_tv r)%Z && (r_tv r <? max_ns)%Z.
Definition same_second (r : req) : bool := (unix_s (r_tv r) =? unix_s (r_tc r))%Z.
Fixpoint reads (h : list req) : list Z :=
  match h with [] => [] | r :: t => r_tv r :: r_tc r :: reads t end.
Fixpoint nondecr (l : list Z) : bool :=
  match l with
  | a :: ((b :: _) as t) => (a <=? b)%Z && nondecr t
  | _ => true
  end.
Definition monotone (h : list req) : bool := nondecr (reads h).
Definition max_skew : Z := 4611686017%Z.     (* (2*skew+1) s fits a Duration *)

(* a single well-formed proof header that verifies for this worker at second [now_s] *)
Definition valid_proof (hm : bytes -> bytes -> bytes) (c : config) (now_s : Z) (hdrs : list bytes) : bool :=
  match hdrs with
  | [tok] =>
    match parse tok with
    | Some f =>
      match lookup_kid (f_kid f) (c_secrets c) with
      | Some (secret, _) =>
          (Z.abs (now_s - digits_val (f_ts f)) <=? c_skew c)%Z
          && beqb (b64dec (f_mac f)) (hm secret (canonical (f_kid f) (f_ts f) (f_nonce f) (c_origin c)))
      | None => false
      end
    | None => false
    end
  | _ => false
  end.

(* would the timestamp of the (single, well-formed) proof header be accepted at second [now_s]? *)
Definition ts_acceptable (c : config) (now_s : Z) (hdrs : list bytes) : bool :=
  match hdrs with
  | [tok] => match parse tok with
             | Some f => (Z.abs (now_s - digits_val (f_ts f)) <=? c_skew c)%Z
             | None => false
             end
  | _ => false
  end.
Fixpoint count_ok (tr : list (vres * out)) : Z :=
  match tr with
  | [] => 0%Z
  | (VOk _ _, _) :: t => (1 + count_ok t)%Z
  | _ :: t => count_ok t
  end.

(* uniform refusal + mode semantics + passes-only-if, per request *)
Definition req_ok (hm : bytes -> bytes -> bytes) (c : config) (r : req) (o : out) : bool :=
  match o with
  | ORefused a called =>
      match c_mode c with MRequire => answer_eqb a proxy_required && negb called | _ => false end
  | OInnerErr _ => negb (c_inner_nil c)
  | OPass called _ _ _ _ => Bool.eqb called (negb (c_inner_nil c))
  end
  && (match admitted (c_mode c) o with
      | Some true => negb (sane_req r) || valid_proof hm c (unix_s (r_tv r)) (r_hdrs r)
      | _ => true
      end).

(* replay: request j presents the same proof (same_proof: any wire spelling) as an admitted request i<j, its timestamp would
   still be accepted at j, fewer than capacity admissions strictly in between => not admitted *)
Fixpoint count_maybe (m : mode) (os : list out) : Z :=
  match os with [] => 0%Z | o :: t => ((if maybe_admitted m o then 1 else 0) + count_maybe m t)%Z end.

(* the same proof, possibly in another wire spelling: one well-formed header each, equal kid, ts
   and nonce text, and MAC fields that DECODE to the same bytes (the 43-character base64url MAC
   has two spare bits, so four spellings of its last character are the same MAC) *)
Definition same_proof (a b : list bytes) : bool :=
  match a, b with
  | [ta], [tb] =>
      match parse ta, parse tb with
      | Some fa, Some fb =>
          beqb (f_kid fa) (f_kid fb) && beqb (f_ts fa) (f_ts fb) && beqb (f_nonce fa) (f_nonce fb)
          && beqb (b64dec (f_mac fa)) (b64dec (f_mac fb))
      | _, _ => false
      end
  | _, _ => false
  end.

(* [later rs os]: scan the requests after i; [k] = admissions seen so far in between *)
Fixpoint replay_scan (hm : bytes -> bytes -> bytes) (c : config) (hd : list bytes)
         (k : Z) (rs : list req) (os : list out) : bool :=
  match rs, os with
  | r :: rt, o :: ot =>
      (if same_proof hd (r_hdrs r) && valid_proof hm c (unix_s (r_tv r)) (r_hdrs r) && (k <? eff_cap c)%Z
       then match admitted (c_mode c) o with Some true => false | _ => true end
       else true)
      && replay_scan hm c hd (if maybe_admitted (c_mode c) o then k + 1 else k)%Z rt ot
  | _, _ => true
  end.
Fixpoint replay_ok (hm : bytes -> bytes -> bytes) (c : config) (rs : list req) (os : list out) : bool :=
  match rs, os with
  | r :: rt, o :: ot =>
      (match admitted (c_mode c) o with
       | Some true => replay_scan hm c (r_hdrs r) 0 rt ot
       | _ => true
       end) && replay_ok hm c rt ot
  | _, _ => true
  end.

Fixpoint all2 {A B} (f : A -> B -> bool) (a : list A) (b : list B) : bool :=
  match a, b with
  | x :: a', y :: b' => f x y && all2 f a' b'
  | [], [] => true
  | _, _ => false
  end.

Definition monotone1 (h : list req) : bool := nondecr (map r_tv h).

(* the property only speaks of the instant a request is judged at: r_tv *)
Definition spec_ok (i : input) (o : obs) : bool :=
  let c := i_cfg i in
  let hm := hm_lookup (i_hm i) in
  let h := map norm (i_hist i) in
  if negb (o_ctor o) then (match o_outs o with [] => true | _ => false end) else
  all2 (req_ok hm c) h (o_outs o)
  && (c_nocache c
      || negb (monotone h && forallb sane_req h && (c_skew c <=? max_skew)%Z)
      || replay_ok hm c h (o_outs o)).
