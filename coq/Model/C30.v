(* Model/C30.v — externalized batches resolve to exactly the uploaded data.
   Go: vgirpc/external.go — externalizeBatchCtx (MaybeExternalizeBatch / maybeExternalizeBatchCtx),
   MakeExternalLocationBatch, IsExternalLocationBatch, ResolveExternalLocation, fetchExternalData
   (only: 200 + optional Content-Encoding: zstd, anything else = fetch error; redirects, caps and
   retries are property C31), batchMetadata, metaGet, ExternalLocationConfig.threshold,
   HTTPSOnlyValidator; vgirpc/hooks.go batchBufferSize (its value is an input: [size]).

   A batch is (schema label, schema-level metadata, rows, values, the batch's OWN custom
   metadata).  Values are opaque to the code; they are carried run-length encoded per column
   (value, repeat) so that a 1 MiB batch has a short term.  The custom metadata the Go API
   also passes NEXT TO a batch (the [meta arrow.Metadata] argument) is the separate [side]
   argument here; since 36fcb9e an externalized batch is uploaded carrying own ++ side
   ([with_side]); [carry = false] is the behaviour before that fix (side dropped), kept for
   the refutation witness.

   Arrow IPC encode/decode, zstd and SHA-256 (hex) are section variables (oracles); the
   executable [model] instantiates them with the symbolic [swire] codec, whose hash is a
   table supplied with each case (the real SHA-256 of the real byte strings, computed by the
   harness with crypto/sha256, never by the code under test). *)
From VR Require Export Lib.Strs Gen.Consts.
From Coq Require Import ZArith.
Open Scope N_scope.

(* ---- metadata ------------------------------------------------------------ *)
Definition meta := list (bytes * bytes).

(* arrow.Metadata.FindKey: first match *)
Fixpoint mget (m : meta) (k : bytes) : option bytes :=
  match m with
  | [] => None
  | (k', v) :: t => if beqb k' k then Some v else mget t k
  end.
Definition mhas (m : meta) (k : bytes) : bool :=
  match mget m k with Some _ => true | None => false end.

Definition kv_eqb : bytes * bytes -> bytes * bytes -> bool := pair_eqb beqb beqb.
Definition meta_eqb : meta -> meta -> bool := list_eqb kv_eqb.

(* ---- batches ------------------------------------------------------------- *)
Record batch := {
  b_schema : bytes;            (* field names, types, nullability *)
  b_smeta : meta;              (* schema-level metadata *)
  b_rows : N;
  b_vals : list (Z * N);       (* column-major, run-length encoded per column *)
  b_meta : meta }.             (* the batch's own custom metadata (RecordBatchWithMetadata) *)

Definition vals_eqb : list (Z * N) -> list (Z * N) -> bool := list_eqb (pair_eqb Z.eqb N.eqb).
Definition batch_eqb (a b : batch) : bool :=
  beqb (b_schema a) (b_schema b) && meta_eqb (b_smeta a) (b_smeta b) && (b_rows a =? b_rows b)
  && vals_eqb (b_vals a) (b_vals b) && meta_eqb (b_meta a) (b_meta b).

(* ---- classification of a batch of the fetched stream (ResolveExternalLocation's loop) ---- *)
Inductive cls := CLog | CPtr | CData.
Definition cls_eqb (a b : cls) : bool :=
  match a, b with CLog, CLog | CPtr, CPtr | CData, CData => true | _, _ => false end.

Definition classify_by (m : meta) (rows : N) : cls :=
  if mhas m c30_k_log_level then CLog
  else if mhas m c30_k_location && (rows =? 0) then CPtr
  else CData.
(* repaired code (b4a2d83): batchMetadata = the batch's own custom metadata *)
Definition classify (b : batch) : cls := classify_by (b_meta b) (b_rows b).
(* pre-fix code: batchMetadata read rec.Schema().Metadata() *)
Definition classify_legacy (b : batch) : cls := classify_by (b_smeta b) (b_rows b).

Inductive ecls := EMissingURL | ERejected | EFetch | ESha | EParse | ELoop | ENoData.
Definition ecls_eqb (a b : ecls) : bool :=
  match a, b with
  | EMissingURL, EMissingURL | ERejected, ERejected | EFetch, EFetch | ESha, ESha
  | EParse, EParse | ELoop, ELoop | ENoData, ENoData => true
  | _, _ => false
  end.

(* the loop: logs skipped, a pointer anywhere aborts, the LAST data batch wins *)
Fixpoint select_by (cl : batch -> cls) (acc : option batch) (bs : list batch) : batch + ecls :=
  match bs with
  | [] => match acc with Some b => inl b | None => inr ENoData end
  | b :: t =>
      match cl b with
      | CLog => select_by cl acc t
      | CPtr => inr ELoop
      | CData => select_by cl (Some b) t
      end
  end.

Definition is_data_by (cl : batch -> cls) (b : batch) : bool := cls_eqb (cl b) CData.
Definition is_ptr_by (cl : batch -> cls) (b : batch) : bool := cls_eqb (cl b) CPtr.
Definition datas_by (cl : batch -> cls) (bs : list batch) : list batch := filter (is_data_by cl) bs.
Definition has_ptr_by (cl : batch -> cls) (bs : list batch) : bool := existsb (is_ptr_by cl) bs.

(* IsExternalLocationBatch *)
Definition is_pointer (rows : N) (m : meta) : bool :=
  (rows =? 0) && mhas m c30_k_location && negb (mhas m c30_k_log_level).

(* ---- configuration ------------------------------------------------------- *)
Inductive validator := VNone | VHttps.
Record cfg := {
  c_storage : bool;            (* Storage != nil *)
  c_thr : Z;                   (* ExternalizeThresholdBytes *)
  c_comp : option bytes;       (* Compression.Algorithm, None = nil Compression *)
  c_level : Z;                 (* Compression.Level *)
  c_val : validator }.         (* URLValidator: nil or HTTPSOnlyValidator *)

Definition alg_zstd : bytes := Eval compute in str "zstd".
Definition https_prefix : bytes := Eval compute in str "https://".

Definition threshold (c : cfg) : Z :=
  if (c_thr c <=? 0)%Z then c30_default_threshold else c_thr c.
Definition zstd_on (c : cfg) : bool :=
  match c_comp c with Some a => beqb a alg_zstd | None => false end.
(* zstd.EncoderLevel(Level) for Level > 0: klauspost knows levels 1..4 only *)
Definition level_bad (c : cfg) : bool := zstd_on c && (4 <? c_level c)%Z.
Definition url_ok (v : validator) (u : bytes) : bool :=
  match v with VNone => true | VHttps => has_prefix https_prefix u end.

Inductive upscript := UpOk (url : bytes) | UpFail.

Definition pointer_batch (b : batch) : batch :=
  {| b_schema := b_schema b; b_smeta := b_smeta b; b_rows := 0; b_vals := []; b_meta := [] |}.
Definition pointer_meta (url h : bytes) : meta :=
  (c30_k_location, url) :: match h with [] => [] | _ => [(c30_k_sha, h)] end.
(* serializeBatchAsIPC(batch, &meta): the batch's own pairs followed by the caller's pairs,
   order preserved, duplicates kept *)
Definition with_side (b : batch) (side : meta) : batch :=
  {| b_schema := b_schema b; b_smeta := b_smeta b; b_rows := b_rows b; b_vals := b_vals b;
     b_meta := b_meta b ++ side |}.
Definition fetch_meta (u : bytes) : meta := [(c30_k_fetch_ms, []); (c30_k_source, u)].

Inductive res_out := RPass (b : batch) (m : meta) | ROk (b : batch) (m : meta) | RErr (e : ecls).

(* ---- the two operations, parametric in the codecs -------------------------- *)
Section Oracles.
  Variable wire : Type.
  Variable enc : list batch -> wire.             (* ipc.Writer: schema, the batches, EOS *)
  Variable dec : wire -> option (list batch).    (* ipc.NewReader + Next until it stops *)
  Variable comp : wire -> wire.                  (* zstd EncodeAll *)
  Variable decomp : wire -> option wire.         (* decompressZstdCapped *)
  Variable sha : wire -> bytes.                  (* hex(sha256(.)) *)
  (* checkIPCStreamFraming (ipc_guard.go): every message the bytes declare fits in the bytes.
     Walking 8-byte prefixes (continuation marker, int32 metadata length) from offset 0, it
     refuses a metadata or body length larger than what remains, stops at the end-of-stream
     marker (anything after it is ignored) and accepts data that runs out INSIDE a prefix:
     a download cut exactly at a message boundary, or 1..7 bytes into the next prefix, still
     passes (no EOS needed); a cut inside a message's metadata or body does not. *)
  Variable framed : wire -> bool.

  Record ext_out := {
    x_batch : batch; x_meta : meta; x_err : bool;
    x_up : list (wire * bool) }.                 (* what Storage.Upload received, zstd flag *)

  (* externalizeBatchCtx *)
  Definition externalize_by (carry : bool) (c : option cfg) (b : batch) (size : Z) (side : meta)
             (up : upscript) : ext_out :=
    let inline := {| x_batch := b; x_meta := side; x_err := false; x_up := [] |} in
    match c with
    | None => inline
    | Some c =>
        if negb (c_storage c) then inline
        else if b_rows b =? 0 then inline
        else if (size <? threshold c)%Z then inline
        else
          let raw := enc [if carry then with_side b side else b] in
          if level_bad c then {| x_batch := b; x_meta := side; x_err := true; x_up := [] |}
          else
            let obj := if zstd_on c then comp raw else raw in
            match up with
            | UpFail => {| x_batch := b; x_meta := side; x_err := true; x_up := [(obj, zstd_on c)] |}
            | UpOk url => {| x_batch := pointer_batch b; x_meta := pointer_meta url (sha raw);
                             x_err := false; x_up := [(obj, zstd_on c)] |}
            end
    end.

  Definition externalize := externalize_by true.

  (* the origin: at most one object; any other URL answers 404 *)
  Record served := { s_url : bytes; s_obj : wire; s_z : bool }.

  (* fetchExternalData (200 path): body, content-decoded when the header says zstd *)
  Definition fetch (srv : option served) (u : bytes) : option wire :=
    match srv with
    | None => None
    | Some s => if beqb (s_url s) u then (if s_z s then decomp (s_obj s) else Some (s_obj s)) else None
    end.

  Definition sha_ok (m : meta) (w : wire) : bool :=
    match mget m c30_k_sha with Some h => beqb (sha w) h | None => true end.

  (* ResolveExternalLocation *)
  Definition resolve_by (cl : batch -> cls) (c : option cfg) (p : batch) (m : meta)
             (srv : option served) : res_out :=
    match c with
    | None => RPass p m
    | Some c =>
        if negb (is_pointer (b_rows p) m) then RPass p m
        else match mget m c30_k_location with
             | None => RPass p m
             | Some [] => RErr EMissingURL
             | Some u =>
                 if negb (url_ok (c_val c) u) then RErr ERejected
                 else match fetch srv u with
                      | None => RErr EFetch
                      | Some w =>
                          if negb (sha_ok m w) then RErr ESha
                          else if negb (framed w) then RErr EParse
                          else match dec w with
                               | None => RErr EParse
                               | Some bs =>
                                   match select_by cl None bs with
                                   | inl r => ROk r (fetch_meta u)
                                   | inr e => RErr e
                                   end
                               end
                      end
             end
    end.
  Definition resolve := resolve_by classify.
End Oracles.

Arguments x_batch {wire}. Arguments x_meta {wire}. Arguments x_err {wire}. Arguments x_up {wire}.
Arguments s_url {wire}. Arguments s_obj {wire}. Arguments s_z {wire}.
Arguments Build_served {wire}.

(* ---- overlapped externalizations ---------------------------------------------------
   Several externalizeBatchCtx calls in flight at once (concurrent calls returning large
   results).  Externalization k is four steps: serialize batch k into a buffer, hash the
   buffer, (zstd only) compress the buffer into fresh bytes, hand bytes to Storage.Upload
   which copies them.  A schedule is any interleaving of the steps of different k.
   [pooled = false] is the code: serializeBatchAsIPC writes into a bytes.Buffer of its own,
   so every externalization owns the bytes it goes on to hash / compress / upload.
   [pooled = true] is the variant in which the buffer comes from a shared pool and is handed
   back when serialization returns: the next serialization overwrites the bytes an earlier
   externalization is still reading.  Kept for the refutation witness only. *)
Inductive step := SSer (k : nat) | SHash (k : nat) | SComp (k : nat) | SUp (k : nat).
Definition step_job (s : step) : nat :=
  match s with SSer k | SHash k | SComp k | SUp k => k end.
Definition step_eqb (a b : step) : bool :=
  match a, b with
  | SSer i, SSer j | SHash i, SHash j | SComp i, SComp j | SUp i, SUp j => Nat.eqb i j
  | _, _ => false
  end.

Section Sched.
  Variable wire : Type.
  Variable enc : list batch -> wire.
  Variable comp : wire -> wire.
  Variable sha : wire -> bytes.
  Variable pooled : bool.
  Variable zstd : bool.
  Variable jb : nat -> batch.                    (* the batch of externalization k *)

  Record jstate := { j_buf : option wire; j_sha : option bytes; j_z : option wire; j_obj : option wire }.
  Definition j0 : jstate := {| j_buf := None; j_sha := None; j_z := None; j_obj := None |}.
  Record cstate := { cs_pool : option wire; cs_job : nat -> jstate }.
  Definition cs0 : cstate := {| cs_pool := None; cs_job := fun _ => j0 |}.
  Definition upd (f : nat -> jstate) (k : nat) (j : jstate) : nat -> jstate :=
    fun i => if Nat.eqb i k then j else f i.
  (* the bytes externalization k reads when it hashes / compresses / uploads *)
  Definition rd (st : cstate) (k : nat) : option wire :=
    if pooled then cs_pool st else j_buf (cs_job st k).

  Definition sstep (st : cstate) (s : step) : cstate :=
    let j := cs_job st (step_job s) in
    match s with
    | SSer k =>
        if pooled then {| cs_pool := Some (enc [jb k]); cs_job := cs_job st |}
        else {| cs_pool := cs_pool st;
                cs_job := upd (cs_job st) k {| j_buf := Some (enc [jb k]); j_sha := j_sha j; j_z := j_z j; j_obj := j_obj j |} |}
    | SHash k =>
        {| cs_pool := cs_pool st;
           cs_job := upd (cs_job st) k {| j_buf := j_buf j; j_sha := option_map sha (rd st k); j_z := j_z j; j_obj := j_obj j |} |}
    | SComp k =>
        {| cs_pool := cs_pool st;
           cs_job := upd (cs_job st) k {| j_buf := j_buf j; j_sha := j_sha j; j_z := option_map comp (rd st k); j_obj := j_obj j |} |}
    | SUp k =>
        {| cs_pool := cs_pool st;
           cs_job := upd (cs_job st) k {| j_buf := j_buf j; j_sha := j_sha j; j_z := j_z j;
                                          j_obj := if zstd then j_z j else rd st k |} |}
    end.
  Definition srun (st : cstate) (s : list step) : cstate := fold_left sstep s st.

  (* program order of one externalization *)
  Definition job_steps (k : nat) : list step :=
    if zstd then [SSer k; SHash k; SComp k; SUp k] else [SSer k; SHash k; SUp k].
  Definition proj (k : nat) (s : list step) : list step := filter (fun x => Nat.eqb (step_job x) k) s.
  (* a schedule of n externalizations: any interleaving that keeps each one's program order *)
  Definition wf_sched (n : nat) (s : list step) : bool :=
    forallb (fun x => Nat.ltb (step_job x) n) s
    && forallb (fun k => list_eqb step_eqb (proj k s) (job_steps k)) (seq 0 n).
End Sched.

Arguments j_buf {wire}. Arguments j_sha {wire}. Arguments j_z {wire}. Arguments j_obj {wire}.
Arguments cs_pool {wire}. Arguments cs_job {wire}.

(* ---- the symbolic codec used to run the model ------------------------------ *)
Inductive swire :=
| SIpc (bs : list batch)                        (* the IPC stream of these batches *)
| SZ (w : swire)                                (* zstd frame of w *)
| SOther (tag : N) (f : bool) (d : option (list batch)).
    (* any other byte string: does it pass the framing guard, what arrow reads from it *)

Fixpoint swire_eqb (a b : swire) : bool :=
  match a, b with
  | SIpc x, SIpc y => list_eqb batch_eqb x y
  | SZ x, SZ y => swire_eqb x y
  | SOther t f d, SOther t' f' d' => (t =? t') && Bool.eqb f f' && opt_eqb (list_eqb batch_eqb) d d'
  | _, _ => false
  end.

Definition sdec (w : swire) : option (list batch) :=
  match w with SIpc bs => Some bs | SZ _ => None | SOther _ _ d => d end.
(* a zstd frame starts with the magic 28 B5 2F FD: a negative metadata length *)
Definition sframed (w : swire) : bool :=
  match w with SIpc _ => true | SZ _ => false | SOther _ f _ => f end.
Definition sdecomp (w : swire) : option swire :=
  match w with SZ x => Some x | _ => None end.

Definition shatbl := list (swire * bytes).
Fixpoint ssha (t : shatbl) (w : swire) : bytes :=
  match t with
  | [] => []
  | (w', h) :: r => if swire_eqb w' w then h else ssha r w
  end.

Definition sexternalize_by (carry : bool) (t : shatbl) := externalize_by swire SIpc SZ (ssha t) carry.
Definition sexternalize (t : shatbl) := sexternalize_by true t.
Definition sresolve (t : shatbl) := resolve swire sdec sdecomp (ssha t) sframed.
Definition sfetch := fetch swire sdecomp.

(* ---- correspondence interface ---------------------------------------------- *)
Inductive sha_mod := ShaKeep | ShaDrop | ShaSet (h : bytes).
Definition apply_sha (sm : sha_mod) (m : meta) : meta :=
  match sm with
  | ShaKeep => m
  | ShaDrop => filter (fun kv => negb (beqb (fst kv) c30_k_sha)) m
  | ShaSet h => map (fun kv => if beqb (fst kv) c30_k_sha then (c30_k_sha, h) else kv) m
  end.

(* the entry points that materialize an externally uploaded request / input batch:
   http_unary.go handleUnary, http_stream.go handleStreamInit and handleStreamExchange,
   server_stream.go serveStream (exchange input on the pipe).  Each hands the batch and the
   batch's OWN metadata (all of it) to ResolveExternalLocation. *)
Inductive route := RtHttpUnary | RtHttpInit | RtHttpExchange | RtPipeExchange.

Inductive input :=
(* externalize (b, side) under c, then resolve what came back (pointer sha edited by sm)
   against an origin serving the upload, or [sv] in its place *)
| Round (t : shatbl) (c : option cfg) (b : batch) (size : Z) (side : meta) (up : upscript)
        (sm : sha_mod) (sv : option (swire * bool))
(* resolve a hand-built (batch, metadata) against a hand-built origin *)
| Res (t : shatbl) (c : option cfg) (p : batch) (m : meta) (srv : option (served swire))
(* overlapped externalizations of jobs (batch k, storage URL k) under schedule s (zstd or no
   compression, empty side metadata, threshold 1), then every pointer is resolved against
   the object stored for it *)
| Conc (t : shatbl) (z : bool) (v : validator) (jobs : list (batch * bytes)) (s : list step)
(* a pointer REQUEST batch (p, its whole custom metadata m: method, version, location, checksum,
   possibly log level, tokens) sent end to end to an entry point that resolves it before
   dispatch; observed: what the handler was given / the refusal *)
| Route (t : shatbl) (rt : route) (v : validator) (p : batch) (m : meta) (srv : option (served swire)).

Record job_out := {
  jo_batch : batch; jo_meta : meta;           (* what externalization k returned *)
  jo_up : list (swire * bool);                (* what the storage ended up holding for it *)
  jo_res : option res_out }.                  (* resolving that pointer *)

Inductive obs :=
| ORound (xb : batch) (xm : meta) (xerr : bool) (ups : list (swire * bool)) (res : option res_out)
| ORes (res : res_out)
| OConc (outs : list job_out)
| ORoute (r : res_out).   (* ROk b []: the handler was given b; RErr: refused; RPass: not resolved *)

Definition dummy_batch : batch :=
  {| b_schema := []; b_smeta := []; b_rows := 0; b_vals := []; b_meta := [] |}.
Definition dummy_out : job_out := {| jo_batch := dummy_batch; jo_meta := []; jo_up := []; jo_res := None |}.
Definition conc_cfg (z : bool) (v : validator) : cfg :=
  {| c_storage := true; c_thr := 1; c_comp := if z then Some alg_zstd else None; c_level := 0; c_val := v |}.
Definition job_batch (jobs : list (batch * bytes)) (k : nat) : batch := fst (nth k jobs (dummy_batch, [])).
Definition job_url (jobs : list (batch * bytes)) (k : nat) : bytes := snd (nth k jobs (dummy_batch, [])).

Definition conc_job_out (t : shatbl) (z : bool) (v : validator) (jobs : list (batch * bytes))
           (st : cstate swire) (k : nat) : job_out :=
  let b := job_batch jobs k in
  let url := job_url jobs k in
  let j := cs_job st k in
  match j_sha j, j_obj j with
  | Some h, Some o =>
      {| jo_batch := pointer_batch b; jo_meta := pointer_meta url h; jo_up := [(o, z)];
         jo_res := Some (sresolve t (Some (conc_cfg z v)) (pointer_batch b) (pointer_meta url h)
                                  (Some (Build_served url o z))) |}
  | _, _ => {| jo_batch := b; jo_meta := []; jo_up := []; jo_res := None |}
  end.
Definition conc_outs (pooled : bool) (t : shatbl) (z : bool) (v : validator)
           (jobs : list (batch * bytes)) (s : list step) : list job_out :=
  let st := srun swire SIpc SZ (ssha t) pooled z (job_batch jobs) (cs0 swire) s in
  map (conc_job_out t z v jobs st) (seq 0 (length jobs)).

Definition round_srv (up : upscript) (sv : option (swire * bool)) (ups : list (swire * bool))
  : option (served swire) :=
  match up with
  | UpFail => None
  | UpOk url =>
      match sv with
      | Some (w, z) => Some (Build_served url w z)
      | None => match ups with (w, z) :: _ => Some (Build_served url w z) | [] => None end
      end
  end.

(* the fetch-info metadata is not visible to a handler *)
Definition strip_meta (r : res_out) : res_out :=
  match r with ROk b _ => ROk b [] | _ => r end.

Definition model_by (carry : bool) (i : input) : obs :=
  match i with
  | Round t c b size side up sm sv =>
      let x := sexternalize_by carry t c b size side up in
      ORound (x_batch x) (x_meta x) (x_err x) (x_up x)
        (if x_err x then None
         else Some (sresolve t c (x_batch x) (apply_sha sm (x_meta x)) (round_srv up sv (x_up x))))
  | Res t c p m srv => ORes (sresolve t c p m srv)
  | Conc t z v jobs s => OConc (conc_outs false t z v jobs s)
  | Route t rt v p m srv => ORoute (strip_meta (sresolve t (Some (conc_cfg false v)) p m srv))
  end.
Definition model : input -> obs := model_by true.
(* the shared-pool variant of the serialization buffer (never the code on main) *)
Definition model_pooled (i : input) : obs :=
  match i with
  | Conc t z v jobs s => OConc (conc_outs true t z v jobs s)
  | _ => model i
  end.
(* before 36fcb9e: the upload did not carry the side metadata *)
Definition model_legacy : input -> obs := model_by false.

Definition res_eqb (a b : res_out) : bool :=
  match a, b with
  | RPass x m, RPass y n => batch_eqb x y && meta_eqb m n
  | ROk x m, ROk y n => batch_eqb x y && meta_eqb m n
  | RErr e, RErr f => ecls_eqb e f
  | _, _ => false
  end.
Definition ups_eqb : list (swire * bool) -> list (swire * bool) -> bool :=
  list_eqb (pair_eqb swire_eqb Bool.eqb).
Definition obs_eqb (a b : obs) : bool :=
  match a, b with
  | ORound xb xm xe ups r, ORound xb' xm' xe' ups' r' =>
      batch_eqb xb xb' && meta_eqb xm xm' && Bool.eqb xe xe' && ups_eqb ups ups' && opt_eqb res_eqb r r'
  | ORes r, ORes r' => res_eqb r r'
  | ORoute r, ORoute r' => res_eqb r r'
  | OConc a, OConc b =>
      list_eqb (fun x y => batch_eqb (jo_batch x) (jo_batch y) && meta_eqb (jo_meta x) (jo_meta y)
                           && ups_eqb (jo_up x) (jo_up y) && opt_eqb res_eqb (jo_res x) (jo_res y)) a b
  | _, _ => false
  end.

(* ---- the property in decidable form, on the implementation's observables ---- *)
Definition is_data (b : batch) : bool := is_data_by classify b.
Definition is_ptr (b : batch) : bool := is_ptr_by classify b.

(* externalization is due: storage configured, rows > 0, buffer size at or above the threshold *)
Definition should_ext (c : option cfg) (b : batch) (size : Z) : bool :=
  match c with
  | None => false
  | Some c => c_storage c && negb (b_rows b =? 0) && (threshold c <=? size)%Z
  end.
Definition lvl_bad (c : option cfg) : bool := match c with Some c => level_bad c | None => false end.
Definition zflag (c : option cfg) : bool := match c with Some c => zstd_on c | None => false end.
Definition vld (c : option cfg) : validator := match c with Some c => c_val c | None => VNone end.
Definition nonempty {A} (l : list A) : bool := match l with [] => false | _ => true end.

(* what a successful resolution must look like, given the pointer metadata it was asked
   to resolve and the origin: the download (content-decoded) matches the checksum when one
   is given, is well framed, decodes to a stream without pointers, and the result is a DATA
   batch of it.  (A refusal is always acceptable for a tampered or truncated object.) *)
Definition ok_is_sound (t : shatbl) (m : meta) (srv : option (served swire)) (r : batch) : bool :=
  match mget m c30_k_location with
  | None => false
  | Some u =>
      match sfetch srv u with
      | None => false
      | Some w =>
          sha_ok swire (ssha t) m w && sframed w &&
          match sdec w with
          | None => false
          | Some bs => existsb (batch_eqb r) bs && is_data r && negb (mhas (b_meta r) c30_k_log_level)
                       && negb (existsb is_ptr bs)
          end
      end
  end.

(* an honest origin: pointer accepted, the download IS an intact IPC stream (not merely bytes
   arrow can read something from), stream = logs + exactly one data batch *)
Definition honest (t : shatbl) (c : option cfg) (rows : N) (m : meta) (srv : option (served swire))
  : option batch :=
  match c with
  | None => None
  | Some c =>
      if is_pointer rows m then
        match mget m c30_k_location with
        | Some (x :: u) =>
            if url_ok (c_val c) (x :: u) then
              match sfetch srv (x :: u) with
              | Some w =>
                  if sha_ok swire (ssha t) m w then
                    match w with
                    | SIpc bs =>
                        if existsb is_ptr bs then None
                        else match filter is_data bs with [d] => Some d | _ => None end
                    | _ => None
                    end
                  else None
              | None => None
              end
            else None
        | _ => None
        end
      else None
  end.

Definition spec_res (t : shatbl) (c : option cfg) (p : batch) (m : meta) (srv : option (served swire))
           (r : res_out) : bool :=
  (* nothing but a data batch of the verified download is ever returned *)
  match r with
  | ROk b m' => ok_is_sound t m srv b
  | RPass b m' => negb (match c with Some _ => is_pointer (b_rows p) m | None => false end)
                  && batch_eqb b p && meta_eqb m' m
  | RErr _ => match c with Some _ => is_pointer (b_rows p) m | None => false end
  end
  (* and the honest case resolves to exactly that batch, custom metadata included *)
  && match honest t c (b_rows p) m srv with
     | Some d => match r with
                 | ROk b m' => batch_eqb b d
                 | _ => false
                 end
     | None => true
     end.

Definition spec_ok_seq (i : input) (o : obs) : bool :=
  match i, o with
  | Round t c b size side up sm sv, ORound xb xm xerr ups res =>
      if should_ext c b size then
        if lvl_bad c then
          (* unsupported zstd level: refused before anything leaves the process *)
          xerr && batch_eqb xb b && meta_eqb xm side && negb (nonempty ups)
        else
          (* the uploaded object is the IPC stream of exactly [b] carrying own ++ side custom
             metadata, compressed iff configured *)
          ups_eqb ups [((if zflag c then SZ (SIpc [with_side b side]) else SIpc [with_side b side]), zflag c)]
          && match up with
             | UpFail => xerr && batch_eqb xb b && meta_eqb xm side
             | UpOk url =>
                 negb xerr && batch_eqb xb (pointer_batch b)
                 && is_pointer (b_rows xb) xm
                 && opt_eqb beqb (mget xm c30_k_location) (Some url)
                 (* checksum of the RAW stream, not of what was uploaded *)
                 && opt_eqb beqb (mget xm c30_k_sha) (Some (ssha t (SIpc [with_side b side])))
             end
      else
        negb xerr && batch_eqb xb b && meta_eqb xm side && negb (nonempty ups)
  | _, _ => true
  end
  &&
  match i, o with
  | Round t c b size side up sm sv, ORound xb xm xerr ups res =>
      match res with
      | None => xerr
      | Some r =>
          negb xerr &&
          spec_res t c xb (apply_sha sm xm) (round_srv up sv ups) r
          (* the round trip itself: untouched pointer, untouched upload.  Equal in custom
             metadata = the resolved batch carries own ++ side, in that order *)
          && (if should_ext c b size && negb (lvl_bad c)
                 && match sm, sv with ShaKeep, None => true | _, _ => false end
                 && match up with UpOk (x :: u) => url_ok (vld c) (x :: u) | _ => false end
                 && negb (mhas (b_meta b ++ side) c30_k_log_level)
              then match r with
                   | ROk b' m' => batch_eqb b' (with_side b side)
                   | _ => false
                   end
              else true)
      end
  | Res t c p m srv, ORes r => spec_res t c p m srv r
  | _, _ => false
  end.

(* overlapped externalizations: every pointer names its own URL and the checksum of its own
   raw stream, the object stored for it is the stream of ITS batch (compressed iff
   configured), and it resolves to exactly its own batch *)
Definition spec_job (t : shatbl) (z : bool) (b : batch) (url : bytes) (o : job_out) : bool :=
  batch_eqb (jo_batch o) (pointer_batch b)
  && opt_eqb beqb (mget (jo_meta o) c30_k_location) (Some url)
  && opt_eqb beqb (mget (jo_meta o) c30_k_sha) (Some (ssha t (SIpc [b])))
  && ups_eqb (jo_up o) [((if z then SZ (SIpc [b]) else SIpc [b]), z)]
  && match jo_res o with Some (ROk b' _) => batch_eqb b' b | _ => false end.

Definition spec_ok (i : input) (o : obs) : bool :=
  match i, o with
  | Conc t z v jobs s, OConc outs =>
      Nat.eqb (length outs) (length jobs)
      && forallb (fun k => spec_job t z (job_batch jobs k) (job_url jobs k) (nth k outs dummy_out))
                 (seq 0 (length jobs))
  | Conc _ _ _ _ _, _ => false
  | _, OConc _ => false
  (* on EVERY entry point: what reaches the handler is a data batch of the checksum-verified,
     well-framed download; an honest download is delivered; refusals only for pointers *)
  | Route t rt v p m srv, ORoute r => spec_res t (Some (conc_cfg false v)) p m srv r
  | Route _ _ _ _ _ _, _ => false
  | _, ORoute _ => false
  | _, _ => spec_ok_seq i o
  end.

(* the digest table knows the raw stream (SHA-256 hex is never the empty string) *)
Definition digest_ok (i : input) : bool :=
  match i with
  | Round t _ b _ side _ _ _ => nonempty (ssha t (SIpc [with_side b side]))
  | Res _ _ _ _ _ => true
  | Conc t _ _ jobs _ => forallb (fun j => nonempty (ssha t (SIpc [fst j]))) jobs
  | Route _ _ _ _ _ _ => true
  end.

(* what the overlapped runs are quantified over: a schedule that keeps every externalization's
   program order, batches with rows that are not tagged as logs, accepted non-empty URLs *)
Definition conc_ok (i : input) : bool :=
  match i with
  | Conc t z v jobs s =>
      wf_sched z (length jobs) s
      && forallb (fun j => negb (b_rows (fst j) =? 0) && negb (mhas (b_meta (fst j)) c30_k_log_level)
                           && nonempty (snd j) && url_ok v (snd j)) jobs
  | _ => true
  end.
