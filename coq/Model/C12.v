(* Model/C12.v — forged or altered state tokens never reach stream state.
   Go: vgirpc/http_state.go (sealToken, openToken, unpackTokenPayload, checkTokenAge,
   openCursorToken, resolveCall, normalizeTokenKey, callStateCache.get/put) and
   vgirpc/http_stream.go (handleStreamExchange: order of actions).

   Envelope: text = stdbase64( version byte :: nonce(24) ++ ciphertext ).  [open_token]
   is the pipeline of checks with explicit failure classes, in the code's order:
   base64 decode, canonical text (fix 99fee40), minimum length, version byte, AEAD open
   under key + associated data, then (only for authenticated plaintexts) codec tag /
   zstd / gob / age.  The AEAD is a parameter ([openx]); gob, zstd and the payload
   layout are folded into it: a plaintext is a [payload].  The executable [model]
   instantiates [openx] with a lookup in the table of the tokens that really were
   sealed (reference tokens of the case, minted by real servers): only sealed
   ciphertexts open — the ideal functionality.  base64 is DEFINED (not assumed):
   [b64_lenient] is encoding/base64.StdEncoding.DecodeString (CR/LF skipped anywhere,
   slack bits of the last quantum ignored), [b64enc] is EncodeToString. *)
From VR Require Export Lib.Strs Gen.Consts.
Open Scope N_scope.

(* ---- encoding/base64, StdEncoding ------------------------------------------- *)
(* the alphabet as two decision trees (a chain of comparisons costs the evaluator ten times as much) *)
Definition b64val (c : N) : option N :=
  match c with
  | 65 => Some 0 | 66 => Some 1 | 67 => Some 2 | 68 => Some 3 | 69 => Some 4 | 70 => Some 5 | 71 => Some 6 | 72 => Some 7
  | 73 => Some 8 | 74 => Some 9 | 75 => Some 10 | 76 => Some 11 | 77 => Some 12 | 78 => Some 13 | 79 => Some 14 | 80 => Some 15
  | 81 => Some 16 | 82 => Some 17 | 83 => Some 18 | 84 => Some 19 | 85 => Some 20 | 86 => Some 21 | 87 => Some 22 | 88 => Some 23
  | 89 => Some 24 | 90 => Some 25 | 97 => Some 26 | 98 => Some 27 | 99 => Some 28 | 100 => Some 29 | 101 => Some 30 | 102 => Some 31
  | 103 => Some 32 | 104 => Some 33 | 105 => Some 34 | 106 => Some 35 | 107 => Some 36 | 108 => Some 37 | 109 => Some 38 | 110 => Some 39
  | 111 => Some 40 | 112 => Some 41 | 113 => Some 42 | 114 => Some 43 | 115 => Some 44 | 116 => Some 45 | 117 => Some 46 | 118 => Some 47
  | 119 => Some 48 | 120 => Some 49 | 121 => Some 50 | 122 => Some 51 | 48 => Some 52 | 49 => Some 53 | 50 => Some 54 | 51 => Some 55
  | 52 => Some 56 | 53 => Some 57 | 54 => Some 58 | 55 => Some 59 | 56 => Some 60 | 57 => Some 61 | 43 => Some 62 | 47 => Some 63
  | _ => None
  end.

Definition b64chr (v : N) : N :=
  match v with
  | 0 => 65 | 1 => 66 | 2 => 67 | 3 => 68 | 4 => 69 | 5 => 70 | 6 => 71 | 7 => 72
  | 8 => 73 | 9 => 74 | 10 => 75 | 11 => 76 | 12 => 77 | 13 => 78 | 14 => 79 | 15 => 80
  | 16 => 81 | 17 => 82 | 18 => 83 | 19 => 84 | 20 => 85 | 21 => 86 | 22 => 87 | 23 => 88
  | 24 => 89 | 25 => 90 | 26 => 97 | 27 => 98 | 28 => 99 | 29 => 100 | 30 => 101 | 31 => 102
  | 32 => 103 | 33 => 104 | 34 => 105 | 35 => 106 | 36 => 107 | 37 => 108 | 38 => 109 | 39 => 110
  | 40 => 111 | 41 => 112 | 42 => 113 | 43 => 114 | 44 => 115 | 45 => 116 | 46 => 117 | 47 => 118
  | 48 => 119 | 49 => 120 | 50 => 121 | 51 => 122 | 52 => 48 | 53 => 49 | 54 => 50 | 55 => 51
  | 56 => 52 | 57 => 53 | 58 => 54 | 59 => 55 | 60 => 56 | 61 => 57 | 62 => 43 | 63 => 47
  | _ => 0
  end.

Definition pad : N := 61.
Definition is_nl (c : N) : bool := (c =? 10) || (c =? 13).

(* quanta of four characters; padding only in the last one; nothing after it *)
Fixpoint dec_q (s : bytes) : option bytes :=
  match s with
  | [] => Some []
  | a :: b :: c :: d :: r =>
      match b64val a, b64val b with
      | Some va, Some vb =>
          match b64val c with
          | Some vc =>
              match b64val d with
              | Some vd =>
                  match dec_q r with
                  | Some t => Some (N.shiftl va 2 + N.shiftr vb 4 :: N.shiftl (N.land vb 15) 4 + N.shiftr vc 2 :: N.shiftl (N.land vc 3) 6 + vd :: t)
                  | None => None
                  end
              | None => if (d =? pad) then match r with [] => Some [N.shiftl va 2 + N.shiftr vb 4; N.shiftl (N.land vb 15) 4 + N.shiftr vc 2] | _ => None end else None
              end
          | None => if (c =? pad) && (d =? pad) then match r with [] => Some [N.shiftl va 2 + N.shiftr vb 4] | _ => None end else None
          end
      | _, _ => None
      end
  | _ => None
  end.

(* DecodeString: newline characters are skipped wherever they stand *)
Definition b64_lenient (t : bytes) : option bytes := dec_q (filter (fun c => negb (is_nl c)) t).

Fixpoint b64enc (r : bytes) : bytes :=
  match r with
  | [] => []
  | [a] => [b64chr (N.shiftr a 2); b64chr (N.shiftl (N.land a 3) 4); pad; pad]
  | [a; b] => [b64chr (N.shiftr a 2); b64chr (N.shiftl (N.land a 3) 4 + N.shiftr b 4);
               b64chr (N.shiftl (N.land b 15) 2); pad]
  | a :: b :: c :: t =>
      b64chr (N.shiftr a 2) :: b64chr (N.shiftl (N.land a 3) 4 + N.shiftr b 4)
        :: b64chr (N.shiftl (N.land b 15) 2 + N.shiftr c 6) :: b64chr (N.land c 63) :: b64enc t
  end.

(* ---- slots, payloads, failure classes, response labels ----------------------- *)
Inductive slot := SCursor | SCall.
Inductive route := RProd | RExch.      (* the stream methods of the scripted surface *)
Definition route_eqb (a b : route) : bool :=
  match a, b with RProd, RProd | RExch, RExch => true | _, _ => false end.
Definition slot_eqb (a b : slot) : bool :=
  match a, b with SCursor, SCursor | SCall, SCall => true | _, _ => false end.

Definition ver_of (s : slot) : N :=
  Z.to_N match s with SCursor => tokver_cursor | SCall => tokver_call end.
Definition aad_of (s : slot) : bytes :=       (* anonymous caller; identities are C13 *)
  match s with SCursor => aad_prefix_cursor | SCall => aad_prefix_call end ++ aad_anon_tail.
Definition min_len : N := Z.to_N c12_min_len.

(* what a sealed plaintext is, as far as the pipeline distinguishes.  The first four are
   what only a holder of the key could seal but the honest sealToken never does. *)
Inductive payload :=
| PEmpty | PBadTag | PBadZstd | PBadGob
| PCursor (expired : bool) (callid : N)
| PCall (expired : bool) (callid : N) (m : route).

Inductive fail :=
| FBase64 | FNonCanonical | FShort | FVersion (v : N) | FSignature   (* authenticity *)
| FEmpty | FCodecTag | FZstd | FGob | FExpired.                       (* reachable only with the key *)

Definition auth_fail (f : fail) : bool :=
  match f with FBase64 | FNonCanonical | FShort | FVersion _ | FSignature => true | _ => false end.

(* the body of a response, up to byte identity *)
Inductive label :=
| LOk
| LMalformed | LVersion (v expected : N) | LSignature
| LDecode | LExpired
| LMissingState | LMissingCall | LWrongMethod
| LOther.                          (* anything else the harness sees; never produced by the model *)

Definition label_eqb (a b : label) : bool :=
  match a, b with
  | LOk, LOk | LMalformed, LMalformed | LSignature, LSignature | LDecode, LDecode | LExpired, LExpired
  | LMissingState, LMissingState | LMissingCall, LMissingCall | LWrongMethod, LWrongMethod
  | LOther, LOther => true
  | LVersion v e, LVersion v' e' => (v =? v') && (e =? e')
  | _, _ => false
  end.

Definition label_of (s : slot) (f : fail) : label :=
  match f with
  | FBase64 | FNonCanonical | FShort | FEmpty | FCodecTag | FZstd => LMalformed
  | FVersion v => LVersion v (ver_of s)
  | FSignature => LSignature
  | FGob => LDecode
  | FExpired => LExpired
  end.

(* unpackTokenPayload, gob decode into the slot's struct, checkTokenAge *)
Definition check_payload (s : slot) (p : payload) : fail + (N * route) :=
  match p with
  | PEmpty => inl FEmpty
  | PBadTag => inl FCodecTag
  | PBadZstd => inl FZstd
  | PBadGob => inl FGob
  | PCursor e c => match s with SCursor => if e then inl FExpired else inr (c, RProd) | SCall => inl FGob end
  | PCall e c m => match s with SCall => if e then inl FExpired else inr (c, m) | SCursor => inl FGob end
  end.

(* the key-independent shape of a presented text *)
Inductive shape := ShMalformed | ShVersion (v : N) | ShWell (body : bytes).
Definition shape_of (strict : bool) (s : slot) (t : bytes) : shape :=
  match b64_lenient t with
  | None => ShMalformed
  | Some raw =>
      if strict && negb (beqb (b64enc raw) t) then ShMalformed
      else if N.of_nat (length raw) <? min_len then ShMalformed
      else match raw with
           | [] => ShMalformed
           | v :: body => if v =? ver_of s then ShWell body else ShVersion v
           end
  end.

Inductive act :=
| AReadBody | AParseRequest
| AOpenCursor (ok : bool) | ACacheGet (hit : bool) | AOpenCall (ok : bool) | AMethodCheck (ok : bool)
| ARehydrate | AHookStart | AStateMethod | ACancelMethod | AHookEnd   (* ACancelMethod = the state's OnCancel *)
| ARespond (status : N) (l : label).

Definition user_code (a : act) : bool :=
  match a with ARehydrate | AHookStart | AStateMethod | ACancelMethod | AHookEnd => true | _ => false end.

(* q_cancel: the continuation carries the cancel key (handleStreamCancel instead of a turn) *)
Record req := { q_route : route; q_cursor : option bytes; q_call : option bytes; q_cancel : bool }.

(* ---- the pipeline and the handler, parametric in the AEAD --------------------- *)
Section Pipeline.
  Variable K : Type.                                        (* normalised 32-byte keys *)
  Variable openx : K -> bytes -> bytes -> option payload.  (* key, aad, nonce ++ ct *)
  Variable strict : bool.           (* canonical-text check present (after fix 99fee40) *)
  Variable k : K.                   (* this server's key *)

  (* openToken (+ the age check its two callers make) *)
  Definition open_token (s : slot) (t : bytes) : fail + (N * route) :=
    match b64_lenient t with
    | None => inl FBase64
    | Some raw =>
        if strict && negb (beqb (b64enc raw) t) then inl FNonCanonical
        else if N.of_nat (length raw) <? min_len then inl FShort
        else match raw with
             | [] => inl FShort
             | v :: body =>
                 if negb (v =? ver_of s) then inl (FVersion v)
                 else match openx k (aad_of s) body with
                      | None => inl FSignature
                      | Some p => check_payload s p
                      end
             end
    end.

  Definition cache := list (N * route).      (* call id -> method; [cold] = cache disabled *)
  Fixpoint cache_get (c : cache) (id : N) : option route :=
    match c with
    | [] => None
    | (i, m) :: r => if i =? id then Some m else cache_get r id
    end.
  Definition cache_put (cold : bool) (c : cache) (id : N) (m : route) : cache :=
    if cold then c else match cache_get c id with Some _ => c | None => (id, m) :: c end.

  Definition pre : list act := [AReadBody; AParseRequest].
  Definition run_user (cancel : bool) : list act :=
    [ARehydrate; AHookStart; if cancel then ACancelMethod else AStateMethod; AHookEnd; ARespond 200 LOk].

  (* handleStreamExchange from the token extraction on *)
  Definition handle (cold : bool) (c : cache) (q : req) : list act * cache :=
    match q_cursor q with
    | None => (pre ++ [ARespond 400 LMissingState], c)
    | Some tc =>
        match open_token SCursor tc with
        | inl f => (pre ++ [AOpenCursor false; ARespond 400 (label_of SCursor f)], c)
        | inr (cid, _) =>
            let finish (acts : list act) (m : route) (c' : cache) :=
              if route_eqb m (q_route q)
              then (pre ++ AOpenCursor true :: acts ++ AMethodCheck true :: run_user (q_cancel q), c')
              else (pre ++ AOpenCursor true :: acts ++ [AMethodCheck false; ARespond 400 LWrongMethod], c') in
            match (if cold then None else cache_get c cid) with
            | Some m => finish [ACacheGet true] m c
            | None =>
                match q_call q with
                | None | Some [] => (pre ++ [AOpenCursor true; ACacheGet false; ARespond 400 LMissingCall], c)
                | Some tk =>
                    match open_token SCall tk with
                    | inl f => (pre ++ [AOpenCursor true; ACacheGet false; AOpenCall false; ARespond 400 (label_of SCall f)], c)
                    | inr (cid', m) =>
                        if cid' =? cid
                        then finish [ACacheGet false; AOpenCall true] m (cache_put cold c cid m)
                        else (pre ++ [AOpenCursor true; ACacheGet false; AOpenCall true; ARespond 400 LMalformed], c)
                    end
                end
            end
        end
    end.
End Pipeline.

(* ---- correspondence interface ------------------------------------------------- *)
(* a reference token: really sealed by some server (key class 0 = a key that
   normalizeTokenKey maps to this server's AEAD key) for a slot, with what it carries *)
Record ref := { r_text : bytes; r_key : N; r_slot : slot; r_pay : payload }.

(* a presented text = a mutation of a reference token *)
Inductive mut :=
| MNone                                   (* metadata key absent *)
| MId (r : nat)
| MLit (t : bytes)
| MFlip (r pos : nat) (bit : N)           (* one bit of the TEXT *)
| MTrunc (r n : nat)                      (* first n characters of the text *)
| MSetChar (r pos : nat) (c : N)
| MIns (r pos : nat) (c : N)
| MAppend (r : nat) (t : bytes)
| MUrl (r : nat)                          (* url-safe alphabet *)
| MNoPad (r : nat)                        (* padding stripped *)
| MSetVer (r : nat) (v : N)               (* raw envelope edited, text canonical again *)
| MRawFlip (r pos : nat) (bit : N)
| MRawTrunc (r n : nat)
| MRawAppend (r : nat) (t : bytes).

Inductive fam :=
| FOne (cur call : mut)
| FFlips (s : slot) (r partner lo hi : nat)       (* every bit of text positions lo .. hi-1 *)
| FTruncs (s : slot) (r partner lo hi : nat)      (* every text length lo .. hi-1 *)
| FVers (s : slot) (r partner : nat)              (* all 256 version bytes *)
| FChars (s : slot) (r partner pos : nat)         (* all 256 byte values at one text position *)
| FRawFlips (s : slot) (r partner lo hi : nat).   (* every bit of raw bytes lo .. hi-1 *)

Record input := {
  i_route : route; i_cold : bool;
  i_cancel : bool;                    (* every presentation of the case is a CANCEL continuation *)
  i_refs : list ref;
  i_warm : list (N * route);          (* call ids the server's /init calls put in the cache *)
  i_fams : list fam }.

Record pobs := { o_status : N; o_label : label; o_body : N; o_evs : list N; o_acc : bool }.
Definition obs := list pobs.

Definition ev_code (a : act) : N :=
  match a with ARehydrate => 1 | AHookStart => 2 | AStateMethod => 3 | AHookEnd => 4 | ACancelMethod => 5 | _ => 0 end.

Definition text_of (refs : list ref) (r : nat) : bytes :=
  match nth_error refs r with Some x => r_text x | None => [] end.
Definition raw_of (refs : list ref) (r : nat) : bytes :=
  match b64_lenient (text_of refs r) with Some x => x | None => [] end.

Fixpoint set_nth (l : bytes) (n : nat) (f : N -> N) : bytes :=
  match l, n with
  | [], _ => []
  | x :: t, O => f x :: t
  | x :: t, S n' => x :: set_nth t n' f
  end.
Definition flip_bit (bit : N) (x : N) : N := N.lxor x (2 ^ bit).
Definition url1 (c : N) : N := if c =? 43 then 45 else if c =? 47 then 95 else c.

Definition present (refs : list ref) (m : mut) : option bytes :=
  match m with
  | MNone => None
  | MId r => Some (text_of refs r)
  | MLit t => Some t
  | MFlip r p b => Some (set_nth (text_of refs r) p (flip_bit b))
  | MTrunc r n => Some (firstn n (text_of refs r))
  | MSetChar r p c => Some (set_nth (text_of refs r) p (fun _ => c))
  | MIns r p c => Some (firstn p (text_of refs r) ++ c :: skipn p (text_of refs r))
  | MAppend r t => Some (text_of refs r ++ t)
  | MUrl r => Some (map url1 (text_of refs r))
  | MNoPad r => Some (filter (fun c => negb (c =? pad)) (text_of refs r))
  | MSetVer r v => Some (b64enc (v :: tl (raw_of refs r)))
  | MRawFlip r p b => Some (b64enc (set_nth (raw_of refs r) p (flip_bit b)))
  | MRawTrunc r n => Some (b64enc (firstn n (raw_of refs r)))
  | MRawAppend r t => Some (b64enc (raw_of refs r ++ t))
  end.

Definition bits : list N := [0; 1; 2; 3; 4; 5; 6; 7].
Definition pair_for (s : slot) (partner : nat) (m : mut) : mut * mut :=
  match s with SCursor => (m, MId partner) | SCall => (MId partner, m) end.
Definition bytes256 : list N := map N.of_nat (seq 0 256).

Definition expand1 (f : fam) : list (mut * mut) :=
  match f with
  | FOne a b => [(a, b)]
  | FFlips s r p lo hi =>
      flat_map (fun pos => map (fun b => pair_for s p (MFlip r pos b)) bits) (seq lo (hi - lo))
  | FTruncs s r p lo hi => map (fun n => pair_for s p (MTrunc r n)) (seq lo (hi - lo))
  | FVers s r p => map (fun v => pair_for s p (MSetVer r v)) bytes256
  | FChars s r p pos => map (fun c => pair_for s p (MSetChar r pos c)) bytes256
  | FRawFlips s r p lo hi =>
      flat_map (fun pos => map (fun b => pair_for s p (MRawFlip r pos b)) bits) (seq lo (hi - lo))
  end.
Definition expand (fs : list fam) : list (mut * mut) := flat_map expand1 fs.

(* the table AEAD: only what was sealed opens (key class, associated data, nonce ++ ct) *)
Definition entry : Type := N * slot * bytes * payload.
(* a reference enters the table only as the canonical text of an envelope with its slot's version *)
Definition entry_of (r : ref) : list entry :=
  match b64_lenient (r_text r) with
  | Some (v :: body) =>
      if (v =? ver_of (r_slot r)) && beqb (b64enc (v :: body)) (r_text r)
      then [(r_key r, r_slot r, body, r_pay r)] else []
  | _ => []
  end.
Definition table_of (refs : list ref) : list entry := flat_map entry_of refs.
Fixpoint tbl_open (tb : list entry) (k : N) (a body : bytes) : option payload :=
  match tb with
  | [] => None
  | (k', s, b, p) :: r =>
      if (k' =? k) && beqb (aad_of s) a && beqb b body then Some p else tbl_open r k a body
  end.

(* body identities: the n-th distinct refusal body gets id n (1-based); accepted
   responses and expiry messages (which print an age) get 0 *)
Definition has_body_id (l : label) : bool :=
  match l with LOk | LExpired | LDecode => false | _ => true end.
Fixpoint lookup_label (m : list (label * N)) (l : label) : option N :=
  match m with
  | [] => None
  | (l', n) :: r => if label_eqb l' l then Some n else lookup_label r l
  end.
Definition body_id (m : list (label * N)) (l : label) : N * list (label * N) :=
  if has_body_id l then
    match lookup_label m l with
    | Some n => (n, m)
    | None => let n := N.of_nat (S (length m)) in (n, (l, n) :: m)
    end
  else (0, m).

Fixpoint last_resp (tr : list act) : N * label :=
  match tr with
  | [] => (0, LOk)
  | [ARespond s l] => (s, l)
  | _ :: r => last_resp r
  end.

Definition pobs_of (tr : list act) (bid : N) : pobs :=
  let '(s, l) := last_resp tr in
  {| o_status := s; o_label := l; o_body := bid;
     o_evs := map ev_code (filter user_code tr);
     o_acc := (s =? 200) && label_eqb l LOk |}.

Fixpoint run (strict : bool) (tb : list entry) (refs : list ref) (rt : route) (cold cn : bool)
             (c : list (N * route)) (bm : list (label * N)) (ps : list (mut * mut)) : obs :=
  match ps with
  | [] => []
  | (mc, mk) :: rest =>
      let q := {| q_route := rt; q_cursor := present refs mc; q_call := present refs mk; q_cancel := cn |} in
      let '(tr, c') := handle N (tbl_open tb) strict 0 cold c q in
      let '(bid, bm') := body_id bm (snd (last_resp tr)) in
      pobs_of tr bid :: run strict tb refs rt cold cn c' bm' rest
  end.

Definition model_with (strict : bool) (i : input) : obs :=
  run strict (table_of (i_refs i)) (i_refs i) (i_route i) (i_cold i) (i_cancel i)
      (if i_cold i then [] else i_warm i) [] (expand (i_fams i)).

Definition model : input -> obs := model_with true.
Definition model_legacy : input -> obs := model_with false.   (* before fix 99fee40 *)

Definition pobs_eqb (a b : pobs) : bool :=
  (o_status a =? o_status b) && label_eqb (o_label a) (o_label b) && (o_body a =? o_body b)
  && list_eqb N.eqb (o_evs a) (o_evs b) && Bool.eqb (o_acc a) (o_acc b).
Definition obs_eqb (a b : obs) : bool := list_eqb pobs_eqb a b.

(* the harness hands over the per-presentation observations as a dictionary + indices *)
Definition no_pobs : pobs := {| o_status := 0; o_label := LOther; o_body := 0; o_evs := []; o_acc := false |}.
Definition po (st : N) (l : label) (b : N) (e : list N) (a : bool) : pobs :=
  {| o_status := st; o_label := l; o_body := b; o_evs := e; o_acc := a |}.
(* indices of width 1 or 2 bytes *)
Fixpoint idx_list (wide : bool) (b : bytes) : list nat :=
  match b with
  | [] => []
  | x :: r =>
      if wide then match r with lo :: r' => N.to_nat (x * 256 + lo) :: idx_list wide r' | [] => [] end
      else N.to_nat x :: idx_list wide r
  end.
(* distinct observations; distinct runs of (up to) eight of them; the sequence of runs *)
Definition unpack (wide : bool) (dict : list pobs) (blocks : list bytes) (stream : bytes) : obs :=
  flat_map (fun bi => map (fun i => nth i dict no_pobs) (idx_list wide (nth bi blocks []))) (idx_list wide stream).

(* ---- the property, decided on the implementation's outputs -------------------- *)
(* is [t] exactly the text of a token sealed for [s] under this server's key? *)
Definition sealed_text (refs : list ref) (s : slot) (t : bytes) : bool :=
  existsb (fun r => (r_key r =? 0) && slot_eqb (r_slot r) s && beqb (r_text r) t) refs.

Definition client_error_label (l : label) : bool :=
  match l with LOk => false | _ => true end.

Definition opt_sealed (refs : list ref) (s : slot) (t : option bytes) : bool :=
  match t with Some x => sealed_text refs s x | None => false end.

(* what an authenticity failure must look like, from public data and the table of what was
   sealed alone: malformed / re-versioned envelopes by their shape, and EVERY well-formed
   envelope that is not byte for byte a token sealed for this slot under this key — bad tag,
   nonce or ciphertext, truncated or extended, another key, another slot — one and the same *)
Definition expected_auth_label (refs : list ref) (s : slot) (t : bytes) : option label :=
  match shape_of true s t with
  | ShMalformed => Some LMalformed
  | ShVersion v => Some (LVersion v (ver_of s))
  | ShWell _ => if sealed_text refs s t then None else Some LSignature
  end.

Definition pres_ok (refs : list ref) (cold : bool) (tc tk : option bytes) (o : pobs) : bool :=
  (* accepted only if the cursor text is, byte for byte, a token sealed under this key;
     and so is the call token whenever it has to be consulted (no cache) *)
  (if o_acc o then opt_sealed refs SCursor tc && (if cold then opt_sealed refs SCall tk else true)
   (* refused: a client error, and no rehydrate callback, dispatch hook or state method ran *)
   else (o_status o =? 400) && client_error_label (o_label o)
        && match o_evs o with [] => true | _ => false end)
  (* a cursor that fails authentication: refused, with the response its public class fixes *)
  && match tc with
     | Some t => match expected_auth_label refs SCursor t with
                 | Some l => negb (o_acc o) && label_eqb (o_label o) l
                 | None => true
                 end
     | None => true
     end.

(* equal labels <=> byte-identical bodies (ids of distinct bodies in order of appearance) *)
Fixpoint spec_run (refs : list ref) (cold : bool) (bm : list (label * N))
         (ps : list (mut * mut)) (o : obs) : bool :=
  match ps, o with
  | [], [] => true
  | (mc, mk) :: rest, x :: o' =>
      let '(bid, bm') := body_id bm (o_label x) in
      pres_ok refs cold (present refs mc) (present refs mk) x
      && (o_body x =? bid)
      && spec_run refs cold bm' rest o'
  | _, _ => false
  end.

Definition spec_ok (i : input) (o : obs) : bool :=
  spec_run (i_refs i) (i_cold i) [] (expand (i_fams i)) o.
